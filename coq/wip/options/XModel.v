(** The C11 model over the EXTENDED universe (Options/XValue.v): floats are
    arbitrary dyadic rationals, datetimes are atoms, and the options record
    has truncate_datetime and default_timezone (fixed offset, minutes).
    The dispatcher, key cleaning, set hashing etc. are those of OptModel.v
    (same names, shadowing); what is new:

      datetimes at a leaf   _diff_datetime: both sides go through
                            datetime_normalize (truncate in the own zone, THEN
                            convert to / assume default_timezone); the reported
                            values are the normalised ones
      datetimes as keys     never normalised; helper.numbers contains datetime, so
                            key cleaning sends them to number_to_string when a
                            precision is in force: TypeError (C11-DATETIME-KEY)
      datetimes in sets     hash text of the datetime normalised with
                            default_timezone but NOT truncated (DeepHash is not
                            given truncate_datetime); the text is a stand-in
                            "datetime:<instant>@<zone>" for str(datetime)
      floats                number_to_string / isclose on the exact value;
                            repr of a float without precision (hash text) is the
                            exact decimal expansion (<= 15 significant digits)

    Deviation: the real type group of ignore_numeric_type_changes contains the
    datetime types, which makes a datetime meet a number in _diff_datetime /
    _diff_numbers and raise (finding C11-NUMGROUP-DATETIME); the model keeps
    datetimes out of the group (reports a type change) and the correspondence
    check does not pair that option with datetimes.  Definitions only. *)
From Coq Require Import List ZArith NArith Bool Arith String.
Import ListNotations.
From DD Require Import Base.PyStr Options.OptModel Options.OptDtModel Options.XValue.

(* ---------------------------------------------------------------------- *)
(* results                                                                  *)
(* ---------------------------------------------------------------------- *)
Inductive ekind := EType (* TypeError *).
Inductive res (A : Type) := Ok (x : A) | Err (e : ekind).
Arguments Ok {A} x.
Arguments Err {A} e.
Definition bind {A B} (r : res A) (f : A -> res B) : res B :=
  match r with Ok x => f x | Err e => Err e end.

(* ---------------------------------------------------------------------- *)
(* options                                                                  *)
(* ---------------------------------------------------------------------- *)
Definition dy := (Z * N)%type.          (* the number  fst / 2^snd *)

Record opts := mkOpts {
  o_case : bool;              (* ignore_string_case *)
  o_strty : bool;             (* ignore_string_type_changes *)
  o_numty : bool;             (* ignore_numeric_type_changes *)
  o_sig : option N;           (* significant_digits (number_format_notation='f') *)
  o_eps : option dy;          (* math_epsilon: the exact value of the double *)
  o_excl : list ty;           (* exclude_types *)
  o_trunc : option tunit;     (* truncate_datetime *)
  o_tz : Z                    (* default_timezone: UTC offset in minutes (default 0) *)
}.
Definition no_opts : opts := mkOpts false false false None None [] None 0%Z.

(* Base.get_significant_digits *)
Definition eff_sig (F : opts) : option N :=
  match o_sig F with
  | Some d => Some d
  | None => if o_numty F then Some 12%N else None
  end.

(* isinstance(x, tuple(exclude_types)) by the type of x; bool is a subclass of int *)
Definition excluded (F : opts) (t : ty) : bool :=
  existsb (fun e => ty_eqb e t || (ty_eqb e TInt && ty_eqb t TBool)) (o_excl F).
Definition excl_opt (F : opts) (o : option value) : bool :=
  match o with Some v => excluded F (type_of v) | None => false end.

(* exact arithmetic on dyadic rationals: dy, rhe, num_str, is_close ... of OptModel.v *)
Definition dy_of_atom (a : atom) : option dy := num_of a.

(* datetime_normalize: the aware datetime in default_timezone with the instant dt_instant *)
Definition dt_norm (F : opts) (us : Z) (off : option Z) : atom :=
  ADt (dt_instant (o_trunc F) (o_tz F) (mkDt us off) + 60000000 * o_tz F)%Z (Some (o_tz F)).

(* ---------------------------------------------------------------------- *)
(* strings                                                                  *)
(* ---------------------------------------------------------------------- *)
Local Open Scope string_scope.
Definition lowif (F : opts) (s : pystr) : pystr := if o_case F then lower s else s.
Definition colon : pystr := [58%N].
Definition ty_name (a : atom) : pystr :=
  s2p (match a with
       | ANone => "NoneType" | ABool _ => "bool" | AInt _ => "int" | AFloat _ _ => "float"
       | AStr _ => "str" | ABytes _ => "bytes" | ADt _ _ => "datetime"
       end).
Definition num_tag (F : opts) (a : atom) : pystr := if o_numty F then s2p "number" else ty_name a.

Definition str_like (t : ty) : bool := match t with TStr | TBytes => true | _ => false end.
Definition num_like (t : ty) : bool := match t with TBool | TInt | TFloat => true | _ => false end.
(* the ignore_type_in_groups test of _diff for two objects of different type *)
Definition same_group (F : opts) (ta tb : ty) : bool :=
  (o_strty F && str_like ta && str_like tb) || (o_numty F && num_like ta && num_like tb).

(* repr of a float: the exact decimal expansion, at least one fractional digit, trailing zeros dropped
   (what repr gives when the expansion has <= 15 significant digits and 1e-4 <= |x| < 1e16) *)
Fixpoint strip0 (rev_digits : pystr) : pystr :=
  match rev_digits with
  | d :: r => if N.eqb d 48 then strip0 r else rev_digits
  | [] => []
  end.
Definition float_repr (m : Z) (e : N) : pystr :=
  let a := Z.abs m in
  let ip := (a / two_p e)%Z in
  let fr := ((a mod two_p e) * Z.pow 5 (Z.of_N e))%Z in            (* fractional part * 10^e *)
  let fd := rev (strip0 (rev (pad0 (N.to_nat e) (p_of_Z fr)))) in
  ((if (m <? 0)%Z then [45%N] else []) ++ p_of_Z ip ++ [46%N] ++ match fd with [] => [48%N] | _ => fd end)%list.

(* stand-in for str(datetime normalised with default_timezone): instant and zone determine it *)
Definition dt_text (F : opts) (us : Z) (off : option Z) : pystr :=
  (s2p "datetime:" ++ p_of_Z (dt_instant None (o_tz F) (mkDt us off)) ++ [64%N] ++ p_of_Z (o_tz F))%list.

(* the text DeepHash feeds to the hasher for a set member; only equality of
   hashes is ever used, so (sha256 being injective on these texts - a trusted
   assumption) the text stands for the hash *)
Definition prep_string (F : opts) (tyn : pystr) (s : pystr) : pystr :=
  lowif F ((if o_strty F then [] else tyn ++ colon) ++ s)%list.
Definition hatomF (F : opts) (a : atom) : pystr :=
  match a with
  | AStr s => prep_string F (s2p "str") s
  | ABytes s => prep_string F (s2p "bytes") s
  | ANone => prep_string F (s2p "str") (s2p "NONE")
  | ABool b => prep_string F (s2p "str") (s2p (if b then "bool:true" else "bool:false"))
  | AInt z =>
      prep_string F (s2p "str")
        (num_tag F a ++ colon ++ match eff_sig F with Some d => num_str d (z, 0%N) | None => p_of_Z z end)%list
  | AFloat m e =>
      prep_string F (s2p "str")
        (num_tag F a ++ colon ++ match eff_sig F with Some d => num_str d (m, e) | None => float_repr m e end)%list
  | ADt us off => prep_string F (s2p "str") (dt_text F us off)
  end.
(* DeepHash._skip_this sees BoolObj for a bool: never an instance of an excluded type *)
Definition excl_hash (F : opts) (a : atom) : bool :=
  match a with ABool _ => false | _ => excluded F (atom_ty a) end.

(* ---------------------------------------------------------------------- *)
(* key cleaning                                                             *)
(* ---------------------------------------------------------------------- *)
Definition cleaning (F : opts) : bool := o_strty F || o_numty F || o_case F.

(* _get_clean_to_keys_mapping, one key *)
Definition clean_key (F : opts) (k : atom) : res atom :=
  match k with
  | ABytes s => if o_strty F then Ok (AStr (lowif F s)) else Ok k   (* a bytes clean key is not lower-cased *)
  | ABool _ | AInt _ | AFloat _ _ =>
      match eff_sig F, dy_of_atom k with
      | Some d, Some x => Ok (AStr (lowif F (num_tag F k ++ colon ++ num_str d x)%list))
      | _, _ => Ok k                (* no precision in force: the key stays itself (d664dbb; before: ValueError, K8) *)
      end
  | AStr s => Ok (AStr (lowif F s))
  | ANone => Ok ANone
  | ADt _ _ =>                      (* isinstance(key, numbers): round(datetime) raises when a precision is in force *)
      match eff_sig F with Some _ => Err EType | None => Ok k end
  end.
(* the mapping clean -> original; the first key of a clean class wins *)
Fixpoint clean_map (F : opts) (ks : list atom) (acc : list (atom * atom)) : res (list (atom * atom)) :=
  match ks with
  | [] => Ok (rev acc)
  | k :: r =>
      bind (clean_key F k) (fun ck =>
        if mem_atom ck (map fst acc) then clean_map F r acc
        else clean_map F r ((ck, k) :: acc))
  end.

Section Opt.
Variable udiff : pystr -> pystr -> pystr.
Variable ops : path -> list value -> list value -> list opcode.
Variable c : cfg.
Variable F : opts.

(* _report_result: _skip_this by exclude_types on either side *)
Definition reportF (k : rkind) (p1 p2 : path) (a b : option value) (d : option pystr) : list entry :=
  if excl_opt F a || excl_opt F b then [] else [mkEntry k p1 p2 a b d].

Definition str_content (a : atom) : pystr :=
  match a with AStr s | ABytes s => s | _ => [] end.
Definition with_content (a : atom) (s : pystr) : atom :=
  match a with AStr _ => AStr s | ABytes _ => ABytes s | _ => a end.
Definition is_bytes (a : atom) : bool := match a with ABytes _ => true | _ => false end.

(* _diff_str; both atoms are str or bytes *)
Definition diff_strF (a b : atom) (p1 p2 : path) : list entry :=
  let s := lowif F (str_content a) in
  let t := lowif F (str_content b) in
  let a' := with_content a s in
  let b' := with_content b t in
  let same_ty := ty_eqb (atom_ty a) (atom_ty b) in
  let asc := (if is_bytes a then is_ascii s else true) && (if is_bytes b then is_ascii t else true) in
  if pystr_eqb s t && (same_ty || asc) then []
  else
    let d := if asc && (has_nl s || has_nl t)
             then match udiff s t with [] => None | x => Some x end else None in
    reportF KValue p1 p2 (Some (VAtom a')) (Some (VAtom b')) d.

(* _diff_numbers; rtc = report_type_change (the two types are equal) *)
Definition diff_numF (rtc : bool) (a b : atom) (p1 p2 : path) : list entry :=
  match dy_of_atom a, dy_of_atom b with
  | Some x, Some y =>
      let changed :=
        match o_eps F with
        | Some e => negb (is_close x y e)
        | None =>
            match eff_sig F with
            | None => negb (py_eq a b)
            | Some d =>
                let s1 := ((if rtc then num_tag F a else []) ++ colon ++ num_str d x)%list in
                let s2 := ((if rtc then num_tag F b else []) ++ colon ++ num_str d y)%list in
                negb (pystr_eqb s1 s2)
            end
        end in
      if changed then reportF KValue p1 p2 (Some (VAtom a)) (Some (VAtom b)) None else []
  | _, _ => []
  end.

(* _diff on two atoms *)
Definition diff_atomF (a b : atom) (p1 p2 : path) : list entry :=
  if excluded F (atom_ty a) || excluded F (atom_ty b) then [] else
  let rtc := ty_eqb (atom_ty a) (atom_ty b) in
  if negb rtc && negb (same_group F (atom_ty a) (atom_ty b))
  then reportF KType p1 p2 (Some (VAtom a)) (Some (VAtom b)) None
  else match a with
  | ABool _ => if py_eq a b then [] else reportF KValue p1 p2 (Some (VAtom a)) (Some (VAtom b)) None
  | AStr _ | ABytes _ => diff_strF a b p1 p2
  | AInt _ | AFloat _ _ => diff_numF rtc a b p1 p2
  | ADt u1 o1 =>
      match b with
      | ADt u2 o2 =>                 (* _diff_datetime: level.t1 / .t2 are replaced by the normalised datetimes *)
          if dt_changed (o_trunc F) (o_tz F) (mkDt u1 o1) (mkDt u2 o2)
          then reportF KValue p1 p2 (Some (VAtom (dt_norm F u1 o1))) (Some (VAtom (dt_norm F u2 o2))) None
          else []
      | _ => []                      (* unreachable: datetimes are in no type group of the model *)
      end
  | ANone => []
  end.

Definition diff_leafF (x y : value) (p1 p2 : path) : list entry :=
  match x, y with
  | VAtom a, VAtom b => diff_atomF a b p1 p2
  | _, _ => []
  end.

Fixpoint removed_fromF (xs : list value) (i : nat) (p1 p2 : path) : list entry :=
  match xs with
  | [] => []
  | x :: r => reportF KIterRem (snoc p1 (PIdx i)) (snoc p2 (PIdx i)) (Some x) None None
              ++ removed_fromF r (S i) p1 p2
  end.
Fixpoint added_fromF (ys : list value) (j : nat) (p1 p2 : path) : list entry :=
  match ys with
  | [] => []
  | y :: r => reportF KIterAdd (snoc p1 (PIdx j)) (snoc p2 (PIdx j)) None (Some y) None
              ++ added_fromF r (S j) p1 p2
  end.

Fixpoint pairs_leafF (xs ys : list value) (i j : nat) (p1 p2 : path) {struct xs} : list entry :=
  match xs, ys with
  | [], _ => added_fromF ys j p1 p2
  | _ :: _, [] => removed_fromF xs i p1 p2
  | x :: xs', y :: ys' =>
      (if negb (Nat.eqb i j) && py_eq_leaf x y
       then reportF KIterMoved (snoc p1 (PIdx i)) (snoc p2 (PIdx j)) (Some x) (Some y) None
       else diff_leafF x y (snoc p1 (PIdx i)) (snoc p2 (PIdx j)))
      ++ pairs_leafF xs' ys' (S i) (S j) p1 p2
  end.

Definition by_opcodesF (os : list opcode) (xs ys : list value) (p1 p2 : path) : list entry :=
  flat_map (fun o =>
    match otag o with
    | OEqual => []
    | OReplace => pairs_leafF (slice xs (oi1 o) (oi2 o)) (slice ys (oj1 o) (oj2 o)) (oi1 o) (oj1 o) p1 p2
    | ODelete => removed_fromF (slice xs (oi1 o) (oi2 o)) (oi1 o) p1 p2
    | OInsert => added_fromF (slice ys (oj1 o) (oj2 o)) (oj1 o) p1 p2
    end) os.

Definition default_leaf_listF (xs ys : list value) (p1 p2 : path) : list entry * bool :=
  let pass1 := by_opcodesF (ops p1 xs ys) xs ys p1 p2 in
  if Nat.ltb 1 (List.length pass1) then
    let pass2 := pairs_leafF xs ys 0 0 p1 p2 in
    if Nat.leb (List.length pass2) (List.length pass1) then (pass2, false) else (pass1, true)
  else (pass1, false).

(* _diff_set: members of an excluded type are not hashed (bools are: BoolObj),
   and a reported member of an excluded type is skipped *)
Definition report_setF (k : rkind) (a : atom) (p1 p2 : path) : list entry :=
  if excluded F (atom_ty a) then [] else
  [mkEntry k p1 p2 (match k with KSetAdd => None | _ => Some (VAtom a) end)
                   (match k with KSetAdd => Some (VAtom a) | _ => None end) None].
Definition diff_setF (xs0 ys0 : list atom) (p1 p2 : path) : list entry :=
  let xs := filter (fun a => negb (excl_hash F a)) xs0 in
  let ys := filter (fun a => negb (excl_hash F a)) ys0 in
  let hx := map (hatomF F) xs in
  let hy := map (hatomF F) ys in
  (flat_map (fun y => if existsb (pystr_eqb (hatomF F y)) hx then []
                      else report_setF KSetAdd y p1 p2) (first_per_hash (hatomF F) ys [])
   ++ flat_map (fun x => if existsb (pystr_eqb (hatomF F x)) hy then []
                         else report_setF KSetRem x p1 p2) (first_per_hash (hatomF F) xs []))%list.

(* ---- dictionaries ---- *)
(* t_clean_to_keys (None when no cleaning option is set) and the key sets *)
Definition kmap (ks : list atom) : res (list (atom * atom)) :=
  if cleaning F then clean_map F ks [] else Ok [].
Definition ckeys (ks : list atom) (km : list (atom * atom)) : list atom :=
  if cleaning F then map fst km else ks.
(* t_clean_to_keys[key] if t_clean_to_keys else key *)
Definition orig_key (km : list (atom * atom)) (ck : atom) : atom :=
  if cleaning F then match assoc ck km with Some k => k | None => ck end else ck.
(* the clean key of k, when k is the key that represents its clean class *)
Definition repr_ckey (km : list (atom * atom)) (k : atom) : option atom :=
  if cleaning F then
    match clean_key F k with
    | Ok ck => if atom_eqb (orig_key km ck) k then Some ck else None
    | Err _ => None
    end
  else Some k.

(* threshold_to_diff_deeper (no exclude_paths) *)
Definition shortcutF (k1 k2 : list atom) : bool :=
  if Nat.eqb (thr_num c) 0 then false else
  let inter := filter (fun k => mem_atom k k1) k2 in
  let union := (k2 ++ filter (fun k => negb (mem_atom k k2)) k1)%list in
  let ulen := List.length union in
  Nat.ltb 1 ulen && Nat.ltb (List.length inter * thr_den c) (thr_num c * ulen).

(* reports of added / removed keys, in order *)
Fixpoint key_reports (kind : rkind) (cks other : list atom) (km : list (atom * atom))
         (kvs : list (atom * value)) (p1 p2 : path) : list entry :=
  match cks with
  | [] => []
  | ck :: r =>
      if mem_atom ck other then key_reports kind r other km kvs p1 p2
      else
        let k := orig_key km ck in
        let v := assoc k kvs in
        (match kind with
         | KDictAdd => reportF kind (snoc p1 (PKey k)) (snoc p2 (PKey k)) None v None
         | _ => reportF kind (snoc p1 (PKey k)) (snoc p2 (PKey k)) v None None
         end ++ key_reports kind r other km kvs p1 p2)%list
  end.

(* ---- _diff ---- *)
Fixpoint diffF (t1 t2 : value) (p1 p2 : path) {struct t1} : res (list entry * list path) :=
  if excluded F (type_of t1) || excluded F (type_of t2) then Ok ([], []) else
  if negb (ty_eqb (type_of t1) (type_of t2)) && negb (same_group F (type_of t1) (type_of t2))
  then Ok (reportF KType p1 p2 (Some t1) (Some t2) None, [])
  else
  match t1, t2 with
  | VAtom a, VAtom b => Ok (diff_atomF a b p1 p2, [])
  | VDict kvs1, VDict kvs2 =>
      let r1 := keys_of c kvs1 in
      let r2 := keys_of c kvs2 in
      bind (kmap r1) (fun km1 =>
      bind (kmap r2) (fun km2 =>
        let k1 := ckeys r1 km1 in
        let k2 := ckeys r2 km2 in
        if shortcutF k1 k2 then Ok (reportF KValue p1 p2 (Some t1) (Some t2) None, [])
        else
          let added := key_reports KDictAdd k2 k1 km2 kvs2 p1 p2 in
          let removed := key_reports KDictRem k1 k2 km1 kvs1 p1 p2 in
          bind ((fix go (l : list (atom * value)) : res (list entry * list path) :=
                   match l with
                   | [] => Ok ([], [])
                   | (k, v1) :: r =>
                       let here :=
                         if keep_key c k then
                           match repr_ckey km1 k with
                           | Some ck =>
                               match find (py_eq ck) k2 with      (* the key object of t2 is the child parameter *)
                               | Some ck' =>
                                   match assoc (orig_key km2 ck') kvs2 with
                                   | Some v2 => diffF v1 v2 (snoc p1 (PKey ck')) (snoc p2 (PKey ck'))
                                   | None => Ok ([], [])
                                   end
                               | None => Ok ([], [])
                               end
                           | None => Ok ([], [])
                           end
                         else Ok ([], []) in
                       bind here (fun x => bind (go r) (fun rest => Ok (app2 x rest)))
                   end) kvs1) (fun common =>
          Ok ((added ++ removed ++ fst common)%list, snd common))))
  | VList xs, VList ys | VTuple xs, VTuple ys =>
      if negb (zip c) && forallb is_atom xs && forallb is_atom ys
      then let '(es, rec) := default_leaf_listF xs ys p1 p2 in Ok (es, if rec then [p1] else [])
      else
        (fix go (xs ys : list value) (i : nat) {struct xs} : res (list entry * list path) :=
           match xs, ys with
           | [], _ => Ok (added_fromF ys i p1 p2, [])
           | _ :: _, [] => Ok (removed_fromF xs i p1 p2, [])
           | x :: xs', y :: ys' =>
               bind (diffF x y (snoc p1 (PIdx i)) (snoc p2 (PIdx i))) (fun r1 =>
               bind (go xs' ys' (S i)) (fun r2 => Ok (app2 r1 r2)))
           end) xs ys 0
  | VSet xs, VSet ys | VFrozen xs, VFrozen ys => Ok (diff_setF xs ys p1 p2, [])
  | _, _ => Ok ([], [])
  end.

(* DeepDiff(t1, t2, view='tree', **options) *)
Definition run_optF (t1 t2 : value) : res (list entry * list path) :=
  bind (diffF t1 t2 [] []) (fun r => Ok (mutual (fst r), snd r)).

End Opt.

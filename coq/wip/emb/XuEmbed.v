(** The extended universe of block b03 (Diff/XuValue.v ... Diff/XuSpec.v: datetimes, dates, times,
    timedeltas and Decimals as atoms) restricted to base values IS the old model (Base/Value.v,
    Diff/Tree.v, Diff/DiffModel.v, Diff/TextView.v, Diff/Spec.v).

    [emb] maps the shared universe into the extended one constructor by constructor; the extended
    [diff] / [mutual] / [run_diff] / [text_view] / [spec] on embedded inputs compute the embedding of
    what the old ones compute, for all oracles that agree on embedded arguments (such oracles exist
    for every base oracle: [agreeing_oracles_exist]) and for every printer oracle [xrepr] / [xstr]
    (they are only consulted on exotic atoms).

    The two sides have the same names: they are referred to through the module aliases below
    (BV/XV values, BT/XT trees, BM/XM models, BF/XF unfolding equations, BTV/XTV text views,
    BS/XS specs, PM the base path printer). *)
From Coq Require Import List ZArith NArith Bool Arith Lia.
Import ListNotations.
From DD Require Import Base.PyStr.
From DD Require Base.Value Base.ValueFacts Path.PathModel Diff.Tree Diff.DiffModel Diff.DiffFacts
                Diff.TextView Diff.Spec.
From DD Require Diff.XuValue Diff.XuFacts Diff.XuTree Diff.XuModel Diff.XuDiffFacts
                Diff.XuTextView Diff.XuSpec.
(* only for the last part (the C02 / C03 theorems of the extended universe specialise to the old ones) *)
From DD Require Diff.DiffEmpty Diff.XuEmpty Diff.XuSpecProofs.

Module BV := DD.Base.Value.
Module BVF := DD.Base.ValueFacts.
Module PM := DD.Path.PathModel.
Module BT := DD.Diff.Tree.
Module BM := DD.Diff.DiffModel.
Module BF := DD.Diff.DiffFacts.
Module BTV := DD.Diff.TextView.
Module BS := DD.Diff.Spec.
Module XV := DD.Diff.XuValue.
Module XVF := DD.Diff.XuFacts.
Module XT := DD.Diff.XuTree.
Module XM := DD.Diff.XuModel.
Module XF := DD.Diff.XuDiffFacts.
Module XTV := DD.Diff.XuTextView.
Module XS := DD.Diff.XuSpec.
Module BE := DD.Diff.DiffEmpty.
Module XE := DD.Diff.XuEmpty.
Module XSP := DD.Diff.XuSpecProofs.

(* ------------------------------------------------------------------ *)
(* the embedding                                                       *)
(* ------------------------------------------------------------------ *)
Definition emb_atom (a : BV.atom) : XV.atom :=
  match a with
  | BV.ANone => XV.ANone
  | BV.ABool b => XV.ABool b
  | BV.AInt z => XV.AInt z
  | BV.AHalf t => XV.AHalf t
  | BV.AStr s => XV.AStr s
  | BV.ABytes s => XV.ABytes s
  end.
Definition emb_kv (emb : BV.value -> XV.value) (kv : BV.atom * BV.value) : XV.atom * XV.value :=
  (emb_atom (fst kv), emb (snd kv)).
Fixpoint emb (v : BV.value) : XV.value :=
  match v with
  | BV.VAtom a => XV.VAtom (emb_atom a)
  | BV.VList xs => XV.VList (map emb xs)
  | BV.VTuple xs => XV.VTuple (map emb xs)
  | BV.VDict kvs => XV.VDict (map (fun kv => (emb_atom (fst kv), emb (snd kv))) kvs)
  | BV.VSet xs => XV.VSet (map emb_atom xs)
  | BV.VFrozen xs => XV.VFrozen (map emb_atom xs)
  end.
Definition emb_kvs (kvs : list (BV.atom * BV.value)) : list (XV.atom * XV.value) :=
  map (fun kv => (emb_atom (fst kv), emb (snd kv))) kvs.
Definition emb_ty (t : BV.ty) : XV.ty :=
  match t with
  | BV.TNone => XV.TNone | BV.TBool => XV.TBool | BV.TInt => XV.TInt | BV.TFloat => XV.TFloat
  | BV.TStr => XV.TStr | BV.TBytes => XV.TBytes | BV.TList => XV.TList | BV.TTuple => XV.TTuple
  | BV.TDict => XV.TDict | BV.TSet => XV.TSet | BV.TFrozen => XV.TFrozen
  end.
Definition emb_key (k : BV.pkey) : XV.pkey :=
  match k with BV.PKey a => XV.PKey (emb_atom a) | BV.PIdx i => XV.PIdx i end.
Definition emb_path (p : BV.path) : XV.path := map emb_key p.
Definition emb_kind (k : BT.rkind) : XT.rkind :=
  match k with
  | BT.KType => XT.KType | BT.KValue => XT.KValue | BT.KDictAdd => XT.KDictAdd | BT.KDictRem => XT.KDictRem
  | BT.KIterAdd => XT.KIterAdd | BT.KIterRem => XT.KIterRem | BT.KIterMoved => XT.KIterMoved
  | BT.KSetAdd => XT.KSetAdd | BT.KSetRem => XT.KSetRem | BT.KRepetition => XT.KRepetition
  end.
Definition emb_entry (e : BT.entry) : XT.entry :=
  XT.mkEntry (emb_kind (BT.ekind e)) (emb_path (BT.ep1 e)) (emb_path (BT.ep2 e))
             (option_map emb (BT.et1 e)) (option_map emb (BT.et2 e)) (BT.ediff e).
Definition emb_tag (t : BT.optag) : XT.optag :=
  match t with
  | BT.OEqual => XT.OEqual | BT.OReplace => XT.OReplace | BT.ODelete => XT.ODelete | BT.OInsert => XT.OInsert
  end.
Definition emb_op (o : BT.opcode) : XT.opcode :=
  XT.mkOp (emb_tag (BT.otag o)) (BT.oi1 o) (BT.oi2 o) (BT.oj1 o) (BT.oj2 o).
Definition emb_cfg (c : BM.cfg) : XM.cfg :=
  XM.mkCfg (BM.zip c) (BM.thr_num c) (BM.thr_den c) (BM.ignore_private c).
Definition emb_pair (vw : BV.value * BV.value) : XV.value * XV.value := (emb (fst vw), emb (snd vw)).
Definition emb_tentry (e : BTV.tentry) : XTV.tentry :=
  match e with
  | BTV.TType p a b np vals => XTV.TType p (emb_ty a) (emb_ty b) np (option_map emb_pair vals)
  | BTV.TValue p a b np d => XTV.TValue p (emb a) (emb b) np d
  | BTV.TDictAdd p v => XTV.TDictAdd p (option_map emb v)
  | BTV.TDictRem p v => XTV.TDictRem p (option_map emb v)
  | BTV.TIterAdd p v => XTV.TIterAdd p (emb v)
  | BTV.TIterRem p v => XTV.TIterRem p (emb v)
  | BTV.TMoved p np v => XTV.TMoved p np (emb v)
  | BTV.TSetAdd s => XTV.TSetAdd s
  | BTV.TSetRem s => XTV.TSetRem s
  end.
Definition emb_res (r : list BT.entry * list BV.path) : list XT.entry * list XV.path :=
  (map emb_entry (fst r), map emb_path (snd r)).

(* ------------------------------------------------------------------ *)
(* generic list facts                                                  *)
(* ------------------------------------------------------------------ *)
Lemma filter_map_comm {A B} (f : A -> B) (p : B -> bool) (q : A -> bool) l :
  (forall a, p (f a) = q a) -> filter p (map f l) = map f (filter q l).
Proof.
  intros H. induction l as [|a l IH]; cbn; [reflexivity|].
  rewrite H. destruct (q a); cbn; rewrite IH; reflexivity.
Qed.
Lemma existsb_map_comm {A B} (f : A -> B) (p : B -> bool) (q : A -> bool) l :
  (forall a, p (f a) = q a) -> existsb p (map f l) = existsb q l.
Proof. intros H. induction l as [|a l IH]; cbn; [reflexivity|]. rewrite H, IH. reflexivity. Qed.
Lemma forallb_map_comm {A B} (f : A -> B) (p : B -> bool) (q : A -> bool) l :
  (forall a, p (f a) = q a) -> forallb p (map f l) = forallb q l.
Proof. intros H. induction l as [|a l IH]; cbn; [reflexivity|]. rewrite H, IH. reflexivity. Qed.
Lemma find_map_comm {A B} (f : A -> B) (p : B -> bool) (q : A -> bool) l :
  (forall a, p (f a) = q a) -> find p (map f l) = option_map f (find q l).
Proof. intros H. induction l as [|a l IH]; cbn; [reflexivity|]. rewrite H. destruct (q a); [reflexivity|exact IH]. Qed.
Lemma flat_map_map_comm {A B C D} (f : A -> B) (h : C -> D) (g : B -> list D) (g' : A -> list C) l :
  (forall a, g (f a) = map h (g' a)) -> flat_map g (map f l) = map h (flat_map g' l).
Proof.
  intros H. induction l as [|a l IH]; cbn; [reflexivity|]. rewrite map_app, H, IH. reflexivity.
Qed.
Lemma map_nil_iff {A B} (f : A -> B) l : map f l = [] <-> l = [].
Proof. destruct l; cbn; split; intros H; try reflexivity; discriminate. Qed.

(* ------------------------------------------------------------------ *)
(* atoms                                                               *)
(* ------------------------------------------------------------------ *)
Lemma p10_0 : XV.p10 0 = 1%Z. Proof. reflexivity. Qed.
Lemma p10_1 : XV.p10 1 = 10%Z. Proof. reflexivity. Qed.

Lemma emb_py_eq a b : XV.py_eq (emb_atom a) (emb_atom b) = BV.py_eq a b.
Proof.
  destruct a as [|x|x|x|s|s], b as [|y|y|y|t|t]; try reflexivity;
    unfold XV.py_eq, BV.py_eq, XV.qeq;
    cbn [emb_atom XV.qnum BV.num2 fst snd]; rewrite ?p10_0, ?p10_1;
    try (destruct x); try (destruct y);
    match goal with
    | |- Z.eqb ?u ?v = Z.eqb ?u' ?v' => destruct (Z.eqb_spec u v), (Z.eqb_spec u' v'); try reflexivity; lia
    end.
Qed.

Lemma emb_atom_eqb a b : XV.atom_eqb (emb_atom a) (emb_atom b) = BV.atom_eqb a b.
Proof. destruct a, b; reflexivity. Qed.
Lemma emb_ty_eqb a b : XV.ty_eqb (emb_ty a) (emb_ty b) = BV.ty_eqb a b.
Proof. destruct a, b; reflexivity. Qed.
Lemma emb_ty_inj a b : emb_ty a = emb_ty b -> a = b.
Proof. destruct a, b; intros H; try reflexivity; discriminate. Qed.
Lemma emb_atom_ty a : XV.atom_ty (emb_atom a) = emb_ty (BV.atom_ty a).
Proof. destruct a; reflexivity. Qed.
Lemma emb_type_of v : XV.type_of (emb v) = emb_ty (BV.type_of v).
Proof. destruct v as [a| | | | |]; try reflexivity. apply emb_atom_ty. Qed.
Lemma emb_atom_inj a b : emb_atom a = emb_atom b -> a = b.
Proof. destruct a, b; cbn; intros H; try reflexivity; try discriminate; inversion H; reflexivity. Qed.
Lemma emb_atom_not_exotic a : XTV.exotic (emb_atom a) = false.
Proof. destruct a; reflexivity. Qed.
Lemma emb_dt_norm a : XM.dt_norm (emb_atom a) = emb_atom a.
Proof. destruct a; reflexivity. Qed.

Lemma map_inj {A B} (f : A -> B) : (forall a b, f a = f b -> a = b) -> forall l l', map f l = map f l' -> l = l'.
Proof.
  intros Hf l. induction l as [|a l IH]; intros [|b l'] H; cbn in H; try reflexivity; try discriminate.
  inversion H as [[H1 H2]]. f_equal; [apply Hf; exact H1|apply IH; exact H2].
Qed.

Lemma emb_inj : forall v w, emb v = emb w -> v = w.
Proof.
  intros v. induction v as [a|xs IH|xs IH|kvs IH|xs|xs] using BVF.value_ind'; intros w H;
    destruct w as [b|ys|ys|kvs'|ys|ys]; cbn in H; try discriminate; inversion H as [H1]; clear H.
  - f_equal. apply emb_atom_inj. exact H1.
  - f_equal. revert ys H1. induction IH as [|x xs Hx _ IHl]; intros [|y ys] H1; cbn in H1; try reflexivity; try discriminate.
    inversion H1 as [[Ha Hb]]. f_equal; [apply Hx; exact Ha|apply IHl; exact Hb].
  - f_equal. revert ys H1. induction IH as [|x xs Hx _ IHl]; intros [|y ys] H1; cbn in H1; try reflexivity; try discriminate.
    inversion H1 as [[Ha Hb]]. f_equal; [apply Hx; exact Ha|apply IHl; exact Hb].
  - f_equal. revert kvs' H1. induction IH as [|[k x] xs Hx _ IHl]; intros [|[k' y] ys] H1; cbn in H1; try reflexivity; try discriminate.
    inversion H1 as [[Hk Ha Hb]]. f_equal; [|apply IHl; exact Hb].
    f_equal; [apply emb_atom_inj; exact Hk|apply Hx; exact Ha].
  - f_equal. eapply map_inj; [exact emb_atom_inj|exact H1].
  - f_equal. eapply map_inj; [exact emb_atom_inj|exact H1].
Qed.

Lemma emb_key_inj a b : emb_key a = emb_key b -> a = b.
Proof.
  destruct a, b; cbn; intros H; try discriminate; inversion H as [H1]; [f_equal; apply emb_atom_inj; exact H1|reflexivity].
Qed.
Lemma emb_path_inj p q : emb_path p = emb_path q -> p = q.
Proof. apply map_inj. exact emb_key_inj. Qed.

Lemma emb_mem_atom a l : XV.mem_atom (emb_atom a) (map emb_atom l) = BV.mem_atom a l.
Proof. unfold XV.mem_atom, BV.mem_atom. apply existsb_map_comm. intros b. apply emb_py_eq. Qed.

Lemma emb_assoc_gen {B C} (f : B -> C) k (l : list (BV.atom * B)) :
  XV.assoc (emb_atom k) (map (fun kv => (emb_atom (fst kv), f (snd kv))) l) = option_map f (BV.assoc k l).
Proof.
  induction l as [|[k' v] l IH]; cbn; [reflexivity|].
  rewrite emb_py_eq. destruct (BV.py_eq k' k); [reflexivity|exact IH].
Qed.
Lemma emb_assoc k kvs : XV.assoc (emb_atom k) (emb_kvs kvs) = option_map emb (BV.assoc k kvs).
Proof. apply emb_assoc_gen. Qed.

Lemma emb_nodup_atoms l : XV.nodup_atoms (map emb_atom l) = BV.nodup_atoms l.
Proof. induction l as [|a l IH]; cbn; [reflexivity|]. rewrite emb_mem_atom, IH. reflexivity. Qed.

Lemma emb_kvs_fst kvs : map fst (emb_kvs kvs) = map emb_atom (map fst kvs).
Proof. unfold emb_kvs. rewrite !map_map. reflexivity. Qed.

Lemma emb_wf : forall v, XV.wf (emb v) = BV.wf v.
Proof.
  intros v. induction v as [a|xs IH|xs IH|kvs IH|xs|xs] using BVF.value_ind'; cbn [emb XV.wf BV.wf].
  - reflexivity.
  - induction IH as [|x xs Hx _ IHl]; cbn; [reflexivity|]. rewrite Hx, IHl. reflexivity.
  - induction IH as [|x xs Hx _ IHl]; cbn; [reflexivity|]. rewrite Hx, IHl. reflexivity.
  - fold (emb_kvs kvs). rewrite emb_kvs_fst, emb_nodup_atoms. f_equal. unfold emb_kvs.
    induction IH as [|x xs Hx _ IHl]; cbn; [reflexivity|]. rewrite Hx, IHl. reflexivity.
  - apply emb_nodup_atoms.
  - apply emb_nodup_atoms.
Qed.

Lemma emb_py_eqv : forall v w, XV.py_eqv (emb v) (emb w) = BV.py_eqv v w.
Proof.
  intros v. induction v as [a|xs IH|xs IH|kvs IH|xs|xs] using BVF.value_ind'; intros w;
    destruct w as [b|ys|ys|kvs'|ys|ys]; try reflexivity; cbn [emb XV.py_eqv BV.py_eqv].
  - apply emb_py_eq.
  - revert ys. induction IH as [|x xs Hx _ IHl]; intros [|y ys]; cbn; try reflexivity.
    rewrite Hx, IHl. reflexivity.
  - revert ys. induction IH as [|x xs Hx _ IHl]; intros [|y ys]; cbn; try reflexivity.
    rewrite Hx, IHl. reflexivity.
  - rewrite !map_length. f_equal.
    induction IH as [|[k x] xs Hx _ IHl]; cbn; [reflexivity|].
    rewrite IHl. f_equal. fold (emb_kvs kvs'). rewrite emb_assoc.
    destruct (BV.assoc k kvs') as [v'|]; cbn; [apply Hx|reflexivity].
  - rewrite !map_length. f_equal. apply forallb_map_comm. intros a. apply emb_mem_atom.
  - rewrite !map_length. f_equal. apply forallb_map_comm. intros a. apply emb_mem_atom.
  - rewrite !map_length. f_equal. apply forallb_map_comm. intros a. apply emb_mem_atom.
  - rewrite !map_length. f_equal. apply forallb_map_comm. intros a. apply emb_mem_atom.
Qed.

Lemma emb_value_eqb : forall v w, XV.value_eqb (emb v) (emb w) = BV.value_eqb v w.
Proof.
  assert (HA : forall xs ys,
    (fix go (xs ys : list XV.atom) {struct xs} : bool :=
       match xs, ys with
       | [], [] => true
       | x :: xs', y :: ys' => XV.atom_eqb x y && go xs' ys'
       | _, _ => false
       end) (map emb_atom xs) (map emb_atom ys) =
    (fix go (xs ys : list BV.atom) {struct xs} : bool :=
       match xs, ys with
       | [], [] => true
       | x :: xs', y :: ys' => BV.atom_eqb x y && go xs' ys'
       | _, _ => false
       end) xs ys).
  { intros xs. induction xs as [|x xs IHl]; intros [|y ys]; cbn; try reflexivity.
    rewrite emb_atom_eqb, IHl. reflexivity. }
  intros v. induction v as [a|xs IH|xs IH|kvs IH|xs|xs] using BVF.value_ind'; intros w;
    destruct w as [b|ys|ys|kvs'|ys|ys]; try reflexivity; cbn [emb XV.value_eqb BV.value_eqb].
  - apply emb_atom_eqb.
  - revert ys. induction IH as [|x xs Hx _ IHl]; intros [|y ys]; cbn; try reflexivity.
    rewrite Hx, IHl. reflexivity.
  - revert ys. induction IH as [|x xs Hx _ IHl]; intros [|y ys]; cbn; try reflexivity.
    rewrite Hx, IHl. reflexivity.
  - revert kvs'. induction IH as [|[k x] xs Hx _ IHl]; intros [|[k' y] ys]; cbn; try reflexivity.
    rewrite emb_atom_eqb, Hx, IHl. reflexivity.
  - apply HA.
  - apply HA.
Qed.

Lemma emb_pkey_eqb a b : XV.pkey_eqb (emb_key a) (emb_key b) = BV.pkey_eqb a b.
Proof. destruct a, b; try reflexivity. apply emb_atom_eqb. Qed.
Lemma emb_path_eqb : forall p q, XV.path_eqb (emb_path p) (emb_path q) = BV.path_eqb p q.
Proof.
  intros p. induction p as [|a p IH]; intros [|b q]; cbn; try reflexivity.
  rewrite emb_pkey_eqb. f_equal. apply IH.
Qed.
Lemma emb_kind_eqb a b : XT.rkind_eqb (emb_kind a) (emb_kind b) = BT.rkind_eqb a b.
Proof. destruct a, b; reflexivity. Qed.

Lemma emb_is_atom v : XM.is_atom (emb v) = BM.is_atom v.
Proof. destruct v; reflexivity. Qed.
Lemma emb_py_eq_leaf x y : XM.py_eq_leaf (emb x) (emb y) = BM.py_eq_leaf x y.
Proof. destruct x, y; try reflexivity. apply emb_py_eq. Qed.
Lemma emb_private_key k : XM.private_key (emb_atom k) = BM.private_key k.
Proof. destruct k; reflexivity. Qed.
Lemma emb_keep_key c k : XM.keep_key (emb_cfg c) (emb_atom k) = BM.keep_key c k.
Proof. unfold XM.keep_key, BM.keep_key. rewrite emb_private_key. reflexivity. Qed.
Lemma emb_snoc p k : XM.snoc (emb_path p) (emb_key k) = emb_path (BM.snoc p k).
Proof. unfold XM.snoc, BM.snoc, emb_path. rewrite map_app. reflexivity. Qed.
Lemma emb_slice {A B} (f : A -> B) l a b : XT.slice (map f l) a b = map f (BT.slice l a b).
Proof. unfold XT.slice, BT.slice. rewrite skipn_map, firstn_map. reflexivity. Qed.

(* ------------------------------------------------------------------ *)
(* the diff models agree                                               *)
(* ------------------------------------------------------------------ *)
Section Agree.
Variable hatom : BV.atom -> pystr.
Variable udiff : pystr -> pystr -> pystr.
Variable ops : BV.path -> list BV.value -> list BV.value -> list BT.opcode.
Variable skip excl : BV.path -> bool.
Variable c : BM.cfg.
Variable hatomX : XV.atom -> pystr.
Variable opsX : XV.path -> list XV.value -> list XV.value -> list XT.opcode.
Variable skipX exclX : XV.path -> bool.
Hypothesis Hhatom : forall a, hatomX (emb_atom a) = hatom a.
Hypothesis Hops : forall p xs ys, opsX (emb_path p) (map emb xs) (map emb ys) = map emb_op (ops p xs ys).
Hypothesis Hskip : forall p, skipX (emb_path p) = skip p.
Hypothesis Hexcl : forall p, exclX (emb_path p) = excl p.

Lemma emb_report k p1 p2 a b d :
  XM.report skipX (emb_kind k) (emb_path p1) (emb_path p2) (option_map emb a) (option_map emb b) d
  = map emb_entry (BM.report skip k p1 p2 a b d).
Proof. unfold XM.report, BM.report. rewrite Hskip. destruct (skip p1); reflexivity. Qed.

Lemma emb_diff_str ib s t : XM.diff_str udiff ib s t = BM.diff_str udiff ib s t.
Proof. reflexivity. Qed.

Lemma emb_diff_atom a b p1 p2 :
  XM.diff_atom udiff skipX (emb_atom a) (emb_atom b) (emb_path p1) (emb_path p2)
  = map emb_entry (BM.diff_atom udiff skip a b p1 p2).
Proof.
  unfold XM.diff_atom, BM.diff_atom. rewrite Hskip. destruct (skip p1); [reflexivity|].
  rewrite !emb_atom_ty, emb_ty_eqb.
  destruct (BV.ty_eqb (BV.atom_ty a) (BV.atom_ty b)) eqn:T; cbn [negb].
  2:{ exact (emb_report BT.KType p1 p2 (Some (BV.VAtom a)) (Some (BV.VAtom b)) None). }
  destruct a as [|x|x|x|s|s], b as [|y|y|y|t|t]; try discriminate T; cbn [emb_atom];
    try (rewrite emb_diff_str;
         match goal with |- context [BM.diff_str ?u ?ib ?s ?t] => destruct (BM.diff_str u ib s t) as [ch d] end;
         destruct ch; [|reflexivity];
         match goal with |- _ = map emb_entry (BM.report _ _ _ _ (Some (BV.VAtom ?a)) (Some (BV.VAtom ?b)) ?d) =>
           exact (emb_report BT.KValue p1 p2 (Some (BV.VAtom a)) (Some (BV.VAtom b)) d) end);
    match goal with |- context [BV.py_eq ?a ?b] =>
      change (XV.py_eq (emb_atom a) (emb_atom b)) with (XV.py_eq (emb_atom a) (emb_atom b));
      rewrite <- (emb_py_eq a b); cbn [emb_atom];
      match goal with |- context [XV.py_eq ?u ?v] => destruct (XV.py_eq u v) end;
      [reflexivity|exact (emb_report BT.KValue p1 p2 (Some (BV.VAtom a)) (Some (BV.VAtom b)) None)]
    end.
Qed.

Lemma emb_diff_leaf x y p1 p2 :
  XM.diff_leaf udiff skipX (emb x) (emb y) (emb_path p1) (emb_path p2)
  = map emb_entry (BM.diff_leaf udiff skip x y p1 p2).
Proof. destruct x, y; try reflexivity. apply emb_diff_atom. Qed.

Lemma emb_removed_from xs : forall i p1 p2,
  XM.removed_from skipX (map emb xs) i (emb_path p1) (emb_path p2)
  = map emb_entry (BM.removed_from skip xs i p1 p2).
Proof.
  induction xs as [|x xs IH]; intros i p1 p2; cbn [map XM.removed_from BM.removed_from]; [reflexivity|].
  rewrite map_app, IH. f_equal.
  change (XV.PIdx i) with (emb_key (BV.PIdx i)). rewrite !emb_snoc.
  exact (emb_report BT.KIterRem _ _ (Some x) None None).
Qed.
Lemma emb_added_from ys : forall j p1 p2,
  XM.added_from skipX (map emb ys) j (emb_path p1) (emb_path p2)
  = map emb_entry (BM.added_from skip ys j p1 p2).
Proof.
  induction ys as [|y ys IH]; intros j p1 p2; cbn [map XM.added_from BM.added_from]; [reflexivity|].
  rewrite map_app, IH. f_equal.
  change (XV.PIdx j) with (emb_key (BV.PIdx j)). rewrite !emb_snoc.
  exact (emb_report BT.KIterAdd _ _ None (Some y) None).
Qed.

Lemma emb_pairs_leaf xs : forall ys i j p1 p2,
  XM.pairs_leaf udiff skipX (map emb xs) (map emb ys) i j (emb_path p1) (emb_path p2)
  = map emb_entry (BM.pairs_leaf udiff skip xs ys i j p1 p2).
Proof.
  induction xs as [|x xs IH]; intros ys i j p1 p2.
  - cbn [map XM.pairs_leaf BM.pairs_leaf]. apply emb_added_from.
  - destruct ys as [|y ys].
    + exact (emb_removed_from (x :: xs) i p1 p2).
    + cbn [map XM.pairs_leaf BM.pairs_leaf]. rewrite map_app, IH. f_equal.
      rewrite emb_py_eq_leaf.
      change (XV.PIdx i) with (emb_key (BV.PIdx i)). change (XV.PIdx j) with (emb_key (BV.PIdx j)).
      rewrite !emb_snoc.
      destruct (negb (i =? j) && BM.py_eq_leaf x y).
      * exact (emb_report BT.KIterMoved _ _ (Some x) (Some y) None).
      * apply emb_diff_leaf.
Qed.

Lemma emb_by_opcodes os xs ys p1 p2 :
  XM.by_opcodes udiff skipX (map emb_op os) (map emb xs) (map emb ys) (emb_path p1) (emb_path p2)
  = map emb_entry (BM.by_opcodes udiff skip os xs ys p1 p2).
Proof.
  unfold XM.by_opcodes, BM.by_opcodes. apply flat_map_map_comm. intros o.
  destruct o as [tg i1 i2 j1 j2]. cbn [emb_op XT.otag XT.oi1 XT.oi2 XT.oj1 XT.oj2 BT.otag BT.oi1 BT.oi2 BT.oj1 BT.oj2].
  destruct tg; cbn [emb_tag]; rewrite ?emb_slice.
  - reflexivity.
  - apply emb_pairs_leaf.
  - apply emb_removed_from.
  - apply emb_added_from.
Qed.

Lemma emb_default_leaf_list xs ys p1 p2 :
  XM.default_leaf_list udiff opsX skipX (map emb xs) (map emb ys) (emb_path p1) (emb_path p2)
  = (map emb_entry (fst (BM.default_leaf_list udiff ops skip xs ys p1 p2)),
     snd (BM.default_leaf_list udiff ops skip xs ys p1 p2)).
Proof.
  unfold XM.default_leaf_list, BM.default_leaf_list. cbv zeta.
  rewrite Hops, emb_by_opcodes, emb_pairs_leaf, !map_length.
  destruct (Nat.ltb 1 _); [|reflexivity].
  destruct (Nat.leb _ _); reflexivity.
Qed.

Lemma emb_first_per_hash l : forall seen,
  XM.first_per_hash hatomX (map emb_atom l) seen = map emb_atom (BM.first_per_hash hatom l seen).
Proof.
  induction l as [|a l IH]; intros seen; cbn [map XM.first_per_hash BM.first_per_hash]; [reflexivity|].
  rewrite Hhatom. destruct (existsb _ seen); [apply IH|]. cbn [map]. rewrite IH. reflexivity.
Qed.

Lemma emb_report_set k a p1 p2 :
  XM.report_set skipX (emb_kind k) (emb_atom a) (emb_path p1) (emb_path p2)
  = map emb_entry (BM.report_set skip k a p1 p2).
Proof.
  unfold XM.report_set, BM.report_set. rewrite Hskip. destruct (skip p1); [reflexivity|].
  destruct k; reflexivity.
Qed.

Lemma emb_hashes l : map hatomX (map emb_atom l) = map hatom l.
Proof. rewrite map_map. apply map_ext. exact Hhatom. Qed.

Lemma emb_diff_set xs ys p1 p2 :
  XM.diff_set hatomX skipX (map emb_atom xs) (map emb_atom ys) (emb_path p1) (emb_path p2)
  = map emb_entry (BM.diff_set hatom skip xs ys p1 p2).
Proof.
  unfold XM.diff_set, BM.diff_set. cbv zeta.
  rewrite !emb_first_per_hash, !emb_hashes, map_app. f_equal.
  - apply flat_map_map_comm. intros y. rewrite Hhatom.
    destruct (existsb _ _); [reflexivity|]. exact (emb_report_set BT.KSetAdd y p1 p2).
  - apply flat_map_map_comm. intros x. rewrite Hhatom.
    destruct (existsb _ _); [reflexivity|]. exact (emb_report_set BT.KSetRem x p1 p2).
Qed.

(* ---- dictionaries ---- *)
Lemma emb_keys_of kvs : XM.keys_of (emb_cfg c) (emb_kvs kvs) = map emb_atom (BM.keys_of c kvs).
Proof.
  unfold XM.keys_of, BM.keys_of. rewrite emb_kvs_fst.
  apply filter_map_comm. intros a. apply emb_keep_key.
Qed.

Lemma emb_dict_shortcut k1 k2 p1 :
  XM.dict_shortcut exclX (emb_cfg c) (map emb_atom k1) (map emb_atom k2) (emb_path p1)
  = BM.dict_shortcut excl c k1 k2 p1.
Proof.
  unfold XM.dict_shortcut, BM.dict_shortcut. cbn [emb_cfg XM.thr_num XM.thr_den].
  destruct (Nat.eqb (BM.thr_num c) 0); [reflexivity|]. cbv zeta.
  rewrite (filter_map_comm emb_atom _ (fun k => BV.mem_atom k k1) k2) by (intros a; apply emb_mem_atom).
  rewrite (filter_map_comm emb_atom _ (fun k => negb (BV.mem_atom k k2)) k1) by (intros a; rewrite emb_mem_atom; reflexivity).
  rewrite <- map_app.
  rewrite (filter_map_comm emb_atom _ (fun k => negb (excl (BM.snoc p1 (BV.PKey k))))).
  2:{ intros a. change (XV.PKey (emb_atom a)) with (emb_key (BV.PKey a)). rewrite emb_snoc, Hexcl. reflexivity. }
  rewrite !map_length. reflexivity.
Qed.

Lemma emb_find_key k l :
  find (XV.py_eq (emb_atom k)) (map emb_atom l) = option_map emb_atom (find (BV.py_eq k) l).
Proof. apply find_map_comm. intros a. apply emb_py_eq. Qed.

Notation bdiff := (BM.diff hatom udiff ops skip excl c).
Notation xdiff := (XM.diff hatomX udiff opsX skipX exclX (emb_cfg c)).

Definition AGREE (t1 : BV.value) : Prop :=
  forall t2 p1 p2, xdiff (emb t1) (emb t2) (emb_path p1) (emb_path p2) = emb_res (bdiff t1 t2 p1 p2).

Lemma emb_app2 a b : XM.app2 (emb_res a) (emb_res b) = emb_res (BM.app2 a b).
Proof. unfold XM.app2, BM.app2, emb_res. cbn [fst snd]. rewrite !map_app. reflexivity. Qed.

Lemma emb_go_list xs : Forall AGREE xs -> forall ys i p1 p2,
  XF.go_list skipX xdiff (emb_path p1) (emb_path p2) (map emb xs) (map emb ys) i
  = emb_res (BF.go_list skip bdiff p1 p2 xs ys i).
Proof.
  intros H. induction H as [|x xs Hx _ IH]; intros ys i p1 p2.
  - cbn [map XF.go_list BF.go_list]. unfold emb_res. cbn [fst snd map]. rewrite emb_added_from. reflexivity.
  - destruct ys as [|y ys].
    + cbn [map XF.go_list BF.go_list]. unfold emb_res. cbn [fst snd].
      rewrite <- (emb_removed_from (x :: xs)). reflexivity.
    + cbn [map XF.go_list BF.go_list]. rewrite IH.
      change (XV.PIdx i) with (emb_key (BV.PIdx i)). rewrite !emb_snoc, Hx. apply emb_app2.
Qed.

Lemma xgo_common_cons cx d kvs2 k2 p1 p2 k v1 r :
  XF.go_common cx d kvs2 k2 p1 p2 ((k, v1) :: r) =
  if XM.keep_key cx k then
    match find (XV.py_eq k) k2 with
    | Some k' => match XV.assoc k' kvs2 with
                 | Some v2 => XM.app2 (d v1 v2 (XM.snoc p1 (XV.PKey k')) (XM.snoc p2 (XV.PKey k')))
                                      (XF.go_common cx d kvs2 k2 p1 p2 r)
                 | None => XF.go_common cx d kvs2 k2 p1 p2 r
                 end
    | None => XF.go_common cx d kvs2 k2 p1 p2 r
    end
  else XF.go_common cx d kvs2 k2 p1 p2 r.
Proof. reflexivity. Qed.
Lemma bgo_common_cons cb d kvs2 k2 p1 p2 k v1 r :
  BF.go_common cb d kvs2 k2 p1 p2 ((k, v1) :: r) =
  if BM.keep_key cb k then
    match find (BV.py_eq k) k2 with
    | Some k' => match BV.assoc k' kvs2 with
                 | Some v2 => BM.app2 (d v1 v2 (BM.snoc p1 (BV.PKey k')) (BM.snoc p2 (BV.PKey k')))
                                      (BF.go_common cb d kvs2 k2 p1 p2 r)
                 | None => BF.go_common cb d kvs2 k2 p1 p2 r
                 end
    | None => BF.go_common cb d kvs2 k2 p1 p2 r
    end
  else BF.go_common cb d kvs2 k2 p1 p2 r.
Proof. reflexivity. Qed.

Lemma emb_go_common kvs2 k2 p1 p2 kvs1 : Forall (fun kv => AGREE (snd kv)) kvs1 ->
  XF.go_common (emb_cfg c) xdiff (emb_kvs kvs2) (map emb_atom k2) (emb_path p1) (emb_path p2) (emb_kvs kvs1)
  = emb_res (BF.go_common c bdiff kvs2 k2 p1 p2 kvs1).
Proof.
  intros H. induction H as [|[k v1] kvs1 Hx _ IH].
  - reflexivity.
  - change (emb_kvs ((k, v1) :: kvs1)) with ((emb_atom k, emb v1) :: emb_kvs kvs1).
    rewrite xgo_common_cons, bgo_common_cons, IH, emb_keep_key.
    destruct (BM.keep_key c k); [|reflexivity].
    rewrite emb_find_key. destruct (find (BV.py_eq k) k2) as [k'|]; cbn [option_map]; [|reflexivity].
    rewrite emb_assoc. destruct (BV.assoc k' kvs2) as [v2|]; cbn [option_map]; [|reflexivity].
    change (XV.PKey (emb_atom k')) with (emb_key (BV.PKey k')). rewrite !emb_snoc.
    cbn [snd] in Hx. rewrite Hx. apply emb_app2.
Qed.

Lemma emb_dict_body kvs1 kvs2 p1 p2 : Forall (fun kv => AGREE (snd kv)) kvs1 ->
  XF.dict_body hatomX udiff opsX skipX exclX (emb_cfg c) (emb_kvs kvs1) (emb_kvs kvs2) (emb_path p1) (emb_path p2)
  = emb_res (BF.dict_body hatom udiff ops skip excl c kvs1 kvs2 p1 p2).
Proof.
  intros H. unfold XF.dict_body, BF.dict_body. cbv zeta.
  rewrite !emb_keys_of, emb_dict_shortcut.
  destruct (BM.dict_shortcut excl c _ _ p1).
  - unfold emb_res. cbn [fst snd map]. f_equal.
    exact (emb_report BT.KValue p1 p2 (Some (BV.VDict kvs1)) (Some (BV.VDict kvs2)) None).
  - rewrite (emb_go_common _ _ _ _ _ H). unfold emb_res. cbn [fst snd]. f_equal.
    rewrite !map_app. f_equal; [|f_equal].
    + apply flat_map_map_comm. intros k. rewrite emb_mem_atom.
      destruct (BV.mem_atom k _); [reflexivity|].
      change (XV.PKey (emb_atom k)) with (emb_key (BV.PKey k)). rewrite !emb_snoc, emb_assoc.
      exact (emb_report BT.KDictAdd _ _ None (BV.assoc k kvs2) None).
    + apply flat_map_map_comm. intros k. rewrite emb_mem_atom.
      destruct (BV.mem_atom k _); [reflexivity|].
      change (XV.PKey (emb_atom k)) with (emb_key (BV.PKey k)). rewrite !emb_snoc, emb_assoc.
      exact (emb_report BT.KDictRem _ _ (BV.assoc k kvs1) None None).
Qed.

Lemma emb_seq_body xs ys p1 p2 : Forall AGREE xs ->
  XF.seq_body hatomX udiff opsX skipX exclX (emb_cfg c) (map emb xs) (map emb ys) (emb_path p1) (emb_path p2)
  = emb_res (BF.seq_body hatom udiff ops skip excl c xs ys p1 p2).
Proof.
  intros H. unfold XF.seq_body, BF.seq_body. cbn [emb_cfg XM.zip].
  rewrite !(forallb_map_comm emb XM.is_atom BM.is_atom) by exact emb_is_atom.
  destruct (negb (BM.zip c) && forallb BM.is_atom xs && forallb BM.is_atom ys).
  - rewrite emb_default_leaf_list.
    destruct (BM.default_leaf_list udiff ops skip xs ys p1 p2) as [es r]. cbn [fst snd].
    unfold emb_res. cbn [fst snd]. destruct r; reflexivity.
  - apply emb_go_list. exact H.
Qed.

Theorem models_agree_diff_res : forall t1 t2 p1 p2,
  xdiff (emb t1) (emb t2) (emb_path p1) (emb_path p2) = emb_res (bdiff t1 t2 p1 p2).
Proof.
  intros t1. change (AGREE t1).
  induction t1 as [a|xs IH|xs IH|kvs IH|xs|xs] using BVF.value_ind'; intros t2 p1 p2;
    (destruct (skip p1) eqn:Hs;
     [rewrite XF.diff_skip, BF.diff_skip by (rewrite ?Hskip; exact Hs); reflexivity|]);
    match goal with |- XM.diff _ _ _ _ _ _ (emb ?t1) _ _ _ = _ =>
      destruct (BV.ty_eqb (BV.type_of t1) (BV.type_of t2)) eqn:T end.
  all: try (rewrite XF.diff_type, BF.diff_type;
            [ unfold emb_res; cbn [fst snd map]; f_equal;
              match goal with |- _ = map emb_entry (BM.report _ _ _ _ (Some ?u) (Some ?v) _) =>
                exact (emb_report BT.KType p1 p2 (Some u) (Some v) None) end
            | exact Hs | exact T | rewrite Hskip; exact Hs
            | rewrite !emb_type_of, emb_ty_eqb; exact T ]).
  - destruct t2 as [b|ys|ys|kvs'|ys|ys].
    2-6: destruct a; discriminate T.
    cbn [emb]. rewrite XF.diff_atom_eq, BF.diff_atom_eq by (rewrite ?Hskip; exact Hs).
    rewrite !emb_atom_ty, emb_ty_eqb. cbn [BV.type_of] in T. rewrite T. cbn [negb].
    unfold emb_res. cbn [fst snd map]. f_equal. apply emb_diff_atom.
  - destruct t2 as [b|ys|ys|kvs'|ys|ys]; try (destruct b); try discriminate T.
    cbn [emb]. rewrite XF.diff_list, BF.diff_list by (rewrite ?Hskip; exact Hs).
    apply emb_seq_body. exact IH.
  - destruct t2 as [b|ys|ys|kvs'|ys|ys]; try (destruct b); try discriminate T.
    cbn [emb]. rewrite XF.diff_tuple, BF.diff_tuple by (rewrite ?Hskip; exact Hs).
    apply emb_seq_body. exact IH.
  - destruct t2 as [b|ys|ys|kvs'|ys|ys]; try (destruct b); try discriminate T.
    cbn [emb]. fold (emb_kvs kvs). fold (emb_kvs kvs').
    rewrite XF.diff_dict, BF.diff_dict by (rewrite ?Hskip; exact Hs).
    apply emb_dict_body. exact IH.
  - destruct t2 as [b|ys|ys|kvs'|ys|ys]; try (destruct b); try discriminate T.
    cbn [emb]. rewrite XF.diff_vset, BF.diff_vset by (rewrite ?Hskip; exact Hs).
    unfold emb_res. cbn [fst snd map]. f_equal. apply emb_diff_set.
  - destruct t2 as [b|ys|ys|kvs'|ys|ys]; try (destruct b); try discriminate T.
    cbn [emb]. rewrite XF.diff_vfrozen, BF.diff_vfrozen by (rewrite ?Hskip; exact Hs).
    unfold emb_res. cbn [fst snd map]. f_equal. apply emb_diff_set.
Qed.

End Agree.

(* the statement with explicit components *)
Theorem models_agree_diff :
  forall hatom udiff ops skip excl c hatomX opsX skipX exclX,
    (forall a, hatomX (emb_atom a) = hatom a) ->
    (forall p xs ys, opsX (emb_path p) (map emb xs) (map emb ys) = map emb_op (ops p xs ys)) ->
    (forall p, skipX (emb_path p) = skip p) ->
    (forall p, exclX (emb_path p) = excl p) ->
    forall t1 t2 p1 p2,
      XM.diff hatomX udiff opsX skipX exclX (emb_cfg c) (emb t1) (emb t2) (emb_path p1) (emb_path p2)
      = (map emb_entry (fst (BM.diff hatom udiff ops skip excl c t1 t2 p1 p2)),
         map emb_path (snd (BM.diff hatom udiff ops skip excl c t1 t2 p1 p2))).
Proof. intros. apply models_agree_diff_res; assumption. Qed.

(* ------------------------------------------------------------------ *)
(* mutual_add_removes_to_become_value_changes, run_diff                *)
(* ------------------------------------------------------------------ *)
Lemma emb_is_kind k e : XM.is_kind (emb_kind k) (emb_entry e) = BM.is_kind k e.
Proof. unfold XM.is_kind, BM.is_kind. cbn [emb_entry XT.ekind]. apply emb_kind_eqb. Qed.

Lemma emb_last_with_path p l :
  XM.last_with_path (emb_path p) (map emb_entry l) = option_map emb_entry (BM.last_with_path p l).
Proof.
  unfold XM.last_with_path, BM.last_with_path.
  change (@None XT.entry) with (option_map emb_entry None). generalize (@None BT.entry) as acc.
  induction l as [|e l IH]; intros acc; cbn [map fold_left]; [reflexivity|].
  rewrite <- IH. f_equal. cbn [emb_entry XT.ep1]. rewrite emb_path_eqb.
  destruct (BV.path_eqb (BT.ep1 e) p); reflexivity.
Qed.

Theorem models_agree_mutual es : XM.mutual (map emb_entry es) = map emb_entry (BM.mutual es).
Proof.
  unfold XM.mutual, BM.mutual. cbv zeta.
  rewrite (filter_map_comm emb_entry (XM.is_kind XT.KIterAdd) (BM.is_kind BT.KIterAdd)) by (intros e; exact (emb_is_kind BT.KIterAdd e)).
  rewrite (filter_map_comm emb_entry (XM.is_kind XT.KIterRem) (BM.is_kind BT.KIterRem)) by (intros e; exact (emb_is_kind BT.KIterRem e)).
  apply flat_map_map_comm. intros e.
  change (XT.ekind (emb_entry e)) with (emb_kind (BT.ekind e)).
  change (XT.ep1 (emb_entry e)) with (emb_path (BT.ep1 e)).
  rewrite !emb_last_with_path.
  destruct (BT.ekind e) eqn:K; cbn [emb_kind]; try reflexivity.
  - destruct (BM.last_with_path (BT.ep1 e) (filter (BM.is_kind BT.KIterRem) es)); reflexivity.
  - destruct (BM.last_with_path (BT.ep1 e) (filter (BM.is_kind BT.KIterAdd) es)) as [a|]; [|reflexivity].
    destruct (BM.last_with_path (BT.ep1 e) (filter (BM.is_kind BT.KIterRem) es)); reflexivity.
Qed.

Theorem models_agree_run :
  forall hatom udiff ops skip excl c hatomX opsX skipX exclX,
    (forall a, hatomX (emb_atom a) = hatom a) ->
    (forall p xs ys, opsX (emb_path p) (map emb xs) (map emb ys) = map emb_op (ops p xs ys)) ->
    (forall p, skipX (emb_path p) = skip p) ->
    (forall p, exclX (emb_path p) = excl p) ->
    forall t1 t2,
      XM.run_diff hatomX udiff opsX skipX exclX (emb_cfg c) (emb t1) (emb t2)
      = (map emb_entry (fst (BM.run_diff hatom udiff ops skip excl c t1 t2)),
         map emb_path (snd (BM.run_diff hatom udiff ops skip excl c t1 t2))).
Proof.
  intros hatom udiff ops skip excl c hatomX opsX skipX exclX Hh Ho Hs He t1 t2.
  unfold XM.run_diff, BM.run_diff.
  change (@nil XV.pkey) with (emb_path []).
  rewrite (models_agree_diff hatom udiff ops skip excl c hatomX opsX skipX exclX Hh Ho Hs He).
  destruct (BM.diff hatom udiff ops skip excl c t1 t2 [] []) as [es r]. cbn [fst snd].
  rewrite models_agree_mutual. reflexivity.
Qed.

(* ------------------------------------------------------------------ *)
(* the path printer and the text view: the printer oracles are never   *)
(* consulted on embedded atoms                                         *)
(* ------------------------------------------------------------------ *)
Section Printer.
Variable xrepr xstr : XV.atom -> pystr.

Lemma emb_repr_atom a : XTV.repr_atom xrepr (emb_atom a) = PM.repr_atom a.
Proof. destruct a; reflexivity. Qed.
Lemma emb_stringify_param a : XTV.stringify_param xrepr (emb_atom a) = PM.stringify_param a.
Proof. destruct a; reflexivity. Qed.
Lemma emb_key_atom k : XTV.key_atom (emb_key k) = emb_atom (PM.key_atom k).
Proof. destruct k; reflexivity. Qed.
Lemma emb_render_key k : XTV.render_key xrepr (emb_key k) = PM.render_key k.
Proof. unfold XTV.render_key, PM.render_key. rewrite emb_key_atom, emb_stringify_param. reflexivity. Qed.
Lemma emb_render p : XTV.render xrepr (emb_path p) = PM.render p.
Proof.
  unfold XTV.render, PM.render. f_equal. unfold emb_path.
  induction p as [|k p IH]; cbn [map flat_map]; [reflexivity|]. rewrite emb_render_key, IH. reflexivity.
Qed.
Lemma emb_str_item a : XTV.str_item xrepr xstr (emb_atom a) = BTV.str_item a.
Proof. destruct a; reflexivity. Qed.
Lemma emb_set_item_text p a : XTV.set_item_text xrepr xstr (emb_path p) (emb_atom a) = BTV.set_item_text p a.
Proof. unfold XTV.set_item_text, BTV.set_item_text. rewrite emb_render, emb_str_item. reflexivity. Qed.

Lemma emb_new_path_of e : XTV.new_path_of xrepr (emb_entry e) = BTV.new_path_of e.
Proof. unfold XTV.new_path_of, BTV.new_path_of. cbn [emb_entry XT.ep1 XT.ep2]. rewrite !emb_render. reflexivity. Qed.
Lemma emb_opt_val o : XTV.opt_val (option_map emb o) = emb (BTV.opt_val o).
Proof. destruct o; reflexivity. Qed.
Lemma emb_opt_atom o : XTV.opt_atom (option_map emb o) = emb_atom (BTV.opt_atom o).
Proof. destruct o as [[a| | | | |]|]; reflexivity. Qed.

Lemma emb_text_of v e : XTV.text_of xrepr xstr v (emb_entry e) = map emb_tentry (BTV.text_of v e).
Proof.
  unfold XTV.text_of, BTV.text_of. cbv zeta. rewrite emb_new_path_of.
  cbn [emb_entry XT.ekind XT.ep1 XT.ep2 XT.et1 XT.et2 XT.ediff].
  rewrite !emb_render, !emb_opt_val, !emb_opt_atom, !emb_set_item_text, !emb_type_of.
  destruct (BT.ekind e); cbn [emb_kind map]; try reflexivity.
  - destruct (Nat.ltb 0 v), (Nat.ltb 1 v); reflexivity.
  - destruct (Nat.ltb 0 v); reflexivity.
  - destruct (Nat.leb 2 v); reflexivity.
  - destruct (Nat.leb 2 v); reflexivity.
  - destruct (Nat.ltb 1 v); reflexivity.
Qed.

Theorem models_agree_text v es :
  XTV.text_view xrepr xstr v (map emb_entry es) = map emb_tentry (BTV.text_view v es).
Proof. unfold XTV.text_view, BTV.text_view. apply flat_map_map_comm. intros e. apply emb_text_of. Qed.

(* ---- the specification ---- *)
Section SpecAgree.
Variable udiff : pystr -> pystr -> pystr.
Variable ip : bool.

Lemma emb_dunder k : XS.dunder (emb_atom k) = BS.dunder k.
Proof. destruct k; reflexivity. Qed.
Lemma emb_visible k : XS.visible ip (emb_atom k) = BS.visible ip k.
Proof. unfold XS.visible, BS.visible. rewrite emb_dunder. reflexivity. Qed.
Lemma emb_text_diff a b : XS.text_diff udiff (emb_atom a) (emb_atom b) = BS.text_diff udiff a b.
Proof. destruct a, b; reflexivity. Qed.
Lemma emb_at_key p k : XS.at_key (emb_path p) (emb_atom k) = emb_path (BS.at_key p k).
Proof. unfold XS.at_key, BS.at_key, emb_path. rewrite map_app. reflexivity. Qed.
Lemma emb_at_idx p i : XS.at_idx (emb_path p) i = emb_path (BS.at_idx p i).
Proof. unfold XS.at_idx, BS.at_idx, emb_path. rewrite map_app. reflexivity. Qed.
Lemma emb_has_key k kvs : XS.has_key (emb_atom k) (emb_kvs kvs) = BS.has_key k kvs.
Proof. unfold XS.has_key, BS.has_key. rewrite emb_kvs_fst. apply emb_mem_atom. Qed.
Lemma emb_member a l : XS.member (emb_atom a) (map emb_atom l) = BS.member a l.
Proof. unfold XS.member, BS.member. apply existsb_map_comm. intros b. apply emb_atom_eqb. Qed.

Lemma emb_tail_items (mkX : pystr -> XV.value -> XTV.tentry) (mk : pystr -> BV.value -> BTV.tentry) p l :
  (forall s v, mkX s (emb v) = emb_tentry (mk s v)) ->
  forall i, XS.tail_items xrepr mkX (emb_path p) (map emb l) i = map emb_tentry (BS.tail_items mk p l i).
Proof.
  intros H. induction l as [|x l IH]; intros i; cbn [map XS.tail_items BS.tail_items]; [reflexivity|].
  rewrite emb_at_idx, emb_render, H, IH. reflexivity.
Qed.

Notation bspec := (BS.spec udiff ip).
Notation xspec := (XS.spec xrepr xstr udiff ip).

Definition AGREES (t1 : BV.value) : Prop :=
  forall t2 p, xspec (emb t1) (emb t2) (emb_path p) = map emb_tentry (bspec t1 t2 p).

Lemma emb_find_kv k kvs :
  find (fun kv => XV.py_eq (emb_atom k) (fst kv)) (emb_kvs kvs)
  = option_map (fun kv => (emb_atom (fst kv), emb (snd kv))) (find (fun kv => BV.py_eq k (fst kv)) kvs).
Proof. unfold emb_kvs. apply find_map_comm. intros [k' v]. cbn [fst]. apply emb_py_eq. Qed.

Lemma spec_seq xs : Forall AGREES xs -> forall ys i p,
  (fix zipped (xs ys : list XV.value) (i : nat) {struct xs} : list XTV.tentry :=
     match xs, ys with
     | [], _ => XS.tail_items xrepr XTV.TIterAdd (emb_path p) ys i
     | _ :: _, [] => XS.tail_items xrepr XTV.TIterRem (emb_path p) xs i
     | x :: xs', y :: ys' => xspec x y (XS.at_idx (emb_path p) i) ++ zipped xs' ys' (S i)
     end) (map emb xs) (map emb ys) i
  = map emb_tentry
    ((fix zipped (xs ys : list BV.value) (i : nat) {struct xs} : list BTV.tentry :=
     match xs, ys with
     | [], _ => BS.tail_items BTV.TIterAdd p ys i
     | _ :: _, [] => BS.tail_items BTV.TIterRem p xs i
     | x :: xs', y :: ys' => bspec x y (BS.at_idx p i) ++ zipped xs' ys' (S i)
     end) xs ys i).
Proof.
  intros H. induction H as [|x xs Hx _ IH]; intros ys i p.
  - cbn [map]. apply emb_tail_items. reflexivity.
  - destruct ys as [|y ys].
    + cbn [map]. exact (emb_tail_items XTV.TIterRem BTV.TIterRem p (x :: xs) (fun _ _ => eq_refl) i).
    + cbn [map]. rewrite map_app, IH, emb_at_idx, Hx. reflexivity.
Qed.

Lemma spec_common kvs2 p kvs1 : Forall (fun kv => AGREES (snd kv)) kvs1 ->
  (fix common (l : list (XV.atom * XV.value)) : list XTV.tentry :=
     match l with
     | [] => []
     | (k, v1) :: r =>
         (if XS.visible ip k
          then match find (fun kv => XV.py_eq k (fst kv)) (emb_kvs kvs2) with
               | Some (k', v2) => xspec v1 v2 (XS.at_key (emb_path p) k')
               | None => []
               end
          else [])
         ++ common r
     end) (emb_kvs kvs1)
  = map emb_tentry
    ((fix common (l : list (BV.atom * BV.value)) : list BTV.tentry :=
     match l with
     | [] => []
     | (k, v1) :: r =>
         (if BS.visible ip k
          then match find (fun kv => BV.py_eq k (fst kv)) kvs2 with
               | Some (k', v2) => bspec v1 v2 (BS.at_key p k')
               | None => []
               end
          else [])
         ++ common r
     end) kvs1).
Proof.
  intros H. induction H as [|[k v1] kvs1 Hx _ IH].
  - reflexivity.
  - change (emb_kvs ((k, v1) :: kvs1)) with ((emb_atom k, emb v1) :: emb_kvs kvs1).
    cbv beta iota. cbv beta iota in IH. rewrite map_app, IH. f_equal.
    rewrite emb_visible. destruct (BS.visible ip k); [|reflexivity].
    rewrite emb_find_kv. destruct (find (fun kv => BV.py_eq k (fst kv)) kvs2) as [[k' v2]|]; cbn [option_map fst snd]; [|reflexivity].
    rewrite emb_at_key. cbn [snd] in Hx. apply Hx.
Qed.

Theorem models_agree_spec : forall t1 t2 p,
  XS.spec xrepr xstr udiff ip (emb t1) (emb t2) (emb_path p) = map emb_tentry (BS.spec udiff ip t1 t2 p).
Proof.
  intros t1. change (AGREES t1).
  induction t1 as [a|xs IH|xs IH|kvs IH|xs|xs] using BVF.value_ind'; intros t2 p;
    destruct t2 as [b|ys|ys|kvs'|ys|ys];
    try (cbn [emb XS.spec BS.spec XV.type_of BV.type_of XV.ty_eqb BV.ty_eqb negb map emb_tentry option_map emb_pair fst snd emb_ty];
         rewrite ?emb_render; reflexivity).
  1:{ cbn [emb XS.spec BS.spec XV.type_of BV.type_of]. rewrite !emb_atom_ty, emb_ty_eqb.
    destruct (BV.ty_eqb (BV.atom_ty a) (BV.atom_ty b)); cbn [negb].
    + rewrite emb_py_eq. destruct (BV.py_eq a b); [reflexivity|].
      cbn [map emb_tentry emb]. rewrite emb_render, emb_text_diff. reflexivity.
    + cbn [map emb_tentry option_map emb_pair fst snd emb]. rewrite emb_render, ?emb_atom_ty. reflexivity. }
  all: try (destruct a; cbn [emb emb_atom XS.spec BS.spec XV.type_of BV.type_of XV.atom_ty BV.atom_ty XV.ty_eqb BV.ty_eqb negb map emb_tentry option_map emb_pair fst snd emb_ty];
         rewrite ?emb_render; reflexivity).
  all: try (destruct b; cbn [emb emb_atom XS.spec BS.spec XV.type_of BV.type_of XV.atom_ty BV.atom_ty XV.ty_eqb BV.ty_eqb negb map emb_tentry option_map emb_pair fst snd emb_ty];
         rewrite ?emb_render; reflexivity).
  all: try (cbn [emb XS.spec BS.spec XV.type_of BV.type_of XV.ty_eqb BV.ty_eqb negb];
              first [ apply (spec_seq xs IH ys 0 p)
                    | rewrite map_app, !map_map; f_equal;
                      [ rewrite (filter_map_comm emb_atom _ (fun y => negb (BS.member y xs)) ys)
                          by (intros y; rewrite emb_member; reflexivity);
                        rewrite map_map; apply map_ext; intros y; cbn [emb_tentry]; rewrite emb_set_item_text; reflexivity
                      | rewrite (filter_map_comm emb_atom _ (fun x => negb (BS.member x ys)) xs)
                          by (intros x; rewrite emb_member; reflexivity);
                        rewrite map_map; apply map_ext; intros x; cbn [emb_tentry]; rewrite emb_set_item_text; reflexivity ] ]).
  cbn [emb XS.spec BS.spec XV.type_of BV.type_of XV.ty_eqb BV.ty_eqb negb].
  fold (emb_kvs kvs). fold (emb_kvs kvs').
  rewrite !map_app. f_equal; [|f_equal].
    + unfold emb_kvs at 1. apply flat_map_map_comm. intros [k v]. cbn [fst snd].
      rewrite emb_visible, emb_has_key. destruct (BS.visible ip k && negb (BS.has_key k kvs)); [|reflexivity].
      cbn [map emb_tentry option_map]. rewrite emb_at_key, emb_render. reflexivity.
    + unfold emb_kvs at 1. apply flat_map_map_comm. intros [k v]. cbn [fst snd].
      rewrite emb_visible, emb_has_key. destruct (BS.visible ip k && negb (BS.has_key k kvs')); [|reflexivity].
      cbn [map emb_tentry option_map]. rewrite emb_at_key, emb_render. reflexivity.
    + apply spec_common. exact IH.
Qed.

Corollary models_agree_spec_diff t1 t2 :
  XS.spec_diff xrepr xstr udiff ip (emb t1) (emb t2) = map emb_tentry (BS.spec_diff udiff ip t1 t2).
Proof. unfold XS.spec_diff, BS.spec_diff. exact (models_agree_spec t1 t2 []). Qed.

End SpecAgree.
End Printer.

(* ------------------------------------------------------------------ *)
(* a left inverse of the embedding; agreeing oracles exist for every   *)
(* base oracle                                                         *)
(* ------------------------------------------------------------------ *)
Definition opt_all {A B} (f : A -> option B) : list A -> option (list B) :=
  fix go (l : list A) : option (list B) :=
    match l with
    | [] => Some []
    | x :: r => match f x, go r with
                | Some y, Some ys => Some (y :: ys)
                | _, _ => None
                end
    end.

Lemma opt_all_map {A B} (f : A -> B) (g : B -> option A) l :
  Forall (fun a => g (f a) = Some a) l -> opt_all g (map f l) = Some l.
Proof. intros H. induction H as [|a l Ha _ IH]; cbn; [reflexivity|]. rewrite Ha, IH. reflexivity. Qed.
Lemma opt_all_map_all {A B} (f : A -> B) (g : B -> option A) l :
  (forall a, g (f a) = Some a) -> opt_all g (map f l) = Some l.
Proof. intros H. apply opt_all_map. apply Forall_forall. intros a _. apply H. Qed.

Definition unemb_atom (a : XV.atom) : option BV.atom :=
  match a with
  | XV.ANone => Some BV.ANone
  | XV.ABool b => Some (BV.ABool b)
  | XV.AInt z => Some (BV.AInt z)
  | XV.AHalf t => Some (BV.AHalf t)
  | XV.AStr s => Some (BV.AStr s)
  | XV.ABytes s => Some (BV.ABytes s)
  | _ => None
  end.
Fixpoint unemb (v : XV.value) : option BV.value :=
  match v with
  | XV.VAtom a => option_map BV.VAtom (unemb_atom a)
  | XV.VList xs => option_map BV.VList (opt_all unemb xs)
  | XV.VTuple xs => option_map BV.VTuple (opt_all unemb xs)
  | XV.VDict kvs =>
      option_map BV.VDict
        (opt_all (fun kv => match unemb_atom (fst kv), unemb (snd kv) with
                            | Some k, Some w => Some (k, w)
                            | _, _ => None
                            end) kvs)
  | XV.VSet xs => option_map BV.VSet (opt_all unemb_atom xs)
  | XV.VFrozen xs => option_map BV.VFrozen (opt_all unemb_atom xs)
  end.
Definition unemb_key (k : XV.pkey) : option BV.pkey :=
  match k with
  | XV.PKey a => option_map BV.PKey (unemb_atom a)
  | XV.PIdx i => Some (BV.PIdx i)
  end.
Definition unemb_path (p : XV.path) : option BV.path := opt_all unemb_key p.
Definition unemb_list (l : list XV.value) : option (list BV.value) := opt_all unemb l.

Lemma unemb_emb_atom a : unemb_atom (emb_atom a) = Some a.
Proof. destruct a; reflexivity. Qed.
Lemma unemb_emb : forall v, unemb (emb v) = Some v.
Proof.
  intros v. induction v as [a|xs IH|xs IH|kvs IH|xs|xs] using BVF.value_ind'; cbn [emb unemb].
  - rewrite unemb_emb_atom. reflexivity.
  - rewrite (opt_all_map emb unemb xs IH). reflexivity.
  - rewrite (opt_all_map emb unemb xs IH). reflexivity.
  - rewrite (opt_all_map (fun kv => (emb_atom (fst kv), emb (snd kv))) _ kvs); [reflexivity|].
    eapply Forall_impl; [|exact IH]. intros [k w] H. cbn [fst snd] in *. rewrite unemb_emb_atom, H. reflexivity.
  - rewrite (opt_all_map_all emb_atom unemb_atom xs unemb_emb_atom). reflexivity.
  - rewrite (opt_all_map_all emb_atom unemb_atom xs unemb_emb_atom). reflexivity.
Qed.
Lemma unemb_emb_key k : unemb_key (emb_key k) = Some k.
Proof. destruct k; cbn; [rewrite unemb_emb_atom|]; reflexivity. Qed.
Lemma unemb_emb_path p : unemb_path (emb_path p) = Some p.
Proof. apply opt_all_map_all. exact unemb_emb_key. Qed.
Lemma unemb_emb_list l : unemb_list (map emb l) = Some l.
Proof. apply opt_all_map_all. exact unemb_emb. Qed.

(* the canonical extension of a base oracle (anything outside the image of [emb]: a default) *)
Definition lift_hatom (hatom : BV.atom -> pystr) (a : XV.atom) : pystr :=
  match unemb_atom a with Some b => hatom b | None => [] end.
Definition lift_ops (ops : BV.path -> list BV.value -> list BV.value -> list BT.opcode)
    (p : XV.path) (xs ys : list XV.value) : list XT.opcode :=
  match unemb_path p, unemb_list xs, unemb_list ys with
  | Some p', Some xs', Some ys' => map emb_op (ops p' xs' ys')
  | _, _, _ => []
  end.
Definition lift_path (f : BV.path -> bool) (p : XV.path) : bool :=
  match unemb_path p with Some p' => f p' | None => false end.

Lemma lift_hatom_agrees hatom a : lift_hatom hatom (emb_atom a) = hatom a.
Proof. unfold lift_hatom. rewrite unemb_emb_atom. reflexivity. Qed.
Lemma lift_ops_agrees ops p xs ys :
  lift_ops ops (emb_path p) (map emb xs) (map emb ys) = map emb_op (ops p xs ys).
Proof. unfold lift_ops. rewrite unemb_emb_path, !unemb_emb_list. reflexivity. Qed.
Lemma lift_path_agrees f p : lift_path f (emb_path p) = f p.
Proof. unfold lift_path. rewrite unemb_emb_path. reflexivity. Qed.

Theorem agreeing_oracles_exist : forall hatom ops skip excl,
  exists (hatomX : XV.atom -> pystr) (opsX : XV.path -> list XV.value -> list XV.value -> list XT.opcode)
         (skipX exclX : XV.path -> bool),
    (forall a, hatomX (emb_atom a) = hatom a) /\
    (forall p xs ys, opsX (emb_path p) (map emb xs) (map emb ys) = map emb_op (ops p xs ys)) /\
    (forall p, skipX (emb_path p) = skip p) /\
    (forall p, exclX (emb_path p) = excl p).
Proof.
  intros hatom ops skip excl.
  exists (lift_hatom hatom), (lift_ops ops), (lift_path skip), (lift_path excl).
  repeat split; intros.
  - apply lift_hatom_agrees.
  - apply lift_ops_agrees.
  - apply lift_path_agrees.
  - apply lift_path_agrees.
Qed.

(* an injective base item hash lifts to one that is injective on the image of [emb] *)
Lemma lift_hatom_inj_on_image hatom :
  (forall a b, hatom a = hatom b -> a = b) ->
  forall a b, lift_hatom hatom (emb_atom a) = lift_hatom hatom (emb_atom b) -> emb_atom a = emb_atom b.
Proof. intros Hinj a b. rewrite !lift_hatom_agrees. intros H. f_equal. apply Hinj. exact H. Qed.

(* ------------------------------------------------------------------ *)
(* corollaries (quoted by Properties/C02.v and C03.v)                  *)
(* ------------------------------------------------------------------ *)
Lemma emb_entry_inj e e' : emb_entry e = emb_entry e' -> e = e'.
Proof.
  destruct e as [k p1 p2 a b d], e' as [k' p1' p2' a' b' d']. unfold emb_entry. cbn.
  intros H. inversion H as [[Hk H1 H2 Ha Hb Hd]].
  assert (k = k') by (destruct k, k'; try reflexivity; discriminate Hk).
  apply emb_path_inj in H1, H2.
  assert (Ho : forall o o', option_map emb o = option_map emb o' -> o = o').
  { intros [v|] [w|] E; cbn in E; try reflexivity; try discriminate. inversion E as [E1]. f_equal. apply emb_inj. exact E1. }
  apply Ho in Ha, Hb. subst. reflexivity.
Qed.

Lemma emb_tentry_inj e e' : emb_tentry e = emb_tentry e' -> e = e'.
Proof.
  assert (Ho : forall o o', option_map emb o = option_map emb o' -> o = o').
  { intros [v|] [w|] E; cbn in E; try reflexivity; try discriminate. inversion E as [E1]. f_equal. apply emb_inj. exact E1. }
  assert (Hp : forall o o', option_map emb_pair o = option_map emb_pair o' -> o = o').
  { intros [[v1 v2]|] [[w1 w2]|] E; cbn in E; try reflexivity; try discriminate.
    inversion E as [[E1 E2]]. apply emb_inj in E1, E2. subst. reflexivity. }
  destruct e, e'; cbn; intros H; try discriminate; inversion H; subst;
    repeat match goal with
    | E : emb_ty _ = emb_ty _ |- _ => apply emb_ty_inj in E
    | E : emb _ = emb _ |- _ => apply emb_inj in E
    | E : option_map emb _ = option_map emb _ |- _ => apply Ho in E
    | E : option_map emb_pair _ = option_map emb_pair _ |- _ => apply Hp in E
    end; subst; reflexivity.
Qed.

(* the lists of text-view entries determine each other *)
Lemma map_emb_tentry_inj l l' : map emb_tentry l = map emb_tentry l' -> l = l'.
Proof. apply map_inj. exact emb_tentry_inj. Qed.
Lemma map_emb_entry_inj l l' : map emb_entry l = map emb_entry l' -> l = l'.
Proof. apply map_inj. exact emb_entry_inj. Qed.

Theorem models_agree_empty :
  forall hatom udiff ops skip excl c hatomX opsX skipX exclX,
    (forall a, hatomX (emb_atom a) = hatom a) ->
    (forall p xs ys, opsX (emb_path p) (map emb xs) (map emb ys) = map emb_op (ops p xs ys)) ->
    (forall p, skipX (emb_path p) = skip p) ->
    (forall p, exclX (emb_path p) = excl p) ->
    forall t1 t2,
      fst (XM.run_diff hatomX udiff opsX skipX exclX (emb_cfg c) (emb t1) (emb t2)) = []
      <-> fst (BM.run_diff hatom udiff ops skip excl c t1 t2) = [].
Proof.
  intros hatom udiff ops skip excl c hatomX opsX skipX exclX Hh Ho Hs He t1 t2.
  rewrite (models_agree_run hatom udiff ops skip excl c hatomX opsX skipX exclX Hh Ho Hs He).
  cbn [fst]. apply map_nil_iff.
Qed.

(* hypothesis-free forms: the canonical liftings, nothing excluded by exclude_paths (C02 / C03 setting) *)
Theorem models_agree_run_lifted hatom udiff ops excl c t1 t2 :
  XM.run_diff (lift_hatom hatom) udiff (lift_ops ops) (fun _ => false) (lift_path excl) (emb_cfg c) (emb t1) (emb t2)
  = (map emb_entry (fst (BM.run_diff hatom udiff ops (fun _ => false) excl c t1 t2)),
     map emb_path (snd (BM.run_diff hatom udiff ops (fun _ => false) excl c t1 t2))).
Proof.
  apply models_agree_run.
  - apply lift_hatom_agrees.
  - apply lift_ops_agrees.
  - reflexivity.
  - apply lift_path_agrees.
Qed.

Theorem models_agree_empty_lifted hatom udiff ops excl c t1 t2 :
  fst (XM.run_diff (lift_hatom hatom) udiff (lift_ops ops) (fun _ => false) (lift_path excl) (emb_cfg c) (emb t1) (emb t2)) = []
  <-> fst (BM.run_diff hatom udiff ops (fun _ => false) excl c t1 t2) = [].
Proof. rewrite models_agree_run_lifted. cbn [fst]. apply map_nil_iff. Qed.

(* the text view of a whole run *)
Theorem models_agree_text_run :
  forall xrepr xstr hatom udiff ops skip excl c hatomX opsX skipX exclX,
    (forall a, hatomX (emb_atom a) = hatom a) ->
    (forall p xs ys, opsX (emb_path p) (map emb xs) (map emb ys) = map emb_op (ops p xs ys)) ->
    (forall p, skipX (emb_path p) = skip p) ->
    (forall p, exclX (emb_path p) = excl p) ->
    forall v t1 t2,
      XTV.text_view xrepr xstr v (fst (XM.run_diff hatomX udiff opsX skipX exclX (emb_cfg c) (emb t1) (emb t2)))
      = map emb_tentry (BTV.text_view v (fst (BM.run_diff hatom udiff ops skip excl c t1 t2))).
Proof.
  intros xrepr xstr hatom udiff ops skip excl c hatomX opsX skipX exclX Hh Ho Hs He v t1 t2.
  rewrite (models_agree_run hatom udiff ops skip excl c hatomX opsX skipX exclX Hh Ho Hs He).
  cbn [fst]. apply models_agree_text.
Qed.

(* "the run's text view is the specification" transfers between the universes (C03) *)
Theorem models_agree_is_spec :
  forall xrepr xstr hatom udiff ops skip excl c hatomX opsX skipX exclX,
    (forall a, hatomX (emb_atom a) = hatom a) ->
    (forall p xs ys, opsX (emb_path p) (map emb xs) (map emb ys) = map emb_op (ops p xs ys)) ->
    (forall p, skipX (emb_path p) = skip p) ->
    (forall p, exclX (emb_path p) = excl p) ->
    forall v ip t1 t2,
      XTV.text_view xrepr xstr v (fst (XM.run_diff hatomX udiff opsX skipX exclX (emb_cfg c) (emb t1) (emb t2)))
        = XS.spec_diff xrepr xstr udiff ip (emb t1) (emb t2)
      <-> BTV.text_view v (fst (BM.run_diff hatom udiff ops skip excl c t1 t2)) = BS.spec_diff udiff ip t1 t2.
Proof.
  intros xrepr xstr hatom udiff ops skip excl c hatomX opsX skipX exclX Hh Ho Hs He v ip t1 t2.
  rewrite (models_agree_text_run xrepr xstr hatom udiff ops skip excl c hatomX opsX skipX exclX Hh Ho Hs He).
  rewrite models_agree_spec_diff. split; intros H.
  - apply map_emb_tentry_inj. exact H.
  - rewrite H. reflexivity.
Qed.

(* Python equality of the inputs is the same relation in both universes (C02: "empty iff ==") *)
Theorem models_agree_empty_iff_eq :
  forall hatom udiff ops skip excl c hatomX opsX skipX exclX,
    (forall a, hatomX (emb_atom a) = hatom a) ->
    (forall p xs ys, opsX (emb_path p) (map emb xs) (map emb ys) = map emb_op (ops p xs ys)) ->
    (forall p, skipX (emb_path p) = skip p) ->
    (forall p, exclX (emb_path p) = excl p) ->
    forall t1 t2,
      (fst (XM.run_diff hatomX udiff opsX skipX exclX (emb_cfg c) (emb t1) (emb t2)) = [] -> XV.py_eqv (emb t1) (emb t2) = true)
      <-> (fst (BM.run_diff hatom udiff ops skip excl c t1 t2) = [] -> BV.py_eqv t1 t2 = true).
Proof.
  intros hatom udiff ops skip excl c hatomX opsX skipX exclX Hh Ho Hs He t1 t2.
  rewrite (models_agree_empty hatom udiff ops skip excl c hatomX opsX skipX exclX Hh Ho Hs He), emb_py_eqv.
  reflexivity.
Qed.

(* ------------------------------------------------------------------ *)
(* the C02 / C03 theorems of the extended universe (Diff/XuEmpty.v,    *)
(* Diff/XuSpecProofs.v) specialise to the ones of the old universe     *)
(* ------------------------------------------------------------------ *)

(* [unemb] is also a right inverse where it is defined: its domain is the image of [emb] *)
Lemma opt_all_some {A B} (f : A -> B) (g : B -> option A) l :
  Forall (fun b => forall a, g b = Some a -> b = f a) l -> forall l', opt_all g l = Some l' -> l = map f l'.
Proof.
  intros H. induction H as [|b l Hb _ IH]; intros l' E; cbn in E.
  - inversion E. reflexivity.
  - destruct (g b) as [a|] eqn:Ea; [|discriminate]. destruct (opt_all g l) as [r|] eqn:Er; [|discriminate].
    inversion E. subst l'. cbn. rewrite <- (Hb a eq_refl), <- (IH r eq_refl). reflexivity.
Qed.
Lemma unemb_atom_some a b : unemb_atom a = Some b -> a = emb_atom b.
Proof. destruct a; cbn; intros H; try discriminate; inversion H; reflexivity. Qed.
Lemma unemb_some : forall v w, unemb v = Some w -> v = emb w.
Proof.
  intros v. induction v as [a|xs IH|xs IH|kvs IH|xs|xs] using XVF.value_ind'; intros w E; cbn [unemb] in E.
  - destruct (unemb_atom a) as [b|] eqn:Ea; [|discriminate]. inversion E. cbn. f_equal. apply unemb_atom_some. exact Ea.
  - destruct (opt_all unemb xs) as [l|] eqn:El; [|discriminate]. inversion E. cbn. f_equal.
    exact (opt_all_some emb unemb xs IH l El).
  - destruct (opt_all unemb xs) as [l|] eqn:El; [|discriminate]. inversion E. cbn. f_equal.
    exact (opt_all_some emb unemb xs IH l El).
  - match type of E with option_map _ (opt_all ?g kvs) = _ => destruct (opt_all g kvs) as [l|] eqn:El; [|discriminate] end.
    inversion E. cbn. f_equal.
    refine (opt_all_some (fun kv => (emb_atom (fst kv), emb (snd kv))) _ kvs _ l El).
    eapply Forall_impl; [|exact IH]. intros [k x] Hx [k' x'] Ekv. cbn [fst snd] in *.
    destruct (unemb_atom k) as [b|] eqn:Ek; [|discriminate]. destruct (unemb x) as [y|] eqn:Ey; [|discriminate].
    inversion Ekv. subst. f_equal; [apply unemb_atom_some; exact Ek|apply Hx; reflexivity].
  - destruct (opt_all unemb_atom xs) as [l|] eqn:El; [|discriminate]. inversion E. cbn. f_equal.
    refine (opt_all_some emb_atom unemb_atom xs _ l El). apply Forall_forall. intros a _ b. apply unemb_atom_some.
  - destruct (opt_all unemb_atom xs) as [l|] eqn:El; [|discriminate]. inversion E. cbn. f_equal.
    refine (opt_all_some emb_atom unemb_atom xs _ l El). apply Forall_forall. intros a _ b. apply unemb_atom_some.
Qed.
Lemma unemb_list_some l l' : unemb_list l = Some l' -> l = map emb l'.
Proof. apply opt_all_some. apply Forall_forall. intros v _ w. apply unemb_some. Qed.
Lemma unemb_key_some k k' : unemb_key k = Some k' -> k = emb_key k'.
Proof.
  destruct k as [a|i]; cbn; intros H.
  - destruct (unemb_atom a) as [b|] eqn:Ea; [|discriminate]. inversion H. cbn. f_equal. apply unemb_atom_some. exact Ea.
  - inversion H. reflexivity.
Qed.
Lemma unemb_path_some p p' : unemb_path p = Some p' -> p = emb_path p'.
Proof. apply opt_all_some. apply Forall_forall. intros k _ k'. apply unemb_key_some. Qed.

(* opcode validity is the same predicate on both sides *)
Lemma emb_tag_ok o : XE.tag_ok (emb_op o) = BE.tag_ok o.
Proof. destruct o as [tg i1 i2 j1 j2]. destruct tg; reflexivity. Qed.
Lemma emb_tiles os : forall i j n m, XE.tiles (map emb_op os) i j n m = BE.tiles os i j n m.
Proof.
  induction os as [|o os IH]; intros i j n m; cbn [map XE.tiles BE.tiles]; [reflexivity|].
  rewrite IH, emb_tag_ok. reflexivity.
Qed.
Lemma emb_all2_leaf xs : forall ys,
  XE.all2 XM.py_eq_leaf (map emb xs) (map emb ys) = BE.all2 BM.py_eq_leaf xs ys.
Proof.
  induction xs as [|x xs IH]; intros [|y ys]; cbn [map XE.all2 BE.all2]; try reflexivity.
  rewrite emb_py_eq_leaf, IH. reflexivity.
Qed.
Lemma emb_equal_ok xs ys o : XE.equal_ok (map emb xs) (map emb ys) (emb_op o) = BE.equal_ok xs ys o.
Proof.
  destruct o as [tg i1 i2 j1 j2]. unfold XE.equal_ok, BE.equal_ok.
  cbn [emb_op XT.otag XT.oi1 XT.oi2 XT.oj1 XT.oj2 BT.otag BT.oi1 BT.oi2 BT.oj1 BT.oj2].
  destruct tg; cbn [emb_tag]; try reflexivity. rewrite !emb_slice. apply emb_all2_leaf.
Qed.
Lemma emb_valid_opcodes os xs ys :
  XE.valid_opcodes (map emb_op os) (map emb xs) (map emb ys) = BE.valid_opcodes os xs ys.
Proof.
  unfold XE.valid_opcodes, BE.valid_opcodes. rewrite emb_tiles, !map_length. f_equal.
  apply forallb_map_comm. intros o. apply emb_equal_ok.
Qed.

(* a lifting of the opcode oracle that is a valid answer everywhere (one 'replace' block outside the image) *)
Definition lift_ops_total (ops : BV.path -> list BV.value -> list BV.value -> list BT.opcode)
    (p : XV.path) (xs ys : list XV.value) : list XT.opcode :=
  match unemb_path p, unemb_list xs, unemb_list ys with
  | Some p', Some xs', Some ys' => map emb_op (ops p' xs' ys')
  | _, _, _ => XE.one_block p xs ys
  end.
Lemma lift_ops_total_agrees ops p xs ys :
  lift_ops_total ops (emb_path p) (map emb xs) (map emb ys) = map emb_op (ops p xs ys).
Proof. unfold lift_ops_total. rewrite unemb_emb_path, !unemb_emb_list. reflexivity. Qed.
Lemma lift_ops_total_valid ops : BE.valid_ops ops -> XE.valid_ops (lift_ops_total ops).
Proof.
  intros H p xs ys. unfold lift_ops_total.
  destruct (unemb_path p) as [p'|] eqn:Ep; [|apply XE.one_block_valid].
  destruct (unemb_list xs) as [xs'|] eqn:Ex; [|apply XE.one_block_valid].
  destruct (unemb_list ys) as [ys'|] eqn:Ey; [|apply XE.one_block_valid].
  apply unemb_list_some in Ex, Ey. subst xs ys. rewrite emb_valid_opcodes. apply H.
Qed.
Lemma lift_ops_total_tiling ops : BE.tiling ops -> XE.tiling (lift_ops_total ops).
Proof.
  intros H p xs ys. unfold lift_ops_total.
  destruct (unemb_path p) as [p'|] eqn:Ep; [|apply (XE.valid_ops_tiling _ XE.one_block_valid)].
  destruct (unemb_list xs) as [xs'|] eqn:Ex; [|apply (XE.valid_ops_tiling _ XE.one_block_valid)].
  destruct (unemb_list ys) as [ys'|] eqn:Ey; [|apply (XE.valid_ops_tiling _ XE.one_block_valid)].
  apply unemb_list_some in Ex, Ey. subst xs ys. rewrite emb_tiles, !map_length. apply H.
Qed.

(* a predicate on base atoms, lifted: false outside the image *)
Definition lift_pred (ok : BV.atom -> bool) (a : XV.atom) : bool :=
  match unemb_atom a with Some b => ok b | None => false end.
Lemma lift_pred_agrees ok a : lift_pred ok (emb_atom a) = ok a.
Proof. unfold lift_pred. rewrite unemb_emb_atom. reflexivity. Qed.
Lemma lift_pred_image ok a : lift_pred ok a = true -> exists b, a = emb_atom b /\ ok b = true.
Proof.
  unfold lift_pred. destruct (unemb_atom a) as [b|] eqn:E; [|discriminate].
  intros H. exists b. split; [apply unemb_atom_some; exact E|exact H].
Qed.

Lemma emb_inputs_ok keep ok keepX okX lf :
  (forall a, keepX (emb_atom a) = keep a) -> (forall a, okX (emb_atom a) = ok a) -> (forall a, lf (emb_atom a) = true) ->
  forall v, XE.inputs_ok keepX okX lf (emb v) = BE.inputs_ok keep ok v.
Proof.
  intros Hk Ho Hl v. induction v as [a|xs IH|xs IH|kvs IH|xs|xs] using BVF.value_ind'; cbn [emb XE.inputs_ok BE.inputs_ok].
  - apply Hl.
  - induction IH as [|x xs Hx _ IHl]; cbn; [reflexivity|]. rewrite Hx, IHl. reflexivity.
  - induction IH as [|x xs Hx _ IHl]; cbn; [reflexivity|]. rewrite Hx, IHl. reflexivity.
  - induction IH as [|[k x] xs Hx _ IHl]; cbn; [reflexivity|]. cbn [snd] in Hx. rewrite Hk, Hx, IHl. reflexivity.
  - apply forallb_map_comm. exact Ho.
  - apply forallb_map_comm. exact Ho.
Qed.
Lemma base_inputs_ok_any v : BE.inputs_ok BE.any_atom BE.any_atom v = true.
Proof.
  induction v as [a|xs IH|xs IH|kvs IH|xs|xs] using BVF.value_ind'; cbn [BE.inputs_ok]; try reflexivity.
  - induction IH as [|x xs Hx _ IHl]; cbn; [reflexivity|]. rewrite Hx, IHl. reflexivity.
  - induction IH as [|x xs Hx _ IHl]; cbn; [reflexivity|]. rewrite Hx, IHl. reflexivity.
  - induction IH as [|[k x] xs Hx _ IHl]; cbn [forallb fst snd]; [reflexivity|]. cbn [snd] in Hx. rewrite Hx, IHl. reflexivity.
  - induction xs as [|x xs IHl]; cbn; [reflexivity|exact IHl].
  - induction xs as [|x xs IHl]; cbn; [reflexivity|exact IHl].
Qed.

(* C02, first half: the old "a structural copy gives an empty diff" from the extended one *)
Theorem base_copy_empty_from_extended :
  forall hatom udiff ops excl c t,
    BM.thr_num c <= BM.thr_den c -> BE.tiling ops -> BV.wf t = true ->
    fst (BM.run_diff hatom udiff ops (fun _ => false) excl c t t) = [].
Proof.
  intros hatom udiff ops excl c t Hthr Ht W.
  apply (models_agree_empty hatom udiff ops (fun _ => false) excl c
           (lift_hatom hatom) (lift_ops_total ops) (fun _ => false) (lift_path excl)
           (lift_hatom_agrees hatom) (lift_ops_total_agrees ops) (fun _ => eq_refl) (lift_path_agrees excl) t t).
  apply XE.run_copy_empty.
  - exact Hthr.
  - apply lift_ops_total_tiling. exact Ht.
  - rewrite emb_wf. exact W.
Qed.

(* C02, second half: the old "an empty diff means ==" from the extended one (no datetime leaves: the leaf guard holds) *)
Theorem base_empty_sound_from_extended :
  forall hatom udiff ops excl c ok t1 t2,
    (forall a b, ok a = true -> ok b = true -> hatom a = hatom b -> a = b) -> BE.valid_ops ops ->
    BV.wf t1 = true -> BV.wf t2 = true ->
    BE.inputs_ok (BM.keep_key c) ok t1 = true -> BE.inputs_ok (BM.keep_key c) ok t2 = true ->
    fst (BM.run_diff hatom udiff ops (fun _ => false) excl c t1 t2) = [] -> BV.py_eqv t1 t2 = true.
Proof.
  intros hatom udiff ops excl c ok t1 t2 Hinj Hv W1 W2 G1 G2 E.
  rewrite <- emb_py_eqv.
  apply (XE.run_empty_sound_dt (lift_hatom hatom) udiff (lift_ops_total ops) (lift_path excl) (emb_cfg c) (lift_pred ok) true).
  - intros a b Oa Ob Hh. destruct (lift_pred_image ok a Oa) as [a' [-> Oa']]. destruct (lift_pred_image ok b Ob) as [b' [-> Ob']].
    rewrite !lift_hatom_agrees in Hh. rewrite (Hinj a' b' Oa' Ob' Hh). apply XVF.py_eq_refl.
  - apply lift_ops_total_valid. exact Hv.
  - rewrite emb_wf. exact W1.
  - rewrite emb_wf. exact W2.
  - rewrite (emb_inputs_ok (BM.keep_key c) ok); [exact G1|apply emb_keep_key|apply lift_pred_agrees|intros a; destruct a; reflexivity].
  - rewrite (emb_inputs_ok (BM.keep_key c) ok); [exact G2|apply emb_keep_key|apply lift_pred_agrees|intros a; destruct a; reflexivity].
  - apply (models_agree_empty hatom udiff ops (fun _ => false) excl c
             (lift_hatom hatom) (lift_ops_total ops) (fun _ => false) (lift_path excl)
             (lift_hatom_agrees hatom) (lift_ops_total_agrees ops) (fun _ => eq_refl) (lift_path_agrees excl) t1 t2).
    exact E.
Qed.

(* C03: the old "positional mode computes the definition" from the extended one (no datetime leaves: the
   leaf guard dt_utc holds; the printer oracles are irrelevant) *)
Theorem base_positional_is_spec_from_extended :
  forall hatom udiff ops excl d ip t1 t2,
    (forall a b, hatom a = hatom b -> a = b) ->
    BV.wf t1 = true -> BV.wf t2 = true ->
    BTV.text_view 2 (fst (BM.run_diff hatom udiff ops (fun _ => false) excl (BM.mkCfg true 0 d ip) t1 t2))
    = BS.spec_diff udiff ip t1 t2.
Proof.
  intros hatom udiff ops excl d ip t1 t2 Hinj W1 W2.
  apply (proj1 (models_agree_is_spec (fun _ => []) (fun _ => []) hatom udiff ops (fun _ => false) excl (BM.mkCfg true 0 d ip)
           (lift_hatom hatom) (lift_ops ops) (fun _ => false) (lift_path excl)
           (lift_hatom_agrees hatom) (lift_ops_agrees ops) (fun _ => eq_refl) (lift_path_agrees excl) 2 ip t1 t2)).
  apply (XSP.positional_run_is_spec_guarded (fun _ => []) (fun _ => []) (lift_hatom hatom) udiff (lift_ops ops)
           (lift_path excl) d ip (lift_pred BE.any_atom)).
  - intros a b Oa Ob Hh. destruct (lift_pred_image _ a Oa) as [a' [-> _]]. destruct (lift_pred_image _ b Ob) as [b' [-> _]].
    rewrite !lift_hatom_agrees in Hh. rewrite (Hinj a' b' Hh). reflexivity.
  - rewrite emb_wf. exact W1.
  - rewrite emb_wf. exact W2.
  - rewrite (emb_inputs_ok BE.any_atom BE.any_atom); [apply base_inputs_ok_any|reflexivity|apply lift_pred_agrees|intros a; destruct a; reflexivity].
  - rewrite (emb_inputs_ok BE.any_atom BE.any_atom); [apply base_inputs_ok_any|reflexivity|apply lift_pred_agrees|intros a; destruct a; reflexivity].
Qed.


(* ------------------------------------------------------------------ *)
(* a left inverse of the embedding; agreeing oracles exist for every   *)
(* base oracle                                                         *)
(* ------------------------------------------------------------------ *)
Definition opt_all {A B} (f : A -> option B) : list A -> option (list B) :=
  fix go (l : list A) : option (list B) :=
    match l with
    | [] => Some []
    | x :: r => match f x, go r with
                | Some y, Some ys => Some (y :: ys)
                | _, _ => None
                end
    end.

Lemma opt_all_map {A B} (f : A -> B) (g : B -> option A) l :
  Forall (fun a => g (f a) = Some a) l -> opt_all g (map f l) = Some l.
Proof. intros H. induction H as [|a l Ha _ IH]; cbn; [reflexivity|]. rewrite Ha, IH. reflexivity. Qed.
Lemma opt_all_map_all {A B} (f : A -> B) (g : B -> option A) l :
  (forall a, g (f a) = Some a) -> opt_all g (map f l) = Some l.
Proof. intros H. apply opt_all_map. apply Forall_forall. intros a _. apply H. Qed.

Definition unemb_atom (a : XV.atom) : option BV.atom :=
  match a with
  | XV.ANone => Some BV.ANone
  | XV.ABool b => Some (BV.ABool b)
  | XV.AInt z => Some (BV.AInt z)
  | XV.AHalf t => Some (BV.AHalf t)
  | XV.AStr s => Some (BV.AStr s)
  | XV.ABytes s => Some (BV.ABytes s)
  | _ => None
  end.
Fixpoint unemb (v : XV.value) : option BV.value :=
  match v with
  | XV.VAtom a => option_map BV.VAtom (unemb_atom a)
  | XV.VList xs => option_map BV.VList (opt_all unemb xs)
  | XV.VTuple xs => option_map BV.VTuple (opt_all unemb xs)
  | XV.VDict kvs =>
      option_map BV.VDict
        (opt_all (fun kv => match unemb_atom (fst kv), unemb (snd kv) with
                            | Some k, Some w => Some (k, w)
                            | _, _ => None
                            end) kvs)
  | XV.VSet xs => option_map BV.VSet (opt_all unemb_atom xs)
  | XV.VFrozen xs => option_map BV.VFrozen (opt_all unemb_atom xs)
  end.
Definition unemb_key (k : XV.pkey) : option BV.pkey :=
  match k with
  | XV.PKey a => option_map BV.PKey (unemb_atom a)
  | XV.PIdx i => Some (BV.PIdx i)
  end.
Definition unemb_path (p : XV.path) : option BV.path := opt_all unemb_key p.
Definition unemb_list (l : list XV.value) : option (list BV.value) := opt_all unemb l.

Lemma unemb_emb_atom a : unemb_atom (emb_atom a) = Some a.
Proof. destruct a; reflexivity. Qed.
Lemma unemb_emb : forall v, unemb (emb v) = Some v.
Proof.
  intros v. induction v as [a|xs IH|xs IH|kvs IH|xs|xs] using BVF.value_ind'; cbn [emb unemb].
  - rewrite unemb_emb_atom. reflexivity.
  - rewrite (opt_all_map emb unemb xs IH). reflexivity.
  - rewrite (opt_all_map emb unemb xs IH). reflexivity.
  - rewrite (opt_all_map (fun kv => (emb_atom (fst kv), emb (snd kv))) _ kvs); [reflexivity|].
    eapply Forall_impl; [|exact IH]. intros [k w] H. cbn [fst snd] in *. rewrite unemb_emb_atom, H. reflexivity.
  - rewrite (opt_all_map_all emb_atom unemb_atom xs unemb_emb_atom). reflexivity.
  - rewrite (opt_all_map_all emb_atom unemb_atom xs unemb_emb_atom). reflexivity.
Qed.
Lemma unemb_emb_key k : unemb_key (emb_key k) = Some k.
Proof. destruct k; cbn; [rewrite unemb_emb_atom|]; reflexivity. Qed.
Lemma unemb_emb_path p : unemb_path (emb_path p) = Some p.
Proof. apply opt_all_map_all. exact unemb_emb_key. Qed.
Lemma unemb_emb_list l : unemb_list (map emb l) = Some l.
Proof. apply opt_all_map_all. exact unemb_emb. Qed.

(* the canonical extension of a base oracle (anything outside the image of [emb]: a default) *)
Definition lift_hatom (hatom : BV.atom -> pystr) (a : XV.atom) : pystr :=
  match unemb_atom a with Some b => hatom b | None => [] end.
Definition lift_ops (ops : BV.path -> list BV.value -> list BV.value -> list BT.opcode)
    (p : XV.path) (xs ys : list XV.value) : list XT.opcode :=
  match unemb_path p, unemb_list xs, unemb_list ys with
  | Some p', Some xs', Some ys' => map emb_op (ops p' xs' ys')
  | _, _, _ => []
  end.
Definition lift_path (f : BV.path -> bool) (p : XV.path) : bool :=
  match unemb_path p with Some p' => f p' | None => false end.

Lemma lift_hatom_agrees hatom a : lift_hatom hatom (emb_atom a) = hatom a.
Proof. unfold lift_hatom. rewrite unemb_emb_atom. reflexivity. Qed.
Lemma lift_ops_agrees ops p xs ys :
  lift_ops ops (emb_path p) (map emb xs) (map emb ys) = map emb_op (ops p xs ys).
Proof. unfold lift_ops. rewrite unemb_emb_path, !unemb_emb_list. reflexivity. Qed.
Lemma lift_path_agrees f p : lift_path f (emb_path p) = f p.
Proof. unfold lift_path. rewrite unemb_emb_path. reflexivity. Qed.

Theorem agreeing_oracles_exist : forall hatom ops skip excl,
  exists (hatomX : XV.atom -> pystr) (opsX : XV.path -> list XV.value -> list XV.value -> list XT.opcode)
         (skipX exclX : XV.path -> bool),
    (forall a, hatomX (emb_atom a) = hatom a) /\
    (forall p xs ys, opsX (emb_path p) (map emb xs) (map emb ys) = map emb_op (ops p xs ys)) /\
    (forall p, skipX (emb_path p) = skip p) /\
    (forall p, exclX (emb_path p) = excl p).
Proof.
  intros hatom ops skip excl.
  exists (lift_hatom hatom), (lift_ops ops), (lift_path skip), (lift_path excl).
  repeat split; intros.
  - apply lift_hatom_agrees.
  - apply lift_ops_agrees.
  - apply lift_path_agrees.
  - apply lift_path_agrees.
Qed.

(* an injective base item hash lifts to one that is injective on the image of [emb] *)
Lemma lift_hatom_inj_on_image hatom :
  (forall a b, hatom a = hatom b -> a = b) ->
  forall a b, lift_hatom hatom (emb_atom a) = lift_hatom hatom (emb_atom b) -> emb_atom a = emb_atom b.
Proof. intros Hinj a b. rewrite !lift_hatom_agrees. intros H. f_equal. apply Hinj. exact H. Qed.

(* ------------------------------------------------------------------ *)
(* corollaries (quoted by Properties/C02.v and C03.v)                  *)
(* ------------------------------------------------------------------ *)
Lemma emb_entry_inj e e' : emb_entry e = emb_entry e' -> e = e'.
Proof.
  destruct e as [k p1 p2 a b d], e' as [k' p1' p2' a' b' d']. unfold emb_entry. cbn.
  intros H. inversion H as [[Hk H1 H2 Ha Hb Hd]].
  assert (k = k') by (destruct k, k'; try reflexivity; discriminate Hk).
  apply emb_path_inj in H1, H2.
  assert (Ho : forall o o', option_map emb o = option_map emb o' -> o = o').
  { intros [v|] [w|] E; cbn in E; try reflexivity; try discriminate. inversion E as [E1]. f_equal. apply emb_inj. exact E1. }
  apply Ho in Ha, Hb. subst. reflexivity.
Qed.

Lemma emb_tentry_inj e e' : emb_tentry e = emb_tentry e' -> e = e'.
Proof.
  assert (Ho : forall o o', option_map emb o = option_map emb o' -> o = o').
  { intros [v|] [w|] E; cbn in E; try reflexivity; try discriminate. inversion E as [E1]. f_equal. apply emb_inj. exact E1. }
  assert (Hp : forall o o', option_map emb_pair o = option_map emb_pair o' -> o = o').
  { intros [[v1 v2]|] [[w1 w2]|] E; cbn in E; try reflexivity; try discriminate.
    inversion E as [[E1 E2]]. apply emb_inj in E1, E2. subst. reflexivity. }
  destruct e, e'; cbn; intros H; try discriminate; inversion H; subst;
    repeat match goal with
    | E : emb_ty _ = emb_ty _ |- _ => apply emb_ty_inj in E
    | E : emb _ = emb _ |- _ => apply emb_inj in E
    | E : option_map emb _ = option_map emb _ |- _ => apply Ho in E
    | E : option_map emb_pair _ = option_map emb_pair _ |- _ => apply Hp in E
    end; subst; reflexivity.
Qed.

(* the lists of text-view entries determine each other *)
Lemma map_emb_tentry_inj l l' : map emb_tentry l = map emb_tentry l' -> l = l'.
Proof. apply map_inj. exact emb_tentry_inj. Qed.
Lemma map_emb_entry_inj l l' : map emb_entry l = map emb_entry l' -> l = l'.
Proof. apply map_inj. exact emb_entry_inj. Qed.

Theorem models_agree_empty :
  forall hatom udiff ops skip excl c hatomX opsX skipX exclX,
    (forall a, hatomX (emb_atom a) = hatom a) ->
    (forall p xs ys, opsX (emb_path p) (map emb xs) (map emb ys) = map emb_op (ops p xs ys)) ->
    (forall p, skipX (emb_path p) = skip p) ->
    (forall p, exclX (emb_path p) = excl p) ->
    forall t1 t2,
      fst (XM.run_diff hatomX udiff opsX skipX exclX (emb_cfg c) (emb t1) (emb t2)) = []
      <-> fst (BM.run_diff hatom udiff ops skip excl c t1 t2) = [].
Proof.
  intros hatom udiff ops skip excl c hatomX opsX skipX exclX Hh Ho Hs He t1 t2.
  rewrite (models_agree_run hatom udiff ops skip excl c hatomX opsX skipX exclX Hh Ho Hs He).
  cbn [fst]. apply map_nil_iff.
Qed.

(* hypothesis-free forms: the canonical liftings, nothing excluded by exclude_paths (C02 / C03 setting) *)
Theorem models_agree_run_lifted hatom udiff ops excl c t1 t2 :
  XM.run_diff (lift_hatom hatom) udiff (lift_ops ops) (fun _ => false) (lift_path excl) (emb_cfg c) (emb t1) (emb t2)
  = (map emb_entry (fst (BM.run_diff hatom udiff ops (fun _ => false) excl c t1 t2)),
     map emb_path (snd (BM.run_diff hatom udiff ops (fun _ => false) excl c t1 t2))).
Proof.
  apply models_agree_run.
  - apply lift_hatom_agrees.
  - apply lift_ops_agrees.
  - reflexivity.
  - apply lift_path_agrees.
Qed.

Theorem models_agree_empty_lifted hatom udiff ops excl c t1 t2 :
  fst (XM.run_diff (lift_hatom hatom) udiff (lift_ops ops) (fun _ => false) (lift_path excl) (emb_cfg c) (emb t1) (emb t2)) = []
  <-> fst (BM.run_diff hatom udiff ops (fun _ => false) excl c t1 t2) = [].
Proof. rewrite models_agree_run_lifted. cbn [fst]. apply map_nil_iff. Qed.

(* the text view of a whole run *)
Theorem models_agree_text_run :
  forall xrepr xstr hatom udiff ops skip excl c hatomX opsX skipX exclX,
    (forall a, hatomX (emb_atom a) = hatom a) ->
    (forall p xs ys, opsX (emb_path p) (map emb xs) (map emb ys) = map emb_op (ops p xs ys)) ->
    (forall p, skipX (emb_path p) = skip p) ->
    (forall p, exclX (emb_path p) = excl p) ->
    forall v t1 t2,
      XTV.text_view xrepr xstr v (fst (XM.run_diff hatomX udiff opsX skipX exclX (emb_cfg c) (emb t1) (emb t2)))
      = map emb_tentry (BTV.text_view v (fst (BM.run_diff hatom udiff ops skip excl c t1 t2))).
Proof.
  intros xrepr xstr hatom udiff ops skip excl c hatomX opsX skipX exclX Hh Ho Hs He v t1 t2.
  rewrite (models_agree_run hatom udiff ops skip excl c hatomX opsX skipX exclX Hh Ho Hs He).
  cbn [fst]. apply models_agree_text.
Qed.

(* "the run's text view is the specification" transfers between the universes (C03) *)
Theorem models_agree_is_spec :
  forall xrepr xstr hatom udiff ops skip excl c hatomX opsX skipX exclX,
    (forall a, hatomX (emb_atom a) = hatom a) ->
    (forall p xs ys, opsX (emb_path p) (map emb xs) (map emb ys) = map emb_op (ops p xs ys)) ->
    (forall p, skipX (emb_path p) = skip p) ->
    (forall p, exclX (emb_path p) = excl p) ->
    forall v ip t1 t2,
      XTV.text_view xrepr xstr v (fst (XM.run_diff hatomX udiff opsX skipX exclX (emb_cfg c) (emb t1) (emb t2)))
        = XS.spec_diff xrepr xstr udiff ip (emb t1) (emb t2)
      <-> BTV.text_view v (fst (BM.run_diff hatom udiff ops skip excl c t1 t2)) = BS.spec_diff udiff ip t1 t2.
Proof.
  intros xrepr xstr hatom udiff ops skip excl c hatomX opsX skipX exclX Hh Ho Hs He v ip t1 t2.
  rewrite (models_agree_text_run xrepr xstr hatom udiff ops skip excl c hatomX opsX skipX exclX Hh Ho Hs He).
  rewrite models_agree_spec_diff. split; intros H.
  - apply map_emb_tentry_inj. exact H.
  - rewrite H. reflexivity.
Qed.

(* Python equality of the inputs is the same relation in both universes (C02: "empty iff ==") *)
Theorem models_agree_empty_iff_eq :
  forall hatom udiff ops skip excl c hatomX opsX skipX exclX,
    (forall a, hatomX (emb_atom a) = hatom a) ->
    (forall p xs ys, opsX (emb_path p) (map emb xs) (map emb ys) = map emb_op (ops p xs ys)) ->
    (forall p, skipX (emb_path p) = skip p) ->
    (forall p, exclX (emb_path p) = excl p) ->
    forall t1 t2,
      (fst (XM.run_diff hatomX udiff opsX skipX exclX (emb_cfg c) (emb t1) (emb t2)) = [] -> XV.py_eqv (emb t1) (emb t2) = true)
      <-> (fst (BM.run_diff hatom udiff ops skip excl c t1 t2) = [] -> BV.py_eqv t1 t2 = true).
Proof.
  intros hatom udiff ops skip excl c hatomX opsX skipX exclX Hh Ho Hs He t1 t2.
  rewrite (models_agree_empty hatom udiff ops skip excl c hatomX opsX skipX exclX Hh Ho Hs He), emb_py_eqv.
  reflexivity.
Qed.


(* ------------------------------------------------------------------ *)
(* the C02 / C03 theorems of the extended universe (Diff/XuEmpty.v,    *)
(* Diff/XuSpecProofs.v) specialise to the ones of the old universe     *)
(* ------------------------------------------------------------------ *)

(* [unemb] is also a right inverse where it is defined: its domain is the image of [emb] *)
Lemma opt_all_some {A B} (f : A -> B) (g : B -> option A) l :
  Forall (fun b => forall a, g b = Some a -> b = f a) l -> forall l', opt_all g l = Some l' -> l = map f l'.
Proof.
  intros H. induction H as [|b l Hb _ IH]; intros l' E; cbn in E.
  - inversion E. reflexivity.
  - destruct (g b) as [a|] eqn:Ea; [|discriminate]. destruct (opt_all g l) as [r|] eqn:Er; [|discriminate].
    inversion E. subst l'. cbn. rewrite <- (Hb a eq_refl), <- (IH r eq_refl). reflexivity.
Qed.
Lemma unemb_atom_some a b : unemb_atom a = Some b -> a = emb_atom b.
Proof. destruct a; cbn; intros H; try discriminate; inversion H; reflexivity. Qed.
Lemma unemb_some : forall v w, unemb v = Some w -> v = emb w.
Proof.
  intros v. induction v as [a|xs IH|xs IH|kvs IH|xs|xs] using XVF.value_ind'; intros w E; cbn [unemb] in E.
  - destruct (unemb_atom a) as [b|] eqn:Ea; [|discriminate]. inversion E. cbn. f_equal. apply unemb_atom_some. exact Ea.
  - destruct (opt_all unemb xs) as [l|] eqn:El; [|discriminate]. inversion E. cbn. f_equal.
    exact (opt_all_some emb unemb xs IH l El).
  - destruct (opt_all unemb xs) as [l|] eqn:El; [|discriminate]. inversion E. cbn. f_equal.
    exact (opt_all_some emb unemb xs IH l El).
  - match type of E with option_map _ (opt_all ?g kvs) = _ => destruct (opt_all g kvs) as [l|] eqn:El; [|discriminate] end.
    inversion E. cbn. f_equal.
    refine (opt_all_some (fun kv => (emb_atom (fst kv), emb (snd kv))) _ kvs _ l El).
    eapply Forall_impl; [|exact IH]. intros [k x] Hx [k' x'] Ekv. cbn [fst snd] in *.
    destruct (unemb_atom k) as [b|] eqn:Ek; [|discriminate]. destruct (unemb x) as [y|] eqn:Ey; [|discriminate].
    inversion Ekv. subst. f_equal; [apply unemb_atom_some; exact Ek|apply Hx; reflexivity].
  - destruct (opt_all unemb_atom xs) as [l|] eqn:El; [|discriminate]. inversion E. cbn. f_equal.
    refine (opt_all_some emb_atom unemb_atom xs _ l El). apply Forall_forall. intros a _ b. apply unemb_atom_some.
  - destruct (opt_all unemb_atom xs) as [l|] eqn:El; [|discriminate]. inversion E. cbn. f_equal.
    refine (opt_all_some emb_atom unemb_atom xs _ l El). apply Forall_forall. intros a _ b. apply unemb_atom_some.
Qed.
Lemma unemb_list_some l l' : unemb_list l = Some l' -> l = map emb l'.
Proof. apply opt_all_some. apply Forall_forall. intros v _ w. apply unemb_some. Qed.
Lemma unemb_key_some k k' : unemb_key k = Some k' -> k = emb_key k'.
Proof.
  destruct k as [a|i]; cbn; intros H.
  - destruct (unemb_atom a) as [b|] eqn:Ea; [|discriminate]. inversion H. cbn. f_equal. apply unemb_atom_some. exact Ea.
  - inversion H. reflexivity.
Qed.
Lemma unemb_path_some p p' : unemb_path p = Some p' -> p = emb_path p'.
Proof. apply opt_all_some. apply Forall_forall. intros k _ k'. apply unemb_key_some. Qed.

(* opcode validity is the same predicate on both sides *)
Lemma emb_tag_ok o : XE.tag_ok (emb_op o) = BE.tag_ok o.
Proof. destruct o as [tg i1 i2 j1 j2]. destruct tg; reflexivity. Qed.
Lemma emb_tiles os : forall i j n m, XE.tiles (map emb_op os) i j n m = BE.tiles os i j n m.
Proof.
  induction os as [|o os IH]; intros i j n m; cbn [map XE.tiles BE.tiles]; [reflexivity|].
  rewrite IH, emb_tag_ok. reflexivity.
Qed.
Lemma emb_all2_leaf xs : forall ys,
  XE.all2 XM.py_eq_leaf (map emb xs) (map emb ys) = BE.all2 BM.py_eq_leaf xs ys.
Proof.
  induction xs as [|x xs IH]; intros [|y ys]; cbn [map XE.all2 BE.all2]; try reflexivity.
  rewrite emb_py_eq_leaf, IH. reflexivity.
Qed.
Lemma emb_equal_ok xs ys o : XE.equal_ok (map emb xs) (map emb ys) (emb_op o) = BE.equal_ok xs ys o.
Proof.
  destruct o as [tg i1 i2 j1 j2]. unfold XE.equal_ok, BE.equal_ok.
  cbn [emb_op XT.otag XT.oi1 XT.oi2 XT.oj1 XT.oj2 BT.otag BT.oi1 BT.oi2 BT.oj1 BT.oj2].
  destruct tg; cbn [emb_tag]; try reflexivity. rewrite !emb_slice. apply emb_all2_leaf.
Qed.
Lemma emb_valid_opcodes os xs ys :
  XE.valid_opcodes (map emb_op os) (map emb xs) (map emb ys) = BE.valid_opcodes os xs ys.
Proof.
  unfold XE.valid_opcodes, BE.valid_opcodes. rewrite emb_tiles, !map_length. f_equal.
  apply forallb_map_comm. intros o. apply emb_equal_ok.
Qed.

(* a lifting of the opcode oracle that is a valid answer everywhere (one 'replace' block outside the image) *)
Definition lift_ops_total (ops : BV.path -> list BV.value -> list BV.value -> list BT.opcode)
    (p : XV.path) (xs ys : list XV.value) : list XT.opcode :=
  match unemb_path p, unemb_list xs, unemb_list ys with
  | Some p', Some xs', Some ys' => map emb_op (ops p' xs' ys')
  | _, _, _ => XE.one_block p xs ys
  end.
Lemma lift_ops_total_agrees ops p xs ys :
  lift_ops_total ops (emb_path p) (map emb xs) (map emb ys) = map emb_op (ops p xs ys).
Proof. unfold lift_ops_total. rewrite unemb_emb_path, !unemb_emb_list. reflexivity. Qed.
Lemma lift_ops_total_valid ops : BE.valid_ops ops -> XE.valid_ops (lift_ops_total ops).
Proof.
  intros H p xs ys. unfold lift_ops_total.
  destruct (unemb_path p) as [p'|] eqn:Ep; [|apply XE.one_block_valid].
  destruct (unemb_list xs) as [xs'|] eqn:Ex; [|apply XE.one_block_valid].
  destruct (unemb_list ys) as [ys'|] eqn:Ey; [|apply XE.one_block_valid].
  apply unemb_list_some in Ex, Ey. subst xs ys. rewrite emb_valid_opcodes. apply H.
Qed.
Lemma lift_ops_total_tiling ops : BE.tiling ops -> XE.tiling (lift_ops_total ops).
Proof.
  intros H p xs ys. unfold lift_ops_total.
  destruct (unemb_path p) as [p'|] eqn:Ep; [|apply (XE.valid_ops_tiling _ XE.one_block_valid)].
  destruct (unemb_list xs) as [xs'|] eqn:Ex; [|apply (XE.valid_ops_tiling _ XE.one_block_valid)].
  destruct (unemb_list ys) as [ys'|] eqn:Ey; [|apply (XE.valid_ops_tiling _ XE.one_block_valid)].
  apply unemb_list_some in Ex, Ey. subst xs ys. rewrite emb_tiles, !map_length. apply H.
Qed.

(* a predicate on base atoms, lifted: false outside the image *)
Definition lift_pred (ok : BV.atom -> bool) (a : XV.atom) : bool :=
  match unemb_atom a with Some b => ok b | None => false end.
Lemma lift_pred_agrees ok a : lift_pred ok (emb_atom a) = ok a.
Proof. unfold lift_pred. rewrite unemb_emb_atom. reflexivity. Qed.
Lemma lift_pred_image ok a : lift_pred ok a = true -> exists b, a = emb_atom b /\ ok b = true.
Proof.
  unfold lift_pred. destruct (unemb_atom a) as [b|] eqn:E; [|discriminate].
  intros H. exists b. split; [apply unemb_atom_some; exact E|exact H].
Qed.

Lemma emb_inputs_ok keep ok keepX okX lf :
  (forall a, keepX (emb_atom a) = keep a) -> (forall a, okX (emb_atom a) = ok a) -> (forall a, lf (emb_atom a) = true) ->
  forall v, XE.inputs_ok keepX okX lf (emb v) = BE.inputs_ok keep ok v.
Proof.
  intros Hk Ho Hl v. induction v as [a|xs IH|xs IH|kvs IH|xs|xs] using BVF.value_ind'; cbn [emb XE.inputs_ok BE.inputs_ok].
  - apply Hl.
  - induction IH as [|x xs Hx _ IHl]; cbn; [reflexivity|]. rewrite Hx, IHl. reflexivity.
  - induction IH as [|x xs Hx _ IHl]; cbn; [reflexivity|]. rewrite Hx, IHl. reflexivity.
  - induction IH as [|[k x] xs Hx _ IHl]; cbn; [reflexivity|]. cbn [snd] in Hx. rewrite Hk, Hx, IHl. reflexivity.
  - apply forallb_map_comm. exact Ho.
  - apply forallb_map_comm. exact Ho.
Qed.
Lemma base_inputs_ok_any v : BE.inputs_ok BE.any_atom BE.any_atom v = true.
Proof.
  induction v as [a|xs IH|xs IH|kvs IH|xs|xs] using BVF.value_ind'; cbn [BE.inputs_ok]; try reflexivity.
  - induction IH as [|x xs Hx _ IHl]; cbn; [reflexivity|]. rewrite Hx, IHl. reflexivity.
  - induction IH as [|x xs Hx _ IHl]; cbn; [reflexivity|]. rewrite Hx, IHl. reflexivity.
  - induction IH as [|[k x] xs Hx _ IHl]; cbn [forallb fst snd]; [reflexivity|]. cbn [snd] in Hx. rewrite Hx, IHl. reflexivity.
  - induction xs as [|x xs IHl]; cbn; [reflexivity|exact IHl].
  - induction xs as [|x xs IHl]; cbn; [reflexivity|exact IHl].
Qed.

(* C02, first half: the old "a structural copy gives an empty diff" from the extended one *)
Theorem base_copy_empty_from_extended :
  forall hatom udiff ops excl c t,
    BM.thr_num c <= BM.thr_den c -> BE.tiling ops -> BV.wf t = true ->
    fst (BM.run_diff hatom udiff ops (fun _ => false) excl c t t) = [].
Proof.
  intros hatom udiff ops excl c t Hthr Ht W.
  apply (models_agree_empty hatom udiff ops (fun _ => false) excl c
           (lift_hatom hatom) (lift_ops_total ops) (fun _ => false) (lift_path excl)
           (lift_hatom_agrees hatom) (lift_ops_total_agrees ops) (fun _ => eq_refl) (lift_path_agrees excl) t t).
  apply XE.run_copy_empty.
  - exact Hthr.
  - apply lift_ops_total_tiling. exact Ht.
  - rewrite emb_wf. exact W.
Qed.

(* C02, second half: the old "an empty diff means ==" from the extended one (no datetime leaves: the leaf guard holds) *)
Theorem base_empty_sound_from_extended :
  forall hatom udiff ops excl c ok t1 t2,
    (forall a b, ok a = true -> ok b = true -> hatom a = hatom b -> a = b) -> BE.valid_ops ops ->
    BV.wf t1 = true -> BV.wf t2 = true ->
    BE.inputs_ok (BM.keep_key c) ok t1 = true -> BE.inputs_ok (BM.keep_key c) ok t2 = true ->
    fst (BM.run_diff hatom udiff ops (fun _ => false) excl c t1 t2) = [] -> BV.py_eqv t1 t2 = true.
Proof.
  intros hatom udiff ops excl c ok t1 t2 Hinj Hv W1 W2 G1 G2 E.
  rewrite <- emb_py_eqv.
  apply (XE.run_empty_sound_dt (lift_hatom hatom) udiff (lift_ops_total ops) (lift_path excl) (emb_cfg c) (lift_pred ok) true).
  - intros a b Oa Ob Hh. destruct (lift_pred_image ok a Oa) as [a' [-> Oa']]. destruct (lift_pred_image ok b Ob) as [b' [-> Ob']].
    rewrite !lift_hatom_agrees in Hh. rewrite (Hinj a' b' Oa' Ob' Hh). apply XVF.py_eq_refl.
  - apply lift_ops_total_valid. exact Hv.
  - rewrite emb_wf. exact W1.
  - rewrite emb_wf. exact W2.
  - rewrite (emb_inputs_ok (BM.keep_key c) ok); [exact G1|apply emb_keep_key|apply lift_pred_agrees|intros a; destruct a; reflexivity].
  - rewrite (emb_inputs_ok (BM.keep_key c) ok); [exact G2|apply emb_keep_key|apply lift_pred_agrees|intros a; destruct a; reflexivity].
  - apply (models_agree_empty hatom udiff ops (fun _ => false) excl c
             (lift_hatom hatom) (lift_ops_total ops) (fun _ => false) (lift_path excl)
             (lift_hatom_agrees hatom) (lift_ops_total_agrees ops) (fun _ => eq_refl) (lift_path_agrees excl) t1 t2).
    exact E.
Qed.

(* C03: the old "positional mode computes the definition" from the extended one (no datetime leaves: the
   leaf guard dt_utc holds; the printer oracles are irrelevant) *)
Theorem base_positional_is_spec_from_extended :
  forall hatom udiff ops excl d ip t1 t2,
    (forall a b, hatom a = hatom b -> a = b) ->
    BV.wf t1 = true -> BV.wf t2 = true ->
    BTV.text_view 2 (fst (BM.run_diff hatom udiff ops (fun _ => false) excl (BM.mkCfg true 0 d ip) t1 t2))
    = BS.spec_diff udiff ip t1 t2.
Proof.
  intros hatom udiff ops excl d ip t1 t2 Hinj W1 W2.
  apply (proj1 (models_agree_is_spec (fun _ => []) (fun _ => []) hatom udiff ops (fun _ => false) excl (BM.mkCfg true 0 d ip)
           (lift_hatom hatom) (lift_ops ops) (fun _ => false) (lift_path excl)
           (lift_hatom_agrees hatom) (lift_ops_agrees ops) (fun _ => eq_refl) (lift_path_agrees excl) 2 ip t1 t2)).
  apply (XSP.positional_run_is_spec_guarded (fun _ => []) (fun _ => []) (lift_hatom hatom) udiff (lift_ops ops)
           (lift_path excl) d ip (lift_pred BE.any_atom)).
  - intros a b Oa Ob Hh. destruct (lift_pred_image _ a Oa) as [a' [-> _]]. destruct (lift_pred_image _ b Ob) as [b' [-> _]].
    rewrite !lift_hatom_agrees in Hh. rewrite (Hinj a' b' Hh). reflexivity.
  - rewrite emb_wf. exact W1.
  - rewrite emb_wf. exact W2.
  - rewrite (emb_inputs_ok BE.any_atom BE.any_atom); [apply base_inputs_ok_any|reflexivity|apply lift_pred_agrees|intros a; destruct a; reflexivity].
  - rewrite (emb_inputs_ok BE.any_atom BE.any_atom); [apply base_inputs_ok_any|reflexivity|apply lift_pred_agrees|intros a; destruct a; reflexivity].
Qed.


(* ------------------------------------------------------------------ *)
(* the diff models agree                                               *)
(* ------------------------------------------------------------------ *)
Section Agree.
Variable hatom : BV.atom -> pystr.
Variable udiff : pystr -> pystr -> pystr.
Variable ops : BV.path -> list BV.value -> list BV.value -> list BT.opcode.
Variable skip excl : BV.path -> bool.
Variable c : BM.cfg.
Variable hatomX : XV.atom -> pystr.
Variable opsX : XV.path -> list XV.value -> list XV.value -> list XT.opcode.
Variable skipX exclX : XV.path -> bool.
Hypothesis Hhatom : forall a, hatomX (emb_atom a) = hatom a.
Hypothesis Hops : forall p xs ys, opsX (emb_path p) (map emb xs) (map emb ys) = map emb_op (ops p xs ys).
Hypothesis Hskip : forall p, skipX (emb_path p) = skip p.
Hypothesis Hexcl : forall p, exclX (emb_path p) = excl p.

Lemma emb_report k p1 p2 a b d :
  XM.report skipX (emb_kind k) (emb_path p1) (emb_path p2) (option_map emb a) (option_map emb b) d
  = map emb_entry (BM.report skip k p1 p2 a b d).
Proof. unfold XM.report, BM.report. rewrite Hskip. destruct (skip p1); reflexivity. Qed.

Lemma emb_diff_str ib s t : XM.diff_str udiff ib s t = BM.diff_str udiff ib s t.
Proof. reflexivity. Qed.

Lemma emb_diff_atom a b p1 p2 :
  XM.diff_atom udiff skipX (emb_atom a) (emb_atom b) (emb_path p1) (emb_path p2)
  = map emb_entry (BM.diff_atom udiff skip a b p1 p2).
Proof.
  unfold XM.diff_atom, BM.diff_atom. rewrite Hskip. destruct (skip p1); [reflexivity|].
  rewrite !emb_atom_ty, emb_ty_eqb.
  destruct (BV.ty_eqb (BV.atom_ty a) (BV.atom_ty b)) eqn:T; cbn [negb].
  2:{ exact (emb_report BT.KType p1 p2 (Some (BV.VAtom a)) (Some (BV.VAtom b)) None). }
  destruct a as [|x|x|x|s|s], b as [|y|y|y|t|t]; try discriminate T; cbn [emb_atom];
    try (rewrite emb_diff_str;
         match goal with |- context [BM.diff_str ?u ?ib ?s ?t] => destruct (BM.diff_str u ib s t) as [ch d] end;
         destruct ch; [|reflexivity];
         match goal with |- _ = map emb_entry (BM.report _ _ _ _ (Some (BV.VAtom ?a)) (Some (BV.VAtom ?b)) ?d) =>
           exact (emb_report BT.KValue p1 p2 (Some (BV.VAtom a)) (Some (BV.VAtom b)) d) end);
    match goal with |- context [BV.py_eq ?a ?b] =>
      change (XV.py_eq (emb_atom a) (emb_atom b)) with (XV.py_eq (emb_atom a) (emb_atom b));
      rewrite <- (emb_py_eq a b); cbn [emb_atom];
      match goal with |- context [XV.py_eq ?u ?v] => destruct (XV.py_eq u v) end;
      [reflexivity|exact (emb_report BT.KValue p1 p2 (Some (BV.VAtom a)) (Some (BV.VAtom b)) None)]
    end.
Qed.

Lemma emb_diff_leaf x y p1 p2 :
  XM.diff_leaf udiff skipX (emb x) (emb y) (emb_path p1) (emb_path p2)
  = map emb_entry (BM.diff_leaf udiff skip x y p1 p2).
Proof. destruct x, y; try reflexivity. apply emb_diff_atom. Qed.

Lemma emb_removed_from xs : forall i p1 p2,
  XM.removed_from skipX (map emb xs) i (emb_path p1) (emb_path p2)
  = map emb_entry (BM.removed_from skip xs i p1 p2).
Proof.
  induction xs as [|x xs IH]; intros i p1 p2; cbn [map XM.removed_from BM.removed_from]; [reflexivity|].
  rewrite map_app, IH. f_equal.
  change (XV.PIdx i) with (emb_key (BV.PIdx i)). rewrite !emb_snoc.
  exact (emb_report BT.KIterRem _ _ (Some x) None None).
Qed.
Lemma emb_added_from ys : forall j p1 p2,
  XM.added_from skipX (map emb ys) j (emb_path p1) (emb_path p2)
  = map emb_entry (BM.added_from skip ys j p1 p2).
Proof.
  induction ys as [|y ys IH]; intros j p1 p2; cbn [map XM.added_from BM.added_from]; [reflexivity|].
  rewrite map_app, IH. f_equal.
  change (XV.PIdx j) with (emb_key (BV.PIdx j)). rewrite !emb_snoc.
  exact (emb_report BT.KIterAdd _ _ None (Some y) None).
Qed.

Lemma emb_pairs_leaf xs : forall ys i j p1 p2,
  XM.pairs_leaf udiff skipX (map emb xs) (map emb ys) i j (emb_path p1) (emb_path p2)
  = map emb_entry (BM.pairs_leaf udiff skip xs ys i j p1 p2).
Proof.
  induction xs as [|x xs IH]; intros ys i j p1 p2.
  - cbn [map XM.pairs_leaf BM.pairs_leaf]. apply emb_added_from.
  - destruct ys as [|y ys].
    + exact (emb_removed_from (x :: xs) i p1 p2).
    + cbn [map XM.pairs_leaf BM.pairs_leaf]. rewrite map_app, IH. f_equal.
      rewrite emb_py_eq_leaf.
      change (XV.PIdx i) with (emb_key (BV.PIdx i)). change (XV.PIdx j) with (emb_key (BV.PIdx j)).
      rewrite !emb_snoc.
      destruct (negb (i =? j) && BM.py_eq_leaf x y).
      * exact (emb_report BT.KIterMoved _ _ (Some x) (Some y) None).
      * apply emb_diff_leaf.
Qed.

Lemma emb_by_opcodes os xs ys p1 p2 :
  XM.by_opcodes udiff skipX (map emb_op os) (map emb xs) (map emb ys) (emb_path p1) (emb_path p2)
  = map emb_entry (BM.by_opcodes udiff skip os xs ys p1 p2).
Proof.
  unfold XM.by_opcodes, BM.by_opcodes. apply flat_map_map_comm. intros o.
  destruct o as [tg i1 i2 j1 j2]. cbn [emb_op XT.otag XT.oi1 XT.oi2 XT.oj1 XT.oj2 BT.otag BT.oi1 BT.oi2 BT.oj1 BT.oj2].
  destruct tg; cbn [emb_tag]; rewrite ?emb_slice.
  - reflexivity.
  - apply emb_pairs_leaf.
  - apply emb_removed_from.
  - apply emb_added_from.
Qed.

Lemma emb_default_leaf_list xs ys p1 p2 :
  XM.default_leaf_list udiff opsX skipX (map emb xs) (map emb ys) (emb_path p1) (emb_path p2)
  = (map emb_entry (fst (BM.default_leaf_list udiff ops skip xs ys p1 p2)),
     snd (BM.default_leaf_list udiff ops skip xs ys p1 p2)).
Proof.
  unfold XM.default_leaf_list, BM.default_leaf_list. cbv zeta.
  rewrite Hops, emb_by_opcodes, emb_pairs_leaf, !map_length.
  destruct (Nat.ltb 1 _); [|reflexivity].
  destruct (Nat.leb _ _); reflexivity.
Qed.

Lemma emb_first_per_hash l : forall seen,
  XM.first_per_hash hatomX (map emb_atom l) seen = map emb_atom (BM.first_per_hash hatom l seen).
Proof.
  induction l as [|a l IH]; intros seen; cbn [map XM.first_per_hash BM.first_per_hash]; [reflexivity|].
  rewrite Hhatom. destruct (existsb _ seen); [apply IH|]. cbn [map]. rewrite IH. reflexivity.
Qed.

Lemma emb_report_set k a p1 p2 :
  XM.report_set skipX (emb_kind k) (emb_atom a) (emb_path p1) (emb_path p2)
  = map emb_entry (BM.report_set skip k a p1 p2).
Proof.
  unfold XM.report_set, BM.report_set. rewrite Hskip. destruct (skip p1); [reflexivity|].
  destruct k; reflexivity.
Qed.

Lemma emb_hashes l : map hatomX (map emb_atom l) = map hatom l.
Proof. rewrite map_map. apply map_ext. exact Hhatom. Qed.

Lemma emb_diff_set xs ys p1 p2 :
  XM.diff_set hatomX skipX (map emb_atom xs) (map emb_atom ys) (emb_path p1) (emb_path p2)
  = map emb_entry (BM.diff_set hatom skip xs ys p1 p2).
Proof.
  unfold XM.diff_set, BM.diff_set. cbv zeta.
  rewrite !emb_first_per_hash, !emb_hashes, map_app. f_equal.
  - apply flat_map_map_comm. intros y. rewrite Hhatom.
    destruct (existsb _ _); [reflexivity|]. exact (emb_report_set BT.KSetAdd y p1 p2).
  - apply flat_map_map_comm. intros x. rewrite Hhatom.
    destruct (existsb _ _); [reflexivity|]. exact (emb_report_set BT.KSetRem x p1 p2).
Qed.

(* ---- dictionaries ---- *)
Lemma emb_keys_of kvs : XM.keys_of (emb_cfg c) (emb_kvs kvs) = map emb_atom (BM.keys_of c kvs).
Proof.
  unfold XM.keys_of, BM.keys_of. rewrite emb_kvs_fst.
  apply filter_map_comm. intros a. apply emb_keep_key.
Qed.

Lemma emb_dict_shortcut k1 k2 p1 :
  XM.dict_shortcut exclX (emb_cfg c) (map emb_atom k1) (map emb_atom k2) (emb_path p1)
  = BM.dict_shortcut excl c k1 k2 p1.
Proof.
  unfold XM.dict_shortcut, BM.dict_shortcut. cbn [emb_cfg XM.thr_num XM.thr_den].
  destruct (Nat.eqb (BM.thr_num c) 0); [reflexivity|]. cbv zeta.
  rewrite (filter_map_comm emb_atom _ (fun k => BV.mem_atom k k1) k2) by (intros a; apply emb_mem_atom).
  rewrite (filter_map_comm emb_atom _ (fun k => negb (BV.mem_atom k k2)) k1) by (intros a; rewrite emb_mem_atom; reflexivity).
  rewrite <- map_app.
  rewrite (filter_map_comm emb_atom _ (fun k => negb (excl (BM.snoc p1 (BV.PKey k))))).
  2:{ intros a. change (XV.PKey (emb_atom a)) with (emb_key (BV.PKey a)). rewrite emb_snoc, Hexcl. reflexivity. }
  rewrite !map_length. reflexivity.
Qed.

Lemma emb_find_key k l :
  find (XV.py_eq (emb_atom k)) (map emb_atom l) = option_map emb_atom (find (BV.py_eq k) l).
Proof. apply find_map_comm. intros a. apply emb_py_eq. Qed.

Notation bdiff := (BM.diff hatom udiff ops skip excl c).
Notation xdiff := (XM.diff hatomX udiff opsX skipX exclX (emb_cfg c)).

Definition AGREE (t1 : BV.value) : Prop :=
  forall t2 p1 p2, xdiff (emb t1) (emb t2) (emb_path p1) (emb_path p2) = emb_res (bdiff t1 t2 p1 p2).

Lemma emb_app2 a b : XM.app2 (emb_res a) (emb_res b) = emb_res (BM.app2 a b).
Proof. unfold XM.app2, BM.app2, emb_res. cbn [fst snd]. rewrite !map_app. reflexivity. Qed.

Lemma emb_go_list xs : Forall AGREE xs -> forall ys i p1 p2,
  XF.go_list skipX xdiff (emb_path p1) (emb_path p2) (map emb xs) (map emb ys) i
  = emb_res (BF.go_list skip bdiff p1 p2 xs ys i).
Proof.
  intros H. induction H as [|x xs Hx _ IH]; intros ys i p1 p2.
  - cbn [map XF.go_list BF.go_list]. unfold emb_res. cbn [fst snd map]. rewrite emb_added_from. reflexivity.
  - destruct ys as [|y ys].
    + cbn [map XF.go_list BF.go_list]. unfold emb_res. cbn [fst snd].
      rewrite <- (emb_removed_from (x :: xs)). reflexivity.
    + cbn [map XF.go_list BF.go_list]. rewrite IH.
      change (XV.PIdx i) with (emb_key (BV.PIdx i)). rewrite !emb_snoc, Hx. apply emb_app2.
Qed.

Lemma xgo_common_cons cx d kvs2 k2 p1 p2 k v1 r :
  XF.go_common cx d kvs2 k2 p1 p2 ((k, v1) :: r) =
  if XM.keep_key cx k then
    match find (XV.py_eq k) k2 with
    | Some k' => match XV.assoc k' kvs2 with
                 | Some v2 => XM.app2 (d v1 v2 (XM.snoc p1 (XV.PKey k')) (XM.snoc p2 (XV.PKey k')))
                                      (XF.go_common cx d kvs2 k2 p1 p2 r)
                 | None => XF.go_common cx d kvs2 k2 p1 p2 r
                 end
    | None => XF.go_common cx d kvs2 k2 p1 p2 r
    end
  else XF.go_common cx d kvs2 k2 p1 p2 r.
Proof. reflexivity. Qed.
Lemma bgo_common_cons cb d kvs2 k2 p1 p2 k v1 r :
  BF.go_common cb d kvs2 k2 p1 p2 ((k, v1) :: r) =
  if BM.keep_key cb k then
    match find (BV.py_eq k) k2 with
    | Some k' => match BV.assoc k' kvs2 with
                 | Some v2 => BM.app2 (d v1 v2 (BM.snoc p1 (BV.PKey k')) (BM.snoc p2 (BV.PKey k')))
                                      (BF.go_common cb d kvs2 k2 p1 p2 r)
                 | None => BF.go_common cb d kvs2 k2 p1 p2 r
                 end
    | None => BF.go_common cb d kvs2 k2 p1 p2 r
    end
  else BF.go_common cb d kvs2 k2 p1 p2 r.
Proof. reflexivity. Qed.

Lemma emb_go_common kvs2 k2 p1 p2 kvs1 : Forall (fun kv => AGREE (snd kv)) kvs1 ->
  XF.go_common (emb_cfg c) xdiff (emb_kvs kvs2) (map emb_atom k2) (emb_path p1) (emb_path p2) (emb_kvs kvs1)
  = emb_res (BF.go_common c bdiff kvs2 k2 p1 p2 kvs1).
Proof.
  intros H. induction H as [|[k v1] kvs1 Hx _ IH].
  - reflexivity.
  - change (emb_kvs ((k, v1) :: kvs1)) with ((emb_atom k, emb v1) :: emb_kvs kvs1).
    rewrite xgo_common_cons, bgo_common_cons, IH, emb_keep_key.
    destruct (BM.keep_key c k); [|reflexivity].
    rewrite emb_find_key. destruct (find (BV.py_eq k) k2) as [k'|]; cbn [option_map]; [|reflexivity].
    rewrite emb_assoc. destruct (BV.assoc k' kvs2) as [v2|]; cbn [option_map]; [|reflexivity].
    change (XV.PKey (emb_atom k')) with (emb_key (BV.PKey k')). rewrite !emb_snoc.
    cbn [snd] in Hx. rewrite Hx. apply emb_app2.
Qed.

Lemma emb_dict_body kvs1 kvs2 p1 p2 : Forall (fun kv => AGREE (snd kv)) kvs1 ->
  XF.dict_body hatomX udiff opsX skipX exclX (emb_cfg c) (emb_kvs kvs1) (emb_kvs kvs2) (emb_path p1) (emb_path p2)
  = emb_res (BF.dict_body hatom udiff ops skip excl c kvs1 kvs2 p1 p2).
Proof.
  intros H. unfold XF.dict_body, BF.dict_body. cbv zeta.
  rewrite !emb_keys_of, emb_dict_shortcut.
  destruct (BM.dict_shortcut excl c _ _ p1).
  - unfold emb_res. cbn [fst snd map]. f_equal.
    exact (emb_report BT.KValue p1 p2 (Some (BV.VDict kvs1)) (Some (BV.VDict kvs2)) None).
  - rewrite (emb_go_common _ _ _ _ _ H). unfold emb_res. cbn [fst snd]. f_equal.
    rewrite !map_app. f_equal; [|f_equal].
    + apply flat_map_map_comm. intros k. rewrite emb_mem_atom.
      destruct (BV.mem_atom k _); [reflexivity|].
      change (XV.PKey (emb_atom k)) with (emb_key (BV.PKey k)). rewrite !emb_snoc, emb_assoc.
      exact (emb_report BT.KDictAdd _ _ None (BV.assoc k kvs2) None).
    + apply flat_map_map_comm. intros k. rewrite emb_mem_atom.
      destruct (BV.mem_atom k _); [reflexivity|].
      change (XV.PKey (emb_atom k)) with (emb_key (BV.PKey k)). rewrite !emb_snoc, emb_assoc.
      exact (emb_report BT.KDictRem _ _ (BV.assoc k kvs1) None None).
Qed.

Lemma emb_seq_body xs ys p1 p2 : Forall AGREE xs ->
  XF.seq_body hatomX udiff opsX skipX exclX (emb_cfg c) (map emb xs) (map emb ys) (emb_path p1) (emb_path p2)
  = emb_res (BF.seq_body hatom udiff ops skip excl c xs ys p1 p2).
Proof.
  intros H. unfold XF.seq_body, BF.seq_body. cbn [emb_cfg XM.zip].
  rewrite !(forallb_map_comm emb XM.is_atom BM.is_atom) by exact emb_is_atom.
  destruct (negb (BM.zip c) && forallb BM.is_atom xs && forallb BM.is_atom ys).
  - rewrite emb_default_leaf_list.
    destruct (BM.default_leaf_list udiff ops skip xs ys p1 p2) as [es r]. cbn [fst snd].
    unfold emb_res. cbn [fst snd]. destruct r; reflexivity.
  - apply emb_go_list. exact H.
Qed.

Theorem models_agree_diff_res : forall t1 t2 p1 p2,
  xdiff (emb t1) (emb t2) (emb_path p1) (emb_path p2) = emb_res (bdiff t1 t2 p1 p2).
Proof.
  intros t1. change (AGREE t1).
  induction t1 as [a|xs IH|xs IH|kvs IH|xs|xs] using BVF.value_ind'; intros t2 p1 p2;
    (destruct (skip p1) eqn:Hs;
     [rewrite XF.diff_skip, BF.diff_skip by (rewrite ?Hskip; exact Hs); reflexivity|]);
    match goal with |- XM.diff _ _ _ _ _ _ (emb ?t1) _ _ _ = _ =>
      destruct (BV.ty_eqb (BV.type_of t1) (BV.type_of t2)) eqn:T end.
  all: try (rewrite XF.diff_type, BF.diff_type;
            [ unfold emb_res; cbn [fst snd map]; f_equal;
              match goal with |- _ = map emb_entry (BM.report _ _ _ _ (Some ?u) (Some ?v) _) =>
                exact (emb_report BT.KType p1 p2 (Some u) (Some v) None) end
            | exact Hs | exact T | rewrite Hskip; exact Hs
            | rewrite !emb_type_of, emb_ty_eqb; exact T ]).
  - destruct t2 as [b|ys|ys|kvs'|ys|ys].
    2-6: destruct a; discriminate T.
    cbn [emb]. rewrite XF.diff_atom_eq, BF.diff_atom_eq by (rewrite ?Hskip; exact Hs).
    rewrite !emb_atom_ty, emb_ty_eqb. cbn [BV.type_of] in T. rewrite T. cbn [negb].
    unfold emb_res. cbn [fst snd map]. f_equal. apply emb_diff_atom.
  - destruct t2 as [b|ys|ys|kvs'|ys|ys]; try (destruct b); try discriminate T.
    cbn [emb]. rewrite XF.diff_list, BF.diff_list by (rewrite ?Hskip; exact Hs).
    apply emb_seq_body. exact IH.
  - destruct t2 as [b|ys|ys|kvs'|ys|ys]; try (destruct b); try discriminate T.
    cbn [emb]. rewrite XF.diff_tuple, BF.diff_tuple by (rewrite ?Hskip; exact Hs).
    apply emb_seq_body. exact IH.
  - destruct t2 as [b|ys|ys|kvs'|ys|ys]; try (destruct b); try discriminate T.
    cbn [emb]. fold (emb_kvs kvs). fold (emb_kvs kvs').
    rewrite XF.diff_dict, BF.diff_dict by (rewrite ?Hskip; exact Hs).
    apply emb_dict_body. exact IH.
  - destruct t2 as [b|ys|ys|kvs'|ys|ys]; try (destruct b); try discriminate T.
    cbn [emb]. rewrite XF.diff_vset, BF.diff_vset by (rewrite ?Hskip; exact Hs).
    unfold emb_res. cbn [fst snd map]. f_equal. apply emb_diff_set.
  - destruct t2 as [b|ys|ys|kvs'|ys|ys]; try (destruct b); try discriminate T.
    cbn [emb]. rewrite XF.diff_vfrozen, BF.diff_vfrozen by (rewrite ?Hskip; exact Hs).
    unfold emb_res. cbn [fst snd map]. f_equal. apply emb_diff_set.
Qed.

End Agree.

(** The extended universe of block b03 (Diff/XuValue.v ... Diff/XuSpec.v: datetimes, dates, times,
    timedeltas and Decimals as atoms) restricted to base values IS the old model (Base/Value.v,
    Diff/Tree.v, Diff/DiffModel.v, Diff/TextView.v, Diff/Spec.v).

    [emb] maps the shared universe into the extended one constructor by constructor; the extended
    [diff] / [mutual] / [run_diff] / [text_view] / [spec] on embedded inputs compute the embedding of
    what the old ones compute, for all oracles that agree on embedded arguments (such oracles exist
    for every base oracle: [agreeing_oracles_exist]) and for every printer oracle [xrepr] / [xstr]
    (they are only consulted on exotic atoms).

    The two sides have the same names: they are referred to through the module aliases below
    (BV/XV values, BT/XT trees, BM/XM models, BF/XF unfolding equations, BTV/XTV text views,
    BS/XS specs, PM the base path printer). *)
From Coq Require Import List ZArith NArith Bool Arith Lia.
Import ListNotations.
From DD Require Import Base.PyStr.
From DD Require Base.Value Base.ValueFacts Path.PathModel Diff.Tree Diff.DiffModel Diff.DiffFacts
                Diff.TextView Diff.Spec.
From DD Require Diff.XuValue Diff.XuFacts Diff.XuTree Diff.XuModel Diff.XuDiffFacts
                Diff.XuTextView Diff.XuSpec.
(* only for the last part (the C02 / C03 theorems of the extended universe specialise to the old ones) *)
From DD Require Diff.DiffEmpty Diff.XuEmpty Diff.XuSpecProofs.

Module BV := DD.Base.Value.
Module BVF := DD.Base.ValueFacts.
Module PM := DD.Path.PathModel.
Module BT := DD.Diff.Tree.
Module BM := DD.Diff.DiffModel.
Module BF := DD.Diff.DiffFacts.
Module BTV := DD.Diff.TextView.
Module BS := DD.Diff.Spec.
Module XV := DD.Diff.XuValue.
Module XVF := DD.Diff.XuFacts.
Module XT := DD.Diff.XuTree.
Module XM := DD.Diff.XuModel.
Module XF := DD.Diff.XuDiffFacts.
Module XTV := DD.Diff.XuTextView.
Module XS := DD.Diff.XuSpec.
Module BE := DD.Diff.DiffEmpty.
Module XE := DD.Diff.XuEmpty.
Module XSP := DD.Diff.XuSpecProofs.

(* ------------------------------------------------------------------ *)
(* the embedding                                                       *)
(* ------------------------------------------------------------------ *)
Definition emb_atom (a : BV.atom) : XV.atom :=
  match a with
  | BV.ANone => XV.ANone
  | BV.ABool b => XV.ABool b
  | BV.AInt z => XV.AInt z
  | BV.AHalf t => XV.AHalf t
  | BV.AStr s => XV.AStr s
  | BV.ABytes s => XV.ABytes s
  end.
Definition emb_kv (emb : BV.value -> XV.value) (kv : BV.atom * BV.value) : XV.atom * XV.value :=
  (emb_atom (fst kv), emb (snd kv)).
Fixpoint emb (v : BV.value) : XV.value :=
  match v with
  | BV.VAtom a => XV.VAtom (emb_atom a)
  | BV.VList xs => XV.VList (map emb xs)
  | BV.VTuple xs => XV.VTuple (map emb xs)
  | BV.VDict kvs => XV.VDict (map (fun kv => (emb_atom (fst kv), emb (snd kv))) kvs)
  | BV.VSet xs => XV.VSet (map emb_atom xs)
  | BV.VFrozen xs => XV.VFrozen (map emb_atom xs)
  end.
Definition emb_kvs (kvs : list (BV.atom * BV.value)) : list (XV.atom * XV.value) :=
  map (fun kv => (emb_atom (fst kv), emb (snd kv))) kvs.
Definition emb_ty (t : BV.ty) : XV.ty :=
  match t with
  | BV.TNone => XV.TNone | BV.TBool => XV.TBool | BV.TInt => XV.TInt | BV.TFloat => XV.TFloat
  | BV.TStr => XV.TStr | BV.TBytes => XV.TBytes | BV.TList => XV.TList | BV.TTuple => XV.TTuple
  | BV.TDict => XV.TDict | BV.TSet => XV.TSet | BV.TFrozen => XV.TFrozen
  end.
Definition emb_key (k : BV.pkey) : XV.pkey :=
  match k with BV.PKey a => XV.PKey (emb_atom a) | BV.PIdx i => XV.PIdx i end.
Definition emb_path (p : BV.path) : XV.path := map emb_key p.
Definition emb_kind (k : BT.rkind) : XT.rkind :=
  match k with
  | BT.KType => XT.KType | BT.KValue => XT.KValue | BT.KDictAdd => XT.KDictAdd | BT.KDictRem => XT.KDictRem
  | BT.KIterAdd => XT.KIterAdd | BT.KIterRem => XT.KIterRem | BT.KIterMoved => XT.KIterMoved
  | BT.KSetAdd => XT.KSetAdd | BT.KSetRem => XT.KSetRem | BT.KRepetition => XT.KRepetition
  end.
Definition emb_entry (e : BT.entry) : XT.entry :=
  XT.mkEntry (emb_kind (BT.ekind e)) (emb_path (BT.ep1 e)) (emb_path (BT.ep2 e))
             (option_map emb (BT.et1 e)) (option_map emb (BT.et2 e)) (BT.ediff e).
Definition emb_tag (t : BT.optag) : XT.optag :=
  match t with
  | BT.OEqual => XT.OEqual | BT.OReplace => XT.OReplace | BT.ODelete => XT.ODelete | BT.OInsert => XT.OInsert
  end.
Definition emb_op (o : BT.opcode) : XT.opcode :=
  XT.mkOp (emb_tag (BT.otag o)) (BT.oi1 o) (BT.oi2 o) (BT.oj1 o) (BT.oj2 o).
Definition emb_cfg (c : BM.cfg) : XM.cfg :=
  XM.mkCfg (BM.zip c) (BM.thr_num c) (BM.thr_den c) (BM.ignore_private c).
Definition emb_pair (vw : BV.value * BV.value) : XV.value * XV.value := (emb (fst vw), emb (snd vw)).
Definition emb_tentry (e : BTV.tentry) : XTV.tentry :=
  match e with
  | BTV.TType p a b np vals => XTV.TType p (emb_ty a) (emb_ty b) np (option_map emb_pair vals)
  | BTV.TValue p a b np d => XTV.TValue p (emb a) (emb b) np d
  | BTV.TDictAdd p v => XTV.TDictAdd p (option_map emb v)
  | BTV.TDictRem p v => XTV.TDictRem p (option_map emb v)
  | BTV.TIterAdd p v => XTV.TIterAdd p (emb v)
  | BTV.TIterRem p v => XTV.TIterRem p (emb v)
  | BTV.TMoved p np v => XTV.TMoved p np (emb v)
  | BTV.TSetAdd s => XTV.TSetAdd s
  | BTV.TSetRem s => XTV.TSetRem s
  end.
Definition emb_res (r : list BT.entry * list BV.path) : list XT.entry * list XV.path :=
  (map emb_entry (fst r), map emb_path (snd r)).

(* ------------------------------------------------------------------ *)
(* generic list facts                                                  *)
(* ------------------------------------------------------------------ *)
Lemma filter_map_comm {A B} (f : A -> B) (p : B -> bool) (q : A -> bool) l :
  (forall a, p (f a) = q a) -> filter p (map f l) = map f (filter q l).
Proof.
  intros H. induction l as [|a l IH]; cbn; [reflexivity|].
  rewrite H. destruct (q a); cbn; rewrite IH; reflexivity.
Qed.
Lemma existsb_map_comm {A B} (f : A -> B) (p : B -> bool) (q : A -> bool) l :
  (forall a, p (f a) = q a) -> existsb p (map f l) = existsb q l.
Proof. intros H. induction l as [|a l IH]; cbn; [reflexivity|]. rewrite H, IH. reflexivity. Qed.
Lemma forallb_map_comm {A B} (f : A -> B) (p : B -> bool) (q : A -> bool) l :
  (forall a, p (f a) = q a) -> forallb p (map f l) = forallb q l.
Proof. intros H. induction l as [|a l IH]; cbn; [reflexivity|]. rewrite H, IH. reflexivity. Qed.
Lemma find_map_comm {A B} (f : A -> B) (p : B -> bool) (q : A -> bool) l :
  (forall a, p (f a) = q a) -> find p (map f l) = option_map f (find q l).
Proof. intros H. induction l as [|a l IH]; cbn; [reflexivity|]. rewrite H. destruct (q a); [reflexivity|exact IH]. Qed.
Lemma flat_map_map_comm {A B C D} (f : A -> B) (h : C -> D) (g : B -> list D) (g' : A -> list C) l :
  (forall a, g (f a) = map h (g' a)) -> flat_map g (map f l) = map h (flat_map g' l).
Proof.
  intros H. induction l as [|a l IH]; cbn; [reflexivity|]. rewrite map_app, H, IH. reflexivity.
Qed.
Lemma map_nil_iff {A B} (f : A -> B) l : map f l = [] <-> l = [].
Proof. destruct l; cbn; split; intros H; try reflexivity; discriminate. Qed.

(* ------------------------------------------------------------------ *)
(* atoms                                                               *)
(* ------------------------------------------------------------------ *)
Lemma p10_0 : XV.p10 0 = 1%Z. Proof. reflexivity. Qed.
Lemma p10_1 : XV.p10 1 = 10%Z. Proof. reflexivity. Qed.

Lemma emb_py_eq a b : XV.py_eq (emb_atom a) (emb_atom b) = BV.py_eq a b.
Proof.
  destruct a as [|x|x|x|s|s], b as [|y|y|y|t|t]; try reflexivity;
    unfold XV.py_eq, BV.py_eq, XV.qeq;
    cbn [emb_atom XV.qnum BV.num2 fst snd]; rewrite ?p10_0, ?p10_1;
    try (destruct x); try (destruct y);
    match goal with
    | |- Z.eqb ?u ?v = Z.eqb ?u' ?v' => destruct (Z.eqb_spec u v), (Z.eqb_spec u' v'); try reflexivity; lia
    end.
Qed.

Lemma emb_atom_eqb a b : XV.atom_eqb (emb_atom a) (emb_atom b) = BV.atom_eqb a b.
Proof. destruct a, b; reflexivity. Qed.
Lemma emb_ty_eqb a b : XV.ty_eqb (emb_ty a) (emb_ty b) = BV.ty_eqb a b.
Proof. destruct a, b; reflexivity. Qed.
Lemma emb_ty_inj a b : emb_ty a = emb_ty b -> a = b.
Proof. destruct a, b; intros H; try reflexivity; discriminate. Qed.
Lemma emb_atom_ty a : XV.atom_ty (emb_atom a) = emb_ty (BV.atom_ty a).
Proof. destruct a; reflexivity. Qed.
Lemma emb_type_of v : XV.type_of (emb v) = emb_ty (BV.type_of v).
Proof. destruct v as [a| | | | |]; try reflexivity. apply emb_atom_ty. Qed.
Lemma emb_atom_inj a b : emb_atom a = emb_atom b -> a = b.
Proof. destruct a, b; cbn; intros H; try reflexivity; try discriminate; inversion H; reflexivity. Qed.
Lemma emb_atom_not_exotic a : XTV.exotic (emb_atom a) = false.
Proof. destruct a; reflexivity. Qed.
Lemma emb_dt_norm a : XM.dt_norm (emb_atom a) = emb_atom a.
Proof. destruct a; reflexivity. Qed.

Lemma map_inj {A B} (f : A -> B) : (forall a b, f a = f b -> a = b) -> forall l l', map f l = map f l' -> l = l'.
Proof.
  intros Hf l. induction l as [|a l IH]; intros [|b l'] H; cbn in H; try reflexivity; try discriminate.
  inversion H as [[H1 H2]]. f_equal; [apply Hf; exact H1|apply IH; exact H2].
Qed.

Lemma emb_inj : forall v w, emb v = emb w -> v = w.
Proof.
  intros v. induction v as [a|xs IH|xs IH|kvs IH|xs|xs] using BVF.value_ind'; intros w H;
    destruct w as [b|ys|ys|kvs'|ys|ys]; cbn in H; try discriminate; inversion H as [H1]; clear H.
  - f_equal. apply emb_atom_inj. exact H1.
  - f_equal. revert ys H1. induction IH as [|x xs Hx _ IHl]; intros [|y ys] H1; cbn in H1; try reflexivity; try discriminate.
    inversion H1 as [[Ha Hb]]. f_equal; [apply Hx; exact Ha|apply IHl; exact Hb].
  - f_equal. revert ys H1. induction IH as [|x xs Hx _ IHl]; intros [|y ys] H1; cbn in H1; try reflexivity; try discriminate.
    inversion H1 as [[Ha Hb]]. f_equal; [apply Hx; exact Ha|apply IHl; exact Hb].
  - f_equal. revert kvs' H1. induction IH as [|[k x] xs Hx _ IHl]; intros [|[k' y] ys] H1; cbn in H1; try reflexivity; try discriminate.
    inversion H1 as [[Hk Ha Hb]]. f_equal; [|apply IHl; exact Hb].
    f_equal; [apply emb_atom_inj; exact Hk|apply Hx; exact Ha].
  - f_equal. eapply map_inj; [exact emb_atom_inj|exact H1].
  - f_equal. eapply map_inj; [exact emb_atom_inj|exact H1].
Qed.

Lemma emb_key_inj a b : emb_key a = emb_key b -> a = b.
Proof.
  destruct a, b; cbn; intros H; try discriminate; inversion H as [H1]; [f_equal; apply emb_atom_inj; exact H1|reflexivity].
Qed.
Lemma emb_path_inj p q : emb_path p = emb_path q -> p = q.
Proof. apply map_inj. exact emb_key_inj. Qed.

Lemma emb_mem_atom a l : XV.mem_atom (emb_atom a) (map emb_atom l) = BV.mem_atom a l.
Proof. unfold XV.mem_atom, BV.mem_atom. apply existsb_map_comm. intros b. apply emb_py_eq. Qed.

Lemma emb_assoc_gen {B C} (f : B -> C) k (l : list (BV.atom * B)) :
  XV.assoc (emb_atom k) (map (fun kv => (emb_atom (fst kv), f (snd kv))) l) = option_map f (BV.assoc k l).
Proof.
  induction l as [|[k' v] l IH]; cbn; [reflexivity|].
  rewrite emb_py_eq. destruct (BV.py_eq k' k); [reflexivity|exact IH].
Qed.
Lemma emb_assoc k kvs : XV.assoc (emb_atom k) (emb_kvs kvs) = option_map emb (BV.assoc k kvs).
Proof. apply emb_assoc_gen. Qed.

Lemma emb_nodup_atoms l : XV.nodup_atoms (map emb_atom l) = BV.nodup_atoms l.
Proof. induction l as [|a l IH]; cbn; [reflexivity|]. rewrite emb_mem_atom, IH. reflexivity. Qed.

Lemma emb_kvs_fst kvs : map fst (emb_kvs kvs) = map emb_atom (map fst kvs).
Proof. unfold emb_kvs. rewrite !map_map. reflexivity. Qed.

Lemma emb_wf : forall v, XV.wf (emb v) = BV.wf v.
Proof.
  intros v. induction v as [a|xs IH|xs IH|kvs IH|xs|xs] using BVF.value_ind'; cbn [emb XV.wf BV.wf].
  - reflexivity.
  - induction IH as [|x xs Hx _ IHl]; cbn; [reflexivity|]. rewrite Hx, IHl. reflexivity.
  - induction IH as [|x xs Hx _ IHl]; cbn; [reflexivity|]. rewrite Hx, IHl. reflexivity.
  - fold (emb_kvs kvs). rewrite emb_kvs_fst, emb_nodup_atoms. f_equal. unfold emb_kvs.
    induction IH as [|x xs Hx _ IHl]; cbn; [reflexivity|]. rewrite Hx, IHl. reflexivity.
  - apply emb_nodup_atoms.
  - apply emb_nodup_atoms.
Qed.

Lemma emb_py_eqv : forall v w, XV.py_eqv (emb v) (emb w) = BV.py_eqv v w.
Proof.
  intros v. induction v as [a|xs IH|xs IH|kvs IH|xs|xs] using BVF.value_ind'; intros w;
    destruct w as [b|ys|ys|kvs'|ys|ys]; try reflexivity; cbn [emb XV.py_eqv BV.py_eqv].
  - apply emb_py_eq.
  - revert ys. induction IH as [|x xs Hx _ IHl]; intros [|y ys]; cbn; try reflexivity.
    rewrite Hx, IHl. reflexivity.
  - revert ys. induction IH as [|x xs Hx _ IHl]; intros [|y ys]; cbn; try reflexivity.
    rewrite Hx, IHl. reflexivity.
  - rewrite !map_length. f_equal.
    induction IH as [|[k x] xs Hx _ IHl]; cbn; [reflexivity|].
    rewrite IHl. f_equal. fold (emb_kvs kvs'). rewrite emb_assoc.
    destruct (BV.assoc k kvs') as [v'|]; cbn; [apply Hx|reflexivity].
  - rewrite !map_length. f_equal. apply forallb_map_comm. intros a. apply emb_mem_atom.
  - rewrite !map_length. f_equal. apply forallb_map_comm. intros a. apply emb_mem_atom.
  - rewrite !map_length. f_equal. apply forallb_map_comm. intros a. apply emb_mem_atom.
  - rewrite !map_length. f_equal. apply forallb_map_comm. intros a. apply emb_mem_atom.
Qed.

Lemma emb_value_eqb : forall v w, XV.value_eqb (emb v) (emb w) = BV.value_eqb v w.
Proof.
  assert (HA : forall xs ys,
    (fix go (xs ys : list XV.atom) {struct xs} : bool :=
       match xs, ys with
       | [], [] => true
       | x :: xs', y :: ys' => XV.atom_eqb x y && go xs' ys'
       | _, _ => false
       end) (map emb_atom xs) (map emb_atom ys) =
    (fix go (xs ys : list BV.atom) {struct xs} : bool :=
       match xs, ys with
       | [], [] => true
       | x :: xs', y :: ys' => BV.atom_eqb x y && go xs' ys'
       | _, _ => false
       end) xs ys).
  { intros xs. induction xs as [|x xs IHl]; intros [|y ys]; cbn; try reflexivity.
    rewrite emb_atom_eqb, IHl. reflexivity. }
  intros v. induction v as [a|xs IH|xs IH|kvs IH|xs|xs] using BVF.value_ind'; intros w;
    destruct w as [b|ys|ys|kvs'|ys|ys]; try reflexivity; cbn [emb XV.value_eqb BV.value_eqb].
  - apply emb_atom_eqb.
  - revert ys. induction IH as [|x xs Hx _ IHl]; intros [|y ys]; cbn; try reflexivity.
    rewrite Hx, IHl. reflexivity.
  - revert ys. induction IH as [|x xs Hx _ IHl]; intros [|y ys]; cbn; try reflexivity.
    rewrite Hx, IHl. reflexivity.
  - revert kvs'. induction IH as [|[k x] xs Hx _ IHl]; intros [|[k' y] ys]; cbn; try reflexivity.
    rewrite emb_atom_eqb, Hx, IHl. reflexivity.
  - apply HA.
  - apply HA.
Qed.

Lemma emb_pkey_eqb a b : XV.pkey_eqb (emb_key a) (emb_key b) = BV.pkey_eqb a b.
Proof. destruct a, b; try reflexivity. apply emb_atom_eqb. Qed.
Lemma emb_path_eqb : forall p q, XV.path_eqb (emb_path p) (emb_path q) = BV.path_eqb p q.
Proof.
  intros p. induction p as [|a p IH]; intros [|b q]; cbn; try reflexivity.
  rewrite emb_pkey_eqb. f_equal. apply IH.
Qed.
Lemma emb_kind_eqb a b : XT.rkind_eqb (emb_kind a) (emb_kind b) = BT.rkind_eqb a b.
Proof. destruct a, b; reflexivity. Qed.

Lemma emb_is_atom v : XM.is_atom (emb v) = BM.is_atom v.
Proof. destruct v; reflexivity. Qed.
Lemma emb_py_eq_leaf x y : XM.py_eq_leaf (emb x) (emb y) = BM.py_eq_leaf x y.
Proof. destruct x, y; try reflexivity. apply emb_py_eq. Qed.
Lemma emb_private_key k : XM.private_key (emb_atom k) = BM.private_key k.
Proof. destruct k; reflexivity. Qed.
Lemma emb_keep_key c k : XM.keep_key (emb_cfg c) (emb_atom k) = BM.keep_key c k.
Proof. unfold XM.keep_key, BM.keep_key. rewrite emb_private_key. reflexivity. Qed.
Lemma emb_snoc p k : XM.snoc (emb_path p) (emb_key k) = emb_path (BM.snoc p k).
Proof. unfold XM.snoc, BM.snoc, emb_path. rewrite map_app. reflexivity. Qed.
Lemma emb_slice {A B} (f : A -> B) l a b : XT.slice (map f l) a b = map f (BT.slice l a b).
Proof. unfold XT.slice, BT.slice. rewrite skipn_map, firstn_map. reflexivity. Qed.


(* the statement with explicit components *)
Theorem models_agree_diff :
  forall hatom udiff ops skip excl c hatomX opsX skipX exclX,
    (forall a, hatomX (emb_atom a) = hatom a) ->
    (forall p xs ys, opsX (emb_path p) (map emb xs) (map emb ys) = map emb_op (ops p xs ys)) ->
    (forall p, skipX (emb_path p) = skip p) ->
    (forall p, exclX (emb_path p) = excl p) ->
    forall t1 t2 p1 p2,
      XM.diff hatomX udiff opsX skipX exclX (emb_cfg c) (emb t1) (emb t2) (emb_path p1) (emb_path p2)
      = (map emb_entry (fst (BM.diff hatom udiff ops skip excl c t1 t2 p1 p2)),
         map emb_path (snd (BM.diff hatom udiff ops skip excl c t1 t2 p1 p2))).
Proof. intros. apply models_agree_diff_res; assumption. Qed.

(* ------------------------------------------------------------------ *)
(* mutual_add_removes_to_become_value_changes, run_diff                *)
(* ------------------------------------------------------------------ *)
Lemma emb_is_kind k e : XM.is_kind (emb_kind k) (emb_entry e) = BM.is_kind k e.
Proof. unfold XM.is_kind, BM.is_kind. cbn [emb_entry XT.ekind]. apply emb_kind_eqb. Qed.

Lemma emb_last_with_path p l :
  XM.last_with_path (emb_path p) (map emb_entry l) = option_map emb_entry (BM.last_with_path p l).
Proof.
  unfold XM.last_with_path, BM.last_with_path.
  change (@None XT.entry) with (option_map emb_entry None). generalize (@None BT.entry) as acc.
  induction l as [|e l IH]; intros acc; cbn [map fold_left]; [reflexivity|].
  rewrite <- IH. f_equal. cbn [emb_entry XT.ep1]. rewrite emb_path_eqb.
  destruct (BV.path_eqb (BT.ep1 e) p); reflexivity.
Qed.

Theorem models_agree_mutual es : XM.mutual (map emb_entry es) = map emb_entry (BM.mutual es).
Proof.
  unfold XM.mutual, BM.mutual. cbv zeta.
  rewrite (filter_map_comm emb_entry (XM.is_kind XT.KIterAdd) (BM.is_kind BT.KIterAdd)) by (intros e; exact (emb_is_kind BT.KIterAdd e)).
  rewrite (filter_map_comm emb_entry (XM.is_kind XT.KIterRem) (BM.is_kind BT.KIterRem)) by (intros e; exact (emb_is_kind BT.KIterRem e)).
  apply flat_map_map_comm. intros e.
  change (XT.ekind (emb_entry e)) with (emb_kind (BT.ekind e)).
  change (XT.ep1 (emb_entry e)) with (emb_path (BT.ep1 e)).
  rewrite !emb_last_with_path.
  destruct (BT.ekind e) eqn:K; cbn [emb_kind]; try reflexivity.
  - destruct (BM.last_with_path (BT.ep1 e) (filter (BM.is_kind BT.KIterRem) es)); reflexivity.
  - destruct (BM.last_with_path (BT.ep1 e) (filter (BM.is_kind BT.KIterAdd) es)) as [a|]; [|reflexivity].
    destruct (BM.last_with_path (BT.ep1 e) (filter (BM.is_kind BT.KIterRem) es)); reflexivity.
Qed.

Theorem models_agree_run :
  forall hatom udiff ops skip excl c hatomX opsX skipX exclX,
    (forall a, hatomX (emb_atom a) = hatom a) ->
    (forall p xs ys, opsX (emb_path p) (map emb xs) (map emb ys) = map emb_op (ops p xs ys)) ->
    (forall p, skipX (emb_path p) = skip p) ->
    (forall p, exclX (emb_path p) = excl p) ->
    forall t1 t2,
      XM.run_diff hatomX udiff opsX skipX exclX (emb_cfg c) (emb t1) (emb t2)
      = (map emb_entry (fst (BM.run_diff hatom udiff ops skip excl c t1 t2)),
         map emb_path (snd (BM.run_diff hatom udiff ops skip excl c t1 t2))).
Proof.
  intros hatom udiff ops skip excl c hatomX opsX skipX exclX Hh Ho Hs He t1 t2.
  unfold XM.run_diff, BM.run_diff.
  change (@nil XV.pkey) with (emb_path []).
  rewrite (models_agree_diff hatom udiff ops skip excl c hatomX opsX skipX exclX Hh Ho Hs He).
  destruct (BM.diff hatom udiff ops skip excl c t1 t2 [] []) as [es r]. cbn [fst snd].
  rewrite models_agree_mutual. reflexivity.
Qed.

(* ------------------------------------------------------------------ *)
(* the path printer and the text view: the printer oracles are never   *)
(* consulted on embedded atoms                                         *)
(* ------------------------------------------------------------------ *)
Section Printer.
Variable xrepr xstr : XV.atom -> pystr.

Lemma emb_repr_atom a : XTV.repr_atom xrepr (emb_atom a) = PM.repr_atom a.
Proof. destruct a; reflexivity. Qed.
Lemma emb_stringify_param a : XTV.stringify_param xrepr (emb_atom a) = PM.stringify_param a.
Proof. destruct a; reflexivity. Qed.
Lemma emb_key_atom k : XTV.key_atom (emb_key k) = emb_atom (PM.key_atom k).
Proof. destruct k; reflexivity. Qed.
Lemma emb_render_key k : XTV.render_key xrepr (emb_key k) = PM.render_key k.
Proof. unfold XTV.render_key, PM.render_key. rewrite emb_key_atom, emb_stringify_param. reflexivity. Qed.
Lemma emb_render p : XTV.render xrepr (emb_path p) = PM.render p.
Proof.
  unfold XTV.render, PM.render. f_equal. unfold emb_path.
  induction p as [|k p IH]; cbn [map flat_map]; [reflexivity|]. rewrite emb_render_key, IH. reflexivity.
Qed.
Lemma emb_str_item a : XTV.str_item xrepr xstr (emb_atom a) = BTV.str_item a.
Proof. destruct a; reflexivity. Qed.
Lemma emb_set_item_text p a : XTV.set_item_text xrepr xstr (emb_path p) (emb_atom a) = BTV.set_item_text p a.
Proof. unfold XTV.set_item_text, BTV.set_item_text. rewrite emb_render, emb_str_item. reflexivity. Qed.

Lemma emb_new_path_of e : XTV.new_path_of xrepr (emb_entry e) = BTV.new_path_of e.
Proof. unfold XTV.new_path_of, BTV.new_path_of. cbn [emb_entry XT.ep1 XT.ep2]. rewrite !emb_render. reflexivity. Qed.
Lemma emb_opt_val o : XTV.opt_val (option_map emb o) = emb (BTV.opt_val o).
Proof. destruct o; reflexivity. Qed.
Lemma emb_opt_atom o : XTV.opt_atom (option_map emb o) = emb_atom (BTV.opt_atom o).
Proof. destruct o as [[a| | | | |]|]; reflexivity. Qed.

Lemma emb_text_of v e : XTV.text_of xrepr xstr v (emb_entry e) = map emb_tentry (BTV.text_of v e).
Proof.
  unfold XTV.text_of, BTV.text_of. cbv zeta. rewrite emb_new_path_of.
  cbn [emb_entry XT.ekind XT.ep1 XT.ep2 XT.et1 XT.et2 XT.ediff].
  rewrite !emb_render, !emb_opt_val, !emb_opt_atom, !emb_set_item_text, !emb_type_of.
  destruct (BT.ekind e); cbn [emb_kind map]; try reflexivity.
  - destruct (Nat.ltb 0 v), (Nat.ltb 1 v); reflexivity.
  - destruct (Nat.ltb 0 v); reflexivity.
  - destruct (Nat.leb 2 v); reflexivity.
  - destruct (Nat.leb 2 v); reflexivity.
  - destruct (Nat.ltb 1 v); reflexivity.
Qed.

Theorem models_agree_text v es :
  XTV.text_view xrepr xstr v (map emb_entry es) = map emb_tentry (BTV.text_view v es).
Proof. unfold XTV.text_view, BTV.text_view. apply flat_map_map_comm. intros e. apply emb_text_of. Qed.

(* ---- the specification ---- *)
Section SpecAgree.
Variable udiff : pystr -> pystr -> pystr.
Variable ip : bool.

Lemma emb_dunder k : XS.dunder (emb_atom k) = BS.dunder k.
Proof. destruct k; reflexivity. Qed.
Lemma emb_visible k : XS.visible ip (emb_atom k) = BS.visible ip k.
Proof. unfold XS.visible, BS.visible. rewrite emb_dunder. reflexivity. Qed.
Lemma emb_text_diff a b : XS.text_diff udiff (emb_atom a) (emb_atom b) = BS.text_diff udiff a b.
Proof. destruct a, b; reflexivity. Qed.
Lemma emb_at_key p k : XS.at_key (emb_path p) (emb_atom k) = emb_path (BS.at_key p k).
Proof. unfold XS.at_key, BS.at_key, emb_path. rewrite map_app. reflexivity. Qed.
Lemma emb_at_idx p i : XS.at_idx (emb_path p) i = emb_path (BS.at_idx p i).
Proof. unfold XS.at_idx, BS.at_idx, emb_path. rewrite map_app. reflexivity. Qed.
Lemma emb_has_key k kvs : XS.has_key (emb_atom k) (emb_kvs kvs) = BS.has_key k kvs.
Proof. unfold XS.has_key, BS.has_key. rewrite emb_kvs_fst. apply emb_mem_atom. Qed.
Lemma emb_member a l : XS.member (emb_atom a) (map emb_atom l) = BS.member a l.
Proof. unfold XS.member, BS.member. apply existsb_map_comm. intros b. apply emb_atom_eqb. Qed.

Lemma emb_tail_items (mkX : pystr -> XV.value -> XTV.tentry) (mk : pystr -> BV.value -> BTV.tentry) p l :
  (forall s v, mkX s (emb v) = emb_tentry (mk s v)) ->
  forall i, XS.tail_items xrepr mkX (emb_path p) (map emb l) i = map emb_tentry (BS.tail_items mk p l i).
Proof.
  intros H. induction l as [|x l IH]; intros i; cbn [map XS.tail_items BS.tail_items]; [reflexivity|].
  rewrite emb_at_idx, emb_render, H, IH. reflexivity.
Qed.

Notation bspec := (BS.spec udiff ip).
Notation xspec := (XS.spec xrepr xstr udiff ip).

Definition AGREES (t1 : BV.value) : Prop :=
  forall t2 p, xspec (emb t1) (emb t2) (emb_path p) = map emb_tentry (bspec t1 t2 p).

Lemma emb_find_kv k kvs :
  find (fun kv => XV.py_eq (emb_atom k) (fst kv)) (emb_kvs kvs)
  = option_map (fun kv => (emb_atom (fst kv), emb (snd kv))) (find (fun kv => BV.py_eq k (fst kv)) kvs).
Proof. unfold emb_kvs. apply find_map_comm. intros [k' v]. cbn [fst]. apply emb_py_eq. Qed.

Lemma spec_seq xs : Forall AGREES xs -> forall ys i p,
  (fix zipped (xs ys : list XV.value) (i : nat) {struct xs} : list XTV.tentry :=
     match xs, ys with
     | [], _ => XS.tail_items xrepr XTV.TIterAdd (emb_path p) ys i
     | _ :: _, [] => XS.tail_items xrepr XTV.TIterRem (emb_path p) xs i
     | x :: xs', y :: ys' => xspec x y (XS.at_idx (emb_path p) i) ++ zipped xs' ys' (S i)
     end) (map emb xs) (map emb ys) i
  = map emb_tentry
    ((fix zipped (xs ys : list BV.value) (i : nat) {struct xs} : list BTV.tentry :=
     match xs, ys with
     | [], _ => BS.tail_items BTV.TIterAdd p ys i
     | _ :: _, [] => BS.tail_items BTV.TIterRem p xs i
     | x :: xs', y :: ys' => bspec x y (BS.at_idx p i) ++ zipped xs' ys' (S i)
     end) xs ys i).
Proof.
  intros H. induction H as [|x xs Hx _ IH]; intros ys i p.
  - cbn [map]. apply emb_tail_items. reflexivity.
  - destruct ys as [|y ys].
    + cbn [map]. exact (emb_tail_items XTV.TIterRem BTV.TIterRem p (x :: xs) (fun _ _ => eq_refl) i).
    + cbn [map]. rewrite map_app, IH, emb_at_idx, Hx. reflexivity.
Qed.

Lemma spec_common kvs2 p kvs1 : Forall (fun kv => AGREES (snd kv)) kvs1 ->
  (fix common (l : list (XV.atom * XV.value)) : list XTV.tentry :=
     match l with
     | [] => []
     | (k, v1) :: r =>
         (if XS.visible ip k
          then match find (fun kv => XV.py_eq k (fst kv)) (emb_kvs kvs2) with
               | Some (k', v2) => xspec v1 v2 (XS.at_key (emb_path p) k')
               | None => []
               end
          else [])
         ++ common r
     end) (emb_kvs kvs1)
  = map emb_tentry
    ((fix common (l : list (BV.atom * BV.value)) : list BTV.tentry :=
     match l with
     | [] => []
     | (k, v1) :: r =>
         (if BS.visible ip k
          then match find (fun kv => BV.py_eq k (fst kv)) kvs2 with
               | Some (k', v2) => bspec v1 v2 (BS.at_key p k')
               | None => []
               end
          else [])
         ++ common r
     end) kvs1).
Proof.
  intros H. induction H as [|[k v1] kvs1 Hx _ IH].
  - reflexivity.
  - change (emb_kvs ((k, v1) :: kvs1)) with ((emb_atom k, emb v1) :: emb_kvs kvs1).
    cbv beta iota. cbv beta iota in IH. rewrite map_app, IH. f_equal.
    rewrite emb_visible. destruct (BS.visible ip k); [|reflexivity].
    rewrite emb_find_kv. destruct (find (fun kv => BV.py_eq k (fst kv)) kvs2) as [[k' v2]|]; cbn [option_map fst snd]; [|reflexivity].
    rewrite emb_at_key. cbn [snd] in Hx. apply Hx.
Qed.

Theorem models_agree_spec : forall t1 t2 p,
  XS.spec xrepr xstr udiff ip (emb t1) (emb t2) (emb_path p) = map emb_tentry (BS.spec udiff ip t1 t2 p).
Proof.
  intros t1. change (AGREES t1).
  induction t1 as [a|xs IH|xs IH|kvs IH|xs|xs] using BVF.value_ind'; intros t2 p;
    destruct t2 as [b|ys|ys|kvs'|ys|ys];
    try (cbn [emb XS.spec BS.spec XV.type_of BV.type_of XV.ty_eqb BV.ty_eqb negb map emb_tentry option_map emb_pair fst snd emb_ty];
         rewrite ?emb_render; reflexivity).
  1:{ cbn [emb XS.spec BS.spec XV.type_of BV.type_of]. rewrite !emb_atom_ty, emb_ty_eqb.
    destruct (BV.ty_eqb (BV.atom_ty a) (BV.atom_ty b)); cbn [negb].
    + rewrite emb_py_eq. destruct (BV.py_eq a b); [reflexivity|].
      cbn [map emb_tentry emb]. rewrite emb_render, emb_text_diff. reflexivity.
    + cbn [map emb_tentry option_map emb_pair fst snd emb]. rewrite emb_render, ?emb_atom_ty. reflexivity. }
  all: try (destruct a; cbn [emb emb_atom XS.spec BS.spec XV.type_of BV.type_of XV.atom_ty BV.atom_ty XV.ty_eqb BV.ty_eqb negb map emb_tentry option_map emb_pair fst snd emb_ty];
         rewrite ?emb_render; reflexivity).
  all: try (destruct b; cbn [emb emb_atom XS.spec BS.spec XV.type_of BV.type_of XV.atom_ty BV.atom_ty XV.ty_eqb BV.ty_eqb negb map emb_tentry option_map emb_pair fst snd emb_ty];
         rewrite ?emb_render; reflexivity).
  all: try (cbn [emb XS.spec BS.spec XV.type_of BV.type_of XV.ty_eqb BV.ty_eqb negb];
              first [ apply (spec_seq xs IH ys 0 p)
                    | rewrite map_app, !map_map; f_equal;
                      [ rewrite (filter_map_comm emb_atom _ (fun y => negb (BS.member y xs)) ys)
                          by (intros y; rewrite emb_member; reflexivity);
                        rewrite map_map; apply map_ext; intros y; cbn [emb_tentry]; rewrite emb_set_item_text; reflexivity
                      | rewrite (filter_map_comm emb_atom _ (fun x => negb (BS.member x ys)) xs)
                          by (intros x; rewrite emb_member; reflexivity);
                        rewrite map_map; apply map_ext; intros x; cbn [emb_tentry]; rewrite emb_set_item_text; reflexivity ] ]).
  cbn [emb XS.spec BS.spec XV.type_of BV.type_of XV.ty_eqb BV.ty_eqb negb].
  fold (emb_kvs kvs). fold (emb_kvs kvs').
  rewrite !map_app. f_equal; [|f_equal].
    + unfold emb_kvs at 1. apply flat_map_map_comm. intros [k v]. cbn [fst snd].
      rewrite emb_visible, emb_has_key. destruct (BS.visible ip k && negb (BS.has_key k kvs)); [|reflexivity].
      cbn [map emb_tentry option_map]. rewrite emb_at_key, emb_render. reflexivity.
    + unfold emb_kvs at 1. apply flat_map_map_comm. intros [k v]. cbn [fst snd].
      rewrite emb_visible, emb_has_key. destruct (BS.visible ip k && negb (BS.has_key k kvs')); [|reflexivity].
      cbn [map emb_tentry option_map]. rewrite emb_at_key, emb_render. reflexivity.
    + apply spec_common. exact IH.
Qed.

Corollary models_agree_spec_diff t1 t2 :
  XS.spec_diff xrepr xstr udiff ip (emb t1) (emb t2) = map emb_tentry (BS.spec_diff udiff ip t1 t2).
Proof. unfold XS.spec_diff, BS.spec_diff. exact (models_agree_spec t1 t2 []). Qed.

End SpecAgree.
End Printer.

From DD Require Import Diff.DiffEmpty.
Require Import DiffTextEmpty.
Print Assumptions text_empty_tree_empty_gen.
Print Assumptions text_empty_tree_empty.
Print Assumptions text_empty_iff.
Print Assumptions text_empty_sound.
Print Assumptions text_empty_sound_deephash.
Print Assumptions text_copy_empty.
Print Assumptions text_empty_tree_empty_refuted_v0.
Print Assumptions moved_case_not_vacuous.
Print Assumptions text_empty_tree_empty_refuted_skip.

(** Port of Diff/DiffTextEmpty.v to the extended universe Diff/XuValue.v (datetimes, dates, times, timedeltas,
    Decimals as atoms), for every printer oracle [xrepr] / [xstr].

    C02 "in every view, with verbosity >= 1": an empty TEXT view means an empty result TREE.
    The text view drops the [KIterMoved] levels below verbose_level 2 (and the [KValue] ones at 0); still, for
    every tree the ordered diff can produce, an empty text view at verbose_level >= 1 means an empty tree:
    every other reported kind has a text, [mutual] keeps a visible level visible, and a [KIterMoved] level only
    comes from a 'replace' block of the difflib pass at shifted offsets, which under [tiling] follows an
    unbalanced block that reported a visible level.  The exotic scalars only add one branch to [diff_atom]
    (two datetimes are compared normalised); the kinds emitted are unchanged.
    No condition on the inputs, every item hash, udiff, threshold, both alignment modes; [skip] = no exclusion. *)
From Coq Require Import List ZArith NArith Bool Arith Lia.
Import ListNotations.
From DD Require Import Base.PyStr Path.PathModel Diff.XuValue Diff.XuFacts
  Diff.XuTree Diff.XuModel Diff.XuTextView Diff.XuDiffFacts Diff.XuLemmas Diff.XuEmpty.
From DD Require Diff.XuEmptyNorm.

(* ------------------------------------------------------------------ *)
(** * Visible levels *)

(* the levels that have a text at every verbose_level >= 1 *)
Definition vis_level (e : entry) : bool :=
  match ekind e with KIterMoved | KRepetition => false | _ => true end.

Lemma text_of_vis xrepr xstr v e : 1 <= v -> vis_level e = true -> text_of xrepr xstr v e <> [].
Proof.
  intros Hv. unfold vis_level, text_of. destruct v as [|v]; [lia|].
  destruct (ekind e); cbn; discriminate.
Qed.

(* at verbose_level 1 exactly the visible levels have a text *)
Lemma text_of_1_nil xrepr xstr e : text_of xrepr xstr 1 e = [] <-> vis_level e = false.
Proof. unfold vis_level, text_of. destruct (ekind e); cbn; split; intros H; try discriminate; reflexivity. Qed.

(* "no level, or a visible one" *)
Definition NilOrVis (es : list entry) : Prop := es = [] \/ existsb vis_level es = true.

Lemma P_nil : NilOrVis [].
Proof. left; reflexivity. Qed.

Lemma P_allvis es : forallb vis_level es = true -> NilOrVis es.
Proof.
  destruct es as [|e es]; [left; reflexivity|]. cbn. intros H. apply andb_true_iff in H as [H _].
  right. cbn. rewrite H. reflexivity.
Qed.

Lemma P_app a b : NilOrVis a -> NilOrVis b -> NilOrVis (a ++ b).
Proof.
  intros [->|Ha] Hb; [exact Hb|]. right. rewrite existsb_app, Ha. reflexivity.
Qed.

Lemma P_flat_map {A} (f : A -> list entry) l : (forall x, NilOrVis (f x)) -> NilOrVis (flat_map f l).
Proof. intros H. induction l as [|x l IH]; cbn; [apply P_nil|]. apply P_app; [apply H|exact IH]. Qed.

Lemma P_text xrepr xstr v es : 1 <= v -> NilOrVis es -> text_view xrepr xstr v es = [] -> es = [].
Proof.
  intros Hv [->|H] T; [reflexivity|exfalso].
  apply existsb_exists in H as (e & He & Ve).
  apply (text_of_vis xrepr xstr v e Hv Ve). exact (flat_map_nil_inv _ _ T e He).
Qed.

(* ------------------------------------------------------------------ *)
(** * mutual_add_removes keeps a visible level visible *)

Lemma mutual_vis es : NilOrVis es -> NilOrVis (mutual es).
Proof.
  intros [->|H]; [left; reflexivity|right].
  apply existsb_exists in H as (e & He & Ve). apply existsb_exists.
  assert (Rem : forall r, In r es -> ekind r = KIterRem -> exists e', In e' (mutual es) /\ vis_level e' = true).
  { intros r Hr K. unfold mutual.
    destruct (last_with_path (ep1 r) (filter (is_kind KIterAdd) es)) as [a|] eqn:LA;
      [destruct (last_with_path (ep1 r) (filter (is_kind KIterRem) es)) as [r'|] eqn:LR|].
    - exists (mkEntry KValue (ep1 r) (ep2 r) (et1 r) (et2 a) (ediff r)). split; [|reflexivity].
      apply in_flat_map. exists r. split; [exact Hr|]. rewrite K, LA, LR. left; reflexivity.
    - exists r. split; [|unfold vis_level; rewrite K; reflexivity].
      apply in_flat_map. exists r. split; [exact Hr|]. rewrite K, LA, LR. left; reflexivity.
    - exists r. split; [|unfold vis_level; rewrite K; reflexivity].
      apply in_flat_map. exists r. split; [exact Hr|]. rewrite K, LA. left; reflexivity. }
  destruct (ekind e) eqn:K; try (apply (Rem e He K));
    try (exists e; split; [unfold mutual; apply in_flat_map; exists e; split; [exact He|rewrite K; left; reflexivity]|exact Ve]).
  (* KIterAdd *)
  destruct (last_with_path (ep1 e) (filter (is_kind KIterRem) es)) as [r|] eqn:LR.
  - apply last_with_path_In in LR as [Hin _]. apply filter_In in Hin as [Hin Hk].
    apply (Rem r Hin). unfold is_kind in Hk. destruct (ekind r); try discriminate Hk. reflexivity.
  - exists e. split; [|exact Ve]. unfold mutual. apply in_flat_map. exists e. split; [exact He|].
    rewrite K, LR. left; reflexivity.
Qed.

(* ------------------------------------------------------------------ *)
(** * Leaves: everything but the difflib pass reports visible levels only *)

Section Kinds.
Variable udiff : pystr -> pystr -> pystr.

Lemma diff_atom_vis a b p1 p2 : forallb vis_level (diff_atom udiff noskip a b p1 p2) = true.
Proof.
  unfold diff_atom, report, diff_str. destruct (negb (ty_eqb (atom_ty a) (atom_ty b))); [reflexivity|].
  destruct a, b; try reflexivity; try (destruct (py_eq _ _); reflexivity);
    (destruct (pystr_eqb _ _); [reflexivity|]; destruct (_ && _); reflexivity).
Qed.

Lemma diff_leaf_vis x y p1 p2 : forallb vis_level (diff_leaf udiff noskip x y p1 p2) = true.
Proof. destruct x, y; try reflexivity. apply diff_atom_vis. Qed.

Lemma removed_from_vis xs : forall i p1 p2, forallb vis_level (removed_from noskip xs i p1 p2) = true.
Proof. induction xs as [|x xs IH]; intros i p1 p2; cbn; [reflexivity|apply IH]. Qed.

Lemma added_from_vis ys : forall j p1 p2, forallb vis_level (added_from noskip ys j p1 p2) = true.
Proof. induction ys as [|y ys IH]; intros j p1 p2; cbn; [reflexivity|apply IH]. Qed.

(* no move is reported when both sides are indexed from the same offset *)
Lemma pairs_leaf_vis xs : forall ys i p1 p2, forallb vis_level (pairs_leaf udiff noskip xs ys i i p1 p2) = true.
Proof.
  induction xs as [|x xs IH]; intros ys i p1 p2.
  - cbn [pairs_leaf]. apply added_from_vis.
  - destruct ys as [|y ys]; [cbn [pairs_leaf]; apply removed_from_vis|].
    cbn [pairs_leaf]. rewrite Nat.eqb_refl. cbn [negb andb]. rewrite forallb_app, diff_leaf_vis, IH. reflexivity.
Qed.

(* the difflib pass from equal offsets: an empty block keeps the offsets equal, a non-empty one
   reports visible levels *)
Lemma by_opcodes_P xs ys p1 p2 os : forall i,
  tiles os i i (length xs) (length ys) = true -> NilOrVis (by_opcodes udiff noskip os xs ys p1 p2).
Proof.
  induction os as [|o os IH]; intros i T; [left; reflexivity|].
  pose proof (tiles_le _ _ _ _ _ T) as [Hi Hj]. cbn [tiles] in T.
  repeat (apply andb_true_iff in T as [T ?]).
  match goal with Ht : tiles os _ _ _ _ = true |- _ =>
    pose proof (tiles_le _ _ _ _ _ Ht) as [Hi2 Hj2]; pose proof Ht as Trest end.
  repeat match goal with Hx : (_ <=? _) = true |- _ => apply Nat.leb_le in Hx end.
  repeat match goal with Hx : (_ =? _) = true |- _ => apply Nat.eqb_eq in Hx end.
  rewrite by_opcodes_cons.
  destruct o as [tag i1 i2 j1 j2]. cbn [oi1 oi2 oj1 oj2 otag] in *. subst i1 j1.
  unfold tag_ok in *. cbn [otag oi1 oi2 oj1 oj2] in *.
  assert (B : forallb vis_level (by_opcodes udiff noskip [mkOp tag i i2 i j2] xs ys p1 p2) = true /\
              (by_opcodes udiff noskip [mkOp tag i i2 i j2] xs ys p1 p2 = [] -> i2 = j2)).
  { rewrite by_opcodes_single. cbn [otag oi1 oi2 oj1 oj2]. destruct tag.
    - split; [reflexivity|]. intros _.
      match goal with Hx : (_ =? _) = true |- _ => apply Nat.eqb_eq in Hx end. lia.
    - split; [apply pairs_leaf_vis|]. intros E.
      pose proof (pairs_leaf_length_ge udiff (slice xs i i2) (slice ys i j2) i i p1 p2) as HP.
      rewrite E in HP. rewrite !slice_length in HP by lia. cbn [length] in HP. lia.
    - split; [apply removed_from_vis|]. intros E.
      match goal with Hx : (_ =? _) = true |- _ => apply Nat.eqb_eq in Hx end. subst j2.
      apply (f_equal (@length entry)) in E. rewrite removed_from_length, slice_length in E by lia.
      cbn [length] in E. lia.
    - split; [apply added_from_vis|]. intros E.
      match goal with Hx : (_ =? _) = true |- _ => apply Nat.eqb_eq in Hx end. subst i2.
      apply (f_equal (@length entry)) in E. rewrite added_from_length, slice_length in E by lia.
      cbn [length] in E. lia. }
  destruct B as [V Z].
  destruct (by_opcodes udiff noskip [mkOp tag i i2 i j2] xs ys p1 p2) as [|e blk] eqn:EB.
  - cbn [app]. specialize (Z eq_refl). subst j2. apply (IH i2). exact Trest.
  - right. cbn in V. apply andb_true_iff in V as [Ve _]. cbn. rewrite Ve. reflexivity.
Qed.

End Kinds.

(* ------------------------------------------------------------------ *)
(** * The traversal *)

Section Main.
Variable xrepr xstr : atom -> pystr.
Variable hatom : atom -> pystr.
Variable udiff : pystr -> pystr -> pystr.
Variable ops : path -> list value -> list value -> list opcode.
Variable excl : path -> bool.
Variable c : cfg.
Hypothesis Htile : tiling ops.
Notation diff := (diff hatom udiff ops noskip excl c).

Lemma default_leaf_P xs ys p1 p2 : NilOrVis (fst (default_leaf_list udiff ops noskip xs ys p1 p2)).
Proof.
  unfold default_leaf_list.
  destruct (1 <? length (by_opcodes udiff noskip (ops p1 xs ys) xs ys p1 p2)).
  - destruct (_ <=? _); cbn [fst].
    + apply P_allvis, pairs_leaf_vis.
    + apply (by_opcodes_P udiff xs ys p1 p2 _ 0). apply Htile.
  - cbn [fst]. apply (by_opcodes_P udiff xs ys p1 p2 _ 0). apply Htile.
Qed.

Definition IHT (t1 : value) : Prop := forall t2 p1 p2, NilOrVis (fst (diff t1 t2 p1 p2)).

Lemma P_go_list xs : Forall IHT xs -> forall ys i p1 p2, NilOrVis (fst (go_list noskip diff p1 p2 xs ys i)).
Proof.
  induction 1 as [|x xs Hx _ IH]; intros ys i p1 p2.
  - cbn. apply P_allvis, added_from_vis.
  - destruct ys as [|y ys]; [cbn [go_list fst]; apply P_allvis, removed_from_vis|].
    change (go_list noskip diff p1 p2 (x :: xs) (y :: ys) i) with
      (app2 (diff x y (snoc p1 (PIdx i)) (snoc p2 (PIdx i))) (go_list noskip diff p1 p2 xs ys (S i))).
    unfold app2. cbn [fst]. apply P_app; [apply Hx|apply IH].
Qed.

Lemma P_seq_body xs ys p1 p2 : Forall IHT xs -> NilOrVis (fst (seq_body hatom udiff ops noskip excl c xs ys p1 p2)).
Proof.
  intros IH. unfold seq_body. destruct (negb (zip c) && forallb is_atom xs && forallb is_atom ys).
  - pose proof (default_leaf_P xs ys p1 p2) as D.
    destruct (default_leaf_list udiff ops noskip xs ys p1 p2) as [es rec]. exact D.
  - apply P_go_list. exact IH.
Qed.

Lemma P_go_common kvs2 k2 p1 p2 l :
  Forall (fun kv => IHT (snd kv)) l -> NilOrVis (fst (go_common c diff kvs2 k2 p1 p2 l)).
Proof.
  induction l as [|[k v1] l IH]; intros HI; [apply P_nil|].
  apply Forall_cons_iff in HI as [Hk HI']. specialize (IH HI').
  change (go_common c diff kvs2 k2 p1 p2 ((k, v1) :: l)) with
    (if keep_key c k then
       match find (py_eq k) k2 with
       | Some k' => match assoc k' kvs2 with
                    | Some v2 => app2 (diff v1 v2 (snoc p1 (PKey k')) (snoc p2 (PKey k'))) (go_common c diff kvs2 k2 p1 p2 l)
                    | None => go_common c diff kvs2 k2 p1 p2 l
                    end
       | None => go_common c diff kvs2 k2 p1 p2 l
       end
     else go_common c diff kvs2 k2 p1 p2 l).
  destruct (keep_key c k); [|exact IH].
  destruct (find (py_eq k) k2) as [k'|]; [|exact IH].
  destruct (assoc k' kvs2) as [v2|]; [|exact IH].
  unfold app2. cbn [fst]. apply P_app; [apply Hk|exact IH].
Qed.

Lemma P_diff_set xs ys p1 p2 : NilOrVis (diff_set hatom noskip xs ys p1 p2).
Proof.
  unfold diff_set. apply P_app; apply P_flat_map; intros x; apply P_allvis; destruct (existsb _ _); reflexivity.
Qed.

(* every level list the traversal produces is empty or holds a visible level *)
Theorem diff_P : forall t1, IHT t1.
Proof.
  induction t1 as [a|xs IH|xs IH|kvs IH|xs|xs] using value_ind'; intros t2 p1 p2;
    (match goal with |- context [diff ?t1 t2 _ _] => destruct (ty_eqb (type_of t1) (type_of t2)) eqn:T end;
     [|rewrite diff_type by (try reflexivity; exact T); apply P_allvis; reflexivity]);
    pose proof T as T'; apply ty_eqb_true in T'; destruct t2; try discriminate T'; try (destruct a; discriminate T').
  - rewrite diff_atom_eq by reflexivity. cbn [type_of] in T. rewrite T. cbn [negb fst]. apply P_allvis, diff_atom_vis.
  - rewrite diff_list by reflexivity. apply P_seq_body; assumption.
  - rewrite diff_tuple by reflexivity. apply P_seq_body; assumption.
  - rewrite diff_dict by reflexivity. unfold dict_body.
    destruct (dict_shortcut _ _ _ _ _); [apply P_allvis; reflexivity|]. cbn [fst].
    apply P_app; [|apply P_app].
    + apply P_flat_map. intros k. apply P_allvis. destruct (mem_atom _ _); reflexivity.
    + apply P_flat_map. intros k. apply P_allvis. destruct (mem_atom _ _); reflexivity.
    + apply P_go_common. exact IH.
  - rewrite diff_vset by reflexivity. cbn [fst]. apply P_diff_set.
  - rewrite diff_vfrozen by reflexivity. cbn [fst]. apply P_diff_set.
Qed.

Theorem run_P t1 t2 : NilOrVis (fst (run_diff hatom udiff ops noskip excl c t1 t2)).
Proof.
  unfold run_diff. pose proof (diff_P t1 t2 [] []) as H.
  destruct (diff t1 t2 [] []) as [es rec]. cbn [fst] in *. apply mutual_vis. exact H.
Qed.

(** MAIN: at verbose_level >= 1 an empty text view means an empty result tree *)
Theorem text_empty_tree_empty_gen v t1 t2 :
  1 <= v ->
  text_view xrepr xstr v (fst (run_diff hatom udiff ops noskip excl c t1 t2)) = [] ->
  fst (run_diff hatom udiff ops noskip excl c t1 t2) = [].
Proof. intros Hv. apply P_text; [exact Hv|apply run_P]. Qed.

Theorem text_empty_iff v t1 t2 :
  1 <= v ->
  (text_view xrepr xstr v (fst (run_diff hatom udiff ops noskip excl c t1 t2)) = [] <->
   fst (run_diff hatom udiff ops noskip excl c t1 t2) = []).
Proof.
  intros Hv. split; [apply text_empty_tree_empty_gen; exact Hv|]. intros ->. reflexivity.
Qed.

End Main.

(* for every printer oracle; [thr_num c <= thr_den c] and [wf] are not needed for this direction *)
Theorem text_empty_tree_empty :
  forall xrepr xstr v hatom udiff ops excl c t1 t2,
    1 <= v -> tiling ops ->
    text_view xrepr xstr v (fst (run_diff hatom udiff ops noskip excl c t1 t2)) = [] ->
    fst (run_diff hatom udiff ops noskip excl c t1 t2) = [].
Proof. intros xrepr xstr v hatom udiff ops excl c t1 t2 Hv Ht. apply text_empty_tree_empty_gen; assumption. Qed.

(* ------------------------------------------------------------------ *)
(** * C02 in the text view *)

(* a structural copy gives an empty text view, at every verbose_level *)
Theorem text_copy_empty :
  forall xrepr xstr v hatom udiff ops excl c t,
    thr_num c <= thr_den c -> tiling ops -> wf t = true ->
    text_view xrepr xstr v (fst (run_diff hatom udiff ops noskip excl c t t)) = [].
Proof.
  intros xrepr xstr v hatom udiff ops excl c t Ht Htl W. rewrite (run_copy_empty hatom udiff ops excl c Ht Htl t W). reflexivity.
Qed.

(* an empty text view at verbose_level >= 1 means Python-equal: general leaf guard of XuEmpty.run_empty_sound_eq ... *)
Theorem text_empty_sound_eq :
  forall xrepr xstr v hatom udiff ops excl c ok lf t1 t2,
    1 <= v ->
    (forall a b, lf a = true -> lf b = true -> dt_same_kind a b = true) ->
    (forall a b, ok a = true -> ok b = true -> hatom a = hatom b -> py_eq a b = true) -> valid_ops ops ->
    wf t1 = true -> wf t2 = true ->
    inputs_ok (keep_key c) ok lf t1 = true -> inputs_ok (keep_key c) ok lf t2 = true ->
    text_view xrepr xstr v (fst (run_diff hatom udiff ops noskip excl c t1 t2)) = [] -> py_eqv t1 t2 = true.
Proof.
  intros xrepr xstr v hatom udiff ops excl c ok lf t1 t2 Hv Hlf Hh V W1 W2 K1 K2 T.
  apply (XuEmpty.run_empty_sound_eq hatom udiff ops excl c ok lf Hlf Hh V t1 t2 W1 W2 K1 K2).
  apply (text_empty_tree_empty xrepr xstr v hatom udiff ops excl c t1 t2 Hv (valid_ops_tiling ops V) T).
Qed.

(* ... and with the guards of XuEmpty.run_empty_sound_dt (all datetime leaves of one kind k) *)
Theorem text_empty_sound_dt :
  forall xrepr xstr v hatom udiff ops excl c ok k t1 t2,
    1 <= v ->
    (forall a b, ok a = true -> ok b = true -> hatom a = hatom b -> py_eq a b = true) -> valid_ops ops ->
    wf t1 = true -> wf t2 = true ->
    inputs_ok (keep_key c) ok (dt_kind k) t1 = true -> inputs_ok (keep_key c) ok (dt_kind k) t2 = true ->
    text_view xrepr xstr v (fst (run_diff hatom udiff ops noskip excl c t1 t2)) = [] -> py_eqv t1 t2 = true.
Proof.
  intros xrepr xstr v hatom udiff ops excl c ok k t1 t2 Hv Hh V W1 W2 K1 K2 T.
  apply (run_empty_sound_dt hatom udiff ops excl c ok k t1 t2 Hh V W1 W2 K1 K2).
  apply (text_empty_tree_empty xrepr xstr v hatom udiff ops excl c t1 t2 Hv (valid_ops_tiling ops V) T).
Qed.

(* no leaf guard: equal after normalising the datetime leaves (XuEmptyNorm.run_empty_sound_norm) *)
Theorem text_empty_sound_norm :
  forall xrepr xstr v hatom udiff ops excl c ok t1 t2,
    1 <= v ->
    (forall a b, ok a = true -> ok b = true -> hatom a = hatom b -> py_eq a b = true) -> valid_ops ops ->
    wf t1 = true -> wf t2 = true ->
    inputs_ok (keep_key c) ok any_atom t1 = true -> inputs_ok (keep_key c) ok any_atom t2 = true ->
    text_view xrepr xstr v (fst (run_diff hatom udiff ops noskip excl c t1 t2)) = [] ->
    py_eqv (XuEmptyNorm.normL t1) (XuEmptyNorm.normL t2) = true.
Proof.
  intros xrepr xstr v hatom udiff ops excl c ok t1 t2 Hv Hh V W1 W2 K1 K2 T.
  apply (XuEmptyNorm.run_empty_sound_norm hatom udiff ops excl c ok t1 t2 Hh V W1 W2 K1 K2).
  apply (text_empty_tree_empty xrepr xstr v hatom udiff ops excl c t1 t2 Hv (valid_ops_tiling ops V) T).
Qed.

(* ------------------------------------------------------------------ *)
(** * Witnesses *)

Definition noprint (_ : atom) : pystr := [].

(* verbose_level 0: two datetimes one second apart (and 1 vs 2) - the tree holds a values_changed level, the
   text view is empty *)
Definition v0_a : atom := ADt 1715984134000000 (Some 0%Z).
Definition v0_b : atom := ADt 1715984135000000 (Some 0%Z).
Lemma text_empty_tree_empty_refuted_v0 :
  tiling one_block /\ wf (VAtom v0_a) = true /\ wf (VAtom v0_b) = true /\
  text_view noprint noprint 0 (fst (run_diff inj_hash (fun _ _ => []) one_block noskip noskip (mkCfg false 33 100 true) (VAtom v0_a) (VAtom v0_b))) = [] /\
  length (fst (run_diff inj_hash (fun _ _ => []) one_block noskip noskip (mkCfg false 33 100 true) (VAtom v0_a) (VAtom v0_b))) = 1 /\
  length (text_view noprint noprint 1 (fst (run_diff inj_hash (fun _ _ => []) one_block noskip noskip (mkCfg false 33 100 true) (VAtom v0_a) (VAtom v0_b)))) = 1 /\
  py_eqv (VAtom v0_a) (VAtom v0_b) = false /\
  text_view noprint noprint 0 (fst (run_diff inj_hash (fun _ _ => []) one_block noskip noskip (mkCfg false 33 100 true) (VAtom (AInt 1)) (VAtom (AInt 2)))) = [] /\
  py_eqv (VAtom (AInt 1)) (VAtom (AInt 2)) = false.
Proof. split; [exact (valid_ops_tiling _ one_block_valid)|]. repeat split; vm_compute; reflexivity. Qed.

(* the moved case is not vacuous over the exotic scalars: [date, Decimal('1'), 2.0] vs [1.0, Decimal('2')] with the
   (valid) opcodes delete [0,1) / equal [1,2)~[0,1) / replace [2,3)~[1,2): one removed level and one moved level
   (2.0 -> Decimal('2'): == but not identical) - one text entry at verbose_level 1, two at 2 *)
Definition guarded_ops (cand : list opcode) (p : path) (xs ys : list value) : list opcode :=
  if valid_opcodes cand xs ys then cand else one_block p xs ys.
Lemma guarded_ops_valid cand : valid_ops (guarded_ops cand).
Proof.
  intros p xs ys. unfold guarded_ops. destruct (valid_opcodes cand xs ys) eqn:E; [exact E|apply one_block_valid].
Qed.
Definition mv_ops := guarded_ops [mkOp ODelete 0 1 0 0; mkOp OEqual 1 2 0 1; mkOp OReplace 2 3 1 2].
Definition mv_t1 : value := VList [VAtom (ADate 5); VAtom (ADec 1 0); VAtom (AHalf 4)].
Definition mv_t2 : value := VList [VAtom (AHalf 2); VAtom (ADec 2 0)].
Example moved_case_not_vacuous :
  valid_ops mv_ops /\
  map ekind (fst (run_diff inj_hash (fun _ _ => []) mv_ops noskip noskip (mkCfg false 33 100 true) mv_t1 mv_t2))
    = [KIterRem; KIterMoved] /\
  length (text_view noprint noprint 1 (fst (run_diff inj_hash (fun _ _ => []) mv_ops noskip noskip (mkCfg false 33 100 true) mv_t1 mv_t2))) = 1 /\
  length (text_view noprint noprint 2 (fst (run_diff inj_hash (fun _ _ => []) mv_ops noskip noskip (mkCfg false 33 100 true) mv_t1 mv_t2))) = 2.
Proof. split; [apply guarded_ops_valid|]. repeat split; vm_compute; reflexivity. Qed.

(* with exclude_paths the statement is FALSE (the removed level that unbalances the offsets can be excluded) *)
Definition sk_t1 : value := VList [VAtom (ATd 1); VAtom (AHalf 4)].
Definition sk_t2 : value := VList [VAtom (ADec 2 0)].
Definition sk_ops := guarded_ops [mkOp ODelete 0 1 0 0; mkOp OReplace 1 2 0 1].
Definition sk_skip (p : path) : bool := path_eqb p [PIdx 0].
Lemma text_empty_tree_empty_refuted_skip :
  valid_ops sk_ops /\ wf sk_t1 = true /\ wf sk_t2 = true /\
  map ekind (fst (run_diff inj_hash (fun _ _ => []) sk_ops sk_skip noskip (mkCfg false 33 100 true) sk_t1 sk_t2)) = [KIterMoved] /\
  text_view noprint noprint 1 (fst (run_diff inj_hash (fun _ _ => []) sk_ops sk_skip noskip (mkCfg false 33 100 true) sk_t1 sk_t2)) = [] /\
  py_eqv sk_t1 sk_t2 = false.
Proof. split; [apply guarded_ops_valid|]. repeat split; vm_compute; reflexivity. Qed.

From Coq Require Import List ZArith NArith Bool Arith.
From DD Require Import Base.PyStr Base.Value Path.PathModel Diff.Tree Diff.DiffModel Delta.DeltaModel.
Check add_one. Check remove_one. Check do_item_added. Check do_item_removed. Check do_iterable_item_added. Check do_iterable_item_removed.
Check apply. Check do_type_changes. Check do_values_changed. Check do_post. Check do_opcodes. Check do_set_items. Check set_new_value. Check del_elem. Check find_closest. Check verify.
Check to_delta.

From Coq Require Import List ZArith NArith Bool Arith Permutation.
Import ListNotations.
From DD Require Import Base.PyStr Base.Value Path.PathModel Diff.Tree Diff.DiffModel
  Delta.DeltaModel Delta.DeltaRun Delta.DeltaGuard Delta.DeltaGood Delta.DeltaRoundtrip Delta.DeltaChain Delta.DeltaExamples.
From DD Require Import Delta.DeltaFaithful Delta.DeltaFaithfulProofs Delta.DeltaFaithfulRoundtrip.

(* ---- the faithful application: an exception that escapes Delta.__add__ is a result ---- *)
(* on every insert-regular run the faithful application completes and is DeltaModel's *)
Theorem C01_faithful_sound :
  forall conv ro ao d v, insert_regular conv ro ao d v = true -> apply_f conv ro ao d v = inr (apply conv ro ao d v).
Proof. exact apply_f_sound. Qed.
Print Assumptions C01_faithful_sound.

(* when the added paths end in list positions (every delta of a diff) the faithful application raises exactly when
   DeltaModel's run is not insert-regular *)
Theorem C01_faithful_raises_iff :
  forall conv ro ao d v, nonneg_paths d = true -> (forall x, In x (ao (added_items d)) -> In x (added_items d)) ->
    ((exists e, apply_f conv ro ao d v = inl e) <-> insert_regular conv ro ao d v = false).
Proof. exact apply_f_raises_iff. Qed.
Print Assumptions C01_faithful_raises_iff.

(* static: a delta that adds nothing to an iterable *)
Theorem C01_faithful_no_iterable_added :
  forall conv ro ao d v, d_iadd d = [] -> d_moved d = [] -> apply_f conv ro ao d v = inr (apply conv ro ao d v).
Proof. exact apply_f_no_iterable_added. Qed.
Print Assumptions C01_faithful_no_iterable_added.

(* no condition on the paths and the absence of tuples is sufficient: dict.insert / len(5) *)
Theorem C01_faithful_no_static_path_condition :
  nonneg_paths nsp_d1 = true /\ app_f nsp_d1 nsp_v1 = inl EAttribute /\ app_m nsp_d1 nsp_v1 = (nsp_r1, 0) /\
  nonneg_paths nsp_d2 = true /\ app_f nsp_d2 nsp_v2 = inl EType /\ app_m nsp_d2 nsp_v2 = (nsp_v2, 1).
Proof. exact no_static_path_condition. Qed.
Print Assumptions C01_faithful_no_static_path_condition.

(* the fully faithful application (removal, failed write on a tuple, post-processing refined as well) *)
Theorem C01_faithful_full_sound :
  forall conv ro ao d v,
    insert_regular conv ro ao d v = true -> write_regular conv ro ao d v = true ->
    removal_regular conv ro ao d v = true -> post_regular conv ro ao d v = true ->
    apply_ff conv ro ao d v = inr (apply conv ro ao d v).
Proof. exact apply_ff_sound. Qed.
Print Assumptions C01_faithful_full_sound.

(* the round trip of the faithful application inside the guards, on an insert-regular run *)
Theorem C01_roundtrip_faithful_partial :
  forall hatom udiff ops c conv bidir always,
    (forall a b, hatom a = hatom b -> a = b) ->
    (forall ty0 v v', conv ty0 v = Some v' -> type_of v' = ty0) ->
  forall ro ao t1 t2,
    guards c conv bidir always t1 t2 -> opsv ops t1 t2 [] ->
    let r := run_diff hatom udiff ops nos nos c t1 t2 in
    let d := to_delta conv bidir always ops t1 t2 (fst r) (snd r) in
    orders_ok_at ro ao d -> insert_regular conv ro ao d t1 = true ->
    exists t2', apply_f conv ro ao d t1 = inr (t2', 0) /\ veqb t2' t2 = true.
Proof. exact roundtrip_f_at. Qed.
Print Assumptions C01_roundtrip_faithful_partial.

(* inside the guards the faithful application has exactly two outcomes *)
Theorem C01_roundtrip_faithful_or_raises :
  forall hatom udiff ops c conv bidir always,
    (forall a b, hatom a = hatom b -> a = b) ->
    (forall ty0 v v', conv ty0 v = Some v' -> type_of v' = ty0) ->
  forall ro ao t1 t2,
    guards c conv bidir always t1 t2 -> opsv ops t1 t2 [] ->
    let r := run_diff hatom udiff ops nos nos c t1 t2 in
    let d := to_delta conv bidir always ops t1 t2 (fst r) (snd r) in
    orders_ok_at ro ao d -> nonneg_paths d = true ->
    ((exists e, apply_f conv ro ao d t1 = inl e) /\ insert_regular conv ro ao d t1 = false) \/
    (exists t2', apply_f conv ro ao d t1 = inr (t2', 0) /\ veqb t2' t2 = true /\ insert_regular conv ro ao d t1 = true).
Proof. exact roundtrip_f_or_raises. Qed.
Print Assumptions C01_roundtrip_faithful_or_raises.

(* F6 on the faithful model: (1,2) + Delta(DeepDiff((1,2),(1,7,2))) raises AttributeError; DeltaModel answers (1,7) *)
Theorem C01_faithful_tuple_insert_raises :
  rt_f hatom_ex f6_ops ex_cfg conv_none false false f6_t1 f6_t2 = inl EAttribute /\
  rt_ff hatom_ex f6_ops ex_cfg conv_none false false f6_t1 f6_t2 = inl EAttribute /\
  rt hatom_ex f6_ops ex_cfg conv_none false false f6_t1 f6_t2 = (VTuple [I 1; I 7], 0) /\
  insert_regular conv_none (@rev _) (fun l => l) (delta_of hatom_ex (fun _ _ => []) f6_ops ex_cfg conv_none false false f6_t1 f6_t2) f6_t1 = false.
Proof. exact tuple_insert_raises. Qed.
Print Assumptions C01_faithful_tuple_insert_raises.

(* a trailing append to a tuple succeeds: (1,2) -> (1,2,3) *)
Theorem C01_faithful_tuple_append :
  rt_f hatom_ex app_ops ex_cfg conv_none false false f6_t1 app_t2 = inr (app_t2, 0) /\
  rt_ff hatom_ex app_ops ex_cfg conv_none false false f6_t1 app_t2 = inr (app_t2, 0) /\
  rt hatom_ex app_ops ex_cfg conv_none false false f6_t1 app_t2 = (app_t2, 0) /\
  insert_regular conv_none (@rev _) (fun l => l) (delta_of hatom_ex (fun _ _ => []) app_ops ex_cfg conv_none false false f6_t1 app_t2) f6_t1 = true /\
  d_iadd (delta_of hatom_ex (fun _ _ => []) app_ops ex_cfg conv_none false false f6_t1 app_t2) = [([PKey (AInt 2)], I 3)].
Proof. exact tuple_append_ok. Qed.
Print Assumptions C01_faithful_tuple_append.

(* [1,2,3] + Delta({'iterable_item_added': {'root[-1]': 9}}) = [1, 2, None, 9]; DeltaModel answers [1, 2, 9] *)
Theorem C01_faithful_negative_index :
  let d := free_delta [([PKey (AInt (-1))], I 9)] [] [] [] [] [] in
  let v := VList [I 1; I 2; I 3] in
  app_f d v = inr (VList [I 1; I 2; NoneV; I 9], 0) /\ app_ff d v = inr (VList [I 1; I 2; NoneV; I 9], 0) /\
  app_m d v = (VList [I 1; I 2; I 9], 0) /\ insert_regular conv_none (@rev _) (fun l => l) d v = false.
Proof. exact negative_index_insert. Qed.
Print Assumptions C01_faithful_negative_index.

(* the search of _find_closest_iterable_element_for_index for an int elem of either sign is DeltaModel's *)
Theorem C01_find_closest_negative :
  forall xs z expected, find_closest2 xs (2 * z) expected = find_closest xs (Z.to_nat z) expected.
Proof. exact find_closest2_int. Qed.
Print Assumptions C01_find_closest_negative.

(** C03 at verbose_level 0 and 1: the text view at a lower verbosity is a PROJECTION of the verbose
    (verbose_level=2) one - entry by entry, independent of the diff that produced the tree:
      type_changes       lose new_path below 2 and old_value / new_value at 0
      values_changed     lose new_path below 2 and VANISH at 0
      dictionary_item_*  lose the value below 2 (the category is a set of paths)
      iterable_item_moved VANISH below 2
      iterable_item_added / removed, set_item_* are unchanged.
    Hence the positional-mode result at every verbosity is the projection of the recursive
    definition (Diff/Spec.v).  Definitions + proofs. *)
From Coq Require Import List ZArith NArith Bool Arith Lia.
Import ListNotations.
From DD Require Import Base.PyStr Base.Value Path.PathModel Diff.Tree Diff.DiffModel Diff.TextView
  Diff.Spec Diff.DiffEmpty Diff.DiffSpecProofs.

Definition tproj (v : nat) (t : tentry) : list tentry :=
  match t with
  | TType p a b np vals =>
      [TType p a b (if Nat.ltb 1 v then np else None) (if Nat.ltb 0 v then vals else None)]
  | TValue p a b np d => if Nat.ltb 0 v then [TValue p a b (if Nat.ltb 1 v then np else None) d] else []
  | TDictAdd p x => [TDictAdd p (if Nat.leb 2 v then x else None)]
  | TDictRem p x => [TDictRem p (if Nat.leb 2 v then x else None)]
  | TMoved _ _ _ => if Nat.ltb 1 v then [t] else []
  | TIterAdd _ _ | TIterRem _ _ | TSetAdd _ | TSetRem _ => [t]
  end.

(* the specification at verbosity v *)
Definition spec_diff_at (v : nat) (udiff : pystr -> pystr -> pystr) (ip : bool) (t1 t2 : value) : list tentry :=
  flat_map (tproj v) (spec_diff udiff ip t1 t2).

Lemma text_of_proj v e : text_of v e = flat_map (tproj v) (text_of 2 e).
Proof.
  unfold text_of. destruct (ekind e); destruct v as [|[|v]]; reflexivity.
Qed.

Theorem text_view_proj v es : text_view v es = flat_map (tproj v) (text_view 2 es).
Proof.
  unfold text_view. induction es as [|e es IH]; [reflexivity|].
  cbn [flat_map]. rewrite flat_map_app, <- IH, <- text_of_proj. reflexivity.
Qed.

(* at verbose_level 2 the projection is the identity *)
Lemma tproj_2 t : tproj 2 t = [t].
Proof. destruct t; reflexivity. Qed.

Theorem positional_run_is_spec_at v hatom udiff ops excl d ip t1 t2 :
  (forall a b, hatom a = hatom b -> a = b) ->
  wf t1 = true -> wf t2 = true ->
  text_view v (fst (run_diff hatom udiff ops noskip excl (mkCfg true 0 d ip) t1 t2)) = spec_diff_at v udiff ip t1 t2.
Proof.
  intros Hinj W1 W2. rewrite text_view_proj. unfold spec_diff_at. f_equal.
  apply positional_run_is_spec; assumption.
Qed.

Theorem positional_run_is_spec_at_deephash v H o udiff ops excl d ip t1 t2 :
  (forall s t, H s = H t -> s = t) -> HashModel.plain o = true ->
  wf t1 = true -> wf t2 = true ->
  inputs_ok any_atom HashModel.tag_safe_atom t1 = true -> inputs_ok any_atom HashModel.tag_safe_atom t2 = true ->
  text_view v (fst (run_diff (HashModel.hash_atom H o) udiff ops noskip excl (mkCfg true 0 d ip) t1 t2)) = spec_diff_at v udiff ip t1 t2.
Proof.
  intros HH Hp W1 W2 G1 G2. rewrite text_view_proj. unfold spec_diff_at. f_equal.
  apply positional_run_is_spec_deephash; assumption.
Qed.

(* what is left of the definition's entries at verbose_level 1 and 0, spelled out *)
Lemma spec_entry_at_1 t :
  tproj 1 t = match t with
              | TType p a b _ vals => [TType p a b None vals]
              | TValue p a b _ d => [TValue p a b None d]
              | TDictAdd p _ => [TDictAdd p None]
              | TDictRem p _ => [TDictRem p None]
              | TMoved _ _ _ => []
              | _ => [t]
              end.
Proof. destruct t; reflexivity. Qed.

Lemma spec_entry_at_0 t :
  tproj 0 t = match t with
              | TType p a b _ _ => [TType p a b None None]
              | TValue _ _ _ _ _ => []
              | TDictAdd p _ => [TDictAdd p None]
              | TDictRem p _ => [TDictRem p None]
              | TMoved _ _ _ => []
              | _ => [t]
              end.
Proof. destruct t; reflexivity. Qed.

(* verbose_level 0 loses differences: 1 vs 2 gives an empty text view (values_changed vanish) - the
   reason why C02 speaks of verbosity >= 1 *)
Lemma verbose0_loses_value_changes :
  py_eqv (VAtom (AInt 1)) (VAtom (AInt 2)) = false /\
  text_view 0 (fst (run_diff inj_hash (fun _ _ => []) one_block noskip noskip (mkCfg true 0 1 true) (VAtom (AInt 1)) (VAtom (AInt 2)))) = [] /\
  List.length (text_view 1 (fst (run_diff inj_hash (fun _ _ => []) one_block noskip noskip (mkCfg true 0 1 true) (VAtom (AInt 1)) (VAtom (AInt 2))))) = 1.
Proof. repeat split; vm_compute; reflexivity. Qed.

(* at verbose_level >= 1 no entry of the DEFINITION vanishes (it never yields iterable_item_moved) *)
Lemma tproj_nonempty v t : 1 <= v -> (forall p np x, t <> TMoved p np x) -> tproj v t <> [].
Proof.
  intros Hv Hm. destruct t; cbn; try discriminate.
  - destruct v; [lia|]. cbn. discriminate.
  - exfalso. eapply Hm. reflexivity.
Qed.

(** The run-wide DeepHash table WITHOUT the alias-free guard.

    [DiffMemoProofs.diff_m_pure] needs "no two set members of the inputs are == without being
    identical".  Here the exact relation between the table-threaded run [diff_m] and the
    memo-free model [DiffModel.diff] is proved for ALL well-formed inputs and EVERY starting table:

      the levels reported by [diff_m m t1 t2] are those of [diff (hfin mf) t1 t2], as multisets,
      for every table [mf] that extends the table the run ends with - in particular for that
      final table itself -, where [hfin mf a] is the hash the table [mf] serves for the atom [a]
      (the hash of the first ==-equal atom that was ever inserted, or [a]'s own hash).

    Reason: the table only grows at its end and a lookup returns the first matching entry, so
    once an atom has been hashed every later lookup - by either side, at any set level - returns
    the same string, which is what the final table returns.  The run with the table therefore IS a
    memo-free run, with another (non-injective) item hash; every theorem about [diff] that holds
    for an arbitrary item hash transfers without any guard (C02 copy clause, C04 faithfulness),
    and C02 soundness transfers because the hash read off the table still separates members that
    are not Python-equal ([hfin_separates]). *)
From Coq Require Import List ZArith NArith Bool Arith Lia Permutation.
Import ListNotations.
From DD Require Import Base.PyStr Base.Value Base.ValueFacts Path.PathModel
  Diff.Tree Diff.DiffModel Diff.DiffFacts Diff.DiffFaithful Diff.DiffEmpty Diff.DiffSpecProofs
  Hash.HashModel Hash.HashProofsC06 Hash.HashProofsMemo Hash.HashMembers Diff.DiffMemo Diff.DiffMemoProofs.
From DD Require Hash.HashProofsC07.

(* ------------------------------------------------------------------ *)
(** * Tables only grow at the end *)

(* atom-keyed entries hold the memo-free hash of their key *)
Definition pure_entries (H : pystr -> pystr) (o : hopts) (e : memo) : Prop :=
  forall a h, In (MK (VAtom a), h) e -> h = hash_atom H o a.

Definition extends (m m' : memo) : Prop := exists e, m' = m ++ e.
Definition ext (H : pystr -> pystr) (o : hopts) (m m' : memo) : Prop :=
  exists e, m' = m ++ e /\ pure_entries H o e.

Lemma extends_refl m : extends m m.
Proof. exists []. rewrite app_nil_r. reflexivity. Qed.
Lemma extends_trans m1 m2 m3 : extends m1 m2 -> extends m2 m3 -> extends m1 m3.
Proof. intros [e1 ->] [e2 ->]. exists (e1 ++ e2). rewrite app_assoc. reflexivity. Qed.
Lemma extends_app m e : extends m (m ++ e).
Proof. exists e. reflexivity. Qed.

Lemma mlookup_app v m e :
  mlookup v (m ++ e) = match mlookup v m with Some h => Some h | None => mlookup v e end.
Proof.
  induction m as [|[[k|k] h] m IH]; cbn [app mlookup]; [reflexivity| |exact IH].
  destruct (key_eq k v); [reflexivity|exact IH].
Qed.

Lemma mlookup_extends v m m' h : extends m m' -> mlookup v m = Some h -> mlookup v m' = Some h.
Proof. intros [e ->] E. rewrite mlookup_app, E. reflexivity. Qed.

Lemma key_eq_atom_refl a : key_eq (VAtom a) (VAtom a) = true.
Proof.
  destruct a as [|b|z|t|s|s].
  - reflexivity.
  - apply eqb_reflx.
  - exact (py_eq_refl (AInt z)).
  - exact (py_eq_refl (AHalf t)).
  - exact (py_eq_refl (AStr s)).
  - exact (py_eq_refl (ABytes s)).
Qed.

(* a table key that matches an atom is an atom, and Python-equal to it *)
Lemma key_eq_atom_inv k a : key_eq k (VAtom a) = true -> exists a', k = VAtom a' /\ py_eq a' a = true.
Proof.
  destruct k as [a'|xs|xs|kvs|xs|xs]; try (destruct a; cbn; discriminate).
  intros E. exists a'. split; [reflexivity|].
  destruct a' as [|b|z|t|s|s], a as [|b'|z'|t'|s'|s']; cbn in E; try discriminate E; try exact E.
  apply eqb_prop in E. subst. apply py_eq_refl.
Qed.

Section Final.
Variable H : pystr -> pystr.
Variable o : hopts.
Notation ext := (ext H o).
Notation pure_entries := (pure_entries H o).

Lemma ext_extends m m' : ext m m' -> extends m m'.
Proof. intros (e & -> & _). apply extends_app. Qed.
Lemma ext_refl m : ext m m.
Proof. exists []. split; [rewrite app_nil_r; reflexivity|intros a h []]. Qed.
Lemma ext_trans m1 m2 m3 : ext m1 m2 -> ext m2 m3 -> ext m1 m3.
Proof.
  intros (e1 & -> & P1) (e2 & -> & P2). exists (e1 ++ e2). split; [rewrite app_assoc; reflexivity|].
  intros a h Hin. apply in_app_or in Hin as [Hin|Hin]; [apply P1|apply P2]; exact Hin.
Qed.

(* the hash the table [mf] serves for an atom *)
Definition hfin (mf : memo) (a : atom) : pystr :=
  match mlookup (VAtom a) mf with Some h => h | None => hash_atom H o a end.

Lemma hash_atom_memo_final a m :
  ext m (snd (hash_atom_memo H o a m)) /\
  mlookup (VAtom a) (snd (hash_atom_memo H o a m)) = Some (fst (hash_atom_memo H o a m)).
Proof.
  unfold hash_atom_memo. destruct (mlookup (VAtom a) m) as [h|] eqn:E; cbn [fst snd].
  - split; [apply ext_refl|exact E].
  - split.
    + exists [(MK (VAtom a), hash_atom H o a)]. split; [reflexivity|].
      intros a' h [Hin|[]]. inversion Hin; subst. reflexivity.
    + unfold minsert. rewrite mlookup_app, E. cbn [mkey_of hashable mlookup].
      rewrite key_eq_atom_refl. reflexivity.
Qed.

Lemma atoms_memo_final xs : forall m,
  ext m (snd (atoms_memo H o xs m)) /\
  forall mf, extends (snd (atoms_memo H o xs m)) mf -> fst (atoms_memo H o xs m) = map (hfin mf) xs.
Proof.
  induction xs as [|a xs IH]; intros m; cbn [atoms_memo].
  - split; [apply ext_refl|reflexivity].
  - destruct (hash_atom_memo_final a m) as [E1 L1]. destruct (hash_atom_memo H o a m) as [h m1]. cbn [fst snd] in *.
    destruct (IH m1) as [E2 F2]. destruct (atoms_memo H o xs m1) as [hs m2]. cbn [fst snd] in *.
    split; [eapply ext_trans; eassumption|]. intros mf Hmf. cbn [map]. f_equal.
    + unfold hfin. rewrite (mlookup_extends _ m1 mf h); [reflexivity| |exact L1].
      eapply extends_trans; [apply ext_extends; exact E2|exact Hmf].
    + apply F2. exact Hmf.
Qed.

Definition setv (frozen : bool) (xs : list atom) : value := if frozen then VFrozen xs else VSet xs.

(* DeepHash of the set itself (last step of _create_hashtable) only appends *)
Lemma hash_memo_set_ext frozen xs m : ext m (snd (hash_memo H o (setv frozen xs) m)).
Proof.
  rewrite hash_memo_eq. destruct (mfind (setv frozen xs) m); [apply ext_refl|].
  destruct (atoms_memo_final xs m) as [E _].
  destruct frozen; cbn [setv memo_body]; destruct (atoms_memo H o xs m) as [hs m1]; cbn [fst snd] in *;
    (eapply ext_trans; [exact E|]); unfold minsert;
    (eexists; split; [reflexivity|]); intros a h [Hin|[]]; cbn in Hin; inversion Hin.
Qed.

(* ---- _create_hashtable / _diff_set for an arbitrary item hash g ---- *)
Section GenSet.
Variable g : atom -> pystr.
Variable skip : path -> bool.

Lemma add_hashes_fph_g xs : forall acc seen,
  (forall s, existsb (pystr_eqb s) seen = in_table s acc) ->
  add_hashes (map g xs) (map VAtom xs) acc =
  acc ++ map (fun a => (g a, VAtom a)) (first_per_hash g xs seen).
Proof.
  induction xs as [|a xs IH]; intros acc seen Hs; cbn [map add_hashes first_per_hash]; [rewrite app_nil_r; reflexivity|].
  rewrite (Hs (g a)). unfold in_table at 1.
  destruct (existsb (fun e : pystr * value => pystr_eqb (fst e) (g a)) acc) eqn:E.
  - replace (in_table (g a) acc) with true. apply IH. exact Hs.
  - replace (in_table (g a) acc) with false.
    rewrite (IH (acc ++ [(g a, VAtom a)]) (g a :: seen)).
    + rewrite <- app_assoc. reflexivity.
    + intros s. cbn [existsb]. unfold in_table. rewrite existsb_app. cbn [existsb fst]. rewrite orb_false_r.
      fold (in_table s acc). rewrite <- (Hs s). rewrite (pystr_eqb_sym (g a) s). apply orb_comm.
Qed.

Lemma fph_hashes_g l : forall seen s,
  existsb (pystr_eqb s) (map g (first_per_hash g l seen)) || existsb (pystr_eqb s) seen =
  existsb (pystr_eqb s) (map g l) || existsb (pystr_eqb s) seen.
Proof.
  induction l as [|a l IH]; intros seen s; [reflexivity|]. cbn [first_per_hash map existsb].
  destruct (existsb (pystr_eqb (g a)) seen) eqn:E.
  - rewrite IH. destruct (pystr_eqb s (g a)) eqn:E2; [|reflexivity].
    apply pystr_eqb_eq in E2. subst s. rewrite E. cbn. rewrite !orb_true_r. reflexivity.
  - cbn [map existsb]. specialize (IH (g a :: seen) s). cbn [existsb] in IH.
    destruct (pystr_eqb s (g a)); cbn [orb] in *; [reflexivity|exact IH].
Qed.

Lemma in_table_map_g s l :
  in_table s (map (fun a => (g a, VAtom a)) l) = existsb (pystr_eqb s) (map g l).
Proof.
  unfold in_table. induction l as [|a l IH]; cbn [existsb map fst]; [reflexivity|].
  rewrite IH, (pystr_eqb_sym (g a) s). reflexivity.
Qed.

Lemma in_table_fph_g s xs :
  in_table s (map (fun a => (g a, VAtom a)) (first_per_hash g xs [])) = existsb (pystr_eqb s) (map g xs).
Proof.
  rewrite in_table_map_g. pose proof (fph_hashes_g xs [] s) as E. cbn [existsb] in E. rewrite !orb_false_r in E. exact E.
Qed.

Lemma table_side_g k (tab_other : list (pystr * value)) (other : list atom) l p1 p2 :
  (forall s, in_table s tab_other = existsb (pystr_eqb s) (map g other)) ->
  flat_map (fun y => report_set skip k (atom_of y) p1 p2)
    (map snd (filter (fun e => negb (in_table (fst e) tab_other)) (map (fun a => (g a, VAtom a)) l)))
  = flat_map (fun y => if existsb (pystr_eqb (g y)) (map g other) then [] else report_set skip k y p1 p2) l.
Proof.
  intros Ht. induction l as [|a l IH]; cbn; [reflexivity|].
  rewrite Ht. destruct (existsb (pystr_eqb (g a)) (map g other)); cbn; rewrite IH; reflexivity.
Qed.
End GenSet.

Lemma create_hashtable_final frozen xs m :
  ext m (snd (create_hashtable H o m (setv frozen xs))) /\
  forall mf, extends (snd (create_hashtable H o m (setv frozen xs))) mf ->
    fst (create_hashtable H o m (setv frozen xs)) =
    map (fun a => (hfin mf a, VAtom a)) (first_per_hash (hfin mf) xs []).
Proof.
  unfold create_hashtable, hash_items_memo.
  assert (Hch : children (setv frozen xs) = map VAtom xs) by (destruct frozen; reflexivity). rewrite Hch.
  rewrite items_memo_atoms.
  destruct (atoms_memo_final xs m) as [E1 F1]. destruct (atoms_memo H o xs m) as [hs m1]. cbn [fst snd] in *.
  pose proof (hash_memo_set_ext frozen xs m1) as E2.
  split; [eapply ext_trans; eassumption|].
  intros mf Hmf. rewrite (F1 mf) by (eapply extends_trans; [apply ext_extends; exact E2|exact Hmf]).
  rewrite (add_hashes_fph_g (hfin mf) xs [] []); reflexivity.
Qed.

Lemma diff_set_m_final skip frozen m xs ys p1 p2 :
  ext m (snd (diff_set_m H o skip m (setv frozen xs) (setv frozen ys) p1 p2)) /\
  forall mf, extends (snd (diff_set_m H o skip m (setv frozen xs) (setv frozen ys) p1 p2)) mf ->
    fst (diff_set_m H o skip m (setv frozen xs) (setv frozen ys) p1 p2) = diff_set (hfin mf) skip xs ys p1 p2.
Proof.
  unfold diff_set_m, diff_set_memo.
  destruct (create_hashtable_final frozen xs m) as [E1 F1].
  destruct (create_hashtable H o m (setv frozen xs)) as [tab1 m1]. cbn [fst snd] in *.
  destruct (create_hashtable_final frozen ys m1) as [E2 F2].
  destruct (create_hashtable H o m1 (setv frozen ys)) as [tab2 m2]. cbn [fst snd] in *.
  split; [eapply ext_trans; eassumption|]. intros mf Hmf.
  rewrite (F1 mf) by (eapply extends_trans; [apply ext_extends; exact E2|exact Hmf]). rewrite (F2 mf Hmf).
  unfold diff_set. f_equal; apply table_side_g; intros s; apply in_table_fph_g.
Qed.

(* ------------------------------------------------------------------ *)
(** * The traversal *)

Variable udiff : pystr -> pystr -> pystr.
Variable ops : path -> list value -> list value -> list opcode.
Variable skip excl : path -> bool.
Variable c : cfg.
Notation diff_m := (diff_m H o udiff ops skip excl c).
Notation diffh mf := (diff (hfin mf) udiff ops skip excl c).

Definition permR (a b : R) : Prop := Permutation (fst a) (fst b) /\ Permutation (snd a) (snd b).

Definition agreesF (rm : RM) (m : memo) (r : memo -> R) : Prop :=
  ext m (snd rm) /\ forall mf, extends (snd rm) mf -> permR (fst rm) (r mf).

Definition FinalAt (t1 : value) : Prop :=
  forall t2 p1 p2 m, wf t1 = true -> wf t2 = true ->
    agreesF (diff_m m t1 t2 p1 p2) m (fun mf => diffh mf t1 t2 p1 p2).

Lemma permR_refl a : permR a a.
Proof. split; apply Permutation_refl. Qed.

Lemma permR_app2 a a' b b' : permR a b -> permR a' b' -> permR (app2 a a') (app2 b b').
Proof. intros [A1 A2] [B1 B2]. split; cbn [app2 fst snd]; apply Permutation_app; assumption. Qed.

Lemma agreesF_same es rec m (r : memo -> R) : (forall mf, r mf = (es, rec)) -> agreesF (es, rec, m) m r.
Proof. intros E. split; [apply ext_refl|]. intros mf _. cbn [fst]. rewrite E. apply permR_refl. Qed.

(* sequences *)
Lemma F_go_list xs : Forall FinalAt xs -> forall ys i p1 p2 m,
  forallb wf xs = true -> forallb wf ys = true ->
  agreesF (go_list_m skip diff_m p1 p2 xs ys i m) m (fun mf => go_list skip (diffh mf) p1 p2 xs ys i).
Proof.
  induction 1 as [|x xs Hx _ IH]; intros ys i p1 p2 m W1 W2.
  - cbn. apply agreesF_same. reflexivity.
  - destruct ys as [|y ys]; [cbn [go_list_m go_list]; apply agreesF_same; reflexivity|].
    change (go_list_m skip diff_m p1 p2 (x :: xs) (y :: ys) i m) with
      (let '(res, m1) := diff_m m x y (snoc p1 (PIdx i)) (snoc p2 (PIdx i)) in
       let '(rest, m2) := go_list_m skip diff_m p1 p2 xs ys (S i) m1 in (app2 res rest, m2)).
    cbn in W1, W2. apply andb_true_iff in W1 as [Wx W1], W2 as [Wy W2].
    destruct (Hx y (snoc p1 (PIdx i)) (snoc p2 (PIdx i)) m Wx Wy) as [EA FA].
    destruct (diff_m m x y (snoc p1 (PIdx i)) (snoc p2 (PIdx i))) as [res m1]. cbn [fst snd] in *.
    destruct (IH ys (S i) p1 p2 m1 W1 W2) as [EB FB].
    destruct (go_list_m skip diff_m p1 p2 xs ys (S i) m1) as [rest m2]. cbn [fst snd] in *.
    split; [eapply ext_trans; eassumption|]. intros mf Hmf. cbv beta. rewrite go_list_cons_cons.
    apply permR_app2; [apply FA; eapply extends_trans; [apply ext_extends; exact EB|exact Hmf]|apply FB; exact Hmf].
Qed.

(* dictionaries: t2's key order (implementation) vs t1's key order (DiffModel) *)
Section DictG.
Variable d : value -> value -> path -> path -> R.
Variables kvs1 kvs2 : list (atom * value).
Variables p1 p2 : path.
Hypothesis N1 : nodup_atoms (map fst kvs1) = true.
Hypothesis N2 : nodup_atoms (map fst kvs2) = true.

Definition cellg {X} (pr : R -> list X) (kv1 kv2 : atom * value) : list X :=
  if py_eq (fst kv1) (fst kv2)
  then (if keep_key c (fst kv2)
        then pr (d (snd kv1) (snd kv2) (snoc p1 (PKey (fst kv2))) (snoc p2 (PKey (fst kv2)))) else [])
  else [].

Lemma common_t1_order_g {X} (pr : R -> list X) :
  pr ([], []) = [] -> (forall a b, pr (app2 a b) = pr a ++ pr b) ->
  forall l1, pr (go_common c d kvs2 (keys_of c kvs2) p1 p2 l1) =
             flat_map (fun kv1 => flat_map (cellg pr kv1) kvs2) l1.
Proof.
  intros P0 Papp. induction l1 as [|[k v1] l1 IH]; [exact P0|].
  rewrite go_common_cons. cbn [flat_map].
  unfold cellg at 1. cbn [fst snd].
  rewrite (flat_map_unique (py_eq k) (fun kv2 => if keep_key c (fst kv2)
      then pr (d v1 (snd kv2) (snoc p1 (PKey (fst kv2))) (snoc p2 (PKey (fst kv2)))) else []) kvs2 (q_left k) N2).
  destruct (keep_key c k) eqn:Kk.
  - unfold keys_of. rewrite find_fst_filter.
    2:{ intros k' E. rewrite <- (keep_key_py_eq c k k' E). exact Kk. }
    destruct (find (fun kv => py_eq k (fst kv)) kvs2) as [[k' v2]|] eqn:F; cbn [option_map fst snd]; [|exact IH].
    apply find_some in F as [Hin E]. cbn [fst] in E.
    rewrite (assoc_nodup kvs2 k' v2 k' N2 Hin (py_eq_refl k')).
    rewrite <- (keep_key_py_eq c k k' E), Kk. fold (keys_of c kvs2). rewrite Papp, IH. reflexivity.
  - destruct (find (fun kv => py_eq k (fst kv)) kvs2) as [[k' v2]|] eqn:F; [|exact IH].
    apply find_some in F as [_ E]. cbn [fst snd] in *. rewrite <- (keep_key_py_eq c k k' E), Kk. exact IH.
Qed.

Lemma cell_row {X} (pr : R -> list X) k v2 :
  flat_map (fun kv1 => cellg pr kv1 (k, v2)) kvs1 =
  match find (fun kv1 => py_eq (fst kv1) k) kvs1 with
  | Some kv1 => if keep_key c k then pr (d (snd kv1) v2 (snoc p1 (PKey k)) (snoc p2 (PKey k))) else []
  | None => []
  end.
Proof.
  unfold cellg. cbn [fst snd].
  apply (flat_map_unique (fun a => py_eq a k)
           (fun kv1 => if keep_key c k then pr (d (snd kv1) v2 (snoc p1 (PKey k)) (snoc p2 (PKey k))) else [])
           kvs1 (q_right k) N1).
Qed.

Lemma cell_swap_g {X} (pr : R -> list X) :
  Permutation (flat_map (fun kv2 => flat_map (fun kv1 => cellg pr kv1 kv2) kvs1) kvs2)
              (flat_map (fun kv1 => flat_map (cellg pr kv1) kvs2) kvs1).
Proof. apply (flat_map_swap (fun kv2 kv1 => cellg pr kv1 kv2)). Qed.
End DictG.

Lemma common_t2_order_F kvs1 p1 p2 :
  nodup_atoms (map fst kvs1) = true ->
  Forall (fun kv => FinalAt (snd kv)) kvs1 ->
  forallb (fun kv => wf (snd kv)) kvs1 = true ->
  forall l2 m, forallb (fun kv => wf (snd kv)) l2 = true ->
    agreesF (go_common_m c diff_m kvs1 p1 p2 l2 m) m
      (fun mf => (flat_map (fun kv2 => flat_map (fun kv1 => cellg (diffh mf) p1 p2 fst kv1 kv2) kvs1) l2,
                  flat_map (fun kv2 => flat_map (fun kv1 => cellg (diffh mf) p1 p2 snd kv1 kv2) kvs1) l2)).
Proof.
  intros N1 HP W1. induction l2 as [|[k v2] l2 IH]; intros m W2.
  - cbn. apply agreesF_same. reflexivity.
  - cbn in W2. apply andb_true_iff in W2 as [Wv W2].
    change (go_common_m c diff_m kvs1 p1 p2 ((k, v2) :: l2) m) with
      (if keep_key c k then
         let '(res, m1) := look_m diff_m m k v2 p1 p2 kvs1 in
         let '(rest, m2) := go_common_m c diff_m kvs1 p1 p2 l2 m1 in (app2 res rest, m2)
       else go_common_m c diff_m kvs1 p1 p2 l2 m).
    destruct (keep_key c k) eqn:Kk.
    + rewrite look_m_find.
      destruct (find (fun kv1 => py_eq (fst kv1) k) kvs1) as [[k1 v1]|] eqn:F.
      * pose proof F as F'. apply find_some in F' as [Hin _]. cbn [snd].
        assert (FinalAt v1) as Pv by (eapply Forall_forall in HP; [|exact Hin]; exact HP).
        assert (wf v1 = true) as Wv1 by (eapply forallb_forall in W1; [|exact Hin]; exact W1).
        destruct (Pv v2 (snoc p1 (PKey k)) (snoc p2 (PKey k)) m Wv1 Wv) as [EA FA].
        destruct (diff_m m v1 v2 (snoc p1 (PKey k)) (snoc p2 (PKey k))) as [res m1]. cbn [fst snd] in *.
        destruct (IH m1 W2) as [EB FB].
        destruct (go_common_m c diff_m kvs1 p1 p2 l2 m1) as [rest m2]. cbn [fst snd] in *.
        split; [eapply ext_trans; eassumption|]. intros mf Hmf. cbv beta. cbn [flat_map].
        rewrite !(cell_row _ kvs1 p1 p2 N1), F, Kk. cbn [snd].
        assert (Hm1 : extends m1 mf) by (eapply extends_trans; [apply ext_extends; exact EB|exact Hmf]).
        destruct (FA mf Hm1) as [A1 A2], (FB mf Hmf) as [B1 B2].
        split; cbn [fst snd app2] in *; apply Permutation_app; assumption.
      * destruct (IH m W2) as [EB FB].
        destruct (go_common_m c diff_m kvs1 p1 p2 l2 m) as [rest m2]. cbn [fst snd] in *.
        split; [exact EB|]. intros mf Hmf. cbv beta. cbn [flat_map].
        rewrite !(cell_row _ kvs1 p1 p2 N1), F. cbn [app2 app fst snd]. apply FB. exact Hmf.
    + destruct (IH m W2) as [EB FB]. split; [exact EB|]. intros mf Hmf. cbv beta. cbn [flat_map].
      rewrite !(cell_row _ kvs1 p1 p2 N1), Kk.
      destruct (find (fun kv1 => py_eq (fst kv1) k) kvs1); cbn [app]; apply FB; exact Hmf.
Qed.

Lemma F_dict_body kvs1 kvs2 p1 p2 m :
  Forall (fun kv => FinalAt (snd kv)) kvs1 ->
  wf (VDict kvs1) = true -> wf (VDict kvs2) = true ->
  agreesF (dict_body_m H o udiff ops skip excl c m kvs1 kvs2 p1 p2) m
          (fun mf => dict_body (hfin mf) udiff ops skip excl c kvs1 kvs2 p1 p2).
Proof.
  intros HP W1 W2. cbn in W1, W2. apply andb_true_iff in W1 as [N1 W1], W2 as [N2 W2].
  unfold dict_body_m, dict_body. destruct (dict_shortcut _ _ _ _ _); [apply agreesF_same; reflexivity|].
  destruct (common_t2_order_F kvs1 p1 p2 N1 HP W1 kvs2 m W2) as [E F].
  destruct (go_common_m c diff_m kvs1 p1 p2 kvs2 m) as [[es rec] m']. cbn [fst snd] in *.
  split; [exact E|]. intros mf Hmf. destruct (F mf Hmf) as [A1 A2]. cbn [fst snd] in *. split; cbn [fst snd].
  - apply Permutation_app_head, Permutation_app_head.
    eapply Permutation_trans; [exact A1|]. eapply Permutation_trans; [apply cell_swap_g|].
    rewrite <- (common_t1_order_g (diffh mf) kvs2 p1 p2 N2 fst eq_refl (fun a b => eq_refl)). apply Permutation_refl.
  - eapply Permutation_trans; [exact A2|]. eapply Permutation_trans; [apply cell_swap_g|].
    rewrite <- (common_t1_order_g (diffh mf) kvs2 p1 p2 N2 snd eq_refl (fun a b => eq_refl)). apply Permutation_refl.
Qed.

Lemma F_seq_body xs ys p1 p2 m :
  Forall FinalAt xs -> forallb wf xs = true -> forallb wf ys = true ->
  agreesF (seq_body_m H o udiff ops skip excl c m xs ys p1 p2) m
          (fun mf => seq_body (hfin mf) udiff ops skip excl c xs ys p1 p2).
Proof.
  intros HP W1 W2. unfold seq_body_m, seq_body.
  destruct (negb (zip c) && forallb is_atom xs && forallb is_atom ys).
  - destruct (default_leaf_list udiff ops skip xs ys p1 p2) as [es rec]. apply agreesF_same. reflexivity.
  - apply F_go_list; assumption.
Qed.

Theorem diff_m_agreesF : forall t1, FinalAt t1.
Proof.
  induction t1 as [a|xs IH|xs IH|kvs IH|xs|xs] using value_ind'; intros t2 p1 p2 m W1 W2;
    (destruct (skip p1) eqn:Hs;
     [rewrite diff_m_skip by exact Hs; apply agreesF_same; intros mf; apply diff_skip; exact Hs|]);
    (match goal with |- context [DiffMemo.diff_m _ _ _ _ _ _ _ _ ?t1 t2 _ _] => destruct (ty_eqb (type_of t1) (type_of t2)) eqn:T end;
     [|rewrite diff_m_type by assumption; apply agreesF_same; intros mf; apply diff_type; assumption]);
    pose proof T as T'; apply ty_eqb_true in T'; destruct t2; try discriminate T'; try (destruct a; discriminate T').
  - rewrite diff_m_atom by exact Hs.
    destruct (negb (ty_eqb (atom_ty a) (atom_ty a0))) eqn:Tn; apply agreesF_same; intros mf;
      rewrite diff_atom_eq by exact Hs; rewrite Tn; reflexivity.
  - rewrite diff_m_list by exact Hs.
    destruct (F_seq_body xs xs0 p1 p2 m IH W1 W2) as [E F]. split; [exact E|].
    intros mf Hmf. cbv beta. rewrite diff_list by exact Hs. apply F. exact Hmf.
  - rewrite diff_m_tuple by exact Hs.
    destruct (F_seq_body xs xs0 p1 p2 m IH W1 W2) as [E F]. split; [exact E|].
    intros mf Hmf. cbv beta. rewrite diff_tuple by exact Hs. apply F. exact Hmf.
  - rewrite diff_m_dict by exact Hs.
    destruct (F_dict_body kvs kvs0 p1 p2 m IH W1 W2) as [E F]. split; [exact E|].
    intros mf Hmf. cbv beta. rewrite diff_dict by exact Hs. apply F. exact Hmf.
  - rewrite diff_m_vset by exact Hs.
    destruct (diff_set_m_final skip false m xs xs0 p1 p2) as [E F]. cbn [setv] in E, F.
    destruct (diff_set_m H o skip m (VSet xs) (VSet xs0) p1 p2) as [es m']. cbn [fst snd] in *.
    split; [exact E|]. intros mf Hmf. cbv beta. rewrite diff_vset by exact Hs. rewrite (F mf Hmf). apply permR_refl.
  - rewrite diff_m_vfrozen by exact Hs.
    destruct (diff_set_m_final skip true m xs xs0 p1 p2) as [E F]. cbn [setv] in E, F.
    destruct (diff_set_m H o skip m (VFrozen xs) (VFrozen xs0) p1 p2) as [es m']. cbn [fst snd] in *.
    split; [exact E|]. intros mf Hmf. cbv beta. rewrite diff_vfrozen by exact Hs. rewrite (F mf Hmf). apply permR_refl.
Qed.

(* The exact relation, for every starting table and all well-formed inputs. *)
Theorem diff_m_final m t1 t2 p1 p2 :
  wf t1 = true -> wf t2 = true ->
  let r := diff_m m t1 t2 p1 p2 in
  ext m (snd r) /\
  forall mf, extends (snd r) mf ->
    Permutation (fst (fst r)) (fst (diff (hfin mf) udiff ops skip excl c t1 t2 p1 p2)) /\
    Permutation (snd (fst r)) (snd (diff (hfin mf) udiff ops skip excl c t1 t2 p1 p2)).
Proof. intros W1 W2. exact (diff_m_agreesF t1 t2 p1 p2 m W1 W2). Qed.

End Final.

(* ------------------------------------------------------------------ *)
(** * What the table's hash still separates *)

Section Separates.
Variable H : pystr -> pystr.
Variable o : hopts.
Hypothesis HH : forall s t, H s = H t -> s = t.
Hypothesis Hp : plain o = true.

(* the hash served for [a] is the memo-free hash of some atom that is == to [a] *)
Lemma hfin_rep mf a : pure_entries H o mf ->
  exists a', py_eq a' a = true /\ hfin H o mf a = hash_atom H o a'.
Proof.
  intros P. unfold hfin. destruct (mlookup (VAtom a) mf) as [h|] eqn:E.
  - apply mlookup_Some in E as (k & Hin & Ek). apply key_eq_atom_inv in Ek as (a' & -> & Ea).
    exists a'. split; [exact Ea|apply P; exact Hin].
  - exists a. split; [apply py_eq_refl|reflexivity].
Qed.

Lemma tag_safe_py_eq a' a : py_eq a' a = true -> tag_safe_atom a = true -> tag_safe_atom a' = true.
Proof.
  destruct a' as [|b|z|t|s|s]; try reflexivity.
  destruct a as [|b'|z'|t'|s'|s']; unfold py_eq; cbn; try discriminate.
  intros E. apply pystr_eqb_eq in E. subst. auto.
Qed.

(* two tag-safe atoms that the table gives one hash are Python-equal (1 and 1.0 may share a hash;
   1 and 2 never do) *)
Lemma hfin_separates mf : pure_entries H o mf ->
  forall a b, tag_safe_atom a = true -> tag_safe_atom b = true ->
    hfin H o mf a = hfin H o mf b -> py_eq a b = true.
Proof.
  intros P a b Ta Tb E.
  destruct (hfin_rep mf a P) as (a' & Ea & Ha), (hfin_rep mf b P) as (b' & Eb & Hb).
  rewrite Ha, Hb in E.
  apply (HashProofsC07.hash_atom_inj H HH o a' b' Hp (tag_safe_py_eq _ _ Ea Ta) (tag_safe_py_eq _ _ Eb Tb)) in E.
  subst b'. rewrite py_eq_sym in Ea. eapply py_eq_trans; eassumption.
Qed.
End Separates.

(* ------------------------------------------------------------------ *)
(** * Final statements: no alias guard *)

Section NoGuard.
Variable H : pystr -> pystr.
Variable o : hopts.
Variable udiff : pystr -> pystr -> pystr.
Variable ops : path -> list value -> list value -> list opcode.
Variable excl : path -> bool.
Variable c : cfg.

(* the table a run ends with *)
Definition final_table (skip : path -> bool) (t1 t2 : value) : memo :=
  snd (run_diff_m H o udiff ops skip excl c t1 t2).

Lemma final_table_eq skip t1 t2 :
  final_table skip t1 t2 = snd (diff_m H o udiff ops skip excl c [] t1 t2 [] []).
Proof. unfold final_table, run_diff_m. destruct (diff_m _ _ _ _ _ _ _ _ _ _ _ _) as [[es rec] m]. reflexivity. Qed.

(* DeepDiff's run with its run-wide table IS the memo-free run whose item hash is read off the
   table the run ends with (entries before mutual_add_removes, as multisets; recorded opcode paths) *)
Theorem run_diff_m_is_memo_free skip t1 t2 :
  wf t1 = true -> wf t2 = true ->
  let mf := final_table skip t1 t2 in
  pure_entries H o mf /\
  Permutation (fst (fst (diff_m H o udiff ops skip excl c [] t1 t2 [] [])))
              (fst (diff (hfin H o mf) udiff ops skip excl c t1 t2 [] [])) /\
  Permutation (snd (fst (diff_m H o udiff ops skip excl c [] t1 t2 [] [])))
              (snd (diff (hfin H o mf) udiff ops skip excl c t1 t2 [] [])).
Proof.
  intros W1 W2 mf. unfold mf. rewrite final_table_eq.
  destruct (diff_m_final H o udiff ops skip excl c [] t1 t2 [] [] W1 W2) as [(e & E & P) F].
  cbn [app] in E. split; [rewrite E; exact P|]. apply F. apply extends_refl.
Qed.

(* C04 transfers to the run with the table: every reported level is backed by the inputs *)
Theorem run_diff_m_faithful_any skip t1 t2 :
  thr_num c <= thr_den c -> wf t1 = true -> wf t2 = true ->
  forall e, In e (fst (fst (run_diff_m H o udiff ops skip excl c t1 t2))) -> faithful false t1 t2 e.
Proof.
  intros Hthr W1 W2 e He. rewrite run_entries in He.
  destruct (run_diff_m_is_memo_free skip t1 t2 W1 W2) as (_ & P & _).
  pose proof (diff_faithful (hfin H o (final_table skip t1 t2)) udiff ops skip excl c t1 t2 Hthr t1 t2 [] [] eq_refl W1 W2 eq_refl eq_refl) as HF.
  apply (Permutation_Forall (Permutation_sym P)) in HF.
  pose proof (mutual_weak t1 t2 _ HF) as HW. eapply Forall_forall in HW; eassumption.
Qed.

(* C02, copy clause: for every hasher, every option set of DeepHash, every value *)
Theorem run_diff_m_copy_empty_any t :
  thr_num c <= thr_den c -> tiling ops -> wf t = true ->
  fst (fst (run_diff_m H o udiff ops noskip excl c t t)) = [].
Proof.
  intros Hthr Ht W. rewrite run_entries.
  destruct (run_diff_m_is_memo_free noskip t t W W) as (_ & P & _).
  rewrite (diff_copy_empty (hfin H o (final_table noskip t t)) udiff ops excl c Hthr Ht t [] W) in P.
  apply Permutation_sym, Permutation_nil in P. rewrite P. reflexivity.
Qed.

(* C02, soundness: injective hasher, default options, keys looked at, set members tag-safe -
   and nothing about ==-aliased members *)
Theorem run_diff_m_empty_sound_any t1 t2 :
  (forall s t, H s = H t -> s = t) -> plain o = true -> valid_ops ops ->
  wf t1 = true -> wf t2 = true ->
  inputs_ok (keep_key c) tag_safe_atom t1 = true -> inputs_ok (keep_key c) tag_safe_atom t2 = true ->
  fst (fst (run_diff_m H o udiff ops noskip excl c t1 t2)) = [] -> py_eqv t1 t2 = true.
Proof.
  intros HH Hp V W1 W2 K1 K2 E. rewrite run_entries in E. apply mutual_nil in E.
  destruct (run_diff_m_is_memo_free noskip t1 t2 W1 W2) as (Pm & P & _).
  rewrite E in P. apply Permutation_nil in P.
  eapply (diff_empty_sound_eq (hfin H o (final_table noskip t1 t2)) udiff ops excl c tag_safe_atom); try eassumption.
  apply hfin_separates; assumption.
Qed.

End NoGuard.

(* C03 with the table: in positional mode the verbose text view of the run with the table is that of
   the memo-free positional run with the table's hash, as a multiset (mutual_add_removes is the identity) *)
Section PositionalNoGuard.
Variable H : pystr -> pystr.
Variable o : hopts.
Variable udiff : pystr -> pystr -> pystr.
Variable ops : path -> list value -> list value -> list opcode.
Variable excl : path -> bool.
Variable d : nat.
Variable ip : bool.
Notation c := (mkCfg true 0 d ip).

Theorem run_diff_m_positional_is_memo_free t1 t2 :
  wf t1 = true -> wf t2 = true ->
  Permutation (TextView.text_view 2 (fst (fst (run_diff_m H o udiff ops noskip excl c t1 t2))))
              (TextView.text_view 2 (fst (run_diff (hfin H o (final_table H o udiff ops excl c noskip t1 t2)) udiff ops noskip excl c t1 t2))).
Proof.
  intros W1 W2. rewrite run_entries.
  destruct (run_diff_m_is_memo_free H o udiff ops excl c noskip t1 t2 W1 W2) as (_ & P & _).
  set (g := hfin H o (final_table H o udiff ops excl c noskip t1 t2)) in *.
  set (es_m := fst (fst (diff_m H o udiff ops noskip excl c [] t1 t2 [] []))) in *.
  assert (Hthr : thr_num c <= thr_den c) by (cbn; lia).
  assert (Rd : fst (run_diff g udiff ops noskip excl c t1 t2) = fst (diff g udiff ops noskip excl c t1 t2 [] [])).
  { unfold run_diff. pose proof (positional_mutual_id g udiff ops noskip excl c t1 t2 eq_refl Hthr W1 W2) as M.
    destruct (diff g udiff ops noskip excl c t1 t2 [] []) as [es rec]. cbn [fst] in *. exact M. }
  rewrite Rd. set (es := fst (diff g udiff ops noskip excl c t1 t2 [] [])) in *.
  pose proof (added_unresolved g udiff ops noskip excl c eq_refl t1 t1 t2 [] [] W1 eq_refl) as HA.
  pose proof (diff_faithful g udiff ops noskip excl c t1 t2 Hthr t1 t2 [] [] eq_refl W1 W2 eq_refl eq_refl) as HF.
  fold es in HA, HF.
  apply (Permutation_Forall (Permutation_sym P)) in HA. apply (Permutation_Forall (Permutation_sym P)) in HF.
  rewrite mutual_id.
  - apply Permutation_flat_map. exact P.
  - intros a r Ha Hr Ka Kr E.
    eapply Forall_forall in HA; [|exact Ha]. eapply Forall_forall in HF; [|exact Hr].
    specialize (HA Ka). unfold faithful in HF. rewrite Kr in HF. destruct HF as (x & _ & _ & Rx & _).
    rewrite E in HA. congruence.
Qed.
End PositionalNoGuard.

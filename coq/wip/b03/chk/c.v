From DD Require Import Diff.DiffMemo Hash.HashModel.
Require Import DiffMemoFinal.
Check run_diff_m_empty_sound_any.
Print Assumptions run_diff_m_empty_sound_any.
Check run_diff_m_positional_is_memo_free. Print Assumptions run_diff_m_positional_is_memo_free.
Check run_diff_m_copy_empty_any.
Check run_diff_m_faithful_any.

From DD Require Import Diff.DiffEmpty.
Check diff_empty_sound.
Check run_empty_sound.
Check IHS.

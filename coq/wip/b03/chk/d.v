From DD Require Import Diff.DiffMemoSpec.
Check run_diff_m_positional_is_spec_k.
Check run_diff_m_positional_is_spec_iff.
Check spec_k_is_spec_iff.
Check spec_k_differs_from_spec_k2.

From DD Require Diff.XuEmbed.
Set Printing Width 200.
Check XuEmbed.models_agree_run.
Check XuEmbed.agreeing_oracles_exist.
Check XuEmbed.models_agree_empty_lifted.
Check XuEmbed.models_agree_text_run.
Check XuEmbed.models_agree_spec_diff.
Check XuEmbed.emb_py_eqv.
Check XuEmbed.emb_wf.

Load PA.
Print Assumptions numbers_range.
Print Assumptions numbers_zero_causes.
Print Assumptions numbers_zero_iff_refuted.

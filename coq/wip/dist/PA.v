From Coq Require Import List ZArith NArith Bool Lia String.
From Coq Require Import PrimFloat Uint63 SpecFloat FloatOps FloatAxioms.
Import ListNotations.
From DD Require Import Base.Sx Base.PyStr Base.Value Dist.DistModel.

Local Open Scope float_scope.

(* ---------- comparisons through the specification ---------- *)
Lemma Prim2SF_zero : Prim2SF 0 = S754_zero false.
Proof. reflexivity. Qed.

Lemma SFcompare_refl : forall x, x <> S754_nan -> SFcompare x x = Some Eq.
Proof.
  intros x Hx. destruct x as [s|s| |s m e]; cbn.
  - reflexivity.
  - destruct s; reflexivity.
  - congruence.
  - destruct s; rewrite Z.compare_refl, Pos.compare_cont_refl; reflexivity.
Qed.

Lemma leb_not_nan_r : forall a b, (a <=? b) = true -> Prim2SF b <> S754_nan.
Proof.
  intros a b H. rewrite leb_spec in H. unfold SFleb in H.
  intro Hb. rewrite Hb in H. destruct (Prim2SF a); cbn in H; discriminate.
Qed.

Lemma leb_refl : forall x, Prim2SF x <> S754_nan -> (x <=? x) = true.
Proof.
  intros x H. rewrite leb_spec. unfold SFleb. rewrite SFcompare_refl by assumption. reflexivity.
Qed.

Lemma ltb_leb : forall a b, (a <? b) = true -> (a <=? b) = true.
Proof.
  intros a b. rewrite ltb_spec, leb_spec. unfold SFltb, SFleb.
  destruct (SFcompare (Prim2SF a) (Prim2SF b)) as [[| |]|]; congruence.
Qed.

Lemma abs_nonneg_of_lt : forall r b, (abs r <? b) = true -> (0 <=? abs r) = true.
Proof.
  intros r b. rewrite ltb_spec, leb_spec, abs_spec, Prim2SF_zero.
  unfold SFltb, SFleb. destruct (Prim2SF r) as [s|s| |s m e]; cbn; try reflexivity.
  destruct (Prim2SF b); cbn; discriminate.
Qed.

(* ---------- C19 numbers: range ---------- *)
Definition in_range (mx v : float) : Prop := (0 <=? v) = true /\ (v <=? mx) = true.

(* the number a result stands for; None = an exception *)
Definition dres_value (d : dres) : option float :=
  match d with DInt0 => Some 0 | DVal v => Some v | DErr _ => None end.

Lemma py_min_in_range : forall mx r, (0 <=? mx) = true -> in_range mx (py_min mx (abs r)).
Proof.
  intros mx r Hmx. unfold py_min, in_range.
  destruct (abs r <? mx) eqn:Hlt.
  - split; [eapply abs_nonneg_of_lt; eassumption | apply ltb_leb; assumption].
  - split; [assumption | apply leb_refl; eapply leb_not_nan_r; eassumption].
Qed.

(* whenever _get_numbers_distance returns, for ANY two numbers (nan, inf,
   opposite signs, overflowing sums included) and any max_ >= 0, the result
   lies in [0, max_] *)
Theorem numbers_range : forall a b mx v,
  (0 <=? mx) = true ->
  dres_value (numbers_distance a b mx) = Some v -> in_range mx v.
Proof.
  intros a b mx v Hmx. unfold numbers_distance.
  destruct (pynum_eq a b).
  - cbn. intros [= <-]. split; [reflexivity | assumption].
  - destruct (to_float a) as [x|]; [|discriminate].
    destruct (to_float b) as [y|]; [|discriminate].
    destruct (mx =? 0); [discriminate|].
    destruct ((x + y) / mx =? 0); cbn; intros [= <-].
    + split; [assumption | apply leb_refl; eapply leb_not_nan_r; eassumption].
    + apply py_min_in_range; assumption.
Qed.

(* the exceptions, exactly *)
Definition conv_ok (a : pynum) : bool := match to_float a with Some _ => true | None => false end.

Theorem numbers_error_iff : forall a b mx e,
  numbers_distance a b mx = DErr e <->
  pynum_eq a b = false /\
  ((e = EOverflow /\ (conv_ok a && conv_ok b = false)%bool) \/
   (e = EZeroDiv /\ (conv_ok a && conv_ok b = true)%bool /\ (mx =? 0) = true)).
Proof.
  intros a b mx e. unfold numbers_distance, conv_ok.
  destruct (pynum_eq a b); [split; [discriminate | intros [H _]; discriminate]|].
  destruct (to_float a) as [x|]; cbn.
  - destruct (to_float b) as [y|]; cbn.
    + destruct (mx =? 0) eqn:Hm.
      * split; [intros [= <-]; split; [reflexivity | right; auto] | intros [_ [[_ H]|[-> _]]]; [discriminate | reflexivity]].
      * destruct ((x + y) / mx =? 0); (split; [discriminate | intros [_ [[_ H]|[_ [_ H]]]]; discriminate]).
    + split; [intros [= <-]; split; [reflexivity | left; auto] | intros [_ [[-> _]|[_ [H _]]]]; [reflexivity | discriminate]].
  - split; [intros [= <-]; split; [reflexivity | left; auto] | intros [_ [[-> _]|[_ [H _]]]]; [reflexivity | discriminate]].
Qed.

(* full statement "always a number in range": refuted by the two exceptions *)
Definition numbers_total_statement : Prop :=
  forall a b mx, (0 <=? mx) = true ->
  exists v, dres_value (numbers_distance a b mx) = Some v /\ in_range mx v.

Local Open Scope Z_scope.
Theorem numbers_total_refuted_overflow :
  exists a b mx, (0 <=? mx)%float = true /\ numbers_distance a b mx = DErr EOverflow.
Proof. exists (PInt (10 ^ 400)), (PInt 1), 1%float. split; vm_compute; reflexivity. Qed.

Theorem numbers_total_refuted_zerodiv :
  exists a b mx, (0 <=? mx)%float = true /\ numbers_distance a b mx = DErr EZeroDiv.
Proof. exists (PInt 1), (PInt 2), 0%float. split; vm_compute; reflexivity. Qed.

Theorem numbers_total_refuted : ~ numbers_total_statement.
Proof.
  intro H. destruct (H (PInt 1) (PInt 2) 0%float eq_refl) as [v [Hv _]].
  vm_compute in Hv. discriminate.
Qed.
Local Close Scope Z_scope.

Theorem numbers_total_partial : forall a b mx,
  (0 <=? mx) = true ->
  (conv_ok a && conv_ok b && negb (mx =? 0))%bool = true ->
  exists v, dres_value (numbers_distance a b mx) = Some v /\ in_range mx v.
Proof.
  intros a b mx Hmx G.
  destruct (numbers_distance a b mx) as [|v|e] eqn:E.
  - exists 0. split; [reflexivity|]. eapply numbers_range; [eassumption|]. rewrite E. reflexivity.
  - exists v. split; [reflexivity|]. eapply numbers_range; [eassumption|]. rewrite E. reflexivity.
  - exfalso. apply numbers_error_iff in E. destruct E as [_ [[_ H]|[_ [_ H]]]].
    + rewrite H in G. discriminate.
    + rewrite H in G. rewrite andb_false_r in G. discriminate.
Qed.

Example numbers_total_guard_satisfiable :
  (conv_ok (PInt 2) && conv_ok (PFloat 0.5) && negb (1 =? 0))%bool = true
  /\ numbers_distance (PInt 2) (PFloat 0.5) 1 = DVal 0x1.3333333333333p-1.
Proof. split; vm_compute; reflexivity. Qed.

(* ---------- C19 numbers: zero only for equal values ---------- *)
Theorem numbers_zero_of_equal : forall a b mx,
  pynum_eq a b = true -> numbers_distance a b mx = DInt0.
Proof. intros a b mx H. unfold numbers_distance. rewrite H. reflexivity. Qed.

Definition numbers_zero_iff_statement : Prop :=
  forall a b mx v, (0 <=? mx) = true ->
  dres_value (numbers_distance a b mx) = Some v ->
  ((v =? 0) = true <-> pynum_eq a b = true).

Local Open Scope Z_scope.
(* K14: num1 + num2 overflows *)
Theorem numbers_zero_refuted_overflow :
  exists a b mx v, (0 <=? mx)%float = true /\ pynum_eq a b = false /\
                   numbers_distance a b mx = DVal v /\ (v =? 0)%float = true.
Proof.
  exists (PFloat (SF2Prim (S754_finite false 5012531111497380 971))),   (* 1e308 *)
         (PFloat (SF2Prim (S754_finite false 8521302889545546 971))),   (* 1.7e308 *)
         1%float, 0%float.
  repeat split; vm_compute; reflexivity.
Qed.
(* K14b: float(2**53) == float(2**53 + 1) *)
Theorem numbers_zero_refuted_collapse :
  exists a b mx v, (0 <=? mx)%float = true /\ pynum_eq a b = false /\
                   numbers_distance a b mx = DVal v /\ (v =? 0)%float = true.
Proof.
  exists (PInt (2 ^ 53)), (PInt (2 ^ 53 + 1)), 1%float, 0%float.
  repeat split; vm_compute; reflexivity.
Qed.
(* K14c: the quotient underflows: 5e-324, 1e-323, max_ = 5e-324 *)
Theorem numbers_zero_refuted_underflow :
  exists a b mx v, (0 <=? mx)%float = true /\ pynum_eq a b = false /\
                   numbers_distance a b mx = DVal v /\ (v =? 0)%float = true.
Proof.
  exists (PFloat (SF2Prim (S754_finite false 1 (-1074)))), (PFloat (SF2Prim (S754_finite false 2 (-1074)))),
         (SF2Prim (S754_finite false 1 (-1074))), 0%float.
  repeat split; vm_compute; reflexivity.
Qed.

Theorem numbers_zero_iff_refuted : ~ numbers_zero_iff_statement.
Proof.
  intro H.
  specialize (H (PInt (2 ^ 53)) (PInt (2 ^ 53 + 1)) 1%float 0%float eq_refl).
  assert (E : dres_value (numbers_distance (PInt (2 ^ 53)) (PInt (2 ^ 53 + 1)) 1) = Some 0%float)
    by (vm_compute; reflexivity).
  destruct (H E) as [H1 _]. specialize (H1 eq_refl). vm_compute in H1. discriminate.
Qed.
Local Close Scope Z_scope.

Definition sf_is_zero (s : spec_float) : bool := match s with S754_zero _ => true | _ => false end.
Definition sf_is_finite (s : spec_float) : bool := match s with S754_finite _ _ _ => true | _ => false end.

Lemma eqb_zero_sf : forall v, (v =? 0) = true -> sf_is_zero (Prim2SF v) = true.
Proof.
  intros v. rewrite eqb_spec, Prim2SF_zero. unfold SFeqb.
  destruct (Prim2SF v) as [s|s| |s m e]; cbn; try reflexivity; try discriminate;
    destruct s; discriminate.
Qed.

Lemma abs_zero_sf : forall q, sf_is_zero (Prim2SF (abs q)) = true -> sf_is_zero (Prim2SF q) = true.
Proof. intros q. rewrite abs_spec. destruct (Prim2SF q); cbn; congruence. Qed.

(* what a zero distance between different numbers means: the quotient
   (x - y) / divisor is a signed zero, and by the IEEE division table that
   happens in exactly three ways, each of which occurs (the three refutations
   above): the converted numbers are equal as floats, the divisor overflowed to
   infinity, or a finite quotient underflowed. *)
Theorem numbers_zero_causes : forall a b mx x y v,
  pynum_eq a b = false ->
  to_float a = Some x -> to_float b = Some y ->
  numbers_distance a b mx = DVal v -> (v =? 0) = true ->
  let d := (x + y) / mx in
  sf_is_zero (Prim2SF ((x - y) / d)) = true /\
  (sf_is_zero (Prim2SF (x - y)) = true \/
   is_inf_sf (Prim2SF d) = true \/
   (sf_is_finite (Prim2SF (x - y)) && sf_is_finite (Prim2SF d))%bool = true).
Proof.
  intros a b mx x y v Hne Hx Hy. unfold numbers_distance. rewrite Hne, Hx, Hy.
  destruct (mx =? 0) eqn:Hm; [discriminate|].
  destruct ((x + y) / mx =? 0) eqn:Hd.
  - intros [= <-] Hv. rewrite Hv in Hm. discriminate.
  - unfold py_min. destruct (abs ((x - y) / ((x + y) / mx)) <? mx) eqn:Hlt.
    2:{ intros [= <-] Hv. rewrite Hv in Hm. discriminate. }
    intros [= <-] Hv. cbn zeta.
    apply eqb_zero_sf in Hv. apply abs_zero_sf in Hv.
    split; [assumption|].
    rewrite div_spec in Hv. unfold SF64div, SFdiv in Hv.
    assert (Hd' : sf_is_zero (Prim2SF ((x + y) / mx)) = false).
    { rewrite eqb_spec, Prim2SF_zero in Hd. unfold SFeqb in Hd.
      destruct (Prim2SF ((x + y) / mx)) as [s|s| |s m e]; cbn in *; congruence. }
    destruct (Prim2SF (x - y)) as [s1|s1| |s1 m1 e1];
      destruct (Prim2SF ((x + y) / mx)) as [s2|s2| |s2 m2 e2]; cbn in *;
      try discriminate; auto.
Qed.

From Coq Require Import List ZArith NArith Bool Lia.
From Coq Require Import PrimFloat Uint63 SpecFloat FloatOps FloatAxioms.
Import ListNotations.
From DD Require Import Base.Sx Base.PyStr Base.Value Dist.DistModel.

Local Open Scope float_scope.

(* ---------- comparisons through the specification ---------- *)
Lemma Prim2SF_zero : Prim2SF 0 = S754_zero false.
Proof. reflexivity. Qed.

Lemma SFcompare_refl : forall x, x <> S754_nan -> SFcompare x x = Some Eq.
Proof.
  intros x Hx. destruct x as [s|s| |s m e]; cbn.
  - reflexivity.
  - destruct s; reflexivity.
  - congruence.
  - destruct s; rewrite Z.compare_refl, Pos.compare_cont_refl; reflexivity.
Qed.

Lemma leb_not_nan_r : forall a b, (a <=? b) = true -> Prim2SF b <> S754_nan.
Proof.
  intros a b H. rewrite leb_spec in H. unfold SFleb in H.
  intro Hb. rewrite Hb in H. destruct (Prim2SF a); cbn in H; discriminate.
Qed.

Lemma leb_refl : forall x, Prim2SF x <> S754_nan -> (x <=? x) = true.
Proof.
  intros x H. rewrite leb_spec. unfold SFleb. rewrite SFcompare_refl by assumption. reflexivity.
Qed.

Lemma ltb_leb : forall a b, (a <? b) = true -> (a <=? b) = true.
Proof.
  intros a b. rewrite ltb_spec, leb_spec. unfold SFltb, SFleb.
  destruct (SFcompare (Prim2SF a) (Prim2SF b)) as [[| |]|]; congruence.
Qed.

Lemma abs_nonneg_of_lt : forall r b, (abs r <? b) = true -> (0 <=? abs r) = true.
Proof.
  intros r b. rewrite ltb_spec, leb_spec, abs_spec, Prim2SF_zero.
  unfold SFltb, SFleb. destruct (Prim2SF r) as [s|s| |s m e]; cbn; try reflexivity.
  destruct (Prim2SF b); cbn; discriminate.
Qed.

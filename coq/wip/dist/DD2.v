From Coq Require Import List ZArith NArith Bool Lia Arith String.
Import ListNotations.
From DD Require Import Base.PyStr Base.Value Base.ValueFacts Path.PathModel Diff.Tree Diff.DiffModel.
From DD Require Import Dist.DistModel Dist.DistProofs Dist.DistDiffModel.

Definition we (e : entry) : nat := cnt_o (et1 e) + cnt_o (et2 e).

Lemma render_key_ok p : path_key_ok (render p) = true.
Proof.
  unfold path_key_ok, render, root_str.
  generalize (flat_map render_key p). intros r. reflexivity.
Qed.

Lemma len_vdv o : lle (item_length (vdv o)) (cnt_o o).
Proof.
  destruct o as [v|]; cbn [vdv cnt_o].
  - intros n H. apply item_length_le_count. exact H.
  - cbn. apply lle_ok. lia.
Qed.

Section B.
Variable incl : value -> value -> bool.
Variable rec : list path.

Lemma np_len e r : map_len item_length (np e ++ r) = ladd (LOk 0) (map_len item_length r) \/
                   map_len item_length (np e ++ r) = map_len item_length r.
Proof.
  unfold np. destruct (pystr_eqb _ _); cbn [app]; [right; reflexivity|left].
  rewrite (map_len_skip _ (KStr k_new_path)) by reflexivity. reflexivity.
Qed.

Lemma sel_bound k e d : tc_ok incl e = true -> sel incl rec k e = Some d -> lle (item_length d) (we e).
Proof.
  intros G. unfold sel. destruct (rkind_eqb (ekind e) k) eqn:K; cbn [negb]; [|discriminate].
  pose proof (len_vdv (et1 e)) as L1. pose proof (len_vdv (et2 e)) as L2. unfold we.
  destruct k; try discriminate.
  - (* type change *)
    assert (Ek : ekind e = KType) by (destruct (ekind e); try discriminate K; reflexivity).
    intros [= <-] n H. cbn [item_length app] in H.
    rewrite (map_len_plain _ (KStr k_old_type)) in H by reflexivity.
    rewrite (map_len_plain _ (KStr k_new_type)) in H by reflexivity.
    cbn [item_length] in H.
    apply ladd_ok in H. destruct H as [x1 [y1 [Hx1 [H ->]]]]. injection Hx1 as <-.
    apply ladd_ok in H. destruct H as [x2 [y2 [Hx2 [H ->]]]]. injection Hx2 as <-.
    assert (Hrest : exists z, map_len item_length (if incl_e incl e then [(KStr k_new_value, 0, vdv (et2 e))] else []) = LOk z /\ y2 = z).
    { destruct (np_len e (if incl_e incl e then [(KStr k_new_value, 0, vdv (et2 e))] else [])) as [E|E]; rewrite E in H.
      - apply ladd_ok in H. destruct H as [a [b [Ha [Hb ->]]]]. injection Ha as <-. exists b. split; [exact Hb | lia].
      - exists y2. split; [exact H | reflexivity]. }
    destruct Hrest as [z [Hz ->]].
    unfold tc_ok in G. rewrite Ek in G. unfold incl_e in Hz.
    destruct (et1 e) as [a|] eqn:E1; destruct (et2 e) as [b|] eqn:E2; cbn [cnt_o vdv] in *.
    + destruct (incl a b).
      * rewrite (map_len_plain _ (KStr k_new_value)) in Hz by reflexivity. cbn [map_len] in Hz.
        apply ladd_ok in Hz. destruct Hz as [l [y [Hl [Hy ->]]]]. injection Hy as <-.
        rewrite Hl in G. apply Nat.leb_le in G. lia.
      * cbn in Hz. injection Hz as <-. apply Nat.leb_le in G. lia.
    + rewrite (map_len_plain _ (KStr k_new_value)) in Hz by reflexivity. cbn in Hz. injection Hz as <-.
      pose proof (count_pos a). lia.
    + rewrite (map_len_plain _ (KStr k_new_value)) in Hz by reflexivity. cbn [map_len] in Hz.
      apply ladd_ok in Hz. destruct Hz as [l [y [Hl [Hy ->]]]]. injection Hy as <-.
      specialize (L2 l Hl). pose proof (count_pos b).
      (* a type change always has both values; kept for totality: 2 + l <= count b needs l < count b *)
      admit.
    + rewrite (map_len_plain _ (KStr k_new_value)) in Hz by reflexivity. cbn in Hz. injection Hz as <-. admit.
  - admit.
  - admit.
  - admit.
  - admit.
  - admit.
  - admit.
  - admit.
  - admit.
Admitted.
End B.

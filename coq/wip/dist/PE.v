From Coq Require Import List ZArith NArith Bool Lia Arith String.
From Coq Require Import PrimFloat Uint63 SpecFloat FloatOps FloatAxioms.
Import ListNotations.
From DD Require Import Base.Sx Base.PyStr Base.Value Dist.DistModel Dist.DistProofs.
Local Open Scope Z_scope.

(* ---------- digits ---------- *)
Lemma digits2_bounds : forall p, 2 ^ (Zpos (digits2_pos p) - 1) <= Zpos p < 2 ^ Zpos (digits2_pos p).
Proof.
  induction p as [p IH|p IH|]; cbn [digits2_pos].
  - rewrite Pos2Z.inj_succ. replace (Z.succ (Zpos (digits2_pos p)) - 1) with (Z.succ (Zpos (digits2_pos p) - 1)) by lia.
    rewrite !Z.pow_succ_r by lia. lia.
  - rewrite Pos2Z.inj_succ. replace (Z.succ (Zpos (digits2_pos p)) - 1) with (Z.succ (Zpos (digits2_pos p) - 1)) by lia.
    rewrite !Z.pow_succ_r by lia. lia.
  - cbn. lia.
Qed.

Lemma digits_ge : forall p k, 0 <= k -> 2 ^ k <= Zpos p -> k + 1 <= Zpos (digits2_pos p).
Proof.
  intros p k Hk H. destruct (digits2_bounds p) as [_ Hu].
  destruct (Z_lt_le_dec (Zpos (digits2_pos p)) (k + 1)) as [Hlt|]; [|assumption].
  exfalso. assert (2 ^ Zpos (digits2_pos p) <= 2 ^ k) by (apply Z.pow_le_mono_r; lia). lia.
Qed.

(* ---------- shifting right ---------- *)
Lemma shr_1_m : forall mrs, 0 <= shr_m mrs -> shr_m (shr_1 mrs) = Z.div2 (shr_m mrs).
Proof.
  intros [m r s] H. cbn in *. destruct m as [|p|p]; [reflexivity| |lia].
  destruct p; reflexivity.
Qed.

Lemma shr_1_nonneg : forall mrs, 0 <= shr_m mrs -> 0 <= shr_m (shr_1 mrs).
Proof. intros mrs H. rewrite shr_1_m by assumption. apply Z.div2_nonneg. assumption. Qed.

Lemma div2_pow : forall m j, 0 <= j -> 2 ^ (1 + j) <= m -> 2 ^ j <= Z.div2 m.
Proof.
  intros m j Hj H. rewrite Z.div2_div. apply Z.div_le_lower_bound; [lia|].
  rewrite Z.pow_add_r in H by lia. rewrite Z.pow_1_r in H. lia.
Qed.

Lemma iter_shr_ge : forall n mrs j, 0 <= j -> 2 ^ (Zpos n + j) <= shr_m mrs ->
  2 ^ j <= shr_m (iter_pos shr_1 n mrs).
Proof.
  induction n as [n IH|n IH|]; intros mrs j Hj H; cbn [iter_pos].
  - assert (Hm : 0 <= shr_m mrs) by (pose proof (Z.pow_pos_nonneg 2 (Zpos n~1 + j)); lia).
    apply IH; [assumption|]. apply IH; [lia|].
    rewrite shr_1_m by assumption. apply div2_pow; [lia|].
    replace (1 + (Zpos n + (Zpos n + j))) with (Zpos n~1 + j) by lia. assumption.
  - apply IH; [assumption|]. apply IH; [lia|].
    replace (Zpos n + (Zpos n + j)) with (Zpos n~0 + j) by lia. assumption.
  - assert (Hm : 0 <= shr_m mrs) by (pose proof (Z.pow_pos_nonneg 2 (1 + j)); lia).
    rewrite shr_1_m by assumption. apply div2_pow; assumption.
Qed.

Lemma shr_record_m : forall m l, shr_m (shr_record_of_loc m l) = m.
Proof. intros m [|[| |]]; reflexivity. Qed.

Lemma round_ge : forall m l, m <= round_nearest_even m l.
Proof. intros m [|[| |]]; cbn; try lia. destruct (Z.even m); lia. Qed.

(* shr_fexp keeps a mantissa m >= 2^j (j >= 1) with digits + e >= emin + 2 above 2^(j') for a j' >= 0 ... the form we need:
   the result is >= 1, and >= 2 when asked for with one more digit of room *)
Lemma shr_fexp_pos : forall p e l room,
  (room = 0 \/ room = 1) ->
  emin + 1 + room <= Zpos (digits2_pos p) + e ->
  1 + room <= Zpos (digits2_pos p) ->
  let '(mrs, e') := shr_fexp prec emax (Zpos p) e l in
  2 ^ room <= shr_m mrs /\ ((e' = e /\ shr_m mrs = Zpos p) \/ emin <= e').
Proof.
  intros p e l room Hroom HD Hd. unfold shr_fexp, shr. cbn [Zdigits2].
  set (d := Zpos (digits2_pos p)) in *.
  destruct (digits2_bounds p) as [Hlo _]. fold d in Hlo.
  destruct (fexp prec emax (d + e) - e) as [|n|n] eqn:En.
  - rewrite shr_record_m. split; [|left; split; reflexivity].
    assert (2 ^ room <= 2 ^ (d - 1)) by (apply Z.pow_le_mono_r; lia). lia.
  - split.
    + apply iter_shr_ge; [lia|]. rewrite shr_record_m.
      assert (Zpos n + room <= d - 1).
      { unfold fexp, FloatOps.prec, FloatOps.emax, SpecFloat.emin in *. lia. }
      assert (2 ^ (Zpos n + room) <= 2 ^ (d - 1)) by (apply Z.pow_le_mono_r; lia). lia.
    + right. unfold fexp, SpecFloat.emin in *. lia.
  - rewrite shr_record_m. split; [|left; split; reflexivity].
    assert (2 ^ room <= 2 ^ (d - 1)) by (apply Z.pow_le_mono_r; lia). lia.
Qed.

Lemma binary_round_aux_nonzero : forall s p e l,
  emin + 2 <= Zpos (digits2_pos p) + e -> 2 <= Zpos (digits2_pos p) ->
  sf_is_zero (binary_round_aux prec emax s (Zpos p) e l) = false.
Proof.
  intros s p e l HD Hd. unfold binary_round_aux.
  pose proof (shr_fexp_pos p e l 1 (or_intror eq_refl)) as H1.
  destruct (shr_fexp prec emax (Zpos p) e l) as [mrs' e'].
  destruct H1 as [Hm He]; [lia | lia |].
  pose proof (round_ge (shr_m mrs') (loc_of_shr_record mrs')) as Hr.
  destruct (round_nearest_even (shr_m mrs') (loc_of_shr_record mrs')) as [|p2|p2] eqn:E2;
    [change (2 ^ 1) with 2 in Hm; lia | | change (2 ^ 1) with 2 in Hm; lia].
  change (2 ^ 1) with 2 in Hm.
  assert (Hd2 : 2 <= Zpos (digits2_pos p2)) by (apply (digits_ge p2 1); [lia | change (2 ^ 1) with 2; lia]).
  assert (HD2 : emin + 1 <= Zpos (digits2_pos p2) + e').
  { destruct He as [[-> Hs]|He]; [|lia].
    destruct (digits2_bounds p) as [Hlo _].
    assert (Zpos (digits2_pos p) - 1 + 1 <= Zpos (digits2_pos p2)) by (apply digits_ge; lia). lia. }
  pose proof (shr_fexp_pos p2 e' loc_Exact 0 (or_introl eq_refl)) as H2.
  destruct (shr_fexp prec emax (Zpos p2) e' loc_Exact) as [mrs'' e''].
  destruct H2 as [Hm2 _]; [lia | lia |].
  change (2 ^ 0) with 1 in Hm2.
  destruct (shr_m mrs'') as [|q|q]; [lia | | reflexivity].
  destruct (Zle_bool e'' (emax - prec)); reflexivity.
Qed.

Lemma div_core_bounds : forall m1 e1 m2 e2 q e' l,
  emin + 2 <= (Zpos (digits2_pos m1) + e1) - (Zpos (digits2_pos m2) + e2) ->
  SFdiv_core_binary prec emax (Zpos m1) e1 (Zpos m2) e2 = (q, e', l) ->
  exists pq, q = Zpos pq /\ emin + 2 <= Zpos (digits2_pos pq) + e' /\ 2 <= Zpos (digits2_pos pq).
Proof.
  intros m1 e1 m2 e2 q e' l HM. unfold SFdiv_core_binary. cbn [Zdigits2].
  set (d1 := Zpos (digits2_pos m1)) in *. set (d2 := Zpos (digits2_pos m2)) in *.
  set (M := d1 + e1 - (d2 + e2)).
  set (ee := Z.min (fexp prec emax M) (e1 - e2)).
  set (s := e1 - e2 - ee).
  assert (Hs : 0 <= s) by (unfold s, ee; lia).
  set (k := M - 1 - ee).
  assert (Hk : 1 <= k).
  { unfold k, ee, fexp, FloatOps.prec, FloatOps.emax, SpecFloat.emin in *. fold M in HM. lia. }
  assert (Hks : d1 - 1 + s = k + d2) by (unfold k, s, M; lia).
  set (m' := match s with Z.pos _ => Z.shiftl (Z.pos m1) s | 0 => Z.pos m1 | Z.neg _ => 0 end).
  assert (Hm' : m' = Zpos m1 * 2 ^ s).
  { unfold m'. destruct s as [|ps|ps] eqn:Es; [cbn; lia | apply Z.shiftl_mul_pow2; lia | lia]. }
  pose proof (Z_div_mod m' (Zpos m2) eq_refl) as Hdm.
  destruct (Z.div_eucl m' (Z.pos m2)) as [q0 r0].
  destruct Hdm as [Heq Hr].
  intros [= <- <- <-].
  destruct (digits2_bounds m1) as [Hlo1 _]. destruct (digits2_bounds m2) as [_ Hhi2]. fold d1 in Hlo1. fold d2 in Hhi2.
  assert (Hpow : 2 ^ k * 2 ^ d2 <= m').
  { rewrite Hm'. rewrite <- Z.pow_add_r by (unfold d2; lia). rewrite <- Hks.
    rewrite Z.pow_add_r by (unfold d1; lia). apply Z.mul_le_mono_nonneg_r; [apply Z.pow_nonneg; lia | assumption]. }
  assert (Hk2 : 0 < 2 ^ k) by (apply Z.pow_pos_nonneg; lia).
  assert (Hq : 2 ^ k <= q0).
  { destruct (Z_lt_le_dec q0 (2 ^ k)) as [Hlt|]; [|assumption]. exfalso.
    assert (Zpos m2 * q0 + r0 < Zpos m2 * 2 ^ k).
    { assert (Zpos m2 * (q0 + 1) <= Zpos m2 * 2 ^ k) by (apply Z.mul_le_mono_nonneg_l; lia). lia. }
    assert (Zpos m2 * 2 ^ k < 2 ^ d2 * 2 ^ k) by (apply Z.mul_lt_mono_pos_r; lia).
    lia. }
  assert (H2k : 2 <= 2 ^ k).
  { change 2 with (2 ^ 1) at 1. apply Z.pow_le_mono_r; lia. }
  destruct q0 as [|pq|pq]; try lia.
  exists pq. split; [reflexivity|].
  assert (k + 1 <= Zpos (digits2_pos pq)) by (apply digits_ge; lia).
  split; [|lia]. unfold k, M in *. fold ee. lia.
Qed.

Definition sf_mag (s : spec_float) : Z :=
  match s with S754_finite _ m e => Zpos (digits2_pos m) + e | _ => 0 end.

Lemma SFdiv_nonzero : forall u d,
  sf_is_finite u = true -> sf_is_finite d = true ->
  emin + 2 <= sf_mag u - sf_mag d ->
  sf_is_zero (SFdiv prec emax u d) = false.
Proof.
  intros [| | |su mu eu] [| | |sd md ed]; try discriminate. intros _ _ HM. cbn [sf_mag] in HM.
  unfold SFdiv.
  destruct (SFdiv_core_binary prec emax (Zpos mu) eu (Zpos md) ed) as [[q e'] l] eqn:E.
  destruct (div_core_bounds _ _ _ _ _ _ _ HM E) as [pq [-> [H1 H2]]].
  apply binary_round_aux_nonzero; assumption.
Qed.

(* the guard: the difference is a finite non-zero float, the divisor is finite
   (num1 + num2 and its quotient by max_ did not overflow, and is not 0), and the
   quotient's magnitude is at least 2^(emin+1) (no underflow) *)
Definition zero_guard (x y mx : float) : bool :=
  let u := Prim2SF (x - y)%float in
  let d := Prim2SF ((x + y) / mx)%float in
  sf_is_finite u && sf_is_finite d && (emin + 2 <=? sf_mag u - sf_mag d).

Theorem numbers_zero_guarded : forall a b mx x y v,
  pynum_eq a b = false ->
  to_float a = Some x -> to_float b = Some y ->
  zero_guard x y mx = true ->
  numbers_distance a b mx = DVal v -> (v =? 0)%float = false.
Proof.
  intros a b mx x y v Hne Hx Hy G Hv.
  destruct (v =? 0)%float eqn:E; [|reflexivity]. exfalso.
  destruct (numbers_zero_causes a b mx x y v Hne Hx Hy Hv E) as [Hz _]. cbn zeta in Hz.
  unfold zero_guard in G. apply andb_prop in G. destruct G as [G G3]. apply andb_prop in G. destruct G as [G1 G2].
  apply Z.leb_le in G3.
  rewrite div_spec in Hz. unfold SF64div in Hz.
  rewrite (SFdiv_nonzero _ _ G1 G2 G3) in Hz. discriminate.
Qed.

Example zero_guard_satisfiable :
  zero_guard 2 0.5 1 = true /\ zero_guard 0x1.199999999999ap+0 0x1.3333333333333p+0 0x1.3333333333333p-2 = true.
Proof. split; vm_compute; reflexivity. Qed.

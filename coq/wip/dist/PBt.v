From Coq Require Import List ZArith NArith Bool Lia Arith.
From Coq Require Import PrimFloat.
Import ListNotations.
From DD Require Import Base.Sx Base.PyStr Base.Value Dist.DistModel.

(* ---------- induction over values ---------- *)
Section ValueInd.
  Variable P : value -> Prop.
  Hypothesis HA : forall a, P (VAtom a).
  Hypothesis HL : forall xs, Forall P xs -> P (VList xs).
  Hypothesis HT : forall xs, Forall P xs -> P (VTuple xs).
  Hypothesis HD : forall kvs, Forall (fun kv => P (snd kv)) kvs -> P (VDict kvs).
  Hypothesis HS : forall xs, P (VSet xs).
  Hypothesis HF : forall xs, P (VFrozen xs).
  Fixpoint value_ind2 (v : value) : P v :=
    match v with
    | VAtom a => HA a
    | VList xs => HL xs ((fix go (xs : list value) : Forall P xs :=
                            match xs with [] => Forall_nil _ | x :: r => Forall_cons _ (value_ind2 x) (go r) end) xs)
    | VTuple xs => HT xs ((fix go (xs : list value) : Forall P xs :=
                            match xs with [] => Forall_nil _ | x :: r => Forall_cons _ (value_ind2 x) (go r) end) xs)
    | VDict kvs => HD kvs ((fix go (kvs : list (atom * value)) : Forall (fun kv => P (snd kv)) kvs :=
                            match kvs with [] => Forall_nil _ | kv :: r => Forall_cons _ (value_ind2 (snd kv)) (go r) end) kvs)
    | VSet xs => HS xs
    | VFrozen xs => HF xs
    end.
End ValueInd.

(* ---------- lres bounds ---------- *)
Definition lle (l : lres) (b : nat) : Prop := forall n, l = LOk n -> n <= b.

Lemma ladd_ok : forall a b n, ladd a b = LOk n -> exists x y, a = LOk x /\ b = LOk y /\ n = x + y.
Proof.
  intros [x|e] [y|e'] n H; cbn in H; try discriminate.
  injection H as <-. eauto.
Qed.
Lemma lle_ladd : forall a b x y, lle a x -> lle b y -> lle (ladd a b) (x + y).
Proof.
  intros a b x y Ha Hb n H. apply ladd_ok in H. destruct H as [p [q [-> [-> ->]]]].
  specialize (Ha p eq_refl). specialize (Hb q eq_refl). lia.
Qed.
Lemma lle_err : forall e b, lle (LErr e) b.
Proof. intros e b n H. discriminate. Qed.
Lemma lle_ok : forall n b, n <= b -> lle (LOk n) b.
Proof. intros n b H m [= <-]. assumption. Qed.
Lemma lle_weaken : forall l a b, lle l a -> a <= b -> lle l b.
Proof. intros l a b H Hab n E. specialize (H n E). lia. Qed.

(* ---------- keys ---------- *)
Lemma private_key_skipped : forall k, private_key k = true ->
  is_dedupe_key (dkey_of_atom k) = false /\ key_skip (dkey_of_atom k) = Some true.
Proof.
  intros k H. destruct k as [| | | |s|]; try discriminate.
  destruct s as [|c1 [|c2 r]]; try discriminate. cbn in H.
  apply andb_prop in H. destruct H as [H1 H2].
  apply N.eqb_eq in H1. apply N.eqb_eq in H2. subst c1 c2.
  split; reflexivity.
Qed.

(* ---------- P1: operations of a reported value <= its item length ---------- *)
Definition dict_weight (kv : atom * value) : nat :=
  if private_key (fst kv) then 1 else S (count (snd kv)).
Definition dv_entry (kv : atom * value) : dkey * nat * dv :=
  (dkey_of_atom (fst kv), O, dv_of_value (snd kv)).

Lemma count_dict : forall kvs, count (VDict kvs) = S (fold_right (fun kv n => dict_weight kv + n) 0 kvs).
Proof. reflexivity. Qed.

Definition as_idx (seen : list nat) (d : dv) : lres :=
  match d with DMap ents => idx_len item_length seen ents | _ => LErr EAttr end.

Definition len3 (v : value) : Prop :=
  lle (item_length (dv_of_value v)) (count v)
  /\ lle (dedupe_len item_length (dv_of_value v)) (count v)
  /\ forall seen, lle (as_idx seen (dv_of_value v)) (count v).

Lemma len3_atom : forall a, len3 (VAtom a).
Proof.
  intros a. repeat split.
  - destruct a; cbn; apply lle_ok; lia.
  - destruct a; cbn; apply lle_err.
  - intros seen. destruct a; cbn; apply lle_err.
Qed.

Lemma seq_len_values : forall xs, Forall len3 xs ->
  lle (seq_len item_length (map dv_of_value xs)) (fold_right (fun x n => count x + n) 0 xs).
Proof.
  induction 1 as [|x r Hx _ IH]; cbn.
  - apply lle_ok. lia.
  - apply lle_ladd; [apply Hx | apply IH].
Qed.

Lemma len3_seq : forall xs, Forall len3 xs ->
  forall v, (v = VList xs \/ v = VTuple xs) -> len3 v.
Proof.
  intros xs H v Hv. repeat split.
  - destruct Hv as [-> | ->]; cbn [dv_of_value item_length count];
      (eapply lle_weaken; [apply seq_len_values; assumption | lia]).
  - destruct Hv as [-> | ->]; cbn; apply lle_err.
  - intros seen. destruct Hv as [-> | ->]; cbn; apply lle_err.
Qed.

Lemma seq_len_atoms : forall xs, lle (seq_len item_length (map dv_of_atom xs)) (List.length xs).
Proof.
  induction xs as [|a r IH]; cbn.
  - apply lle_ok; lia.
  - change (S (List.length r)) with (1 + List.length r). apply lle_ladd; [|apply IH].
    destruct a; cbn; apply lle_ok; lia.
Qed.

Lemma len3_atoms : forall xs v, (v = VSet xs \/ v = VFrozen xs) -> len3 v.
Proof.
  intros xs v Hv. pose proof (seq_len_atoms xs) as H.
  repeat split.
  - destruct Hv as [-> | ->]; cbn [dv_of_value item_length count]; (eapply lle_weaken; [apply H | lia]).
  - destruct Hv as [-> | ->]; cbn; apply lle_err.
  - intros seen. destruct Hv as [-> | ->]; cbn; apply lle_err.
Qed.

Definition dict_sum (kvs : list (atom * value)) : nat := fold_right (fun kv n => dict_weight kv + n) 0 kvs.

Lemma dict_map_len : forall kvs, Forall (fun kv => len3 (snd kv)) kvs ->
  lle (map_len item_length (map dv_entry kvs)) (dict_sum kvs).
Proof.
  induction 1 as [|[k v] r Hkv _ IH]; unfold dict_sum; cbn [map fold_right map_len dv_entry fst snd].
  - apply lle_ok; lia.
  - apply lle_ladd; [|apply IH]. unfold dict_weight; cbn [fst snd].
    destruct (private_key k) eqn:Hp.
    + destruct (private_key_skipped k Hp) as [-> ->]. apply lle_ok; lia.
    + destruct Hkv as [H1 [H2 _]]. cbn [snd] in *.
      destruct (is_dedupe_key (dkey_of_atom k)).
      * eapply lle_weaken; [apply H2 | lia].
      * destruct (key_skip (dkey_of_atom k)) as [[|]|]; [apply lle_ok; lia | | apply lle_err].
        eapply lle_weaken; [apply H1 | lia].
Qed.

Lemma dict_paths_len : forall kvs, Forall (fun kv => len3 (snd kv)) kvs ->
  lle (paths_len item_length (map dv_entry kvs)) (dict_sum kvs).
Proof.
  induction 1 as [|[k v] r Hkv _ IH]; unfold dict_sum; cbn [map fold_right paths_len dv_entry fst snd].
  - apply lle_ok; lia.
  - apply lle_ladd; [|apply IH]. unfold dict_weight; cbn [fst snd].
    destruct (private_key k) eqn:Hp.
    + destruct (private_key_skipped k Hp) as [-> ->]. apply lle_ok; lia.
    + destruct Hkv as [_ [_ H3]]. cbn [snd] in *.
      destruct (is_dedupe_key (dkey_of_atom k)); [apply lle_err|].
      destruct (key_skip (dkey_of_atom k)) as [[|]|]; [apply lle_ok; lia | | apply lle_err].
      eapply lle_weaken; [apply (H3 []) | lia].
Qed.

Lemma dict_idx_len : forall kvs, Forall (fun kv => len3 (snd kv)) kvs ->
  forall seen, lle (idx_len item_length seen (map dv_entry kvs)) (dict_sum kvs).
Proof.
  induction 1 as [|[k v] r Hkv _ IH]; intros seen; unfold dict_sum; cbn [map fold_right idx_len dv_entry fst snd].
  - apply lle_ok; lia.
  - destruct (existsb (Nat.eqb 0) seen).
    + eapply lle_weaken; [apply IH | unfold dict_sum; lia].
    + apply lle_ladd; [|apply IH]. unfold dict_weight, entry_len; cbn [fst snd].
      destruct (private_key k) eqn:Hp.
      * destruct (private_key_skipped k Hp) as [-> ->]. apply lle_ok; lia.
      * destruct Hkv as [H1 _]. cbn [snd] in *.
        destruct (is_dedupe_key (dkey_of_atom k)); [apply lle_err|].
        destruct (key_skip (dkey_of_atom k)) as [[|]|]; [apply lle_ok; lia | | apply lle_err].
        eapply lle_weaken; [apply H1 | lia].
Qed.

Lemma len3_dict : forall kvs, Forall (fun kv => len3 (snd kv)) kvs -> len3 (VDict kvs).
Proof.
  intros kvs H. unfold len3.
  change (dv_of_value (VDict kvs)) with (DMap (map dv_entry kvs)).
  rewrite count_dict. fold (dict_sum kvs). repeat split.
  - cbn [item_length]. eapply lle_weaken; [apply dict_map_len; assumption | lia].
  - cbn [dedupe_len]. destruct (forallb _ _); [|apply lle_err].
    eapply lle_weaken; [apply dict_paths_len; assumption | lia].
  - intros seen. cbn [as_idx]. eapply lle_weaken; [apply dict_idx_len; assumption | lia].
Qed.

Lemma len3_all : forall v, len3 v.
Proof.
  apply value_ind2.
  - apply len3_atom.
  - intros xs H. eapply len3_seq; eauto.
  - intros xs H. eapply len3_seq; eauto.
  - apply len3_dict.
  - intros xs. eapply len3_atoms; eauto.
  - intros xs. eapply len3_atoms; eauto.
Qed.

Theorem item_length_le_count : forall v n,
  item_length (dv_of_value v) = LOk n -> n <= count v.
Proof. intros v n H. destruct (len3_all v) as [Ha _]. apply Ha. assumption. Qed.

(* ---------- P2: disjoint positions carve disjoint parts of the item length ---------- *)
Definition sumcnt (t : value) (P : list ipath) : nat := fold_right (fun p n => cnt t p + n) 0 P.

Lemma sumcnt_app : forall t a b, sumcnt t (a ++ b) = sumcnt t a + sumcnt t b.
Proof. induction a as [|p a IH]; intros b; [reflexivity|]. cbn [app]. unfold sumcnt in *. cbn [fold_right]. rewrite IH. lia. Qed.

Definition kcnt (k : option value) (r : ipath) : nat :=
  match k with Some c => cnt c r | None => 0 end.
Definition cntK (ks : list (option value)) (p : ipath) : nat :=
  match p with
  | [] => 0
  | i :: r => match nth_error ks i with Some k => kcnt k r | None => 0 end
  end.
Definition wsum (ks : list (option value)) : nat :=
  fold_right (fun k n => match k with Some c => count c | None => 0 end + n) 0 ks.

Lemma cnt_cons : forall t i r, cnt t (i :: r) = cntK (kids t) (i :: r).
Proof.
  intros t i r. unfold cnt, cntK, kcnt. cbn [resolve]. unfold child.
  destruct (nth_error (kids t) i) as [[c|]|]; reflexivity.
Qed.

Definition heads0 (P : list ipath) : list ipath :=
  flat_map (fun p => match p with O :: r => [r] | _ => [] end) P.
Definition shiftd (P : list ipath) : list ipath :=
  flat_map (fun p => match p with S j :: r => [j :: r] | _ => [] end) P.

Lemma heads0_cons : forall p P, heads0 (p :: P) = (match p with O :: r => [r] | _ => [] end) ++ heads0 P.
Proof. reflexivity. Qed.
Lemma shiftd_cons : forall p P, shiftd (p :: P) = (match p with S j :: r => [j :: r] | _ => [] end) ++ shiftd P.
Proof. reflexivity. Qed.

Lemma comparable_cons : forall i j a b,
  comparable (i :: a) (j :: b) = (Nat.eqb i j && comparable a b)%bool.
Proof.
  intros i j a b. unfold comparable. cbn [nat_prefix].
  rewrite (Nat.eqb_sym j i). destruct (Nat.eqb i j); reflexivity.
Qed.

Lemma forallb_heads0 : forall r0 R,
  forallb (fun q => negb (comparable (O :: r0) q)) R = true ->
  forallb (fun q => negb (comparable r0 q)) (heads0 R) = true.
Proof.
  intros r0 R. induction R as [|q R IH]; [reflexivity|].
  cbn [forallb]. intros H. apply andb_prop in H. destruct H as [H1 H2].
  rewrite heads0_cons, forallb_app. Show.

From Coq Require Import List ZArith NArith Bool Lia Arith.
Import ListNotations.
From DD Require Import Base.PyStr Base.Value Base.ValueFacts Path.PathModel Diff.Tree Diff.DiffModel Diff.DiffFacts.
From DD Require Import Dist.DistModel.

(* item lengths of the values an entry reports *)
Definition cnt_o (o : option value) : nat := match o with Some v => count v | None => 0 end.
Definition w1 (es : list entry) : nat := fold_right (fun e n => cnt_o (et1 e) + n) 0 es.
Definition w2 (es : list entry) : nat := fold_right (fun e n => cnt_o (et2 e) + n) 0 es.

Lemma w1_app a b : w1 (a ++ b) = w1 a + w1 b.
Proof. unfold w1. induction a as [|e a IH]; cbn; [reflexivity | rewrite IH; lia]. Qed.
Lemma w2_app a b : w2 (a ++ b) = w2 a + w2 b.
Proof. unfold w2. induction a as [|e a IH]; cbn; [reflexivity | rewrite IH; lia]. Qed.

Definition sumc (xs : list value) : nat := fold_right (fun x n => count x + n) 0 xs.

Lemma private_key_same k : DiffModel.private_key k = DistModel.private_key k.
Proof.
  destruct k as [| | | |s|]; try reflexivity. cbn.
  destruct s as [|c1 [|c2 r]]; cbn; try reflexivity.
  - Show.

From Coq Require Import List ZArith NArith Bool Lia Arith String.
From Coq Require Import PrimFloat Uint63 SpecFloat FloatOps FloatAxioms.
Import ListNotations.
From DD Require Import Base.Sx Base.PyStr Base.Value Dist.DistModel Dist.DistProofs.

Lemma SFleb_trans : forall x y z, SFleb x y = true -> SFleb y z = true -> SFleb x z = true.
Proof.
  intros x y z. unfold SFleb.
  destruct x as [sx|sx| |sx mx ex]; destruct y as [sy|sy| |sy my ey]; destruct z as [sz|sz| |sz mz ez];
    cbn; try discriminate; try reflexivity;
    repeat match goal with s : bool |- _ => destruct s end; cbn; try discriminate; try reflexivity.
  all: change (Pos.compare_cont Eq ?a ?b) with (Pos.compare a b).
  all: destruct (Z.compare_spec ex ey); destruct (Z.compare_spec ey ez); destruct (Z.compare_spec ex ez);
       try lia; try discriminate; try reflexivity; subst;
       destruct (Pos.compare_spec mx my); destruct (Pos.compare_spec my mz); destruct (Pos.compare_spec mx mz);
       cbn; try lia; try discriminate; try reflexivity.
Qed.

Lemma leb_trans : forall a b c, (a <=? b)%float = true -> (b <=? c)%float = true -> (a <=? c)%float = true.
Proof. intros a b c. rewrite !leb_spec. apply SFleb_trans. Qed.

(* the numeric short cut lies in [0, 1] when 0 <= cutoff <= 1 (the constructor's check) *)
Theorem rough_numeric_unit : forall r1 r2 cutoff d v,
  (0 <=? cutoff)%float = true -> (cutoff <=? 1)%float = true ->
  root_numeric r1 r2 cutoff = Some d -> dres_value d = Some v -> in_range 1 v.
Proof.
  intros r1 r2 cutoff d v H0 H1 Hd Hv.
  destruct (rough_numeric_range r1 r2 cutoff d v H0 Hd Hv) as [A B].
  split; [assumption | eapply leb_trans; eassumption].
Qed.

(* ---------- positivity: the total is at least every entry's own operations ---------- *)
Lemma map_len_in : forall f k i d kvs n,
  In (k, i, d) kvs -> is_dedupe_key k = false -> key_skip k = Some false ->
  map_len f kvs = LOk n -> exists a, f d = LOk a /\ a <= n.
Proof.
  intros f k i d kvs. induction kvs as [|[[k' i'] d'] r IH]; intros n Hin Hd Hs H; [contradiction|].
  cbn [map_len] in H. apply ladd_ok in H. destruct H as [x [y [Hx [Hy ->]]]].
  destruct Hin as [E|Hin].
  - injection E as -> -> ->. rewrite Hd, Hs in Hx. exists x. split; [assumption | lia].
  - destruct (IH y Hin Hd Hs Hy) as [a [Ha Hle]]. exists a. split; [assumption | lia].
Qed.

Definition entry_ops (t1 t2 : value) (e : sentry) : lres := item_length (snd (dv_of_entry t1 t2 e)).

Theorem ops_ge_entry : forall t1 t2 sd cat es e n,
  forallb block_keys_ok sd = true ->
  In (BPlain cat es) sd -> In e es ->
  item_length (dv_of_sdelta t1 t2 sd) = LOk n ->
  exists a, entry_ops t1 t2 e = LOk a /\ a <= n.
Proof.
  intros t1 t2 sd cat es e n K Hb He H.
  rewrite forallb_forall in K. specialize (K _ Hb). cbn [block_keys_ok] in K.
  apply andb_prop in K. destruct K as [K1 K2].
  destruct (cat_key_facts _ K1) as [D S].
  unfold dv_of_sdelta in H. cbn [item_length] in H.
  assert (Hin : In (KStr cat, O, DMap (map (dv_of_entry t1 t2) es)) (map (dv_of_block t1 t2) sd)).
  { apply in_map_iff. exists (BPlain cat es). split; [reflexivity | assumption]. }
  destruct (map_len_in _ _ _ _ _ _ Hin D S H) as [a [Ha Hle]].
  cbn [item_length] in Ha.
  rewrite forallb_forall in K2. specialize (K2 _ He).
  destruct (path_key_facts _ K2) as [D2 S2].
  assert (Hin2 : In (KStr (entry_key e), O, snd (dv_of_entry t1 t2 e)) (map (dv_of_entry t1 t2) es)).
  { apply in_map_iff. exists e. split; [|assumption]. destruct e; reflexivity. }
  destruct (map_len_in _ _ _ _ _ _ Hin2 D2 S2 Ha) as [b [Hb' Hle2]].
  exists b. split; [exact Hb' | lia].
Qed.

(* a type change always costs at least the two classes *)
Lemma tc_ops_ge_2 : forall t1 t2 key p1 p2 wnp wv a,
  entry_ops t1 t2 (ETc key p1 p2 wnp wv) = LOk a -> 2 <= a.
Proof.
  intros t1 t2 key p1 p2 wnp wv a H. unfold entry_ops in H. cbn [dv_of_entry snd item_length app] in H.
  rewrite (map_len_plain _ (KStr k_old_type)) in H by reflexivity.
  rewrite (map_len_plain _ (KStr k_new_type)) in H by reflexivity.
  cbn [item_length] in H. ladd_inv. subst. lia.
Qed.

(* values that contain something _get_item_length counts *)
Definition plain_key (k : atom) : bool :=
  negb (is_dedupe_key (dkey_of_atom k)) && match key_skip (dkey_of_atom k) with Some false => true | _ => false end.
Definition atom_counts (a : atom) : bool := match a with ANone => false | _ => true end.
Fixpoint has_leaf (v : value) : bool :=
  match v with
  | VAtom a => atom_counts a
  | VList xs | VTuple xs => existsb has_leaf xs
  | VDict kvs => existsb (fun kv => plain_key (fst kv) && has_leaf (snd kv)) kvs
  | VSet xs | VFrozen xs => existsb atom_counts xs
  end.

Definition leafy (v : value) : Prop :=
  has_leaf v = true -> forall n, item_length (dv_of_value v) = LOk n -> 0 < n.

Lemma seq_len_pos : forall (A : Type) (g : A -> dv) (h : A -> bool) xs,
  Forall (fun x => h x = true -> forall n, item_length (g x) = LOk n -> 0 < n) xs ->
  existsb h xs = true -> forall n, seq_len item_length (map g xs) = LOk n -> 0 < n.
Proof.
  intros A g h xs H. induction H as [|x r Hx _ IH]; intros E n Hn; [discriminate|].
  cbn [existsb] in E. cbn [map seq_len] in Hn. apply ladd_ok in Hn. destruct Hn as [a [b [Ha [Hb ->]]]].
  apply orb_prop in E. destruct E as [E|E].
  - specialize (Hx E a Ha). lia.
  - specialize (IH E b Hb). lia.
Qed.

Lemma leafy_all : forall v, leafy v.
Proof.
  apply value_ind2; unfold leafy.
  - intros a H n Hn. destruct a; cbn in *; try discriminate; injection Hn as <-; lia.
  - intros xs H E n Hn. cbn [has_leaf] in E. cbn [dv_of_value item_length] in Hn.
    eapply (seq_len_pos _ dv_of_value has_leaf); eassumption.
  - intros xs H E n Hn. cbn [has_leaf] in E. cbn [dv_of_value item_length] in Hn.
    eapply (seq_len_pos _ dv_of_value has_leaf); eassumption.
  - intros kvs H E n Hn. cbn [has_leaf] in E. cbn [dv_of_value item_length] in Hn.
    revert n Hn. induction H as [|[k v] r Hkv _ IH]; intros n Hn; [discriminate|].
    cbn [existsb fst snd] in E. cbn [map map_len fst snd] in Hn.
    apply ladd_ok in Hn. destruct Hn as [a [b [Ha [Hb ->]]]].
    apply orb_prop in E. destruct E as [E|E].
    + apply andb_prop in E. destruct E as [E1 E2]. unfold plain_key in E1.
      apply andb_prop in E1. destruct E1 as [D S]. apply negb_true_iff in D. rewrite D in Ha.
      destruct (key_skip (dkey_of_atom k)) as [[|]|]; try discriminate.
      cbn [snd] in Hkv. specialize (Hkv E2 a Ha). lia.
    + specialize (IH E b Hb). lia.
  - intros xs E n Hn. cbn [has_leaf] in E. cbn [dv_of_value item_length] in Hn.
    eapply (seq_len_pos _ dv_of_atom atom_counts); [|eassumption|eassumption].
    clear. induction xs as [|a r IH]; constructor; [|assumption].
    intros H n Hn. destruct a; cbn in *; try discriminate; injection Hn as <-; lia.
  - intros xs E n Hn. cbn [has_leaf] in E. cbn [dv_of_value item_length] in Hn.
    eapply (seq_len_pos _ dv_of_atom atom_counts); [|eassumption|eassumption].
    clear. induction xs as [|a r IH]; constructor; [|assumption].
    intros H n Hn. destruct a; cbn in *; try discriminate; injection Hn as <-; lia.
Qed.

Definition leaf_at (t : value) (p : ipath) : bool :=
  match resolve t p with Some v => has_leaf v | None => false end.

(* an entry that certainly costs something *)
Definition entry_counted (t1 t2 : value) (e : sentry) : bool :=
  match e with
  | ETc _ _ _ _ _ => true
  | EVc _ _ p2 _ => leaf_at t2 p2
  | EAt s2 _ p => leaf_at (side t1 t2 s2) p
  | ESet s2 _ p ms => existsb (fun j => leaf_at (side t1 t2 s2) (p ++ [j])) ms
  end.
Definition has_counted_entry (t1 t2 : value) (sd : sdelta) : bool :=
  existsb (fun b => match b with BPlain _ es => existsb (entry_counted t1 t2) es | _ => false end) sd.

Lemma dvat_pos : forall t p n, leaf_at t p = true -> item_length (dvat t p) = LOk n -> 0 < n.
Proof.
  intros t p n. unfold leaf_at, dvat. destruct (resolve t p) as [v|]; [|discriminate].
  intros H Hn. eapply leafy_all; eassumption.
Qed.

Lemma entry_counted_pos : forall t1 t2 e a,
  entry_counted t1 t2 e = true -> entry_ops t1 t2 e = LOk a -> 0 < a.
Proof.
  intros t1 t2 e a C H. destruct e as [key p1 p2 wnp wv|key p1 p2 wnp|s2 key p|s2 key p ms].
  - pose proof (tc_ops_ge_2 _ _ _ _ _ _ _ _ H). lia.
  - unfold entry_ops in H. cbn [dv_of_entry snd item_length] in H.
    rewrite (map_len_plain _ (KStr k_new_value)) in H by reflexivity.
    apply ladd_ok in H. destruct H as [x [y [Hx [_ ->]]]].
    cbn [entry_counted] in C. pose proof (dvat_pos _ _ _ C Hx). lia.
  - unfold entry_ops in H. cbn [dv_of_entry snd] in H. cbn [entry_counted] in C. eapply dvat_pos; eassumption.
  - unfold entry_ops in H. cbn [dv_of_entry snd item_length] in H. cbn [entry_counted] in C.
    revert a H. induction ms as [|j ms IH]; intros a H; [discriminate|].
    cbn [existsb] in C. cbn [map seq_len] in H. apply ladd_ok in H. destruct H as [x [y [Hx [Hy ->]]]].
    apply orb_prop in C. destruct C as [C|C].
    + pose proof (dvat_pos _ _ _ C Hx). lia.
    + specialize (IH C y Hy). lia.
Qed.

(* "positive when the diff is non-empty", under the guard that some entry of a
   plain report kind is a type change or carries a value with a number / string in it *)
Theorem rough_positive_partial : forall t1 t2 sd cutoff,
  forallb block_keys_ok sd = true ->
  has_counted_entry t1 t2 sd = true ->
  rough_distance (RVal t1) (RVal t2) cutoff (dv_of_sdelta t1 t2 sd) <> RInt0.
Proof.
  intros t1 t2 sd cutoff K G. unfold rough_distance.
  destruct (root_numeric (RVal t1) (RVal t2) cutoff); [discriminate|].
  destruct (item_length (dv_of_sdelta t1 t2 sd)) as [[|k]|e] eqn:E; try discriminate.
  exfalso. unfold has_counted_entry in G. apply existsb_exists in G. destruct G as [b [Hb G]].
  destruct b as [cat es| |]; try discriminate.
  apply existsb_exists in G. destruct G as [e [He C]].
  destruct (ops_ge_entry t1 t2 sd cat es e 0 K Hb He E) as [a [Ha Hle]].
  pose proof (entry_counted_pos _ _ _ _ C Ha). lia.
Qed.

Example rough_positive_guard_satisfiable :
  let t1 := VList [VAtom (AInt 1)] in
  let t2 := VList [VAtom (AInt 1); VAtom (AStr [])] in
  let sd := [BPlain (s2p "iterable_item_added") [EAt true (s2p "root[1]") [1]]] in
  forallb block_keys_ok sd = true /\ has_counted_entry t1 t2 sd = true /\
  rough_distance (RVal t1) (RVal t2) (0x1.3333333333333p-2)%float (dv_of_sdelta t1 t2 sd) = RFrac 1 5.
Proof. repeat split; vm_compute; reflexivity. Qed.

From Coq Require Import ZArith List.
From Coq Require Import PrimFloat Uint63 SpecFloat FloatOps FloatAxioms.
Local Open Scope Z_scope.
Definition f_of_Z (z : Z) : spec_float := binary_normalize prec emax z 0 false.
Eval vm_compute in Prim2SF (SF2Prim (f_of_Z (2^53+1))).
Eval vm_compute in f_of_Z (2^1024 - 2^970).
Eval vm_compute in f_of_Z (2^1024 - 2^970 - 1).
Eval vm_compute in f_of_Z (10^400).
Definition zdiv (a b : Z) : spec_float :=
  match a, b with
  | Z0, _ => S754_zero false
  | Zpos pa, Zpos pb => let '(q, e, l) := SFdiv_core_binary prec emax (Zpos pa) 0 (Zpos pb) 0 in binary_round_aux prec emax false q e l
  | Zneg pa, Zpos pb => let '(q, e, l) := SFdiv_core_binary prec emax (Zpos pa) 0 (Zpos pb) 0 in binary_round_aux prec emax true q e l
  | _, _ => S754_nan
  end.
Eval vm_compute in zdiv 1 3.
Eval vm_compute in zdiv 1577836800000001 1000000.
Eval vm_compute in zdiv (10^30+1) 1000000.
Eval vm_compute in Prim2SF (0.1%float).
Eval vm_compute in Prim2SF (SF2Prim (S754_finite false 7205759403792794 (-56)) / 0.3)%float.
Eval vm_compute in Prim2SF (0x1.8p+1)%float.

From DD Require Import Dist.DistDiffProofs.
Check keep_private. Check count_dict_keep. Check wkeep. Check find_mem. Check wf_dict_values. Check wf_dict_nodup. Check sumf_le. Check sumf_add. Check sumf_le_plus. Check diff_atom_w. Check diff_set_w. Check report_w. Check S2.

(** C19 - the distance computed for a pairing decision when repetitions are not reported: the nested run's
    tree is rewritten by mutual_add_removes_to_become_value_changes before the distance is taken.
    [mutual_weights]: under [mutual_ok] (removed levels at pairwise different paths, no two removed / added
    levels with the same value under one parent, removed levels without t2, added levels without t1 - all of
    it observed on every recorded nested run) the rewrite does not increase the weights W1 / W2.
    [pair_distance_norep_range]: hence the pairing distance lies in (0, 1] under the type-change guard. *)
From Coq Require Import List ZArith NArith Bool Lia Arith.
Import ListNotations.
From DD Require Import Base.PyStr Base.Value Base.ValueFacts Path.PathModel Diff.Tree Diff.DiffModel Diff.DiffFaithful
  Hash.HashModel DiffIO.DiffIOModel.
From DD Require Import Dist.DistModel Dist.DistProofs Dist.DistDiffModel Dist.DistDiffProofs
  Dist.DistIOModel Dist.DistIODedup Dist.DistIOLength Dist.DistIOProofs.

(* ---------- generic ---------- *)
Lemma pkey_eqb_refl a : pkey_eqb a a = true.
Proof. destruct a; cbn; [apply atom_eqb_refl | apply Nat.eqb_refl]. Qed.
Lemma path_eqb_refl p : path_eqb p p = true.
Proof. induction p as [|a p IH]; cbn; [reflexivity|]. rewrite pkey_eqb_refl, IH. reflexivity. Qed.
Lemma path_eqb_iff p q : path_eqb p q = true <-> p = q.
Proof. split; [apply path_eqb_eq | intros ->; apply path_eqb_refl]. Qed.

Lemma nodup_by_NoDup {A} (eqb : A -> A -> bool) (Heq : forall a b, eqb a b = true <-> a = b) l :
  nodup_by eqb l = true -> NoDup l.
Proof.
  induction l as [|x r IH]; intros Hn; constructor; cbn [nodup_by] in Hn; apply andb_prop in Hn; destruct Hn as [Hx Hr].
  - apply negb_true_iff in Hx. intros Hin. assert (existsb (eqb x) r = true); [|congruence].
    apply existsb_exists. exists x. split; [exact Hin | apply Heq; reflexivity].
  - apply IH. exact Hr.
Qed.

Lemma sumf_NoDup_incl {A} (f : A -> nat) l : forall l', NoDup l -> incl l l' -> sumf f l <= sumf f l'.
Proof.
  induction l as [|x r IH]; intros l' N I; [cbn; lia|].
  inversion N as [|? ? Hx Nr]; subst.
  assert (Hin : In x l') by (apply I; left; reflexivity).
  apply in_split in Hin. destruct Hin as [l1 [l2 ->]].
  assert (I' : incl r (l1 ++ l2)).
  { intros y Hy. assert (Hy' : In y (l1 ++ x :: l2)) by (apply I; right; exact Hy).
    apply in_app_or in Hy'. apply in_or_app. destruct Hy' as [Hy'|[<-|Hy']]; [left; exact Hy' | contradiction | right; exact Hy']. }
  specialize (IH _ Nr I'). rewrite sumf_app in *. unfold sumf in *. cbn [fold_right] in *.
  revert IH. generalize (fold_right (fun (x : A) (n : nat) => f x + n) 0 r) (fold_right (fun (x : A) (n : nat) => f x + n) 0 l1)
    (fold_right (fun (x : A) (n : nat) => f x + n) 0 l2). intros a b c' IH. lia.
Qed.

Lemma dd_le_sum l : forall seen, dd kv kv_eqb ckv seen l <= sumf ckv l.
Proof.
  induction l as [|x r IH]; intros seen; unfold sumf in *; cbn [dd fold_right]; [lia|].
  destruct (memb _ kv_eqb x seen); [specialize (IH seen) | specialize (IH (x :: seen))]. Show. all: try lia. Show. 
Abort.

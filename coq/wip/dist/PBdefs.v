(* to be appended to DistModel.v *)
(* ===================================================================== *)
(** * Part C: the delta view as positions in t1 / t2 (for the bound)      *)
(* ===================================================================== *)
(** A delta-view dict whose values are taken from the inputs: every entry
    names positions (child-index paths) in t1 and/or t2; [dv_of_sdelta] builds
    from them the dict _get_item_length walks.  The check compares it with the
    dict the implementation really produced. *)
Definition ipath := list nat.

(* the children the diff can report (a dict entry under a private key "__x" is invisible) *)
Definition kids (v : value) : list (option value) :=
  match v with
  | VAtom _ => []
  | VList xs | VTuple xs => map Some xs
  | VDict kvs => map (fun kv => if private_key (fst kv) then None else Some (snd kv)) kvs
  | VSet xs | VFrozen xs => map (fun a => Some (VAtom a)) xs
  end.
Definition child (v : value) (i : nat) : option value :=
  match nth_error (kids v) i with Some (Some c) => Some c | _ => None end.
Fixpoint resolve (v : value) (p : ipath) : option value :=
  match p with
  | [] => Some v
  | i :: r => match child v i with Some c => resolve c r | None => None end
  end.

Definition dvat (t : value) (p : ipath) : dv :=
  match resolve t p with Some v => dv_of_value v | None => DNone end.

Inductive sentry :=
| ETc (key : pystr) (p1 p2 : ipath) (with_new_path with_value : bool)   (* type_changes[key] = {old_type, new_type[, new_path][, new_value]} *)
| EVc (key : pystr) (p1 p2 : ipath) (with_new_path : bool)               (* values_changed[key] = {new_value[, new_path]} *)
| EAt (side2 : bool) (key : pystr) (p : ipath)                            (* an added (t2) / removed (t1) item *)
| ESet (side2 : bool) (key : pystr) (p : ipath) (members : list nat).     (* set_item_added / removed [key] = {members of the set at p} *)

Inductive sblock :=
| BPlain (cat : pystr) (es : list sentry)
| BIdx (side2 : bool) (es : list (pystr * ipath * list (nat * nat))).     (* iterable_items_{added,removed}_at_indexes[key] = {index: item}; (index, identity) *)
Definition sdelta := list sblock.

Local Open Scope string_scope.
Definition k_old_type := s2p "old_type".
Definition k_new_type := s2p "new_type".
Definition k_new_value := s2p "new_value".
Local Close Scope string_scope.

Definition side (t1 t2 : value) (side2 : bool) : value := if side2 then t2 else t1.

Definition dv_of_entry (t1 t2 : value) (e : sentry) : dkey * nat * dv :=
  match e with
  | ETc key _ p2 wnp wv =>
      (KStr key, O, DMap ([(KStr k_old_type, O, DType); (KStr k_new_type, O, DType)]
                          ++ (if wnp then [(KStr k_new_path, O, DStr)] else [])
                          ++ (if wv then [(KStr k_new_value, O, dvat t2 p2)] else [])))
  | EVc key _ p2 wnp =>
      (KStr key, O, DMap ((KStr k_new_value, O, dvat t2 p2) :: (if wnp then [(KStr k_new_path, O, DStr)] else [])))
  | EAt s2 key p => (KStr key, O, dvat (side t1 t2 s2) p)
  | ESet s2 key p ms => (KStr key, O, DSeq (map (fun j => dvat (side t1 t2 s2) (p ++ [j])) ms))
  end.

Definition dv_of_block (t1 t2 : value) (b : sblock) : dkey * nat * dv :=
  match b with
  | BPlain cat es => (KStr cat, O, DMap (map (dv_of_entry t1 t2) es))
  | BIdx s2 es =>
      (KStr (if s2 then k_added_at else k_removed_at), O,
       DMap (map (fun e => let '(key, p, items) := e in
                           (KStr key, O,
                            DMap (map (fun ii => (KOther, snd ii, dvat (side t1 t2 s2) (p ++ [fst ii]))) items))) es))
  end.

Definition dv_of_sdelta (t1 t2 : value) (sd : sdelta) : dv := DMap (map (dv_of_block t1 t2) sd).

(** positions consumed in t1 and in t2 *)
Definition entry_pos (want2 : bool) (e : sentry) : list ipath :=
  match e with
  | ETc _ p1 p2 _ _ | EVc _ p1 p2 _ => [if want2 then p2 else p1]
  | EAt s2 _ p => if Bool.eqb s2 want2 then [p] else []
  | ESet s2 _ p ms => if Bool.eqb s2 want2 then map (fun j => p ++ [j]) ms else []
  end.
Definition block_pos (want2 : bool) (b : sblock) : list ipath :=
  match b with
  | BPlain _ es => flat_map (entry_pos want2) es
  | BIdx s2 es => if Bool.eqb s2 want2
                  then flat_map (fun e => let '(_, p, items) := e in map (fun ii => p ++ [fst ii]) items) es
                  else []
  end.
Definition positions (want2 : bool) (sd : sdelta) : list ipath := flat_map (block_pos want2) sd.

Fixpoint nat_prefix (p q : ipath) : bool :=
  match p, q with
  | [], _ => true
  | i :: p', j :: q' => Nat.eqb i j && nat_prefix p' q'
  | _ :: _, [] => false
  end.
Definition comparable (p q : ipath) : bool := nat_prefix p q || nat_prefix q p.
Fixpoint pairwise_incomparable (l : list ipath) : bool :=
  match l with
  | [] => true
  | p :: r => forallb (fun q => negb (comparable p q)) r && pairwise_incomparable r
  end.

(* keys: a path key is the string "root..."; a report key is a str that the key filter keeps and that is not a dedupe key *)
Local Open Scope string_scope.
Definition path_key_ok (k : pystr) : bool := is_prefix (s2p "root") k.
Local Close Scope string_scope.
Definition cat_key_ok (k : pystr) : bool :=
  negb (is_dedupe_key (KStr k)) && match key_skip (KStr k) with Some false => true | _ => false end.
Definition entry_key (e : sentry) : pystr :=
  match e with ETc k _ _ _ _ | EVc k _ _ _ | EAt _ k _ | ESet _ k _ _ => k end.
Definition block_keys_ok (b : sblock) : bool :=
  match b with
  | BPlain cat es => cat_key_ok cat && forallb (fun e => path_key_ok (entry_key e)) es
  | BIdx _ es => forallb (fun e => path_key_ok (fst (fst e))) es
  end.

(* validity of a structured delta: well-formed keys, and the reported
   positions are pairwise disjoint sub-trees of t1 resp. t2 *)
Definition sd_valid (sd : sdelta) : bool :=
  forallb block_keys_ok sd
  && pairwise_incomparable (positions false sd)
  && pairwise_incomparable (positions true sd).

Definition cnt (t : value) (p : ipath) : nat :=
  match resolve t p with Some v => count v | None => 0 end.
Definition len_at (t : value) (p : ipath) : option nat :=
  match item_length (dvat t p) with LOk n => Some n | LErr _ => None end.

(* the guard of the range theorem: every type change can pay for the 2 + len(new_value)
   operations it is charged with the item lengths of its two values *)
Definition tc_entry_ok (t1 t2 : value) (e : sentry) : bool :=
  match e with
  | ETc _ p1 p2 _ wv =>
      match (if wv then len_at t2 p2 else Some 0) with
      | Some l => Nat.leb (2 + l) (cnt t1 p1 + cnt t2 p2)
      | None => true
      end
  | _ => true
  end.
Definition tc_guard (t1 t2 : value) (sd : sdelta) : bool :=
  forallb (fun b => match b with BPlain _ es => forallb (tc_entry_ok t1 t2) es | BIdx _ _ => true end) sd.

(* comparison of two dv trees that ignores the identity tags *)
Definition dkey_eqb (a b : dkey) : bool :=
  match a, b with
  | KStr s, KStr t | KBytes s, KBytes t => pystr_eqb s t
  | KOther, KOther => true
  | _, _ => false
  end.
Fixpoint dv_eqb (a b : dv) {struct a} : bool :=
  match a, b with
  | DNone, DNone | DNum, DNum | DStr, DStr | DType, DType => true
  | DSeq xs, DSeq ys =>
      (fix go (xs ys : list dv) {struct xs} : bool :=
         match xs, ys with
         | [], [] => true
         | x :: xs', y :: ys' => dv_eqb x y && go xs' ys'
         | _, _ => false
         end) xs ys
  | DMap xs, DMap ys =>
      (fix go (xs ys : list (dkey * nat * dv)) {struct xs} : bool :=
         match xs, ys with
         | [], [] => true
         | (k, _, x) :: xs', (k', _, y) :: ys' => dkey_eqb k k' && dv_eqb x y && go xs' ys'
         | _, _ => false
         end) xs ys
  | _, _ => false
  end.


(* ---------- rough distance ---------- *)
Lemma count_pos : forall v, 1 <= count v.
Proof. intros v. destruct v; cbn; lia. Qed.
Lemma root_count_pos : forall r, 1 <= root_count r.
Proof. intros [v|s]; cbn; [apply count_pos | lia]. Qed.

(* a fraction is only produced with a positive numerator and a divisor >= 2:
   the quotient is a positive rational *)
Theorem rough_frac_positive : forall r1 r2 cutoff delta n m,
  rough_distance r1 r2 cutoff delta = RFrac n m -> 0 < n /\ 2 <= m.
Proof.
  intros r1 r2 cutoff delta n m. unfold rough_distance.
  destruct (root_numeric r1 r2 cutoff); [discriminate|].
  destruct (item_length delta) as [[|k]|e]; try discriminate.
  intros [= <- <-]. pose proof (root_count_pos r1). pose proof (root_count_pos r2). lia.
Qed.

(* 0 exactly when there are no operations (outside the numeric short cut) *)
Theorem rough_zero_iff_no_ops : forall r1 r2 cutoff delta,
  root_numeric r1 r2 cutoff = None ->
  (rough_distance r1 r2 cutoff delta = RInt0 <-> item_length delta = LOk 0).
Proof.
  intros r1 r2 cutoff delta Hn. unfold rough_distance. rewrite Hn.
  destruct (item_length delta) as [[|k]|e]; split; intros H; try discriminate; reflexivity.
Qed.

(* the numeric short cut at the root: a number distance with max_ = cutoff *)
Theorem rough_numeric_range : forall r1 r2 cutoff d v,
  (0 <=? cutoff)%float = true ->
  root_numeric r1 r2 cutoff = Some d -> dres_value d = Some v -> in_range cutoff v.
Proof.
  intros r1 r2 cutoff d v Hc. unfold root_numeric.
  destruct (root_scalar r1) as [s1|]; [|discriminate].
  destruct (root_scalar r2) as [s2|]; [|discriminate].
  unfold numeric_types_distance.
  destruct s1, s2; cbn [date_ordinal]; intros [= <-] Hv;
    eapply numbers_range; eassumption.
Qed.

Definition rough_range_statement : Prop :=
  forall t1 t2 sd cutoff n m, sd_valid sd = true ->
  rough_distance (RVal t1) (RVal t2) cutoff (dv_of_sdelta t1 t2 sd) = RFrac n m -> n <= m.

Local Open Scope string_scope.
(* K13: DeepDiff(1, '', get_deep_distance=True) -> 3 / 2 *)
Definition k13_t1 := VAtom (AInt 1).
Definition k13_t2 := VAtom (AStr []).
Definition k13_sd : sdelta := [BPlain (s2p "type_changes") [ETc (s2p "root") [] [] false true]].
Theorem rough_range_refuted_root :
  sd_valid k13_sd = true /\
  rough_distance (RVal k13_t1) (RVal k13_t2) 0x1.3333333333333p-2 (dv_of_sdelta k13_t1 k13_t2 k13_sd) = RFrac 3 2.
Proof. split; vm_compute; reflexivity. Qed.

(* not only at the root: DeepDiff([None]*3, ['']*3, get_deep_distance=True) -> 9 / 8 *)
Definition k13n_t1 := VList [VAtom ANone; VAtom ANone; VAtom ANone].
Definition k13n_t2 := VList [VAtom (AStr []); VAtom (AStr []); VAtom (AStr [])].
Definition k13n_sd : sdelta :=
  [BPlain (s2p "type_changes") [ETc (s2p "root[0]") [0] [0] false true; ETc (s2p "root[1]") [1] [1] false true;
                                ETc (s2p "root[2]") [2] [2] false true]].
Theorem rough_range_refuted_nested :
  sd_valid k13n_sd = true /\
  rough_distance (RVal k13n_t1) (RVal k13n_t2) 0x1.3333333333333p-2 (dv_of_sdelta k13n_t1 k13n_t2 k13n_sd) = RFrac 9 8.
Proof. split; vm_compute; reflexivity. Qed.

Theorem rough_range_refuted : ~ rough_range_statement.
Proof.
  intro H. destruct rough_range_refuted_root as [V E].
  specialize (H _ _ _ _ _ _ V E). lia.
Qed.

(* under the guard: every type change pays for its 2 + len(new_value) operations *)
Theorem rough_range_partial : forall t1 t2 sd cutoff n m,
  sd_valid sd = true -> tc_guard t1 t2 sd = true ->
  rough_distance (RVal t1) (RVal t2) cutoff (dv_of_sdelta t1 t2 sd) = RFrac n m ->
  0 < n /\ n <= m.
Proof.
  intros t1 t2 sd cutoff n m V G H. split; [eapply rough_frac_positive; eassumption|].
  unfold rough_distance in H.
  destruct (root_numeric (RVal t1) (RVal t2) cutoff); [discriminate|].
  destruct (item_length (dv_of_sdelta t1 t2 sd)) as [[|k]|e] eqn:E; try discriminate.
  injection H as <- <-. cbn [root_count]. eapply delta_length_bound; eassumption.
Qed.

(* the guard is satisfiable by a non-trivial delta with a type change:
   DeepDiff([1, 2], (1, 3), get_deep_distance=True) -> 4 / 6 *)
Example rough_range_guard_satisfiable :
  let t1 := VList [VAtom (AInt 1); VAtom (AInt 2)] in
  let t2 := VTuple [VAtom (AInt 1); VAtom (AInt 3)] in
  let sd := [BPlain (s2p "type_changes") [ETc (s2p "root") [] [] false true]] in
  sd_valid sd = true /\ tc_guard t1 t2 sd = true /\
  rough_distance (RVal t1) (RVal t2) 0x1.3333333333333p-2 (dv_of_sdelta t1 t2 sd) = RFrac 4 6.
Proof. repeat split; vm_compute; reflexivity. Qed.

(* a non-empty diff whose distance is 0: DeepDiff([1], [1, None]) reports an added item, 0 operations *)
Definition k18_t1 := VList [VAtom (AInt 1)].
Definition k18_t2 := VList [VAtom (AInt 1); VAtom ANone].
Definition k18_sd : sdelta := [BPlain (s2p "iterable_item_added") [EAt true (s2p "root[1]") [1]]].
Theorem rough_positive_refuted :
  sd_valid k18_sd = true /\ k18_sd <> [] /\
  rough_distance (RVal k18_t1) (RVal k18_t2) 0x1.3333333333333p-2 (dv_of_sdelta k18_t1 k18_t2 k18_sd) = RInt0.
Proof. repeat split; try (vm_compute; reflexivity). discriminate. Qed.
Local Close Scope string_scope.

From Coq Require Import List ZArith NArith Bool Lia Arith.
Import ListNotations.
From DD Require Import Base.PyStr Base.Value Base.ValueFacts Path.PathModel Diff.Tree Diff.DiffModel Diff.DiffFacts.
From DD Require Import Dist.DistModel.

(* item lengths of the values an entry reports *)
Definition cnt_o (o : option value) : nat := match o with Some v => count v | None => 0 end.
Definition w1 (es : list entry) : nat := fold_right (fun e n => cnt_o (et1 e) + n) 0 es.
Definition w2 (es : list entry) : nat := fold_right (fun e n => cnt_o (et2 e) + n) 0 es.

Lemma w1_app a b : w1 (a ++ b) = w1 a + w1 b.
Proof. unfold w1. induction a as [|e a IH]; cbn; [reflexivity | rewrite IH; lia]. Qed.
Lemma w2_app a b : w2 (a ++ b) = w2 a + w2 b.
Proof. unfold w2. induction a as [|e a IH]; cbn; [reflexivity | rewrite IH; lia]. Qed.

Definition sumc (xs : list value) : nat := fold_right (fun x n => count x + n) 0 xs.

Lemma private_key_same k : DiffModel.private_key k = DistModel.private_key k.
Proof.
  destruct k as [| | | |s|]; try reflexivity. cbn.
  destruct s as [|c1 [|c2 r]]; cbn; try reflexivity.
  - rewrite andb_false_r. reflexivity.
  - rewrite andb_true_r. rewrite (N.eqb_sym 95 c1), (N.eqb_sym 95 c2). reflexivity.
Qed.

Section W.
Variable hatom : atom -> pystr.
Variable udiff : pystr -> pystr -> pystr.
Variable ops : path -> list value -> list value -> list opcode.
Variable skip excl : path -> bool.
Variable c : cfg.
Notation diff := (diff hatom udiff ops skip excl c).
Hypothesis Hzip : zip c = true.
Hypothesis Hpriv : ignore_private c = true.

Lemma report_w k p1 p2 a b d :
  w1 (report skip k p1 p2 a b d) <= cnt_o a /\ w2 (report skip k p1 p2 a b d) <= cnt_o b.
Proof. unfold report. destruct (skip p1); cbn; lia. Qed.

Lemma diff_atom_w a b p1 p2 :
  w1 (diff_atom udiff skip a b p1 p2) <= 1 /\ w2 (diff_atom udiff skip a b p1 p2) <= 1.
Proof.
  unfold diff_atom. destruct (skip p1); [cbn; lia|].
  destruct (negb (ty_eqb (atom_ty a) (atom_ty b))).
  - apply (report_w KType p1 p2 (Some (VAtom a)) (Some (VAtom b)) None).
  - destruct a, b; cbn [diff_str];
      repeat match goal with
             | |- context [let '(_, _) := ?x in _] => destruct x as [[|] ?]
             | |- context [if ?x then _ else _] => destruct x
             end; cbn; try lia;
      try (apply (report_w KValue p1 p2 (Some (VAtom _)) (Some (VAtom _)) _)).
Qed.

(** C08: the independence guard of the detection theorems holds for the REVERSED delta of a
    diff as well, hence the detection clause for subtraction needs data guards only:
    v - Delta(DeepDiff(t1,t2)) reports a base that differs from t2 at a changed location. *)
From Coq Require Import List ZArith NArith Bool Arith Lia Permutation.
Import ListNotations.
From DD Require Import Base.PyStr Base.Value Base.ValueFacts Path.PathModel
  Diff.Tree Diff.DiffModel Diff.DiffFacts Diff.DiffFaithful Diff.DiffPaths
  Delta.DeltaModel Delta.DeltaEntries Delta.DeltaGuard Delta.DeltaRun Delta.DeltaGood Delta.DeltaRoundtrip
  Delta.DeltaVerify Delta.DeltaVerifyIndep Delta.DeltaVerifyPerm Delta.DeltaVerifyMore Delta.DeltaReverse Delta.DeltaReverseDiff
  Delta.DeltaReverseInplace Delta.DeltaReverseKinds Delta.DeltaReverseSym Delta.DeltaReverseSymD
  Delta.DeltaReverseZip Delta.DeltaReverseDefault Delta.DeltaReverseClash Delta.DeltaReverseClashInv
  Delta.DeltaReverseFrom Delta.DeltaReverseOracle.

Lemma map_vc_path_core l : map vc_path l = map (fun x => fst (fst x)) (map vc_core l).
Proof. rewrite map_map. reflexivity. Qed.
Lemma map_tc_path_core l : map tc_path l = map (fun x => fst (fst (fst x))) (map tc_core l).
Proof. rewrite map_map. reflexivity. Qed.

(* [indep_verified] reads the paths only *)
Lemma forallb_map_path {A} (f : A -> path) (g : path -> bool) l : forallb (fun x => g (f x)) l = forallb g (map f l).
Proof. induction l as [|x l IH]; cbn; [reflexivity|]. rewrite IH. reflexivity. Qed.

Lemma indep_same_payload d d' : same_payload d d' -> indep_verified d = indep_verified d'.
Proof.
  intros [S1 S2 _ _ _ _ _ S8 S9 _ _]. unfold indep_verified, written_before_types.
  rewrite (forallb_map_path tc_path (fun p => forallb (diverge p) (map vc_path (d_val d) ++ map fst (d_sadd d) ++ map fst (d_srem d))) (d_type d)).
  rewrite (forallb_map_path tc_path (fun p => forallb (diverge p) (map vc_path (d_val d') ++ map fst (d_sadd d') ++ map fst (d_srem d'))) (d_type d')).
  rewrite !map_vc_path_core, !map_tc_path_core, S1, S2, S8, S9. reflexivity.
Qed.

Lemma indep_val_perm l d :
  Permutation (d_val d) l -> indep_verified d = true -> indep_verified (with_val l d) = true.
Proof.
  intros P H. unfold indep_verified, written_before_types in *. cbn [with_val d_val d_type d_sadd d_srem].
  apply andb_true_iff in H as [H H3]. apply andb_true_iff in H as [H1 H2].
  apply andb_true_iff. split; [apply andb_true_iff; split|].
  - eapply pairwise_div_perm; [|exact H1]. apply Permutation_map. exact P.
  - exact H2.
  - apply forallb_forall. intros c Hc. eapply forallb_forall in H3; [|exact Hc].
    rewrite <- H3. symmetry. apply forallb_perm. apply Permutation_app_tail. apply Permutation_map. exact P.
Qed.

Section SubDiff.
Variable hatom : atom -> pystr.
Variable udiff : pystr -> pystr -> pystr.
Variable ops : path -> list value -> list value -> list opcode.
Variable c : cfg.
Variable conv : ty -> value -> option value.
Variable always : bool.
Hypothesis Hthr : thr_num c <= thr_den c.
Hypothesis Hsorted : zip c = true \/ ops_sorted2 ops.
Variables t1 t2 : value.
Hypothesis G21 : guards c conv true always t2 t1.
Hypothesis KO : korder t1 t2.
Hypothesis N1 : keys_nonneg t1 = true.

Notation nos := DeltaReverseSym.nos.
Let esf := fst (diff hatom udiff ops nos nos c t1 t2 [] []).
Let r := run_diff hatom udiff ops nos nos c t1 t2.
Let d := to_delta conv true always ops t1 t2 (fst r) (snd r).

Theorem reverse_indep : indep_verified (reverse d) = true.
Proof.
  pose proof G21 as (W2 & W1 & AF & _ & NP).
  assert (AF' : alias_free (atoms_of t1 ++ atoms_of t2)).
  { eapply alias_free_sub; [|exact AF]. intros a Ha. rewrite in_app_iff in *. tauto. }
  set (recf := snd (diff hatom udiff ops nos nos c t1 t2 [] [])).
  assert (Er : r = (mutual esf, recf)).
  { unfold r, run_diff, esf, recf. destruct (diff hatom udiff ops nos nos c t1 t2 [] []) as [es rec]. reflexivity. }
  pose proof (diff_faithful hatom udiff ops nos nos c t1 t2 Hthr t1 t2 [] [] eq_refl W1 W2 eq_refl eq_refl) as HF.
  fold esf in HF.
  assert (MI : moved_identical (fst r)).
  { rewrite Er. cbn [fst]. apply Forall_forall. intros e He K.
    assert (He0 : In e esf).
    { apply mutual_In in He as [He|(e0 & _ & K2 & _)]; [exact He|congruence]. }
    pose proof (diff_moved_atoms hatom udiff ops nos nos c (atoms_of t1) (atoms_of t2) t1 t2 [] []
                  (fun a H => H) (fun a H => H)) as MA.
    fold esf in MA.
    eapply Forall_forall in MA; [|exact He0]. destruct (MA K) as (x & y & E1 & E2 & Pe & Hx & Hy).
    rewrite E1, E2. f_equal. f_equal. apply AF'; [apply in_or_app; left; exact Hx|apply in_or_app; right; exact Hy|exact Pe]. }
  assert (SO : Forall sym_ok (fst r)) by (apply run_diff_sym_ok; assumption).
  pose proof (reverse_to_delta_mirror conv conv always ops t1 t2 (fst r) (snd r) SO) as SP. fold d in SP.
  rewrite Er in SP. cbn [fst snd] in SP.
  set (M := to_delta conv true always (mirror_ops ops) t2 t1 (map mirror_entry (mutual esf)) recf) in *.
  (* the reverse tree *)
  assert (SG : sg c t1 t2).
  { split; [exact W1|]. split; [exact W2|]. split; [exact AF'|].
    assert (AK : forall v, nopriv v = true \/ ignore_private c = false -> allkeep c v = true)
      by (intros v [H|H]; [apply allkeep_nopriv; exact H|apply allkeep_flag; exact H]).
    destruct NP as [NP|[NP2 NP1]]; (split; [apply AK; tauto|split; [apply AK; tauto|exact KO]]). }
  destruct (diff_sym2 hatom udiff ops c t1 t2 [] SG) as [KE RE]. fold esf in KE. fold recf in RE.
  set (esr := fst (diff hatom udiff (mirror_ops ops) nos nos c t2 t1 [] [])) in *.
  assert (Er' : run_diff hatom udiff (mirror_ops ops) nos nos c t2 t1 = (mutual esr, recf)).
  { unfold run_diff, esr. rewrite <- RE. destruct (diff hatom udiff (mirror_ops ops) nos nos c t2 t1 [] []) as [es rec]. reflexivity. }
  set (D' := to_delta conv true always (mirror_ops ops) t2 t1 (mutual esr) recf).
  assert (ISP : iterk_same_paths esf).
  { intros e He Ke. eapply Forall_forall in HF; [|exact He]. unfold faithful in HF.
    destruct Ke as [Ke|Ke]; rewrite Ke in HF; [destruct HF as (b & _ & _ & _ & E)|destruct HF as (a & _ & _ & _ & E)]; exact E. }
  assert (Hleaf : zip c = false -> leaf_distinct udiff ops nos).
  { intros Z. destruct Hsorted as [Z'|O]; [congruence|]. apply leaf_distinct_of_sorted. exact O. }
  destruct (diff_distinct hatom udiff ops nos nos c Hleaf t1 t2 [] W1 W2) as [[DP _] _]. fold esf in DP.
  assert (ND : forall k, grp k <> None -> NoDup (map ep1 (filter (is_kind k) esf))).
  { intros k Gk. pose proof (dpairs_kind_NoDup k esf Gk DP) as H. unfold nloc in H.
    rewrite <- (map_map ep1 norm) in H. eapply NoDup_map_inv. exact H. }
  destruct (mutual_mirror esf esr KE ISP (ND KIterAdd ltac:(discriminate)) (ND KIterRem ltac:(discriminate))) as [MK MV].
  assert (EM : M = with_val (d_val M) D').
  { unfold M, D'. apply to_delta_but_val. intros k Nk. symmetry. apply MK. exact Nk. }
  assert (PV : Permutation (d_val D') (d_val M)) by (unfold D', M; apply d_val_perm; exact MV).
  assert (I : indep_verified D' = true).
  { assert (E1 : mutual esr = fst (run_diff hatom udiff (mirror_ops ops) nos nos c t2 t1)) by (rewrite Er'; reflexivity).
    assert (E2 : recf = snd (run_diff hatom udiff (mirror_ops ops) nos nos c t2 t1)) by (rewrite Er'; reflexivity).
    unfold D'. rewrite E1, E2.
    destruct Hsorted as [Z|O]; [apply diff_delta_indep_zip; assumption|].
    apply diff_delta_indep_ops; try assumption.
    intros p xs ys. unfold mirror_ops. apply (ops_ok_mirror _ 0 0). apply O. }
  rewrite (indep_same_payload _ _ SP), EM. apply indep_val_perm; assumption.
Qed.

End SubDiff.

(* for EVERY valid opcode oracle, and the detection clause for subtraction with data guards only *)
Section SubDiffValid.
Variable hatom : atom -> pystr.
Variable udiff : pystr -> pystr -> pystr.
Variable ops : path -> list value -> list value -> list opcode.
Variable c : cfg.
Variable conv : ty -> value -> option value.
Variable always : bool.
Hypothesis Hthr : thr_num c <= thr_den c.
Hypothesis Hops : forall p xs ys, forallb is_atom xs = true -> forallb is_atom ys = true ->
                                  valid_ops xs ys (ops p xs ys).
Variables t1 t2 : value.
Hypothesis G21 : guards c conv true always t2 t1.
Hypothesis KO : korder t1 t2.
Hypothesis N1 : keys_nonneg t1 = true.

Notation nos := DeltaReverseSym.nos.
Let r := run_diff hatom udiff ops nos nos c t1 t2.
Let d := to_delta conv true always ops t1 t2 (fst r) (snd r).

Theorem reverse_indep_valid : indep_verified (reverse d) = true.
Proof.
  pose proof (reverse_indep hatom udiff (restrict ops) c conv always Hthr (or_intror (restrict_sorted ops Hops)) t1 t2 G21 KO N1) as T.
  cbv zeta in T. rewrite delta_of_restrict in T by (destruct G21 as (_ & W1 & _); exact W1). exact T.
Qed.

Variable ro : list (path * value) -> list (path * value).
Variable ao : list (path * option value) -> list (path * option value).

Theorem sub_detects_value_of_diff v cc :
  In cc (d_val d) -> old_mismatch v (rpath cc) (Some (vc_new cc)) = true ->
  exists r0 n, sub conv ro ao d v = Some (r0, n) /\ 0 < n.
Proof.
  intros Hin H. apply (sub_detects_value conv ro ao d v cc); try assumption; [reflexivity|].
  pose proof reverse_indep_valid as I. unfold indep_verified in I.
  apply andb_true_iff in I as [I _]. apply andb_true_iff in I as [I _]. exact I.
Qed.

Theorem sub_detects_type_of_diff v cc :
  In cc (d_type d) -> old_mismatch v (rtpath cc) (tc_new cc) = true ->
  exists r0 n, sub conv ro ao d v = Some (r0, n) /\ 0 < n.
Proof.
  intros Hin H. apply (sub_detects_type conv ro ao d v cc); try assumption; [reflexivity|exact reverse_indep_valid].
Qed.

End SubDiffValid.

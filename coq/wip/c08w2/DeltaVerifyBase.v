(** C08, verification half: detection of a differing REMOVED DICT ITEM for the INITIAL
    base.  DeltaVerifyMore.v states what _do_item_removed verifies for the root as the
    step that reaches the entry sees it; here the eight passes that run earlier and the
    earlier removals of the same pass are shown to leave the item alone when their
    locations stay clear of it ([leaves_alone], a boolean on the delta):
      - a write  obj[key] = value  (values_changed, type_changes, dictionary_item_added)
        may sit anywhere that diverges from the item's path, also in the same dict;
      - an operation that can SHIFT list indexes (iterable item removed / added / moved,
        opcodes) or rewrites a whole object (set items) must work on an object whose path
        diverges from the item's path;
      - an earlier removal must do that too, or remove another key of the same dict.
    The base is constrained where the entry lives only: the parent of the removed item
    is a dict in the base and holds at that key a value != (Python) the recorded one. *)
From Coq Require Import List ZArith NArith Bool Arith Lia.
Import ListNotations.
From DD Require Import Base.PyStr Base.Value Base.ValueFacts Path.PathModel
  Diff.Tree Diff.DiffModel Diff.DiffFacts Diff.DiffFaithful Delta.DeltaModel Delta.DeltaVerify Delta.DeltaVerifyMore.

Definition dict_at (r : value) (op : path) (k : atom) (cur : value) : Prop :=
  exists kvs, resolve r op = Some (VDict kvs) /\ assoc k kvs = Some cur.

Lemma diverge_nil_r p : diverge p [] = false.
Proof. destruct p; reflexivity. Qed.

Lemma diverge_app_r : forall q w x, diverge q w = true -> diverge q (w ++ x) = true.
Proof.
  induction q as [|a q IH]; intros w x D; [discriminate|]. destruct w as [|b w]; [discriminate|].
  cbn [app diverge] in *. destruct (pkey_eqb a b); [apply IH; exact D|exact D].
Qed.

Lemma sep_py_eq a b : sep a b = true -> py_eq a b = false.
Proof. unfold sep. intros H. apply andb_true_iff in H as [H _]. apply andb_true_iff in H as [H _]. apply negb_true_iff. exact H. Qed.

Lemma resolve_cons v a p : resolve v (a :: p) = match get_item v (key_atom a) with Some c => resolve c p | None => None end.
Proof. reflexivity. Qed.

(* ---- the three ways a functional update leaves the dict item (op, k) alone ---- *)
Lemma upd_keeps_div : forall w v f v' op kk cur,
  upd v w f = Some v' -> diverge (op ++ [kk]) w = true ->
  dict_at v op (key_atom kk) cur -> dict_at v' op (key_atom kk) cur.
Proof.
  induction w as [|b w IH]; intros v f v' op kk cur U D H; [rewrite diverge_nil_r in D; discriminate|].
  apply upd_cons_inv in U as (child & child' & G & U' & S).
  destruct op as [|a op].
  - cbn [app diverge] in D. destruct (pkey_eqb kk b); [destruct w; discriminate|].
    destruct H as (kvs & R & A). cbn in R. inversion R; subst v. cbn in S. inversion S; subst v'.
    exists (dict_set kvs (key_atom b) child'). split; [reflexivity|].
    rewrite assoc_dict_set_other; [exact A|apply sep_py_eq; exact D].
  - cbn [app diverge] in D. destruct H as (kvs & R & A). rewrite resolve_cons in R.
    destruct (pkey_eqb a b) eqn:E.
    + apply DiffFaithful.pkey_eqb_eq in E. subst a. rewrite G in R.
      destruct (IH child f child' op kk cur U' D (ex_intro _ kvs (conj R A))) as (kvs' & R' & A').
      exists kvs'. split; [|exact A']. rewrite resolve_cons, (get_item_set_item_same _ _ _ _ S). exact R'.
    + exists kvs. split; [|exact A]. rewrite resolve_cons, (get_item_set_item_other _ _ _ _ _ S D). exact R.
Qed.

Lemma upd_keeps_item : forall pw v g v' kw op kk cur,
  upd v pw g = Some v' ->
  (forall o o' a, g o = Some o' -> sep a (key_atom kw) = true -> get_item o' a = get_item o a) ->
  (forall kvs o', g (VDict kvs) = Some o' -> exists kvs', o' = VDict kvs') ->
  diverge (op ++ [kk]) (pw ++ [kw]) = true ->
  dict_at v op (key_atom kk) cur -> dict_at v' op (key_atom kk) cur.
Proof.
  induction pw as [|b pw IH]; intros v g v' kw op kk cur U F C D H.
  - cbn in U. destruct op as [|a op].
    + cbn [app diverge] in D. destruct (pkey_eqb kk kw); [discriminate|].
      destruct H as (kvs & R & A). cbn in R. inversion R; subst v.
      destruct (C kvs v' U) as (kvs' & ->). exists kvs'. split; [reflexivity|].
      pose proof (F _ _ (key_atom kk) U D) as E. cbn in E. rewrite E. exact A.
    + cbn [app diverge] in D. destruct (pkey_eqb a kw); [rewrite diverge_nil_r in D; discriminate|].
      destruct H as (kvs & R & A). exists kvs. split; [|exact A].
      rewrite resolve_cons in *. rewrite (F _ _ (key_atom a) U D). exact R.
  - cbn [app] in D. apply upd_cons_inv in U as (child & child' & G & U' & S).
    destruct op as [|a op].
    + cbn [app diverge] in D. destruct (pkey_eqb kk b); [destruct (pw ++ [kw]); discriminate|].
      destruct H as (kvs & R & A). cbn in R. inversion R; subst v. cbn in S. inversion S; subst v'.
      exists (dict_set kvs (key_atom b) child'). split; [reflexivity|].
      rewrite assoc_dict_set_other; [exact A|apply sep_py_eq; exact D].
    + cbn [app diverge] in D. destruct H as (kvs & R & A). rewrite resolve_cons in R.
      destruct (pkey_eqb a b) eqn:E.
      * apply DiffFaithful.pkey_eqb_eq in E. subst a. rewrite G in R.
        destruct (IH child g child' kw op kk cur U' F C D (ex_intro _ kvs (conj R A))) as (kvs' & R' & A').
        exists kvs'. split; [|exact A']. rewrite resolve_cons, (get_item_set_item_same _ _ _ _ S). exact R'.
      * exists kvs. split; [|exact A]. rewrite resolve_cons, (get_item_set_item_other _ _ _ _ _ S D). exact R.
Qed.

Lemma upd_keeps_same : forall op v g v' k cur,
  upd v op g = Some v' ->
  (forall kvs o', g (VDict kvs) = Some o' -> assoc k kvs = Some cur -> exists kvs', o' = VDict kvs' /\ assoc k kvs' = Some cur) ->
  dict_at v op k cur -> dict_at v' op k cur.
Proof.
  induction op as [|a op IH]; intros v g v' k cur U C (kvs & R & A).
  - cbn in U, R. inversion R; subst v. destruct (C kvs v' U A) as (kvs' & -> & A'). exists kvs'. split; [reflexivity|exact A'].
  - apply upd_cons_inv in U as (child & child' & G & U' & S). rewrite resolve_cons, G in R.
    destruct (IH child g child' k cur U' C (ex_intro _ kvs (conj R A))) as (kvs' & R' & A').
    exists kvs'. split; [|exact A']. rewrite resolve_cons, (get_item_set_item_same _ _ _ _ S). exact R'.
Qed.

Lemma assoc_dict_del_other kvs : forall kw kvs' k,
  dict_del kvs kw = Some kvs' -> py_eq k kw = false -> assoc k kvs' = assoc k kvs.
Proof.
  induction kvs as [|[k0 v0] r IH]; intros kw kvs' k H N; cbn in H; [discriminate|].
  destruct (py_eq k0 kw) eqn:E.
  - inversion H; subst kvs'. cbn. destruct (py_eq k0 k) eqn:E2; [|reflexivity].
    exfalso. rewrite py_eq_sym in E2. rewrite (py_eq_trans k k0 kw E2 E) in N. discriminate.
  - destruct (dict_del r kw) as [r'|] eqn:Dl; [|discriminate]. inversion H; subst kvs'. cbn.
    destruct (py_eq k0 k); [reflexivity|]. eapply IH; eassumption.
Qed.

(* ---- the primitive steps ---- *)
Section Steps.
Variables (op : path) (kk : pkey) (cur : value).
Notation q := (op ++ [kk]).
Notation I r := (dict_at r op (key_atom kk) cur).

Lemma set_new_value_keeps s w x : diverge q w = true -> I (root s) -> I (root (set_new_value s w x)).
Proof.
  intros D H. unfold set_new_value. destruct w as [|k0 w0]; [rewrite diverge_nil_r in D; discriminate|].
  set (w := k0 :: w0) in *.
  destruct (resolve (root s) (removelast w)) as [obj|]; [|exact H].
  destruct (upd (root s) (removelast w) _) as [r'|] eqn:U; [|exact H]. cbn [root].
  eapply (upd_keeps_item (removelast w) (root s) _ r' (last w (PIdx 0)) op kk cur U); [| | |exact H].
  - intros o o' a Hs Hsep. cbn beta in Hs. rewrite (get_item_set_item_other _ _ _ _ _ Hs Hsep). apply get_item_untuple.
  - intros kvs o' Hs. cbn in Hs. inversion Hs. eexists; reflexivity.
  - rewrite <- app_removelast_last by (unfold w; discriminate). exact D.
Qed.

Lemma verify_keeps b e c s : I (root s) -> I (root (verify b e c s)).
Proof. rewrite verify_root. exact (fun H => H). Qed.

Lemma vstep_keeps b s c : diverge q (vc_path c) = true -> I (root s) -> I (root (vstep b s c)).
Proof.
  intros D H. unfold vstep. destruct (current_at s (vc_path c)); [|exact H].
  apply verify_keeps. apply set_new_value_keeps; assumption.
Qed.

Lemma upd_step_keeps s w f :
  diverge q w = true -> I (root s) ->
  I (root (match upd (root s) w f with Some r' => with_root s r' | None => err s end)).
Proof.
  intros D H. destruct (upd (root s) w f) as [r'|] eqn:U; [|exact H]. cbn [root with_root].
  eapply upd_keeps_div; eassumption.
Qed.

Lemma del_elem_keeps_div s pw kx : diverge q pw = true -> I (root s) -> I (root (del_elem s pw kx)).
Proof.
  intros D H. unfold del_elem. destruct (resolve (root s) pw); [|exact H].
  destruct (upd (root s) pw _) as [r'|] eqn:U; [|exact H]. cbn [root]. eapply upd_keeps_div; eassumption.
Qed.

Lemma remove_one_keeps_div b s p e : diverge q (removelast p) = true -> I (root s) -> I (root (remove_one b s p e)).
Proof.
  intros D H. unfold remove_one. destruct p as [|k0 p0]; [exact H|].
  set (pw := removelast (k0 :: p0)) in *. set (kx := key_atom (last (k0 :: p0) (PIdx 0))).
  destruct (resolve (root s) pw) as [obj|]; [|exact H].
  assert (V : forall x y k', I (root (verify b x y (del_elem s pw k')))).
  { intros x y k'. apply verify_keeps. apply del_elem_keeps_div; assumption. }
  destruct obj; try (destruct (get_item _ kx); [apply V|exact H]).
  destruct (match get_item (VList xs) kx with Some c => negb (py_eqv c e) | None => true end); [|apply V].
  destruct (int_of_atom kx); [|exact H]. destruct (find_closest _ _ _); [apply V|exact H].
Qed.

(* an earlier removal of ANOTHER key of the same dict *)
Lemma remove_one_keeps_same b s p e :
  p <> [] -> removelast p = op -> sep (key_atom kk) (key_atom (last p (PIdx 0))) = true ->
  I (root s) -> I (root (remove_one b s p e)).
Proof.
  intros Np Ep Sp H. unfold remove_one. destruct p as [|k0 p0]; [congruence|].
  set (kx := key_atom (last (k0 :: p0) (PIdx 0))) in *. rewrite Ep.
  destruct H as (kvs & R & A). rewrite R.
  destruct (get_item (VDict kvs) kx) as [c|]; [|exists kvs; split; assumption].
  apply verify_keeps. unfold del_elem. rewrite R.
  destruct (upd (root s) op _) as [r'|] eqn:U; [|exists kvs; split; assumption]. cbn [root].
  eapply (upd_keeps_same op (root s) _ r' (key_atom kk) cur U); [|exists kvs; split; assumption].
  intros kvs0 o' Hd A0. cbn in Hd. destruct (dict_del kvs0 kx) as [kvs'|] eqn:Dl; [|discriminate]. inversion Hd; subst o'.
  exists kvs'. split; [reflexivity|]. rewrite (assoc_dict_del_other kvs0 kx kvs' (key_atom kk) Dl (sep_py_eq _ _ Sp)). exact A0.
Qed.

Lemma add_one_keeps_parent ins s p v : diverge q (removelast p) = true -> I (root s) -> I (root (add_one ins s p v)).
Proof.
  intros D H. unfold add_one. destruct p as [|k0 p0]; [cbn in D; rewrite diverge_nil_r in D; discriminate|].
  set (pw := removelast (k0 :: p0)) in *. set (kx := key_atom (last (k0 :: p0) (PIdx 0))).
  destruct (resolve (root s) pw) as [obj|]; [|exact H].
  apply set_new_value_keeps.
  - rewrite (app_removelast_last (PIdx 0) (l := k0 :: p0)) by discriminate. apply diverge_app_r. exact D.
  - destruct obj; try exact H. destruct ins; [|exact H]. destruct (int_of_atom kx); [|exact H].
    destruct (_ && _); [|exact H]. apply upd_step_keeps; assumption.
Qed.

Lemma add_one_keeps_full s p v : diverge q p = true -> I (root s) -> I (root (add_one false s p v)).
Proof.
  intros D H. unfold add_one. destruct p as [|k0 p0]; [rewrite diverge_nil_r in D; discriminate|].
  destruct (resolve (root s) (removelast (k0 :: p0))) as [obj|]; [|exact H].
  apply set_new_value_keeps; [exact D|]. destruct obj; exact H.
Qed.

Lemma fold_keeps {A} (f : st -> A -> st) (l : list A) :
  (forall s x, In x l -> I (root s) -> I (root (f s x))) -> forall s, I (root s) -> I (root (fold_left f l s)).
Proof.
  induction l as [|x l IH]; intros F s H; [exact H|]. cbn. apply IH.
  - intros s0 y Hy. apply F. right. exact Hy.
  - apply F; [left; reflexivity|exact H].
Qed.

End Steps.

(* ---- the guard ---- *)
Definition div_parent (q p : path) : bool := diverge q (removelast p).
Definition leaves_alone (q : path) (d : delta) : bool :=
  forallb (fun c => diverge q (vc_path c)) (d_val d) &&
  forallb (fun pi => diverge q (fst pi)) (d_sadd d) &&
  forallb (fun pi => diverge q (fst pi)) (d_srem d) &&
  forallb (fun c => diverge q (tc_path c)) (d_type d) &&
  forallb (fun po => diverge q (fst po)) (d_ops d) &&
  forallb (fun pv => div_parent q (fst pv)) (d_irem d) &&
  forallb (fun m => div_parent q (fst (fst m)) && div_parent q (snd (fst m))) (d_moved d) &&
  forallb (fun pv => div_parent q (fst pv)) (d_iadd d) &&
  forallb (fun pv => diverge q (fst pv)) (d_dadd d).
(* the removals visited before the entry: elsewhere, or another key of the same dict *)
Definition earlier_ok (q : path) (l1 : list (path * value)) : bool :=
  forallb (fun pv => div_parent q (fst pv) ||
                     (negb (match fst pv with [] => true | _ => false end) && path_eqb (removelast (fst pv)) (removelast q) &&
                      sep (key_atom (last q (PIdx 0))) (key_atom (last (fst pv) (PIdx 0))))) l1.

Section Initial.
Variable conv : ty -> value -> option value.
Variable rem_order : list (path * value) -> list (path * value).
Variable add_order : list (path * option value) -> list (path * option value).
(* the order oracles return items of their argument (implied by ro_ok / ao_ok) *)
Hypothesis Hro : forall l x, In x (rem_order l) -> In x l.
Hypothesis Hao : forall l x, In x (add_order l) -> In x l.
Variables (op : path) (kk : pkey) (cur : value).
Notation q := (op ++ [kk]).
Notation I r := (dict_at r op (key_atom kk) cur).

Lemma removed_pass_keeps b l s :
  forallb (fun pv => div_parent q (fst pv)) l = true -> I (root s) -> I (root (do_item_removed rem_order b l s)).
Proof.
  intros G H. unfold do_item_removed. apply fold_keeps; [|exact H].
  intros s0 x Hx H0. apply remove_one_keeps_div; [|exact H0].
  apply Hro in Hx. eapply forallb_forall in G; [|exact Hx]. exact G.
Qed.

Lemma added_pass_keeps_parent sort ins l s :
  forallb (fun pv => div_parent q (fst pv)) l = true -> I (root s) -> I (root (do_item_added add_order sort ins l s)).
Proof.
  intros G H. unfold do_item_added. apply fold_keeps; [|exact H].
  intros s0 x Hx H0. apply add_one_keeps_parent; [|exact H0].
  assert (Hin : In x l) by (destruct sort; [apply Hao; exact Hx|exact Hx]).
  eapply forallb_forall in G; [|exact Hin]. exact G.
Qed.

Lemma added_pass_keeps_full l s :
  forallb (fun pv => diverge q (fst pv)) l = true -> I (root s) -> I (root (do_item_added add_order false false l s)).
Proof.
  intros G H. unfold do_item_added. apply fold_keeps; [|exact H].
  intros s0 x Hx H0. apply add_one_keeps_full; [|exact H0]. eapply forallb_forall in G; [|exact Hx]. exact G.
Qed.

Lemma forallb_map' {A B} (f : B -> bool) (g : A -> B) l : forallb f (map g l) = forallb (fun x => f (g x)) l.
Proof. induction l as [|x l IH]; cbn; [reflexivity|]. rewrite IH. reflexivity. Qed.

Lemma moved_tail_keeps (ms : list (path * path * value)) s1 :
  forallb (fun m : path * path * value => div_parent q (snd (fst m))) ms = true -> I (root s1) ->
  I (root (match ms with
           | [] => s1
           | _ => do_item_added add_order true false (map (fun m => (snd (fst m), Some (snd m))) ms) s1
           end)).
Proof.
  intros G H. destruct ms as [|m ms]; [exact H|].
  apply added_pass_keeps_parent; [|exact H]. rewrite forallb_map'. cbn [fst]. exact G.
Qed.

Theorem before_drem_keeps d v :
  leaves_alone q d = true -> I v -> I (root (before_drem conv rem_order add_order d v)).
Proof.
  unfold leaves_alone. intros G H.
  repeat (apply andb_true_iff in G as [G ?G]).
  unfold before_drem, before_irem, before_types.
  (* pass 8 *)
  apply added_pass_keeps_full; [rewrite forallb_map'; cbn [fst]; assumption|].
  (* pass 7 *)
  unfold do_iterable_item_added.
  assert (Gm1 : forallb (fun m : path * path * value => div_parent q (fst (fst m))) (d_moved d) = true).
  { apply forallb_forall. intros m Hm. eapply forallb_forall in G2; [|exact Hm]. apply andb_true_iff in G2 as [X _]. exact X. }
  assert (Gm2 : forallb (fun m : path * path * value => div_parent q (snd (fst m))) (d_moved d) = true).
  { apply forallb_forall. intros m Hm. eapply forallb_forall in G2; [|exact Hm]. apply andb_true_iff in G2 as [_ X]. exact X. }
  apply moved_tail_keeps; [exact Gm2|].
  match goal with |- I (root (match ?added with [] => ?s6 | _ => _ end)) => assert (H6 : I (root s6)); [|destruct added eqn:EA; [exact H6|rewrite <- EA]] end.
    - (* pass 6 *)
      unfold do_iterable_item_removed. apply removed_pass_keeps.
      + rewrite forallb_app, forallb_map'. cbn [fst]. rewrite G3, Gm1. reflexivity.
      + (* passes 5 .. 1 *)
        unfold do_opcodes. apply fold_keeps.
        { intros s0 po Hpo H0. apply upd_step_keeps; [|exact H0]. eapply forallb_forall in G4; [|exact Hpo]. exact G4. }
        rewrite do_type_changes_fold. apply fold_keeps.
        { intros s0 c Hc H0. unfold tstep. destruct (current_at s0 (tc_path c)) as [cu|]; [|exact H0].
          destruct (match tc_new c with Some x => Some x | None => conv (tc_new_ty c) cu end); [|exact H0].
          apply verify_keeps. apply set_new_value_keeps; [|exact H0]. eapply forallb_forall in G5; [|exact Hc]. exact G5. }
        rewrite do_set_items_fold. apply fold_keeps.
        { intros s0 pi Hpi H0. unfold sstep. apply upd_step_keeps; [|exact H0]. eapply forallb_forall in G6; [|exact Hpi]. exact G6. }
        rewrite do_set_items_fold. apply fold_keeps.
        { intros s0 pi Hpi H0. unfold sstep. apply upd_step_keeps; [|exact H0]. eapply forallb_forall in G7; [|exact Hpi]. exact G7. }
        rewrite do_values_changed_fold. apply fold_keeps; [|exact H].
        intros s0 c Hc H0. apply vstep_keeps; [|exact H0]. eapply forallb_forall in G; [|exact Hc]. exact G.
    - apply added_pass_keeps_parent; [|exact H6].
      rewrite forallb_app, !forallb_map'. cbn [fst]. rewrite G1, Gm2. reflexivity.
Qed.

Lemma earlier_keeps l1 : forall s,
  earlier_ok q l1 = true -> I (root s) -> I (root (fold_left rstep l1 s)).
Proof.
  intros s G H. apply fold_keeps; [|exact H]. intros s0 pv Hpv H0. unfold rstep.
  unfold earlier_ok in G. eapply forallb_forall in G; [|exact Hpv].
  apply orb_true_iff in G as [G|G]; [apply remove_one_keeps_div; assumption|].
  apply andb_true_iff in G as [G Sp]. apply andb_true_iff in G as [Np Ep].
  rewrite removelast_last in Ep. rewrite last_last in Sp. apply path_eqb_eq in Ep.
  apply remove_one_keeps_same; try assumption.
  destruct (fst pv); [discriminate Np|discriminate].
Qed.

(* a bidirectional delta applied to a base whose dict at [op] holds, at the key of a
   dictionary_item_removed entry, a value != (Python) the recorded one logs an error *)
Theorem apply_detects_removed_initial d v l1 e l2 kvs :
  d_bidir d = true -> rem_order (d_drem d) = l1 ++ (q, e) :: l2 ->
  resolve v op = Some (VDict kvs) -> assoc (key_atom kk) kvs = Some cur -> py_eqv e cur = false ->
  leaves_alone q d = true -> earlier_ok q l1 = true ->
  0 < snd (apply conv rem_order add_order d v).
Proof.
  intros B E R A N G1 G2.
  assert (H0 : I v) by (exists kvs; split; assumption).
  pose proof (earlier_keeps l1 _ G2 (before_drem_keeps d v G1 H0)) as (kvs' & R' & A').
  apply (apply_detects_removed_when_reached conv rem_order add_order d v l1 q e l2 B E).
  unfold rem_bad. destruct (op ++ [kk]) eqn:Eq; [destruct op; discriminate|]. rewrite <- Eq.
  rewrite removelast_last, last_last, R'. cbn [is_list negb andb get_item]. rewrite A', N. reflexivity.
Qed.

End Initial.

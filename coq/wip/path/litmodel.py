"""Development tool (not part of any check): a Python transcription of the total model of
ast.literal_eval that Path/PathLit.v defines in Gallina, fuzzed against CPython before the
Coq port.  Strings are lists of code points.

result of full_eval:  ("ok", value) | ("fail",) | ("raise",) | ("unsup",)
value:  ("none",) ("bool", b) ("int", z) ("float", sign, mag) ("str", cps) ("bytes", cps)
        ("other", hashable)          -- complex, Ellipsis, tuple, list, set, dict
mag:    "zero" | "inf" | (m, e)      -- m * 2**e, m odd
"""

import sys
sys.setrecursionlimit(20000)
MAXLEVEL = 200
MAXDIGITS = 4300


def is_digit(c): return 48 <= c <= 57
def is_alpha(c): return 65 <= c <= 90 or 97 <= c <= 122 or c == 95
def is_idstart(c): return is_alpha(c) or c >= 128
def is_idchar(c): return is_idstart(c) or is_digit(c)
def lower(c): return c + 32 if 65 <= c <= 90 else c


# ---------------------------------------------------------------- floats
def pow10(k): return 10 ** k


def strip2(m, e):
    """canonical (m odd, e) of m * 2**e, m > 0"""
    while m % 2 == 0:
        m //= 2
        e += 1
    return (m, e)


def bitlen(n): return n.bit_length()


def round_ratio(num, den):
    """nearest binary64 to num/den (> 0), ties to even: "zero" | "inf" | (m, e)"""
    # e2 = floor(log2(num/den))
    e2 = bitlen(num) - bitlen(den)
    # 2**e2 <= q ?   q >= 2**e2  <=>  num >= den * 2**e2
    def ge_pow(e):
        return num >= den * 2 ** e if e >= 0 else num * 2 ** (-e) >= den
    if not ge_pow(e2):
        e2 -= 1
    shift = 52 - e2 if e2 >= -1022 else 1074
    if shift >= 0:
        n2, d2 = num * 2 ** shift, den
    else:
        n2, d2 = num, den * 2 ** (-shift)
    mant, rem = divmod(n2, d2)
    if 2 * rem > d2 or (2 * rem == d2 and mant % 2 == 1):
        mant += 1
    if mant == 0:
        return "zero"
    # value = mant * 2**(-shift); overflow when >= 2**1024
    if bitlen(mant) - shift > 1024:
        return "inf"
    return strip2(mant, -shift)


def dec_to_double(M, k, nd):
    """M * 10**k, M >= 0 with nd decimal digits"""
    if M == 0:
        return "zero"
    if k + nd > 310:
        return "inf"
    if k + nd < -330:
        return "zero"
    if k >= 0:
        return round_ratio(M * pow10(k), 1)
    return round_ratio(M, pow10(-k))


def ndigits(M):
    n = 0
    while M > 0:
        M //= 10
        n += 1
    return n


def float_digits(mag):
    """shortest digits (as int), decpt for a finite non-zero magnitude (m, e); None if the search fails"""
    m, e = mag
    num, den = (m * 2 ** e, 1) if e >= 0 else (m, 2 ** (-e))
    # p: 10**(p-1) <= v < 10**p
    p = ndigits(num // den) if num >= den else 0
    if num < den:
        # v < 1: find p <= 0
        p = 0
        while num * pow10(-p + 1) < den * 10 and num * pow10(1 - p) < den:     # v < 10**(p-1)
            p -= 1
    for n in range(1, 18):
        # scaled = v / 10**(p-n)
        s = p - n
        if s >= 0:
            a, b = num, den * pow10(s)
        else:
            a, b = num * pow10(-s), den
        lo, rem = divmod(a, b)
        cands = [lo] if rem == 0 else [lo, lo + 1]
        good = [c for c in cands if c > 0 and dec_to_double(c, s, ndigits(c)) == mag]
        if good:
            if len(good) == 2:
                # nearest to v; tie -> even
                if 2 * rem < b:
                    c = lo
                elif 2 * rem > b:
                    c = lo + 1
                else:
                    c = lo if lo % 2 == 0 else lo + 1
            else:
                c = good[0]
            decpt = p
            if c == pow10(n):
                decpt = p + 1
            while c % 10 == 0:
                c //= 10
            return c, decpt
    return None


def digits_of(n):
    return [ord(ch) for ch in str(n)]


def float_repr(sign, mag):
    if mag == "zero":
        body = [48, 46, 48]
    elif mag == "inf":
        body = [105, 110, 102]
    else:
        r = float_digits(mag)
        if r is None:
            return None
        c, decpt = r
        ds = digits_of(c)
        n = len(ds)
        if decpt <= -4 or decpt > 16:
            ex = decpt - 1
            body = ds[:1] + ([46] + ds[1:] if n > 1 else []) + [101, 45 if ex < 0 else 43]
            ed = digits_of(abs(ex))
            if len(ed) < 2:
                ed = [48] + ed
            body += ed
        elif decpt <= 0:
            body = [48, 46] + [48] * (-decpt) + ds
        elif decpt >= n:
            body = ds + [48] * (decpt - n) + [46, 48]
        else:
            body = ds[:decpt] + [46] + ds[decpt:]
    return ([45] if sign else []) + body


# ---------------------------------------------------------------- tokens
# ("num", numv) ("str", isbytes, body) ("name", kw) ("op", c) ("ellipsis",) ("nl",)
# numv: ("int", z) ("float", mag) ("imag",)

def scan_digitpart(s, i):
    """digit (_? digit)*  from s[i] (must be a digit); returns (digits list, next index) or None"""
    if i >= len(s) or not is_digit(s[i]):
        return None
    ds = [s[i]]
    i += 1
    while i < len(s):
        if is_digit(s[i]):
            ds.append(s[i])
            i += 1
        elif s[i] == 95:
            if i + 1 < len(s) and is_digit(s[i + 1]):
                ds.append(s[i + 1])
                i += 2
            else:
                return None            # "_" not followed by a digit: invalid literal
        else:
            break
    return ds, i


def dval(ds):
    v = 0
    for c in ds:
        v = v * 10 + (c - 48)
    return v


def radix_digit(c, base):
    if is_digit(c):
        v = c - 48
    elif 97 <= lower(c) <= 102:
        v = lower(c) - 87
    else:
        return None
    return v if v < base else None


def scan_radix(s, i, base):
    """(_? digit+)+ in the given base from s[i]; (value, next) or None"""
    v, groups = 0, 0
    while True:
        if i < len(s) and s[i] == 95:
            i += 1
        if i >= len(s) or radix_digit(s[i], base) is None:
            return None
        while i < len(s) and radix_digit(s[i], base) is not None:
            v = v * base + radix_digit(s[i], base)
            i += 1
        groups += 1
        if not (i < len(s) and s[i] == 95):
            break
    return v, i


def scan_number(s, i):
    """s[i] is a digit, or '.' followed by a digit.  (numv, next) or None (= not in the language)"""
    c = s[i]
    if c == 48 and i + 1 < len(s) and lower(s[i + 1]) in (120, 111, 98):
        base = {120: 16, 111: 8, 98: 2}[lower(s[i + 1])]
        r = scan_radix(s, i + 2, base)
        if r is None:
            return None
        v, j = r
        if j < len(s) and is_idchar(s[j]):       # also a decimal digit outside the base
            return None
        return ("int", v), j
    ip, fp, ex = None, None, None
    has_dot = False
    j = i
    if c != 46:
        r = scan_digitpart(s, j)
        if r is None:
            return None
        ip, j = r
    if j < len(s) and s[j] == 46:
        has_dot = True
        j += 1
        if j < len(s) and is_digit(s[j]):
            r = scan_digitpart(s, j)
            if r is None:
                return None
            fp, j = r
    if j < len(s) and lower(s[j]) == 101:
        k = j + 1
        neg = False
        if k < len(s) and s[k] in (43, 45):
            neg = s[k] == 45
            k += 1
        r = scan_digitpart(s, k)
        if r is None:
            return None                          # "1e", "1e+", "1e_1": an identifier character follows the number
        ed, j = r
        ex = -dval(ed) if neg else dval(ed)
    imag = False
    if j < len(s) and lower(s[j]) == 106:
        imag = True
        j += 1
    if j < len(s) and is_idchar(s[j]):
        return None
    if imag:
        return ("imag",), j
    if not has_dot and ex is None:
        # decimal integer: leading zeros only when everything is zero; digit limit
        if ip[0] == 48 and any(d != 48 for d in ip):
            return None
        if ip[0] != 48 and len(ip) > MAXDIGITS:
            return None
        return ("int", dval(ip)), j
    ds = (ip or []) + (fp or [])
    k = (ex or 0) - len(fp or [])
    # strip leading zeros for the digit count
    M = dval(ds)
    return ("float", dec_to_double(M, k, ndigits(M))), j


def prefix_kind(pre):
    """"str" | "bytes" | "f" | None (not a string prefix)"""
    p = [lower(c) for c in pre]
    if p in ([], [117], [114]):
        return "str"
    if p in ([98], [98, 114], [114, 98]):
        return "bytes"
    if p in ([102], [102, 114], [114, 102]):
        return "f"
    return None


def scan_string(s, i):
    """s[i] is a quote.  (body, next) or None"""
    q = s[i]
    if i + 2 < len(s) and s[i + 1] == q and s[i + 2] == q:
        j = i + 3
        while j + 2 < len(s) + 0:
            if s[j] == q and s[j + 1] == q and s[j + 2] == q:
                return s[i + 3:j], j + 3
            j += 1
        return None
    j = i + 1
    while j < len(s):
        if s[j] == q:
            return s[i + 1:j], j + 1
        if s[j] == 10:
            return None
        j += 1
    return None


def long_digit_run(s, n=300):
    run = 0
    for c in s:
        if is_digit(c) or c == 95:
            run += 1
            if run >= n:
                return True
        else:
            run = 0
    return False


def risky(s):
    """a TypeError (unhashable member of a set / key of a dict) or OverflowError (huge int + complex) can be
    raised while converting the nodes BEFORE a node that is no literal is reached"""
    seen = False
    brace = False
    for c in s:
        if seen and c in (91, 123, 115):
            brace = True
        if c == 123:
            seen = True
    return brace or (long_digit_run(s) and (106 in s or 74 in s))


def tokenize(s):
    """list of tokens, or "fail" / "unsup".
    A token outside the vocabulary of literals (another name, operator, an f-string) makes the text a
    non-literal: "fail" - unless the text is `risky`, where only the full expression grammar could tell
    whether a SyntaxError (fail) or the TypeError / OverflowError (raise) comes first: "unsup"."""
    if any(c == 0 or 0xD800 <= c <= 0xDFFF for c in s):
        return "fail"
    oov = "unsup" if risky(s) else "fail"
    # universal newlines
    t = []
    i = 0
    while i < len(s):
        if s[i] == 13:
            t.append(10)
            if i + 1 < len(s) and s[i + 1] == 10:
                i += 1
        else:
            t.append(s[i])
        i += 1
    s = t
    toks = []
    level = []          # stack of open brackets
    i = 0
    bol = True
    line_has_tokens = False
    ended = False       # a logical line is complete
    while True:
        if bol:
            col = 0
            while i < len(s) and s[i] in (32, 9, 12):
                col = col + 1 if s[i] == 32 else ((col // 8 + 1) * 8 if s[i] == 9 else 0)
                i += 1
            bol = False
            comment = i < len(s) and s[i] == 35
            if comment:
                while i < len(s) and s[i] != 10:
                    i += 1
            if i < len(s) and s[i] == 10:
                i += 1
                bol = True
                continue               # blank line
            if i >= len(s):
                # end of input: a comment line is blank; white space alone counts as indentation
                if not comment and not level and col > 0:
                    return "fail"
                break
            if not level and (col > 0 or ended):
                return "fail"
        # skip blanks
        while i < len(s) and s[i] in (32, 9, 12):
            i += 1
        if i >= len(s):
            break
        c = s[i]
        if c == 35:
            while i < len(s) and s[i] != 10:
                i += 1
            continue
        if c == 10:
            i += 1
            bol = True
            if not level and line_has_tokens:
                toks.append(("nl",))
                ended = True
                line_has_tokens = False
            continue
        line_has_tokens = True
        if is_idstart(c):
            j = i
            while j < len(s) and is_idchar(s[j]):
                j += 1
            name = s[i:j]
            if j < len(s) and s[j] in (39, 34) and prefix_kind_scan(name):
                kind = prefix_kind(name)
                if kind == "f":
                    return oov
                r = scan_string(s, j)
                if r is None:
                    return "fail"
                body, j2 = r
                if kind == "bytes" and any(ch >= 128 for ch in body):
                    return "fail"
                toks.append(("str", kind == "bytes", body))
                i = j2
                continue
            if any(ch >= 128 for ch in name):
                if len(name) == 3 and all((ch == k) or ch >= 256 for ch, k in zip(name, (115, 101, 116))):
                    return "unsup"             # NFKC could make it `set`
                return oov
            kw = {"None": "none", "True": "true", "False": "false", "set": "set"}.get("".join(map(chr, name)))
            if kw is None:
                return oov
            toks.append(("name", kw))
            i = j
            continue
        if is_digit(c) or (c == 46 and i + 1 < len(s) and is_digit(s[i + 1])):
            r = scan_number(s, i)
            if r is None:
                return "fail"
            toks.append(("num", r[0]))
            i = r[1]
            continue
        if c == 46:
            if i + 2 < len(s) and s[i + 1] == 46 and s[i + 2] == 46:
                toks.append(("ellipsis",))
                i += 3
                continue
            return oov
        if c in (39, 34):
            r = scan_string(s, i)
            if r is None:
                return "fail"
            toks.append(("str", False, r[0]))
            i = r[1]
            continue
        if c in (40, 91, 123):
            if len(level) >= MAXLEVEL:
                return "fail"
            level.append(c)
            toks.append(("op", c))
            i += 1
            continue
        if c in (41, 93, 125):
            if not level or level[-1] != {41: 40, 93: 91, 125: 123}[c]:
                return "fail"
            level.pop()
            toks.append(("op", c))
            i += 1
            continue
        if c in (44, 58, 43, 45):
            toks.append(("op", c))
            i += 1
            continue
        if 33 <= c <= 126:
            return oov                 # another operator character
        return "fail"                  # a character no token starts with
    if level:
        return "fail"
    return toks


def prefix_kind_scan(name):
    """the tokenizer takes name + quote for a prefixed string only when name is a valid prefix"""
    return prefix_kind(name) is not None


# ---------------------------------------------------------------- parser: tokens -> node
# node: ("const", value) ("tuple", [n]) ("list", [n]) ("set", [n]) ("dict", [(k, v)]) ("setcall",)
#       ("unary", n) with sign ("neg", n) / ("pos", n); ("bin", l, r); ("bad",)  (an expression that is not a literal)

def is_op(t, c): return t is not None and t[0] == "op" and t[1] == c
def peek(toks, i): return toks[i] if i < len(toks) else None


def starts_expr(t):
    return t is not None and (t[0] in ("num", "str", "name", "ellipsis") or (t[0] == "op" and t[1] in (40, 91, 123, 43, 45)))


def parse_atom(toks, i, fuel):
    """(node, next) or None"""
    if fuel == 0:
        return None
    t = peek(toks, i)
    if t is None:
        return None
    if t[0] == "num":
        v = t[1]
        if v[0] == "int":
            return ("const", ("int", v[1])), i + 1
        if v[0] == "float":
            return ("const", ("float", False, v[1])), i + 1
        return ("const", ("complex",)), i + 1
    if t[0] == "ellipsis":
        return ("const", ("ellipsis",)), i + 1
    if t[0] == "name":
        if t[1] == "set":
            return ("nameset",), i + 1
        return ("const", {"none": ("none",), "true": ("bool", True), "false": ("bool", False)}[t[1]]), i + 1
    if t[0] == "str":
        isb, body = t[1], list(t[2])
        j = i + 1
        while peek(toks, j) is not None and peek(toks, j)[0] == "str":
            if peek(toks, j)[1] != isb:
                return None
            body += peek(toks, j)[2]
            j += 1
        return ("const", ("bytes" if isb else "str", body)), j
    if is_op(t, 40):
        r = parse_seq(toks, i + 1, 41, fuel - 1, "plain")
        if r is None:
            return None
        items, commas, j = r
        if len(items) == 1 and commas == 0:
            return items[0], j                   # parentheses leave no node
        return ("tuple", items), j
    if is_op(t, 91):
        r = parse_seq(toks, i + 1, 93, fuel - 1, "plain")
        if r is None:
            return None
        items, _commas, j = r
        return ("list", items), j
    if is_op(t, 123):
        r = parse_seq(toks, i + 1, 125, fuel - 1, "pairs")
        if r is None:
            return None
        items, _commas, j = r
        if not items:
            return ("dict", []), j
        if all(x[0] == "pair" for x in items):
            return ("dict", [(x[1], x[2]) for x in items]), j
        if any(x[0] == "pair" for x in items):
            return None
        return ("set", items), j
    return None


def parse_item(toks, i, fuel, mode):
    """one item of a bracketed sequence.  mode "plain": expression; "pairs": expression [':' expression];
    "slices": [expression] ':' [expression] [':' [expression]] | expression"""
    if fuel == 0:
        return None
    if mode == "slices":
        parts, colons = 0, 0
        while True:
            t = peek(toks, i)
            if is_op(t, 58):
                colons += 1
                if colons > 2:
                    return None
                i += 1
                continue
            if starts_expr(t):
                # an expression may only come first or right after a colon
                r = parse_expr(toks, i, fuel - 1)
                if r is None:
                    return None
                i = r[1]
                parts += 1
                t2 = peek(toks, i)
                if is_op(t2, 58):
                    continue
                break
            break
        if parts == 0 and colons == 0:
            return None
        return ("bad",), i
    r = parse_expr(toks, i, fuel - 1)
    if r is None:
        return None
    node, i = r
    if mode == "pairs" and is_op(peek(toks, i), 58):
        r2 = parse_expr(toks, i + 1, fuel - 1)
        if r2 is None:
            return None
        return ("pair", node, r2[0]), r2[1]
    return node, i


def parse_seq(toks, i, close, fuel, mode):
    """item (',' item)* [','] close  |  close ;  returns (items, number of commas, next) or None"""
    items, commas = [], 0
    while True:
        if fuel == 0:
            return None
        fuel -= 1
        t = peek(toks, i)
        if is_op(t, close):
            return items, commas, i + 1
        if commas < len(items):
            return None                         # two items without a comma
        r = parse_item(toks, i, fuel, mode)
        if r is None:
            return None
        node, i = r
        items.append(node)
        if is_op(peek(toks, i), 44):
            commas += 1
            i += 1


def parse_primary(toks, i, fuel):
    if fuel == 0:
        return None
    r = parse_atom(toks, i, fuel - 1)
    if r is None:
        return None
    node, j = r
    # trailers: calls and subscripts of anything are expressions; only `set()` is a literal
    while True:
        if fuel == 0:
            return None
        fuel -= 1
        if is_op(peek(toks, j), 40):
            r = parse_seq(toks, j + 1, 41, fuel, "plain")
            if r is None:
                return None
            items, _commas, j = r
            node = ("setcall",) if node == ("nameset",) and not items else ("bad",)
        elif is_op(peek(toks, j), 91):
            r = parse_seq(toks, j + 1, 93, fuel, "slices")
            if r is None or not r[0]:
                return None                     # a[] is a syntax error
            j = r[2]
            node = ("bad",)
        else:
            return node, j


def parse_factor(toks, i, fuel):
    if fuel == 0:
        return None
    t = peek(toks, i)
    if is_op(t, 43) or is_op(t, 45):
        r = parse_factor(toks, i + 1, fuel - 1)
        if r is None:
            return None
        return ("neg" if t[1] == 45 else "pos", r[0]), r[1]
    return parse_primary(toks, i, fuel - 1)


def parse_expr(toks, i, fuel):
    """sum: factor (('+'|'-') factor)*, left associative"""
    if fuel == 0:
        return None
    r = parse_factor(toks, i, fuel - 1)
    if r is None:
        return None
    node, i = r
    while is_op(peek(toks, i), 43) or is_op(peek(toks, i), 45):
        if fuel == 0:
            return None
        fuel -= 1
        r = parse_factor(toks, i + 1, fuel)
        if r is None:
            return None
        node = ("bin", node, r[0])
        i = r[1]
    return node, i


def parse_top(toks):
    fuel = 8 * len(toks) + 16
    items, commas, i = [], 0, 0
    while True:
        t = peek(toks, i)
        if t is None or t[0] == "nl":
            break
        if commas < len(items):
            return None
        r = parse_expr(toks, i, fuel)
        if r is None:
            return None
        items.append(r[0])
        i = r[1]
        if is_op(peek(toks, i), 44):
            commas += 1
            i += 1
    while peek(toks, i) is not None and peek(toks, i)[0] == "nl":
        i += 1
    if i != len(toks) or not items:
        return None
    if len(items) == 1 and commas == 0:
        return items[0]
    return ("tuple", items)


# ---------------------------------------------------------------- _convert
def is_num(v): return v[0] in ("int", "float", "complex")


def hashable(v):
    return not (v[0] == "other" and not v[1])


def convert(node):
    """("ok", value) | ("fail",) | ("raise",)"""
    k = node[0]
    if k == "const":
        v = node[1]
        if v[0] in ("complex", "ellipsis"):
            return ("ok", ("other", True) if v[0] == "ellipsis" else ("complex",))
        return ("ok", v)
    if k in ("tuple", "list", "set"):
        allh = True
        for n in node[1]:
            r = convert(n)
            if r[0] != "ok":
                return r
            v = r[1]
            if not hashable(v):
                if k == "set":
                    return ("raise",)
                allh = False
        return ("ok", ("other", allh if k == "tuple" else False))
    if k == "dict":
        for kn, vn in node[1]:
            r = convert(kn)
            if r[0] != "ok":
                return r
            r2 = convert(vn)
            if r2[0] != "ok":
                return r2
            if not hashable(r[1]):
                return ("raise",)
        return ("ok", ("other", False))
    if k == "setcall":
        return ("ok", ("other", False))
    if k == "bin":
        l = convert_signed_num(node[1])
        if l[0] != "ok":
            return l
        r = convert_num(node[2])
        if r[0] != "ok":
            return r
        if l[1][0] in ("int", "float") and r[1][0] == "complex":
            if l[1][0] == "int" and l[1][1] != 0 and round_ratio(abs(l[1][1]), 1) == "inf":
                return ("raise",)               # OverflowError: int too large to convert to float
            return ("ok", ("complex",))
        return ("fail",)
    return convert_signed_num(node)


def convert_num(node):
    if node[0] != "const" or not is_num(node[1]):
        return ("fail",)
    return ("ok", node[1])


def convert_signed_num(node):
    if node[0] in ("neg", "pos"):
        r = convert_num(node[1])
        if r[0] != "ok":
            return r
        v = r[1]
        if node[0] == "neg":
            if v[0] == "int":
                v = ("int", -v[1])
            elif v[0] == "float":
                v = ("float", not v[1], v[2])
        return ("ok", v)
    return convert_num(node)


def full_eval(e):
    # node_or_string.lstrip(" \t")
    i = 0
    while i < len(e) and e[i] in (32, 9):
        i += 1
    toks = tokenize(e[i:])
    if toks in ("fail", "unsup"):
        return (toks,)
    node = parse_top(toks)
    if node is None:
        return ("fail",)
    r = convert(node)
    if r[0] == "ok" and r[1][0] == "complex":
        return ("ok", ("other", True))
    return r


# ---------------------------------------------------------------- comparison with CPython
def py_canon(v):
    import math
    if v is None:
        return ("none",)
    if v is True or v is False:
        return ("bool", v)
    if isinstance(v, int):
        return ("int", v)
    if isinstance(v, float):
        sign = math.copysign(1.0, v) < 0
        if v == 0:
            return ("float", sign, "zero")
        if math.isinf(v):
            return ("float", sign, "inf")
        n, d = abs(v).as_integer_ratio()
        return ("float", sign, strip2(n, -(d.bit_length() - 1)))
    if isinstance(v, str):
        return ("str", [ord(c) for c in v])
    if isinstance(v, bytes):
        return ("bytes", list(v))
    try:
        hash(v)
        return ("other", True)
    except TypeError:
        return ("other", False)


def real(e):
    import ast, warnings
    s = "".join(map(chr, e))
    try:
        with warnings.catch_warnings():
            warnings.simplefilter("ignore")
            return ("ok", py_canon(ast.literal_eval(s)))
    except (ValueError, SyntaxError):
        return ("fail",)
    except (TypeError, MemoryError, RecursionError, OverflowError):
        return ("raise",)


if __name__ == "__main__":
    import random, sys
    rng = random.Random(int(sys.argv[1]) if len(sys.argv) > 1 else 1)
    N = int(sys.argv[2]) if len(sys.argv) > 2 else 20000
    alpha = list("0123456789") + list("..eEjJxXoObB__+-  \n\t\f\r#,,(())[]{}::''\"\"") + ["None", "True", "False", "set", "...", "é", "a", "r", "u", "f", "\x0b", "1e5", "0x", "1.5", "'a'", "\"\"\""]
    bad = 0
    for n in range(N):
        L = rng.randint(1, rng.choice([3, 6, 10, 16]))
        s = "".join(rng.choice(alpha) for _ in range(L))
        e = [ord(c) for c in s]
        m, r = full_eval(e), real(e)
        if m != r:
            bad += 1
            if bad <= 25:
                print("MISMATCH %r model=%r real=%r" % (s, m, r))
    print("done", N, "mismatches", bad)

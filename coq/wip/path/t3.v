From Coq Require Import List String ZArith NArith Bool.
Import ListNotations.
From DD Require Import Base.Sx Base.PyStr Base.Value Path.PathModel.
Eval vm_compute in (show_pystr (repr_bytes [97;39;1;9;200]%N), show_pystr (repr_bytes [97;39;34]%N)).

From Coq Require Import List ZArith NArith Bool Lia ZifyBool.
Local Open Scope N_scope.
Definition is_digit (c : N) : bool := (48 <=? c) && (c <=? 57).
Goal forall n, is_digit (48 + n mod 10) = true.
Proof. intros. unfold is_digit. assert (n mod 10 < 10) by (apply N.mod_upper_bound; lia).
 Fail lia. 
 remember (n mod 10) as m. lia. Qed.

import random, sys, struct, math
sys.path.insert(0, '/verif/coq/wip/path')
from litmodel import full_eval, real, float_repr, py_canon, dec_to_double, ndigits
rng = random.Random(int(sys.argv[1])); N = int(sys.argv[2])
vocab = ["1", "0", "'a'", "b'c'", "None", "True", "set", "(", ")", "[", "]", "{", "}", ",", ":", "+", "-", "...", "1j", " ", "\n", "1.5", "()", "[]", "{}", "set()", "#\n", "1e400", "9"*320]
bad = uns = okc = rz = 0
for n in range(N):
    s = "".join(rng.choice(vocab) for _ in range(rng.randint(1, rng.choice([4, 8, 12]))))
    e = [ord(c) for c in s]
    a, b = full_eval(e), real(e)
    okc += a[0] == 'ok'; rz += a[0] == 'raise'; uns += a[0] == 'unsup'
    if a != b and a[0] != 'unsup':
        bad += 1
        if bad <= 30: print("MISMATCH %r model=%r real=%r" % (s, a, b))
print("token soup", N, "ok", okc, "raise", rz, "unsup", uns, "mismatches", bad)
# float repr
bad = 0
def rnd_double():
    r = rng.random()
    if r < 0.5:
        bits = rng.getrandbits(64)
        x = struct.unpack('<d', struct.pack('<Q', bits))[0]
    elif r < 0.6:
        x = math.ldexp(1.0, rng.randint(-1074, 1023))
    elif r < 0.7:
        x = math.ldexp(1.0, rng.randint(-1074, 1023)) * (1 + 2.0**-52 * rng.choice([-1, 0, 1, 2]))
    elif r < 0.8:
        x = rng.choice([1e16, 1e15, 1e22, 1e23, 9007199254740992.0, 9007199254740994.0, 5e-324, 2.2250738585072014e-308, 1.7976931348623157e308, 0.1, 0.3, 1e-4, 1e-5, 9.999999999999999e22, 123456789012345680.0, 1e21, 1e-7, 0.5, 25.0, 1.5e16])
    else:
        x = float("%d.%de%d" % (rng.randint(0, 10**6), rng.randint(0, 10**9), rng.randint(-30, 30)))
    return x
for n in range(N):
    x = rnd_double()
    if math.isnan(x): continue
    c = py_canon(x)
    m = float_repr(c[1], c[2])
    want = [ord(ch) for ch in repr(x)]
    if m != want:
        bad += 1
        if bad <= 20: print("REPR MISMATCH", repr(x), "".join(map(chr, m)) if m else m)
print("float repr", N, "mismatches", bad)
bad = 0
for n in range(N):
    nd = rng.randint(1, rng.choice([3, 17, 20, 40]))
    M = rng.randint(0, 10**nd); k = rng.randint(-360, 330) if rng.random() < 0.5 else rng.randint(-25, 25)
    s = "%de%d" % (M, k)
    want = py_canon(float(s))[2]
    got = dec_to_double(M, k, ndigits(M))
    if want != got:
        bad += 1
        if bad <= 20: print("STRTOD MISMATCH", s, got, want)
print("strtod", N, "mismatches", bad)

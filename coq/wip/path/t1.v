From Coq Require Import List String ZArith NArith Bool.
Import ListNotations.
From DD Require Import Base.Sx Base.PyStr Base.Value.
Require Import PathModel.
Local Open Scope string_scope.
Definition ks1 := [PKey (AStr (s2p "a'b")); PIdx 3; PKey (AHalf (-1)); PKey ANone; PKey (AStr (s2p "x\y")); PKey (AInt (-12)); PKey (ABool true)].
Eval vm_compute in show_pystr (render ks1).
Eval vm_compute in option_map sx_path (parse (render ks1)).
Eval vm_compute in option_map sx_value (extract (nest ks1 (VAtom (AInt 7))) (render ks1)).
Definition k5 := [PKey (AStr ([97;39;98;34;99]%N))].
Eval vm_compute in (show_pystr (render k5), option_map sx_path (parse (render k5))).
Definition k6 := [PKey (AStr ([cESC]%N))].
Eval vm_compute in (show_pystr (render k6), option_map sx_path (parse (render k6))).
Eval vm_compute in (literal_eval (s2p " - 1_0"), literal_eval (s2p "01"), literal_eval (s2p "1.50"), literal_eval (s2p ".5"), literal_eval (s2p "rb'a'")).

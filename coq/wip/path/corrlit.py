"""dev: run the Coq model of literal_eval against CPython on fuzzed strings"""
import sys, random, subprocess, os, re, math
sys.path.insert(0, '/verif'); sys.path.insert(0, '/verif/coq/wip/path')
from harness import core
import litmodel
def lit_canon(v):
    if v is None: return None
    if v is True or v is False: return ["b", v]
    if isinstance(v, int): return ["i", v]
    if isinstance(v, float):
        c = litmodel.py_canon(v)
        mag = c[2] if isinstance(c[2], str) else [c[2][0], c[2][1]]
        return ["f", c[1], mag]
    if isinstance(v, str): return ["s", v]
    if isinstance(v, bytes): return ["y", v.decode("latin-1")]
    try:
        hash(v); return ["o", True]
    except TypeError: return ["o", False]
def real(s):
    import ast, warnings
    try:
        with warnings.catch_warnings():
            warnings.simplefilter("ignore")
            return ["ok", lit_canon(ast.literal_eval(s))]
    except (ValueError, SyntaxError): return "fail"
    except (TypeError, MemoryError, RecursionError, OverflowError): return "raise"
def run(strings, name):
    cases = []
    for s in strings:
        cases.append("(c09_lit_or %s (%s),\n %s)" % (core.coq_pystr(s), core.sx(real(s)), core.sx(real(s))))
    fn = "/tmp/c09lit_%s.v" % name
    open(fn, "w").write("From Coq Require Import List String ZArith NArith Bool.\nImport ListNotations.\nFrom DD Require Import Base.Sx Base.PyStr Base.Value Path.PathModel Path.PathLit Path.PathLitShow.\nLocal Open Scope N_scope.\nLocal Open Scope string_scope.\nDefinition cases : list (sx * sx) := [\n" + ";\n".join(cases) + "\n].\nEval vm_compute in run_cases cases.\n")
    out = subprocess.run(["coqc", "-Q", "/verif/coq/theories", "DD", "-Q", "/verif/coq/wip/path", "DD.Path", fn], capture_output=True, text=True, cwd="/tmp", timeout=1200)
    txt = out.stdout + out.stderr
    m = re.search(r'"BEGIN\n(.*)END"', txt, re.S)
    if not m:
        print(txt[-3000:]); return
    body = m.group(1).replace('""', '"')
    n = 0
    for line in body.splitlines():
        if line.strip():
            idx, _, t = line.partition("\t")
            n += 1
            if n <= 15: print("MISMATCH", repr(strings[int(idx)])[:200], "model:", t[:300], "real:", real(strings[int(idx)]))
    print(name, len(strings), "mismatches", n)
if __name__ == "__main__":
    import fuzzlit_gen as G
    rng = random.Random(int(sys.argv[1])); N = int(sys.argv[2])
    run(G.curated(), "curated")
    run([G.structured(rng) for _ in range(N)], "structured")
    run([G.soup(rng) for _ in range(N)], "soup")

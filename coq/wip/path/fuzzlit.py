import random, sys, re
sys.path.insert(0, '/verif/coq/wip/path')
from litmodel import full_eval, real
src = open('/verif/coq/wip/path/c09_le_tests.py').read()
m = re.search(r"tests = (\[.*?\])\nfor t in tests", src, re.S)
tests = eval(m.group(1))
bad = 0
okc = 0
for t in tests:
    e = [ord(c) for c in t]
    a, b = full_eval(e), real(e)
    okc += a[0] == 'ok'
    if a != b:
        bad += 1
        print("CURATED MISMATCH %r model=%r real=%r" % (t, a, b))
print("curated", len(tests), "ok", okc, "bad", bad)

rng = random.Random(int(sys.argv[1]))
N = int(sys.argv[2])
def gen_lit(d=0):
    r = rng.random()
    if r < 0.3:
        return rng.choice(["0", "1", "12", "007", "0_0", "1_0", "0x1f", "0b1_0", "0o7", "1.5", ".5", "5.", "1e5", "1E-5", "1.5e+300", "1e999", "4.9e-324", "2.5e-324", "1e16", "9007199254740993", "0.1", "1e22", "1e23", "123456789012345678", "1.7976931348623157e308", "0.30000000000000004", "1j", "1.5J", "0e0", "00.5", "1_0.0_1e1_0", "179769313486231580793728971405303415079934132710037826936173778980444968292764750946649017977587207096330286416692887910946555547851940402630657488671505820681908902000708383676273854845817711531764475730270069855571366959622842914819860834936475292719074168444365510704342711559699508093042880177904174497791.9999999999999999"])
    if r < 0.45:
        return rng.choice(["None", "True", "False", "...", "set()", "'a'", '"b"', "b'x'", "r'y'", "rb'z'", "'é'", "''", '""', "'a' 'b'", "'''t'''", "u'k'", "f'k'"])
    if r < 0.55:
        return rng.choice(["-", "+", "- ", "--"]) + gen_lit(d + 1)
    if r < 0.65:
        return gen_lit(d + 1) + rng.choice(["+", "-", " + ", " - "]) + gen_lit(d + 1)
    if d > 3:
        return "1"
    n = rng.randint(0, 3)
    items = [gen_lit(d + 1) for _ in range(n)]
    sep = rng.choice([",", ", ", " ,", ",\n", ", #c\n"])
    k = rng.random()
    trail = rng.choice(["", "", ","])
    if k < 0.3:
        return "(" + sep.join(items) + trail + ")"
    if k < 0.5:
        return "[" + sep.join(items) + trail + "]"
    if k < 0.7:
        return "{" + sep.join(items) + trail + "}"
    if k < 0.9:
        return "{" + sep.join(gen_lit(d + 1) + rng.choice([":", ": ", " :"]) + x for x in items) + trail + "}"
    return sep.join(items) + trail
chars = list("0123456789._eEjxob+- \n\t\f\r#,()[]{}:'\"") + ["é", "a", "N", "\x0b", "\ud800", "\x00", "=", "*", "set", "True"]
def mutate(s):
    s = list(s)
    for _ in range(rng.randint(0, 2)):
        r = rng.random()
        i = rng.randrange(len(s) + 1)
        if r < 0.4 and i < len(s):
            del s[i]
        elif r < 0.8:
            s.insert(i, rng.choice(chars))
        elif i < len(s):
            s[i] = rng.choice(chars)
    return "".join(s)
bad = 0; okc = 0; rz = 0
for n in range(N):
    s = gen_lit()
    if rng.random() < 0.6:
        s = mutate(s)
    if rng.random() < 0.2:
        s = rng.choice(["\n", " ", "#x\n", "\f", "\n "]) + s
    if rng.random() < 0.2:
        s = s + rng.choice(["\n", " ", " #x", "\n ", "\n\f", "\n#", "\n\n", "\n1"])
    e = [ord(c) for c in s]
    a, b = full_eval(e), real(e)
    okc += a[0] == 'ok'; rz += a[0] == 'raise'; uns = globals().get('uns', 0) + (a[0] == 'unsup')
    if a != b and a[0] != 'unsup':
        bad += 1
        if bad <= 30:
            print("MISMATCH %r model=%r real=%r" % (s, a, b))
print("structured", N, "ok", okc, "raise", rz, "unsup", uns, "mismatches", bad)

import re, random
def curated():
    src = open('/verif/coq/wip/path/c09_le_tests.py').read()
    m = re.search(r"tests = (\[.*?\])\nfor t in tests", src, re.S)
    t1 = eval(m.group(1))
    src = open('/verif/coq/wip/path/tlit.py').read()
    m = re.search(r"tests = (\[.*?\])\nbad=0", src, re.S)
    t2 = [t for t in eval(m.group(1)) if len(t) < 700]
    return [t for t in t1 + t2 if '\ud800' not in t] 
LITS = ["0", "1", "12", "007", "0_0", "1_0", "0x1f", "0b1_0", "0o7", "1.5", ".5", "5.", "1e5", "1E-5", "1.5e+300", "1e999", "4.9e-324", "2.5e-324", "1e16", "9007199254740993", "0.1", "1e22", "1e23", "123456789012345678", "1.7976931348623157e308", "0.30000000000000004", "1j", "1.5J", "0e0", "00.5", "1_0.0_1e1_0", "1" + "0" * 310, "17976931348623158079372897140530341507993413271003782693617377898044496829276475094664901797758720709633028641669288791094655554785194040263065748867150582068190890200070838367627385484581771153176447573027006985557136695962284291481986083493647529271907416844436551070434271155969950809304288017790417449779.9999999999999999"]
OTH = ["None", "True", "False", "...", "set()", "'a'", '"b"', "b'x'", "r'y'", "rb'z'", "'é'", "''", '""', "'a' 'b'", "'''t'''", "u'k'", "f'k'"]
def gen_lit(rng, d=0):
    r = rng.random()
    if r < 0.3: return rng.choice(LITS)
    if r < 0.45: return rng.choice(OTH)
    if r < 0.55: return rng.choice(["-", "+", "- ", "--"]) + gen_lit(rng, d + 1)
    if r < 0.65: return gen_lit(rng, d + 1) + rng.choice(["+", "-", " + ", " - "]) + gen_lit(rng, d + 1)
    if r < 0.70: return gen_lit(rng, d + 1) + rng.choice(["()", "(1)", "[1]", "[1:2]", "[::]", "[1,2:]", "(1,)"])
    if d > 3: return "1"
    n = rng.randint(0, 3)
    items = [gen_lit(rng, d + 1) for _ in range(n)]
    sep = rng.choice([",", ", ", " ,", ",\n", ", #c\n"])
    k = rng.random(); trail = rng.choice(["", "", ","])
    if k < 0.3: return "(" + sep.join(items) + trail + ")"
    if k < 0.5: return "[" + sep.join(items) + trail + "]"
    if k < 0.7: return "{" + sep.join(items) + trail + "}"
    if k < 0.9: return "{" + sep.join(gen_lit(rng, d + 1) + rng.choice([":", ": ", " :"]) + x for x in items) + trail + "}"
    return sep.join(items) + trail
CHARS = list("0123456789._eEjxob+- \n\t\f\r#,()[]{}:'\"") + ["é", "a", "N", "\x0b", "\x00", "=", "*", "set", "True"]
def mutate(rng, s):
    s = list(s)
    for _ in range(rng.randint(0, 2)):
        r = rng.random(); i = rng.randrange(len(s) + 1)
        if r < 0.4 and i < len(s): del s[i]
        elif r < 0.8: s.insert(i, rng.choice(CHARS))
        elif i < len(s): s[i] = rng.choice(CHARS)
    return "".join(s)
def structured(rng):
    s = gen_lit(rng)
    if rng.random() < 0.6: s = mutate(rng, s)
    if rng.random() < 0.2: s = rng.choice(["\n", " ", "#x\n", "\f", "\n "]) + s
    if rng.random() < 0.2: s = s + rng.choice(["\n", " ", " #x", "\n ", "\n\f", "\n#", "\n\n", "\n1"])
    return s
VOCAB = ["1", "0", "'a'", "b'c'", "None", "True", "set", "(", ")", "[", "]", "{", "}", ",", ":", "+", "-", "...", "1j", " ", "\n", "1.5", "()", "[]", "{}", "set()", "#\n", "1e400", "9"*320]
def soup(rng):
    return "".join(rng.choice(VOCAB) for _ in range(rng.randint(1, rng.choice([4, 8, 12]))))

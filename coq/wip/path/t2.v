From Coq Require Import List ZArith NArith Bool Lia ZifyBool.
Local Open Scope N_scope.
Definition is_digit (c : N) : bool := (48 <=? c) && (c <=? 57).
Definition is_ws (c : N) : bool := (c =? 32) || (c =? 9) || (c =? 10).
Goal forall c, is_digit c = true -> is_ws c = false.
Proof. unfold is_digit, is_ws. intros. lia. Qed.
Goal forall c, is_digit c = true -> (c =? 78) = false.
Proof. unfold is_digit. intros. lia. Qed.

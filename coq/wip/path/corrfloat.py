import sys, random, subprocess, re, math, struct
sys.path.insert(0, '/verif'); sys.path.insert(0, '/verif/coq/wip/path')
from harness import core
import litmodel
rng = random.Random(int(sys.argv[1])); N = int(sys.argv[2])
def rnd_double():
    r = rng.random()
    if r < 0.02:
        x = struct.unpack('<d', struct.pack('<Q', rng.getrandbits(64)))[0]
    elif r < 0.5:
        x = math.ldexp(rng.random() + 0.5, rng.randint(-80, 80)) * rng.choice([1, -1])
    elif r < 0.6:
        x = math.ldexp(1.0, rng.randint(-1074, 1023) if rng.random() < 0.1 else rng.randint(-100, 100))
    elif r < 0.7:
        x = math.ldexp(1.0, rng.randint(-100, 100)) * (1 + 2.0**-52 * rng.choice([-1, 0, 1, 2]))
    elif r < 0.8:
        x = rng.choice([1e16, 1e15, 1e22, 1e23, 9007199254740992.0, 9007199254740994.0, 5e-324, 2.2250738585072014e-308, 1.7976931348623157e308, 0.1, 0.3, 1e-4, 1e-5, 9.999999999999999e22, 123456789012345680.0, 1e21, 1e-7, 0.5, 25.0, 1.5e16, 0.0, -0.0, float('inf'), float('-inf')])
    else:
        x = float("%d.%de%d" % (rng.randint(0, 10**6), rng.randint(0, 10**9), rng.randint(-30, 30)))
    return x
def coq_mag(m):
    if m == "zero": return "FZero"
    if m == "inf": return "FInf"
    return "(FFin %d%%positive %s)" % (m[0], core.coq_Z(m[1]))
xs = [x for x in (rnd_double() for _ in range(N)) if not math.isnan(x)]
cases = []
for x in xs:
    c = litmodel.py_canon(x)
    cases.append("(c09_float_repr %s %s,\n %s)" % ("true" if c[1] else "false", coq_mag(c[2]), core.sx(["Some", repr(x)])))
fn = "/tmp/c09float.v"
open(fn, "w").write("From Coq Require Import List String ZArith NArith Bool.\nImport ListNotations.\nFrom DD Require Import Base.Sx Base.PyStr Base.Value Path.PathModel Path.PathLit Path.PathLitShow.\nLocal Open Scope string_scope.\nDefinition cases : list (sx * sx) := [\n" + ";\n".join(cases) + "\n].\nEval vm_compute in run_cases cases.\n")
out = subprocess.run(["coqc", "-Q", "/verif/coq/theories", "DD", "-Q", "/verif/coq/wip/path", "DD.Path", fn], capture_output=True, text=True, cwd="/tmp", timeout=1200)
txt = out.stdout + out.stderr
m = re.search(r'"BEGIN\n(.*)END"', txt, re.S)
if not m: print(txt[-2000:])
else:
    n = 0
    for line in m.group(1).splitlines():
        if line.strip():
            idx, _, t = line.partition("\t"); n += 1
            if n <= 10: print("MISMATCH", repr(xs[int(idx)]), t[:200])
    print("float repr", len(xs), "mismatches", n)

#!/bin/sh
# compile wip files of the Path block: ./cc.sh File.v
cd /verif/coq/wip/path && timeout ${T:-600} coqc -Q /verif/coq/theories DD -Q /verif/coq/wip/path DD.Path "$@" 2>&1 | grep -v conda; true

#!/bin/bash
# install the wip copies into theories (logical prefix back to Filter) and build
cd /verif/coq/wip/filter
for f in Filter*.v; do sed 's/\bFilterW\.Filter/Filter.Filter/g' $f > /verif/coq/theories/Filter/$f; done
sed 's/\bFilterW\.Filter/Filter.Filter/g' C13.v > /verif/coq/theories/Properties/C13.v
cd /verif/coq && timeout 1500 ./mk theories/Properties/C13.vo 2>&1 | grep -v "^COQC\|^COQDEP\|conda" | tail -5

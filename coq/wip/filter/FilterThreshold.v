(** C13 - exclusion and threshold_to_diff_deeper.  [stable E c t1 t2 p] says:
    at every pair of dictionaries the diff compares, subtracting the excluded
    keys from the union does not change the whole-dict shortcut.  Under that
    guard literal exclusion is a pure filter of the unrestricted run at any
    threshold; without it it is not (Properties/C13.v, _refuted). *)
From Coq Require Import List ZArith NArith Bool Arith Lia.
Import ListNotations.
From DD Require Import Base.PyStr Base.Value Base.ValueFacts Diff.Tree Diff.DiffModel Diff.DiffFacts
  Path.PathModel FilterW.FilterModel FilterW.FilterFacts FilterW.FilterProofs FilterW.FilterExclude.

Fixpoint stable (excl : path -> bool) (c : cfg) (t1 t2 : value) (p : path) {struct t1} : bool :=
  match t1, t2 with
  | VDict kvs1, VDict kvs2 =>
      let k1 := keys_of c kvs1 in
      let k2 := keys_of c kvs2 in
      Bool.eqb (dict_shortcut excl c k1 k2 p) (dict_shortcut no_skip c k1 k2 p) &&
      (dict_shortcut no_skip c k1 k2 p ||
       (fix go (l : list (atom * value)) : bool :=
          match l with
          | [] => true
          | (k, v1) :: r =>
              (if keep_key c k then
                 match find (py_eq k) k2 with
                 | Some k' => match assoc k' kvs2 with
                              | Some v2 => stable excl c v1 v2 (snoc p (PKey k'))
                              | None => true
                              end
                 | None => true
                 end
               else true) && go r
          end) kvs1)
  | VList xs, VList ys | VTuple xs, VTuple ys =>
      (fix go (xs ys : list value) (i : nat) {struct xs} : bool :=
         match xs, ys with
         | x :: xs', y :: ys' => stable excl c x y (snoc p (PIdx i)) && go xs' ys' (S i)
         | _, _ => true
         end) xs ys 0
  | _, _ => true
  end.

Definition st_common (st : value -> value -> path -> bool) (c : cfg)
    (kvs2 : list (atom * value)) (k2 : list atom) (p : path) :=
  fix go (l : list (atom * value)) : bool :=
    match l with
    | [] => true
    | (k, v1) :: r =>
        (if keep_key c k then
           match find (py_eq k) k2 with
           | Some k' => match assoc k' kvs2 with
                        | Some v2 => st v1 v2 (snoc p (PKey k'))
                        | None => true
                        end
           | None => true
           end
         else true) && go r
    end.
Definition st_list (st : value -> value -> path -> bool) (p : path) :=
  fix go (xs ys : list value) (i : nat) {struct xs} : bool :=
    match xs, ys with
    | x :: xs', y :: ys' => st x y (snoc p (PIdx i)) && go xs' ys' (S i)
    | _, _ => true
    end.

Lemma stable_dict excl c kvs1 kvs2 p :
  stable excl c (VDict kvs1) (VDict kvs2) p =
  Bool.eqb (dict_shortcut excl c (keys_of c kvs1) (keys_of c kvs2) p)
           (dict_shortcut no_skip c (keys_of c kvs1) (keys_of c kvs2) p) &&
  (dict_shortcut no_skip c (keys_of c kvs1) (keys_of c kvs2) p ||
   st_common (stable excl c) c kvs2 (keys_of c kvs2) p kvs1).
Proof. reflexivity. Qed.
Lemma stable_list excl c xs ys p :
  stable excl c (VList xs) (VList ys) p = st_list (stable excl c) p xs ys 0.
Proof. reflexivity. Qed.
Lemma stable_tuple excl c xs ys p :
  stable excl c (VTuple xs) (VTuple ys) p = st_list (stable excl c) p xs ys 0.
Proof. reflexivity. Qed.

Lemma stable_thr0 excl c t1 : thr_num c = 0 -> forall t2 p, stable excl c t1 t2 p = true.
Proof.
  intros T. induction t1 as [a|xs IH|xs IH|kvs IH|xs|xs] using value_ind'; intros t2 p;
    destruct t2 as [b|ys|ys|kvs2|ys|ys]; try reflexivity.
  - rewrite stable_list. generalize 0 as i. revert ys.
    induction IH as [|x xs Hx _ IHl]; intros ys i; [reflexivity|]. destruct ys as [|y ys]; [reflexivity|].
    cbn [st_list]. rewrite Hx, IHl. reflexivity.
  - rewrite stable_tuple. generalize 0 as i. revert ys.
    induction IH as [|x xs Hx _ IHl]; intros ys i; [reflexivity|]. destruct ys as [|y ys]; [reflexivity|].
    cbn [st_list]. rewrite Hx, IHl. reflexivity.
  - rewrite stable_dict, !shortcut_thr0 by exact T. cbn [Bool.eqb andb orb].
    induction IH as [|[k v1] l Hx _ IHl]; [reflexivity|]. cbn [st_common]. rewrite IHl, andb_true_r.
    destruct (keep_key c k); [|reflexivity]. destruct (find _ _); [|reflexivity].
    destruct (assoc _ _); [|reflexivity]. apply Hx.
Qed.

Section Stable.
Variable hatom : atom -> pystr.
Variable udiff : pystr -> pystr -> pystr.
Variable ops : path -> list value -> list value -> list opcode.
Variable excl : path -> bool.
Variable c : cfg.
Notation dE := (diffx hatom udiff ops no_skip excl no_kf c).
Notation dN := (diffx hatom udiff ops no_skip no_skip no_kf c).

Definition StableEq (t1 : value) : Prop :=
  forall t2 p p2, stable excl c t1 t2 p = true -> dE t1 t2 p p2 = dN t1 t2 p p2.

Lemma stable_list_eq p p2 xs : Forall StableEq xs ->
  forall ys i, st_list (stable excl c) p xs ys i = true ->
  gox_list no_skip dE p p2 xs ys i = gox_list no_skip dN p p2 xs ys i.
Proof.
  induction 1 as [|x xs Hx _ IH]; intros ys i S; [reflexivity|].
  destruct ys as [|y ys]; [reflexivity|]. cbn [st_list] in S. apply andb_true_iff in S as [S1 S2].
  cbn [gox_list]. rewrite (Hx _ _ _ S1), (IH _ _ S2). reflexivity.
Qed.

Lemma stable_common_eq p p2 kvs2 k2 l : Forall (fun kv => StableEq (snd kv)) l ->
  st_common (stable excl c) c kvs2 k2 p l = true ->
  gox_common no_kf c dE kvs2 k2 p p2 l = gox_common no_kf c dN kvs2 k2 p p2 l.
Proof.
  induction 1 as [|[k v1] l Hx _ IH]; intros S; [reflexivity|].
  cbn [st_common] in S. apply andb_true_iff in S as [S1 S2]. cbn [snd] in Hx.
  cbn [gox_common]. rewrite (IH S2). unfold no_kf at 1 3. cbn [negb]. rewrite andb_true_r.
  destruct (keep_key c k); [|reflexivity]. destruct (find (py_eq k) k2) as [k'|]; [|reflexivity].
  destruct (assoc k' kvs2) as [v2|]; [|reflexivity]. rewrite (Hx _ _ _ S1). reflexivity.
Qed.

Lemma stable_eq t1 : StableEq t1.
Proof.
  induction t1 as [a|xs IH|xs IH|kvs IH|xs|xs] using value_ind'; intros t2 p p2 S;
  (match goal with |- diffx _ _ _ _ _ _ _ ?t1 _ _ _ = _ =>
     destruct (ty_eqb (type_of t1) (type_of t2)) eqn:T end;
    [|rewrite !diffx_type by (assumption || reflexivity); reflexivity]);
  apply same_type_shape in T; inversion T; subst.
  - rewrite !diffx_atom by (assumption || reflexivity). reflexivity.
  - rewrite !diffx_list by reflexivity. unfold seqx_body.
    destruct (negb (zip c) && forallb is_atom xs && forallb is_atom ys); [reflexivity|].
    apply stable_list_eq; [exact IH|]. rewrite stable_list in S. exact S.
  - rewrite !diffx_tuple by reflexivity. unfold seqx_body.
    destruct (negb (zip c) && forallb is_atom xs && forallb is_atom ys); [reflexivity|].
    apply stable_list_eq; [exact IH|]. rewrite stable_tuple in S. exact S.
  - rewrite !diffx_dict by reflexivity. unfold dictx_body. rewrite !keys_x_no_kf.
    rewrite stable_dict in S. apply andb_true_iff in S as [S1 S2]. apply Bool.eqb_prop in S1. rewrite S1.
    destruct (dict_shortcut no_skip c (keys_of c kvs) (keys_of c ys) p); [reflexivity|].
    cbn [orb] in S2. rewrite (stable_common_eq p p2 ys (keys_of c ys) kvs IH S2). reflexivity.
  - rewrite !diffx_vset by reflexivity. reflexivity.
  - rewrite !diffx_vfrozen by reflexivity. reflexivity.
Qed.

Lemma run_stable t1 t2 : stable excl c t1 t2 [] = true ->
  run_diff hatom udiff ops no_skip excl c t1 t2 = run_diff hatom udiff ops no_skip no_skip c t1 t2.
Proof.
  intros S. rewrite <- !run_diffx_no_kf. unfold run_diffx. rewrite (stable_eq t1 t2 [] [] S). reflexivity.
Qed.
End Stable.

(* exclusion at any threshold, guarded *)
Theorem exclude_filter_stable hatom udiff ops c P excl t1 t2 :
  (zip c = true \/ idx_closed P) -> wf t2 = true -> stable excl c t1 t2 [] = true ->
  fst (run_diff hatom udiff ops P excl c t1 t2) =
  filter (fun e => not_under P (ep1 e)) (fst (run_diff hatom udiff ops no_skip no_skip c t1 t2)).
Proof.
  intros M W S. rewrite <- (run_stable hatom udiff ops excl c t1 t2 S).
  apply exclude_filter_gen; [exact M|reflexivity|exact W].
Qed.

#!/bin/bash
# compile the wip copies (logical prefix DD.FilterW) in dependency order; usage: build.sh [from-file]
cd /verif/coq/wip/filter
order="FilterModel FilterShow FilterFacts FilterProofs FilterExclude FilterThreshold FilterIndep FilterInclude FilterWitness C13"
start=${1:-FilterModel}
go=0
for f in $order; do
  [ "$f" = "$start" ] && go=1
  [ $go = 1 ] || continue
  out=$(timeout 600 coqc -Q /verif/coq/theories DD -Q /verif/coq/wip/filter DD.FilterW $f.v 2>&1 | grep -v conda)
  if echo "$out" | grep -q "Error"; then echo "== $f"; echo "$out" | tail -${TAILN:-30}; exit 1; fi
done
echo ALLOK

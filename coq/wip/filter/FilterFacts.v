(** C13 - unfolding equations of [diffx], list facts, "every entry lies at or
    below the level it was produced at", and [diffx] without key filter is
    the lead's [diff]. *)
From Coq Require Import List ZArith NArith Bool Arith Lia.
Import ListNotations.
From DD Require Import Base.PyStr Base.Value Base.ValueFacts Diff.Tree Diff.DiffModel
  Path.PathModel FilterW.FilterModel.

Definition RT := (list entry * list path)%type.

(* ------------------------------------------------------------------ *)
(* lists                                                               *)
(* ------------------------------------------------------------------ *)
Lemma filter_all {A} (f : A -> bool) l : (forall x, In x l -> f x = true) -> filter f l = l.
Proof.
  induction l as [|a l IH]; cbn; intros H; [reflexivity|].
  rewrite (H a) by (left; reflexivity). f_equal. apply IH. intros x Hx. apply H. right; exact Hx.
Qed.

Lemma filter_none {A} (f : A -> bool) l : (forall x, In x l -> f x = false) -> filter f l = [].
Proof.
  induction l as [|a l IH]; cbn; intros H; [reflexivity|].
  rewrite (H a) by (left; reflexivity). apply IH. intros x Hx. apply H. right; exact Hx.
Qed.

Lemma filter_true {A} (l : list A) : filter (fun _ => true) l = l.
Proof. apply filter_all. reflexivity. Qed.

Lemma filter_flat_map {A B} (f : B -> bool) (g : A -> list B) l :
  filter f (flat_map g l) = flat_map (fun x => filter f (g x)) l.
Proof.
  induction l as [|a l IH]; cbn; [reflexivity|]. rewrite filter_app, IH. reflexivity.
Qed.

Lemma find_none {A} (f : A -> bool) l : (forall x, In x l -> f x = false) -> find f l = None.
Proof.
  induction l as [|a l IH]; cbn; intros H; [reflexivity|].
  rewrite (H a) by (left; reflexivity). apply IH. intros x Hx. apply H. right; exact Hx.
Qed.

Lemma find_in {A} (f : A -> bool) l x : find f l = Some x -> In x l /\ f x = true.
Proof. apply find_some. Qed.

(* the first match survives a filter that keeps it *)
Lemma find_filter_keep {A} (f g : A -> bool) l x :
  find f l = Some x -> g x = true -> find f (filter g l) = Some x.
Proof.
  induction l as [|a l IH]; cbn; [discriminate|].
  destruct (f a) eqn:Fa.
  - intros H; inversion H; subst. intros Gx. rewrite Gx. cbn. rewrite Fa. reflexivity.
  - intros H Gx. destruct (g a); cbn; [rewrite Fa|]; apply IH; assumption.
Qed.

Lemma find_filter_none {A} (f g : A -> bool) l : find f l = None -> find f (filter g l) = None.
Proof.
  induction l as [|a l IH]; cbn; [reflexivity|].
  destruct (f a) eqn:Fa; [discriminate|]. intros H. destruct (g a); cbn; [rewrite Fa|]; apply IH; exact H.
Qed.

(* ------------------------------------------------------------------ *)
(* atoms, keys, paths                                                  *)
(* ------------------------------------------------------------------ *)
Lemma pkey_eqb_eq a b : pkey_eqb a b = true <-> a = b.
Proof.
  destruct a as [x|i], b as [y|j]; cbn; split; intros H; try discriminate.
  - apply atom_eqb_eq in H. congruence.
  - inversion H. apply atom_eqb_refl.
  - apply Nat.eqb_eq in H. congruence.
  - inversion H. apply Nat.eqb_refl.
Qed.

Lemma path_eqb_eq p q : path_eqb p q = true <-> p = q.
Proof.
  revert q; induction p as [|a p IH]; intros [|b q]; cbn; split; intros H; try reflexivity; try discriminate.
  - apply andb_true_iff in H as [H1 H2]. apply pkey_eqb_eq in H1. apply IH in H2. congruence.
  - inversion H; subst. apply andb_true_iff. split; [apply pkey_eqb_eq; reflexivity|apply IH; reflexivity].
Qed.

Lemma path_eqb_refl p : path_eqb p p = true.
Proof. apply path_eqb_eq. reflexivity. Qed.

Lemma nodup_filter (g : atom -> bool) l : nodup_atoms l = true -> nodup_atoms (filter g l) = true.
Proof.
  induction l as [|a l IH]; cbn; [reflexivity|]. intros H. apply andb_true_iff in H as [Ha Hl].
  destruct (g a); [|apply IH; exact Hl]. cbn. rewrite (IH Hl), andb_true_r.
  apply negb_true_iff in Ha. apply negb_true_iff.
  destruct (mem_atom a (filter g l)) eqn:M; [|reflexivity].
  apply mem_atom_In in M as (b & Hb & E). apply filter_In in Hb as [Hb _].
  assert (mem_atom a l = true) by (apply mem_atom_In; exists b; split; assumption). congruence.
Qed.

(* in a list without ==-duplicates the match of [k] is unique: filtering either keeps it or leaves none *)
Lemma find_filter_nodup (g : atom -> bool) k l k' :
  nodup_atoms l = true -> find (py_eq k) l = Some k' ->
  find (py_eq k) (filter g l) = if g k' then Some k' else None.
Proof.
  induction l as [|a l IH]; cbn; [discriminate|]. intros N. apply andb_true_iff in N as [Na Nl].
  destruct (py_eq k a) eqn:E.
  - intros H; inversion H; subst k'. destruct (g a) eqn:G; cbn; [rewrite E; reflexivity|].
    apply find_none. intros x Hx. apply filter_In in Hx as [Hx _].
    destruct (py_eq k x) eqn:E2; [|reflexivity]. exfalso.
    apply negb_true_iff in Na.
    assert (mem_atom a l = true).
    { apply mem_atom_In. exists x. split; [exact Hx|]. eapply py_eq_trans; [|exact E2]. rewrite py_eq_sym. exact E. }
    congruence.
  - intros H. destruct (g a); cbn; [rewrite E|]; apply IH; assumption.
Qed.

Lemma snoc_app (p : path) k l : snoc p k ++ l = p ++ k :: l.
Proof. unfold snoc. rewrite <- app_assoc. reflexivity. Qed.

(* ------------------------------------------------------------------ *)
(* unfolding [diffx]                                                   *)
(* ------------------------------------------------------------------ *)
Section Unfold.
Variable hatom : atom -> pystr.
Variable udiff : pystr -> pystr -> pystr.
Variable ops : path -> list value -> list value -> list opcode.
Variable skip excl : path -> bool.
Variable kf : path -> atom -> bool.
Variable c : cfg.
Notation diffx := (diffx hatom udiff ops skip excl kf c).

Definition gox_common (d : value -> value -> path -> path -> RT)
    (kvs2 : list (atom * value)) (k2 : list atom) (p1 p2 : path) :=
  fix go (l : list (atom * value)) : RT :=
    match l with
    | [] => ([], [])
    | (k, v1) :: r =>
        let rest := go r in
        if keep_key c k && negb (kf p1 k) then
          match find (py_eq k) k2 with
          | Some k' =>
              match assoc k' kvs2 with
              | Some v2 => app2 (d v1 v2 (snoc p1 (PKey k')) (snoc p2 (PKey k'))) rest
              | None => rest
              end
          | None => rest
          end
        else rest
    end.

Definition gox_list (d : value -> value -> path -> path -> RT) (p1 p2 : path) :=
  fix go (xs ys : list value) (i : nat) {struct xs} : RT :=
    match xs, ys with
    | [], _ => (added_from skip ys i p1 p2, [])
    | _ :: _, [] => (removed_from skip xs i p1 p2, [])
    | x :: xs', y :: ys' =>
        app2 (d x y (snoc p1 (PIdx i)) (snoc p2 (PIdx i))) (go xs' ys' (S i))
    end.

Definition added_x (k1 k2 : list atom) (kvs2 : list (atom * value)) (p1 p2 : path) : list entry :=
  flat_map (fun k => if mem_atom k k1 then []
     else report skip KDictAdd (snoc p1 (PKey k)) (snoc p2 (PKey k)) None (assoc k kvs2) None) k2.
Definition removed_x (k1 k2 : list atom) (kvs1 : list (atom * value)) (p1 p2 : path) : list entry :=
  flat_map (fun k => if mem_atom k k2 then []
     else report skip KDictRem (snoc p1 (PKey k)) (snoc p2 (PKey k)) (assoc k kvs1) None None) k1.

Definition dictx_body (kvs1 kvs2 : list (atom * value)) (p1 p2 : path) : RT :=
  let k1 := keys_x kf c p1 kvs1 in
  let k2 := keys_x kf c p1 kvs2 in
  if dict_shortcut excl c k1 k2 p1
  then (report skip KValue p1 p2 (Some (VDict kvs1)) (Some (VDict kvs2)) None, [])
  else
    let common := gox_common diffx kvs2 k2 p1 p2 kvs1 in
    (added_x k1 k2 kvs2 p1 p2 ++ removed_x k1 k2 kvs1 p1 p2 ++ fst common, snd common).

Definition seqx_body (xs ys : list value) (p1 p2 : path) : RT :=
  if negb (zip c) && forallb is_atom xs && forallb is_atom ys
  then let '(es, rec) := default_leaf_list udiff ops skip xs ys p1 p2 in (es, if rec then [p1] else [])
  else gox_list diffx p1 p2 xs ys 0.

Lemma diffx_skip t1 t2 p1 p2 : skip p1 = true -> diffx t1 t2 p1 p2 = ([], []).
Proof. intros H. destruct t1; cbn; rewrite H; reflexivity. Qed.

Lemma diffx_type t1 t2 p1 p2 :
  skip p1 = false -> ty_eqb (type_of t1) (type_of t2) = false ->
  diffx t1 t2 p1 p2 = (report skip KType p1 p2 (Some t1) (Some t2) None, []).
Proof. intros H T. destruct t1; cbn; rewrite H; cbn in T; rewrite T; reflexivity. Qed.

Lemma diffx_atom a b p1 p2 :
  skip p1 = false -> ty_eqb (atom_ty a) (atom_ty b) = true ->
  diffx (VAtom a) (VAtom b) p1 p2 = (diff_atom udiff skip a b p1 p2, []).
Proof. intros H T. cbn. rewrite H, T. reflexivity. Qed.

Lemma diffx_dict kvs1 kvs2 p1 p2 :
  skip p1 = false -> diffx (VDict kvs1) (VDict kvs2) p1 p2 = dictx_body kvs1 kvs2 p1 p2.
Proof. intros H. cbn. rewrite H. reflexivity. Qed.

Lemma diffx_list xs ys p1 p2 :
  skip p1 = false -> diffx (VList xs) (VList ys) p1 p2 = seqx_body xs ys p1 p2.
Proof. intros H. cbn. rewrite H. reflexivity. Qed.

Lemma diffx_tuple xs ys p1 p2 :
  skip p1 = false -> diffx (VTuple xs) (VTuple ys) p1 p2 = seqx_body xs ys p1 p2.
Proof. intros H. cbn. rewrite H. reflexivity. Qed.

Lemma diffx_vset xs ys p1 p2 :
  skip p1 = false -> diffx (VSet xs) (VSet ys) p1 p2 = (diff_set hatom skip xs ys p1 p2, []).
Proof. intros H. cbn. rewrite H. reflexivity. Qed.

Lemma diffx_vfrozen xs ys p1 p2 :
  skip p1 = false -> diffx (VFrozen xs) (VFrozen ys) p1 p2 = (diff_set hatom skip xs ys p1 p2, []).
Proof. intros H. cbn. rewrite H. reflexivity. Qed.

(* the shape of a same-type pair *)
Inductive same_shape : value -> value -> Prop :=
| SSAtom a b : ty_eqb (atom_ty a) (atom_ty b) = true -> same_shape (VAtom a) (VAtom b)
| SSList xs ys : same_shape (VList xs) (VList ys)
| SSTuple xs ys : same_shape (VTuple xs) (VTuple ys)
| SSDict xs ys : same_shape (VDict xs) (VDict ys)
| SSSet xs ys : same_shape (VSet xs) (VSet ys)
| SSFrozen xs ys : same_shape (VFrozen xs) (VFrozen ys).

Lemma same_type_shape t1 t2 : ty_eqb (type_of t1) (type_of t2) = true -> same_shape t1 t2.
Proof.
  destruct t1 as [a| | | | |], t2 as [b| | | | |]; cbn; intros H; try discriminate; try constructor.
  - exact H.
  - destruct a; discriminate.
  - destruct a; discriminate.
  - destruct a; discriminate.
  - destruct a; discriminate.
  - destruct a; discriminate.
  - destruct b; discriminate.
  - destruct b; discriminate.
  - destruct b; discriminate.
  - destruct b; discriminate.
  - destruct b; discriminate.
Qed.

End Unfold.

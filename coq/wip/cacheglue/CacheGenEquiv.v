(** C17 source tie: the definitions regenerated from the CURRENT deepdiff/diff.py + deepdiff/deephash.py
    (DDGen.CacheGen, harness/translate/cacheglue.py) equal the hand-written model, for all arguments and all
    oracles; the C17 theorems restated about the generated glue. *)
From Coq Require Import List ZArith NArith Bool Arith String Lia.
Import ListNotations.
From DD Require Import Base.PyStr Lfu.LfuModel DiffIO.MemoModel DiffIO.MemoProofs DiffIO.MemoKeys DiffIO.MemoSrcPrims
  DiffIO.MemoStepProofs DiffIO.MemoGlue DiffIO.MemoPairs DiffIO.MemoPairsProofs.
From DDGen Require Import CacheGen.
Local Open Scope Z_scope.

(* ====================================================================== *)
(** * the two key functions *)
Section Keys.
Variable A : Type.
Variable gt : A -> A -> bool.
Variable srt : list A -> list A.
Variable str_of : A -> pystr.
Variable hasher : pystr -> pystr.
Variable hash_bytes : A -> pystr.
Variable kob kos : pystr -> key.

Lemma g_combine_hashes_lists_loop_eq : forall items acc,
  g_combine_hashes_lists_loop A srt str_of items acc =
  (acc ++ List.concat (map (fun it => hashes_text A str_of (srt it)) items))%list.
Proof.
  induction items as [|it items IH]; intro acc; cbn [g_combine_hashes_lists_loop map List.concat].
  - rewrite app_nil_r. reflexivity.
  - rewrite IH. unfold pycat, hashes_text. rewrite <- app_assoc. reflexivity.
Qed.

Theorem g_combine_hashes_lists_eq : forall items prefix,
  g_combine_hashes_lists A srt str_of hasher kos items prefix = combine_model A kos str_of hasher srt items prefix.
Proof.
  intros items prefix. unfold g_combine_hashes_lists, combine_model. rewrite g_combine_hashes_lists_loop_eq. reflexivity.
Qed.

(* on the two hash lists of a level: MemoPairs' [pkey] = [pk] of the two SORTED lists (where finding K28 lives) *)
Corollary g_pairs_key_eq : forall prefix l l',
  g_combine_hashes_lists A srt str_of hasher kos [l; l'] prefix = pk_text A kos str_of hasher prefix (srt l) (srt l').
Proof.
  intros prefix l l'. rewrite g_combine_hashes_lists_eq. unfold combine_model, pk_text. cbn [map List.concat].
  rewrite app_nil_r. reflexivity.
Qed.

(* MemoKeys' [skey]: the larger hash first (where finding K17 lives) *)
Theorem g__get_distance_cache_key_eq : forall a r,
  g__get_distance_cache_key A gt hash_bytes kob a r = skey A (okey_text A hash_bytes kob) gt a r.
Proof.
  intros a r. unfold g__get_distance_cache_key, skey, okey_text, pycat. destruct (gt a r); reflexivity.
Qed.
End Keys.

(* ====================================================================== *)
(** * the two memoised methods = one [memo_step] each *)
Section Methods.
Variables A V Obj HT PIDS OT : Type.
Variable sched : nat -> bool.
Variable gt : A -> A -> bool.
Variable srt : list A -> list A.
Variable str_of : A -> pystr.
Variable hasher : pystr -> pystr.
Variable hash_bytes : A -> pystr.
Variable kob kos : pystr -> key.
Variable not_found : V.

Theorem g__get_rough_distance_of_hashed_objs_eq :
  forall (nested : Obj -> Obj -> OT -> mstate V -> V * mstate V) a r (ao ro : Obj) (ot : OT) (s : mstate V),
  g__get_rough_distance_of_hashed_objs A V Obj OT sched gt hash_bytes kob nested a r ao ro ot s =
  memo_step V sched (g__get_distance_cache_key A gt hash_bytes kob a r) (nested ro ao ot) s.
Proof.
  intros nested a r ao ro ot s. unfold g__get_rough_distance_of_hashed_objs, memo_step, read_flag, cache_contains, cache_get, cache_set, get, contains.
  set (k := g__get_distance_cache_key A gt hash_bytes kob a r).
  cbn [mcache mclock fst snd].
  destruct (sched (mclock s)).
  - destruct (find_key k (buckets (mcache s))) as [[n v]|]; cbn [mcache mclock fst snd]; [reflexivity|].
    destruct (nested ro ao ot (mkM (mcache s) (S (mclock s)))) as [v s1]. cbn [mcache mclock fst snd].
    destruct (sched (mclock s1)); reflexivity.
  - destruct (nested ro ao ot (mkM (mcache s) (S (mclock s)))) as [v s1]. reflexivity.
Qed.

Theorem g__get_most_in_common_pairs_in_iterables_eq :
  forall (pairs_body : list A -> list A -> HT -> HT -> PIDS -> OT -> mstate V -> V * mstate V)
         adds rems (h1 h2 : HT) (pids : PIDS) (ot : OT) (s : mstate V),
  g__get_most_in_common_pairs_in_iterables A V HT PIDS OT sched srt str_of hasher kos not_found pairs_body adds rems h1 h2 pids ot s =
  memo_step V sched (g_combine_hashes_lists A srt str_of hasher kos [adds; rems] (s2p "pairs_cache"))
            (pairs_body adds rems h1 h2 pids ot) s.
Proof.
  intros pairs_body adds rems h1 h2 pids ot s.
  unfold g__get_most_in_common_pairs_in_iterables, memo_step, read_flag, cache_contains, cache_get, cache_set, get, contains.
  set (k := g_combine_hashes_lists A srt str_of hasher kos [adds; rems] (s2p "pairs_cache")).
  cbn [mcache mclock fst snd].
  destruct (sched (mclock s)).
  - destruct (find_key k (buckets (mcache s))) as [[n v]|]; cbn [mcache mclock fst snd]; [reflexivity|].
    destruct (pairs_body adds rems h1 h2 pids ot (mkM (mcache s) (S (mclock s)))) as [v s1]. cbn [mcache mclock fst snd].
    destruct (sched (mclock s1)); reflexivity.
  - destruct (pairs_body adds rems h1 h2 pids ot (mkM (mcache s) (S (mclock s)))) as [v s1]. reflexivity.
Qed.

End Methods.

(* ---- a whole run evaluated with the GENERATED methods ---------------------------------------------------------- *)
Section Run.
Variables A V : Type.
Variable sched : nat -> bool.
Variable gt : A -> A -> bool.
Variable srt : list A -> list A.
Variable str_of : A -> pystr.
Variable hasher : pystr -> pystr.
Variable hash_bytes : A -> pystr.
Variable kob kos : pystr -> key.
Variable not_found : V.
Definition g_dkey : A -> A -> key := g__get_distance_cache_key A gt hash_bytes kob.
Definition g_pkey (l l' : list A) : key := g_combine_hashes_lists A srt str_of hasher kos [l; l'] (s2p "pairs_cache").
(* the nested DeepDiff / the pairs computation of a call = the evaluation of the call's body (the oracles are arguments
   of the generated methods: items, hash tables, parents_ids and _original_type play no role, they are [tt]) *)
Definition g_fdist (a r : A) (body : mstate V -> V * mstate V) : mstate V -> V * mstate V :=
  g__get_rough_distance_of_hashed_objs A V unit unit sched gt hash_bytes kob (fun _ _ _ => body) a r tt tt tt.
Definition g_fpairs (l l' : list A) (body : mstate V -> V * mstate V) : mstate V -> V * mstate V :=
  g__get_most_in_common_pairs_in_iterables A V unit unit unit sched srt str_of hasher kos not_found (fun _ _ _ _ _ _ => body) l l' tt tt tt tt.
Definition g_run : hprog A V -> mstate V -> V * mstate V := hrun A V g_fdist g_fpairs.
Definition g_prog : hprog A V -> prog V := to_prog A V g_dkey g_pkey.

Theorem g_run_eq : forall p s, g_run p s = fst (run_cached sched (g_prog p) s).
Proof.
  unfold g_run, g_prog.
  induction p as [v|a r body IHb cont IHc|l l' body IHb cont IHc]; intro s; [reflexivity| |].
  - cbn [hrun to_prog]. rewrite run_cached_step. unfold g_fdist at 1. rewrite g__get_rough_distance_of_hashed_objs_eq.
    fold g_dkey. rewrite (memo_step_ext V sched (g_dkey a r) _ (fun s0 => fst (run_cached sched (to_prog A V g_dkey g_pkey body) s0)) s IHb).
    destruct (memo_step V sched (g_dkey a r) _ s) as [v s1]. apply IHc.
  - cbn [hrun to_prog]. rewrite run_cached_step. unfold g_fpairs at 1. rewrite g__get_most_in_common_pairs_in_iterables_eq.
    fold (g_pkey l l'). rewrite (memo_step_ext V sched (g_pkey l l') _ (fun s0 => fst (run_cached sched (to_prog A V g_dkey g_pkey body) s0)) s IHb).
    destruct (memo_step V sched (g_pkey l l') _ s) as [v s1]. apply IHc.
Qed.
End Run.

(* ====================================================================== *)
(** * transfer: the C17 theorems about the generated glue *)
Section Transfer.
Variables A V : Type.
Variable gt : A -> A -> bool.
Variable srt : list A -> list A.
Variable str_of : A -> pystr.
Variable hasher : pystr -> pystr.
Variable hash_bytes : A -> pystr.
Variable kob kos : pystr -> key.
Variable not_found : V.
Notation Run sched := (g_run A V sched gt srt str_of hasher hash_bytes kob kos not_found).
Notation Prog := (g_prog A V gt srt str_of hasher hash_bytes kob kos).
Notation DKey := (g__get_distance_cache_key A gt hash_bytes kob).
Notation PKey := (g_pkey A srt str_of hasher kos).

(* C17_cache_transparent_partial: the run evaluated with the generated methods, any capacity, any schedule, returns the
   cache-less result when the value computed for a (generated) key is a function of the key *)
Theorem C17gen_cache_transparent_partial :
  forall (spec : key -> V) (p : hprog A V), consistent spec (Prog p) ->
  forall (cap : nat) (sched : nat -> bool), fst (Run sched p (mkM (empty cap) 0)) = run_pure (Prog p).
Proof. intros spec p Hc cap sched. rewrite g_run_eq. exact (cache_transparent V spec (Prog p) Hc cap sched). Qed.

(* C17_cache_invariant_partial *)
Theorem C17gen_cache_invariant_partial :
  forall (spec : key -> V) (sched : nat -> bool) (p : hprog A V) (s : mstate V),
  consistent spec (Prog p) -> cache_ok spec (mcache s) ->
  fst (Run sched p s) = run_pure (Prog p) /\ cache_ok spec (mcache (snd (Run sched p s))).
Proof. intros spec sched p s Hc Hok. rewrite g_run_eq. exact (memo_transparent V spec sched (Prog p) s Hc Hok). Qed.

(* C17_cache_settings_agree_partial *)
Theorem C17gen_cache_settings_agree_partial :
  forall (spec : key -> V) (p : hprog A V), consistent spec (Prog p) ->
  forall cap cap' sched sched', fst (Run sched p (mkM (empty cap) 0)) = fst (Run sched' p (mkM (empty cap') 0)).
Proof. intros spec p Hc cap cap' sched sched'. rewrite !g_run_eq. exact (cache_settings_agree V spec (Prog p) Hc cap cap' sched sched'). Qed.

(* C17_cache_off_is_pure: cache_size = 0 - the flag starts false ([g_init_enabled 0]) and the tuner is never called *)
Theorem C17gen_cache_off_is_pure :
  forall (p : hprog A V) (s : mstate V),
  fst (Run (fun _ => g_init_enabled 0) p s) = run_pure (Prog p) /\ mcache (snd (Run (fun _ => g_init_enabled 0) p s)) = mcache s.
Proof. intros p s. rewrite g_run_eq. exact (never_enabled_is_pure V (Prog p) s). Qed.

(* C17_sorted_key_consistent_if_symmetric, for the generated distance key *)
Lemma dist_calls_ext : forall (dist : A -> A -> V) (k1 k2 : A -> A -> key), (forall a r, k1 a r = k2 a r) ->
  forall p, dist_calls A V dist k1 p -> dist_calls A V dist k2 p.
Proof.
  intros dist k1 k2 E. induction p as [v|k body IHb cont IHc]; cbn [dist_calls]; [auto|].
  intros [[a [r [-> Hv]]] [Hb Hc]]. split; [exists a, r; split; [apply E|exact Hv]|]. split; [auto|]. intro v; apply IHc, Hc.
Qed.

Theorem C17gen_sorted_key_consistent_if_symmetric :
  forall (inv : key -> option (A * A)), (forall a r, inv (okey_text A hash_bytes kob a r) = Some (a, r)) ->
  forall (dist : A -> A -> V) (dflt : V), (forall a r, dist a r = dist r a) ->
  forall p, dist_calls A V dist DKey p -> consistent (spec_of_dist A V inv dist dflt) p.
Proof.
  intros inv Hinv dist dflt Hsym p Hp.
  apply (sorted_key_consistent_if_symmetric A V (okey_text A hash_bytes kob) inv Hinv dist dflt gt Hsym).
  apply (dist_calls_ext dist DKey); [apply g__get_distance_cache_key_eq|exact Hp].
Qed.

(* C17_sorted_key_refuted (finding K17), for the generated key and the generated method: one asymmetric pair needed in
   both orientations; the second call is served the first orientation's distance *)
Definition g_both_orientations (dist : A -> A -> V) (a r : A) : hprog A V :=
  HDist a r (HRet (dist a r)) (fun _ => HDist r a (HRet (dist r a)) (fun y => HRet y)).

Theorem C17gen_sorted_key_refuted :
  forall (dist : A -> A -> V) (a r : A), gt a r = true -> gt r a = false -> dist a r <> dist r a ->
  DKey a r = DKey r a /\
  run_pure (Prog (g_both_orientations dist a r)) = dist r a /\
  fst (Run (fun _ => true) (g_both_orientations dist a r) (mkM (empty 2) 0)) = dist a r /\
  forall spec, ~ consistent spec (Prog (g_both_orientations dist a r)).
Proof.
  intros dist a r G1 G2 Hne.
  assert (E : Prog (g_both_orientations dist a r) = both_orientations A V (okey_text A hash_bytes kob) dist gt a r).
  { unfold g_prog, g_both_orientations, both_orientations, g_dkey. cbn [to_prog]. rewrite !g__get_distance_cache_key_eq. reflexivity. }
  destruct (sorted_key_refuted A V (okey_text A hash_bytes kob) dist gt a r G1 G2 Hne) as (_ & H2 & H3 & H4).
  split; [|split; [|split]].
  - rewrite !g__get_distance_cache_key_eq. unfold skey. rewrite G1, G2. reflexivity.
  - rewrite E. exact H2.
  - rewrite g_run_eq, E. exact H3.
  - rewrite E. exact H4.
Qed.

(* finding K28, for the generated pairs key: two levels whose hash lists agree after sorting share the key ... *)
Theorem C17gen_pairs_key_ignores_order :
  forall l1 l1' l2 l2', srt l1 = srt l2 -> srt l1' = srt l2' -> PKey l1 l1' = PKey l2 l2'.
Proof. intros l1 l1' l2 l2' E E'. unfold g_pkey. rewrite !g_pairs_key_eq, E, E'. reflexivity. Qed.

(* ... so when the two selections differ (a tie) no spec makes the run consistent (MemoPairsProofs.same_pairs_key_refutes at
   the generated keys; C17_pairs_order_refuted is its instance on numbers) *)
Theorem C17gen_pairs_order_refuted :
  forall (D : Type) aeqb dltb deqb (gt' : A -> A -> bool) (hb : A -> pystr) (kb : pystr -> key)
         (nested : A -> A -> prog (mval A D)) (pre : list A -> list A -> option (list (trip A D))) (cutoff ddflt : D) l1 l1' l2 l2',
  srt l1 = srt l2 -> srt l1' = srt l2' ->
  let dkey := g__get_distance_cache_key A gt' hb kb in
  run_pure (pairs_body A D aeqb dltb deqb dkey nested pre cutoff ddflt l1 l1') <>
  run_pure (pairs_body A D aeqb dltb deqb dkey nested pre cutoff ddflt l2 l2') ->
  forall spec, ~ consistent spec
    (pairs_call A D aeqb dltb deqb dkey PKey nested pre cutoff ddflt l1 l1'
       (fun _ => pairs_call A D aeqb dltb deqb dkey PKey nested pre cutoff ddflt l2 l2' (fun v => Ret v))).
Proof.
  intros D aeqb dltb deqb gt' hb kb nested pre cutoff ddflt l1 l1' l2 l2' E E' dkey Hne.
  apply same_pairs_key_refutes; [apply C17gen_pairs_key_ignores_order; assumption|exact Hne].
Qed.
End Transfer.

(* ====================================================================== *)
(** * the auto-tuner and __init__ *)
Theorem g__auto_off_cache_eq : forall t, g__auto_off_cache t = auto_off t.
Proof.
  intro t. unfold g__auto_off_cache, auto_off, ratio_lt.
  destruct (st_enabled t); [|reflexivity].
  destruct (st_diff_count t - st_prev_diff_count t =? 0); [reflexivity|].
  destruct (0 <? st_diff_count t - st_prev_diff_count t);
    match goal with |- context [if ?c then _ else _] => destruct c end; reflexivity.
Qed.
(* the decision alone: with the cache enabled and dd = DIFF_COUNT - PREVIOUS_DIFF_COUNT > 0, the cache is switched off
   exactly when 4 * (new hits) < dd, i.e. hit ratio < CACHE_AUTO_ADJUST_THRESHOLD = 0.25 *)
Theorem g_auto_off_decision_eq : forall t t',
  st_enabled t = true -> 0 < st_diff_count t - st_prev_diff_count t -> g__auto_off_cache t = Some t' ->
  st_enabled t' = (st_diff_count t - st_prev_diff_count t <=? (st_hit_count t - st_prev_hit_count t) * 4).
Proof.
  intros t t' He Hd. rewrite g__auto_off_cache_eq. unfold auto_off, ratio_lt. rewrite He.
  destruct (Z.eqb_spec (st_diff_count t - st_prev_diff_count t) 0) as [E|_]; [lia|].
  destruct (Z.ltb_spec 0 (st_diff_count t - st_prev_diff_count t)) as [_|H]; [|lia].
  rewrite Z.mul_1_l. intro H. injection H as <-.
  destruct (Z.ltb_spec ((st_hit_count t - st_prev_hit_count t) * 4) (st_diff_count t - st_prev_diff_count t)) as [L|L];
    destruct (Z.leb_spec (st_diff_count t - st_prev_diff_count t) ((st_hit_count t - st_prev_hit_count t) * 4)) as [L'|L']; try lia.
  - reflexivity.
  - exact He.
Qed.

Theorem g__auto_tune_cache_eq : forall n t, g__auto_tune_cache n t = auto_tune n t.
Proof.
  intros n t. unfold g__auto_tune_cache, auto_tune, take_prev. rewrite !g__auto_off_cache_eq.
  destruct (n =? 0); [reflexivity|]. cbn [negb].
  destruct (st_enabled t).
  - destruct (st_diff_count t mod n =? 0); [|reflexivity].
    destruct (auto_off t); reflexivity.
  - destruct (st_enable_every t =? 0); [reflexivity|].
    destruct (st_diff_count t mod st_enable_every t =? 0); destruct (st_diff_count t mod n =? 0); reflexivity.
Qed.

(* the tuner is a function of the counters that only writes the flag, the sampling period and the PREVIOUS counters: whatever
   it does is ONE schedule, and the transparency theorems hold for every schedule *)
Theorem g_tuner_keeps_counters : forall n t t', g__auto_tune_cache n t = Some t' ->
  st_diff_count t' = st_diff_count t /\ st_hit_count t' = st_hit_count t.
Proof.
  intros n t t'. rewrite g__auto_tune_cache_eq. unfold auto_tune, auto_off, take_prev.
  destruct (n =? 0); [discriminate|].
  destruct (st_enabled t).
  - destruct (st_diff_count t mod n =? 0).
    + destruct (st_diff_count t - st_prev_diff_count t =? 0); [discriminate|].
      destruct (ratio_lt _ _ _ _); intro H; injection H as <-; split; reflexivity.
    + intro H; injection H as <-; split; reflexivity.
  - destruct (st_enable_every t =? 0); [discriminate|].
    destruct (st_diff_count t mod st_enable_every t =? 0); destruct (st_diff_count t mod n =? 0);
      intro H; injection H as <-; split; reflexivity.
Qed.

Theorem g_init_eq : forall n,
  g_init_cache_capacity n = init_cache_capacity n /\ g_init_enabled n = init_enabled n /\
  (g_init_enabled n = false <-> g_init_cache_capacity n = None).
Proof. intro n. destruct n; cbn; repeat split; intros; congruence. Qed.

(* cache_purge_level: the accepted levels are 0, 1, 2; among them the cache (and DeepDiff's reference to `hashes`) is deleted - after the
   result is built - exactly for the levels 1 and 2, and the object is emptied exactly for level 2 *)
Theorem g_purge_eq : forall n,
  g_purge_level_accepted n = purge_level_accepted n /\ g_purge_deletes_cache n = purge_deletes_cache n /\
  g_purge_clears_object n = purge_clears_object n /\
  (g_purge_level_accepted n = true -> (g_purge_deletes_cache n = false <-> n = 0%nat) /\ (g_purge_clears_object n = true <-> n = 2%nat)).
Proof.
  intro n. destruct n as [|[|[|n]]]; cbn; repeat split; intros; try congruence; try discriminate.
Qed.

Print Assumptions g_run_eq.
Definition all_final := (g_combine_hashes_lists_eq, g_pairs_key_eq, g__get_distance_cache_key_eq, g__get_rough_distance_of_hashed_objs_eq,
  g__get_most_in_common_pairs_in_iterables_eq, C17gen_cache_transparent_partial, C17gen_cache_invariant_partial,
  C17gen_cache_settings_agree_partial, C17gen_cache_off_is_pure, C17gen_sorted_key_consistent_if_symmetric, C17gen_sorted_key_refuted,
  C17gen_pairs_key_ignores_order, C17gen_pairs_order_refuted, g__auto_off_cache_eq, g_auto_off_decision_eq, g__auto_tune_cache_eq,
  g_tuner_keeps_counters, g_init_eq, g_purge_eq).
Print Assumptions all_final.

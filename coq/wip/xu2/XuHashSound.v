(** The hash hypothesis of the C02 theorems over the extended universe DISCHARGED for the model of the real item hash
    (Diff/XuHash.v [xhash_atom]): on set members inside the guard [ok_x k] (Diff/XuObs.v: strings spelling no type tag,
    datetime members all aware or all naive, time members naive) equal item hashes only occur for ==-equal members.
    Hypotheses left: the hasher is injective, and three facts about Python's str() of these objects (oracles):
    str is injective within one kind, str(seconds) is injective, and the texts of a datetime, of a time's seconds and
    of a date are never the same string. *)
From Coq Require Import List ZArith NArith Bool Arith Lia String.
Import ListNotations.
From DD Require Import Base.PyStr Diff.XuValue Diff.XuFacts Diff.XuTree Diff.XuModel Diff.XuDiffFacts
  Diff.XuLemmas Diff.XuEmpty Diff.XuHash Diff.XuObs Diff.XuEmptyNorm.
From DD Require Hash.HashModel Hash.HashProofsC07 Base.Value.

Definition same_kind (a b : atom) : bool :=
  match a, b with
  | ADt _ _, ADt _ _ | ADate _, ADate _ | ATd _, ATd _ | ADec _ _, ADec _ _ => true
  | _, _ => false
  end.

Section XHashSound.
Variable H : pystr -> pystr.
Variable xstr : atom -> pystr.
Variable secs : Z -> pystr.
Hypothesis H_inj : forall s t, H s = H t -> s = t.
Hypothesis xstr_inj : forall a b, same_kind a b = true -> xstr a = xstr b -> a = b.
Hypothesis secs_inj : forall x y, secs x = secs y -> x = y.
Hypothesis dt_not_secs : forall u o us, xstr (ADt u o) <> secs us.
Hypothesis dt_not_date : forall u o d, xstr (ADt u o) <> xstr (ADate d).
Hypothesis secs_not_date : forall us d, secs us <> xstr (ADate d).
Notation h := (xhash_atom H xstr secs).

Lemma to_base_inj a b x : to_base a = Some x -> to_base b = Some x -> a = b.
Proof. destruct a, b; cbn; intros E1 E2; try discriminate; inversion E1; subst; inversion E2; reflexivity. Qed.

Lemma to_base_py_eq a : forall x, to_base a = Some x -> True.
Proof. trivial. Qed.

(* the serialisation of a base atom never starts like the re-tagged text of an exotic one, unless it is a str with a colon *)
Lemma base_exotic_apart x t :
  HashModel.tag_safe_atom x = true ->
  (exists r, t = (s2p "datetime:" ++ r)%list \/ t = (s2p "timedelta:" ++ r)%list \/ t = (s2p "Decimal:" ++ r)%list) ->
  HashModel.ser_atom HashModel.default_opts x <> HashModel.retag HashModel.default_opts t.
Proof.
  intros T (r & Ht) E. unfold HashModel.retag, HashModel.prep_string in E. cbn [HashModel.default_opts HashModel.ignore_string_type_changes HashModel.ignore_string_case] in E.
  destruct x as [|b|z|q|s|s]; cbn in E.
  - destruct Ht as [-> | [-> | ->]]; cbn in E; discriminate E.
  - destruct b; destruct Ht as [-> | [-> | ->]]; cbn in E; discriminate E.
  - destruct Ht as [-> | [-> | ->]]; cbn in E; discriminate E.
  - destruct Ht as [-> | [-> | ->]]; cbn in E; discriminate E.
  - (* str: s = t, but t has a colon *)
    unfold HashModel.prep_string in E. cbn in E. inversion E as [Es]. clear E.
    cbn in T. apply andb_true_iff in T as [_ T]. apply negb_true_iff in T.
    subst s. destruct Ht as [-> | [-> | ->]]; cbn in T; rewrite ?orb_true_r in T; discriminate T.
  - unfold HashModel.prep_string in E. cbn in E. discriminate E.
Qed.

Lemma exotic_text_shape a : to_base a = None ->
  exists r, exotic_text xstr secs a = (s2p "datetime:" ++ r)%list \/ exotic_text xstr secs a = (s2p "timedelta:" ++ r)%list \/
            exotic_text xstr secs a = (s2p "Decimal:" ++ r)%list.
Proof.
  destruct a; cbn [to_base]; try discriminate; intros _; eexists; cbn [exotic_text]; eauto.
Qed.

Lemma retag_inj s t : HashModel.retag HashModel.default_opts s = HashModel.retag HashModel.default_opts t -> s = t.
Proof. unfold HashModel.retag, HashModel.prep_string. cbn. intros E. inversion E. reflexivity. Qed.

Theorem xhash_separates k a b :
  ok_x k a = true -> ok_x k b = true -> h a = h b -> py_eq a b = true.
Proof.
  intros Oa Ob E. unfold xhash_atom in E.
  destruct (to_base a) as [x|] eqn:Ba, (to_base b) as [y|] eqn:Bb.
  - (* both base atoms *)
    assert (Tx : HashModel.tag_safe_atom x = true) by (destruct a; cbn in Ba; try discriminate; inversion Ba; subst; cbn in Oa; exact Oa).
    assert (Ty : HashModel.tag_safe_atom y = true) by (destruct b; cbn in Bb; try discriminate; inversion Bb; subst; cbn in Ob; exact Ob).
    apply (HashProofsC07.hash_atom_inj H H_inj HashModel.default_opts x y eq_refl Tx Ty) in E. subst y.
    rewrite (to_base_inj a b x Ba Bb). apply py_eq_refl.
  - exfalso. apply H_inj in E.
    assert (Tx : HashModel.tag_safe_atom x = true) by (destruct a; cbn in Ba; try discriminate; inversion Ba; subst; cbn in Oa; exact Oa).
    exact (base_exotic_apart x _ Tx (exotic_text_shape b Bb) E).
  - exfalso. apply H_inj in E. symmetry in E.
    assert (Ty : HashModel.tag_safe_atom y = true) by (destruct b; cbn in Bb; try discriminate; inversion Bb; subst; cbn in Ob; exact Ob).
    exact (base_exotic_apart y _ Ty (exotic_text_shape a Ba) E).
  - (* both exotic *)
    apply H_inj, retag_inj in E.
    destruct a as [| | | | | |u1 o1|d1|u1 o1|u1|m1 e1]; cbn in Ba; try discriminate Ba;
    destruct b as [| | | | | |u2 o2|d2|u2 o2|u2|m2 e2]; cbn in Bb; try discriminate Bb;
    cbn [exotic_text] in E; try (cbn in E; discriminate E);
    try (apply app_inv_head in E).
    + (* datetime / datetime *)
      apply xstr_inj in E; [|destruct o1, o2; reflexivity].
      cbn [ok_x] in Oa, Ob. apply eqb_prop in Oa, Ob.
      rewrite <- (dt_norm_py_eq u1 o1 u2 o2) by (rewrite Oa, Ob; apply eqb_reflx).
      rewrite E. apply py_eq_refl.
    + exfalso. destruct o1; cbn [dt_norm] in E; eapply dt_not_date; exact E.
    + exfalso. destruct o1; cbn [dt_norm] in E; eapply dt_not_secs; exact E.
    + exfalso. destruct o2; cbn [dt_norm] in E; symmetry in E; eapply dt_not_date; exact E.
    + apply xstr_inj in E; [|reflexivity]. rewrite E. apply py_eq_refl.
    + exfalso. symmetry in E. eapply secs_not_date; exact E.
    + exfalso. destruct o2; cbn [dt_norm] in E; symmetry in E; eapply dt_not_secs; exact E.
    + exfalso. eapply secs_not_date; exact E.
    + (* time / time: both naive *)
      apply secs_inj in E. subst u2. cbn [ok_x] in Oa, Ob. destruct o1, o2; try discriminate. apply py_eq_refl.
    + apply xstr_inj in E; [|reflexivity]. rewrite E. apply py_eq_refl.
    + apply xstr_inj in E; [|reflexivity]. rewrite E. apply py_eq_refl.
Qed.

Variable udiff : pystr -> pystr -> pystr.
Variable ops : path -> list value -> list value -> list opcode.
Variable excl : path -> bool.
Variable c : cfg.

(* C02 soundness over the extended universe with the model of the REAL item hash: only boolean input guards *)
Theorem run_empty_sound_xhash k t1 t2 :
  valid_ops ops -> wf t1 = true -> wf t2 = true ->
  inputs_ok (keep_key c) (ok_x k) (dt_kind k) t1 = true -> inputs_ok (keep_key c) (ok_x k) (dt_kind k) t2 = true ->
  fst (run_diff h udiff ops noskip excl c t1 t2) = [] -> py_eqv t1 t2 = true.
Proof. intros V. apply (run_empty_sound_dt h udiff ops excl c (ok_x k) k t1 t2 (xhash_separates k) V). Qed.

(* ... and without the leaf guard: equal once naive datetime leaves are read as UTC *)
Theorem run_empty_sound_xhash_norm k t1 t2 :
  valid_ops ops -> wf t1 = true -> wf t2 = true ->
  inputs_ok (keep_key c) (ok_x k) any_atom t1 = true -> inputs_ok (keep_key c) (ok_x k) any_atom t2 = true ->
  fst (run_diff h udiff ops noskip excl c t1 t2) = [] -> py_eqv (normL t1) (normL t2) = true.
Proof. intros V. apply (run_empty_sound_norm h udiff ops excl c (ok_x k) t1 t2 (xhash_separates k) V). Qed.
End XHashSound.

(* the oracle hypotheses are satisfiable together (an injective str(), tagged apart from the seconds text) *)
Example oracle_hypotheses_satisfiable :
  let xstr := fun a => 1%N :: inj_hash a in
  let secs := fun us => [0%N; zenc us] in
  (forall a b, same_kind a b = true -> xstr a = xstr b -> a = b) /\
  (forall x y, secs x = secs y -> x = y) /\
  (forall u o us, xstr (ADt u o) <> secs us) /\
  (forall u o d, xstr (ADt u o) <> xstr (ADate d)) /\
  (forall us d, secs us <> xstr (ADate d)).
Proof.
  cbv zeta. repeat split.
  - intros a b _ E. inversion E as [E']. apply inj_hash_injective. exact E'.
  - intros x y E. inversion E as [E']. apply zenc_inj. exact E'.
  - intros u o us E. discriminate E.
  - intros u o d E. cbn in E. discriminate E.
  - intros us d E. discriminate E.
Qed.

src=open('/verif/coq/theories/Diff/XuEmpty.v').read()
i0=src.index("Section Sound."); i1=src.index("End Sound.")
sec=src[i0:i1]
def R(s,a,b,cnt=1):
    assert (s.count(a)==cnt) or (cnt is None and s.count(a)>=1), (s.count(a), a[:80])
    return s.replace(a,b)
sec=R(sec,'''Variable lf : atom -> bool.
Hypothesis Hlf : forall a b, lf a = true -> lf b = true -> dt_same_kind a b = true.
''','''Variable lf : atom -> bool.
Variable leq : atom -> atom -> bool.
(* what "nothing reported" means for two leaves, and: ==-equal leaves are related *)
Hypothesis Hleaf : forall a b p1 p2, lf a = true -> lf b = true -> diff_atom udiff noskip a b p1 p2 = [] -> leq a b = true.
Hypothesis Hpy : forall a b, py_eq a b = true -> leq a b = true.
Notation leaf_l := (leaf_l leq).
Notation leqv := (leqv leq).

Lemma all2_py_leaf_l xs ys : all2 py_eq_leaf xs ys = true -> all2 leaf_l xs ys = true.
Proof.
  revert ys; induction xs as [|x xs IH]; intros [|y ys]; cbn; intros H; try discriminate; [reflexivity|].
  apply andb_true_iff in H as [H1 H2]. rewrite (IH _ H2), andb_true_r.
  destruct x, y; cbn in H1 |- *; try discriminate. apply Hpy. exact H1.
Qed.

Lemma all2_leaf_leqv xs ys : all2 leaf_l xs ys = true -> all2 leqv xs ys = true.
Proof.
  revert ys; induction xs as [|x xs IH]; intros [|y ys]; cbn; intros H; try discriminate; [reflexivity|].
  apply andb_true_iff in H as [H1 H2]. rewrite (IH _ H2), andb_true_r.
  destruct x, y; cbn in H1; try discriminate. exact H1.
Qed.

Lemma pairs_leaf_nil_l xs : forall ys i j p1 p2,
  forallb is_atom xs = true -> forallb is_atom ys = true ->
  forallb (lfv lf) xs = true -> forallb (lfv lf) ys = true ->
  pairs_leaf udiff noskip xs ys i j p1 p2 = [] -> all2 leaf_l xs ys = true.
Proof.
  induction xs as [|x xs IH]; intros ys i j p1 p2 A1 A2 L1 L2 H.
  - destruct ys as [|y ys]; [reflexivity|]. cbn in H. discriminate H.
  - destruct ys as [|y ys]; [cbn in H; discriminate H|].
    cbn [pairs_leaf] in H. apply app_eq_nil in H as [H1 H2].
    cbn in A1, A2, L1, L2. apply andb_true_iff in A1 as [Ax A1], A2 as [Ay A2], L1 as [Lx L1], L2 as [Ly L2].
    cbn [all2]. rewrite (IH ys (S i) (S j) p1 p2 A1 A2 L1 L2 H2), andb_true_r.
    destruct (negb (i =? j) && py_eq_leaf x y) eqn:E; [cbn in H1; discriminate H1|].
    destruct x, y; try discriminate Ax; try discriminate Ay. cbn in H1 |- *.
    eapply Hleaf; eassumption.
Qed.
''')
sec=R(sec,"  all2 py_eq_leaf (skipn i xs) (skipn j ys) = true.","  all2 leaf_l (skipn i xs) (skipn j ys) = true.")
sec=R(sec,"    + exact Vo.","    + apply all2_py_leaf_l. exact Vo.")
sec=R(sec,"eapply (pairs_leaf_nil udiff lf Hlf); [apply forallb_slice","eapply pairs_leaf_nil_l; [apply forallb_slice")
sec=R(sec,"  fst (default_leaf_list udiff ops noskip xs ys p p) = [] -> all2 py_eq_leaf xs ys = true.","  fst (default_leaf_list udiff ops noskip xs ys p p) = [] -> all2 leaf_l xs ys = true.")
sec=R(sec,"    + eapply (pairs_leaf_nil udiff lf Hlf); eassumption.","    + eapply pairs_leaf_nil_l; eassumption.")
sec=sec.replace("py_eqv_list","leqv_list").replace("py_eqv_tuple","leqv_tuple").replace("py_eqv_dict","leqv_dict")
sec=sec.replace("all2_leaf_eqv","all2_leaf_leqv")
sec=sec.replace("py_eqv","leqv")
sec=sec.replace("dict_go kvs2 l","dict_go_l leq kvs2 l").replace("cbn [dict_go].","cbn [dict_go_l].")
sec=R(sec,'''cbn [negb fst]. apply diff_atom_nil.
    apply Hlf; assumption.''','''cbn [negb fst]. intros Hd. exact (Hleaf a a0 p p K1 K2 Hd).''')
sec=sec.replace("Section Sound.","Section SoundL.")
head='''(** C02 soundness over the extended universe WITHOUT the leaf guard [dt_kind]: the induction of Diff/XuEmpty.v
    Section Sound, generalised over the relation [leq] that "nothing reported" establishes between two LEAVES.
      leq := py_eq,                      lf := dt_kind k     the guarded theorem of XuEmpty.v;
      leq := == after dt_norm,           lf := anything      NO guard: an empty diff means the two values are equal
                                                             once every naive datetime LEAF is read as UTC
    ([leqv leq]: Python == on values with leaves compared by leq; dict keys and set members by py_eq as always;
    [leqv dt_leq t1 t2 = py_eqv (normL t1) (normL t2)]).  This is exactly what DeepDiff decides (default_timezone = utc);
    the guard [dt_kind] is what makes it coincide with Python's == (finding C02-NAIVE-AWARE otherwise). *)
From Coq Require Import List ZArith NArith Bool Arith Lia.
Import ListNotations.
From DD Require Import Base.PyStr Diff.XuValue Diff.XuFacts
  Diff.XuTree Diff.XuModel Diff.XuDiffFacts Diff.XuLemmas Diff.XuEmpty.

(* Python == on values, leaves compared by [leq] *)
Fixpoint leqv (leq : atom -> atom -> bool) (a b : value) {struct a} : bool :=
  match a, b with
  | VAtom x, VAtom y => leq x y
  | VList xs, VList ys | VTuple xs, VTuple ys =>
      (fix go (xs ys : list value) {struct xs} : bool :=
         match xs, ys with
         | [], [] => true
         | x :: xs', y :: ys' => leqv leq x y && go xs' ys'
         | _, _ => false
         end) xs ys
  | VDict xs, VDict ys =>
      Nat.eqb (List.length xs) (List.length ys) &&
      (fix go (xs : list (atom * value)) : bool :=
         match xs with
         | [] => true
         | (k, v) :: xs' => match assoc k ys with
                            | Some v' => leqv leq v v'
                            | None => false
                            end && go xs'
         end) xs
  | VSet xs, VSet ys | VSet xs, VFrozen ys | VFrozen xs, VSet ys | VFrozen xs, VFrozen ys =>
      Nat.eqb (List.length xs) (List.length ys) && forallb (fun x => mem_atom x ys) xs
  | _, _ => false
  end.
Definition leaf_l (leq : atom -> atom -> bool) (x y : value) : bool :=
  match x, y with VAtom a, VAtom b => leq a b | _, _ => false end.
Definition dict_go_l (leq : atom -> atom -> bool) (ys : list (atom * value)) :=
  fix go (xs : list (atom * value)) : bool :=
    match xs with
    | [] => true
    | (k, v) :: xs' => match assoc k ys with
                       | Some v' => leqv leq v v'
                       | None => false
                       end && go xs'
    end.
Lemma leqv_dict leq xs ys :
  leqv leq (VDict xs) (VDict ys) = Nat.eqb (length xs) (length ys) && dict_go_l leq ys xs.
Proof. reflexivity. Qed.
Lemma leqv_list leq xs ys : leqv leq (VList xs) (VList ys) = all2 (leqv leq) xs ys.
Proof. reflexivity. Qed.
Lemma leqv_tuple leq xs ys : leqv leq (VTuple xs) (VTuple ys) = all2 (leqv leq) xs ys.
Proof. reflexivity. Qed.

'''
tail=open('/verif/coq/wip/xu2/norm_tail.v.txt').read()
open('/verif/coq/wip/xu2/XuEmptyNorm.v','w').write(head+sec+"End SoundL.\n"+tail)

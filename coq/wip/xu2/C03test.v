(** C03 - the positional-mode result equals the recursive definition of structural
    difference.  Final statements only.

    Left-hand side: the model of the implementation (Diff/DiffModel.v [run_diff]: level
    dispatch, dict key bookkeeping, zip_longest pairing, sets through item hashes,
    mutual_add_removes; Diff/TextView.v [text_view 2]: the verbose text view with paths
    rendered by the printer model Path/PathModel.v) in the configuration
    zip_ordered_iterables=True, threshold_to_diff_deeper=0 (mkCfg true 0 d ip), no excluded path.
    Right-hand side: Diff/Spec.v [spec_diff], the ~70-line recursive definition.
    The equality is equality of LISTS of text-view entries (category, rendered path, old and
    new value, old and new type, new_path, diff text): nothing missing, nothing extra,
    nothing attributed to another path, and even the same traversal order.

    [ops] (difflib opcodes) and [excl] are irrelevant in this mode and arbitrary;
    [udiff] (difflib.unified_diff text) is arbitrary and shared by both sides. *)
From Coq Require Import List ZArith Bool Arith.
Import ListNotations.
From DD Require Import Base.PyStr Base.Value Path.PathModel Diff.Tree Diff.DiffModel Diff.TextView
  Diff.Spec Diff.DiffEmpty Diff.DiffSpecProofs.
From DD Require Hash.HashModel Diff.DiffMemo Diff.DiffMemoProofs.

(* GUARD: the item hash used for set members is injective on scalars.  The real DeepHash is
   not (findings K1, K2): see the two refutations below. *)
Theorem C03_positional_is_spec :
  forall hatom udiff ops excl d ip t1 t2,
    (forall a b, hatom a = hatom b -> a = b) ->
    wf t1 = true -> wf t2 = true ->
    text_view 2 (fst (run_diff hatom udiff ops (fun _ => false) excl (mkCfg true 0 d ip) t1 t2))
    = spec_diff udiff ip t1 t2.
Proof. intros. apply positional_run_is_spec; assumption. Qed.
Print Assumptions C03_positional_is_spec.

(* the same for the model of the real item hash: DeepHash of a scalar (Hash/HashModel.v
   [hash_atom], memo-free) over ANY injective hasher H, options other than the mode at their
   defaults.  The guard becomes a boolean condition on the inputs: every set / frozenset
   member, at every depth, is [tag_safe_atom] (no str equal to 'NONE' or containing ':'). *)
Theorem C03_positional_is_spec_deephash :
  forall H o udiff ops excl d ip t1 t2,
    (forall s t, H s = H t -> s = t) -> Hash.HashModel.plain o = true ->
    wf t1 = true -> wf t2 = true ->
    inputs_ok any_atom Hash.HashModel.tag_safe_atom t1 = true ->
    inputs_ok any_atom Hash.HashModel.tag_safe_atom t2 = true ->
    text_view 2 (fst (run_diff (Hash.HashModel.hash_atom H o) udiff ops (fun _ => false) excl (mkCfg true 0 d ip) t1 t2))
    = spec_diff udiff ip t1 t2.
Proof. intros. apply positional_run_is_spec_deephash; assumption. Qed.
Print Assumptions C03_positional_is_spec_deephash.

(* the post-processing pass mutual_add_removes_to_become_value_changes never fires in
   positional mode (every threshold <= 1, any skip / excl / hash) *)
Theorem C03_positional_no_mutual_rewrite :
  forall hatom udiff ops skip excl c t1 t2,
    zip c = true -> thr_num c <= thr_den c -> wf t1 = true -> wf t2 = true ->
    mutual (fst (diff hatom udiff ops skip excl c t1 t2 [] [])) = fst (diff hatom udiff ops skip excl c t1 t2 [] []).
Proof. intros. apply positional_mutual_id; assumption. Qed.
Print Assumptions C03_positional_no_mutual_rewrite.

(* the guard is satisfiable (an injective hash exists) and the specification is not trivial:
   one pair on which it yields every kind of entry *)
Theorem C03_guard_satisfiable : forall a b, inj_hash a = inj_hash b -> a = b.
Proof. exact inj_hash_injective. Qed.
Print Assumptions C03_guard_satisfiable.

Theorem C03_spec_example :
  wf ex_t1 = true /\ wf ex_t2 = true /\
  spec_diff (fun _ _ => [45%N]) true ex_t1 ex_t2 =
  [TDictAdd (render [PKey (ABool true)]) (Some (VTuple [VAtom (AInt 1); VAtom (AInt 2)]));
   TDictRem (render [PKey ANone]) (Some (VTuple [VAtom (AInt 1)]));
   TType (render [PKey (AStr [97%N]); PIdx 0]) TInt TFloat None (Some (VAtom (AInt 1), VAtom (AHalf 2)));
   TValue (render [PKey (AStr [97%N]); PIdx 1]) (VAtom (AStr [120%N; 10%N; 121%N])) (VAtom (AStr [120%N; 10%N; 122%N])) None (Some [45%N]);
   TIterRem (render [PKey (AStr [97%N]); PIdx 2]) (VAtom ANone);
   TSetAdd (set_item_text [PKey (AHalf 4)] (AHalf 2));
   TSetRem (set_item_text [PKey (AHalf 4)] (AInt 1))].
Proof. exact spec_example. Qed.
Print Assumptions C03_spec_example.

(* Without injectivity the statement is false of the faithful model.
   (a) the model of the real DeepHash on scalars: {'NONE'} vs {None} - the model (like the
       implementation) reports nothing, the definition reports two set items.  Finding K1. *)
Theorem C03_positional_is_spec_refuted_tag :
  wf k1_t1 = true /\ wf k1_t2 = true /\
  text_view 2 (fst (run_diff deephash_atom (fun _ _ => []) one_block (fun _ => false) (fun _ => false) (mkCfg true 0 1 true) k1_t1 k1_t2)) = [] /\
  spec_diff (fun _ _ => []) true k1_t1 k1_t2 =
    [TSetAdd (set_item_text [] ANone); TSetRem (set_item_text [] (AStr [78%N; 79%N; 78%N; 69%N]))].
Proof. exact positional_is_spec_refuted_tag. Qed.
Print Assumptions C03_positional_is_spec_refuted_tag.

(* (b) a hash identifying 1 and 1.0, as the ==-keyed memo of the real DeepHash does for set
       members hashed in one run: {1,'a'} vs {1.0,'a'}.  Finding K2. *)
Theorem C03_positional_is_spec_refuted_alias :
  wf k2_t1 = true /\ wf k2_t2 = true /\
  text_view 2 (fst (run_diff alias_hash (fun _ _ => []) one_block (fun _ => false) (fun _ => false) (mkCfg true 0 1 true) k2_t1 k2_t2)) = [] /\
  spec_diff (fun _ _ => []) true k2_t1 k2_t2 =
    [TSetAdd (set_item_text [] (AHalf 2)); TSetRem (set_item_text [] (AInt 1))].
Proof. exact positional_is_spec_refuted_alias. Qed.
Print Assumptions C03_positional_is_spec_refuted_alias.

(* with the run-wide DeepHash table inside the model (Diff/DiffMemo.v run_diff_m, what the
   correspondence check runs on inputs with ==-aliased set members): under the boolean guards
   "set members tag-safe" and "no two set members == without being identical" the positional
   result is the recursive definition, as a multiset of entries *)
Theorem C03_positional_is_spec_with_table :
  forall H o udiff ops excl d ip t1 t2,
    Hash.HashModel.ignore_iterable_order o = true ->
    (forall s t, H s = H t -> s = t) -> Hash.HashModel.plain o = true ->
    wf t1 = true -> wf t2 = true ->
    inputs_ok any_atom Hash.HashModel.tag_safe_atom t1 = true ->
    inputs_ok any_atom Hash.HashModel.tag_safe_atom t2 = true ->
    Hash.HashModel.no_alias (DiffMemoProofs.set_members t1 ++ DiffMemoProofs.set_members t2) = true ->
    Permutation.Permutation
      (text_view 2 (fst (fst (DiffMemo.run_diff_m H o udiff ops (fun _ => false) excl (mkCfg true 0 d ip) t1 t2))))
      (spec_diff udiff ip t1 t2).
Proof. intros. apply DiffMemoProofs.run_diff_m_positional_is_spec; assumption. Qed.
Print Assumptions C03_positional_is_spec_with_table.

(* without the alias guard: {1,'a'} vs {1.0,'a'} with the REAL table behaviour (not a toy hash) *)
Theorem C03_positional_is_spec_with_table_refuted :
  wf k2_t1 = true /\ wf k2_t2 = true /\
  text_view 2 (fst (fst (DiffMemo.run_diff_m Hash.HashModel.hexhash Hash.HashModel.default_opts (fun _ _ => []) one_block (fun _ => false) (fun _ => false) (mkCfg true 0 1 true) k2_t1 k2_t2))) = [] /\
  length (spec_diff (fun _ _ => []) true k2_t1 k2_t2) = 2.
Proof. exact DiffMemoProofs.positional_with_table_refuted_alias. Qed.
Print Assumptions C03_positional_is_spec_with_table_refuted.

(* ---- the table WITHOUT the alias guard (Diff/DiffMemoFinal.v) ----
   for ALL well-formed inputs, every hasher and DeepHash option set: in positional mode the verbose text view of
   the run with DeepDiff's run-wide table is that of the memo-free positional run whose item hash is read off
   the table the run ends with, as a multiset of entries (mutual_add_removes is the identity on both) *)
From DD Require Diff.DiffMemoFinal Diff.DiffVerbose.

Theorem C03_positional_with_table_is_memo_free_run :
  forall H o udiff ops excl d ip t1 t2,
    wf t1 = true -> wf t2 = true ->
    Permutation.Permutation
      (text_view 2 (fst (fst (DiffMemo.run_diff_m H o udiff ops (fun _ => false) excl (mkCfg true 0 d ip) t1 t2))))
      (text_view 2 (fst (run_diff (DiffMemoFinal.hfin H o (DiffMemoFinal.final_table H o udiff ops excl (mkCfg true 0 d ip) (fun _ => false) t1 t2))
                                  udiff ops (fun _ => false) excl (mkCfg true 0 d ip) t1 t2))).
Proof. intros. apply DiffMemoFinal.run_diff_m_positional_is_memo_free; assumption. Qed.
Print Assumptions C03_positional_with_table_is_memo_free_run.

(* ---- verbose_level 0 and 1 (Diff/DiffVerbose.v) ----
   The text view at a lower verbosity is a projection of the verbose one, entry by entry and for EVERY result tree
   ([tproj v]: type_changes lose new_path below 2 and the two values at 0; values_changed lose new_path below 2 and
   VANISH at 0; dictionary_item_added / removed lose the value below 2; iterable_item_moved vanish below 2; the
   other categories are unchanged) ... *)
Theorem C03_text_view_is_projection :
  forall v es, text_view v es = flat_map (DiffVerbose.tproj v) (text_view 2 es).
Proof. exact DiffVerbose.text_view_proj. Qed.
Print Assumptions C03_text_view_is_projection.

(* ... hence at EVERY verbose_level the positional result is the projection of the recursive definition *)
Theorem C03_positional_is_spec_at_every_verbosity :
  forall v hatom udiff ops excl d ip t1 t2,
    (forall a b, hatom a = hatom b -> a = b) ->
    wf t1 = true -> wf t2 = true ->
    text_view v (fst (run_diff hatom udiff ops (fun _ => false) excl (mkCfg true 0 d ip) t1 t2))
    = DiffVerbose.spec_diff_at v udiff ip t1 t2.
Proof. intros. apply DiffVerbose.positional_run_is_spec_at; assumption. Qed.
Print Assumptions C03_positional_is_spec_at_every_verbosity.

Theorem C03_positional_is_spec_at_every_verbosity_deephash :
  forall v H o udiff ops excl d ip t1 t2,
    (forall s t, H s = H t -> s = t) -> Hash.HashModel.plain o = true ->
    wf t1 = true -> wf t2 = true ->
    inputs_ok any_atom Hash.HashModel.tag_safe_atom t1 = true ->
    inputs_ok any_atom Hash.HashModel.tag_safe_atom t2 = true ->
    text_view v (fst (run_diff (Hash.HashModel.hash_atom H o) udiff ops (fun _ => false) excl (mkCfg true 0 d ip) t1 t2))
    = DiffVerbose.spec_diff_at v udiff ip t1 t2.
Proof. intros. apply DiffVerbose.positional_run_is_spec_at_deephash; assumption. Qed.
Print Assumptions C03_positional_is_spec_at_every_verbosity_deephash.

(* verbose_level 0 loses differences: 1 vs 2 has an empty text view there, one entry at verbose_level 1 *)
Theorem C03_verbose0_loses_value_changes :
  py_eqv (VAtom (AInt 1)) (VAtom (AInt 2)) = false /\
  text_view 0 (fst (run_diff inj_hash (fun _ _ => []) one_block (fun _ => false) (fun _ => false) (mkCfg true 0 1 true) (VAtom (AInt 1)) (VAtom (AInt 2)))) = [] /\
  length (text_view 1 (fst (run_diff inj_hash (fun _ _ => []) one_block (fun _ => false) (fun _ => false) (mkCfg true 0 1 true) (VAtom (AInt 1)) (VAtom (AInt 2))))) = 1.
Proof. exact DiffVerbose.verbose0_loses_value_changes. Qed.
Print Assumptions C03_verbose0_loses_value_changes.

(* ---- the EXACT positional result with DeepDiff's run-wide table (Diff/DiffMemoSpec.v), no alias guard ----
   With the table the positional result is, as a multiset, the recursive definition in which set members are compared
   as TABLE KEYS ([keq]: Python == with bools kept apart from numbers - how self.hashes is keyed) instead of by type
   and value ([spec_k]); for ALL well-formed inputs with tag-safe set members (K1), every injective hasher ... *)
From DD Require Diff.DiffMemoSpec.

Theorem C03_positional_with_table_is_spec_k :
  forall H o udiff ops excl d ip t1 t2,
    (forall s t, H s = H t -> s = t) -> Hash.HashModel.plain o = true ->
    wf t1 = true -> wf t2 = true ->
    inputs_ok any_atom Hash.HashModel.tag_safe_atom t1 = true ->
    inputs_ok any_atom Hash.HashModel.tag_safe_atom t2 = true ->
    Permutation.Permutation
      (text_view 2 (fst (fst (DiffMemo.run_diff_m H o udiff ops (fun _ => false) excl (mkCfg true 0 d ip) t1 t2))))
      (DiffMemoSpec.spec_k udiff ip t1 t2).
Proof. intros. apply DiffMemoSpec.run_diff_m_positional_is_spec_k; assumption. Qed.
Print Assumptions C03_positional_with_table_is_spec_k.

(* ... and it IS the recursive definition exactly when no set pair that the positional traversal compares holds a
   cross-side pair that is equal as a table key without being identical ([sets_all ip no_cross]: 1 vs 1.0, not True vs 1):
   the alias guard of C03_positional_is_spec_with_table made local and necessary *)
Theorem C03_positional_with_table_is_spec_iff :
  forall H o udiff ops excl d ip t1 t2,
    (forall s t, H s = H t -> s = t) -> Hash.HashModel.plain o = true ->
    wf t1 = true -> wf t2 = true ->
    inputs_ok any_atom Hash.HashModel.tag_safe_atom t1 = true ->
    inputs_ok any_atom Hash.HashModel.tag_safe_atom t2 = true ->
    (Permutation.Permutation
       (text_view 2 (fst (fst (DiffMemo.run_diff_m H o udiff ops (fun _ => false) excl (mkCfg true 0 d ip) t1 t2))))
       (spec_diff udiff ip t1 t2)
     <-> DiffMemoSpec.sets_all ip DiffMemoSpec.no_cross t1 t2 = true).
Proof. intros. apply DiffMemoSpec.run_diff_m_positional_is_spec_iff; assumption. Qed.
Print Assumptions C03_positional_with_table_is_spec_iff.

(* [spec_k] is [spec_diff] with another membership test (the common generalisation is [spec_mem]) *)
Theorem C03_spec_k_is_the_definition_with_key_membership :
  forall udiff ip, DiffMemoSpec.spec_mem udiff ip member = spec udiff ip.
Proof. exact DiffMemoSpec.spec_mem_member. Qed.
Print Assumptions C03_spec_k_is_the_definition_with_key_membership.

(* K2 again, now as "spec_k <> spec_diff": {1,'a'} vs {1.0,'a'} with the real table behaviour *)
Theorem C03_spec_k_differs_on_K2 :
  wf k2_t1 = true /\ wf k2_t2 = true /\
  DiffMemoSpec.sets_all true DiffMemoSpec.no_cross k2_t1 k2_t2 = false /\
  text_view 2 (fst (fst (DiffMemo.run_diff_m Hash.HashModel.hexhash Hash.HashModel.default_opts (fun _ _ => []) one_block (fun _ => false) (fun _ => false) (mkCfg true 0 1 true) k2_t1 k2_t2))) = [] /\
  DiffMemoSpec.spec_k (fun _ _ => []) true k2_t1 k2_t2 = [] /\
  length (spec_diff (fun _ _ => []) true k2_t1 k2_t2) = 2.
Proof.
  destruct DiffMemoSpec.spec_k_differs_from_spec_k2 as (W1 & W2 & _ & _ & A & R & K & S).
  refine (conj W1 (conj W2 (conj A (conj R (conj K _))))). rewrite S. reflexivity.
Qed.
Print Assumptions C03_spec_k_differs_on_K2.

(* ---- datetimes, dates, times, timedeltas, Decimals (outside C03's stated universe): the extended universe
   Diff/XuValue.v, model Diff/XuModel.v, definition Diff/XuSpec.v (the scalar rule for the new atoms: values_changed
   iff not ==, old / new value = the two objects; [xrepr] / [xstr] = Python's repr / str of such objects, oracles).
   The statement of C03 holds there under one more guard: every datetime LEAF is already aware-UTC ([dt_utc]) ... *)
From DD Require Diff.XuValue Diff.XuTree Diff.XuModel Diff.XuTextView Diff.XuSpec Diff.XuEmpty Diff.XuSpecProofs.

Theorem C03x_positional_is_spec_partial :
  forall xrepr xstr hatom udiff ops excl d ip (t1 t2 : XuValue.value),
    (forall a b, hatom a = hatom b -> a = b) ->
    XuValue.wf t1 = true -> XuValue.wf t2 = true ->
    XuEmpty.inputs_ok XuEmpty.any_atom XuEmpty.any_atom XuSpecProofs.dt_utc t1 = true ->
    XuEmpty.inputs_ok XuEmpty.any_atom XuEmpty.any_atom XuSpecProofs.dt_utc t2 = true ->
    XuTextView.text_view xrepr xstr 2 (fst (XuModel.run_diff hatom udiff ops (fun _ => false) excl (XuModel.mkCfg true 0 d ip) t1 t2))
    = XuSpec.spec_diff xrepr xstr udiff ip t1 t2.
Proof. intros. apply XuSpecProofs.positional_run_is_spec; assumption. Qed.
Print Assumptions C03x_positional_is_spec_partial.

Theorem C03x_positional_no_mutual_rewrite :
  forall hatom udiff ops skip excl c (t1 t2 : XuValue.value),
    XuModel.zip c = true -> XuValue.wf t1 = true ->
    XuModel.mutual (fst (XuModel.diff hatom udiff ops skip excl c t1 t2 [] [])) = fst (XuModel.diff hatom udiff ops skip excl c t1 t2 [] []).
Proof. intros. apply XuSpecProofs.positional_mutual_id; assumption. Qed.
Print Assumptions C03x_positional_no_mutual_rewrite.

Theorem C03x_guards_satisfiable :
  XuValue.wf XuSpecProofs.xs_t1 = true /\ XuValue.wf XuSpecProofs.xs_t2 = true /\
  XuEmpty.inputs_ok XuEmpty.any_atom XuEmpty.any_atom XuSpecProofs.dt_utc XuSpecProofs.xs_t1 = true /\
  XuEmpty.inputs_ok XuEmpty.any_atom XuEmpty.any_atom XuSpecProofs.dt_utc XuSpecProofs.xs_t2 = true /\
  length (XuSpec.spec_diff XuSpecProofs.nostr XuSpecProofs.nostr (fun _ _ => []) true XuSpecProofs.xs_t1 XuSpecProofs.xs_t2) = 5 /\
  XuTextView.text_view XuSpecProofs.nostr XuSpecProofs.nostr 2
    (fst (XuModel.run_diff XuEmpty.inj_hash (fun _ _ => []) XuEmpty.one_block (fun _ => false) (fun _ => false) (XuModel.mkCfg true 0 1 true) XuSpecProofs.xs_t1 XuSpecProofs.xs_t2))
  = XuSpec.spec_diff XuSpecProofs.nostr XuSpecProofs.nostr (fun _ _ => []) true XuSpecProofs.xs_t1 XuSpecProofs.xs_t2.
Proof. exact XuSpecProofs.positional_guards_satisfiable. Qed.
Print Assumptions C03x_guards_satisfiable.

(* ... and not without it: (a) the values reported for a changed datetime are the NORMALISED ones (a naive datetime
   comes back with tzinfo=utc), the definition reports the input's; (b) C02-NAIVE-AWARE: nothing is reported for a naive
   datetime against the aware UTC one with the same wall clock, the definition reports a values_changed *)
Theorem C03x_positional_is_spec_refuted_normalised :
  XuValue.wf XuSpecProofs.nm_t1 = true /\ XuValue.wf XuSpecProofs.nm_t2 = true /\
  XuTextView.text_view XuSpecProofs.nostr XuSpecProofs.nostr 2
    (fst (XuModel.run_diff XuEmpty.inj_hash (fun _ _ => []) XuEmpty.one_block (fun _ => false) (fun _ => false) (XuModel.mkCfg true 0 1 true) XuSpecProofs.nm_t1 XuSpecProofs.nm_t2))
    = [XuTextView.TValue (XuTextView.render XuSpecProofs.nostr [XuValue.PIdx 0])
         (XuValue.VAtom (XuValue.ADt 1715984134000000 (Some 0%Z))) (XuValue.VAtom (XuValue.ADt 1715984135000000 (Some 0%Z))) None None] /\
  XuSpec.spec_diff XuSpecProofs.nostr XuSpecProofs.nostr (fun _ _ => []) true XuSpecProofs.nm_t1 XuSpecProofs.nm_t2
    = [XuTextView.TValue (XuTextView.render XuSpecProofs.nostr [XuValue.PIdx 0])
         (XuValue.VAtom (XuValue.ADt 1715984134000000 None)) (XuValue.VAtom (XuValue.ADt 1715984135000000 None)) None None].
Proof. exact XuSpecProofs.positional_is_spec_refuted_normalised. Qed.
Print Assumptions C03x_positional_is_spec_refuted_normalised.

Theorem C03x_positional_is_spec_refuted_naive_aware :
  XuTextView.text_view XuSpecProofs.nostr XuSpecProofs.nostr 2
    (fst (XuModel.run_diff XuEmpty.inj_hash (fun _ _ => []) XuEmpty.one_block (fun _ => false) (fun _ => false) (XuModel.mkCfg true 0 1 true)
            (XuValue.VList [XuValue.VAtom XuEmpty.na_naive]) (XuValue.VList [XuValue.VAtom XuEmpty.na_aware]))) = [] /\
  length (XuSpec.spec_diff XuSpecProofs.nostr XuSpecProofs.nostr (fun _ _ => []) true
            (XuValue.VList [XuValue.VAtom XuEmpty.na_naive]) (XuValue.VList [XuValue.VAtom XuEmpty.na_aware])) = 1.
Proof. exact XuSpecProofs.positional_is_spec_refuted_naive_aware. Qed.
Print Assumptions C03x_positional_is_spec_refuted_naive_aware.

(* the extended model and definition restricted to the values of Base/Value.v are the old ones (Diff/XuEmbed.v):
   text view of the run and recursive definition commute with the embedding, for every printer oracle *)
From DD Require Diff.XuEmbed.

Theorem C03x_models_agree_text :
  forall xrepr xstr hatom udiff ops skip excl c hatomX opsX skipX exclX,
    (forall a, hatomX (XuEmbed.emb_atom a) = hatom a) ->
    (forall p xs ys, opsX (XuEmbed.emb_path p) (map XuEmbed.emb xs) (map XuEmbed.emb ys) = map XuEmbed.emb_op (ops p xs ys)) ->
    (forall p, skipX (XuEmbed.emb_path p) = skip p) -> (forall p, exclX (XuEmbed.emb_path p) = excl p) ->
    forall v t1 t2,
      XuTextView.text_view xrepr xstr v (fst (XuModel.run_diff hatomX udiff opsX skipX exclX (XuEmbed.emb_cfg c) (XuEmbed.emb t1) (XuEmbed.emb t2))) =
      map XuEmbed.emb_tentry (text_view v (fst (run_diff hatom udiff ops skip excl c t1 t2))).
Proof. exact XuEmbed.models_agree_text_run. Qed.
Print Assumptions C03x_models_agree_text.

Theorem C03x_specs_agree :
  forall xrepr xstr udiff ip t1 t2,
    XuSpec.spec_diff xrepr xstr udiff ip (XuEmbed.emb t1) (XuEmbed.emb t2) = map XuEmbed.emb_tentry (spec_diff udiff ip t1 t2).
Proof. exact XuEmbed.models_agree_spec_diff. Qed.
Print Assumptions C03x_specs_agree.

(* ---- the extended universe WITHOUT the leaf guard (Diff/XuSpecNorm.v) ----
   [spec_n_diff] is the recursive definition in which a naive datetime LEAF is read as UTC and datetimes are shown in
   UTC ([spec_leaf] = XuSpec.spec with the leaf rule as a parameter; [spec_leaf raw_leaf = spec]; [norm_leaf] = the raw
   rule on the datetime_normalize'd atoms): for ALL well-formed values of the extended universe the positional result
   IS this definition, as lists ... *)
From DD Require Diff.XuSpecNorm.

Theorem C03x_positional_is_spec_n :
  forall xrepr xstr hatom udiff ops excl d ip (t1 t2 : XuValue.value),
    (forall a b, hatom a = hatom b -> a = b) ->
    XuValue.wf t1 = true -> XuValue.wf t2 = true ->
    XuTextView.text_view xrepr xstr 2 (fst (XuModel.run_diff hatom udiff ops (fun _ => false) excl (XuModel.mkCfg true 0 d ip) t1 t2))
    = XuSpecNorm.spec_n_diff xrepr xstr udiff ip t1 t2.
Proof. intros. apply XuSpecNorm.positional_run_is_spec_n_inj; assumption. Qed.
Print Assumptions C03x_positional_is_spec_n.

Theorem C03x_spec_n_is_spec_with_another_leaf_rule :
  forall xrepr xstr udiff ip t1 t2 p,
    XuSpecNorm.spec_leaf xrepr xstr ip (XuSpecNorm.raw_leaf xrepr udiff) t1 t2 p = XuSpec.spec xrepr xstr udiff ip t1 t2 p.
Proof. exact XuSpecNorm.spec_leaf_raw. Qed.
Print Assumptions C03x_spec_n_is_spec_with_another_leaf_rule.

(* ... and it is the definition with the RAW values (XuSpec.spec_diff) EXACTLY when every pair of same-type leaves the
   positional traversal compares is [dt_fixed]: normalising changes neither the verdict nor, if they differ, the two values
   (the guard dt_utc of C03x_positional_is_spec_partial made necessary and sufficient) *)
Theorem C03x_positional_is_spec_iff :
  forall xrepr xstr hatom udiff ops excl d ip ok (t1 t2 : XuValue.value),
    (forall a b, ok a = true -> ok b = true -> hatom a = hatom b -> a = b) ->
    XuValue.wf t1 = true -> XuValue.wf t2 = true ->
    XuEmpty.inputs_ok XuEmpty.any_atom ok XuEmpty.any_atom t1 = true ->
    XuEmpty.inputs_ok XuEmpty.any_atom ok XuEmpty.any_atom t2 = true ->
    (XuTextView.text_view xrepr xstr 2 (fst (XuModel.run_diff hatom udiff ops (fun _ => false) excl (XuModel.mkCfg true 0 d ip) t1 t2))
     = XuSpec.spec_diff xrepr xstr udiff ip t1 t2
     <-> XuSpecNorm.leaves_all ip XuSpecNorm.dt_fixed t1 t2 = true).
Proof. intros. eapply XuSpecNorm.positional_run_is_spec_iff; eassumption. Qed.
Print Assumptions C03x_positional_is_spec_iff.

(* the two refutation pairs above satisfy the unguarded statement and fail [leaves_all dt_fixed] *)
Theorem C03x_spec_n_witnesses :
  XuTextView.text_view XuSpecProofs.nostr XuSpecProofs.nostr 2
    (fst (XuModel.run_diff XuEmpty.inj_hash (fun _ _ => []) XuEmpty.one_block (fun _ => false) (fun _ => false) (XuModel.mkCfg true 0 1 true) XuSpecProofs.nm_t1 XuSpecProofs.nm_t2))
    = XuSpecNorm.spec_n_diff XuSpecProofs.nostr XuSpecProofs.nostr (fun _ _ => []) true XuSpecProofs.nm_t1 XuSpecProofs.nm_t2 /\
  XuSpecNorm.leaves_all true XuSpecNorm.dt_fixed XuSpecProofs.nm_t1 XuSpecProofs.nm_t2 = false /\
  XuSpecNorm.leaves_all true XuSpecNorm.dt_fixed (XuValue.VList [XuValue.VAtom XuEmpty.na_naive]) (XuValue.VList [XuValue.VAtom XuEmpty.na_aware]) = false /\
  XuSpecNorm.spec_n_diff XuSpecProofs.nostr XuSpecProofs.nostr (fun _ _ => []) true (XuValue.VList [XuValue.VAtom XuEmpty.na_naive]) (XuValue.VList [XuValue.VAtom XuEmpty.na_aware]) = [].
Proof.
  destruct XuSpecNorm.spec_n_witness_normalised as (_ & _ & A & _ & B).
  destruct XuSpecNorm.spec_n_witness_naive_aware as (_ & C & _ & D).
  exact (conj A (conj B (conj D C))).
Qed.
Print Assumptions C03x_spec_n_witnesses.

(** C02 soundness over the extended universe WITHOUT the leaf guard [dt_kind]: the induction of Diff/XuEmpty.v
    Section Sound, generalised over the relation [leq] that "nothing reported" establishes between two LEAVES.
      leq := py_eq,                      lf := dt_kind k     the guarded theorem of XuEmpty.v;
      leq := == after dt_norm,           lf := anything      NO guard: an empty diff means the two values are equal
                                                             once every naive datetime LEAF is read as UTC
    ([leqv leq]: Python == on values with leaves compared by leq; dict keys and set members by py_eq as always;
    [leqv dt_leq t1 t2 = py_eqv (normL t1) (normL t2)]).  This is exactly what DeepDiff decides (default_timezone = utc);
    the guard [dt_kind] is what makes it coincide with Python's == (finding C02-NAIVE-AWARE otherwise). *)
From Coq Require Import List ZArith NArith Bool Arith Lia.
Import ListNotations.
From DD Require Import Base.PyStr Diff.XuValue Diff.XuFacts
  Diff.XuTree Diff.XuModel Diff.XuDiffFacts Diff.XuLemmas Diff.XuEmpty.

(* Python == on values, leaves compared by [leq] *)
Fixpoint leqv (leq : atom -> atom -> bool) (a b : value) {struct a} : bool :=
  match a, b with
  | VAtom x, VAtom y => leq x y
  | VList xs, VList ys | VTuple xs, VTuple ys =>
      (fix go (xs ys : list value) {struct xs} : bool :=
         match xs, ys with
         | [], [] => true
         | x :: xs', y :: ys' => leqv leq x y && go xs' ys'
         | _, _ => false
         end) xs ys
  | VDict xs, VDict ys =>
      Nat.eqb (List.length xs) (List.length ys) &&
      (fix go (xs : list (atom * value)) : bool :=
         match xs with
         | [] => true
         | (k, v) :: xs' => match assoc k ys with
                            | Some v' => leqv leq v v'
                            | None => false
                            end && go xs'
         end) xs
  | VSet xs, VSet ys | VSet xs, VFrozen ys | VFrozen xs, VSet ys | VFrozen xs, VFrozen ys =>
      Nat.eqb (List.length xs) (List.length ys) && forallb (fun x => mem_atom x ys) xs
  | _, _ => false
  end.
Definition leaf_l (leq : atom -> atom -> bool) (x y : value) : bool :=
  match x, y with VAtom a, VAtom b => leq a b | _, _ => false end.
Definition dict_go_l (leq : atom -> atom -> bool) (ys : list (atom * value)) :=
  fix go (xs : list (atom * value)) : bool :=
    match xs with
    | [] => true
    | (k, v) :: xs' => match assoc k ys with
                       | Some v' => leqv leq v v'
                       | None => false
                       end && go xs'
    end.
Lemma leqv_dict leq xs ys :
  leqv leq (VDict xs) (VDict ys) = Nat.eqb (length xs) (length ys) && dict_go_l leq ys xs.
Proof. reflexivity. Qed.
Lemma leqv_list leq xs ys : leqv leq (VList xs) (VList ys) = all2 (leqv leq) xs ys.
Proof. reflexivity. Qed.
Lemma leqv_tuple leq xs ys : leqv leq (VTuple xs) (VTuple ys) = all2 (leqv leq) xs ys.
Proof. reflexivity. Qed.

Section SoundL.
Variable hatom : atom -> pystr.
Variable udiff : pystr -> pystr -> pystr.
Variable ops : path -> list value -> list value -> list opcode.
Variable excl : path -> bool.
Variable c : cfg.
Variable ok : atom -> bool.
Variable lf : atom -> bool.
Variable leq : atom -> atom -> bool.
(* what "nothing reported" means for two leaves, and: ==-equal leaves are related *)
Hypothesis Hleaf : forall a b p1 p2, lf a = true -> lf b = true -> diff_atom udiff noskip a b p1 p2 = [] -> leq a b = true.
Hypothesis Hpy : forall a b, py_eq a b = true -> leq a b = true.
Notation leaf_l := (leaf_l leq).
Notation leqv := (leqv leq).

Lemma all2_py_leaf_l xs ys : all2 py_eq_leaf xs ys = true -> all2 leaf_l xs ys = true.
Proof.
  revert ys; induction xs as [|x xs IH]; intros [|y ys]; cbn; intros H; try discriminate; [reflexivity|].
  apply andb_true_iff in H as [H1 H2]. rewrite (IH _ H2), andb_true_r.
  destruct x, y; cbn in H1 |- *; try discriminate. apply Hpy. exact H1.
Qed.

Lemma all2_leaf_leqv xs ys : all2 leaf_l xs ys = true -> all2 leqv xs ys = true.
Proof.
  revert ys; induction xs as [|x xs IH]; intros [|y ys]; cbn; intros H; try discriminate; [reflexivity|].
  apply andb_true_iff in H as [H1 H2]. rewrite (IH _ H2), andb_true_r.
  destruct x, y; cbn in H1; try discriminate. exact H1.
Qed.

Lemma pairs_leaf_nil_l xs : forall ys i j p1 p2,
  forallb is_atom xs = true -> forallb is_atom ys = true ->
  forallb (lfv lf) xs = true -> forallb (lfv lf) ys = true ->
  pairs_leaf udiff noskip xs ys i j p1 p2 = [] -> all2 leaf_l xs ys = true.
Proof.
  induction xs as [|x xs IH]; intros ys i j p1 p2 A1 A2 L1 L2 H.
  - destruct ys as [|y ys]; [reflexivity|]. cbn in H. discriminate H.
  - destruct ys as [|y ys]; [cbn in H; discriminate H|].
    cbn [pairs_leaf] in H. apply app_eq_nil in H as [H1 H2].
    cbn in A1, A2, L1, L2. apply andb_true_iff in A1 as [Ax A1], A2 as [Ay A2], L1 as [Lx L1], L2 as [Ly L2].
    cbn [all2]. rewrite (IH ys (S i) (S j) p1 p2 A1 A2 L1 L2 H2), andb_true_r.
    destruct (negb (i =? j) && py_eq_leaf x y) eqn:E; [cbn in H1; discriminate H1|].
    destruct x, y; try discriminate Ax; try discriminate Ay. cbn in H1 |- *.
    eapply Hleaf; eassumption.
Qed.
(* the item hash separates members that are not Python-equal (it may identify == members:
   1 and 1.0 under DeepDiff's ==-keyed table) *)
Hypothesis Hinj : forall a b, ok a = true -> ok b = true -> hatom a = hatom b -> py_eq a b = true.
Hypothesis Hvalid : valid_ops ops.
Notation diff := (diff hatom udiff ops noskip excl c).
Notation keep := (keep_key c).

(* the difflib pass with a valid oracle *)
Lemma by_opcodes_nil xs ys p1 p2 os : forall i j,
  forallb is_atom xs = true -> forallb is_atom ys = true ->
  forallb (lfv lf) xs = true -> forallb (lfv lf) ys = true ->
  tiles os i j (length xs) (length ys) = true -> forallb (equal_ok xs ys) os = true ->
  by_opcodes udiff noskip os xs ys p1 p2 = [] ->
  all2 leaf_l (skipn i xs) (skipn j ys) = true.
Proof.
  intros i j A1 A2 L1 L2. revert i j. induction os as [|o os IH]; intros i j T V H.
  - cbn in T. apply andb_true_iff in T as [T1 T2]. apply Nat.eqb_eq in T1, T2. subst.
    rewrite !skipn_all. reflexivity.
  - cbn [tiles] in T. repeat (apply andb_true_iff in T as [T ?]).
    cbn [forallb] in V. apply andb_true_iff in V as [Vo V].
    rewrite by_opcodes_cons in H. apply app_eq_nil in H as [Ho H].
    repeat match goal with Hx : (_ <=? _) = true |- _ => apply Nat.leb_le in Hx end.
    repeat match goal with Hx : (_ =? _) = true |- _ => apply Nat.eqb_eq in Hx end.
    match goal with Ht : tiles os _ _ _ _ = true |- _ => specialize (IH _ _ Ht V H) end.
    destruct o as [tag i1 i2 j1 j2]. cbn [oi1 oi2 oj1 oj2 otag] in *. subst i1 j1.
    rewrite (slice_skipn xs i i2), (slice_skipn ys j j2) by assumption.
    apply all2_app; [|exact IH].
    rewrite by_opcodes_single in Ho. cbn [otag oi1 oi2 oj1 oj2] in Ho.
    unfold equal_ok in Vo. unfold tag_ok in *. cbn [otag oi1 oi2 oj1 oj2] in *.
    destruct tag.
    + apply all2_py_leaf_l. exact Vo.
    + eapply pairs_leaf_nil_l; [apply forallb_slice; exact A1|apply forallb_slice; exact A2|apply forallb_slice; exact L1|apply forallb_slice; exact L2|exact Ho].
    + match goal with Hx : (_ =? _) = true |- _ => apply Nat.eqb_eq in Hx end. subst j2.
      apply (f_equal (@length entry)) in Ho. rewrite removed_from_length in Ho. cbn in Ho.
      apply length_zero_iff_nil in Ho. rewrite Ho, slice_same_nil. reflexivity.
    + match goal with Hx : (_ =? _) = true |- _ => apply Nat.eqb_eq in Hx end. subst i2.
      apply (f_equal (@length entry)) in Ho. rewrite added_from_length in Ho. cbn in Ho.
      apply length_zero_iff_nil in Ho. rewrite Ho, slice_same_nil. reflexivity.
Qed.

Lemma default_leaf_nil xs ys p :
  forallb is_atom xs = true -> forallb is_atom ys = true ->
  forallb (lfv lf) xs = true -> forallb (lfv lf) ys = true ->
  fst (default_leaf_list udiff ops noskip xs ys p p) = [] -> all2 leaf_l xs ys = true.
Proof.
  intros A1 A2 L1 L2. unfold default_leaf_list.
  pose proof (Hvalid p xs ys) as V. apply andb_true_iff in V as [T V].
  destruct (1 <? length (by_opcodes udiff noskip (ops p xs ys) xs ys p p)) eqn:L.
  - destruct (length (pairs_leaf udiff noskip xs ys 0 0 p p) <=? _); cbn [fst]; intros H.
    + eapply pairs_leaf_nil_l; eassumption.
    + rewrite H in L. cbn in L. discriminate L.
  - cbn [fst]. intros H. apply (by_opcodes_nil xs ys p p _ 0 0 A1 A2 L1 L2 T V H).
Qed.

(* sets *)
Lemma fph_cover l : forall seen a, In a l ->
  existsb (pystr_eqb (hatom a)) seen = true \/
  exists a', In a' (first_per_hash hatom l seen) /\ hatom a' = hatom a.
Proof.
  induction l as [|x l IH]; intros seen a Ha; [destruct Ha|].
  cbn [first_per_hash]. destruct Ha as [->|Ha].
  - destruct (existsb (pystr_eqb (hatom a)) seen) eqn:E; [left; reflexivity|].
    right. exists a. split; [left; reflexivity|reflexivity].
  - destruct (existsb (pystr_eqb (hatom x)) seen) eqn:E.
    + apply IH. exact Ha.
    + destruct (IH (hatom x :: seen) a Ha) as [H|(a' & H1 & H2)].
      * cbn in H. apply orb_true_iff in H as [H|H]; [|left; exact H].
        apply pystr_eqb_eq in H. right. exists x. split; [left; reflexivity|symmetry; exact H].
      * right. exists a'. split; [right; exact H1|exact H2].
Qed.

Lemma set_side_nil k xs ys p :
  forallb ok xs = true -> forallb ok ys = true ->
  flat_map (fun y => if existsb (pystr_eqb (hatom y)) (map hatom xs) then [] else report_set noskip k y p p)
           (first_per_hash hatom ys []) = [] ->
  forall y, In y ys -> mem_atom y xs = true.
Proof.
  intros O1 O2 H y Hy. destruct (fph_cover ys [] y Hy) as [E|(y' & H1 & H2)]; [discriminate E|].
  pose proof (flat_map_nil_inv _ _ H y' H1) as Hp. cbv beta in Hp.
  destruct (existsb (pystr_eqb (hatom y')) (map hatom xs)) eqn:E; [|discriminate Hp].
  apply existsb_exists in E as (h & Hh & Eh). apply in_map_iff in Hh as (x & <- & Hx).
  apply pystr_eqb_eq in Eh.
  assert (Oy : ok y = true) by (eapply forallb_forall in O2; eassumption).
  assert (Oy' : ok y' = true).
  { apply (first_per_hash_In hatom) in H1. eapply forallb_forall in O2; eassumption. }
  assert (Ox : ok x = true) by (eapply forallb_forall in O1; eassumption).
  apply (Hinj _ _ Oy' Oy) in H2. symmetry in Eh. apply (Hinj _ _ Ox Oy') in Eh.
  apply mem_atom_In. exists x. split; [exact Hx|].
  rewrite py_eq_sym. eapply py_eq_trans; eassumption.
Qed.

Lemma diff_set_nil xs ys p :
  nodup_atoms xs = true -> nodup_atoms ys = true ->
  forallb ok xs = true -> forallb ok ys = true ->
  diff_set hatom noskip xs ys p p = [] ->
  Nat.eqb (length xs) (length ys) && forallb (fun x => mem_atom x ys) xs = true.
Proof.
  intros N1 N2 O1 O2 H. unfold diff_set in H. apply app_eq_nil in H as [Ha Hr].
  pose proof (set_side_nil _ _ _ _ O1 O2 Ha) as Iyx. pose proof (set_side_nil _ _ _ _ O2 O1 Hr) as Ixy.
  apply andb_true_iff. split.
  - apply Nat.eqb_eq. apply Nat.le_antisymm; apply nodup_incl_le; try assumption; auto.
  - apply forallb_forall. intros x Hx. apply Ixy. exact Hx.
Qed.

Lemma leaf_guard xs : forallb (inputs_ok keep ok lf) xs = true -> forallb (lfv lf) xs = true.
Proof.
  intros H. apply forallb_forall. intros x Hx. eapply forallb_forall in H; [|exact Hx].
  destruct x; try reflexivity. exact H.
Qed.

Definition IHS (t1 : value) : Prop :=
  forall t2 p, wf t1 = true -> wf t2 = true -> inputs_ok keep ok lf t1 = true -> inputs_ok keep ok lf t2 = true ->
    fst (diff t1 t2 p p) = [] -> leqv t1 t2 = true.

Lemma added_from_nil ys i p1 p2 : added_from noskip ys i p1 p2 = [] -> ys = [].
Proof. destruct ys; [reflexivity|]. cbn. discriminate. Qed.

Lemma S_go_list xs : Forall IHS xs -> forall ys i p,
  forallb wf xs = true -> forallb wf ys = true ->
  forallb (inputs_ok keep ok lf) xs = true -> forallb (inputs_ok keep ok lf) ys = true ->
  fst (go_list noskip diff p p xs ys i) = [] -> all2 leqv xs ys = true.
Proof.
  induction 1 as [|x xs Hx _ IH]; intros ys i p W1 W2 K1 K2 H.
  - cbn in H. apply added_from_nil in H. subst. reflexivity.
  - destruct ys as [|y ys]; [cbn in H; discriminate H|].
    change (go_list noskip diff p p (x :: xs) (y :: ys) i) with
      (app2 (diff x y (snoc p (PIdx i)) (snoc p (PIdx i))) (go_list noskip diff p p xs ys (S i))) in H.
    unfold app2 in H. cbn [fst] in H. apply app_eq_nil in H as [H1 H2].
    cbn in W1, W2, K1, K2.
    apply andb_true_iff in W1 as [Wx W1], W2 as [Wy W2], K1 as [Kx K1], K2 as [Ky K2].
    cbn [all2]. rewrite (Hx y _ Wx Wy Kx Ky H1), (IH ys (S i) p W1 W2 K1 K2 H2). reflexivity.
Qed.

Lemma S_seq_body xs ys p : Forall IHS xs ->
  forallb wf xs = true -> forallb wf ys = true ->
  forallb (inputs_ok keep ok lf) xs = true -> forallb (inputs_ok keep ok lf) ys = true ->
  fst (seq_body hatom udiff ops noskip excl c xs ys p p) = [] -> all2 leqv xs ys = true.
Proof.
  intros IH W1 W2 K1 K2. unfold seq_body.
  destruct (negb (zip c) && forallb is_atom xs && forallb is_atom ys) eqn:M.
  - apply andb_true_iff in M as [M A2]. apply andb_true_iff in M as [_ A1].
    pose proof (default_leaf_nil xs ys p A1 A2 (leaf_guard xs K1) (leaf_guard ys K2)) as D.
    destruct (default_leaf_list udiff ops noskip xs ys p p) as [es rec]. cbn [fst] in *.
    intros H. apply all2_leaf_leqv. apply D. exact H.
  - eapply S_go_list; eassumption.
Qed.

Lemma keys_of_all kvs :
  forallb (fun kv => keep (fst kv) && inputs_ok keep ok lf (snd kv)) kvs = true -> keys_of c kvs = map fst kvs.
Proof.
  intros K. unfold keys_of. apply filter_all. intros k Hk. apply in_map_iff in Hk as (kv & <- & Hkv).
  eapply forallb_forall in K; [|exact Hkv]. apply andb_true_iff in K as [K _]. exact K.
Qed.

Lemma S_go_common kvs2 p :
  forallb (fun kv => wf (snd kv)) kvs2 = true ->
  forallb (fun kv => keep (fst kv) && inputs_ok keep ok lf (snd kv)) kvs2 = true ->
  forall l, forallb (fun kv => wf (snd kv)) l = true ->
  forallb (fun kv => keep (fst kv) && inputs_ok keep ok lf (snd kv)) l = true ->
  (forall kv, In kv l -> mem_atom (fst kv) (map fst kvs2) = true) ->
  Forall (fun kv => IHS (snd kv)) l ->
  fst (go_common c diff kvs2 (map fst kvs2) p p l) = [] -> dict_go_l leq kvs2 l = true.
Proof.
  intros W2 K2. induction l as [|[k v1] l IH]; intros W1 K1 M HI H; [reflexivity|].
  apply Forall_cons_iff in HI as [Hk HI'].
  cbn in W1, K1. apply andb_true_iff in W1 as [Wv W1], K1 as [Kk K1]. apply andb_true_iff in Kk as [Kk Kv].
  change (go_common c diff kvs2 (map fst kvs2) p p ((k, v1) :: l)) with
    (if keep k then
       match find (py_eq k) (map fst kvs2) with
       | Some k' => match assoc k' kvs2 with
                    | Some v2 => app2 (diff v1 v2 (snoc p (PKey k')) (snoc p (PKey k'))) (go_common c diff kvs2 (map fst kvs2) p p l)
                    | None => go_common c diff kvs2 (map fst kvs2) p p l
                    end
       | None => go_common c diff kvs2 (map fst kvs2) p p l
       end
     else go_common c diff kvs2 (map fst kvs2) p p l) in H.
  rewrite Kk in H.
  destruct (mem_find k (map fst kvs2) (M (k, v1) (or_introl eq_refl))) as [k' Fk]. rewrite Fk in H.
  apply find_some in Fk as [Hk' E].
  destruct (assoc k' kvs2) as [v2|] eqn:A2.
  2:{ exfalso. apply (proj1 (assoc_None k' kvs2)) in A2. rewrite (In_mem k' _ Hk') in A2. discriminate A2. }
  unfold app2 in H. cbn [fst] in H. apply app_eq_nil in H as [H1 H2].
  cbn [dict_go_l]. rewrite (assoc_py_eq kvs2 k k' E), A2.
  apply assoc_In in A2 as (k'' & Hin & _).
  assert (Wv2 : wf v2 = true) by (eapply forallb_forall in W2; [|exact Hin]; exact W2).
  assert (Kv2 : inputs_ok keep ok lf v2 = true).
  { eapply forallb_forall in K2; [|exact Hin]. apply andb_true_iff in K2 as [_ K2]. exact K2. }
  cbn in Hk. rewrite (Hk v2 _ Wv Wv2 Kv Kv2 H1). cbn [andb].
  apply IH; try assumption. intros kv Hkv. apply M. right. exact Hkv.
Qed.

Lemma S_dict_body kvs1 kvs2 p :
  Forall (fun kv => IHS (snd kv)) kvs1 ->
  wf (VDict kvs1) = true -> wf (VDict kvs2) = true ->
  inputs_ok keep ok lf (VDict kvs1) = true -> inputs_ok keep ok lf (VDict kvs2) = true ->
  fst (dict_body hatom udiff ops noskip excl c kvs1 kvs2 p p) = [] -> leqv (VDict kvs1) (VDict kvs2) = true.
Proof.
  intros IH W1 W2 K1 K2. cbn in W1, W2, K1, K2.
  apply andb_true_iff in W1 as [N1 W1], W2 as [N2 W2].
  unfold dict_body. rewrite (keys_of_all kvs1 K1), (keys_of_all kvs2 K2).
  destruct (dict_shortcut _ _ _ _ _); [cbn; discriminate|]. cbn [fst]. intros H.
  apply app_eq_nil in H as [Ha H]. apply app_eq_nil in H as [Hr Hc].
  assert (I21 : forall k, In k (map fst kvs2) -> mem_atom k (map fst kvs1) = true).
  { intros k Hk. pose proof (flat_map_nil_inv _ _ Ha k Hk) as Hp. cbv beta in Hp.
    destruct (mem_atom k (map fst kvs1)); [reflexivity|discriminate Hp]. }
  assert (I12 : forall k, In k (map fst kvs1) -> mem_atom k (map fst kvs2) = true).
  { intros k Hk. pose proof (flat_map_nil_inv _ _ Hr k Hk) as Hp. cbv beta in Hp.
    destruct (mem_atom k (map fst kvs2)); [reflexivity|discriminate Hp]. }
  rewrite leqv_dict. apply andb_true_iff. split.
  - apply Nat.eqb_eq. rewrite <- (map_length fst kvs1), <- (map_length fst kvs2).
    apply Nat.le_antisymm; apply nodup_incl_le; assumption.
  - apply (S_go_common kvs2 p W2 K2 kvs1 W1 K1); try assumption.
    intros kv Hkv. apply I12. apply in_map. exact Hkv.
Qed.

Theorem diff_empty_sound_eq : forall t1, IHS t1.
Proof.
  induction t1 as [a|xs IH|xs IH|kvs IH|xs|xs] using value_ind'; intros t2 p W1 W2 K1 K2;
    (match goal with |- context [diff ?t1 t2 _ _] => destruct (ty_eqb (type_of t1) (type_of t2)) eqn:T end;
     [|rewrite diff_type by (try reflexivity; exact T); cbn; discriminate]);
    pose proof T as T'; apply ty_eqb_true in T'; destruct t2; try discriminate T'; try (destruct a; discriminate T').
  - rewrite diff_atom_eq by reflexivity. cbn [type_of] in T. rewrite T. cbn [negb fst]. intros Hd. exact (Hleaf a a0 p p K1 K2 Hd).
  - rewrite diff_list by reflexivity. rewrite leqv_list. apply S_seq_body; assumption.
  - rewrite diff_tuple by reflexivity. rewrite leqv_tuple. apply S_seq_body; assumption.
  - rewrite diff_dict by reflexivity. apply S_dict_body; assumption.
  - rewrite diff_vset by reflexivity. cbn [fst]. cbn in W1, W2, K1, K2. apply diff_set_nil; assumption.
  - rewrite diff_vfrozen by reflexivity. cbn [fst]. cbn in W1, W2, K1, K2. apply diff_set_nil; assumption.
Qed.

Theorem run_empty_sound_eq t1 t2 :
  wf t1 = true -> wf t2 = true -> inputs_ok keep ok lf t1 = true -> inputs_ok keep ok lf t2 = true ->
  fst (run_diff hatom udiff ops noskip excl c t1 t2) = [] -> leqv t1 t2 = true.
Proof.
  intros W1 W2 K1 K2 H. unfold run_diff in H.
  pose proof (diff_empty_sound_eq t1 t2 [] W1 W2 K1 K2) as S.
  destruct (diff t1 t2 [] []) as [es rec]. cbn [fst] in *. apply S. apply mutual_nil. exact H.
Qed.

End SoundL.

(* ------------------------------------------------------------------ *)
(** * Instances *)

(* leaves related when == after normalisation *)
Definition dt_leq (a b : atom) : bool := py_eq (dt_norm a) (dt_norm b).

Lemma diff_atom_nil_norm udiff a b p1 p2 : diff_atom udiff noskip a b p1 p2 = [] -> dt_leq a b = true.
Proof.
  unfold dt_leq, diff_atom, report. destruct (negb (ty_eqb (atom_ty a) (atom_ty b))) eqn:T; [discriminate|].
  destruct a as [|x|x|x|s|s|u1 o1|x|u1 o1|x|m1 e1], b as [|y|y|y|t|t|u2 o2|y|u2 o2|y|m2 e2]; try discriminate T;
    try (cbn [dt_norm]; destruct (py_eq _ _); [reflexivity|discriminate]).
  - cbn [dt_norm]. unfold diff_str. replace (py_eq (AStr s) (AStr t)) with (pystr_eqb s t) by reflexivity.
    destruct (pystr_eqb s t); [reflexivity|]. destruct (true && _); discriminate.
  - cbn [dt_norm]. unfold diff_str. replace (py_eq (ABytes s) (ABytes t)) with (pystr_eqb s t) by reflexivity.
    destruct (pystr_eqb s t); [reflexivity|]. destruct (_ && _); discriminate.
Qed.

Lemma py_eq_dt_leq a b : py_eq a b = true -> dt_leq a b = true.
Proof.
  unfold dt_leq. destruct a as [|x|x|x|s|s|u1 o1|x|u1 o1|x|m1 e1], b as [|y|y|y|t|t|u2 o2|y|u2 o2|y|m2 e2];
    try (intros H; exact H); try (intros H; destruct o1; discriminate H); try (intros H; destruct o2; discriminate H).
  intros H. rewrite dt_norm_py_eq; [exact H|].
  destruct o1, o2; try reflexivity; unfold py_eq in H; cbn in H; discriminate H.
Qed.

(* normalising the datetime LEAVES of a value *)
Fixpoint normL (v : value) : value :=
  match v with
  | VAtom a => VAtom (dt_norm a)
  | VList xs => VList (map normL xs)
  | VTuple xs => VTuple (map normL xs)
  | VDict kvs => VDict (map (fun kv => (fst kv, normL (snd kv))) kvs)
  | VSet _ | VFrozen _ => v
  end.

Lemma all2_map {A B} (f : B -> B -> bool) (g : A -> B) xs ys :
  all2 f (map g xs) (map g ys) = all2 (fun x y => f (g x) (g y)) xs ys.
Proof. revert ys; induction xs as [|x xs IH]; intros [|y ys]; cbn; try reflexivity. rewrite IH. reflexivity. Qed.

Lemma all2_ext_in {A} (f g : A -> A -> bool) xs : Forall (fun x => forall y, f x y = g x y) xs ->
  forall ys, all2 f xs ys = all2 g xs ys.
Proof.
  induction 1 as [|x xs Hx _ IH]; intros [|y ys]; cbn; try reflexivity. rewrite Hx, IH. reflexivity.
Qed.

Lemma assoc_normL k ys : assoc k (map (fun kv => (fst kv, normL (snd kv))) ys) = option_map normL (assoc k ys).
Proof. induction ys as [|[k0 v0] ys IH]; cbn; [reflexivity|]. destruct (py_eq k0 k); [reflexivity|exact IH]. Qed.

Theorem leqv_normL : forall t1 t2, leqv dt_leq t1 t2 = py_eqv (normL t1) (normL t2).
Proof.
  induction t1 as [a|xs IH|xs IH|kvs IH|xs|xs] using value_ind'; intros t2; destruct t2 as [b|ys|ys|kvs2|ys|ys]; try reflexivity.
  - cbn [normL]. rewrite leqv_list. change (py_eqv (VList (map normL xs)) (VList (map normL ys))) with (all2 py_eqv (map normL xs) (map normL ys)).
    rewrite all2_map. apply all2_ext_in. exact IH.
  - cbn [normL]. rewrite leqv_tuple. change (py_eqv (VTuple (map normL xs)) (VTuple (map normL ys))) with (all2 py_eqv (map normL xs) (map normL ys)).
    rewrite all2_map. apply all2_ext_in. exact IH.
  - cbn [normL]. rewrite leqv_dict, py_eqv_dict, !map_length. f_equal.
    induction kvs as [|[k v] kvs IHk]; [reflexivity|]. apply Forall_cons_iff in IH as [Hv IH].
    cbn [map dict_go_l dict_go fst snd]. rewrite assoc_normL. rewrite (IHk IH).
    destruct (assoc k kvs2) as [v'|]; cbn [option_map]; [cbn [snd] in Hv; rewrite (Hv v')|]; reflexivity.
Qed.

(* ---- final statements ---- *)

(* NO leaf guard: an empty diff means equal once naive datetime leaves are read as UTC *)
Theorem run_empty_sound_norm hatom udiff ops excl c ok t1 t2 :
  (forall a b, ok a = true -> ok b = true -> hatom a = hatom b -> py_eq a b = true) -> valid_ops ops ->
  wf t1 = true -> wf t2 = true ->
  inputs_ok (keep_key c) ok any_atom t1 = true -> inputs_ok (keep_key c) ok any_atom t2 = true ->
  fst (run_diff hatom udiff ops noskip excl c t1 t2) = [] -> py_eqv (normL t1) (normL t2) = true.
Proof.
  intros Hh V W1 W2 K1 K2 E. rewrite <- leqv_normL.
  apply (run_empty_sound_eq hatom udiff ops excl c ok any_atom dt_leq
           (fun a b p1 p2 _ _ => diff_atom_nil_norm udiff a b p1 p2) py_eq_dt_leq Hh V t1 t2 W1 W2 K1 K2 E).
Qed.

(* the guarded theorem is the instance leq := py_eq *)
Theorem run_empty_sound_dt_again hatom udiff ops excl c ok k t1 t2 :
  (forall a b, ok a = true -> ok b = true -> hatom a = hatom b -> py_eq a b = true) -> valid_ops ops ->
  wf t1 = true -> wf t2 = true ->
  inputs_ok (keep_key c) ok (dt_kind k) t1 = true -> inputs_ok (keep_key c) ok (dt_kind k) t2 = true ->
  fst (run_diff hatom udiff ops noskip excl c t1 t2) = [] -> leqv py_eq t1 t2 = true.
Proof.
  intros Hh V.
  apply (run_empty_sound_eq hatom udiff ops excl c ok (dt_kind k) py_eq
           (fun a b p1 p2 La Lb => XuEmpty.diff_atom_nil udiff a b p1 p2 (dt_kind_same k a b La Lb)) (fun a b H => H) Hh V).
Qed.

(* the unguarded conclusion is strictly weaker than == exactly on the finding's witness, and not vacuous *)
Example normL_witness :
  py_eqv (normL (VList [VAtom na_naive])) (normL (VList [VAtom na_aware])) = true /\
  py_eqv (VList [VAtom na_naive]) (VList [VAtom na_aware]) = false /\
  py_eqv (normL nv_t1) (normL nv_t2) = true /\
  py_eqv (normL (VList [VAtom (ADt 5 None)])) (normL (VList [VAtom (ADt 6 None)])) = false.
Proof. repeat split; vm_compute; reflexivity. Qed.

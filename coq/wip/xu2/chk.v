From DD Require Diff.XuSpecNorm.
Set Printing Width 180.
Check XuSpecNorm.positional_run_is_spec_n_inj.
Check XuSpecNorm.positional_run_is_spec_iff.
Check XuSpecNorm.spec_n_is_spec_iff.
Check XuSpecNorm.spec_n_witness_normalised.
Check XuSpecNorm.spec_n_witness_naive_aware.
Check XuSpecNorm.spec_leaf_raw.

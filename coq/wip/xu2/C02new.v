(** C02 - an empty diff means equal; a structural copy always gives an empty diff.
    Final statements only.  Model: Diff/DiffModel.v, the ordered diff in BOTH
    alignment modes with every threshold_to_diff_deeper <= 1; the view and
    verbose_level >= 1 only re-present the result tree (Diff/TextView.v maps every
    level of the tree to an entry at verbose_level >= 1, so "empty" is the same in
    every view); cache_size / max_passes do not occur in ordered mode.
    The model is purely functional: "never modifies t1 or t2" is checked on the
    implementation only (harness/props/c02.py).

    Oracles: [hatom] DeepHash of a set member, [udiff] difflib.unified_diff,
    [ops] difflib opcodes, [excl] exclude_paths membership.
      tiling ops     every answer of [ops] is a contiguous sequence of blocks from
                     (0,0) to (len t1, len t2) whose 'equal' blocks span as many items
                     on both sides, 'delete' blocks no item of t2, 'insert' blocks none of t1
      valid_ops ops  tiling + the 'equal' blocks are pointwise Python-equal
    Both are computable predicates on the opcodes (Diff/DiffEmpty.v). *)
From Coq Require Import List ZArith Bool Arith.
Import ListNotations.
From DD Require Import Base.PyStr Base.Value Diff.Tree Diff.DiffModel Diff.DiffEmpty.
From DD Require Hash.HashModel Hash.HashProofsMemo Diff.DiffMemo Diff.DiffMemoProofs.

(* A structural copy gives an empty diff - for EVERY opcode oracle that tiles the
   lists (it need not be truthful), every item hash, every udiff, every threshold <= 1,
   both alignment modes. *)
Theorem C02_copy_empty :
  forall hatom udiff ops excl c t,
    thr_num c <= thr_den c -> tiling ops -> wf t = true ->
    fst (run_diff hatom udiff ops (fun _ => false) excl c t t) = [].
Proof. intros. apply run_copy_empty; assumption. Qed.
Print Assumptions C02_copy_empty.

(* An empty diff means Python-equal ([py_eqv] = Python's == on values: 1 == True == 1.0,
   dicts and sets up to order).
   GUARDS, both needed (refutations below).  [inputs_ok keep ok t] (boolean, Diff/DiffEmpty.v):
   every dict key of t, at every depth, satisfies [keep] and every set / frozenset member
   satisfies [ok].
   - keep = keep_key c: no key is hidden by ignore_private_variables (documented: str keys
     starting with "__" are not compared when ignore_private_variables=True, the default);
   - ok: where the item hash is injective (the real DeepHash is not everywhere: finding K1). *)
Theorem C02_empty_sound :
  forall hatom udiff ops excl c ok t1 t2,
    (forall a b, ok a = true -> ok b = true -> hatom a = hatom b -> a = b) -> valid_ops ops ->
    wf t1 = true -> wf t2 = true ->
    inputs_ok (keep_key c) ok t1 = true -> inputs_ok (keep_key c) ok t2 = true ->
    fst (run_diff hatom udiff ops (fun _ => false) excl c t1 t2) = [] -> py_eqv t1 t2 = true.
Proof. intros. eapply run_empty_sound; eassumption. Qed.
Print Assumptions C02_empty_sound.

(* the same for the model of the real item hash: DeepHash of a scalar (Hash/HashModel.v
   [hash_atom], memo-free) over ANY injective hasher H, options other than the mode at their
   defaults.  The only guards left are boolean conditions on the inputs: keys looked at, and set
   members [tag_safe_atom] (no str equal to 'NONE' or containing ':'). *)
Theorem C02_empty_sound_deephash :
  forall H o udiff ops excl c t1 t2,
    (forall s t, H s = H t -> s = t) -> Hash.HashModel.plain o = true ->
    valid_ops ops -> wf t1 = true -> wf t2 = true ->
    inputs_ok (keep_key c) Hash.HashModel.tag_safe_atom t1 = true ->
    inputs_ok (keep_key c) Hash.HashModel.tag_safe_atom t2 = true ->
    fst (run_diff (Hash.HashModel.hash_atom H o) udiff ops (fun _ => false) excl c t1 t2) = [] -> py_eqv t1 t2 = true.
Proof. intros. eapply run_empty_sound_deephash; eassumption. Qed.
Print Assumptions C02_empty_sound_deephash.

(* with ignore_private_variables=False and an everywhere-injective hash: no condition on the inputs *)
Theorem C02_empty_sound_public :
  forall hatom udiff ops excl c t1 t2,
    ignore_private c = false ->
    (forall a b, hatom a = hatom b -> a = b) -> valid_ops ops ->
    wf t1 = true -> wf t2 = true ->
    fst (run_diff hatom udiff ops (fun _ => false) excl c t1 t2) = [] -> py_eqv t1 t2 = true.
Proof.
  intros hatom udiff ops excl c t1 t2 Hp Hinj. intros.
  eapply (run_empty_sound hatom udiff ops excl c any_atom); try eassumption;
    try (apply inputs_ok_true; [intros k; apply keep_all_public; exact Hp|reflexivity]).
  intros a b _ _. apply Hinj.
Qed.
Print Assumptions C02_empty_sound_public.

(* the hypotheses are satisfiable together, on a pair that is not a structural copy *)
Theorem C02_empty_sound_guards_satisfiable :
  valid_ops one_block /\ (forall a b, inj_hash a = inj_hash b -> a = b) /\
  wf nv_t1 = true /\ wf nv_t2 = true /\
  inputs_ok (keep_key (mkCfg false 33 100 true)) any_atom nv_t1 = true /\
  inputs_ok (keep_key (mkCfg false 33 100 true)) any_atom nv_t2 = true /\
  fst (run_diff inj_hash (fun _ _ => []) one_block (fun _ => false) (fun _ => false) (mkCfg false 33 100 true) nv_t1 nv_t2) = [] /\
  value_eqb nv_t1 nv_t2 = false.
Proof. exact sound_guards_satisfiable. Qed.
Print Assumptions C02_empty_sound_guards_satisfiable.

(* without the key guard: {'__a': 1} vs {'__a': 2}, ignore_private_variables=True, injective
   hash, valid opcodes - empty diff, not equal.  (Documented behaviour; witness replayed on
   the implementation by harness/props/c02.py.) *)
Theorem C02_empty_sound_refuted_private :
  wf priv_t1 = true /\ wf priv_t2 = true /\
  fst (run_diff inj_hash (fun _ _ => []) one_block (fun _ => false) (fun _ => false) (mkCfg false 33 100 true) priv_t1 priv_t2) = [] /\
  py_eqv priv_t1 priv_t2 = false.
Proof. exact empty_sound_refuted_private. Qed.
Print Assumptions C02_empty_sound_refuted_private.

(* without injectivity of the item hash: {'NONE'} vs {None} under the model of the real
   DeepHash on scalars (Hash/HashModel.v hash_atom over an injective stand-in for SHA-256),
   ignore_private_variables=False - empty diff, not equal.  Finding K1; witness replayed on
   the implementation by harness/props/c02.py. *)
Theorem C02_empty_sound_refuted_hash :
  wf k1_t1 = true /\ wf k1_t2 = true /\
  inputs_ok (keep_key (mkCfg false 33 100 false)) any_atom k1_t1 = true /\
  inputs_ok (keep_key (mkCfg false 33 100 false)) any_atom k1_t2 = true /\
  fst (run_diff deephash_atom (fun _ _ => []) one_block (fun _ => false) (fun _ => false) (mkCfg false 33 100 false) k1_t1 k1_t2) = [] /\
  py_eqv k1_t1 k1_t2 = false.
Proof. exact empty_sound_refuted_hash. Qed.
Print Assumptions C02_empty_sound_refuted_hash.

(* ---- the run-wide DeepHash table (self.hashes, keyed by ==) inside the model ----
   Diff/DiffMemo.v [run_diff_m] threads the table through the traversal in the implementation's
   order; it is what the correspondence check runs on inputs with ==-aliased set members.
   Guard [no_alias (set_members ..)]: no two set / frozenset members of the inputs are == without
   being identical (finding K2).  Under it the table is transparent ([diff_m] reports the levels
   of [diff] with the pure item hash, as a multiset) and both clauses transfer. *)
Theorem C02_table_transparent :
  forall H o udiff ops skip excl c m t1 t2 p1 p2,
    Hash.HashModel.ignore_iterable_order o = true ->
    Hash.HashProofsMemo.memo_ok H o m -> wf t1 = true -> wf t2 = true ->
    Hash.HashModel.no_alias (Hash.HashModel.matoms m ++ DiffMemoProofs.set_members t1 ++ DiffMemoProofs.set_members t2) = true ->
    let r := DiffMemo.diff_m H o udiff ops skip excl c m t1 t2 p1 p2 in
    Permutation.Permutation (fst (fst r)) (fst (diff (Hash.HashModel.hash_atom H o) udiff ops skip excl c t1 t2 p1 p2)) /\
    Permutation.Permutation (snd (fst r)) (snd (diff (Hash.HashModel.hash_atom H o) udiff ops skip excl c t1 t2 p1 p2)) /\
    Hash.HashProofsMemo.memo_ok H o (snd r) /\
    incl (Hash.HashModel.matoms (snd r)) (Hash.HashModel.matoms m ++ DiffMemoProofs.set_members t1 ++ DiffMemoProofs.set_members t2).
Proof. intros. apply DiffMemoProofs.diff_m_pure; assumption. Qed.
Print Assumptions C02_table_transparent.

Theorem C02_copy_empty_with_table :
  forall H o udiff ops excl c t,
    Hash.HashModel.ignore_iterable_order o = true ->
    thr_num c <= thr_den c -> tiling ops -> wf t = true ->
    Hash.HashModel.no_alias (DiffMemoProofs.set_members t) = true ->
    fst (fst (DiffMemo.run_diff_m H o udiff ops (fun _ => false) excl c t t)) = [].
Proof. intros. apply DiffMemoProofs.run_diff_m_copy_empty; assumption. Qed.
Print Assumptions C02_copy_empty_with_table.

Theorem C02_empty_sound_with_table :
  forall H o udiff ops excl c t1 t2,
    Hash.HashModel.ignore_iterable_order o = true ->
    (forall s t, H s = H t -> s = t) -> Hash.HashModel.plain o = true -> valid_ops ops ->
    wf t1 = true -> wf t2 = true ->
    inputs_ok (keep_key c) Hash.HashModel.tag_safe_atom t1 = true ->
    inputs_ok (keep_key c) Hash.HashModel.tag_safe_atom t2 = true ->
    Hash.HashModel.no_alias (DiffMemoProofs.set_members t1 ++ DiffMemoProofs.set_members t2) = true ->
    fst (fst (DiffMemo.run_diff_m H o udiff ops (fun _ => false) excl c t1 t2)) = [] -> py_eqv t1 t2 = true.
Proof. intros. eapply DiffMemoProofs.run_diff_m_empty_sound; eassumption. Qed.
Print Assumptions C02_empty_sound_with_table.

(* without the alias guard the table is observable (finding K2; {1,'a'} vs {1.0,'a'}: the run with
   the table reports nothing, like the implementation; the memo-free model reports two items) ... *)
Theorem C02_table_transparent_refuted :
  wf DiffSpecProofs.k2_t1 = true /\ wf DiffSpecProofs.k2_t2 = true /\
  fst (fst (DiffMemo.run_diff_m Hash.HashModel.hexhash Hash.HashModel.default_opts (fun _ _ => []) one_block (fun _ => false) (fun _ => false) (mkCfg false 33 100 true) DiffSpecProofs.k2_t1 DiffSpecProofs.k2_t2)) = [] /\
  length (fst (run_diff (Hash.HashModel.hash_atom Hash.HashModel.hexhash Hash.HashModel.default_opts) (fun _ _ => []) one_block (fun _ => false) (fun _ => false) (mkCfg false 33 100 true) DiffSpecProofs.k2_t1 DiffSpecProofs.k2_t2)) = 2.
Proof. exact DiffMemoProofs.diff_m_pure_refuted_alias. Qed.
Print Assumptions C02_table_transparent_refuted.

(* ... and so is the order in which _diff_dict visits the common keys (t2's key order):
   {'x':{1.0},'y':{1}} vs {'y':{'int:1'},'x':{1.0}} gives {} but vs {'x':{1.0},'y':{'int:1'}} two items
   (both replayed on the implementation by harness/props/c02.py) *)
Theorem C02_visiting_order_observable :
  value_eqb DiffMemoProofs.ord_t2_yx DiffMemoProofs.ord_t2_xy = false /\ py_eqv DiffMemoProofs.ord_t2_yx DiffMemoProofs.ord_t2_xy = true /\
  fst (fst (DiffMemo.run_diff_m Hash.HashModel.hexhash Hash.HashModel.default_opts (fun _ _ => []) one_block (fun _ => false) (fun _ => false) (mkCfg false 33 100 true) DiffMemoProofs.ord_t1 DiffMemoProofs.ord_t2_yx)) = [] /\
  length (fst (fst (DiffMemo.run_diff_m Hash.HashModel.hexhash Hash.HashModel.default_opts (fun _ _ => []) one_block (fun _ => false) (fun _ => false) (mkCfg false 33 100 true) DiffMemoProofs.ord_t1 DiffMemoProofs.ord_t2_xy))) = 2.
Proof. exact DiffMemoProofs.visiting_order_observable. Qed.
Print Assumptions C02_visiting_order_observable.

(* ---- the table WITHOUT the alias guard (Diff/DiffMemoFinal.v) ----
   The exact relation between the run with DeepDiff's run-wide table and the memo-free model, for ALL
   well-formed inputs, every hasher and every DeepHash option set: the levels reported with the table
   are those of the memo-free run whose item hash is read off the table the run ends with
   ([hfin mf a] = the hash the table mf serves for a: that of the first ==-equal atom ever inserted, else
   a's own), as multisets - the table only grows at its end and a lookup returns the first match. *)
From DD Require Diff.DiffMemoFinal.

Theorem C02_table_is_memo_free_run :
  forall H o udiff ops skip excl c t1 t2,
    wf t1 = true -> wf t2 = true ->
    let mf := DiffMemoFinal.final_table H o udiff ops excl c skip t1 t2 in
    DiffMemoFinal.pure_entries H o mf /\
    Permutation.Permutation (fst (fst (DiffMemo.diff_m H o udiff ops skip excl c [] t1 t2 [] [])))
                            (fst (diff (DiffMemoFinal.hfin H o mf) udiff ops skip excl c t1 t2 [] [])) /\
    Permutation.Permutation (snd (fst (DiffMemo.diff_m H o udiff ops skip excl c [] t1 t2 [] [])))
                            (snd (diff (DiffMemoFinal.hfin H o mf) udiff ops skip excl c t1 t2 [] [])).
Proof. intros. apply DiffMemoFinal.run_diff_m_is_memo_free; assumption. Qed.
Print Assumptions C02_table_is_memo_free_run.

(* the same from any starting table and for every later table *)
Theorem C02_table_is_memo_free :
  forall H o udiff ops skip excl c m t1 t2 p1 p2,
    wf t1 = true -> wf t2 = true ->
    let r := DiffMemo.diff_m H o udiff ops skip excl c m t1 t2 p1 p2 in
    DiffMemoFinal.ext H o m (snd r) /\
    forall mf, DiffMemoFinal.extends (snd r) mf ->
      Permutation.Permutation (fst (fst r)) (fst (diff (DiffMemoFinal.hfin H o mf) udiff ops skip excl c t1 t2 p1 p2)) /\
      Permutation.Permutation (snd (fst r)) (snd (diff (DiffMemoFinal.hfin H o mf) udiff ops skip excl c t1 t2 p1 p2)).
Proof. intros. apply DiffMemoFinal.diff_m_final; assumption. Qed.
Print Assumptions C02_table_is_memo_free.

(* both clauses for the run with the table, NO alias guard: ==-aliased set members (1 / 1.0 / Decimal(1))
   anywhere in the inputs are allowed.  Copy clause: every hasher, every DeepHash option set. *)
Theorem C02_copy_empty_with_table_any :
  forall H o udiff ops excl c t,
    thr_num c <= thr_den c -> tiling ops -> wf t = true ->
    fst (fst (DiffMemo.run_diff_m H o udiff ops (fun _ => false) excl c t t)) = [].
Proof. intros. apply DiffMemoFinal.run_diff_m_copy_empty_any; assumption. Qed.
Print Assumptions C02_copy_empty_with_table_any.

(* Soundness: the hash the table serves still separates members that are not Python-equal
   ([hfin_separates]: 1 and 1.0 may share a hash, 1 and 2 never do), which is all that soundness needs
   ([C02_empty_sound_separating] below). *)
Theorem C02_empty_sound_with_table_any :
  forall H o udiff ops excl c t1 t2,
    (forall s t, H s = H t -> s = t) -> Hash.HashModel.plain o = true -> valid_ops ops ->
    wf t1 = true -> wf t2 = true ->
    inputs_ok (keep_key c) Hash.HashModel.tag_safe_atom t1 = true ->
    inputs_ok (keep_key c) Hash.HashModel.tag_safe_atom t2 = true ->
    fst (fst (DiffMemo.run_diff_m H o udiff ops (fun _ => false) excl c t1 t2)) = [] -> py_eqv t1 t2 = true.
Proof. intros. eapply DiffMemoFinal.run_diff_m_empty_sound_any; eassumption. Qed.
Print Assumptions C02_empty_sound_with_table_any.

(* C02_empty_sound under the weaker hypothesis on the item hash: equal hashes only for ==-equal members
   (instead of: only for identical members) *)
Theorem C02_empty_sound_separating :
  forall hatom udiff ops excl c ok t1 t2,
    (forall a b, ok a = true -> ok b = true -> hatom a = hatom b -> py_eq a b = true) -> valid_ops ops ->
    wf t1 = true -> wf t2 = true ->
    inputs_ok (keep_key c) ok t1 = true -> inputs_ok (keep_key c) ok t2 = true ->
    fst (run_diff hatom udiff ops (fun _ => false) excl c t1 t2) = [] -> py_eqv t1 t2 = true.
Proof. intros. eapply run_empty_sound_eq; eassumption. Qed.
Print Assumptions C02_empty_sound_separating.

(* ---- numeric arrays (numpy), Diff/NpModel.v: a model of _diff_numpy_array on n-dimensional numeric arrays
   ([narr] = dtype, shape, row-major elements; [nwf] = at least one axis, as many elements as the shape says,
   every element of the dtype's type): a dtype difference is a type change of the whole array; np.array_equal
   is the fast path; different shapes -> both .tolist() and the LIST model above on them; same shape -> the rows
   (1-d: the array) position by position.  Tied to DeepDiff by the stream c02np of harness/npcommon.py. *)
From DD Require Diff.NpModel Diff.NpProofs.

(* copy clause: an equal array (same dtype, shape, elements pointwise ==), whatever the opcode oracle and mode *)
Theorem C02_numpy_copy_empty :
  forall ops zip a b, NpModel.array_eqb a b = true -> NpModel.np_run_diff ops zip a b = [].
Proof. intros. apply NpProofs.np_copy_empty_eq; assumption. Qed.
Print Assumptions C02_numpy_copy_empty.

(* soundness, EXACTLY: the diff of two arrays is empty iff the dtypes agree, the elements agree, and the shapes agree
   up to and including the first zero-length axis ([upto0]) ... *)
Theorem C02_numpy_empty_iff :
  forall ops zip a b, valid_ops ops -> NpModel.nwf a = true -> NpModel.nwf b = true ->
    (NpModel.np_run_diff ops zip a b = [] <->
     NpModel.dtype a = NpModel.dtype b /\ NpProofs.upto0 (NpModel.shape a) = NpProofs.upto0 (NpModel.shape b) /\
     NpModel.data a = NpModel.data b).
Proof. intros. apply NpProofs.np_empty_iff_shape; assumption. Qed.
Print Assumptions C02_numpy_empty_iff.

(* ... so an empty diff means equal arrays whenever one of them has an element or the shapes are equal ... *)
Theorem C02_numpy_empty_sound_partial :
  forall ops zip a b, valid_ops ops -> NpModel.nwf a = true -> NpModel.nwf b = true ->
    NpModel.size a <> 0 \/ NpModel.size b <> 0 \/ NpModel.shape a = NpModel.shape b ->
    NpModel.np_run_diff ops zip a b = [] -> a = b.
Proof. intros. eapply NpProofs.np_empty_sound_partial_eq; eassumption. Qed.
Print Assumptions C02_numpy_empty_sound_partial.

(* ... and not otherwise: zeros((0,3)) vs zeros((0,2)), zeros((0,)) vs zeros((0,1)) - empty diff for every valid
   opcode oracle, different shapes (finding C02-EMPTY-ARRAY-SHAPE; replayed on the implementation by c02.py) *)
Theorem C02_numpy_empty_sound_refuted_empty_shape :
  forall ops zip, valid_ops ops ->
    NpModel.np_run_diff ops zip NpProofs.z03 NpProofs.z02 = [] /\ NpModel.np_run_diff ops zip NpProofs.z0 NpProofs.z01 = [] /\
    NpModel.shape NpProofs.z03 <> NpModel.shape NpProofs.z02 /\ NpModel.shape NpProofs.z0 <> NpModel.shape NpProofs.z01.
Proof. intros. apply NpProofs.np_empty_sound_refuted_empty_shape_all; assumption. Qed.
Print Assumptions C02_numpy_empty_sound_refuted_empty_shape.

(* same dtype and shape: the reported levels are exactly the positions where the elements differ (values_changed at
   the index path, old / new = the two elements): the recursive definition for arrays *)
Theorem C02_numpy_same_shape_is_pointwise :
  forall ops zip a b, NpModel.nwf a = true -> NpModel.nwf b = true ->
    NpModel.dtype a = NpModel.dtype b -> NpModel.shape a = NpModel.shape b ->
    NpModel.np_run_diff ops zip a b = NpProofs.np_spec a b.
Proof. intros. apply NpProofs.np_same_shape_is_pointwise; assumption. Qed.
Print Assumptions C02_numpy_same_shape_is_pointwise.

Theorem C02_numpy_guards_satisfiable :
  valid_ops one_block /\ NpModel.nwf NpProofs.ex_a = true /\ NpModel.nwf NpProofs.ex_b = true /\
  (NpModel.size NpProofs.ex_a <> 0 \/ NpModel.size NpProofs.ex_b <> 0 \/ NpModel.shape NpProofs.ex_a = NpModel.shape NpProofs.ex_b) /\
  length (NpModel.np_run_diff one_block false NpProofs.ex_a NpProofs.ex_b) = 1.
Proof.
  destruct NpProofs.np_guards_satisfiable as (V & Wa & Wb & _ & G & E & _).
  split; [exact V|]. split; [exact Wa|]. split; [exact Wb|]. split; [exact G|]. rewrite E. reflexivity.
Qed.
Print Assumptions C02_numpy_guards_satisfiable.

(* ---- "in every view, with verbosity >= 1" (Diff/DiffTextEmpty.v) ----
   The text view drops iterable_item_moved levels at verbose_level 1 (and values_changed ones at 0: the property
   excludes 0), so "the text view is empty" is a weaker observation than "the tree is empty".  It is not weaker on
   results of the diff: a tree whose text view is empty at verbosity >= 1 is empty (a moved level only arises after
   an unbalanced opcode block, which itself reports an added / removed item) - for every tiling opcode oracle. *)
From DD Require Diff.TextView Diff.DiffTextEmpty.

Theorem C02_text_empty_is_tree_empty :
  forall v hatom udiff ops excl c t1 t2,
    1 <= v -> thr_num c <= thr_den c -> tiling ops -> wf t1 = true -> wf t2 = true ->
    TextView.text_view v (fst (run_diff hatom udiff ops (fun _ => false) excl c t1 t2)) = [] ->
    fst (run_diff hatom udiff ops (fun _ => false) excl c t1 t2) = [].
Proof. exact DiffTextEmpty.text_empty_tree_empty. Qed.
Print Assumptions C02_text_empty_is_tree_empty.

(* both clauses on the TEXT view, every verbose_level >= 1 *)
Theorem C02_copy_empty_text :
  forall v hatom udiff ops excl c t,
    thr_num c <= thr_den c -> tiling ops -> wf t = true ->
    TextView.text_view v (fst (run_diff hatom udiff ops (fun _ => false) excl c t t)) = [].
Proof. exact DiffTextEmpty.text_copy_empty. Qed.
Print Assumptions C02_copy_empty_text.

Theorem C02_empty_sound_text :
  forall v hatom udiff ops excl c ok t1 t2,
    1 <= v ->
    (forall a b, ok a = true -> ok b = true -> hatom a = hatom b -> py_eq a b = true) -> valid_ops ops ->
    wf t1 = true -> wf t2 = true ->
    inputs_ok (keep_key c) ok t1 = true -> inputs_ok (keep_key c) ok t2 = true ->
    TextView.text_view v (fst (run_diff hatom udiff ops (fun _ => false) excl c t1 t2)) = [] -> py_eqv t1 t2 = true.
Proof. exact DiffTextEmpty.text_empty_sound. Qed.
Print Assumptions C02_empty_sound_text.

(* ---- datetimes, dates, times, timedeltas, Decimals INSIDE the model: the extended universe Diff/XuValue.v ----
   Diff/XuModel.v is Diff/DiffModel.v over atoms extended by ADt (wall clock, optional UTC offset), ADate, ATime,
   ATd, ADec (names are the same in the Xu* files, hence the qualified names here); the datetime comparer
   normalises both sides to UTC (a naive datetime is DECLARED UTC) and reports the normalised values, the others
   compare with Python's != ([XuValue.py_eq]: Decimals by exact value, aware datetimes / times by wall clock minus
   offset, naive never == aware).  Tied to DeepDiff by the streams c02xu / c03xu of harness/xucommon.py; the old
   model is the restriction to base values (Diff/XuEmbed.v). *)
From DD Require Diff.XuValue Diff.XuTree Diff.XuModel Diff.XuEmpty Diff.XuHash Diff.XuHashProofs.

Theorem C02x_copy_empty :
  forall hatom udiff ops excl c (t : XuValue.value),
    XuModel.thr_num c <= XuModel.thr_den c -> XuEmpty.tiling ops -> XuValue.wf t = true ->
    fst (XuModel.run_diff hatom udiff ops (fun _ => false) excl c t t) = [].
Proof. intros. apply XuEmpty.run_copy_empty; assumption. Qed.
Print Assumptions C02x_copy_empty.

(* soundness needs ONE more guard: the datetime LEAVES of the two inputs are all aware, or all naive
   ([dt_kind k]; set members are under [ok], dict keys are compared by == as they are) *)
Theorem C02x_empty_sound_partial :
  forall hatom udiff ops excl c ok k (t1 t2 : XuValue.value),
    (forall a b, ok a = true -> ok b = true -> hatom a = hatom b -> XuValue.py_eq a b = true) -> XuEmpty.valid_ops ops ->
    XuValue.wf t1 = true -> XuValue.wf t2 = true ->
    XuEmpty.inputs_ok (XuModel.keep_key c) ok (XuEmpty.dt_kind k) t1 = true ->
    XuEmpty.inputs_ok (XuModel.keep_key c) ok (XuEmpty.dt_kind k) t2 = true ->
    fst (XuModel.run_diff hatom udiff ops (fun _ => false) excl c t1 t2) = [] -> XuValue.py_eqv t1 t2 = true.
Proof. intros. eapply XuEmpty.run_empty_sound_dt; eassumption. Qed.
Print Assumptions C02x_empty_sound_partial.

(* the datetime comparer, exactly: nothing is reported iff the two datetimes are == or one of them is naive and
   shows the other's UTC wall clock *)
Theorem C02x_datetime_leaf_exact :
  forall udiff u1 o1 u2 o2 p,
    XuModel.diff_atom udiff (fun _ => false) (XuValue.ADt u1 o1) (XuValue.ADt u2 o2) p p = [] <->
    (XuValue.py_eq (XuValue.ADt u1 o1) (XuValue.ADt u2 o2) = true \/
     XuEmpty.naive_is_utc_clock (XuValue.ADt u1 o1) (XuValue.ADt u2 o2)).
Proof. exact XuEmpty.diff_datetime_nil_iff. Qed.
Print Assumptions C02x_datetime_leaf_exact.

Theorem C02x_guards_satisfiable :
  XuEmpty.valid_ops XuEmpty.one_block /\ (forall a b, XuEmpty.inj_hash a = XuEmpty.inj_hash b -> a = b) /\
  XuValue.wf XuEmpty.nv_t1 = true /\ XuValue.wf XuEmpty.nv_t2 = true /\
  XuEmpty.inputs_ok (XuModel.keep_key (XuModel.mkCfg false 33 100 true)) XuEmpty.any_atom (XuEmpty.dt_kind true) XuEmpty.nv_t1 = true /\
  XuEmpty.inputs_ok (XuModel.keep_key (XuModel.mkCfg false 33 100 true)) XuEmpty.any_atom (XuEmpty.dt_kind true) XuEmpty.nv_t2 = true /\
  fst (XuModel.run_diff XuEmpty.inj_hash (fun _ _ => []) XuEmpty.one_block (fun _ => false) (fun _ => false) (XuModel.mkCfg false 33 100 true) XuEmpty.nv_t1 XuEmpty.nv_t2) = [] /\
  XuValue.py_eqv XuEmpty.nv_t1 XuEmpty.nv_t2 = true /\ XuValue.value_eqb XuEmpty.nv_t1 XuEmpty.nv_t2 = false.
Proof. exact XuEmpty.sound_guards_satisfiable. Qed.
Print Assumptions C02x_guards_satisfiable.

(* without the leaf guard: finding C02-NAIVE-AWARE inside the model - datetime(2024,5,17,22,15,34) against the same
   wall clock with tzinfo=utc, bare and as a list item, both list modes, injective item hash: nothing reported, not == *)
Theorem C02x_empty_sound_refuted_naive_aware :
  XuValue.wf (XuValue.VList [XuValue.VAtom XuEmpty.na_naive]) = true /\ XuValue.wf (XuValue.VList [XuValue.VAtom XuEmpty.na_aware]) = true /\
  (forall z, fst (XuModel.run_diff XuEmpty.inj_hash (fun _ _ => []) XuEmpty.one_block (fun _ => false) (fun _ => false) (XuModel.mkCfg z 33 100 false)
                    (XuValue.VList [XuValue.VAtom XuEmpty.na_naive]) (XuValue.VList [XuValue.VAtom XuEmpty.na_aware])) = []) /\
  (forall z, fst (XuModel.run_diff XuEmpty.inj_hash (fun _ _ => []) XuEmpty.one_block (fun _ => false) (fun _ => false) (XuModel.mkCfg z 33 100 false)
                    (XuValue.VAtom XuEmpty.na_naive) (XuValue.VAtom XuEmpty.na_aware)) = []) /\
  XuValue.py_eqv (XuValue.VList [XuValue.VAtom XuEmpty.na_naive]) (XuValue.VList [XuValue.VAtom XuEmpty.na_aware]) = false /\
  XuValue.py_eq XuEmpty.na_naive XuEmpty.na_aware = false /\
  XuEmpty.dt_same_kind XuEmpty.na_naive XuEmpty.na_aware = false.
Proof. exact XuEmpty.empty_sound_refuted_naive_aware. Qed.
Print Assumptions C02x_empty_sound_refuted_naive_aware.

(* without the hash guard, with the model of the REAL item hash (Diff/XuHash.v: DeepHash's serialisation of set
   members, for EVERY hasher and every str() oracle): finding C02-TIME-TZ-IN-SET - {time(1,2,3,tzinfo=utc)} vs
   {time(1,2,3,tzinfo=+02:00)} and {time(1,2,3)} vs {time(1,2,3,tzinfo=utc)}: nothing reported, not == ... *)
Theorem C02x_empty_sound_refuted_time_tz :
  forall H xstr secs udiff ops excl c,
  (forall frozen : bool, fst (XuModel.run_diff (XuHash.xhash_atom H xstr secs) udiff ops (fun _ => false) excl c
      (if frozen then XuValue.VFrozen [XuHashProofs.t_utc] else XuValue.VSet [XuHashProofs.t_utc])
      (if frozen then XuValue.VFrozen [XuHashProofs.t_p2] else XuValue.VSet [XuHashProofs.t_p2])) = []) /\
  (forall frozen : bool, fst (XuModel.run_diff (XuHash.xhash_atom H xstr secs) udiff ops (fun _ => false) excl c
      (if frozen then XuValue.VFrozen [XuHashProofs.t_naive] else XuValue.VSet [XuHashProofs.t_naive])
      (if frozen then XuValue.VFrozen [XuHashProofs.t_utc] else XuValue.VSet [XuHashProofs.t_utc])) = []) /\
  XuValue.py_eqv (XuValue.VSet [XuHashProofs.t_utc]) (XuValue.VSet [XuHashProofs.t_p2]) = false /\
  XuValue.py_eqv (XuValue.VSet [XuHashProofs.t_naive]) (XuValue.VSet [XuHashProofs.t_utc]) = false /\
  XuValue.wf (XuValue.VSet [XuHashProofs.t_utc]) = true /\ XuValue.wf (XuValue.VSet [XuHashProofs.t_p2]) = true /\
  XuValue.wf (XuValue.VSet [XuHashProofs.t_naive]) = true.
Proof. exact XuHashProofs.empty_sound_refuted_time_tz. Qed.
Print Assumptions C02x_empty_sound_refuted_time_tz.

(* ... and C02-NAIVE-AWARE for set members: a naive datetime member has the hash of the UTC-aware one *)
Theorem C02x_empty_sound_refuted_naive_aware_in_set :
  forall H xstr secs udiff ops excl c,
  (forall frozen : bool, fst (XuModel.run_diff (XuHash.xhash_atom H xstr secs) udiff ops (fun _ => false) excl c
      (if frozen then XuValue.VFrozen [XuEmpty.na_naive] else XuValue.VSet [XuEmpty.na_naive])
      (if frozen then XuValue.VFrozen [XuEmpty.na_aware] else XuValue.VSet [XuEmpty.na_aware])) = []) /\
  XuValue.py_eqv (XuValue.VSet [XuEmpty.na_naive]) (XuValue.VSet [XuEmpty.na_aware]) = false.
Proof. exact XuHashProofs.empty_sound_refuted_naive_aware_in_set. Qed.
Print Assumptions C02x_empty_sound_refuted_naive_aware_in_set.

(* the extended model restricted to the values of Base/Value.v IS the model of the first part of this file
   (Diff/XuEmbed.v, [emb]: atom by atom; for ALL values, cfg and oracles - an agreeing extended oracle exists for
   every base oracle): the same levels are reported, so the correspondence of the old model also backs the new one,
   and Python equality / well-formedness are preserved *)
From DD Require Diff.XuEmbed.

Theorem C02x_models_agree :
  forall hatom udiff ops skip excl c hatomX opsX skipX exclX,
    (forall a, hatomX (XuEmbed.emb_atom a) = hatom a) ->
    (forall p xs ys, opsX (XuEmbed.emb_path p) (map XuEmbed.emb xs) (map XuEmbed.emb ys) = map XuEmbed.emb_op (ops p xs ys)) ->
    (forall p, skipX (XuEmbed.emb_path p) = skip p) -> (forall p, exclX (XuEmbed.emb_path p) = excl p) ->
    forall t1 t2,
      XuModel.run_diff hatomX udiff opsX skipX exclX (XuEmbed.emb_cfg c) (XuEmbed.emb t1) (XuEmbed.emb t2) =
      (map XuEmbed.emb_entry (fst (run_diff hatom udiff ops skip excl c t1 t2)),
       map XuEmbed.emb_path (snd (run_diff hatom udiff ops skip excl c t1 t2))).
Proof. exact XuEmbed.models_agree_run. Qed.
Print Assumptions C02x_models_agree.

Theorem C02x_agreeing_oracles_exist :
  forall hatom ops skip excl,
    exists (hatomX : XuValue.atom -> pystr) (opsX : XuValue.path -> list XuValue.value -> list XuValue.value -> list XuTree.opcode)
           (skipX exclX : XuValue.path -> bool),
      (forall a, hatomX (XuEmbed.emb_atom a) = hatom a) /\
      (forall p xs ys, opsX (XuEmbed.emb_path p) (map XuEmbed.emb xs) (map XuEmbed.emb ys) = map XuEmbed.emb_op (ops p xs ys)) /\
      (forall p, skipX (XuEmbed.emb_path p) = skip p) /\ (forall p, exclX (XuEmbed.emb_path p) = excl p).
Proof. exact XuEmbed.agreeing_oracles_exist. Qed.
Print Assumptions C02x_agreeing_oracles_exist.

Theorem C02x_models_agree_on_emptiness_and_equality :
  (forall hatom udiff ops excl c t1 t2,
     fst (XuModel.run_diff (XuEmbed.lift_hatom hatom) udiff (XuEmbed.lift_ops ops) (fun _ => false) (XuEmbed.lift_path excl)
            (XuEmbed.emb_cfg c) (XuEmbed.emb t1) (XuEmbed.emb t2)) = []
     <-> fst (run_diff hatom udiff ops (fun _ => false) excl c t1 t2) = []) /\
  (forall v w, XuValue.py_eqv (XuEmbed.emb v) (XuEmbed.emb w) = py_eqv v w) /\
  (forall v, XuValue.wf (XuEmbed.emb v) = wf v).
Proof. split; [exact XuEmbed.models_agree_empty_lifted|split; [exact XuEmbed.emb_py_eqv|exact XuEmbed.emb_wf]]. Qed.
Print Assumptions C02x_models_agree_on_emptiness_and_equality.


(* ---- the extended universe, second part: no leaf guard, the real item hash (Diff/XuEmptyNorm.v, Diff/XuHashSound.v) ----
   WITHOUT the leaf guard [dt_kind]: an empty diff means that the two values are == once every naive datetime LEAF is
   read as UTC ([normL] applies datetime_normalize to the datetime leaves; dict keys and set members as they are) -
   which is what DeepDiff decides (default_timezone = utc); the guard is exactly what makes this Python's == *)
From DD Require Diff.XuEmptyNorm Diff.XuObs Diff.XuHashSound.

Theorem C02x_empty_sound_unguarded :
  forall hatom udiff ops excl c ok (t1 t2 : XuValue.value),
    (forall a b, ok a = true -> ok b = true -> hatom a = hatom b -> XuValue.py_eq a b = true) -> XuEmpty.valid_ops ops ->
    XuValue.wf t1 = true -> XuValue.wf t2 = true ->
    XuEmpty.inputs_ok (XuModel.keep_key c) ok XuEmpty.any_atom t1 = true ->
    XuEmpty.inputs_ok (XuModel.keep_key c) ok XuEmpty.any_atom t2 = true ->
    fst (XuModel.run_diff hatom udiff ops (fun _ => false) excl c t1 t2) = [] ->
    XuValue.py_eqv (XuEmptyNorm.normL t1) (XuEmptyNorm.normL t2) = true.
Proof. intros. eapply XuEmptyNorm.run_empty_sound_norm; eassumption. Qed.
Print Assumptions C02x_empty_sound_unguarded.

(* on the finding's witness the conclusion holds and == does not; on the satisfiability pair both; not vacuous *)
Theorem C02x_unguarded_conclusion_witnesses :
  XuValue.py_eqv (XuEmptyNorm.normL (XuValue.VList [XuValue.VAtom XuEmpty.na_naive])) (XuEmptyNorm.normL (XuValue.VList [XuValue.VAtom XuEmpty.na_aware])) = true /\
  XuValue.py_eqv (XuValue.VList [XuValue.VAtom XuEmpty.na_naive]) (XuValue.VList [XuValue.VAtom XuEmpty.na_aware]) = false /\
  XuValue.py_eqv (XuEmptyNorm.normL XuEmpty.nv_t1) (XuEmptyNorm.normL XuEmpty.nv_t2) = true /\
  XuValue.py_eqv (XuEmptyNorm.normL (XuValue.VList [XuValue.VAtom (XuValue.ADt 5 None)])) (XuEmptyNorm.normL (XuValue.VList [XuValue.VAtom (XuValue.ADt 6 None)])) = false.
Proof. exact XuEmptyNorm.normL_witness. Qed.
Print Assumptions C02x_unguarded_conclusion_witnesses.

(* SET MEMBERS with the model of the REAL item hash (Diff/XuHash.v): the hash hypothesis is discharged on members inside
   the boolean guard [ok_x k] (Diff/XuObs.v: no str spelling a type tag; datetime members all aware (k = true) or all
   naive; time members naive) - for every injective hasher, under three facts about Python's str() of these objects
   (oracles; observed on every run by harness/xucommon.py): injective within a kind, str(seconds) injective, and the
   texts of a datetime, of a time's seconds and of a date never coincide *)
Theorem C02x_real_hash_separates :
  forall H xstr secs,
    (forall s t, H s = H t -> s = t) ->
    (forall a b, XuHashSound.same_kind a b = true -> xstr a = xstr b -> a = b) ->
    (forall x y, secs x = secs y -> x = y) ->
    (forall u o us, xstr (XuValue.ADt u o) <> secs us) ->
    (forall u o d, xstr (XuValue.ADt u o) <> xstr (XuValue.ADate d)) ->
    (forall us d, secs us <> xstr (XuValue.ADate d)) ->
    forall k a b, XuObs.ok_x k a = true -> XuObs.ok_x k b = true ->
      XuHash.xhash_atom H xstr secs a = XuHash.xhash_atom H xstr secs b -> XuValue.py_eq a b = true.
Proof. intros. eapply XuHashSound.xhash_separates; eassumption. Qed.
Print Assumptions C02x_real_hash_separates.

(* hence soundness with only BOOLEAN guards on the inputs (keys looked at, set members ok_x k, datetime leaves dt_kind k) *)
Theorem C02x_empty_sound_real_hash :
  forall H xstr secs,
    (forall s t, H s = H t -> s = t) ->
    (forall a b, XuHashSound.same_kind a b = true -> xstr a = xstr b -> a = b) ->
    (forall x y, secs x = secs y -> x = y) ->
    (forall u o us, xstr (XuValue.ADt u o) <> secs us) ->
    (forall u o d, xstr (XuValue.ADt u o) <> xstr (XuValue.ADate d)) ->
    (forall us d, secs us <> xstr (XuValue.ADate d)) ->
    forall udiff ops excl c k (t1 t2 : XuValue.value),
      XuEmpty.valid_ops ops -> XuValue.wf t1 = true -> XuValue.wf t2 = true ->
      XuEmpty.inputs_ok (XuModel.keep_key c) (XuObs.ok_x k) (XuEmpty.dt_kind k) t1 = true ->
      XuEmpty.inputs_ok (XuModel.keep_key c) (XuObs.ok_x k) (XuEmpty.dt_kind k) t2 = true ->
      fst (XuModel.run_diff (XuHash.xhash_atom H xstr secs) udiff ops (fun _ => false) excl c t1 t2) = [] ->
      XuValue.py_eqv t1 t2 = true.
Proof. intros. eapply XuHashSound.run_empty_sound_xhash; eassumption. Qed.
Print Assumptions C02x_empty_sound_real_hash.

Theorem C02x_oracle_hypotheses_satisfiable :
  let xstr := fun a => 1%N :: XuEmpty.inj_hash a in
  let secs := fun us => [0%N; XuEmpty.zenc us] in
  (forall a b, XuHashSound.same_kind a b = true -> xstr a = xstr b -> a = b) /\
  (forall x y, secs x = secs y -> x = y) /\
  (forall u o us, xstr (XuValue.ADt u o) <> secs us) /\
  (forall u o d, xstr (XuValue.ADt u o) <> xstr (XuValue.ADate d)) /\
  (forall us d, secs us <> xstr (XuValue.ADate d)).
Proof. exact XuHashSound.oracle_hypotheses_satisfiable. Qed.
Print Assumptions C02x_oracle_hypotheses_satisfiable.


(* ---- C02_empty_sound WITHOUT the key guard (Diff/DiffStrip.v) ----
   dict keys hidden by ignore_private_variables are not part of what is compared: [strip c v] removes them at every depth
   (the identity when every key is looked at, e.g. ignore_private_variables=False); the diff of two values is empty iff
   the diff of the stripped values is, for ALL values, both list modes and every oracle; so an empty diff means that the
   STRIPPED values are == - for all well-formed inputs, only the set-member guard is left *)
From DD Require Diff.DiffStrip.

Theorem C02_diff_empty_iff_stripped_diff_empty :
  forall hatom udiff ops excl c t1 t2,
    fst (run_diff hatom udiff ops (fun _ => false) excl c t1 t2) = [] <->
    fst (run_diff hatom udiff ops (fun _ => false) excl c (DiffStrip.strip c t1) (DiffStrip.strip c t2)) = [].
Proof. exact DiffStrip.run_nil_strip. Qed.
Print Assumptions C02_diff_empty_iff_stripped_diff_empty.

Theorem C02_empty_sound_all_keys :
  forall hatom udiff ops excl c ok t1 t2,
    (forall a b, ok a = true -> ok b = true -> hatom a = hatom b -> py_eq a b = true) -> valid_ops ops ->
    wf t1 = true -> wf t2 = true ->
    inputs_ok any_atom ok t1 = true -> inputs_ok any_atom ok t2 = true ->
    fst (run_diff hatom udiff ops (fun _ => false) excl c t1 t2) = [] ->
    py_eqv (DiffStrip.strip c t1) (DiffStrip.strip c t2) = true.
Proof. intros. eapply DiffStrip.run_empty_sound_all_keys; eassumption. Qed.
Print Assumptions C02_empty_sound_all_keys.

Theorem C02_strip_is_identity_on_looked_at_keys :
  forall c v, inputs_ok (keep_key c) any_atom v = true -> DiffStrip.strip c v = v.
Proof. exact DiffStrip.strip_id. Qed.
Print Assumptions C02_strip_is_identity_on_looked_at_keys.

(* the threshold guard of the copy clause is necessary: threshold_to_diff_deeper = 3/2 (outside the documented range,
   accepted by DeepDiff unchecked; replayed on the implementation by c02.py) reports {'a':1,'b':2} as changed against itself *)
Theorem C02_copy_empty_refuted_threshold :
  wf DiffStrip.thr_d = true /\
  length (fst (run_diff inj_hash (fun _ _ => []) one_block (fun _ => false) (fun _ => false) (mkCfg false 3 2 true) DiffStrip.thr_d DiffStrip.thr_d)) = 1 /\
  fst (run_diff inj_hash (fun _ _ => []) one_block (fun _ => false) (fun _ => false) (mkCfg false 1 1 true) DiffStrip.thr_d DiffStrip.thr_d) = [].
Proof. exact DiffStrip.copy_empty_refuted_threshold. Qed.
Print Assumptions C02_copy_empty_refuted_threshold.

(* ---- "in every view, verbosity >= 1" over the extended universe (Diff/XuTextEmpty.v), every printer oracle ---- *)
From DD Require Diff.XuTextView Diff.XuTextEmpty.

Theorem C02x_text_empty_is_tree_empty :
  forall xrepr xstr v hatom udiff ops excl c (t1 t2 : XuValue.value),
    1 <= v -> XuEmpty.tiling ops ->
    XuTextView.text_view xrepr xstr v (fst (XuModel.run_diff hatom udiff ops (fun _ => false) excl c t1 t2)) = [] ->
    fst (XuModel.run_diff hatom udiff ops (fun _ => false) excl c t1 t2) = [].
Proof. exact XuTextEmpty.text_empty_tree_empty. Qed.
Print Assumptions C02x_text_empty_is_tree_empty.

Theorem C02x_empty_sound_text_unguarded :
  forall xrepr xstr v hatom udiff ops excl c ok (t1 t2 : XuValue.value),
    1 <= v ->
    (forall a b, ok a = true -> ok b = true -> hatom a = hatom b -> XuValue.py_eq a b = true) -> XuEmpty.valid_ops ops ->
    XuValue.wf t1 = true -> XuValue.wf t2 = true ->
    XuEmpty.inputs_ok (XuModel.keep_key c) ok XuEmpty.any_atom t1 = true ->
    XuEmpty.inputs_ok (XuModel.keep_key c) ok XuEmpty.any_atom t2 = true ->
    XuTextView.text_view xrepr xstr v (fst (XuModel.run_diff hatom udiff ops (fun _ => false) excl c t1 t2)) = [] ->
    XuValue.py_eqv (XuEmptyNorm.normL t1) (XuEmptyNorm.normL t2) = true.
Proof. exact XuTextEmpty.text_empty_sound_norm. Qed.
Print Assumptions C02x_empty_sound_text_unguarded.


(* ... and with Diff/XuStrip.v (hidden keys removed, as C02_empty_sound_all_keys) ONLY the set-member guard is left over
   the extended universe: no key guard, no datetime-kind guard *)
From DD Require Diff.XuStrip.

Theorem C02x_empty_sound_only_set_member_guard :
  forall hatom udiff ops excl c ok (t1 t2 : XuValue.value),
    (forall a b, ok a = true -> ok b = true -> hatom a = hatom b -> XuValue.py_eq a b = true) -> XuEmpty.valid_ops ops ->
    XuValue.wf t1 = true -> XuValue.wf t2 = true ->
    XuEmpty.inputs_ok XuEmpty.any_atom ok XuEmpty.any_atom t1 = true ->
    XuEmpty.inputs_ok XuEmpty.any_atom ok XuEmpty.any_atom t2 = true ->
    fst (XuModel.run_diff hatom udiff ops (fun _ => false) excl c t1 t2) = [] ->
    XuValue.py_eqv (XuEmptyNorm.normL (XuStrip.strip c t1)) (XuEmptyNorm.normL (XuStrip.strip c t2)) = true.
Proof. intros. eapply XuStrip.run_empty_sound_all_keys_norm; eassumption. Qed.
Print Assumptions C02x_empty_sound_only_set_member_guard.

(* ------------------------------------------------------------------ *)
(** EXTENSION beyond the property's stated domain: values holding INSTANCES OF CLASSES
    (objects with attributes, Obj/ObjValue.v [ovalue]).  The ordered diff on such values is the
    run above on the encoding  OObj cls attrs |-> { TAG cls : { attr : value }, TAG2 cls : cls }
    (Obj/ObjModel.v [orun], tied to DeepDiff on real class instances by the extension stream of
    harness/objcommon.py); both clauses of the property carry over:  a copy gives an empty diff, and an
    empty diff means equal by class and attribute values ([opy_eqv]). *)
From DD Require Obj.ObjValue Obj.ObjModel Obj.ObjFacts Obj.ObjProofs.

Theorem C02_objects_copy_empty :
  forall hatom udiff ops c (t : Obj.ObjValue.ovalue),
    thr_num c <= thr_den c -> tiling ops -> Obj.ObjValue.owf t = true ->
    fst (Obj.ObjModel.orun hatom udiff ops c t t) = [].
Proof. intros. apply Obj.ObjProofs.orun_copy_empty; assumption. Qed.
Print Assumptions C02_objects_copy_empty.

Theorem C02_objects_empty_sound :
  forall hatom udiff ops c ok (t1 t2 : Obj.ObjValue.ovalue),
    (forall a b, ok a = true -> ok b = true -> hatom a = hatom b -> a = b) -> valid_ops ops ->
    Obj.ObjValue.owf t1 = true -> Obj.ObjValue.owf t2 = true ->
    Obj.ObjFacts.oinputs_ok (keep_key c) ok t1 = true -> Obj.ObjFacts.oinputs_ok (keep_key c) ok t2 = true ->
    fst (Obj.ObjModel.orun hatom udiff ops c t1 t2) = [] -> Obj.ObjValue.opy_eqv t1 t2 = true.
Proof. intros. eapply Obj.ObjProofs.orun_empty_sound; eassumption. Qed.
Print Assumptions C02_objects_empty_sound.

(** C17: ONE cache threaded through the whole ignore-order traversal is transparent:
    [diff_io_st] with any capacity / schedule / right initial cache = the cache-less
    traversal [diff_io_o] with the pairs the bodies compute. *)
From Coq Require Import List ZArith NArith Bool Arith Lia.
Import ListNotations.
From DD Require Import Base.PyStr Base.Value Diff.Tree Diff.DiffModel Hash.HashModel Hash.HashProofsC06 Lfu.LfuModel
  DiffIO.DiffIOModel DiffIO.MemoModel DiffIO.MemoProofs DiffIO.MemoAnyCache DiffIO.DiffIOCache.

Section Transparent.
Variable H : pystr -> pystr.
Variable udiff : pystr -> pystr -> pystr.
Variable skip excl : path -> bool.
Variable c : cfg.
Variable rep : bool.
Variable V : Type.
Variable spec : key -> V.
Variable sched : nat -> bool.
Variable pp : path -> prog V.
Variable dec : path -> V -> list (nat * nat).
Hypothesis pp_consistent : forall p, consistent spec (pp p).
(* the invariant of the cache under which a memoised program is transparent: [cache_ok spec] (MemoProofs.v, from the
   LFU model directly) or "C18's representation invariant + the abstract map is right" (MemoAnyCache.v, from C18's
   refinement theorem alone) *)
Variable Okc : lfu V -> Prop.
Hypothesis memo_inv : forall (p : prog V) (s : mstate V), consistent spec p -> Okc (mcache s) ->
  fst (fst (run_cached sched p s)) = run_pure p /\ Okc (mcache (snd (fst (run_cached sched p s)))).

Definition V0 := list (nat * nat).
Definition pairs0 (p : path) : V0 := dec p (run_pure (pp p)).
Notation M1 := (M V).
Notation M0 := (M V0).
Notation st1 := (diff_io_st H udiff skip excl c rep V sched pp dec).
Notation st0 := (diff_io_st H udiff skip excl c rep V0 (fun _ => false) (fun p => Ret (pairs0 p)) (fun _ v => v)).

(* the cached computation returns what the cache-less one returns and keeps the cache right *)
Definition Rel (m : M1) (m0 : M0) : Prop :=
  forall s s0, Okc (mcache s) ->
    fst (fst (m s)) = fst (fst (m0 s0)) /\ Okc (mcache (snd (fst (m s)))).

Lemma Rel_ret r : Rel (mret V r) (mret V0 r).
Proof. intros s s0 Hok. cbn. auto. Qed.

Lemma Rel_app a a0 b b0 : Rel a a0 -> Rel b b0 -> Rel (mapp V a b) (mapp V0 a0 b0).
Proof.
  intros Ha Hb s s0 Hok. unfold mapp.
  destruct (Ha s s0 Hok) as [E1 Ok1].
  destruct (a s) as [[r1 s1] l1]. destruct (a0 s0) as [[r01 s01] l01]. cbn [fst snd] in *.
  destruct (Hb s1 s01 Ok1) as [E2 Ok2].
  destruct (b s1) as [[r2 s2] l2]. destruct (b0 s01) as [[r02 s02] l02]. cbn [fst snd] in *.
  subst. auto.
Qed.

Definition RelRec (f : rec_st V) (f0 : rec_st V0) : Prop := forall y q1 q2, Rel (f y q1 q2) (f0 y q1 q2).

Lemma Rel_nth recs recs0 i : Forall2 RelRec recs recs0 -> RelRec (nth_rec_st V recs i) (nth_rec_st V0 recs0 i).
Proof.
  intro HF. revert i. induction HF as [|f f0 l l0 Hf HF IH]; intros [|i]; cbn [nth_rec_st nth].
  - intros y q1 q2. apply Rel_ret.
  - intros y q1 q2. apply Rel_ret.
  - exact Hf.
  - apply IH.
Qed.

Section Level.
Variables (recs : list (rec_st V)) (recs0 : list (rec_st V0)).
Hypothesis Hrecs : Forall2 RelRec recs recs0.
Variables (xs ys : list value) (p1 p2 : path) (ps : list (nat * nat)).

Lemma added_one_rel a rem :
  Rel (fst (added_one_st H skip c rep V recs xs ys p1 p2 ps a rem)) (fst (added_one_st H skip c rep V0 recs0 xs ys p1 p2 ps a rem)) /\
  snd (added_one_st H skip c rep V recs xs ys p1 p2 ps a rem) = snd (added_one_st H skip c rep V0 recs0 xs ys p1 p2 ps a rem).
Proof.
  unfold added_one_st. destruct (partner H c rep (fun _ => ps) xs ys p1 a rem); cbn [fst snd].
  - split; [|reflexivity]. destruct (item2 ys _); [apply Rel_nth; exact Hrecs|apply Rel_ret].
  - split; [apply Rel_ret|reflexivity].
Qed.

Lemma added_one_rep_rel a rem :
  Rel (fst (added_one_rep_st H skip c rep V recs xs ys p1 p2 ps a rem)) (fst (added_one_rep_st H skip c rep V0 recs0 xs ys p1 p2 ps a rem)) /\
  snd (added_one_rep_st H skip c rep V recs xs ys p1 p2 ps a rem) = snd (added_one_rep_st H skip c rep V0 recs0 xs ys p1 p2 ps a rem).
Proof.
  unfold added_one_rep_st. destruct (partner H c rep (fun _ => ps) xs ys p1 a rem); cbn [fst snd].
  - split; [|reflexivity]. destruct (item2 ys _); [|apply Rel_ret].
    remember (first_of (indexes_of p (h1 H c rep xs) 0)) as i0 eqn:Ei0. clear Ei0.
    induction (indexes_of p (h1 H c rep xs) 0) as [|i is_ IH]; cbn [fold_right]; [apply Rel_ret|].
    apply Rel_app; [apply Rel_nth; exact Hrecs|exact IH].
  - split; [apply Rel_ret|reflexivity].
Qed.

Lemma added_loop_rel one one0 adds rem :
  (forall a r, Rel (fst (one a r)) (fst (one0 a r)) /\ snd (one a r) = snd (one0 a r)) ->
  Rel (fst (added_loop_st V one adds rem)) (fst (added_loop_st V0 one0 adds rem)) /\
  snd (added_loop_st V one adds rem) = snd (added_loop_st V0 one0 adds rem).
Proof.
  intro Ho. revert rem. induction adds as [|a adds IH]; intros rem; cbn [added_loop_st].
  - split; [apply Rel_ret|reflexivity].
  - destruct (Ho a rem) as [R1 E1]. destruct (one a rem) as [m1 rem1]. destruct (one0 a rem) as [m01 rem01].
    cbn [fst snd] in *. subst rem01.
    destruct (IH rem1) as [R2 E2].
    destruct (added_loop_st V one adds rem1) as [m2 rem2]. destruct (added_loop_st V0 one0 adds rem1) as [m02 rem02].
    cbn [fst snd] in *. subst. split; [apply Rel_app; assumption|reflexivity].
Qed.

Lemma iter_rep_rel : Rel (iter_rep_st H skip c rep V recs xs ys p1 p2 ps) (iter_rep_st H skip c rep V0 recs0 xs ys p1 p2 ps).
Proof.
  unfold iter_rep_st.
  destruct (added_loop_rel (added_one_rep_st H skip c rep V recs xs ys p1 p2 ps) (added_one_rep_st H skip c rep V0 recs0 xs ys p1 p2 ps)
              (hashes_added H c rep xs ys) (hashes_removed H c rep xs ys) added_one_rep_rel) as [R E].
  destruct (added_loop_st V _ _ _) as [ma rem]. destruct (added_loop_st V0 _ _ _) as [ma0 rem0]. cbn [fst snd] in *. subst.
  apply Rel_app; [exact R|apply Rel_ret].
Qed.
Lemma iter_norep_rel : Rel (iter_norep_st H skip c rep V recs xs ys p1 p2 ps) (iter_norep_st H skip c rep V0 recs0 xs ys p1 p2 ps).
Proof.
  unfold iter_norep_st.
  destruct (added_loop_rel (added_one_st H skip c rep V recs xs ys p1 p2 ps) (added_one_st H skip c rep V0 recs0 xs ys p1 p2 ps)
              (hashes_added H c rep xs ys) (hashes_removed H c rep xs ys) added_one_rel) as [R E].
  destruct (added_loop_st V _ _ _) as [ma rem]. destruct (added_loop_st V0 _ _ _) as [ma0 rem0]. cbn [fst snd] in *. subst.
  apply Rel_app; [exact R|apply Rel_ret].
Qed.
End Level.

Lemma iter_rel recs recs0 xs ys p1 p2 :
  Forall2 RelRec recs recs0 ->
  Rel (iter_st H skip c rep V sched pp dec recs xs ys p1 p2)
      (iter_st H skip c rep V0 (fun _ => false) (fun p => Ret (pairs0 p)) (fun _ v => v) recs0 xs ys p1 p2).
Proof.
  intros HF s s0 Hok. unfold iter_st.
  destruct (memo_inv (pp p1) s (pp_consistent p1) Hok) as [Ev Ok1].
  destruct (run_cached sched (pp p1) s) as [[v s1] lg1]. cbn [fst snd] in Ev, Ok1. subst v.
  cbn [run_cached]. fold (pairs0 p1).
  set (mA := if rep then iter_rep_st H skip c rep V recs xs ys p1 p2 (pairs0 p1) else iter_norep_st H skip c rep V recs xs ys p1 p2 (pairs0 p1)).
  set (mB := if rep then iter_rep_st H skip c rep V0 recs0 xs ys p1 p2 (pairs0 p1) else iter_norep_st H skip c rep V0 recs0 xs ys p1 p2 (pairs0 p1)).
  assert (Rb : forall b : bool,
            Rel (if b then iter_rep_st H skip c rep V recs xs ys p1 p2 (pairs0 p1) else iter_norep_st H skip c rep V recs xs ys p1 p2 (pairs0 p1))
                (if b then iter_rep_st H skip c rep V0 recs0 xs ys p1 p2 (pairs0 p1) else iter_norep_st H skip c rep V0 recs0 xs ys p1 p2 (pairs0 p1))).
  { intros [|]; [apply iter_rep_rel|apply iter_norep_rel]; exact HF. }
  assert (R : Rel mA mB) by (subst mA mB; apply Rb).
  specialize (R s1 s0 Ok1).
  destruct (mA s1) as [[r s2] lg2]. destruct (mB s0) as [[r0 s02] lg02].
  cbn [fst snd] in *. exact R.
Qed.

Lemma find_rec_rel k' (recs : list (atom * rec_st V)) (recs0 : list (atom * rec_st V0)) :
  Forall2 (fun a b => fst a = fst b /\ RelRec (snd a) (snd b)) recs recs0 ->
  match find_rec c V k' recs, find_rec c V0 k' recs0 with
  | Some f, Some f0 => RelRec f f0
  | None, None => True
  | _, _ => False
  end.
Proof.
  unfold find_rec. induction 1 as [|[k f] [k0 f0] l l0 [Ek Hf] HF IH]; cbn [find]; [exact I|].
  cbn [fst snd] in *. subst k0. destruct (keep_key c k && py_eq k k'); [exact Hf|exact IH].
Qed.

Lemma common_rel recs recs0 k1 kvs2 p1 p2 keys2 :
  Forall2 (fun a b => fst a = fst b /\ RelRec (snd a) (snd b)) recs recs0 ->
  Rel (common_st c V recs k1 kvs2 p1 p2 keys2) (common_st c V0 recs0 k1 kvs2 p1 p2 keys2).
Proof.
  intro HF. induction keys2 as [|k' r IH]; cbn [common_st]; [apply Rel_ret|].
  destruct (mem_atom k' k1); [|exact IH].
  pose proof (find_rec_rel k' recs recs0 HF) as Hfr.
  destruct (find_rec c V k' recs) as [f|]; destruct (find_rec c V0 k' recs0) as [f0|]; try contradiction; [|exact IH].
  destruct (assoc k' kvs2); [|exact IH]. apply Rel_app; [apply Hfr|exact IH].
Qed.

Theorem st_rel : forall t1 t2 p1 p2, Rel (st1 t1 t2 p1 p2) (st0 t1 t2 p1 p2).
Proof.
  intros t1. induction t1 as [a|xs IH|xs IH|kvs IH|xs|xs] using HashProofsC06.value_ind'; intros t2 p1 p2.
  - cbn [diff_io_st]. destruct (skip p1); [apply Rel_ret|]. destruct (negb _); [apply Rel_ret|].
    destruct t2; apply Rel_ret.
  - cbn [diff_io_st]. destruct (skip p1); [apply Rel_ret|]. destruct (negb _); [apply Rel_ret|].
    destruct t2; try apply Rel_ret. apply iter_rel.
    induction IH as [|x l Hx Hl IHl]; constructor; [intros y q1 q2; apply Hx|exact IHl].
  - cbn [diff_io_st]. destruct (skip p1); [apply Rel_ret|]. destruct (negb _); [apply Rel_ret|].
    destruct t2; try apply Rel_ret. apply iter_rel.
    induction IH as [|x l Hx Hl IHl]; constructor; [intros y q1 q2; apply Hx|exact IHl].
  - cbn [diff_io_st]. destruct (skip p1); [apply Rel_ret|]. destruct (negb _); [apply Rel_ret|].
    destruct t2; try apply Rel_ret.
    destruct (dict_shortcut _ _ _ _ _); [apply Rel_ret|].
    apply Rel_app; [apply Rel_ret|]. apply common_rel.
    induction IH as [|[k v1] l Hx Hl IHl]; constructor; [|exact IHl].
    cbn [fst snd] in *. split; [reflexivity|]. intros y q1 q2. apply Hx.
  - cbn [diff_io_st]. destruct (skip p1); [apply Rel_ret|]. destruct (negb _); [apply Rel_ret|].
    destruct t2; apply Rel_ret.
  - cbn [diff_io_st]. destruct (skip p1); [apply Rel_ret|]. destruct (negb _); [apply Rel_ret|].
    destruct t2; apply Rel_ret.
Qed.
End Transparent.

(* ONE cache through the whole traversal: any capacity, any schedule, any right initial content *)
Theorem st_transparent :
  forall (H : pystr -> pystr) udiff skip excl c rep (V : Type) (spec : key -> V)
         (sched : nat -> bool) (pp : path -> prog V) (dec : path -> V -> list (nat * nat)),
  (forall p, consistent spec (pp p)) ->
  forall t1 t2 p1 p2 (s : mstate V), cache_ok spec (mcache s) ->
  fst (fst (diff_io_st H udiff skip excl c rep V sched pp dec t1 t2 p1 p2 s)) =
    diff_io_o H udiff skip excl c rep (fun p => dec p (run_pure (pp p))) t1 t2 p1 p2 /\
  cache_ok spec (mcache (snd (fst (diff_io_st H udiff skip excl c rep V sched pp dec t1 t2 p1 p2 s)))).
Proof.
  intros H udiff skip excl c rep V spec sched pp dec Hc t1 t2 p1 p2 s Hok.
  exact (st_rel H udiff skip excl c rep V spec sched pp dec Hc (cache_ok spec)
           (fun p s => memo_transparent V spec sched p s) t1 t2 p1 p2 s (mkM (empty 0) 0) Hok).
Qed.

(* the same with C18's refinement theorem as the only fact about the cache (MemoAnyCache.v): from any LFU state that
   satisfies C18's invariant, refines an abstract bounded map and holds right values - in particular the empty cache
   of any capacity >= 1 (LFUCache raises for capacity 0; cache_size=0 is DummyLFU, [C17_cache_off_is_pure]) *)
Definition lfu_right {V : Type} (spec : key -> V) (c : lfu V) : Prop :=
  lfu_good V c /\ right V (lfu V) (lfu_holds V) spec c.

Lemma memo_inv_by_refinement (V : Type) (spec : key -> V) (sched : nat -> bool) (p : prog V) (s : mstate V) :
  consistent spec p -> lfu_right spec (mcache s) ->
  fst (fst (run_cached sched p s)) = run_pure p /\ lfu_right spec (mcache (snd (fst (run_cached sched p s)))).
Proof.
  intros Hc [Hg Hr]. destruct s as [c n].
  destruct (run_cached_is_any V sched p c n) as (E1 & E2 & _). rewrite E1, E2.
  destruct (any_cache_transparent V (lfu V) (@get V) (@set V) (lfu_good V) (lfu_holds V)
              (lfu_good_get V) (lfu_good_set V) (lfu_get_sound V) (lfu_get_frame V) (lfu_set_frame V) spec sched p (mkA c n) Hc Hg Hr)
    as (E & G & R'). split; [exact E|split; assumption].
Qed.

Theorem st_transparent_by_refinement :
  forall (H : pystr -> pystr) udiff skip excl c rep (V : Type) (spec : key -> V)
         (sched : nat -> bool) (pp : path -> prog V) (dec : path -> V -> list (nat * nat)),
  (forall p, consistent spec (pp p)) ->
  forall t1 t2 p1 p2 (s : mstate V), lfu_right spec (mcache s) ->
  fst (fst (diff_io_st H udiff skip excl c rep V sched pp dec t1 t2 p1 p2 s)) =
    diff_io_o H udiff skip excl c rep (fun p => dec p (run_pure (pp p))) t1 t2 p1 p2 /\
  lfu_right spec (mcache (snd (fst (diff_io_st H udiff skip excl c rep V sched pp dec t1 t2 p1 p2 s)))).
Proof.
  intros H udiff skip excl c rep V spec sched pp dec Hc t1 t2 p1 p2 s Hok.
  exact (st_rel H udiff skip excl c rep V spec sched pp dec Hc (lfu_right spec)
           (fun p s => memo_inv_by_refinement V spec sched p s) t1 t2 p1 p2 s (mkM (empty 0) 0) Hok).
Qed.

Lemma lfu_right_empty (V : Type) (spec : key -> V) (cap : nat) : 1 <= cap -> lfu_right spec (@empty V cap).
Proof.
  intro Hc. split.
  - split; [exact Hc|]. split; [apply LfuInv.empty_inv|]. exists (LfuSpec.sempty cap). apply LfuProofs.R_empty.
  - intros k v [u E]. discriminate.
Qed.

Corollary st_settings_agree :
  forall (H : pystr -> pystr) udiff skip excl c rep (V : Type) (spec : key -> V)
         (pp : path -> prog V) (dec : path -> V -> list (nat * nat)),
  (forall p, consistent spec (pp p)) ->
  forall cap cap' sched sched' t1 t2,
  fst (fst (run_diff_io_st H udiff skip excl c rep V sched pp dec t1 t2 (mkM (empty cap) 0))) =
  fst (fst (run_diff_io_st H udiff skip excl c rep V sched' pp dec t1 t2 (mkM (empty cap') 0))).
Proof.
  intros H udiff skip excl c rep V spec pp dec Hc cap cap' sched sched' t1 t2. unfold run_diff_io_st.
  assert (Ok : forall n, cache_ok spec (mcache (mkM (@empty V n) 0))) by (intros n k v Hin; destruct Hin).
  destruct (st_transparent H udiff skip excl c rep V spec sched pp dec Hc t1 t2 [] [] _ (Ok cap)) as [E1 _].
  destruct (st_transparent H udiff skip excl c rep V spec sched' pp dec Hc t1 t2 [] [] _ (Ok cap')) as [E2 _].
  destruct (diff_io_st H udiff skip excl c rep V sched pp dec t1 t2 [] [] _) as [[r s1] l1].
  destruct (diff_io_st H udiff skip excl c rep V sched' pp dec t1 t2 [] [] _) as [[r' s1'] l1'].
  cbn [fst snd] in *. rewrite E1, E2. reflexivity.
Qed.

From DD Require Import DiffIO.MemoPairsOrder.
Check select_order_free. Check pairs_body_order_free. Check no_ties.

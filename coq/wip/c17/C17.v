(** C17 - a DeepDiff result does not depend on caching, on a pre-seeded hashes
    table, on repetition.  Final statements only.

    The caching layer of an ignore-order run (DiffIO/MemoModel.v): a run is a
    program [prog] of memoised calls - [Call k body cont]: "look key k up in
    self._distance_cache; on a miss compute the value by [body] (which may make
    memoised calls itself: the nested DeepDiff that computes a distance) and store
    it; continue with [cont value]".  [run_cached sched p (mkM (empty cap) 0)]
    evaluates it with the LFU cache model of C18 of capacity [cap], where
    [sched n] is DISTANCE_CACHE_ENABLED at the n-th time the code reads it (the
    auto-tuner of cache_tuning_sample_size: an arbitrary schedule);
    [run_pure p] evaluates it without any cache (cache_size=0). *)
From Coq Require Import List ZArith NArith Bool.
Import ListNotations.
From DD Require Import Base.PyStr Base.Value Lfu.LfuModel Diff.DiffModel Hash.HashModel Hash.HashProofsC06 Hash.HashProofsMemo
  DiffIO.DiffIOModel DiffIO.DiffIOProofs DiffIO.MemoModel DiffIO.MemoProofs DiffIO.DiffIOProofsExt DiffIO.DiffIOCache DiffIO.DiffIOCacheProofs DiffIO.MemoKeys DiffIO.DiffIOOrder DiffIO.DiffIOMemoVerdict
  DiffIO.MemoPairs DiffIO.MemoPairsProofs DiffIO.MemoPairsOrder DiffIO.MemoAnyCache DiffIO.DiffIOMemo DiffIO.MemoHashes DiffIO.MemoHashesProofs DiffIO.MemoDistProofs
  Diff.Tree Dist.DistModel Hash.HexHash.

(* Full strength (every run) is false of the faithful model: when the same key is computed
   with two values the cached run returns something else.  deepdiff does exactly this: the
   distance cache key is symmetric in the two hashes, the rough distance is not (finding
   C17-K17, replayed on the implementation at every run). *)
Theorem C17_cache_transparent_refuted :
  run_pure two_faced = 12%Z /\
  fst (fst (run_cached (fun _ => true) two_faced (mkM (empty 5) 0))) = 11%Z /\
  forall spec, ~ consistent spec two_faced.
Proof. exact two_faced_refutes. Qed.
Print Assumptions C17_cache_transparent_refuted.

(* The theorem: for every capacity, every enable/disable schedule, every run in which the
   value computed for a key is a function of the key ([consistent]: holds when max_passes /
   max_diffs are not exhausted mid-run and no hash pair is needed in both orientations with
   different distances), the cached evaluation returns the cache-less result. *)
Theorem C17_cache_transparent_partial :
  forall (V : Type) (spec : key -> V) (p : prog V),
  consistent spec p ->
  forall (cap : nat) (sched : nat -> bool),
  fst (fst (run_cached sched p (mkM (empty cap) 0))) = run_pure p.
Proof. exact cache_transparent. Qed.
Print Assumptions C17_cache_transparent_partial.

(* ... from ANY cache whose entries are right (e.g. one left by an earlier part of the run),
   and the cache stays right: the invariant that makes the statement compositional *)
Theorem C17_cache_invariant_partial :
  forall (V : Type) (spec : key -> V) (sched : nat -> bool) (p : prog V) (s : mstate V),
  consistent spec p -> cache_ok spec (mcache s) ->
  fst (fst (run_cached sched p s)) = run_pure p /\ cache_ok spec (mcache (snd (fst (run_cached sched p s)))).
Proof. exact memo_transparent. Qed.
Print Assumptions C17_cache_invariant_partial.

(* cache_size x cache_tuning_sample_size: any two settings agree *)
Theorem C17_cache_settings_agree_partial :
  forall (V : Type) (spec : key -> V) (p : prog V),
  consistent spec p ->
  forall cap cap' sched sched',
  fst (fst (run_cached sched p (mkM (empty cap) 0))) = fst (fst (run_cached sched' p (mkM (empty cap') 0))).
Proof. exact cache_settings_agree. Qed.
Print Assumptions C17_cache_settings_agree_partial.

(* ... on the RESULT of the ignore-order diff (DiffIO/DiffIOModel.v): if the pairing of every
   level is the value of a program of memoised calls, evaluating those programs with the cache
   (any capacity, any schedule) gives the very result of the cache-less run *)
Theorem C17_result_cache_independent_partial :
  forall (H : pystr -> pystr) udiff skip excl c rep (V : Type) (spec : key -> V)
         (pp : path -> prog V) (dec : V -> list (nat * nat)),
  (forall p, consistent spec (pp p)) ->
  forall (cap : path -> nat) (sched : path -> nat -> bool) t1 t2,
  run_diff_io H udiff skip excl c rep
    (fun p => dec (fst (fst (run_cached (sched p) (pp p) (mkM (empty (cap p)) 0))))) t1 t2 =
  run_diff_io H udiff skip excl c rep (fun p => dec (run_pure (pp p))) t1 t2.
Proof. exact result_cache_independent. Qed.
Print Assumptions C17_result_cache_independent_partial.

(* ... with ONE cache threaded through the whole traversal, in the implementation's order
   (DiffIO/DiffIOCache.v: [diff_io_st]; the pairs of a level are "computed by a body or served from
   the cache" - [pp p] evaluated with the current cache state): any schedule, any right initial
   cache (in particular the empty one of any capacity) gives the result of the cache-less traversal
   [diff_io_o] with the pairs the bodies compute, and leaves a right cache behind.
   ([diff_io_o] lists the children of a dict in the order of t2's keys, as the code does; see the next theorem.) *)
Theorem C17_one_cache_transparent_partial :
  forall (H : pystr -> pystr) udiff skip excl c rep (V : Type) (spec : key -> V)
         (sched : nat -> bool) (pp : path -> prog V) (dec : path -> V -> list (nat * nat)),
  (forall p, consistent spec (pp p)) ->
  forall t1 t2 p1 p2 (s : mstate V), cache_ok spec (mcache s) ->
  fst (fst (diff_io_st H udiff skip excl c rep V sched pp dec t1 t2 p1 p2 s)) =
    diff_io_o H udiff skip excl c rep (fun p => dec p (run_pure (pp p))) t1 t2 p1 p2 /\
  cache_ok spec (mcache (snd (fst (diff_io_st H udiff skip excl c rep V sched pp dec t1 t2 p1 p2 s)))).
Proof. exact st_transparent. Qed.
Print Assumptions C17_one_cache_transparent_partial.

(* ... and against [diff_io] itself: the two traversals list the same entries (DiffIO/DiffIOOrder.v) *)
Theorem C17_one_cache_vs_diff_io_partial :
  forall (H : pystr -> pystr) udiff skip excl c rep (V : Type) (spec : key -> V)
         (sched : nat -> bool) (pp : path -> prog V) (dec : path -> V -> list (nat * nat)),
  (forall p, consistent spec (pp p)) ->
  forall t1 t2 p1 p2 (s : mstate V), cache_ok spec (mcache s) -> wf t1 = true -> wf t2 = true ->
  let r := fst (fst (diff_io_st H udiff skip excl c rep V sched pp dec t1 t2 p1 p2 s)) in
  let r' := diff_io H udiff skip excl c rep (fun p => dec p (run_pure (pp p))) t1 t2 p1 p2 in
  Permutation.Permutation (fst r) (fst r') /\ Permutation.Permutation (snd r) (snd r') /\
  cache_ok spec (mcache (snd (fst (diff_io_st H udiff skip excl c rep V sched pp dec t1 t2 p1 p2 s)))).
Proof. exact st_vs_diff_io. Qed.
Print Assumptions C17_one_cache_vs_diff_io_partial.

Theorem C17_one_cache_settings_agree_partial :
  forall (H : pystr -> pystr) udiff skip excl c rep (V : Type) (spec : key -> V)
         (pp : path -> prog V) (dec : path -> V -> list (nat * nat)),
  (forall p, consistent spec (pp p)) ->
  forall cap cap' sched sched' t1 t2,
  fst (fst (run_diff_io_st H udiff skip excl c rep V sched pp dec t1 t2 (mkM (empty cap) 0))) =
  fst (fst (run_diff_io_st H udiff skip excl c rep V sched' pp dec t1 t2 (mkM (empty cap') 0))).
Proof. exact st_settings_agree. Qed.
Print Assumptions C17_one_cache_settings_agree_partial.

(* Finding K17 is exactly the sorting of the key.  Let [dist added removed] be ANY function of the
   ordered pair of hashes (the rough distance of DeepDiff(removed, added)).
   With an oriented key - injective in the ordered pair, i.e. key1, key2 = added, removed without
   sorting - every program of distance calls is consistent by construction, hence transparent: *)
Theorem C17_oriented_key_consistent :
  forall (A V : Type) (okey : A -> A -> key) (inv : key -> option (A * A)),
  (forall a r, inv (okey a r) = Some (a, r)) ->
  forall (dist : A -> A -> V) (dflt : V) (p : prog V),
  dist_calls A V dist okey p ->
  consistent (spec_of_dist A V inv dist dflt) p /\
  forall cap sched, fst (fst (run_cached sched p (mkM (empty cap) 0))) = run_pure p.
Proof.
  intros A V okey inv Hinv dist dflt p Hp. split.
  - exact (oriented_key_consistent A V okey inv Hinv dist dflt p Hp).
  - apply (oriented_key_transparent A V okey inv Hinv dist dflt p Hp).
Qed.
Print Assumptions C17_oriented_key_consistent.

(* with the sorted key of diff.py:1153 ([skey]: the larger hash first) the same holds if the distance
   is symmetric ... *)
Theorem C17_sorted_key_consistent_if_symmetric :
  forall (A V : Type) (okey : A -> A -> key) (inv : key -> option (A * A)),
  (forall a r, inv (okey a r) = Some (a, r)) ->
  forall (dist : A -> A -> V) (dflt : V) (gt : A -> A -> bool),
  (forall a r, dist a r = dist r a) ->
  forall p, dist_calls A V dist (skey A okey gt) p -> consistent (spec_of_dist A V inv dist dflt) p.
Proof. exact sorted_key_consistent_if_symmetric. Qed.
Print Assumptions C17_sorted_key_consistent_if_symmetric.

(* ... and ONE asymmetric pair needed in both orientations refutes transparency: the second call is
   served the first orientation's distance *)
Theorem C17_sorted_key_refuted :
  forall (A V : Type) (okey : A -> A -> key) (dist : A -> A -> V) (gt : A -> A -> bool) (a r : A),
  gt a r = true -> gt r a = false -> dist a r <> dist r a ->
  dist_calls A V dist (skey A okey gt) (both_orientations A V okey dist gt a r) /\
  run_pure (both_orientations A V okey dist gt a r) = dist r a /\
  fst (fst (run_cached (fun _ => true) (both_orientations A V okey dist gt a r) (mkM (empty 2) 0))) = dist a r /\
  forall spec, ~ consistent spec (both_orientations A V okey dist gt a r).
Proof. exact sorted_key_refuted. Qed.
Print Assumptions C17_sorted_key_refuted.

(* cache_size = 0 (DummyLFU: the cache is never enabled) is the cache-less run, for every run *)
Theorem C17_cache_off_is_pure :
  forall (V : Type) (p : prog V) (s : mstate V),
  fst (fst (run_cached (fun _ => false) p s)) = run_pure p /\
  mcache (snd (fst (run_cached (fun _ => false) p s))) = mcache s.
Proof. exact never_enabled_is_pure. Qed.
Print Assumptions C17_cache_off_is_pure.

(* a previously used [hashes] table: the item hashes the ignore-order diff works with are the
   memo-free ones whatever consistent table is passed in (C06_memo_transparent at DeepDiff's
   hashing options), for values without ==-aliasing against the table *)
Theorem C17_preseeded_hashes_partial :
  forall (H : pystr -> pystr) (c : cfg) (rep : bool) (m : memo) (v : value),
  memo_ok H (io_opts c rep) m -> wf v = true -> alias_free_with m v = true ->
  fst (hash_memo H (io_opts c rep) v m) = hv H c rep v /\
  memo_ok H (io_opts c rep) (snd (hash_memo H (io_opts c rep) v m)).
Proof.
  intros H c rep m v Hok Wv Ha. apply HashProofsMemo.memo_transparent; auto.
Qed.
Print Assumptions C17_preseeded_hashes_partial.

(* the hypotheses are satisfiable by a run with nested calls, repeated keys and value-dependent continuations *)
Theorem C17_guards_satisfiable :
  consistent ex_spec ex_prog /\ run_pure ex_prog = 23%Z /\
  snd (run_cached (fun _ => true) ex_prog (mkM (empty 1) 0)) <> [].
Proof. exact ex_consistent. Qed.
Print Assumptions C17_guards_satisfiable.

(* ====================================================================== *)
(** * Round 3: the guard exactly, the memoised bodies concretely, any cache, sessions *)

(* The guard of all the _partial statements above, exactly: some spec makes the run [consistent] iff no key is computed
   with two different values along the cache-less run ([calls p] = the (key, value) of every memoised call it makes).
   This is what the harness evaluates on every recorded call tree. *)
Theorem C17_guard_is_functional_calls :
  forall (V : Type) (dflt : V) (p : prog V),
  (exists spec, consistent spec p) <->
  (forall k v v', In (k, v) (calls p) -> In (k, v') (calls p) -> v = v').
Proof. exact consistent_iff_functional. Qed.
Print Assumptions C17_guard_is_functional_calls.

(* What the memoised pairs call computes (DiffIO/MemoPairs.v: [select], the greedy selection of
   _get_most_in_common_pairs_in_iterables transcribed with its insertion-ordered dictionaries and LIFO pops; [ds] = the
   (added, removed, distance) triples of the double loop in loop order): for EVERY distance matrix, cut-off and order
   the selected pairs are a matching (no added hash twice, no removed hash twice) along candidate edges, and the returned
   dictionary holds these pairs and their inverses only - the validity C05 checks at run time ([valid_pairs_at]). *)
Theorem C17_pairs_selection_is_matching :
  forall (A D : Type) (aeqb : A -> A -> bool) (dltb deqb : D -> D -> bool),
  (forall x y, aeqb x y = true <-> x = y) ->
  forall (cutoff : D) (ds : list (trip A D)),
  let raw := select_raw A D aeqb dltb deqb cutoff ds in
  NoDup (map fst raw) /\ NoDup (map snd raw) /\
  (forall k v, In (k, v) raw -> exists d, In (k, v, d) ds /\ dltb d cutoff = true) /\
  (forall k v, In (k, v) (select A D aeqb dltb deqb cutoff ds) ->
     (exists d, In (k, v, d) ds /\ dltb d cutoff = true) \/ (exists d, In (v, k, d) ds /\ dltb d cutoff = true)).
Proof. exact select_is_matching. Qed.
Print Assumptions C17_pairs_selection_is_matching.

(* The programs an ignore-order run is made of ([shaped]: a pairs call whose body makes one distance call per
   (added, removed) in loop order - or none when numpy pre-calculated the matrix ([pre]) - whose bodies are nested runs of
   the same shape, then selects).  With cache keys that keep the ORIENTATION of the hash pair and the ORDER of the two
   hash lists the guard holds by construction: for every nested distance, selection, cut-off - transparent for every
   capacity and schedule.  Findings K17 and K28 are exactly the two sortings in diff.py's keys. *)
Theorem C17_shaped_oriented_keys_consistent :
  forall (A D : Type) aeqb dltb deqb (dkey : A -> A -> key) (pkey : list A -> list A -> key)
         (nested : A -> A -> prog (mval A D)) (pre : list A -> list A -> option (list (trip A D))) (cutoff ddflt : D) (vdflt : mval A D)
         (dinv : key -> option (A * A)) (pinv : key -> option (list A * list A)),
  (forall a r, dinv (dkey a r) = Some (a, r)) ->
  (forall l l', dinv (pkey l l') = None /\ pinv (pkey l l') = Some (l, l')) ->
  forall p, shaped A D aeqb dltb deqb dkey pkey nested pre cutoff ddflt p ->
  consistent (spec_shaped A D aeqb dltb deqb dkey nested pre cutoff ddflt vdflt dinv pinv) p /\
  forall cap sched, fst (fst (run_cached sched p (mkM (empty cap) 0))) = run_pure p.
Proof. exact oriented_keys_transparent. Qed.
Print Assumptions C17_shaped_oriented_keys_consistent.

(* ... with the keys of diff.py (hash pair sorted: [skey]; both hash lists sorted: [pk (srt l) (srt l')]) the guard holds
   when the nested distance is symmetric and the selection does not depend on the order of the hash lists *)
Theorem C17_shaped_sorted_keys_partial :
  forall (A D : Type) aeqb dltb deqb (okey : A -> A -> key) (gt : A -> A -> bool) (pk : list A -> list A -> key)
         (srt : list A -> list A)
         (nested : A -> A -> prog (mval A D)) (pre : list A -> list A -> option (list (trip A D))) (cutoff ddflt : D) (vdflt : mval A D)
         (dinv : key -> option (A * A)) (pinv : key -> option (list A * list A)),
  (forall a r, dinv (okey a r) = Some (a, r)) ->
  (forall l l', dinv (pk l l') = None /\ pinv (pk l l') = Some (l, l')) ->
  let dkey := skey A okey gt in
  let pkey := fun l l' => pk (srt l) (srt l') in
  (forall a r, run_pure (nested a r) = run_pure (nested r a)) ->
  (forall l l', run_pure (pairs_body A D aeqb dltb deqb dkey nested pre cutoff ddflt (srt l) (srt l')) =
                run_pure (pairs_body A D aeqb dltb deqb dkey nested pre cutoff ddflt l l')) ->
  forall p, shaped A D aeqb dltb deqb dkey pkey nested pre cutoff ddflt p ->
  consistent (spec_shaped A D aeqb dltb deqb dkey nested pre cutoff ddflt vdflt dinv pinv) p.
Proof. exact sorted_keys_consistent_if. Qed.
Print Assumptions C17_shaped_sorted_keys_partial.

(* ... and the sorted pairs key alone refutes it (finding C17-K28, replayed on the implementation at every run): one removed
   item, two added items at the SAME distance, listed in opposite orders at two levels - one pairs key, two selections
   (the SetOrdered pops take the last inserted); symmetric distances, so K17 plays no role *)
Theorem C17_pairs_order_refuted :
  shaped Z Z Z.eqb Z.ltb Z.eqb zdkey zpkey tie_nested (fun _ _ => None) 10%Z 0%Z tie_prog /\
  run_pure tie_prog = VP [(1, 0); (0, 1)]%Z /\
  fst (fst (run_cached (fun _ => true) tie_prog (mkM (empty 50) 0))) = VP [(2, 0); (0, 2)]%Z /\
  (forall a r, run_pure (tie_nested a r) = run_pure (tie_nested r a)) /\
  forall spec, ~ consistent spec tie_prog.
Proof. exact pairs_order_refutes. Qed.
Print Assumptions C17_pairs_order_refuted.

(* ... while WITHOUT ties the sorting of the pairs key is harmless: if no two candidate edges (distance below the cut-off) have the
   same distance, the selection returns the same dictionary (same pairs, same insertion order) for every order of the
   triples ([no_ties]; distances strictly totally ordered: floats without nan) ... *)
Theorem C17_selection_order_free_without_ties :
  forall (A D : Type) (aeqb : A -> A -> bool) (dltb deqb : D -> D -> bool),
  (forall x y, aeqb x y = true <-> x = y) -> (forall x y, deqb x y = true <-> x = y) ->
  (forall x, dltb x x = false) -> (forall x y z, dltb x y = true -> dltb y z = true -> dltb x z = true) ->
  (forall x y, x <> y -> dltb x y = true \/ dltb y x = true) ->
  forall (cutoff : D) (ds ds' : list (trip A D)),
  (forall t, In t ds <-> In t ds') ->
  (forall a r d a' r', In (a, r, d) (cands A D dltb cutoff ds) -> In (a', r', d) (cands A D dltb cutoff ds) -> a = a' /\ r = r') ->
  select A D aeqb dltb deqb cutoff ds = select A D aeqb dltb deqb cutoff ds'.
Proof. exact select_order_free. Qed.
Print Assumptions C17_selection_order_free_without_ties.

(* ... so two levels with the same SETS of added / removed hashes, in any order, compute the same pairing: the value of the pairs
   call is then a function of diff.py's sorted key ([triples] = the distances the double loop sees) *)
Theorem C17_pairs_body_order_free_partial :
  forall (A D : Type) (aeqb : A -> A -> bool) (dltb deqb : D -> D -> bool) (dkey : A -> A -> key)
         (nested : A -> A -> prog (mval A D)) (pre : list A -> list A -> option (list (trip A D))) (cutoff ddflt : D),
  (forall x y, aeqb x y = true <-> x = y) -> (forall x y, deqb x y = true <-> x = y) ->
  (forall x, dltb x x = false) -> (forall x y z, dltb x y = true -> dltb y z = true -> dltb x z = true) ->
  (forall x y, x <> y -> dltb x y = true \/ dltb y x = true) ->
  forall l1 l1' l2 l2' : list A,
  pre l1 l1' = None -> pre l2 l2' = None ->
  (forall x, In x l1 <-> In x l2) -> (forall x, In x l1' <-> In x l2') ->
  no_ties A D dltb cutoff (triples A D nested ddflt l1 l1') ->
  run_pure (pairs_body A D aeqb dltb deqb dkey nested pre cutoff ddflt l1 l1') =
  run_pure (pairs_body A D aeqb dltb deqb dkey nested pre cutoff ddflt l2 l2').
Proof. exact pairs_body_order_free. Qed.
Print Assumptions C17_pairs_body_order_free_partial.

Theorem C17_order_free_guard_satisfiable :
  let ds  := [(4, 1, 41); (4, 5, 45); (2, 1, 21); (2, 5, 25)]%Z in
  let ds' := [(2, 5, 25); (2, 1, 21); (4, 5, 45); (4, 1, 41)]%Z in
  no_ties Z Z Z.ltb 100%Z ds /\
  select Z Z Z.eqb Z.ltb Z.eqb 100%Z ds = select Z Z Z.eqb Z.ltb Z.eqb 100%Z ds' /\
  select Z Z Z.eqb Z.ltb Z.eqb 100%Z ds = [(2, 1); (4, 5); (1, 2); (5, 4)]%Z.
Proof. exact order_free_example. Qed.
Print Assumptions C17_order_free_guard_satisfiable.

Theorem C17_shaped_guards_satisfiable :
  shaped Z Z Z.eqb Z.ltb Z.eqb zdkey zpkey ex_nested (fun _ _ => None) 10%Z 0%Z ex_shaped /\
  run_pure ex_shaped = VP [(2, 1); (4, 5); (1, 2); (5, 4)]%Z /\
  fst (fst (run_cached (fun _ => true) ex_shaped (mkM (empty 3) 0))) = run_pure ex_shaped /\
  existsb (fun e => Nat.eqb (snd (fst e)) 1) (snd (run_cached (fun _ => true) ex_shaped (mkM (empty 3) 0))) = true.
Proof. exact shaped_example. Qed.
Print Assumptions C17_shaped_guards_satisfiable.

(* The memoised DISTANCE made concrete by block Dist: outside the numeric short cut the value stored under a distance key is
   operations(delta of the nested diff) / (count removed + count added); it is the same for both orientations of the pair
   exactly when the two nested diffs have the same number of operations *)
Theorem C17_rough_distance_symmetric_iff :
  forall (r1 r2 : root) (cutoff : PrimFloat.float) (d12 d21 : dv) (n n' : nat),
  root_numeric r1 r2 cutoff = None -> root_numeric r2 r1 cutoff = None ->
  item_length d12 = LOk n -> item_length d21 = LOk n' ->
  (rough_distance r1 r2 cutoff d12 = rough_distance r2 r1 cutoff d21 <-> n = n').
Proof. exact rough_distance_symmetric_iff. Qed.
Print Assumptions C17_rough_distance_symmetric_iff.

(* K17's witness computed from the diff model and the delta view: [1..9] -> 'u' costs 3 operations of 11, 'u' -> [1..9] costs 11 of 11
   (a type change carries only its NEW value); the implementation reports 0.2727... and 1.0 (checked at every run) *)
Theorem C17_k17_distance_asymmetric :
  k17_dist k17_L k17_u = RFrac 3 11 /\ k17_dist k17_u k17_L = RFrac 11 11.
Proof. exact k17_distance_asymmetric. Qed.
Print Assumptions C17_k17_distance_asymmetric.

(* Transparency through ANY cache that answers only what it holds, where a get adds nothing and a set adds only its pair
   (whatever it drops): no replacement policy is involved *)
Theorem C17_any_cache_transparent_partial :
  forall (V C : Type) (cget : C -> key -> C * option V) (cset : C -> key -> V -> C) (good : C -> Prop) (holds : C -> key -> V -> Prop),
  (forall c k, good c -> good (fst (cget c k))) ->
  (forall c k v, good c -> good (cset c k v)) ->
  (forall c k v, good c -> snd (cget c k) = Some v -> holds c k v) ->
  (forall c k k' v', good c -> holds (fst (cget c k)) k' v' -> holds c k' v') ->
  (forall c k v k' v', good c -> holds (cset c k v) k' v' -> (k' = k /\ v' = v) \/ holds c k' v') ->
  forall (spec : key -> V) (sched : nat -> bool) (p : prog V) (s : astate C),
  consistent spec p -> good (acache s) -> right V C holds spec (acache s) ->
  fst (run_any V C cget cset sched p s) = run_pure p /\
  good (acache (snd (run_any V C cget cset sched p s))) /\ right V C holds spec (acache (snd (run_any V C cget cset sched p s))).
Proof. exact any_cache_transparent. Qed.
Print Assumptions C17_any_cache_transparent_partial.

(* ... the LFU cache is such a cache BY C18's REFINEMENT THEOREM ALONE (get_sim / set_sim / R_find of Lfu/LfuProofs.v and the
   abstract bounded map's sget_returns / sset_values): nothing about buckets, frequencies or the eviction order is used *)
Theorem C17_cache_transparent_by_refinement_partial :
  forall (V : Type) (spec : key -> V) (p : prog V), consistent spec p ->
  forall (cap : nat) (sched : nat -> bool), 1 <= cap ->
  fst (fst (run_cached sched p (mkM (empty cap) 0))) = run_pure p.
Proof. exact cache_transparent_by_refinement. Qed.
Print Assumptions C17_cache_transparent_by_refinement_partial.

(* ... and so is ONE cache threaded through the whole ignore-order traversal: induction over the traversal with that as the
   only fact about the cache *)
Theorem C17_one_cache_by_refinement_partial :
  forall (H : pystr -> pystr) udiff skip excl c rep (V : Type) (spec : key -> V)
         (sched : nat -> bool) (pp : path -> prog V) (dec : path -> V -> list (nat * nat)),
  (forall p, consistent spec (pp p)) ->
  forall t1 t2 p1 p2 (cap n : nat), 1 <= cap ->
  fst (fst (diff_io_st H udiff skip excl c rep V sched pp dec t1 t2 p1 p2 (mkM (empty cap) n))) =
    diff_io_o H udiff skip excl c rep (fun p => dec p (run_pure (pp p))) t1 t2 p1 p2.
Proof. exact st_by_refinement_empty. Qed.
Print Assumptions C17_one_cache_by_refinement_partial.

(* A previously used `hashes` table (DiffIO/MemoHashes.v: [session] = any number of runs that all pass ONE dictionary; each run
   = [diff_io_m], the run-wide table threaded through the traversal): from ANY valid table - every entry is the hash of its
   key under the run's hashing options, e.g. one pre-filled by earlier runs on other values - every run returns what it
   returns alone and leaves a valid table.  Guards: well-formed inputs, no ==-aliasing among all atoms around (K2). *)
Theorem C17_preseeded_session_partial :
  forall (H : pystr -> pystr) udiff skip excl c rep (m : memo) (qs : list req),
  memo_ok H (io_opts c rep) m ->
  Forall (fun q => q_rep q = rep /\ wf (q_t1 q) = true /\ wf (q_t2 q) = true) qs ->
  no_alias (session_atoms m qs) = true ->
  fst (session H udiff skip excl c m qs) = map (alone H udiff skip excl c) qs /\
  memo_ok H (io_opts c rep) (snd (session H udiff skip excl c m qs)).
Proof. exact preseeded_session. Qed.
Print Assumptions C17_preseeded_session_partial.

(* repeated runs agree: the same request n times over one table *)
Theorem C17_repeated_runs_agree_partial :
  forall (H : pystr -> pystr) udiff skip excl c (q : req) (n : nat),
  wf (q_t1 q) = true -> wf (q_t2 q) = true -> alias_free2 (q_t1 q) (q_t2 q) = true ->
  fst (session H udiff skip excl c [] (repeat q n)) = repeat (alone H udiff skip excl c q) n.
Proof. exact repeated_runs_agree. Qed.
Print Assumptions C17_repeated_runs_agree_partial.

(* a table left by a run under OTHER hashing options: valid for these options exactly when the two option sets agree on the
   hash of every stored hashable key ... *)
Theorem C17_table_valid_iff :
  forall (H : pystr -> pystr) (o o' : hopts) (m : memo),
  memo_ok H o' m ->
  (memo_ok H o m <-> forall k h, In (MK k, h) m -> order_ok o k = true /\ hash_pure H o k = hash_pure H o' k).
Proof. exact memo_ok_transfer. Qed.
Print Assumptions C17_table_valid_iff.

(* ... and when they do not, the result changes: [(1,1,2)] vs [(1,2)], table from a run with report_repetition=False passed to
   a run with report_repetition=True (the model reproduces the implementation here: extension stream of the harness).  Not a
   finding of C17: `hashes` is documented as "re-use the hash that is provided". *)
Theorem C17_stale_options_refuted : forall udiff,
  wf so_t1 = true /\ wf so_t2 = true /\ alias_free2 so_t1 so_t2 = true /\
  memo_ok hexhash (io_opts cfg_default false) (so_table udiff) /\
  ~ memo_ok hexhash (io_opts cfg_default true) (so_table udiff) /\
  fst (run_m_from hexhash udiff no_skip no_skip cfg_default true so_pairs [] so_t1 so_t2) <> ([], []) /\
  fst (run_m_from hexhash udiff no_skip no_skip cfg_default true so_pairs (so_table udiff) so_t1 so_t2) = ([], []).
Proof. exact stale_options_refuted. Qed.
Print Assumptions C17_stale_options_refuted.

Theorem C17_session_guards_satisfiable : forall udiff,
  let q1 := mkReq false so_pairs (VList [VList [VAtom (AInt 1); VAtom (AInt 2)]; VAtom (AInt 7)]) (VList [VAtom (AInt 7); VList [VAtom (AInt 1); VAtom (AInt 3)]]) in
  let q2 := mkReq false (fun _ => []) (VList [VTuple [VAtom (AInt 1); VAtom (AInt 2)]; VAtom (AInt 4)]) (VList [VAtom (AInt 4); VAtom (AInt 5)]) in
  no_alias (session_atoms [] [q1; q2; q1]) = true /\
  fst (session hexhash udiff no_skip no_skip cfg_default [] [q1; q2; q1]) = map (alone hexhash udiff no_skip no_skip cfg_default) [q1; q2; q1] /\
  Forall (fun r => fst r <> []) (fst (session hexhash udiff no_skip no_skip cfg_default [] [q1; q2; q1])) /\
  List.length (snd (session hexhash udiff no_skip no_skip cfg_default [] [q1; q2])) = 15.
Proof. exact session_example. Qed.
Print Assumptions C17_session_guards_satisfiable.

(** Correspondence-side evaluation of the pairs model (hashes and distances are numbers).
    No theorem depends on this file. *)
From Coq Require Import List ZArith NArith Bool Arith String.
Import ListNotations.
From DD Require Import Base.Sx Lfu.LfuModel DiffIO.MemoModel DiffIO.MemoShow DiffIO.MemoPairs.
Local Open Scope Z_scope.

Definition sx_pairs (ps : list (Z * Z)) : sx := SL (map (fun kv => SL [SZ (fst kv); SZ (snd kv)]) ps).

(* the dictionary the selection returns, in insertion order *)
Definition select_z (cutoff : Z) (ds : list (Z * Z * Z)) : sx :=
  sx_pairs (select Z Z Z.eqb Z.ltb Z.eqb cutoff ds).

"""development helper: run the C16 module and print every new failure / break"""
import sys, os, json
sys.path.insert(0, "/verif"); 
REPO = os.environ.get("DEEPDIFF_REPO", "/repo")
sys.path.insert(0, REPO)
os.environ["SEPERMAN_DEEPDIFF_VERIF"] = "1"
from harness import core
import importlib
ctx = core.Ctx("C16", "quick", 20260929)
ctx.no_proof = True
ctx.mod = importlib.import_module("harness.props.c16")
if os.environ.get("WIPTREE"):
    core.THEORIES = os.environ["WIPTREE"]
    ctx.ensure_built = lambda header: None
ctx.mod.run(ctx)
print("failures", len(ctx.failures), "breaks", len(ctx.breaks), "known", {k: v["n"] for k, v in ctx.known_seen.items()})
seen = set()
for f in ctx.failures:
    c = f["case"]
    key = f["what"][:60]
    if key in seen and len(seen) > 3: continue
    seen.add(key)
    print("F:", f["what"][:300]); print("   obj=", c.get("obj", "")[:300], " item=", c.get("item"), {k: v for k, v in c.get("options", {}).items() if v not in ([], None, False)})
    print("   obs=", str(c.get("observed", ""))[:400], "expl=", c.get("explained_by"))
for b in ctx.breaks[:int(os.environ.get("NB", "8"))]:
    print("B:", json.dumps(b, ensure_ascii=False)[:1500])
for name, x in ctx.extensions.items():
    print("EXT", name, {k: v for k, v in x.items() if k not in ("failures", "breaks")})
    for f in x["failures"]: print("  EF:", f["what"][:200], json.dumps(f["case"], ensure_ascii=False)[:600])
    for b in x["breaks"]: print("  EB:", json.dumps(b, ensure_ascii=False)[:1500])
print({k: v for k, v in sorted(ctx.counts.items()) if k.startswith(("object:", "shared", "result:", "extract:", "text:"))})
print("elapsed", ctx.elapsed())

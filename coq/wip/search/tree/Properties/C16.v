(** C16 - DeepSearch reports exactly the matching locations.  Final statements only.

    Reading.  [deep_search oracles c item obj] models DeepSearch(obj, item, **c) for ANY item
    of the value universe (atom or container); it returns
    [RRaise] (the TypeError of __init__) or [ROk evs], evs being the reports in the order the code makes them:
    [EvValue q v] = matched_values entry for the key sequence q, [EvPath q v] = matched_paths
    entry, [EvAttr q n] = matched_paths entry for the bound method n of the str at q (finding
    K16f).  [prepare] is the item normalisation of __init__; (cs, it) is the normalised item.
    The oracles (regular expressions, str(bytes), str(pattern), dir(str)) are universally
    quantified.  [wf obj] is the representation invariant of Python dicts / sets.

    Exclusion has two readings: the documented one ([vis_doc], [matches_spec_doc],
    [paths_spec_doc]) and the one implemented ([vis], [matches_spec], [paths_spec]); they
    differ by findings K16 / K16b, hence the _refuted / _partial pairs. *)
From Coq Require Import List ZArith NArith Bool String.
Import ListNotations.
From DD Require Import Base.PyStr Base.Value.
From DD Require Path.PathModel.
From DD Require Import Search.SearchModel Search.SearchSpec Search.SearchProofs Search.SearchExtract.

(* every reported value path extracts from the object a value that matches the item under
   the chosen mode ([item_match]: by the comparer of its type, or by equality with the item):
   all objects, items (containers included), modes, exclusions *)
Theorem C16_sound :
  forall (brepr : pystr -> pystr) (re_search excl_re : pystr -> bool) (re_text : pystr)
         (sa ba : list pystr) (c : config) (item : value) (obj : value) (cs : bool)
         (it : eitem) (evs : list event),
    wf obj = true ->
    prepare brepr c item = PItem cs it ->
    deep_search brepr re_search excl_re re_text sa ba c item obj = ROk evs ->
    forall (q : path) (v : value),
      In (EvValue q v) evs -> get_at obj q = Some v /\ item_match brepr re_search c cs it v = true.
Proof. exact final_sound. Qed.
Print Assumptions C16_sound.

(* matched_values is EXACTLY the set of matching locations that are visible under exclusion
   as implemented ([vis false]: reached by the search; an item of a list / tuple / set that
   equals the searched item is reported and not descended into; a container matches only as
   such an item): all objects, items, modes, exclusions *)
Theorem C16_values_exact :
  forall (brepr : pystr -> pystr) (re_search excl_re : pystr -> bool) (re_text : pystr)
         (sa ba : list pystr) (c : config) (item : value) (obj : value) (cs : bool)
         (it : eitem) (evs : list event),
    wf obj = true ->
    prepare brepr c item = PItem cs it ->
    deep_search brepr re_search excl_re re_text sa ba c item obj = ROk evs ->
    forall (q : path) (v : value),
      In (EvValue q v) evs <-> In (q, v) (matches_spec brepr re_search excl_re c cs it obj).
Proof. exact final_values_exact. Qed.
Print Assumptions C16_values_exact.

(* completeness against the DOCUMENTED exclusion is false (K16: the item, not the object, is
   tested against exclude_types) ... *)
Theorem C16_complete_refuted :
  exists (cs : bool) (it : eitem) (evs : list event) (q : path) (v : value),
    wf k16c_obj = true /\
    prepare id_repr k16c_cfg k16c_item = PItem cs it /\
    deep_search id_repr no_re no_re [] [] [] k16c_cfg k16c_item k16c_obj = ROk evs /\
    In (q, v) (matches_spec_doc id_repr no_re no_re k16c_cfg cs it k16c_obj) /\
    ~ In (EvValue q v) evs.
Proof. exact complete_refuted. Qed.
Print Assumptions C16_complete_refuted.

(* ... and for container items (K16h: a list / tuple / dict / set equal to the item is found
   only as an ITEM of a list / tuple / set, never as a dictionary value or the root) ... *)
Theorem C16_complete_container_refuted :
  exists (cs : bool) (it : eitem) (evs : list event) (q : path) (v : value),
    wf k16h_obj = true /\
    prepare id_repr k16f_cfg k16h_item = PItem cs it /\ item_excl k16f_cfg it = false /\
    deep_search id_repr no_re no_re k16h_text [] [] k16f_cfg k16h_item k16h_obj = ROk evs /\
    In (q, v) (matches_spec_doc id_repr no_re no_re k16f_cfg cs it k16h_obj) /\
    ~ In (EvValue q v) evs.
Proof. exact complete_container_refuted. Qed.
Print Assumptions C16_complete_container_refuted.

(* ... and holds whenever the item is an atom whose own type is not excluded *)
Theorem C16_complete_partial :
  forall (brepr : pystr -> pystr) (re_search excl_re : pystr -> bool) (re_text : pystr)
         (sa ba : list pystr) (c : config) (item : value) (obj : value) (cs : bool)
         (it : eitem) (evs : list event),
    wf obj = true ->
    prepare brepr c item = PItem cs it ->
    deep_search brepr re_search excl_re re_text sa ba c item obj = ROk evs ->
    item_excl c it = false ->
    atom_item it = true ->
    forall (q : path) (v : value),
      In (q, v) (matches_spec_doc brepr re_search excl_re c cs it obj) -> In (EvValue q v) evs.
Proof. exact final_complete_partial. Qed.
Print Assumptions C16_complete_partial.

(* under the K16 guard (the root and the dictionary values are not of an excluded type)
   matched_values is exactly the documented specification *)
Theorem C16_values_exact_doc_partial :
  forall (brepr : pystr -> pystr) (re_search excl_re : pystr -> bool) (re_text : pystr)
         (sa ba : list pystr) (c : config) (item : value) (obj : value) (cs : bool)
         (it : eitem) (evs : list event),
    wf obj = true ->
    prepare brepr c item = PItem cs it ->
    deep_search brepr re_search excl_re re_text sa ba c item obj = ROk evs ->
    item_excl c it = false ->
    atom_item it = true ->
    k16_guard c obj = true ->
    forall (q : path) (v : value),
      In (EvValue q v) evs <-> In (q, v) (matches_spec_doc brepr re_search excl_re c cs it obj).
Proof. exact final_values_exact_doc_partial. Qed.
Print Assumptions C16_values_exact_doc_partial.

(* matched_paths entries for locations are exactly the dictionary entries of visible
   dictionaries whose path text contains the item: all inputs *)
Theorem C16_paths_exact :
  forall (brepr : pystr -> pystr) (re_search excl_re : pystr -> bool) (re_text : pystr)
         (sa ba : list pystr) (c : config) (item : value) (obj : value) (cs : bool)
         (it : eitem) (evs : list event),
    wf obj = true ->
    prepare brepr c item = PItem cs it ->
    deep_search brepr re_search excl_re re_text sa ba c item obj = ROk evs ->
    forall (q : path) (v : value),
      In (EvPath q v) evs <-> In (q, v) (paths_spec brepr re_search excl_re re_text c cs it obj).
Proof. exact final_paths_exact. Qed.
Print Assumptions C16_paths_exact.

Theorem C16_paths_exact_doc_partial :
  forall (brepr : pystr -> pystr) (re_search excl_re : pystr -> bool) (re_text : pystr)
         (sa ba : list pystr) (c : config) (item : value) (obj : value) (cs : bool)
         (it : eitem) (evs : list event),
    wf obj = true ->
    prepare brepr c item = PItem cs it ->
    deep_search brepr re_search excl_re re_text sa ba c item obj = ROk evs ->
    item_excl c it = false ->
    atom_item it = true ->
    k16_guard c obj = true ->
    k16b_guard brepr excl_re c obj = true ->
    forall (q : path) (v : value),
      In (EvPath q v) evs <-> In (q, v) (paths_spec_doc brepr re_search excl_re re_text c cs it obj).
Proof. exact final_paths_exact_doc_partial. Qed.
Print Assumptions C16_paths_exact_doc_partial.

(* matched_paths can contain paths that are not locations of the object (K16f) ... *)
Theorem C16_paths_only_locations_refuted :
  exists (evs : list event) (q : path) (n : pystr),
    wf k16f_obj = true /\
    deep_search id_repr no_re no_re [] k16f_attrs [] k16f_cfg (VAtom ANone) k16f_obj = ROk evs /\
    In (EvAttr q n) evs.
Proof. exact paths_only_locations_refuted. Qed.
Print Assumptions C16_paths_only_locations_refuted.

(* ... but only when the item is None or a container *)
Theorem C16_paths_only_locations_partial :
  forall (brepr : pystr -> pystr) (re_search excl_re : pystr -> bool) (re_text : pystr)
         (sa ba : list pystr) (c : config) (item : value) (obj : value) (cs : bool)
         (it : eitem) (evs : list event),
    wf obj = true ->
    prepare brepr c item = PItem cs it ->
    deep_search brepr re_search excl_re re_text sa ba c item obj = ROk evs ->
    forall a : atom, item = VAtom a -> a <> ANone ->
    forall (q : path) (n : pystr), ~ In (EvAttr q n) evs.
Proof. exact final_only_locations_partial. Qed.
Print Assumptions C16_paths_only_locations_partial.

(* "excluded paths and types never appear" is false: a float reported with exclude_types=[float]
   (K16), an excluded path reported under matched_paths (K16b) ... *)
Theorem C16_exclusions_refuted :
  (exists (evs : list event) (q : path) (v : value),
      wf k16_obj = true /\
      deep_search id_repr no_re no_re [] [] [] k16_cfg k16_item k16_obj = ROk evs /\
      In (EvValue q v) evs /\ ty_excl k16_cfg (type_of v) = true)
  /\ (exists (evs : list event) (q : path) (v : value),
         wf k16b_obj = true /\
         deep_search id_repr no_re no_re [] [] [] k16b_cfg k16b_item k16b_obj = ROk evs /\
         In (EvPath q v) evs /\ path_excl id_repr no_re k16b_cfg q = true).
Proof. exact (conj exclusions_types_refuted exclusions_paths_refuted). Qed.
Print Assumptions C16_exclusions_refuted.

(* ... and true under the guards: nothing reported is excluded in the documented sense (neither
   the location nor any ancestor has an excluded path or type) *)
Theorem C16_exclusions_partial :
  forall (brepr : pystr -> pystr) (re_search excl_re : pystr -> bool) (re_text : pystr)
         (sa ba : list pystr) (c : config) (item : value) (obj : value) (cs : bool)
         (it : eitem) (evs : list event),
    wf obj = true ->
    prepare brepr c item = PItem cs it ->
    deep_search brepr re_search excl_re re_text sa ba c item obj = ROk evs ->
    k16_guard c obj = true ->
    (forall (q : path) (v : value), In (EvValue q v) evs -> vis_doc brepr excl_re c [] obj q = true) /\
    (k16b_guard brepr excl_re c obj = true ->
     forall (q : path) (v : value), In (EvPath q v) evs -> vis_doc brepr excl_re c [] obj q = true).
Proof. exact final_exclusions_partial. Qed.
Print Assumptions C16_exclusions_partial.

(* the guards are satisfiable by a non-trivial input *)
Theorem C16_guards_satisfiable :
  wf guard_obj = true /\ k16_guard guard_cfg guard_obj = true /\
  k16b_guard id_repr no_re guard_cfg guard_obj = true /\
  item_excl guard_cfg (EAtom guard_item) = false /\
  deep_search id_repr no_re no_re [] [] [] guard_cfg guard_item_v guard_obj = ROk guard_evs.
Proof. exact guards_satisfiable. Qed.
Print Assumptions C16_guards_satisfiable.

(* DeepSearch never raises, apart from the documented TypeError of __init__ ("The passed item
   ... is not usable for regex"): for ALL objects, items and modes the constructor raises exactly
   when use_regexp is on and the item is neither a str / bytes nor a number that loose mode turns
   into its text.  (Findings K16d / K16i, the TypeErrors of the traversal, are fixed in /repo by
   9553299, 49764d9, bcd9dc1 and the model follows: it has no raise event any more.) *)
Theorem C16_never_raises :
  forall (brepr : pystr -> pystr) (re_search excl_re : pystr -> bool) (re_text : pystr)
         (sa ba : list pystr) (c : config) (item : value) (obj : value),
    deep_search brepr re_search excl_re re_text sa ba c item obj = RRaise <->
    use_regexp c = true /\ item_is_text item = false /\ loose_number c item = false.
Proof. exact never_raises. Qed.
Print Assumptions C16_never_raises.

(* the former K16d / K16i witnesses now return results: a str item is found in the str only;
   a bytes pattern is found in the bytes only and is not applied to the text of a number *)
Theorem C16_str_in_bytes_not_found :
  deep_search id_repr no_re no_re [] [] [] k16f_cfg k16d_item k16d_obj
  = ROk [EvValue [SIdx 1] (VAtom (AStr (s2p "abc")))].
Proof. exact str_in_bytes_not_found. Qed.
Print Assumptions C16_str_in_bytes_not_found.

Theorem C16_bytes_pattern_on_numbers :
  deep_search id_repr k16i_re no_re [] [] [] k16i_cfg k16i_item k16i_obj
  = ROk [EvValue [SIdx 1] (VAtom (ABytes (s2p "1")))].
Proof. exact bytes_pattern_on_numbers. Qed.
Print Assumptions C16_bytes_pattern_on_numbers.

(* the result dictionary matched_values (keyed by path text): every entry comes from a
   reported location with that text and that value, and every reported location's text is a key *)
Theorem C16_result_dict :
  forall (brepr : pystr -> pystr) (evs : list event),
    (forall (t : pystr) (v : value), In (t, v) (matched_values brepr evs) ->
        exists q : path, render brepr q = t /\ In (EvValue q v) evs) /\
    (forall (q : path) (v : value), In (EvValue q v) evs ->
        exists v' : value, In (render brepr q, v') (matched_values brepr evs)).
Proof. exact matched_values_spec. Qed.
Print Assumptions C16_result_dict.

(* deepdiff.extract (model and proofs of the Path block, C09) resolves every reported
   matched_values / matched_paths path to the reported value, provided the keys on the path
   are tame (str keys without a single quote and inside the C09 round-trip guard, no bytes
   keys: there search.py's own printer and path.py's printer produce the same text) and no
   set is subscripted on the way ... *)
Theorem C16_sound_extract_partial :
  forall (brepr : pystr -> pystr) (re_search excl_re : pystr -> bool) (re_text : pystr)
         (sa ba : list pystr) (c : config) (item : value) (obj : value) (cs : bool)
         (it : eitem) (evs : list event),
    wf obj = true ->
    prepare brepr c item = PItem cs it ->
    deep_search brepr re_search excl_re re_text sa ba c item obj = ROk evs ->
    forall (q : path) (v : value),
      In (EvValue q v) evs -> tame_path q = true -> set_free_along obj q = true ->
      PathModel.extract obj (render brepr q) = Some v /\ item_match brepr re_search c cs it v = true.
Proof. exact sound_extract_partial. Qed.
Print Assumptions C16_sound_extract_partial.

Theorem C16_paths_extract_partial :
  forall (brepr : pystr -> pystr) (re_search excl_re : pystr -> bool) (re_text : pystr)
         (sa ba : list pystr) (c : config) (item : value) (obj : value) (cs : bool)
         (it : eitem) (evs : list event),
    wf obj = true ->
    prepare brepr c item = PItem cs it ->
    deep_search brepr re_search excl_re re_text sa ba c item obj = ROk evs ->
    forall (q : path) (v : value),
      In (EvPath q v) evs -> tame_path q = true -> set_free_along obj q = true ->
      PathModel.extract obj (render brepr q) = Some v.
Proof. exact paths_extract_partial. Qed.
Print Assumptions C16_paths_extract_partial.

(* search.py's printer and path.py's printer agree on tame paths *)
Theorem C16_render_is_path_render :
  forall (brepr : pystr -> pystr) (p : path), tame_path p = true ->
    render brepr p = PathModel.render (map to_pkey p).
Proof. exact render_tame. Qed.
Print Assumptions C16_render_is_path_render.

(* ... and not in general (K16g): a key containing a single quote *)
Theorem C16_sound_extract_refuted :
  exists (evs : list event) (q : path) (v : value),
    wf k16g_obj = true /\
    deep_search id_repr no_re no_re [] [] [] k16f_cfg k16g_item k16g_obj = ROk evs /\
    In (EvValue q v) evs /\ set_free_along k16g_obj q = true /\
    PathModel.extract k16g_obj (render id_repr q) = None.
Proof. exact sound_extract_refuted. Qed.
Print Assumptions C16_sound_extract_refuted.

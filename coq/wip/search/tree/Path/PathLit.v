(** C09 - a TOTAL model of ast.literal_eval on the texts _add_to_elements hands to it,
    and of float repr.  Definitions only.

    _add_to_elements calls literal_eval only on texts without a backslash (and without
    U+1D1C0), so string literals have no escapes and there is no line continuation.
    literal_eval(text) = _convert(compile(text.lstrip(" \t"), mode='eval', ONLY_AST)):

      tokenizer  (CPython 3.12 Parser/tokenizer.c): NUL / surrogates, universal newlines,
                 indentation of the first logical line and of what follows it, blank and
                 comment lines, brackets (nesting limit 200, matching), numbers (decimal,
                 hex / octal / binary, underscores, leading zeros, point floats, exponents,
                 imaginary, the 4300-digit limit of decimal ints), strings (prefixes
                 r u b br rb, f-strings, single and triple quotes, ASCII-only bytes),
                 names, the operators of literals  ( ) [ ] { } , : + - ...
      parser     the expression grammar over these tokens: tuples without parentheses,
                 groups, lists, sets, dicts, unary and binary + -, calls and subscripts
                 (slices) of anything - `set()` is a literal, every other call / subscript
                 is an expression that is no literal ([NBad])
      _convert   in evaluation order: ValueError for a node that is no literal ([CFail]),
                 TypeError for an unhashable set member / dict key, OverflowError for
                 <huge int> + <complex> ([CRaise], not caught by _add_to_elements)
      floats     decimal -> binary64 by exact rational arithmetic (round half even,
                 subnormals, overflow to inf)

    [LxUnsup] is answered only when a token outside this vocabulary (another name, another
    operator, an f-string) occurs in a text in which _convert could raise TypeError or
    OverflowError ("{" followed by "[", "{" or "s"; a run of 300 digits and a "j"): there the
    full Python grammar would be needed to know whether a SyntaxError comes first.  Everywhere
    else the answer is definite. *)
From Coq Require Import List ZArith NArith Bool String.
Import ListNotations.
From DD Require Import Base.Sx Base.PyStr Base.Value Path.PathModel.
Local Open Scope N_scope.

(* ------------------------------------------------------------------ *)
(* values                                                              *)
(* ------------------------------------------------------------------ *)
(* magnitude of a binary64 value: m * 2^e with m odd *)
Inductive fmag := FZero | FInf | FFin (m : positive) (e : Z).

Inductive pval :=
| PvNone
| PvBool (b : bool)
| PvInt (z : Z)
| PvFloat (neg : bool) (m : fmag)
| PvStr (s : pystr)
| PvBytes (s : pystr)
| PvComplex
| PvOther (hashable : bool).     (* Ellipsis, tuple, list, set, dict *)

Inductive lxres := LxOk (v : pval) | LxFail | LxRaise | LxUnsup.

Definition fmag_eqb (a b : fmag) : bool :=
  match a, b with
  | FZero, FZero | FInf, FInf => true
  | FFin m e, FFin m' e' => Pos.eqb m m' && Z.eqb e e'
  | _, _ => false
  end.

(* ------------------------------------------------------------------ *)
(* decimal -> binary64                                                 *)
(* ------------------------------------------------------------------ *)
Fixpoint strip2_pos (p : positive) : positive * Z :=
  match p with
  | xO q => let '(m, k) := strip2_pos q in (m, (k + 1)%Z)
  | _ => (p, 0%Z)
  end.
(* canonical form of mant * 2^e, mant > 0 *)
Definition strip2 (mant : N) (e : Z) : fmag :=
  match mant with
  | N0 => FZero
  | Npos p => let '(m, k) := strip2_pos p in FFin m (e + k)%Z
  end.

Definition pow2 (k : Z) : N := 2 ^ Z.to_N k.
Definition pow10 (k : Z) : N := 10 ^ Z.to_N k.

(* the binary64 value nearest to num / den (both > 0), ties to even *)
Definition round_ratio (num den : N) : fmag :=
  let e0 := (Z.of_N (N.size num) - Z.of_N (N.size den))%Z in
  let ge_pow (e : Z) : bool :=
    if (0 <=? e)%Z then den * pow2 e <=? num else den <=? num * pow2 (- e) in
  let e2 := if ge_pow e0 then e0 else (e0 - 1)%Z in
  let shift := if (-1022 <=? e2)%Z then (52 - e2)%Z else 1074%Z in
  let '(n2, d2) := if (0 <=? shift)%Z then (num * pow2 shift, den) else (num, den * pow2 (- shift)) in
  let q := n2 / d2 in
  let r := n2 mod d2 in
  let mant := if (d2 <? 2 * r) || ((2 * r =? d2) && N.odd q) then q + 1 else q in
  if mant =? 0 then FZero
  else if (1024 <? Z.of_N (N.size mant) - shift)%Z then FInf
  else strip2 mant (- shift).

Definition ndigits (M : N) : N := if M =? 0 then 0 else N.of_nat (List.length (p_of_N M)).

(* M * 10^k, M with nd decimal digits *)
Definition dec_to_double (M : N) (k : Z) : fmag :=
  if M =? 0 then FZero
  else let nd := Z.of_N (ndigits M) in
       if (310 <? k + nd)%Z then FInf
       else if (k + nd <? -330)%Z then FZero
       else if (0 <=? k)%Z then round_ratio (M * pow10 k) 1
       else round_ratio M (pow10 (- k)).

(* ------------------------------------------------------------------ *)
(* float repr: shortest digits that read back (David Gay, mode 0)       *)
(* ------------------------------------------------------------------ *)
(* num / den < 10^q *)
Definition lt_pow10 (num den : N) (q : Z) : bool :=
  if (0 <=? q)%Z then num <? den * pow10 q else num * pow10 (- q) <? den.

(* candidates with n = 1 .. 17 digits; (digits as a number, decimal point position) *)
Fixpoint float_digits_go (fuel : nat) (n : Z) (num den : N) (p : Z) (mag : fmag) : option (N * Z) :=
  match fuel with
  | O => None
  | S f =>
      let s := (p - n)%Z in
      let '(a, b) := if (0 <=? s)%Z then (num, den * pow10 s) else (num * pow10 (- s), den) in
      let lo := a / b in
      let r := a mod b in
      let ok (c : N) : bool := (0 <? c) && fmag_eqb (dec_to_double c s) mag in
      let oklo := ok lo in
      let okhi := negb (r =? 0) && ok (lo + 1) in
      let pick :=
        if oklo && okhi then
          Some (if 2 * r <? b then lo else if b <? 2 * r then lo + 1 else if N.even lo then lo else lo + 1)
        else if oklo then Some lo
        else if okhi then Some (lo + 1)
        else None in
      match pick with
      | Some c => Some (c, if c =? pow10 n then (p + 1)%Z else p)
      | None => float_digits_go f (n + 1)%Z num den p mag
      end
  end.

Fixpoint strip_zeros_go (fuel : nat) (c : N) : N :=
  match fuel with
  | O => c
  | S f => if (0 <? c) && (c mod 10 =? 0) then strip_zeros_go f (c / 10) else c
  end.

Definition float_digits (m : positive) (e : Z) : option (N * Z) :=
  let '(num, den) := if (0 <=? e)%Z then (Npos m * pow2 e, 1) else (Npos m, pow2 (- e)) in
  let d := (Z.of_N (ndigits num) - Z.of_N (ndigits den))%Z in
  let p := if lt_pow10 num den d then d else (d + 1)%Z in
  match float_digits_go 17 1 num den p (FFin m e) with
  | Some (c, decpt) => Some (strip_zeros_go 20 c, decpt)
  | None => None
  end.

Definition zeros (k : Z) : pystr := repeat 48 (Z.to_nat k).

(* format_float_short(..., 'r'): exponent notation iff decpt <= -4 or decpt > 16 *)
Definition float_format (ds : pystr) (decpt : Z) : pystr :=
  let n := Z.of_nat (List.length ds) in
  if (decpt <=? -4)%Z || (16 <? decpt)%Z then
    let ex := (decpt - 1)%Z in
    let ed := p_of_N (Z.to_N (Z.abs ex)) in
    firstn 1 ds ++ (match skipn 1 ds with [] => [] | t => cDOT :: t end)
      ++ [101; if (ex <? 0)%Z then cMINUS else cPLUS] ++ (match ed with [_] => 48 :: ed | _ => ed end)
  else if (decpt <=? 0)%Z then [48; cDOT] ++ zeros (- decpt) ++ ds
  else if (n <=? decpt)%Z then ds ++ zeros (decpt - n) ++ [cDOT; 48]
  else firstn (Z.to_nat decpt) ds ++ [cDOT] ++ skipn (Z.to_nat decpt) ds.

(* repr of a float; None = the digit search failed (never observed) *)
Definition float_repr (neg : bool) (mag : fmag) : option pystr :=
  let sign := if neg then [cMINUS] else [] in
  match mag with
  | FZero => Some (sign ++ s2p "0.0")
  | FInf => Some (sign ++ s2p "inf")
  | FFin m e =>
      match float_digits m e with
      | Some (c, decpt) => Some (sign ++ float_format (p_of_N c) decpt)
      | None => None
      end
  end.

(* ------------------------------------------------------------------ *)
(* tokens                                                              *)
(* ------------------------------------------------------------------ *)
Inductive kw := KNone | KTrue | KFalse | KSet.
Inductive tok :=
| TNum (v : pval)                       (* PvInt, PvFloat false _, PvComplex *)
| TStr (isb : bool) (body : pystr)
| TName (k : kw)
| TOp (c : N)                           (* ( ) [ ] { } , : + - *)
| TEllipsis
| TNl.                                  (* NEWLINE: the end of a logical line at bracket level 0 *)

Definition is_alpha (c : N) : bool := ((65 <=? c) && (c <=? 90)) || ((97 <=? c) && (c <=? 122)) || (c =? 95).
Definition is_idstart (c : N) : bool := is_alpha c || (128 <=? c).
Definition is_idchar (c : N) : bool := is_idstart c || is_digit c.
Definition next_is (p : N -> bool) (s : pystr) : bool := match s with c :: _ => p c | [] => false end.

Definition dvalN (ds : pystr) : N := fold_left (fun a c => a * 10 + (c - 48)) ds 0.

(* digit (_? digit)*, after the first digit; None: "_" not followed by a digit *)
Fixpoint scan_digits_go (s : pystr) (acc : pystr) : option (pystr * pystr) :=
  match s with
  | c :: r =>
      if is_digit c then scan_digits_go r (c :: acc)
      else if c =? cUS then
        match r with
        | d :: r' => if is_digit d then scan_digits_go r' (d :: acc) else None
        | [] => None
        end
      else Some (rev acc, s)
  | [] => Some (rev acc, [])
  end.
Definition scan_digitpart (s : pystr) : option (pystr * pystr) :=
  match s with
  | c :: r => if is_digit c then scan_digits_go r [c] else None
  | [] => None
  end.

Definition radix_digit (c : N) (base : N) : option N :=
  let l := lower_ascii c in
  let v := if is_digit c then Some (c - 48)
           else if (97 <=? l) && (l <=? 102) then Some (l - 87) else None in
  match v with
  | Some d => if d <? base then Some d else None
  | None => None
  end.
(* (_? digit+)+ ; need: a digit must come now; us_ok: an underscore may come now *)
Fixpoint scan_radix_go (base : N) (s : pystr) (v : N) (need us_ok : bool) : option (N * pystr) :=
  match s with
  | c :: r =>
      match radix_digit c base with
      | Some d => scan_radix_go base r (v * base + d) false true
      | None =>
          if (c =? cUS) && us_ok then scan_radix_go base r v true false
          else if need then None else Some (v, s)
      end
  | [] => if need then None else Some (v, [])
  end.

Definition MAXDIGITS : nat := 4300.

(* s starts with a digit, or with "." followed by a digit.  None = not a literal *)
Definition scan_number (s : pystr) : option (pval * pystr) :=
  let radix (base : N) (r : pystr) :=
    match scan_radix_go base r 0 true true with
    | Some (v, rest) => if next_is is_idchar rest then None else Some (PvInt (Z.of_N v), rest)
    | None => None
    end in
  let decimal :=
    (* integer part *)
    let ipr := if next_is (fun c => c =? cDOT) s then Some ([], s) else scan_digitpart s in
    match ipr with
    | None => None
    | Some (ip, s1) =>
        (* fraction *)
        let fr :=
          match s1 with
          | c :: r => if c =? cDOT
                      then (if next_is is_digit r
                            then match scan_digitpart r with Some (fp, s2) => Some (true, fp, s2) | None => None end
                            else Some (true, [], r))
                      else Some (false, [], s1)
          | [] => Some (false, [], s1)
          end in
        match fr with
        | None => None
        | Some (has_dot, fp, s2) =>
            (* exponent *)
            let exr :=
              match s2 with
              | c :: r =>
                  if lower_ascii c =? 101 then
                    let '(neg, r1) := match r with
                                      | x :: r' => if x =? cPLUS then (false, r') else if x =? cMINUS then (true, r') else (false, r)
                                      | [] => (false, r)
                                      end in
                    match scan_digitpart r1 with
                    | Some (ed, s3) => Some (Some (if neg then (- Z.of_N (dvalN ed))%Z else Z.of_N (dvalN ed)), s3)
                    | None => None
                    end
                  else Some (None, s2)
              | [] => Some (None, s2)
              end in
            match exr with
            | None => None
            | Some (ex, s3) =>
                let '(imag, s4) := match s3 with
                                   | c :: r => if lower_ascii c =? 106 then (true, r) else (false, s3)
                                   | [] => (false, s3)
                                   end in
                if next_is is_idchar s4 then None
                else if imag then Some (PvComplex, s4)
                else if negb has_dot && (match ex with None => true | Some _ => false end) then
                  (* decimal integer: leading zeros only when everything is zero; digit limit *)
                  if (hd 0 ip =? 48) && negb (forallb (fun d => d =? 48) ip) then None
                  else if negb (hd 0 ip =? 48) && Nat.ltb MAXDIGITS (List.length ip) then None
                  else Some (PvInt (Z.of_N (dvalN ip)), s4)
                else
                  let k := ((match ex with Some z => z | None => 0%Z end) - Z.of_nat (List.length fp))%Z in
                  Some (PvFloat false (dec_to_double (dvalN (ip ++ fp)) k), s4)
            end
        end
    end in
  match s with
  | 48 :: x :: r =>
      let l := lower_ascii x in
      if l =? 120 then radix 16 r else if l =? 111 then radix 8 r else if l =? 98 then radix 2 r else decimal
  | _ => decimal
  end.

Inductive pkind := PKStr | PKBytes | PKF.
Definition prefix_kind (pre : pystr) : option pkind :=
  match map lower_ascii pre with
  | [] | [117] | [114] => Some PKStr
  | [98] | [98; 114] | [114; 98] => Some PKBytes
  | [102] | [102; 114] | [114; 102] => Some PKF
  | _ => None
  end.

(* the body of a single-quoted string: up to q; a newline or the end first: not a literal *)
Fixpoint scan_sq (q : N) (s : pystr) (acc : pystr) : option (pystr * pystr) :=
  match s with
  | c :: r => if c =? q then Some (rev acc, r) else if c =? cNL then None else scan_sq q r (c :: acc)
  | [] => None
  end.
(* the body of a triple-quoted string: up to the first q q q *)
Fixpoint scan_tq (q : N) (s : pystr) (acc : pystr) : option (pystr * pystr) :=
  match s with
  | c :: r =>
      match r with
      | c2 :: c3 :: r' => if (c =? q) && (c2 =? q) && (c3 =? q) then Some (rev acc, r') else scan_tq q r (c :: acc)
      | _ => None
      end
  | [] => None
  end.
(* s starts with the quote q *)
Definition scan_string (s : pystr) : option (pystr * pystr) :=
  match s with
  | q :: r =>
      match r with
      | c2 :: c3 :: r' => if (c2 =? q) && (c3 =? q) then scan_tq q r' [] else scan_sq q r []
      | _ => scan_sq q r []
      end
  | [] => None
  end.

(* a run of 300 digits / underscores *)
Fixpoint long_digit_run (s : pystr) (run : nat) : bool :=
  match s with
  | c :: r => if is_digit c || (c =? cUS)
              then (if Nat.leb 299 run then true else long_digit_run r (S run))
              else long_digit_run r O
  | [] => false
  end.
(* a "{" and, after it, a "[", a "{" or an "s" (of set()): an unhashable member of a set / key of a dict *)
Fixpoint brace_then_unhashable (s : pystr) (seen : bool) : bool :=
  match s with
  | c :: r => if seen && ((c =? cLB) || (c =? 123) || (c =? 115)) then true
              else brace_then_unhashable r (seen || (c =? 123))
  | [] => false
  end.
(* a TypeError (hashing) or an OverflowError (<huge int> + <complex>) can come out of _convert *)
Definition risky (s : pystr) : bool :=
  brace_then_unhashable s false || (long_digit_run s O && (has_char 106 s || has_char 74 s)).

Fixpoint universal_newlines (s : pystr) : pystr :=
  match s with
  | 13 :: r => cNL :: universal_newlines (match r with 10 :: r' => r' | _ => r end)
  | c :: r => c :: universal_newlines r
  | [] => []
  end.

(* indentation: blanks at the start of a line; a form feed resets the column *)
Fixpoint indent_col (s : pystr) (col : N) : N * pystr :=
  match s with
  | c :: r => if c =? 32 then indent_col r (col + 1)
              else if c =? 9 then indent_col r ((col / 8 + 1) * 8)
              else if c =? 12 then indent_col r 0
              else (col, s)
  | [] => (col, [])
  end.
Fixpoint drop_line (s : pystr) : pystr :=
  match s with
  | c :: r => if c =? cNL then s else drop_line r
  | [] => []
  end.
Definition is_blank3 (c : N) : bool := (c =? 32) || (c =? 9) || (c =? 12).

Inductive tres := TRFail | TRUnsup | TROk (l : list tok).
Definition MAXLEVEL : nat := 200.

Definition kw_of (name : pystr) : option kw :=
  if pystr_eqb name (s2p "None") then Some KNone
  else if pystr_eqb name (s2p "True") then Some KTrue
  else if pystr_eqb name (s2p "False") then Some KFalse
  else if pystr_eqb name (s2p "set") then Some KSet
  else None.
(* a name with a non-ASCII character that NFKC normalisation could turn into `set` *)
Definition maybe_set (name : pystr) : bool :=
  match name with
  | [a; b; c] => ((a =? 115) || (256 <=? a)) && ((b =? 101) || (256 <=? b)) && ((c =? 116) || (256 <=? c))
  | _ => false
  end.
Definition closer_of (c : N) : N := if c =? 41 then 40 else if c =? 93 then 91 else 123.

Fixpoint tok_loop (fuel : nat) (oov : tres) (s : pystr) (level : list N) (bol lht ended : bool) (acc : list tok) : tres :=
  match fuel with
  | O => TRFail
  | S f =>
      let finish := match level with [] => TROk (rev acc) | _ => TRFail end in
      let top := match level with [] => true | _ => false end in
      if bol then
        let '(col, s1) := indent_col s 0 in
        let comment := next_is (fun c => c =? 35) s1 in
        let s2 := if comment then drop_line s1 else s1 in
        match s2 with
        | [] => if negb comment && top && (0 <? col) then TRFail else finish
        | c :: r =>
            if c =? cNL then tok_loop f oov r level true lht ended acc            (* a blank line *)
            else if top && ((0 <? col) || ended) then TRFail
            else tok_loop f oov s2 level false lht ended acc
        end
      else
        let s1 := snd (span is_blank3 s) in
        match s1 with
        | [] => finish
        | c :: r =>
            if c =? 35 then tok_loop f oov (drop_line s1) level false lht ended acc
            else if c =? cNL then
              (if top && lht then tok_loop f oov r level true false true (TNl :: acc)
               else tok_loop f oov r level true lht ended acc)
            else if is_idstart c then
              let '(name, rest) := span is_idchar s1 in
              match (if next_is is_quote rest then prefix_kind name else None) with
              | Some PKF => oov
              | Some k =>
                  match scan_string rest with
                  | None => TRFail
                  | Some (body, rest') =>
                      let isb := match k with PKBytes => true | _ => false end in
                      if isb && existsb (fun x => 128 <=? x) body then TRFail
                      else tok_loop f oov rest' level false true ended (TStr isb body :: acc)
                  end
              | None =>
                  if existsb (fun x => 128 <=? x) name then (if maybe_set name then TRUnsup else oov)
                  else match kw_of name with
                       | Some k => tok_loop f oov rest level false true ended (TName k :: acc)
                       | None => oov
                       end
              end
            else if is_digit c || ((c =? cDOT) && next_is is_digit r) then
              match scan_number s1 with
              | None => TRFail
              | Some (v, rest) => tok_loop f oov rest level false true ended (TNum v :: acc)
              end
            else if c =? cDOT then
              match r with
              | c2 :: c3 :: r' => if (c2 =? cDOT) && (c3 =? cDOT)
                                  then tok_loop f oov r' level false true ended (TEllipsis :: acc) else oov
              | _ => oov
              end
            else if is_quote c then
              match scan_string s1 with
              | None => TRFail
              | Some (body, rest) => tok_loop f oov rest level false true ended (TStr false body :: acc)
              end
            else if (c =? 40) || (c =? cLB) || (c =? 123) then
              if Nat.leb MAXLEVEL (List.length level) then TRFail
              else tok_loop f oov r (c :: level) false true ended (TOp c :: acc)
            else if (c =? 41) || (c =? cRB) || (c =? 125) then
              match level with
              | o :: level' => if o =? closer_of c then tok_loop f oov r level' false true ended (TOp c :: acc) else TRFail
              | [] => TRFail
              end
            else if (c =? 44) || (c =? 58) || (c =? cPLUS) || (c =? cMINUS) then
              tok_loop f oov r level false true ended (TOp c :: acc)
            else if (33 <=? c) && (c <=? 126) then oov             (* a character of another operator *)
            else TRFail                                            (* no token starts with it *)
        end
  end.

Definition tokenize (s0 : pystr) : tres :=
  if existsb (fun c => (c =? 0) || ((55296 <=? c) && (c <=? 57343))) s0 then TRFail
  else
    let s := universal_newlines s0 in
    tok_loop (2 * List.length s + 4) (if risky s0 then TRUnsup else TRFail) s [] true false false [].

(* ------------------------------------------------------------------ *)
(* parser                                                              *)
(* ------------------------------------------------------------------ *)
Inductive node :=
| NConst (v : pval)
| NTuple (l : list node)
| NList (l : list node)
| NSet (l : list node)
| NDict (kvs : list (node * node))
| NSetCall                          (* set() *)
| NNameSet                          (* the name `set` *)
| NBad                              (* a call / subscript: an expression that is no literal *)
| NNeg (n : node)
| NPos (n : node)
| NBin (l r : node)
| NPair (k v : node).               (* key : value inside braces, before the display is classified *)

Inductive smode := MPlain | MPairs | MSlices.

Definition is_op (c : N) (ts : list tok) : bool := match ts with TOp x :: _ => x =? c | _ => false end.
Definition starts_expr (t : tok) : bool :=
  match t with
  | TNum _ | TStr _ _ | TName _ | TEllipsis => true
  | TOp c => (c =? 40) || (c =? cLB) || (c =? 123) || (c =? cPLUS) || (c =? cMINUS)
  | TNl => false
  end.
Definition is_pair (n : node) : bool := match n with NPair _ _ => true | _ => false end.
Definition is_nameset (n : node) : bool := match n with NNameSet => true | _ => false end.

(* adjacent string literals; None: bytes mixed with str *)
Fixpoint collect_strs (isb : bool) (body : pystr) (ts : list tok) : option (pystr * list tok) :=
  match ts with
  | TStr isb' body' :: r => if Bool.eqb isb isb' then collect_strs isb (body ++ body') r else None
  | _ => Some (body, ts)
  end.

Fixpoint p_expr (fuel : nat) (ts : list tok) {struct fuel} : option (node * list tok) :=
  match fuel with
  | O => None
  | S f => match p_factor f ts with
           | Some (n, r) => p_sum_tail f n r
           | None => None
           end
  end
with p_sum_tail (fuel : nat) (n : node) (ts : list tok) {struct fuel} : option (node * list tok) :=
  match fuel with
  | O => None
  | S f => if is_op cPLUS ts || is_op cMINUS ts then
             match p_factor f (tl ts) with
             | Some (n2, r) => p_sum_tail f (NBin n n2) r
             | None => None
             end
           else Some (n, ts)
  end
with p_factor (fuel : nat) (ts : list tok) {struct fuel} : option (node * list tok) :=
  match fuel with
  | O => None
  | S f => if is_op cPLUS ts then
             match p_factor f (tl ts) with Some (n, r) => Some (NPos n, r) | None => None end
           else if is_op cMINUS ts then
             match p_factor f (tl ts) with Some (n, r) => Some (NNeg n, r) | None => None end
           else match p_atom f ts with
                | Some (n, r) => p_trailers f n r
                | None => None
                end
  end
with p_trailers (fuel : nat) (n : node) (ts : list tok) {struct fuel} : option (node * list tok) :=
  match fuel with
  | O => None
  | S f =>
      if is_op 40 ts then
        match p_seq f 41 MPlain [] O (tl ts) with
        | Some (items, _, r) =>
            p_trailers f (if is_nameset n && match items with [] => true | _ => false end then NSetCall else NBad) r
        | None => None
        end
      else if is_op cLB ts then
        match p_seq f cRB MSlices [] O (tl ts) with
        | Some ([], _, _) => None                     (* a[] is a syntax error *)
        | Some (_, _, r) => p_trailers f NBad r
        | None => None
        end
      else Some (n, ts)
  end
with p_atom (fuel : nat) (ts : list tok) {struct fuel} : option (node * list tok) :=
  match fuel with
  | O => None
  | S f =>
      match ts with
      | TNum v :: r => Some (NConst v, r)
      | TEllipsis :: r => Some (NConst (PvOther true), r)
      | TName KSet :: r => Some (NNameSet, r)
      | TName KNone :: r => Some (NConst PvNone, r)
      | TName KTrue :: r => Some (NConst (PvBool true), r)
      | TName KFalse :: r => Some (NConst (PvBool false), r)
      | TStr isb body :: r =>
          match collect_strs isb body r with
          | Some (b, r') => Some (NConst (if isb then PvBytes b else PvStr b), r')
          | None => None
          end
      | TOp c :: r =>
          if c =? 40 then
            match p_seq f 41 MPlain [] O r with
            | Some ([x], O, r') => Some (x, r')           (* parentheses leave no node *)
            | Some (items, _, r') => Some (NTuple items, r')
            | None => None
            end
          else if c =? cLB then
            match p_seq f cRB MPlain [] O r with
            | Some (items, _, r') => Some (NList items, r')
            | None => None
            end
          else if c =? 123 then
            match p_seq f 125 MPairs [] O r with
            | Some (items, _, r') =>
                if forallb is_pair items
                then Some (NDict (map (fun x => match x with NPair k v => (k, v) | _ => (x, x) end) items), r')
                else if existsb is_pair items then None
                else Some (NSet items, r')
            | None => None
            end
          else None
      | _ => None
      end
  end
(* item (',' item)* [','] close | close ;  (items, number of commas, rest) *)
with p_seq (fuel : nat) (close : N) (mode : smode) (items : list node) (commas : nat) (ts : list tok) {struct fuel}
  : option (list node * nat * list tok) :=
  match fuel with
  | O => None
  | S f =>
      if is_op close ts then Some (rev items, commas, tl ts)
      else if Nat.ltb commas (List.length items) then None          (* two items without a comma *)
      else match p_item f mode ts with
           | Some (n, r) => if is_op 44 r then p_seq f close mode (n :: items) (S commas) (tl r)
                            else p_seq f close mode (n :: items) commas r
           | None => None
           end
  end
with p_item (fuel : nat) (mode : smode) (ts : list tok) {struct fuel} : option (node * list tok) :=
  match fuel with
  | O => None
  | S f =>
      match mode with
      | MSlices => p_slice f O O ts
      | MPlain => p_expr f ts
      | MPairs =>
          match p_expr f ts with
          | Some (k, r) => if is_op 58 r then
                             match p_expr f (tl r) with Some (v, r') => Some (NPair k v, r') | None => None end
                           else Some (k, r)
          | None => None
          end
      end
  end
(* [expr] ':' [expr] [':' [expr]] | expr *)
with p_slice (fuel : nat) (parts colons : nat) (ts : list tok) {struct fuel} : option (node * list tok) :=
  match fuel with
  | O => None
  | S f =>
      let fin (parts colons : nat) (r : list tok) :=
        match parts, colons with O, O => None | _, _ => Some (NBad, r) end in
      if is_op 58 ts then (if Nat.leb 2 colons then None else p_slice f parts (S colons) (tl ts))
      else match ts with
           | t :: _ => if starts_expr t then
                         match p_expr f ts with
                         | Some (_, r) => if is_op 58 r then p_slice f (S parts) colons r else fin (S parts) colons r
                         | None => None
                         end
                       else fin parts colons ts
           | [] => fin parts colons ts
           end
  end.

Definition at_line_end (ts : list tok) : bool := match ts with [] | TNl :: _ => true | _ => false end.

Fixpoint p_top (fuel : nat) (pfuel : nat) (items : list node) (commas : nat) (ts : list tok) : option node :=
  match fuel with
  | O => None
  | S f =>
      if at_line_end ts then
        if forallb (fun t => match t with TNl => true | _ => false end) ts then
          match rev items, commas with
          | [], _ => None
          | [x], O => Some x
          | l, _ => Some (NTuple l)
          end
        else None
      else if Nat.ltb commas (List.length items) then None
      else match p_expr pfuel ts with
           | Some (n, r) => if is_op 44 r then p_top f pfuel (n :: items) (S commas) (tl r)
                            else p_top f pfuel (n :: items) commas r
           | None => None
           end
  end.

Definition parse_tokens (ts : list tok) : option node :=
  p_top (S (List.length ts)) (8 * List.length ts + 16) [] O ts.

(* ------------------------------------------------------------------ *)
(* _convert                                                            *)
(* ------------------------------------------------------------------ *)
Inductive cres := COk (v : pval) | CFail | CRaise.

Definition hashable (v : pval) : bool := match v with PvOther h => h | _ => true end.
Definition is_num (v : pval) : bool := match v with PvInt _ | PvFloat _ _ | PvComplex => true | _ => false end.

(* _convert_num *)
Definition convert_num (n : node) : cres :=
  match n with
  | NConst v => if is_num v then COk v else CFail
  | _ => CFail
  end.
Definition neg_val (v : pval) : pval :=
  match v with
  | PvInt z => PvInt (- z)
  | PvFloat s m => PvFloat (negb s) m
  | x => x
  end.
(* _convert_signed_num *)
Definition convert_signed_num (n : node) : cres :=
  match n with
  | NNeg x => match convert_num x with COk v => COk (neg_val v) | r => r end
  | NPos x => convert_num x
  | _ => convert_num n
  end.
(* int + complex converts the int to a float: OverflowError when it rounds to 2^1024 or more *)
Definition int_overflows (z : Z) : bool :=
  match z with
  | Z0 => false
  | _ => fmag_eqb (round_ratio (Z.to_N (Z.abs z)) 1) FInf
  end.

Fixpoint convert (fuel : nat) (n : node) {struct fuel} : cres :=
  match fuel with
  | O => CFail
  | S f =>
      (* the members of a display, left to right; check_hash: a set *)
      let members (check_hash : bool) :=
        fix go (l : list node) (allh : bool) : cres :=
          match l with
          | [] => COk (PvOther allh)
          | x :: r => match convert f x with
                      | COk v => if hashable v then go r allh
                                 else if check_hash then CRaise else go r false
                      | e => e
                      end
          end in
      match n with
      | NConst v => COk v
      | NTuple l => members false l true
      | NList l => match members false l true with COk _ => COk (PvOther false) | e => e end
      | NSet l => match members true l true with COk _ => COk (PvOther false) | e => e end
      | NDict kvs =>
          (fix go (l : list (node * node)) : cres :=
             match l with
             | [] => COk (PvOther false)
             | (k, v) :: r =>
                 match convert f k with
                 | COk kv => match convert f v with
                             | COk _ => if hashable kv then go r else CRaise
                             | e => e
                             end
                 | e => e
                 end
             end) kvs
      | NSetCall => COk (PvOther false)
      | NBin l r =>
          match convert_signed_num l with
          | COk lv =>
              match convert_num r with
              | COk rv =>
                  match lv, rv with
                  | PvInt z, PvComplex => if int_overflows z then CRaise else COk PvComplex
                  | PvFloat _ _, PvComplex => COk PvComplex
                  | _, _ => CFail
                  end
              | e => e
              end
          | e => e
          end
      | NNeg _ | NPos _ => convert_signed_num n
      | NNameSet | NBad | NPair _ _ => CFail
      end
  end.

Fixpoint node_depth (n : node) : nat :=
  match n with
  | NTuple l | NList l | NSet l => S (fold_right (fun x m => Nat.max (node_depth x) m) O l)
  | NDict kvs => S (fold_right (fun kv m => Nat.max (Nat.max (node_depth (fst kv)) (node_depth (snd kv))) m) O kvs)
  | NNeg x | NPos x => S (node_depth x)
  | NBin l r | NPair l r => S (Nat.max (node_depth l) (node_depth r))
  | _ => 1%nat
  end.

(* ast.literal_eval(e) *)
Definition full_eval (e : pystr) : lxres :=
  let s := snd (span is_blank e) in               (* node_or_string.lstrip(" \t") *)
  match tokenize s with
  | TRFail => LxFail
  | TRUnsup => LxUnsup
  | TROk ts =>
      match parse_tokens ts with
      | None => LxFail
      | Some n =>
          match convert (S (node_depth n)) n with
          | COk PvComplex => LxOk (PvOther true)
          | COk v => LxOk v
          | CFail => LxFail
          | CRaise => LxRaise
          end
      end
  end.

(** Correspondence-side renderings for C09 (no theorem depends on this file). *)
From Coq Require Import List ZArith NArith Bool String.
Import ListNotations.
From DD Require Import Base.Sx Base.PyStr Base.Value Path.PathModel.
Local Open Scope string_scope.

Definition sx_action (a : action) : sx := SA (match a with GET => "G" | GETATTR => "A" end).
Definition sx_element (e : element) : sx := SL [sx_atom (fst e); sx_action (snd e)].
Definition sx_elements (l : list element) : sx := SL (map sx_element l).

(* everything C09 observes for one reported location:
   rendered path, parse_path, _path_to_elements(root_element=None), extract,
   stringify_path in both readings, the tree view's list-form path *)
Definition c09_case (ks : path) (obj : value) : sx :=
  let p := render ks in
  match elements p with
  | None => SA "UNSUP"
  | Some els =>
      SL [ sx_str p;
           sx_opt sx_path (parse p);
           sx_elements els;
           sx_opt sx_value (extract obj p);
           sx_str (stringify_els els);
           sx_str (stringify_keys GET (match parse p with Some q => q | None => [] end));
           sx_path (norm ks) ]
  end.

(* a literal_eval input outside the modelled sub-language: nothing to compare *)
Definition c09_case_or (ks : path) (obj : value) (expected : sx) : sx :=
  match elements (render ks) with
  | None => expected
  | Some _ => c09_case ks obj
  end.

(* the parser / extractor on an arbitrary path string *)
Definition c09_parse_case (p : pystr) (obj : value) : sx :=
  match elements p with
  | None => SA "UNSUP"
  | Some els => SL [ sx_elements els; sx_opt sx_value (extract obj p); sx_str (stringify_els els) ]
  end.
Definition c09_parse_case_or (p : pystr) (obj : value) (expected : sx) : sx :=
  match elements p with
  | None => expected
  | Some _ => c09_parse_case p obj
  end.

(* how many of the given paths / strings leave the modelled sub-language *)
Definition count_unsup_paths (l : list path) : nat :=
  List.length (filter (fun ks => match elements (render ks) with None => true | Some _ => false end) l).
Definition count_unsup_strs (l : list pystr) : nat :=
  List.length (filter (fun p => match elements p with None => true | Some _ => false end) l).
Definition show_count (n : nat) : string := "BEGIN" ++ nl ++ show_nat n ++ nl ++ "END".

(* extract on a value through the path string the model renders *)
Definition c09_extract_case (obj : value) (ks : path) : sx :=
  SL [ sx_str (render ks); sx_opt sx_value (extract obj (render ks)); sx_opt sx_value (resolve obj ks) ].

(* several reported locations of one diff: for each the rendered path, the list-form
   path (asked twice) and the list-form paths of its ancestor levels, nearest first *)
Definition c09_multi (locs : list path) : sx :=
  SL (map (fun ks =>
        let n := norm ks in
        SL [ sx_str (render ks); sx_path n; sx_path n;
             SL (map (fun k => sx_path (firstn k n)) (rev (seq 0 (List.length n)))) ]) locs).

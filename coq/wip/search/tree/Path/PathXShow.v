(** Correspondence-side renderings for the extended printer / parser (no theorem depends on this file). *)
From Coq Require Import List ZArith NArith Bool String.
Import ListNotations.
From DD Require Import Base.Sx Base.PyStr Base.Value Path.PathModel Path.PathShow Path.PathLit Path.PathLitShow Path.PathXModel.
Local Open Scope string_scope.

Definition sx_xel (e : xelement) : sx := SL [sx_pval (fst e); sx_action (snd e)].
Definition sx_xout (r : xout (list xelement)) : sx :=
  match r with
  | XDone els => SL [SA "ok"; SL (map sx_xel els)]
  | XRaises => SA "RAISES"
  | XUnsup => SA "UNSUP"
  end.
(* _path_to_elements(p, root_element=None) on any string, and stringify_path of the result *)
Definition c09_xparse (p : pystr) : sx :=
  match elementsx p with
  | XDone els => SL [SA "ok"; SL (map sx_xel els); sx_opt sx_str (stringify_xels els)]
  | XRaises => SA "RAISES"
  | XUnsup => SA "UNSUP"
  end.
Definition c09_xparse_or (p : pystr) (expected : sx) : sx :=
  match elementsx p with XUnsup => expected | _ => c09_xparse p end.
Definition count_xunsup (l : list pystr) : nat :=
  List.length (filter (fun p => match elementsx p with XUnsup => true | _ => false end) l).

(* a location through keys of every kind: the reported path (or None / RAISES), what the parser makes
   of it, stringify_path of that *)
Definition c09_xcase (ks : list xkey) : sx :=
  match renderx ks with
  | None => SA "RAISES"
  | Some None => SA "None"
  | Some (Some p) => SL [sx_str p; c09_xparse p]
  end.
(* ... with the decidable guard of the theorems *)
Definition c09_xcase_g (ks : list xkey) : sx := SL [sx_bool (xpath_ok ks); c09_xcase ks].
(* the guard of the theorems, for the evidence file *)
Definition count_xpath_ok (l : list (list xkey)) : nat := List.length (filter xpath_ok l).

(* literal_eval as _add_to_elements sees it (hand model first, total model for the rest) *)
Definition c09_leval_or (e : pystr) (expected : sx) : sx :=
  match leval e with LxUnsup => expected | r => sx_lxres r end.

(* the hand model of the reachable sub-language agrees with the total one wherever it answers *)
Definition c09_lit_agree (e : pystr) : sx :=
  if huge_dec_literal e then SA "agree" else     (* the hand model has no digit limit: leval does not consult it there *)
  match literal_eval e, full_eval e with
  | LUnsup, _ => SA "agree"
  | _, LxUnsup => SA "agree"
  | LOk a, r => if sx_eqb (sx_lxres r) (sx_lxres (LxOk (pval_of_atom a))) then SA "agree" else SL [SA "old-ok"; sx_atom a; sx_lxres r]
  | LFail, LxFail => SA "agree"
  | LFail, r => SL [SA "old-fail"; sx_lxres r]
  end.


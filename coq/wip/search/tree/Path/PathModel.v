(** C09 - model of deepdiff's path printer and path parser.  Definitions only.

    Printer  (deepdiff/model.py  DiffLevel.path, ChildRelationship.get_param_repr /
              stringify_param; deepdiff/path.py stringify_element, stringify_path)
    Parser   (deepdiff/path.py  _path_to_elements: the character automaton with its
              state variables, _add_to_elements with ast.literal_eval, parse_path,
              _get_nested_obj, extract)

    [pkey] / [path] come from Base/Value.v:  PKey a = dict subscript by atom a,
    PIdx i = sequence index i.  Python prints the int key 1 and the index 1
    identically (root[1]) and the parser returns the int 1 for both; [norm]
    is that identification.

    ast.literal_eval is modelled on the sub-language that rendered paths (also
    the defective ones) reach: optionally prefixed quoted strings, signed
    decimal ints and point floats with underscores, None/True/False, with
    Python's rules for surrounding white space.  Inputs outside of it give
    [LUnsup] and make [elements]/[parse] return None ("outside the model"). *)
From Coq Require Import List ZArith NArith Bool String.
Import ListNotations.
From DD Require Import Base.Sx Base.PyStr Base.Value.
Local Open Scope N_scope.

(* ------------------------------------------------------------------ *)
(* characters                                                          *)
(* ------------------------------------------------------------------ *)
Definition cSQ : N := 39.      (* single quote *)
Definition cDQ : N := 34.      (* double quote *)
Definition cLB : N := 91.      (* [ *)
Definition cRB : N := 93.      (* ] *)
Definition cDOT : N := 46.
Definition cBS : N := 92.      (* backslash *)
Definition cUS : N := 95.      (* _ *)
Definition cMINUS : N := 45.
Definition cPLUS : N := 43.
Definition cNL : N := 10.
Definition cESC : N := 119232. (* U+1D1C0, the private escape character of path.py *)

Definition is_quote (c : N) : bool := (c =? cSQ) || (c =? cDQ).
Definition is_digit (c : N) : bool := (48 <=? c) && (c <=? 57).
Definition is_ws (c : N) : bool := (c =? 32) || (c =? 9) || (c =? cNL).
Definition is_blank (c : N) : bool := (c =? 32) || (c =? 9).

(* ------------------------------------------------------------------ *)
(* printer                                                             *)
(* ------------------------------------------------------------------ *)

(* quote_str: None or a format "<a>{}<b>" *)
Definition quote_fmt := option (pystr * pystr).
Definition QS : quote_fmt := Some ([cSQ], [cSQ]).      (* "'{}'" *)

(* path.py stringify_element *)
Definition stringify_element (param : pystr) (qs : quote_fmt) : pystr :=
  let has_quote := has_char cSQ param in
  let has_double_quote := has_char cDQ param in
  if has_quote && has_double_quote && (match qs with None => true | Some _ => false end) then
    cDQ :: flat_map (fun c => if is_quote c then [cESC; c] else [c]) param ++ [cDQ]
  else if has_quote then cDQ :: param ++ [cDQ]
  else if has_double_quote then cSQ :: param ++ [cSQ]
  else match qs with
       | None => param
       | Some (a, b) => a ++ param ++ b
       end.

(* repr of the float twice/2 (no exponent form: |twice/2| < 1e16) *)
Definition repr_half (t : Z) : pystr :=
  let a := Z.abs t in
  (if Z.ltb t 0 then [cMINUS] else []) ++ p_of_Z (Z.div a 2) ++ [cDOT; if Z.even a then 48 else 53].

(* repr(param) for the non-string atoms (str keys go through stringify_element).
   bytes keys take the repr branch of stringify_param since /repo commit 0fac13b
   (before it `"'" in param` raised TypeError for them). *)
(* repr of a bytes object *)
Definition hex_digit (n : N) : N := if n <? 10 then 48 + n else 87 + n.
Definition repr_bytes (s : pystr) : pystr :=
  let q := if has_char cSQ s && negb (has_char cDQ s) then cDQ else cSQ in
  [98; q] ++ flat_map (fun c =>
     if (c =? q) || (c =? cBS) then [cBS; c]
     else if c =? 9 then [cBS; 116] else if c =? 10 then [cBS; 110] else if c =? 13 then [cBS; 114]
     else if (c <? 32) || (127 <=? c) then [cBS; 120; hex_digit (c / 16); hex_digit (c mod 16)]
     else [c]) s ++ [q].

Definition repr_atom (a : atom) : pystr :=
  match a with
  | ANone => s2p "None"
  | ABool true => s2p "True"
  | ABool false => s2p "False"
  | AInt z => p_of_Z z
  | AHalf t => repr_half t
  | AStr s => s
  | ABytes s => repr_bytes s
  end.
(* every atom has a path text (kept for the importing blocks; was false on bytes
   before /repo commit 0fac13b) *)
Definition atom_renders (a : atom) : bool := true.

(* ChildRelationship.stringify_param for DictRelationship /
   SubscriptableIterableRelationship (quote_str "'{}'"), before param_repr_format *)
Definition stringify_param (a : atom) : pystr :=
  match a with
  | AStr s => stringify_element s QS
  | _ => repr_atom a
  end.

Definition key_atom (k : pkey) : atom :=
  match k with
  | PKey a => a
  | PIdx i => AInt (Z.of_nat i)
  end.

(* get_param_repr: param_repr_format "[{}]" *)
Definition render_key (k : pkey) : pystr := [cLB] ++ stringify_param (key_atom k) ++ [cRB].

Definition root_str : pystr := s2p "root".

(* DiffLevel.path(): "root" followed by one element per level *)
Definition render (ks : path) : pystr := root_str ++ flat_map render_key ks.
Definition renders (ks : path) : bool := forallb (fun k => atom_renders (key_atom k)) ks.

(* the key sequence as the parser can give it back *)
Definition norm (ks : path) : path := map (fun k => PKey (key_atom k)) ks.

(* ------------------------------------------------------------------ *)
(* ast.literal_eval on the reachable sub-language                      *)
(* ------------------------------------------------------------------ *)
Inductive lit := LOk (a : atom) | LFail | LUnsup.

Fixpoint span {A} (p : A -> bool) (l : list A) : list A * list A :=
  match l with
  | [] => ([], [])
  | x :: r => if p x then let (a, b) := span p r in (x :: a, b) else ([], l)
  end.
(* (core, maximal suffix satisfying p) *)
Definition rspan {A} (p : A -> bool) (l : list A) : list A * list A :=
  let (a, b) := span p (rev l) in (rev b, rev a).

(* leading / trailing white space run accepted by literal_eval + the tokenizer:
   no line break, or ending in one (otherwise "unexpected indent") *)
Definition ws_ok (w : pystr) : bool := negb (has_char cNL w) || (last w 0 =? cNL).

(* digit (_? digit)*  ->  value *)
Fixpoint digitpart_go (l : pystr) (prev_us : bool) (acc : N) : option N :=
  match l with
  | [] => if prev_us then None else Some acc
  | c :: r =>
      if is_digit c then digitpart_go r false (acc * 10 + (c - 48))
      else if c =? cUS then (if prev_us then None else digitpart_go r true acc)
      else None
  end.
Definition digitpart (l : pystr) : option N :=
  match l with
  | c :: r => if is_digit c then digitpart_go r false (c - 48) else None
  | [] => None
  end.

(* fraction digits: Some false = .0, Some true = .5, None = not a half-integer *)
Definition frac_class (fp : pystr) : option bool :=
  match filter (fun c => negb (c =? cUS)) fp with
  | [] => Some false
  | d :: r =>
      if forallb (fun c => c =? 48) r then
        (if d =? 48 then Some false else if d =? 53 then Some true else None)
      else None
  end.

(* decimal integer / point float without exponent (magnitude) *)
Definition lex_number (body : pystr) : lit :=
  let (ip, rest) := span (fun c => negb (c =? cDOT)) body in
  match rest with
  | [] =>
      match digitpart ip with
      | Some v =>
          if negb (hd 0 ip =? 48) || forallb (fun c => (c =? 48) || (c =? cUS)) ip
          then LOk (AInt (Z.of_N v)) else LFail
      | None => LFail
      end
  | _ :: fp =>
      if has_char cDOT fp then LFail else
      match ip, fp with
      | [], [] => LFail
      | _, _ =>
          let ipv := match ip with [] => Some 0 | _ => digitpart ip end in
          let fpok := match fp with [] => true | _ => match digitpart fp with Some _ => true | None => false end end in
          match ipv with
          | None => LFail
          | Some v =>
              if negb fpok then LFail else
              match frac_class fp with
              | None => LUnsup
              | Some h => if v <? 4503599627370496 (* 2^52 *)
                          then LOk (AHalf (Z.of_N (2 * v + (if h then 1 else 0)))) else LUnsup
              end
          end
      end
  end.

Definition lit_neg (l : lit) : lit :=
  match l with
  | LOk (AInt z) => LOk (AInt (- z))
  | LOk (AHalf t) => if Z.eqb t 0 then LUnsup (* -0.0 is not an atom *) else LOk (AHalf (- t))
  | x => x
  end.

(* characters that can make an unquoted text a Python literal outside the model:
   ( { # , and the line separators \r \f *)
Definition exotic (c : N) : bool :=
  (c =? 40) || (c =? 123) || (c =? 35) || (c =? 44) || (c =? 13) || (c =? 12).
Definition exotic_pre (c : N) : bool := (c =? 35) || (c =? 44) || (c =? 13) || (c =? 12).
(* e E j J anywhere; x X o O b B right after a leading 0 *)
Definition is_expo (c : N) : bool := (c =? 101) || (c =? 69) || (c =? 106) || (c =? 74).
Definition is_radix (c : N) : bool :=
  (c =? 120) || (c =? 88) || (c =? 111) || (c =? 79) || (c =? 98) || (c =? 66).

Definition number_eval (core : pystr) : lit :=
  let '(neg, body) :=
    match core with
    | c :: r => if c =? cMINUS then (true, snd (span is_blank r))
                else if c =? cPLUS then (false, snd (span is_blank r))
                else (false, core)
    | [] => (false, core)
    end in
  match body with
  | c :: r =>
      if is_digit c || (c =? cDOT) then
        if forallb (fun c => is_digit c || (c =? cUS) || (c =? cDOT)) body
        then (if neg then lit_neg (lex_number body) else lex_number body)
        else if existsb is_expo body
                || ((c =? 48) && match r with d :: _ => is_radix d | [] => false end)
        then LUnsup else LFail
      else LFail
  | [] => LFail
  end.

Inductive prefix_kind := PStr | PBytes | PFail | PUnsup.
Definition lower_ascii (c : N) : N := if (65 <=? c) && (c <=? 90) then c + 32 else c.
Definition prefix_kind_of (pre : pystr) : prefix_kind :=
  if existsb exotic_pre pre then PUnsup else
  match map lower_ascii pre with
  | [] => PStr
  | [114] | [117] => PStr                         (* r u *)
  | [98] | [98; 114] | [114; 98] => PBytes        (* b br rb *)
  | _ => PFail                                    (* f-strings: ValueError; anything else: SyntaxError *)
  end.

Definition quoted_eval (core : pystr) : lit :=
  let (pre, rest) := span (fun c => negb (is_quote c)) core in
  match rest with
  | q :: r =>
      match rev r with
      | q' :: rbody =>
          let body := rev rbody in
          if q' =? q then
            if has_char q body then LUnsup else
            match prefix_kind_of pre with
            | PStr => if existsb (fun c => (c =? cNL) || (c =? 13) || (c =? 0)) body then LFail
                      else LOk (AStr body)
            | PBytes => if existsb (fun c => (c =? cNL) || (c =? 13) || (c =? 0)) body then LFail
                        else if forallb (fun c => c <? 128) body then LOk (ABytes body) else LFail
            | PFail => LFail
            | PUnsup => LUnsup
            end
          else if existsb exotic_pre pre then LUnsup else LFail
      | [] => if existsb exotic_pre pre then LUnsup else LFail
      end
  | [] => LFail
  end.

Definition core_eval (core : pystr) : lit :=
  if existsb is_quote core then quoted_eval core
  else if pystr_eqb core (s2p "None") then LOk ANone
  else if pystr_eqb core (s2p "True") then LOk (ABool true)
  else if pystr_eqb core (s2p "False") then LOk (ABool false)
  else if pystr_eqb core (s2p "...") then LUnsup
  else if existsb exotic core || (has_char cLB core && has_char cRB core) then LUnsup
  else number_eval core.

Definition literal_eval (e : pystr) : lit :=
  let (pre, r1) := span is_ws e in
  let (core, suf) := rspan is_ws r1 in
  match core with
  | [] => LFail
  | _ => if ws_ok pre && ws_ok suf then core_eval core
         else if existsb exotic core then LUnsup else LFail
  end.

(* ------------------------------------------------------------------ *)
(* parser                                                              *)
(* ------------------------------------------------------------------ *)
Inductive action := GET | GETATTR.
Definition action_eqb (a b : action) : bool :=
  match a, b with GET, GET | GETATTR, GETATTR => true | _, _ => false end.
Inductive ins := INone | IBr | IDot.      (* inside = False | '[' | '.' *)
Definition element := (atom * action)%type.

(* elem[1:-1] when elem[0] == elem[-1] is a quote *)
Definition strip_outer (e : pystr) : pystr :=
  match e with
  | [] => []
  | c :: r => if is_quote c && (last e 0 =? c) then removelast r else e
  end.

(* path.py _add_to_elements; None = literal_eval left the modelled sub-language *)
Definition add_to_elements (els : list element) (elem : pystr) (inside : ins) : option (list element) :=
  match elem with
  | [] => Some els
  | _ =>
      if is_prefix [cUS; cUS] elem then Some els else
      let act := match inside with IDot => GETATTR | _ => GET end in
      if has_char cESC elem || has_char cBS elem
      then Some (els ++ [(AStr (strip_outer elem), act)])
      else match literal_eval elem with
           | LOk a => Some (els ++ [(a, act)])
           | LFail => Some (els ++ [(AStr (strip_outer elem), act)])
           | LUnsup => None
           end
  end.

Record pst := mk_pst {
  p_els : list element;       (* elements *)
  p_elem : pystr;             (* elem *)
  p_inside : ins;             (* inside *)
  p_prev : option N;          (* prev_char *)
  p_br : nat;                 (* len(brackets) *)
  p_inq : bool;               (* inside_quotes *)
  p_quote : option N;         (* quote_used ('' = None) *)
  p_bad : bool                (* some literal_eval left the modelled sub-language *)
}.

Definition opt_is (o : option N) (c : N) : bool :=
  match o with Some x => x =? c | None => false end.

Definition with_add (els : list element) (elem : pystr) (inside : ins) (bad : bool) : list element * bool :=
  match add_to_elements els elem inside with
  | Some els' => (els', bad)
  | None => (els, true)
  end.

(* one iteration of the loop "for char in path" *)
Definition step (st : pst) (c : N) : pst :=
  let '(mk_pst els elem inside prev br inq quote bad) := st in
  let pc := Some c in
  if opt_is prev cESC then mk_pst els (elem ++ [c]) inside pc br inq quote bad
  else if is_quote c then
    let elem1 := elem ++ [c] in
    if inq && negb (opt_is quote c) then mk_pst els elem1 inside pc br inq quote bad
    else if negb inq then mk_pst els elem1 inside pc br true (Some c) bad
    else let '(els', bad') := with_add els elem1 inside bad in
         mk_pst els' [] inside pc br false None bad'
  else if inq then mk_pst els (elem ++ [c]) inside pc br inq quote bad
  else if c =? cLB then
    match inside with
    | IDot => let '(els', bad') := with_add els elem inside bad in
              mk_pst els' [] IBr pc br inq quote bad'
    | IBr => mk_pst els (elem ++ [c]) inside pc br inq quote bad
    | INone => mk_pst els [] IBr pc (S br) inq quote bad
    end
  else if c =? cDOT then
    match inside with
    | IBr => mk_pst els (elem ++ [c]) inside pc br inq quote bad
    | IDot => let '(els', bad') := with_add els elem inside bad in
              mk_pst els' [] inside pc br inq quote bad'
    | INone => mk_pst els [] IDot pc br inq quote bad
    end
  else if c =? cRB then
    match Nat.pred br with
    | S b => mk_pst els (elem ++ [c]) inside pc (S b) inq quote bad
    | O => let '(els', bad') := with_add els elem inside bad in
           mk_pst els' [] INone pc O inq quote bad'
    end
  else mk_pst els (elem ++ [c]) inside pc br inq quote bad.

Definition init_pst : pst := mk_pst [] [] INone None O false None false.
Definition run (st : pst) (s : pystr) : pst := fold_left step s st.

Definition finish (st : pst) : option (list element) :=
  let '(els, bad) := with_add (p_els st) (p_elem st) (p_inside st) (p_bad st) in
  if bad then None else Some els.

(* _path_to_elements(path, root_element=None) *)
Definition elements (p : pystr) : option (list element) := finish (run init_pst (skipn 4 p)).

(* parse_path(path) (include_actions=False): the elements without their actions *)
Definition parse (p : pystr) : option path :=
  option_map (map (fun e : element => PKey (fst e))) (elements p).

(* ------------------------------------------------------------------ *)
(* extraction                                                          *)
(* ------------------------------------------------------------------ *)
Definition seq_index {A} (xs : list A) (z : Z) : option A :=
  let n := Z.of_nat (List.length xs) in
  let i := if Z.ltb z 0 then (z + n)%Z else z in
  if Z.ltb i 0 || Z.leb n i then None else nth_error xs (Z.to_nat i).

Definition int_of_atom (a : atom) : option Z :=
  match a with
  | AInt z => Some z
  | ABool b => Some (if b then 1 else 0)%Z
  | _ => None
  end.

(* obj[elem] *)
Definition get_item (v : value) (a : atom) : option value :=
  match v with
  | VDict kvs => assoc a kvs
  | VList xs | VTuple xs =>
      match int_of_atom a with Some z => seq_index xs z | None => None end
  | VAtom (AStr s) =>
      match int_of_atom a with
      | Some z => option_map (fun c => VAtom (AStr [c])) (seq_index s z)
      | None => None
      end
  | VAtom (ABytes s) =>
      match int_of_atom a with
      | Some z => option_map (fun c => VAtom (AInt (Z.of_N c))) (seq_index s z)
      | None => None
      end
  | _ => None
  end.

(* _get_nested_obj on key sequences (every action GET) *)
Fixpoint resolve (v : value) (ks : path) : option value :=
  match ks with
  | [] => Some v
  | k :: r => match get_item v (key_atom k) with
              | Some v' => resolve v' r
              | None => None
              end
  end.

(* _get_nested_obj on elements: the universe has no objects with attributes,
   so a GETATTR step raises *)
Fixpoint resolve_els (v : value) (els : list element) : option value :=
  match els with
  | [] => Some v
  | (a, GET) :: r => match get_item v a with
                     | Some v' => resolve_els v' r
                     | None => None
                     end
  | (_, GETATTR) :: _ => None
  end.

(* deepdiff.extract(obj, path); None = raises (or outside the model) *)
Definition extract (v : value) (p : pystr) : option value :=
  match elements p with
  | Some els => resolve_els v els
  | None => None
  end.

(* the nested container that has exactly the location ks, holding v *)
Fixpoint nest (ks : path) (v : value) : value :=
  match ks with
  | [] => v
  | PKey a :: r => VDict [(a, nest r v)]
  | PIdx i :: r => VList (repeat (VAtom ANone) i ++ [nest r v])
  end.

(* ------------------------------------------------------------------ *)
(* stringify_path                                                      *)
(* ------------------------------------------------------------------ *)
(* f"{element}" *)
Definition str_atom (a : atom) : pystr := repr_atom a.

Definition stringify_el (qs : quote_fmt) (e : element) : pystr :=
  let '(a, act) := e in
  let txt := match a, act with
             | AStr s, GET => stringify_element s qs
             | _, _ => str_atom a
             end in
  match act with
  | GET => [cLB] ++ txt ++ [cRB]
  | GETATTR => cDOT :: txt
  end.

(* stringify_path(path_with_actions) - default root_element, quote_str "'{}'" *)
Definition stringify_els (els : list element) : pystr :=
  root_str ++ flat_map (stringify_el QS) els.

(* stringify_path(keys, root_element=('root', first)) - keys without actions:
   every action GET except the first, which is root_element[1] *)
Definition stringify_keys (first : action) (ks : path) : pystr :=
  stringify_els (match map (fun k => (key_atom k, GET)) ks with
                 | [] => []
                 | (a, _) :: r => (a, first) :: r
                 end).

(* ------------------------------------------------------------------ *)
(* the guard of the round-trip theorems                                *)
(* ------------------------------------------------------------------ *)
Definition str_ok (s : pystr) : bool :=
  negb (has_char cSQ s && has_char cDQ s) && negb (last s 0 =? cESC).
(* bytes keys (outside C09's quantifier; printed since /repo commit 0fac13b):
   printable ASCII without backslash, not both quote characters - exactly when
   repr needs no escape *)
Definition bytes_ok (s : pystr) : bool :=
  forallb (fun c => (32 <=? c) && (c <=? 126) && negb (c =? cBS)) s
  && negb (has_char cSQ s && has_char cDQ s).
Definition key_ok (k : pkey) : bool :=
  match k with
  | PIdx _ => true
  | PKey ANone | PKey (ABool _) | PKey (AInt _) => true
  | PKey (AHalf t) => Z.ltb (Z.abs t) 9007199254740992   (* 2^53: exact doubles, repr without exponent *)
  | PKey (AStr s) => str_ok s
  | PKey (ABytes s) => bytes_ok s
  end.
Definition path_ok (ks : path) : bool := forallb key_ok ks.

(** C09 - the automaton of _path_to_elements run over the printer's output:
    one lemma per kind of key ([key_step]), then the round-trip theorems. *)
From Coq Require Import List ZArith NArith Bool String Lia ZifyBool.
Import ListNotations.
From DD Require Import Base.Sx Base.PyStr Base.Value Path.PathModel Path.PathLex.
Local Open Scope N_scope.

(* ------------------------------------------------------------------ *)
(* running the automaton                                               *)
(* ------------------------------------------------------------------ *)
Lemma run_app (st : pst) (a b : pystr) : run st (a ++ b) = run (run st a) b.
Proof. apply fold_left_app. Qed.
Lemma run_cons (st : pst) (c : N) (s : pystr) : run st (c :: s) = run (step st c) s.
Proof. reflexivity. Qed.
Lemma run_nil (st : pst) : run st [] = st.
Proof. reflexivity. Qed.

(* prev_char after reading s *)
Definition lastc (prev : option N) (s : pystr) : option N := fold_left (fun _ c => Some c) s prev.

Lemma lastc_not (x : N) (s : pystr) : forall prev,
  opt_is prev x = false -> forallb (fun c => negb (c =? x)) s = true -> opt_is (lastc prev s) x = false.
Proof.
  induction s as [|c r IH]; intros prev Hp H; [exact Hp|].
  cbn in H. apply andb_true_iff in H. destruct H as [Hc Hr].
  cbn [lastc fold_left]. apply (IH (Some c)); [|exact Hr]. cbn. now apply negb_true_iff in Hc.
Qed.

Lemma lastc_snoc (prev : option N) (s : pystr) (c : N) : lastc prev (s ++ [c]) = Some c.
Proof. unfold lastc. rewrite fold_left_app. reflexivity. Qed.

Lemma lastc_last (s : pystr) : forall prev x,
  opt_is (lastc prev s) x = match s with [] => opt_is prev x | _ => (last s 0 =? x) end.
Proof.
  induction s as [|c r IH]; intros prev x; [reflexivity|].
  cbn [lastc fold_left]. fold (lastc (Some c) r). rewrite IH.
  destruct r; reflexivity.
Qed.

(* the state between two path elements *)
Definition clean (els : list element) (prev : option N) : pst :=
  mk_pst els [] INone prev O false None false.

Lemma step_open (els : list element) (prev : option N) :
  opt_is prev cESC = false ->
  step (clean els prev) cLB = mk_pst els [] IBr (Some cLB) 1 false None false.
Proof. intros H. unfold step, clean. rewrite H. reflexivity. Qed.

(* inside quotes every character other than the delimiter is appended *)
Lemma step_in_quotes els elem prev br q bad c :
  (c =? q) = false ->
  step (mk_pst els elem IBr prev br true (Some q) bad) c
  = mk_pst els (elem ++ [c]) IBr (Some c) br true (Some q) bad.
Proof.
  intros Hc. unfold step.
  destruct (opt_is prev cESC); [reflexivity|].
  destruct (is_quote c); [|reflexivity].
  cbn [opt_is andb]. rewrite (N.eqb_sym q c), Hc. reflexivity.
Qed.

Lemma run_in_quotes els br q bad (s : pystr) : forall elem prev,
  has_char q s = false ->
  run (mk_pst els elem IBr prev br true (Some q) bad) s
  = mk_pst els (elem ++ s) IBr (lastc prev s) br true (Some q) bad.
Proof.
  induction s as [|c r IH]; intros elem prev H.
  - rewrite app_nil_r. reflexivity.
  - unfold has_char in H. cbn [existsb] in H. apply orb_false_iff in H. destruct H as [Hc Hr].
    rewrite run_cons, step_in_quotes by (now rewrite N.eqb_sym).
    rewrite (IH _ _ Hr). rewrite <- app_assoc. reflexivity.
Qed.

Lemma step_open_quote els elem prev br bad q :
  opt_is prev cESC = false -> is_quote q = true ->
  step (mk_pst els elem IBr prev br false None bad) q
  = mk_pst els (elem ++ [q]) IBr (Some q) br true (Some q) bad.
Proof. intros Hp Hq. unfold step. rewrite Hp, Hq. reflexivity. Qed.

Lemma step_close_quote els elem prev br bad q :
  opt_is prev cESC = false -> is_quote q = true ->
  step (mk_pst els elem IBr prev br true (Some q) bad) q
  = let '(els', bad') := with_add els (elem ++ [q]) IBr bad in
    mk_pst els' [] IBr (Some q) br false None bad'.
Proof.
  intros Hp Hq. unfold step. rewrite Hp, Hq. cbn [opt_is andb negb]. rewrite N.eqb_refl. reflexivity.
Qed.

Lemma step_close_bracket els elem prev bad :
  opt_is prev cESC = false ->
  step (mk_pst els elem IBr prev 1 false None bad) cRB
  = let '(els', bad') := with_add els elem IBr bad in
    mk_pst els' [] INone (Some cRB) O false None bad'.
Proof. intros Hp. unfold step. rewrite Hp. reflexivity. Qed.

(* outside quotes, inside a bracket: plain characters (and the dot) are appended *)
Lemma step_plain els elem prev br bad c :
  plainch c = true ->
  step (mk_pst els elem IBr prev br false None bad) c
  = mk_pst els (elem ++ [c]) IBr (Some c) br false None bad.
Proof.
  intros Hc. unfold plainch in Hc. apply negb_true_iff in Hc.
  apply orb_false_iff in Hc. destruct Hc as [Hc _].
  apply orb_false_iff in Hc. destruct Hc as [Hc _].
  apply orb_false_iff in Hc. destruct Hc as [Hq Hrb].
  unfold step. rewrite Hq, Hrb.
  destruct (opt_is prev cESC); [reflexivity|].
  destruct (c =? cLB); [reflexivity|]. destruct (c =? cDOT); reflexivity.
Qed.

Lemma run_plain els br bad (s : pystr) : forall elem prev,
  forallb plainch s = true ->
  run (mk_pst els elem IBr prev br false None bad) s
  = mk_pst els (elem ++ s) IBr (lastc prev s) br false None bad.
Proof.
  induction s as [|c r IH]; intros elem prev H.
  - rewrite app_nil_r. reflexivity.
  - cbn [forallb] in H. apply andb_true_iff in H. destruct H as [Hc Hr].
    rewrite run_cons, step_plain by exact Hc. rewrite (IH _ _ Hr), <- app_assoc. reflexivity.
Qed.

(* ------------------------------------------------------------------ *)
(* one key                                                             *)
(* ------------------------------------------------------------------ *)
Lemma str_ok_last (s : pystr) (q : N) :
  is_quote q = true -> (last s 0 =? cESC) = false -> opt_is (lastc (Some q) s) cESC = false.
Proof.
  intros Hq Hl. rewrite lastc_last. destruct s; [|exact Hl].
  cbn. unfold is_quote, cSQ, cDQ, cESC in *. lia.
Qed.

(* the automaton over "[" q s q "]" *)
Lemma quoted_key_step (els : list element) (prev : option N) (q : N) (s : pystr) :
  opt_is prev cESC = false -> is_quote q = true -> has_char q s = false ->
  (last s 0 =? cESC) = false ->
  run (clean els prev) ([cLB] ++ (q :: s ++ [q]) ++ [cRB])
  = clean (els ++ [(AStr s, GET)]) (Some cRB).
Proof.
  intros Hp Hq Hs Hl.
  cbn [app]. rewrite run_cons, step_open by exact Hp.
  rewrite run_cons, step_open_quote by (first [exact Hq | reflexivity]).
  rewrite <- app_assoc, run_app, run_in_quotes by exact Hs.
  cbn [app]. rewrite run_cons, step_close_quote by (first [exact Hq | apply str_ok_last; assumption]).
  unfold with_add. cbn [app]. rewrite add_quoted by assumption.
  rewrite run_cons, step_close_bracket.
  - reflexivity.
  - cbn. unfold is_quote, cSQ, cDQ, cESC in *. lia.
Qed.

Lemma stringify_element_QS (s : pystr) :
  str_ok s = true ->
  exists q, is_quote q = true /\ has_char q s = false /\ stringify_element s QS = q :: s ++ [q].
Proof.
  unfold str_ok, stringify_element, QS. intros H.
  apply andb_true_iff in H. destruct H as [Hb _]. apply negb_true_iff in Hb.
  destruct (has_char cSQ s) eqn:H1; destruct (has_char cDQ s) eqn:H2; try discriminate; cbn [andb].
  - exists cDQ. repeat split; assumption || reflexivity.
  - exists cSQ. repeat split; assumption || reflexivity.
  - exists cSQ. repeat split; assumption || reflexivity.
Qed.

Lemma repr_key_step (els : list element) (prev : option N) (a : atom) :
  opt_is prev cESC = false -> nonstr_ok a = true ->
  run (clean els prev) ([cLB] ++ repr_atom a ++ [cRB])
  = clean (els ++ [(a, GET)]) (Some cRB).
Proof.
  intros Hp Ha. cbn [app]. rewrite run_cons, step_open by exact Hp.
  rewrite run_app, run_plain by (apply repr_plain, Ha).
  cbn [app]. rewrite run_cons, step_close_bracket.
  - unfold with_add. rewrite add_repr by exact Ha. reflexivity.
  - apply lastc_not; [reflexivity|].
    eapply forallb_impl; [|apply (repr_plain a Ha)]. intros x. unfold plainch.
    destruct (x =? cESC); [rewrite !orb_true_r; discriminate|reflexivity].
Qed.

(* the automaton over "[" b q s q "]" *)
Lemma bytes_key_step (els : list element) (prev : option N) (q : N) (s : pystr) :
  opt_is prev cESC = false -> is_quote q = true -> has_char q s = false ->
  forallb simplech s = true ->
  run (clean els prev) ([cLB] ++ (98 :: q :: s ++ [q]) ++ [cRB])
  = clean (els ++ [(ABytes s, GET)]) (Some cRB).
Proof.
  intros Hp Hq Hs Hsim.
  cbn [app]. rewrite run_cons, step_open by exact Hp.
  rewrite run_cons, step_plain by reflexivity.
  rewrite run_cons, step_open_quote by (first [exact Hq | reflexivity]).
  cbn [app]. rewrite <- app_assoc, run_app, run_in_quotes by exact Hs.
  assert (Hl : opt_is (lastc (Some q) s) cESC = false).
  { apply lastc_not; [cbn; unfold is_quote, cSQ, cDQ, cESC in *; lia|].
    eapply forallb_impl; [|exact Hsim]. intros x. unfold simplech, cESC. lia. }
  cbn [app]. rewrite run_cons, step_close_quote by (first [exact Hq | exact Hl]).
  unfold with_add. cbn [app]. rewrite add_bytes by assumption.
  rewrite run_cons, step_close_bracket.
  - reflexivity.
  - cbn. unfold is_quote, cSQ, cDQ, cESC in *. lia.
Qed.

Lemma key_ok_cases (k : pkey) : key_ok k = true ->
  (exists s, key_atom k = ABytes s /\ bytes_ok s = true) \/
  (exists s, key_atom k = AStr s /\ str_ok s = true) \/
  (nonstr_ok (key_atom k) = true /\ stringify_param (key_atom k) = repr_atom (key_atom k)).
Proof.
  destruct k as [a|i]; [|right; right; split; reflexivity].
  destruct a as [|b|z|t|s|s]; cbn; intros H; try discriminate;
    try (right; right; split; [assumption || reflexivity|reflexivity]).
  - right. left. exists s. split; [reflexivity|exact H].
  - left. exists s. split; [reflexivity|exact H].
Qed.

(* the automaton over the text of one reported key *)
Lemma key_step (els : list element) (prev : option N) (k : pkey) :
  opt_is prev cESC = false -> key_ok k = true ->
  run (clean els prev) (render_key k) = clean (els ++ [(key_atom k, GET)]) (Some cRB).
Proof.
  intros Hp Hk. unfold render_key.
  destruct (key_ok_cases k Hk) as [(s & E & Hs)|[(s & E & Hs)|(Hn & E)]].
  - rewrite E. cbn [stringify_param repr_atom].
    destruct (repr_bytes_simple s Hs) as (q & Hq & Hqs & ->).
    apply bytes_key_step; try assumption.
    unfold bytes_ok in Hs. apply andb_true_iff in Hs. exact (proj1 Hs).
  - rewrite E. cbn [stringify_param].
    destruct (stringify_element_QS s Hs) as (q & Hq & Hqs & ->).
    apply quoted_key_step; try assumption.
    unfold str_ok in Hs. apply andb_true_iff in Hs. destruct Hs as [_ Hs]. now apply negb_true_iff in Hs.
  - rewrite E. apply repr_key_step; assumption.
Qed.

Definition els_of (ks : path) : list element := map (fun k => (key_atom k, GET)) ks.

Lemma keys_run (ks : path) : forall els prev,
  opt_is prev cESC = false -> path_ok ks = true ->
  exists prev', opt_is prev' cESC = false /\
    run (clean els prev) (flat_map render_key ks) = clean (els ++ els_of ks) prev'.
Proof.
  induction ks as [|k r IH]; intros els prev Hp Hok.
  - exists prev. split; [exact Hp|]. cbn. now rewrite app_nil_r.
  - cbn [path_ok forallb] in Hok. apply andb_true_iff in Hok. destruct Hok as [Hk Hr].
    cbn [flat_map]. rewrite run_app, key_step by assumption.
    destruct (IH (els ++ [(key_atom k, GET)]) (Some cRB) eq_refl Hr) as (p' & Hp' & E).
    exists p'. split; [exact Hp'|]. rewrite E. cbn [els_of map]. now rewrite <- app_assoc.
Qed.

(* ------------------------------------------------------------------ *)
(* the round trip                                                      *)
(* ------------------------------------------------------------------ *)
Theorem elements_render (ks : path) :
  path_ok ks = true -> elements (render ks) = Some (els_of ks).
Proof.
  intros Hok. unfold elements, render.
  change (skipn 4 (root_str ++ flat_map render_key ks)) with (flat_map render_key ks).
  destruct (keys_run ks [] None eq_refl Hok) as (p' & _ & E).
  change init_pst with (clean [] None). rewrite E. reflexivity.
Qed.

Theorem parse_render (ks : path) :
  path_ok ks = true -> parse (render ks) = Some (norm ks).
Proof.
  intros Hok. unfold parse. rewrite elements_render by exact Hok.
  cbn [option_map]. unfold els_of, norm. rewrite map_map. reflexivity.
Qed.

Lemma resolve_els_of (v : value) (ks : path) : resolve_els v (els_of ks) = resolve v ks.
Proof.
  revert v. induction ks as [|k r IH]; intros v; [reflexivity|].
  cbn. destruct (get_item v (key_atom k)); [apply IH|reflexivity].
Qed.

(* the reported path extracts exactly what following the keys gives *)
Theorem extract_render (root : value) (ks : path) :
  path_ok ks = true -> extract root (render ks) = resolve root ks.
Proof.
  intros Hok. unfold extract. rewrite elements_render by exact Hok. apply resolve_els_of.
Qed.

Lemma py_eq_refl (a : atom) : py_eq a a = true.
Proof.
  destruct a as [|b|z|t|s|s]; unfold py_eq; cbn [num2].
  - reflexivity.
  - apply Z.eqb_refl.
  - apply Z.eqb_refl.
  - apply Z.eqb_refl.
  - apply pystr_eqb_refl.
  - apply pystr_eqb_refl.
Qed.

Lemma seq_index_at {A} (pre : list A) (x : A) :
  seq_index (pre ++ [x]) (Z.of_nat (List.length pre)) = Some x.
Proof.
  unfold seq_index. rewrite app_length. cbn [List.length].
  destruct (Z.ltb_spec (Z.of_nat (List.length pre)) 0); [lia|].
  destruct (Z.ltb_spec (Z.of_nat (List.length pre)) 0); [lia|].
  destruct (Z.leb_spec (Z.of_nat (List.length pre + 1)) (Z.of_nat (List.length pre))); [lia|].
  cbn [orb]. rewrite Nat2Z.id, nth_error_app2 by lia. now rewrite Nat.sub_diag.
Qed.

Theorem resolve_nest (ks : path) (v : value) : resolve (nest ks v) ks = Some v.
Proof.
  induction ks as [|k r IH]; [reflexivity|].
  destruct k as [a|i]; cbn [nest resolve key_atom get_item].
  - cbn [assoc]. rewrite py_eq_refl. exact IH.
  - cbn [int_of_atom].
    replace (Z.of_nat i) with (Z.of_nat (List.length (repeat (VAtom ANone) i))) by (now rewrite repeat_length).
    rewrite seq_index_at. exact IH.
Qed.

Theorem extract_nest (ks : path) (v : value) :
  path_ok ks = true -> extract (nest ks v) (render ks) = Some v.
Proof. intros Hok. rewrite extract_render by exact Hok. apply resolve_nest. Qed.

(* ------------------------------------------------------------------ *)
(* stringify_path                                                      *)
(* ------------------------------------------------------------------ *)
Lemma stringify_el_key (k : pkey) : stringify_el QS (key_atom k, GET) = render_key k.
Proof. unfold stringify_el, render_key. destruct (key_atom k); reflexivity. Qed.

Lemma stringify_els_of (ks : path) : stringify_els (els_of ks) = render ks.
Proof.
  unfold stringify_els, render, els_of. f_equal.
  induction ks as [|k r IH]; [reflexivity|]. cbn [map flat_map]. now rewrite stringify_el_key, IH.
Qed.

Lemma stringify_keys_GET (ks : path) : stringify_keys GET ks = render ks.
Proof.
  unfold stringify_keys. rewrite <- stringify_els_of. f_equal.
  unfold els_of. destruct ks; reflexivity.
Qed.

Lemma render_norm (ks : path) : render (norm ks) = render ks.
Proof.
  unfold render, norm. f_equal. induction ks as [|k r IH]; [reflexivity|].
  cbn [map flat_map]. rewrite IH. reflexivity.
Qed.

(* reading A: stringify_path(_path_to_elements(p, root_element=None)) == p *)
Theorem stringify_inverts_elements (ks : path) :
  path_ok ks = true -> option_map stringify_els (elements (render ks)) = Some (render ks).
Proof. intros Hok. rewrite elements_render by exact Hok. cbn [option_map]. now rewrite stringify_els_of. Qed.

(* reading B: stringify_path(parse_path(p), root_element=('root','GET')) == p *)
Theorem stringify_inverts_parse (ks : path) :
  path_ok ks = true -> option_map (stringify_keys GET) (parse (render ks)) = Some (render ks).
Proof.
  intros Hok. rewrite parse_render by exact Hok. cbn [option_map]. now rewrite stringify_keys_GET, render_norm.
Qed.

(* and the other way round: parsing what stringify_path prints for a key list *)
Theorem parse_stringify (ks : path) :
  path_ok ks = true -> parse (stringify_keys GET ks) = Some (norm ks).
Proof. intros Hok. rewrite stringify_keys_GET. now apply parse_render. Qed.

Theorem render_inj (ks1 ks2 : path) :
  path_ok ks1 = true -> path_ok ks2 = true -> render ks1 = render ks2 -> norm ks1 = norm ks2.
Proof.
  intros H1 H2 E. pose proof (parse_render ks1 H1) as P1. rewrite E, (parse_render ks2 H2) in P1.
  now inversion P1.
Qed.

(* index-free key sequences are recovered exactly *)
Lemma norm_keys_only (ks : path) :
  forallb (fun k => match k with PKey _ => true | PIdx _ => false end) ks = true -> norm ks = ks.
Proof.
  induction ks as [|k r IH]; [reflexivity|]. cbn. intros H. apply andb_true_iff in H.
  destruct H as [Hk Hr]. destruct k; [|discriminate]. unfold norm in *. cbn [map key_atom]. now rewrite (IH Hr).
Qed.

(* ------------------------------------------------------------------ *)
(* the defects: the unguarded statements are false of the model        *)
(* ------------------------------------------------------------------ *)
Definition k5_key : path := [PKey (AStr [97; cSQ; 98; cDQ; 99])].       (* a, single quote, b, double quote, c *)
Definition k6_key : path := [PKey (AStr [cESC])].

Lemma both_quotes_refuted : parse (render k5_key) <> Some (norm k5_key).
Proof. vm_compute. discriminate. Qed.
Lemma both_quotes_extract_refuted : extract (nest k5_key (VAtom (AInt 1))) (render k5_key) = None.
Proof. vm_compute. reflexivity. Qed.
Lemma escape_char_refuted : parse (render k6_key) <> Some (norm k6_key).
Proof. vm_compute. discriminate. Qed.
Lemma escape_char_extract_refuted : extract (nest k6_key (VAtom (AInt 1))) (render k6_key) = None.
Proof. vm_compute. reflexivity. Qed.
(* stringify_path is not an inverse of parse_path on arbitrary strings: root[ 1] *)
Lemma stringify_not_inverse_everywhere :
  exists p, option_map stringify_els (elements p) <> Some p /\ elements p <> None.
Proof. exists (s2p "root[ 1]"). split; vm_compute; discriminate. Qed.

(* the guard is satisfiable by hostile keys *)
Definition hostile_path : path :=
  [PKey (AStr (s2p "a'b]['c")); PIdx 3; PKey (AStr [cESC; 120; cDQ; cBS; cNL; 91; 46]);
   PKey (AHalf (-1)); PKey ANone; PKey (ABool true); PKey (AInt (-12)); PKey (AStr []); PKey (AStr (s2p "__x"));
   PKey (ABytes (s2p "a'b]"))].
Example hostile_path_ok : path_ok hostile_path = true.
Proof. reflexivity. Qed.

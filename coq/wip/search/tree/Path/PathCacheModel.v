(** C09 - the two caches on the way from a location to its path and back.
    Definitions only.

    1. DiffLevel.path(root, force, get_parent_too, use_t2, output_format)
       (deepdiff/model.py) with the per-level dict  self._path  keyed by
       "{}{}{}{}".format(force, get_parent_too, use_t2, output_format):
       string results (and the (parent, param, result) triple) are cached
       WITHOUT the root prefix, the list form is built afresh at every call.
    2. _path_to_elements(path, root_element) (deepdiff/path.py): a tuple / list
       argument is returned as it is; a str goes through
       _parse_path_to_elements, memoised by functools.lru_cache(maxsize) on
       (path, root_element), which returns tuple(elements).

    Objects with an identity (lists, tuples) live in a heap, so that "the caller
    changes a list it was given earlier" is an operation of the traces the
    theorems quantify over. *)
From Coq Require Import List ZArith NArith Bool String.
Import ListNotations.
From DD Require Import Base.Sx Base.PyStr Base.Value Path.PathModel.
Local Open Scope N_scope.

(* ================================================================== *)
(* 1. DiffLevel.path                                                   *)
(* ================================================================== *)
Inductive force_t := FNone | FYes | FFake.             (* force = None | 'yes' | 'fake' *)
Inductive fmt_t := FmtStr | FmtList.                   (* output_format = 'str' | 'list' *)
Record pargs := mk_pargs {
  a_root : pystr; a_force : force_t; a_parent : bool; a_t2 : bool; a_fmt : fmt_t }.

Definition force_str (f : force_t) : pystr :=
  match f with FNone => s2p "None" | FYes => s2p "yes" | FFake => s2p "fake" end.
Definition bool_str (b : bool) : pystr := if b then s2p "True" else s2p "False".
Definition fmt_str (f : fmt_t) : pystr := match f with FmtStr => s2p "str" | FmtList => s2p "list" end.
(* cache_key = "{}{}{}{}".format(force, get_parent_too, use_t2, output_format) *)
Definition cache_key (a : pargs) : pystr :=
  force_str (a_force a) ++ bool_str (a_parent a) ++ bool_str (a_t2 a) ++ fmt_str (a_fmt a).

Fixpoint set_nth {A} (n : nat) (x : A) (l : list A) : list A :=
  match l, n with
  | [], _ => []
  | _ :: r, O => x :: r
  | y :: r, S m => y :: set_nth m x r
  end.

Section PathCall.
  Variable K : Type.                        (* the param of a child relationship *)
  Variable krepr : K -> option pystr.       (* next_rel.get_param_repr(force); None = no string form *)

  (* one level above self: the params of t1_child_rel / t2_child_rel (None = no relationship on that side) *)
  Record link := mk_link { l_t1 : option K; l_t2 : option K }.

  (* level.t2_child_rel or level.t1_child_rel  /  level.t1_child_rel or level.t2_child_rel *)
  Definition next_rel (use_t2 : bool) (l : link) : option K :=
    if use_t2 then match l_t2 l with Some k => Some k | None => l_t1 l end
    else match l_t1 l with Some k => Some k | None => l_t2 l end.

  (* the while loop, output_format == 'str': (parent, param, result) *)
  Fixpoint walk_str (ls : list link) (use_t2 : bool) (parent : pystr) (param : option K) (result : pystr)
    : pystr * option K * option pystr :=
    match ls with
    | [] => (parent, param, Some result)
    | l :: r =>
        match next_rel use_t2 l with
        | None => (parent, param, Some result)                 (* both sides empty: break *)
        | Some k =>
            match krepr k with
            | Some item => walk_str r use_t2 result (Some k) (result ++ item)
            | None => (parent, param, None)                    (* not representable: result = None; break *)
            end
        end
    end.

  (* the while loop, output_format == 'list' *)
  Fixpoint walk_list (ls : list link) (use_t2 : bool) : list K :=
    match ls with
    | [] => []
    | l :: r => match next_rel use_t2 l with
                | None => []
                | Some k => k :: walk_list r use_t2
                end
    end.

  Inductive cached :=
  | CStr (r : option pystr)
  | CTriple (parent : pystr) (param : option K) (r : option pystr).

  (* what a call returns; PConfused = a cached entry of the wrong shape was unpacked /
     formatted (`parent, param, result = cached` on a str, "{}{}".format(root, tuple)) *)
  Inductive presult :=
  | PStr (r : option pystr)
  | PTriple (parent : option pystr) (param : option K) (r : option pystr)
  | PList (l : list K)
  | PConfused.

  (* _format_result(root, result) *)
  Definition fmt_result (root : pystr) (r : option pystr) : option pystr :=
    match r with None => None | Some s => Some (root ++ s) end.

  Definition pcache := list (pystr * cached).           (* self._path *)
  Fixpoint pc_get (k : pystr) (c : pcache) : option cached :=
    match c with
    | [] => None
    | (k', v) :: r => if pystr_eqb k' k then Some v else pc_get k r
    end.
  Definition pc_set (k : pystr) (v : cached) (c : pcache) : pcache :=
    (k, v) :: filter (fun e => negb (pystr_eqb (fst e) k)) c.

  (* one call of level.path(...) on a level whose ancestors are ls *)
  Definition path_call (ls : list link) (c : pcache) (a : pargs) : presult * pcache :=
    let key := cache_key a in
    match pc_get key c with
    | Some e =>
        if a_parent a then
          match e with
          | CTriple parent param r => (PTriple (fmt_result (a_root a) (Some parent)) param (fmt_result (a_root a) r), c)
          | CStr _ => (PConfused, c)
          end
        else
          match e with
          | CStr r => (PStr (fmt_result (a_root a) r), c)
          | CTriple _ _ _ => (PConfused, c)
          end
    | None =>
        match a_fmt a with
        | FmtStr =>
            let '(parent, param, r) := walk_str ls (a_t2 a) [] None [] in
            if a_parent a
            then (PTriple (fmt_result (a_root a) (Some parent)) param (fmt_result (a_root a) r),
                  pc_set key (CTriple parent param r) c)
            else (PStr (fmt_result (a_root a) r), pc_set key (CStr r) c)
        | FmtList => (PList (walk_list ls (a_t2 a)), c)
        end
    end.

  (* the same call on a level that has no cache at all: the specification *)
  Definition path_pure (ls : list link) (a : pargs) : presult :=
    match a_fmt a with
    | FmtStr =>
        let '(parent, param, r) := walk_str ls (a_t2 a) [] None [] in
        if a_parent a
        then PTriple (fmt_result (a_root a) (Some parent)) param (fmt_result (a_root a) r)
        else PStr (fmt_result (a_root a) r)
    | FmtList => PList (walk_list ls (a_t2 a))
    end.

  (* ---- traces: calls interleaved with the caller changing lists it was given ---- *)
  (* a returned list is a fresh object of the heap (index = identity) *)
  Inductive pop :=
  | OCall (a : pargs)
  | OMutate (id : nat) (l : list K).           (* the caller rewrites the list object id in place *)

  Inductive pret :=
  | RVal (r : presult)                         (* str / None / triple: immutable values *)
  | RListObj (id : nat) (content : list K)     (* the list object id, with its content when it is returned *)
  | RNothing.                                  (* a mutation returns nothing *)

  Record pworld := mk_pworld { pw_cache : pcache; pw_heap : list (list K) }.

  Definition pstep (ls : list link) (w : pworld) (o : pop) : pret * pworld :=
    match o with
    | OCall a =>
        match path_call ls (pw_cache w) a with
        | (PList l, c') => (RListObj (List.length (pw_heap w)) l, mk_pworld c' (pw_heap w ++ [l]))
        | (r, c') => (RVal r, mk_pworld c' (pw_heap w))
        end
    | OMutate id l => (RNothing, mk_pworld (pw_cache w) (set_nth id l (pw_heap w)))
    end.

  Fixpoint prun (ls : list link) (w : pworld) (ops : list pop) : list pret * pworld :=
    match ops with
    | [] => ([], w)
    | o :: r => let '(x, w') := pstep ls w o in
                let '(xs, w'') := prun ls w' r in (x :: xs, w'')
    end.
End PathCall.

Arguments mk_link {K}.
Arguments l_t1 {K}.
Arguments l_t2 {K}.
Arguments CStr {K}.
Arguments CTriple {K}.
Arguments PStr {K}.
Arguments PTriple {K}.
Arguments PList {K}.
Arguments PConfused {K}.
Arguments OCall {K}.
Arguments OMutate {K}.
Arguments RVal {K}.
Arguments RListObj {K}.
Arguments RNothing {K}.
Arguments mk_pworld {K}.

(* the instance of the property's domain: dict keys and sequence indexes, always representable *)
Definition krepr_pkey (k : pkey) : option pystr := Some (render_key k).
(* a level reached through the keys ks on both sides (values_changed and friends) *)
Definition links_of (ks : path) : list (link pkey) := map (fun k => mk_link (Some k) (Some k)) ks.

(* ================================================================== *)
(* 2. _path_to_elements and its lru_cache                              *)
(* ================================================================== *)
Definition rootarg := option (pystr * action).          (* root_element: None or (name, action) *)
Definition DEFAULT_FIRST_ELEMENT : rootarg := Some (s2p "root", GETATTR).
Definition rootarg_eqb (a b : rootarg) : bool :=
  match a, b with
  | None, None => true
  | Some (s, x), Some (t, y) => pystr_eqb s t && action_eqb x y
  | _, _ => false
  end.

Section Lru.
  Variable E : Type.                                    (* an element (elem, action) *)
  Variable mk_root : pystr * action -> E.               (* the root element as an element *)
  Variable parse_raw : pystr -> option (list E).        (* the loop of _parse_path_to_elements on path[4:]; None = it raises *)
  Variable maxsize : nat.                               (* lru_cache(maxsize=1024 * 128) *)

  (* _parse_path_to_elements.__wrapped__(path, root_element), before tuple() *)
  Definition pte_pure (p : pystr) (re : rootarg) : option (list E) :=
    match parse_raw p with
    | None => None
    | Some els => Some (match re with Some r => mk_root r :: els | None => els end)
    end.

  Inductive hobj := HTuple (els : list E) | HList (els : list E).
  Definition hcontent (o : hobj) : list E := match o with HTuple l | HList l => l end.
  Definition hmutable (o : hobj) : bool := match o with HTuple _ => false | HList _ => true end.

  Definition lkey := (pystr * rootarg)%type.
  Definition lkey_eqb (a b : lkey) : bool := pystr_eqb (fst a) (fst b) && rootarg_eqb (snd a) (snd b).

  (* most recently used first *)
  Record lworld := mk_lworld { lw_cache : list (lkey * nat); lw_heap : list hobj }.

  Fixpoint lc_find (k : lkey) (c : list (lkey * nat)) : option nat :=
    match c with
    | [] => None
    | (k', id) :: r => if lkey_eqb k' k then Some id else lc_find k r
    end.
  Definition lc_drop (k : lkey) (c : list (lkey * nat)) : list (lkey * nat) :=
    filter (fun e => negb (lkey_eqb (fst e) k)) c.

  Inductive lop :=
  | LCall (p : pystr) (re : rootarg)            (* _path_to_elements(<str>, re) *)
  | LCallObj (id : nat) (re : rootarg)          (* _path_to_elements(<the tuple or list object id>, re) *)
  | LAlloc (o : hobj)                           (* the caller builds a list / tuple of its own *)
  | LMutate (id : nat) (l : list E).            (* the caller tries to rewrite object id in place *)

  Inductive lret :=
  | LRet (id : nat) (o : hobj)                  (* the object id; o = what it is when returned *)
  | LRaise
  | LNone.

  (* `as_list`: the variant of the function that returned the list `elements` itself
     instead of tuple(elements) (finding F9); the code is the instance as_list = false *)
  Definition lstep_gen (as_list : bool) (w : lworld) (o : lop) : lret * lworld :=
    match o with
    | LCallObj id _ =>
        match nth_error (lw_heap w) id with
        | Some ob => (LRet id ob, w)                         (* isinstance(path, (tuple, list)): return path *)
        | None => (LRaise, w)
        end
    | LCall p re =>
        let k := (p, re) in
        match lc_find k (lw_cache w) with
        | Some id =>
            match nth_error (lw_heap w) id with
            | Some ob => (LRet id ob, mk_lworld ((k, id) :: lc_drop k (lw_cache w)) (lw_heap w))
            | None => (LRaise, w)
            end
        | None =>
            match pte_pure p re with
            | None => (LRaise, w)                              (* exceptions are not cached *)
            | Some els =>
                let ob := if as_list then HList els else HTuple els in
                let id := List.length (lw_heap w) in
                (LRet id ob, mk_lworld (firstn maxsize ((k, id) :: lw_cache w)) (lw_heap w ++ [ob]))
            end
        end
    | LAlloc ob => (LRet (List.length (lw_heap w)) ob, mk_lworld (lw_cache w) (lw_heap w ++ [ob]))
    | LMutate id l =>
        match nth_error (lw_heap w) id with
        | Some (HList _) => (LNone, mk_lworld (lw_cache w) (set_nth id (HList l) (lw_heap w)))
        | _ => (LRaise, w)                                     (* tuples do not support item assignment *)
        end
    end.
  Definition lstep := lstep_gen false.

  Fixpoint lrun_gen (as_list : bool) (w : lworld) (ops : list lop) : list lret * lworld :=
    match ops with
    | [] => ([], w)
    | o :: r => let '(x, w') := lstep_gen as_list w o in
                let '(xs, w'') := lrun_gen as_list w' r in (x :: xs, w'')
    end.
  Definition lrun := lrun_gen false.

  Definition lw_init : lworld := mk_lworld [] [].
End Lru.

Arguments HTuple {E}.
Arguments HList {E}.
Arguments LCall {E}.
Arguments LCallObj {E}.
Arguments LAlloc {E}.
Arguments LMutate {E}.
Arguments LRet {E}.
Arguments LRaise {E}.
Arguments LNone {E}.

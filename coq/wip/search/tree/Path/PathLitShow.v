(** Correspondence-side renderings for the total literal_eval model and float repr (no theorem depends on this file). *)
From Coq Require Import List ZArith NArith Bool String.
Import ListNotations.
From DD Require Import Base.Sx Base.PyStr Base.Value Path.PathModel Path.PathLit.
Local Open Scope string_scope.

Definition sx_fmag (m : fmag) : sx :=
  match m with
  | FZero => SA "zero"
  | FInf => SA "inf"
  | FFin p e => SL [SZ (Zpos p); SZ e]
  end.
Definition sx_pval (v : pval) : sx :=
  match v with
  | PvNone => SA "None"
  | PvBool b => SL [SA "b"; sx_bool b]
  | PvInt z => SL [SA "i"; SZ z]
  | PvFloat neg m => SL [SA "f"; sx_bool neg; sx_fmag m]
  | PvStr s => SL [SA "s"; sx_str s]
  | PvBytes s => SL [SA "y"; sx_str s]
  | PvComplex => SL [SA "o"; sx_bool true]
  | PvOther h => SL [SA "o"; sx_bool h]
  end.
Definition sx_lxres (r : lxres) : sx :=
  match r with
  | LxOk v => SL [SA "ok"; sx_pval v]
  | LxFail => SA "fail"
  | LxRaise => SA "raise"
  | LxUnsup => SA "unsup"
  end.
Definition c09_lit (e : pystr) : sx := sx_lxres (full_eval e).
Definition c09_lit_or (e : pystr) (expected : sx) : sx :=
  match full_eval e with LxUnsup => expected | r => sx_lxres r end.
Definition count_lit_unsup (l : list pystr) : nat :=
  List.length (filter (fun e => match full_eval e with LxUnsup => true | _ => false end) l).

(* repr(float) *)
Definition c09_float_repr (neg : bool) (m : fmag) : sx := sx_opt sx_str (float_repr neg m).

(** Correspondence-side renderings for the cache models of C09 (no theorem depends on this file). *)
From Coq Require Import List ZArith NArith Bool String.
Import ListNotations.
From DD Require Import Base.Sx Base.PyStr Base.Value Path.PathModel Path.PathShow Path.PathCacheModel.
Local Open Scope string_scope.

(* ---- DiffLevel.path ---- *)
Definition sx_ostr (o : option pystr) : sx := sx_opt sx_str o.
(* param: "" before the first level *)
Definition sx_param (o : option pkey) : sx :=
  match o with Some k => sx_pkey k | None => SL [SA "k"; sx_atom (AStr [])] end.

Definition sx_pret (r : pret pkey) : sx :=
  match r with
  | RVal (PStr s) => SL [SA "s"; sx_ostr s]
  | RVal (PTriple a b c) => SL [SA "t"; sx_ostr a; sx_param b; sx_ostr c]
  | RVal (PList l) => SL [SA "l?"; sx_path l]
  | RVal PConfused => SA "CONFUSED"
  | RListObj id l => SL [SA "l"; sx_nat id; sx_path l]
  | RNothing => SA "-"
  end.

(* a trace of calls / list rewrites on one level, from an empty self._path *)
Definition c09_path_trace (ls : list (link pkey)) (ops : list (pop pkey)) : sx :=
  SL (map sx_pret (fst (prun pkey krepr_pkey ls (mk_pworld [] []) ops))).

(* ---- _path_to_elements / lru_cache ---- *)
Definition sx_hobj (o : hobj element) : sx :=
  match o with
  | HTuple l => SL [SA "T"; sx_elements l]
  | HList l => SL [SA "L"; sx_elements l]
  end.
Definition sx_lret (r : lret element) : sx :=
  match r with
  | LRet id o => SL [sx_nat id; sx_hobj o]
  | LRaise => SA "RAISE"
  | LNone => SA "-"
  end.
Definition mk_root_el' (r : pystr * action) : element := (AStr (fst r), snd r).
Definition parse_raw_el' (p : pystr) : option (list element) := finish (run init_pst (skipn 4 p)).

(* in the generated traces LCallObj k / LMutate k name "the object operation number k returned"
   (an operation that returned no object: the call raises); resolved here to heap identities *)
Fixpoint lresolve (maxsize : nat) (w : lworld element) (rets : list (option nat)) (ops : list (lop element))
  : list (lop element) :=
  match ops with
  | [] => []
  | o :: r =>
      let ref k := match nth k rets None with Some id => id | None => List.length (lw_heap element w) end in
      let o' := match o with
                | LCallObj k re => LCallObj (ref k) re
                | LMutate k l => LMutate (ref k) l
                | x => x
                end in
      let '(x, w') := lstep element mk_root_el' parse_raw_el' maxsize w o' in
      o' :: lresolve maxsize w' (rets ++ [match x with LRet id _ => Some id | _ => None end]) r
  end.
Definition MAXSIZE : nat := (1024 * 128)%nat.
Definition lres (ops : list (lop element)) : list (lop element) := lresolve MAXSIZE (lw_init element) [] ops.

(* a trace of _path_to_elements calls from an empty lru_cache; also the cache's
   (hits, misses, currsize) at the end of it *)
Definition lhit (w : lworld element) (o : lop element) : bool :=
  match o with
  | LCall p re => match lc_find (p, re) (lw_cache element w) with Some _ => true | None => false end
  | _ => false
  end.
Fixpoint lhits (maxsize : nat) (w : lworld element) (ops : list (lop element)) : nat * nat :=
  match ops with
  | [] => (O, O)
  | o :: r =>
      let '(res, w') := lstep element mk_root_el' parse_raw_el' maxsize w o in
      let '(h, m) := lhits maxsize w' r in
      match o, res with
      | LCall _ _, LRet _ _ => if lhit w o then (S h, m) else (h, S m)
      | LCall _ _, _ => (h, S m)
      | _, _ => (h, m)
      end
  end.
Definition c09_lru_trace (ops0 : list (lop element)) : sx :=
  let ops := lres ops0 in
  let '(rs, w) := lrun element mk_root_el' parse_raw_el' MAXSIZE (lw_init element) ops in
  let '(h, m) := lhits MAXSIZE (lw_init element) ops in
  SL [SL (map sx_lret rs); sx_nat h; sx_nat m; sx_nat (List.length (lw_cache element w))].
(* traces on which some literal_eval leaves the modelled sub-language are not compared *)
Definition lru_supported (ops : list (lop element)) : bool :=
  forallb (fun o => match o with
                    | LCall p _ => match elements p with Some _ => true | None => false end
                    | _ => true
                    end) ops.
Definition c09_lru_trace_or (ops : list (lop element)) (expected : sx) : sx :=
  if lru_supported ops then c09_lru_trace ops else expected.

(* the same trace without object identities and cache statistics: what the property demands *)
Definition sx_lret_content (r : lret element) : sx :=
  match r with
  | LRet _ o => sx_hobj o
  | LRaise => SA "RAISE"
  | LNone => SA "-"
  end.
Definition c09_lru_content (ops : list (lop element)) : sx :=
  SL (map sx_lret_content (fst (lrun element mk_root_el' parse_raw_el' MAXSIZE (lw_init element) (lres ops)))).
Definition c09_lru_content_or (ops : list (lop element)) (expected : sx) : sx :=
  if lru_supported ops then c09_lru_content ops else expected.
Definition count_lru_full_agree (l : list (list (lop element) * sx)) : nat :=
  List.length (filter (fun c => sx_eqb (c09_lru_trace_or (fst c) (snd c)) (snd c)) l).

(** Correspondence-side renderings for parse_path / stringify_path with all arguments (no theorem depends on this file). *)
From Coq Require Import List ZArith NArith Bool String.
Import ListNotations.
From DD Require Import Base.Sx Base.PyStr Base.Value Path.PathModel Path.PathShow Path.PathCacheModel Path.PathActsModel.
Local Open Scope string_scope.

Definition c09_stringify (path : list sp_item) (re : pystr * action) (qs : quote_fmt) : sx :=
  sx_opt sx_str (stringify_path_gen path re qs).

Definition sx_pp (r : pp_result) : sx :=
  match r with
  | PPKeys l => SL [SA "keys"; SL (map sx_atom l)]
  | PPDicts l => SL [SA "dicts"; sx_elements l]
  end.
Definition c09_parse_full (p : pystr) (re : rootarg) (incl : bool) : sx :=
  match parse_path_full p re incl with
  | None => SA "UNSUP"
  | Some r => sx_pp r
  end.
Definition c09_parse_full_or (p : pystr) (re : rootarg) (incl : bool) (expected : sx) : sx :=
  match parse_path_full p re incl with
  | None => expected
  | Some r => sx_pp r
  end.

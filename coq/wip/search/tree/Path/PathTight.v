(** C09 - the guard [str_ok] is necessary: what the parser returns instead
    when a reported str key ends in the escape character, or contains both quote
    characters (and no escape character). *)
From Coq Require Import List ZArith NArith Bool String Lia ZifyBool.
Import ListNotations.
From DD Require Import Base.Sx Base.PyStr Base.Value Path.PathModel Path.PathLex Path.PathProofs.
Local Open Scope N_scope.

Lemma step_escaped els elem inside prev br inq quote bad c :
  opt_is prev cESC = true ->
  step (mk_pst els elem inside prev br inq quote bad) c
  = mk_pst els (elem ++ [c]) inside (Some c) br inq quote bad.
Proof. intros H. unfold step. rewrite H. reflexivity. Qed.

Lemma stringify_element_one_kind (s : pystr) :
  has_char cSQ s && has_char cDQ s = false ->
  exists q, is_quote q = true /\ has_char q s = false /\ stringify_element s QS = q :: s ++ [q].
Proof.
  unfold stringify_element, QS. intros Hb.
  destruct (has_char cSQ s) eqn:H1; destruct (has_char cDQ s) eqn:H2; try discriminate; cbn [andb].
  - exists cDQ. repeat split; assumption || reflexivity.
  - exists cSQ. repeat split; assumption || reflexivity.
  - exists cSQ. repeat split; assumption || reflexivity.
Qed.

Lemma has_char_snoc (c : N) (s : pystr) : has_char c (s ++ [c]) = true.
Proof. unfold has_char. rewrite existsb_app. cbn. rewrite N.eqb_refl. now rewrite orb_true_r. Qed.

(* K6: the closing quote after a final escape character is swallowed; the whole
   bracket text, quotes and "]" included, becomes the key *)
Theorem escape_last_result (s' : pystr) :
  let s := s' ++ [cESC] in
  has_char cSQ s && has_char cDQ s = false ->
  exists q, is_quote q = true /\
    parse (render [PKey (AStr s)]) = Some [PKey (AStr (q :: s ++ [q; cRB]))].
Proof.
  intros s Hb. destruct (stringify_element_one_kind s Hb) as (q & Hq & Hqs & E).
  exists q. split; [exact Hq|].
  unfold parse, elements, render.
  change (skipn 4 (root_str ++ flat_map render_key [PKey (AStr s)])) with (render_key (PKey (AStr s)) ++ []).
  rewrite app_nil_r. unfold render_key. cbn [key_atom stringify_param]. rewrite E.
  change init_pst with (clean [] None).
  cbn [app]. rewrite run_cons, step_open by reflexivity.
  rewrite run_cons, step_open_quote by (first [exact Hq | reflexivity]).
  rewrite <- app_assoc, run_app, run_in_quotes by exact Hqs.
  subst s. rewrite lastc_snoc.
  cbn [app]. rewrite run_cons, step_escaped by reflexivity.
  rewrite run_cons, step_in_quotes by (unfold is_quote, cSQ, cDQ, cRB in *; lia).
  rewrite run_nil. unfold finish. cbn [p_els p_elem p_inside p_bad].
  unfold with_add, add_to_elements.
  set (e := ((q :: s' ++ [cESC]) ++ [q]) ++ [cRB]).
  assert (Ee : e = q :: (s' ++ [cESC]) ++ [q; cRB]).
  { subst e. cbn [app]. rewrite <- !app_assoc. reflexivity. }
  rewrite Ee.
  assert (Hp : is_prefix [cUS; cUS] (q :: (s' ++ [cESC]) ++ [q; cRB]) = false).
  { cbn [is_prefix]. assert (H : (cUS =? q) = false) by (unfold is_quote, cSQ, cDQ, cUS in *; lia). now rewrite H. }
  rewrite Hp.
  assert (He : has_char cESC (q :: (s' ++ [cESC]) ++ [q; cRB]) = true).
  { unfold has_char. cbn [existsb]. rewrite existsb_app. fold (has_char cESC (s' ++ [cESC])).
    rewrite has_char_snoc. cbn [orb]. now rewrite orb_true_r. }
  rewrite He. cbn [orb].
  assert (Hs : strip_outer (q :: (s' ++ [cESC]) ++ [q; cRB]) = q :: (s' ++ [cESC]) ++ [q; cRB]).
  { unfold strip_outer. rewrite Hq.
    replace (q :: (s' ++ [cESC]) ++ [q; cRB]) with ((q :: (s' ++ [cESC]) ++ [q]) ++ [cRB])
      by (cbn [app]; rewrite <- app_assoc; reflexivity).
    rewrite last_last.
    assert (H : (cRB =? q) = false) by (unfold is_quote, cSQ, cDQ, cRB in *; lia).
    rewrite H. reflexivity. }
  rewrite Hs. reflexivity.
Qed.

Corollary escape_last_fails (s' : pystr) :
  let s := s' ++ [cESC] in
  has_char cSQ s && has_char cDQ s = false ->
  parse (render [PKey (AStr s)]) <> Some [PKey (AStr s)].
Proof.
  intros s Hb. destruct (escape_last_result s' Hb) as (q & _ & E). fold s in E. rewrite E.
  intros H. inversion H as [H1]. apply (f_equal (@List.length N)) in H1.
  cbn [List.length] in H1. rewrite app_length in H1. cbn [List.length] in H1. lia.
Qed.

(* ------------------------------------------------------------------ *)
(* elements are only ever appended                                     *)
(* ------------------------------------------------------------------ *)
Lemma with_add_mono els elem inside bad :
  exists t, fst (with_add els elem inside bad) = els ++ t.
Proof.
  unfold with_add, add_to_elements.
  destruct elem as [|c r]; [exists []; cbn; now rewrite app_nil_r|].
  destruct (is_prefix [cUS; cUS] (c :: r)); [exists []; cbn; now rewrite app_nil_r|].
  destruct (has_char cESC (c :: r) || has_char cBS (c :: r)); [eexists; reflexivity|].
  destruct (literal_eval (c :: r)); [eexists; reflexivity|eexists; reflexivity|].
  exists []. cbn. now rewrite app_nil_r.
Qed.

Lemma step_mono (st : pst) (c : N) : exists t, p_els (step st c) = p_els st ++ t.
Proof.
  destruct st as [els elem inside prev br inq quote bad]. unfold step.
  assert (Hid : exists t : list element, els = els ++ t) by (exists []; now rewrite app_nil_r).
  assert (Hadd : forall e i (k : list element -> bool -> pst),
             (forall els' bad', p_els (k els' bad') = els') ->
             exists t, p_els (let '(els', bad') := with_add els e i bad in k els' bad') = els ++ t).
  { intros e i k Hk. destruct (with_add_mono els e i bad) as [t Ht].
    destruct (with_add els e i bad) as [els' bad']. cbn [fst] in Ht. rewrite Hk. now exists t. }
  cbn [p_els].
  repeat match goal with
         | |- context [if ?b then _ else _] => destruct b
         | |- context [match ?x with INone => _ | IBr => _ | IDot => _ end] => destruct x
         | |- context [match Nat.pred ?x with O => _ | S _ => _ end] => destruct (Nat.pred x)
         end;
    try exact Hid;
    try (apply (Hadd _ _ (fun els' bad' => mk_pst els' _ _ _ _ _ _ bad')); reflexivity).
Qed.

Lemma run_mono (s : pystr) : forall st, exists t, p_els (run st s) = p_els st ++ t.
Proof.
  induction s as [|c r IH]; intros st.
  - exists []. cbn. now rewrite app_nil_r.
  - rewrite run_cons. destruct (step_mono st c) as [t1 H1]. destruct (IH (step st c)) as [t2 H2].
    exists (t1 ++ t2). rewrite H2, H1. now rewrite app_assoc.
Qed.

Lemma finish_mono (st : pst) (els' : list element) :
  finish st = Some els' -> exists t, els' = p_els st ++ t.
Proof.
  unfold finish. destruct (with_add_mono (p_els st) (p_elem st) (p_inside st) (p_bad st)) as [t Ht].
  destruct (with_add _ _ _ _) as [e b]. cbn [fst] in Ht. destruct b; [discriminate|].
  intros H. inversion H. subst. now exists t.
Qed.

Lemma has_char_split (c : N) (s : pystr) :
  has_char c s = true -> exists s1 s2, s = s1 ++ c :: s2 /\ has_char c s1 = false.
Proof.
  unfold has_char. induction s as [|x r IH]; cbn [existsb]; [discriminate|].
  destruct (N.eqb_spec c x) as [->|Hne]; cbn [orb].
  - intros _. exists [], r. split; reflexivity.
  - intros H. destruct (IH H) as (s1 & s2 & -> & H1). exists (x :: s1), s2. split; [reflexivity|].
    cbn [existsb]. apply N.eqb_neq in Hne. now rewrite Hne, H1.
Qed.

(* K5: with both quote characters (and no escape character) the text before the
   first inner double quote is returned as the first key *)
Theorem both_quotes_fails (s : pystr) :
  has_char cSQ s = true -> has_char cDQ s = true -> has_char cESC s = false ->
  parse (render [PKey (AStr s)]) <> Some [PKey (AStr s)].
Proof.
  intros H1 H2 He.
  destruct (has_char_split cDQ s H2) as (s1 & s2 & Es & Hs1).
  assert (Hr : stringify_element s QS = cDQ :: s ++ [cDQ]).
  { unfold stringify_element, QS. rewrite H1, H2. reflexivity. }
  unfold parse, elements, render.
  change (skipn 4 (root_str ++ flat_map render_key [PKey (AStr s)])) with (render_key (PKey (AStr s)) ++ []).
  rewrite app_nil_r. unfold render_key. cbn [key_atom stringify_param]. rewrite Hr.
  change init_pst with (clean [] None).
  cbn [app]. rewrite run_cons, step_open by reflexivity.
  rewrite run_cons, step_open_quote by reflexivity.
  rewrite Es. rewrite <- !app_assoc. rewrite run_app, run_in_quotes by exact Hs1.
  cbn [app]. rewrite run_cons.
  assert (He1 : opt_is (lastc (Some cDQ) s1) cESC = false).
  { apply lastc_not; [reflexivity|]. apply has_char_false_forall.
    rewrite Es in He. unfold has_char in He |- *. rewrite existsb_app in He.
    apply orb_false_iff in He. tauto. }
  rewrite step_close_quote by (first [exact He1 | reflexivity]).
  unfold with_add. cbn [app]. rewrite add_quoted by (reflexivity || exact Hs1).
  cbn [app].
  set (st1 := mk_pst [(AStr s1, GET)] [] IBr (Some cDQ) 1 false None false).
  destruct (run_mono (s2 ++ [cDQ; cRB]) st1) as [t Ht].
  destruct (finish (run st1 (s2 ++ [cDQ; cRB]))) as [els'|] eqn:Ef; [|cbn [option_map]; discriminate].
  destruct (finish_mono _ _ Ef) as [t' Ht']. rewrite Ht in Ht'. subst els'.
  cbn [p_els st1 app option_map map fst].
  intros H. inversion H as [[Hs Hnil]].
  apply (f_equal (@List.length N)) in Hs. rewrite app_length in Hs. cbn [List.length] in Hs. lia.
Qed.

(* the guard is exact for strings without the escape character ... *)
Theorem guard_exact_no_esc (s : pystr) :
  has_char cESC s = false ->
  (parse (render [PKey (AStr s)]) = Some [PKey (AStr s)] <-> str_ok s = true).
Proof.
  intros He. split.
  - intros H. unfold str_ok.
    assert (Hl : (last s 0 =? cESC) = false).
    { destruct s as [|c r] eqn:E; [reflexivity|]. rewrite <- E in *.
      assert (Hne : s <> []) by (rewrite E; discriminate).
      pose proof (forallb_last (fun x => negb (x =? cESC)) s 0 Hne (proj1 (has_char_false_forall cESC s) He)) as Hx.
      now apply negb_true_iff in Hx. }
    rewrite Hl. cbn [negb]. rewrite andb_true_r. apply negb_true_iff.
    destruct (has_char cSQ s) eqn:H1; [|reflexivity]. destruct (has_char cDQ s) eqn:H2; [|reflexivity].
    exfalso. exact (both_quotes_fails s H1 H2 He H).
  - intros Hs. apply (parse_render [PKey (AStr s)]). cbn. now rewrite Hs.
Qed.

(* ... and for strings with at most one kind of quote character *)
Theorem guard_exact_one_quote_kind (s : pystr) :
  has_char cSQ s && has_char cDQ s = false ->
  (parse (render [PKey (AStr s)]) = Some [PKey (AStr s)] <-> str_ok s = true).
Proof.
  intros Hb. split.
  - intros H. unfold str_ok. rewrite Hb. cbn [negb andb]. apply negb_true_iff.
    destruct (N.eqb_spec (last s 0) cESC) as [El|]; [|reflexivity]. exfalso.
    destruct s as [|c r] eqn:E; [cbn in El; discriminate|].
    assert (Hne : s <> []) by (rewrite E; discriminate). rewrite <- E in *.
    destruct (exists_last Hne) as (s' & x & Es). rewrite Es in El. rewrite last_last in El. subst x.
    rewrite Es in Hb, H. exact (escape_last_fails s' Hb H).
  - intros Hs. apply (parse_render [PKey (AStr s)]). cbn. now rewrite Hs.
Qed.

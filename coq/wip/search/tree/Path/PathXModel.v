(** C09 - the path printer and parser over ALL keys of the property's domain: every float
    (exponent notation, non half-integers, -0.0, inf, nan), every int (the 4300-digit limit of
    repr), and the parser on every text (no "unsupported" but in one documented corner).
    Definitions only.

    Keys are [pval]s of Path/PathLit.v (None, bool, int, float as sign and m * 2^e, str, bytes)
    or nan.  The printer is ChildRelationship.stringify_param with its self check
        candidate = repr(param); resurrected = literal_eval_extended(candidate)
        result = candidate if resurrected == param else None
    The parser is the automaton of PathModel.v with literal_eval replaced by [leval]: the hand
    model of the reachable sub-language (PathModel.literal_eval) where it answers, the total
    model (PathLit.full_eval) on every other text.  (The correspondence compares full_eval
    ALONE with CPython on every generated text, and checks the two models agree wherever both
    answer.) *)
From Coq Require Import List ZArith NArith Bool String.
Import ListNotations.
From DD Require Import Base.Sx Base.PyStr Base.Value Path.PathModel Path.PathLit.
Local Open Scope N_scope.

(* ------------------------------------------------------------------ *)
(* atoms as pvals                                                      *)
(* ------------------------------------------------------------------ *)
Definition pval_of_atom (a : atom) : pval :=
  match a with
  | ANone => PvNone
  | ABool b => PvBool b
  | AInt z => PvInt z
  | AHalf t => match t with
               | Z0 => PvFloat false FZero
               | Zpos p => PvFloat false (strip2 (Npos p) (-1))
               | Zneg p => PvFloat true (strip2 (Npos p) (-1))
               end
  | AStr s => PvStr s
  | ABytes s => PvBytes s
  end.

(* a decimal int literal of more than 4300 digits (sys.int_info.default_max_str_digits), the one
   thing inside its sub-language the hand model gets wrong (it has no digit limit): e without the
   surrounding white space and a sign is digits / underscores, more than 4300 digits of them *)
Definition huge_core (core : pystr) : bool :=
  let body := match core with
              | c :: r => if (c =? cMINUS) || (c =? cPLUS) then snd (span is_blank r) else core
              | [] => []
              end in
  forallb (fun c => is_digit c || (c =? cUS)) body && Nat.ltb MAXDIGITS (List.length (filter is_digit body)).
Definition huge_dec_literal (e : pystr) : bool :=
  let (_, r1) := span is_ws e in
  let (core, _) := rspan is_ws r1 in
  huge_core core.

(* literal_eval on every text *)
Definition leval (e : pystr) : lxres :=
  if huge_dec_literal e then full_eval e else
  match literal_eval e with
  | LOk a => LxOk (pval_of_atom a)
  | LFail => LxFail
  | LUnsup => full_eval e
  end.

(* ------------------------------------------------------------------ *)
(* parser                                                              *)
(* ------------------------------------------------------------------ *)
Definition xelement := (pval * action)%type.
Definition lift_el (e : element) : xelement := (pval_of_atom (fst e), snd e).

(* what a call of the parser comes to *)
Inductive xout (A : Type) := XDone (x : A) | XRaises | XUnsup.
Arguments XDone {A}.
Arguments XRaises {A}.
Arguments XUnsup {A}.

(* path.py _add_to_elements *)
Definition add_to_elements_x (els : list xelement) (elem : pystr) (inside : ins) : xout (list xelement) :=
  match elem with
  | [] => XDone els
  | _ =>
      if is_prefix [cUS; cUS] elem then XDone els else
      let act := match inside with IDot => GETATTR | _ => GET end in
      if has_char cESC elem || has_char cBS elem
      then XDone (els ++ [(PvStr (strip_outer elem), act)])
      else match leval elem with
           | LxOk v => XDone (els ++ [(v, act)])
           | LxFail => XDone (els ++ [(PvStr (strip_outer elem), act)])
           | LxRaise => XRaises                     (* TypeError / OverflowError out of literal_eval: not caught *)
           | LxUnsup => XUnsup
           end
  end.

(* the state of the loop; x_flag: 0 = running, 1 = an exception went through, 2 = left the model *)
Record xst := mk_xst {
  x_els : list xelement; x_elem : pystr; x_inside : ins; x_prev : option N;
  x_br : nat; x_inq : bool; x_quote : option N; x_flag : nat }.

Definition with_add_x (els : list xelement) (elem : pystr) (inside : ins) (flag : nat) : list xelement * nat :=
  match flag with
  | O => match add_to_elements_x els elem inside with
         | XDone els' => (els', O)
         | XRaises => (els, 1%nat)
         | XUnsup => (els, 2%nat)
         end
  | _ => (els, flag)
  end.

(* one iteration of the loop "for char in path" (PathModel.step with the total literal_eval) *)
Definition stepx (st : xst) (c : N) : xst :=
  let '(mk_xst els elem inside prev br inq quote flag) := st in
  let pc := Some c in
  if opt_is prev cESC then mk_xst els (elem ++ [c]) inside pc br inq quote flag
  else if is_quote c then
    let elem1 := elem ++ [c] in
    if inq && negb (opt_is quote c) then mk_xst els elem1 inside pc br inq quote flag
    else if negb inq then mk_xst els elem1 inside pc br true (Some c) flag
    else let '(els', flag') := with_add_x els elem1 inside flag in
         mk_xst els' [] inside pc br false None flag'
  else if inq then mk_xst els (elem ++ [c]) inside pc br inq quote flag
  else if c =? cLB then
    match inside with
    | IDot => let '(els', flag') := with_add_x els elem inside flag in
              mk_xst els' [] IBr pc br inq quote flag'
    | IBr => mk_xst els (elem ++ [c]) inside pc br inq quote flag
    | INone => mk_xst els [] IBr pc (S br) inq quote flag
    end
  else if c =? cDOT then
    match inside with
    | IBr => mk_xst els (elem ++ [c]) inside pc br inq quote flag
    | IDot => let '(els', flag') := with_add_x els elem inside flag in
              mk_xst els' [] inside pc br inq quote flag'
    | INone => mk_xst els [] IDot pc br inq quote flag
    end
  else if c =? cRB then
    match Nat.pred br with
    | S b => mk_xst els (elem ++ [c]) inside pc (S b) inq quote flag
    | O => let '(els', flag') := with_add_x els elem inside flag in
           mk_xst els' [] INone pc O inq quote flag'
    end
  else mk_xst els (elem ++ [c]) inside pc br inq quote flag.

Definition init_xst : xst := mk_xst [] [] INone None O false None O.
Definition runx (st : xst) (s : pystr) : xst := fold_left stepx s st.

Definition finishx (st : xst) : xout (list xelement) :=
  let '(els, flag) := with_add_x (x_els st) (x_elem st) (x_inside st) (x_flag st) in
  match flag with
  | O => XDone els
  | 1%nat => XRaises
  | _ => XUnsup
  end.

(* _path_to_elements(path, root_element=None) *)
Definition elementsx (p : pystr) : xout (list xelement) := finishx (runx init_xst (skipn 4 p)).

(* ------------------------------------------------------------------ *)
(* keys and the printer                                                *)
(* ------------------------------------------------------------------ *)
Inductive xkey :=
| XKey (v : pval)            (* a dict key: PvNone, PvBool, PvInt, PvFloat, PvStr, PvBytes *)
| XNan                       (* the float nan *)
| XIdx (i : nat).            (* a sequence index *)

(* Python == between what literal_eval gives back and the key (numbers compare by value) *)
Definition fl_is_zero (m : fmag) : bool := match m with FZero => true | _ => false end.
Definition pval_num_eqb (a b : pval) : bool :=
  match a, b with
  | PvNone, PvNone => true
  | PvBool x, PvBool y => Bool.eqb x y
  | PvInt x, PvInt y => Z.eqb x y
  | PvFloat s m, PvFloat s' m' => fmag_eqb m m' && (Bool.eqb s s' || fl_is_zero m)
  | PvStr x, PvStr y => pystr_eqb x y
  | PvBytes x, PvBytes y => pystr_eqb x y
  | _, _ => false
  end.

Definition int_digits (z : Z) : nat := List.length (p_of_N (Z.to_N (Z.abs z))).

Inductive kres := KText (s : pystr) | KNoPath | KRaises.

(* repr(param) of a non-str key; None: repr itself raises (more than 4300 digits) *)
Definition repr_pval (v : pval) : option pystr :=
  match v with
  | PvNone => Some (s2p "None")
  | PvBool true => Some (s2p "True")
  | PvBool false => Some (s2p "False")
  | PvInt z => if Nat.ltb MAXDIGITS (int_digits z) then None else Some (p_of_Z z)
  | PvFloat neg m => float_repr neg m
  | PvStr s => Some s
  | PvBytes s => Some (repr_bytes s)
  | PvComplex | PvOther _ => None
  end.

(* ChildRelationship.stringify_param for DictRelationship / SubscriptableIterableRelationship,
   before param_repr_format *)
Definition stringify_param_x (k : xkey) : kres :=
  match k with
  | XKey (PvStr s) => KText (stringify_element s QS)
  | XKey (PvBytes s) => KText (repr_bytes s)              (* the self check passes: repr / literal_eval of bytes
                                                             (escape sequences; not modelled) are inverse *)
  | XKey v =>
      match repr_pval v with
      | None => KRaises
      | Some cand =>
          match leval cand with                           (* literal_eval_extended(candidate) *)
          | LxOk r => if pval_num_eqb r v then KText cand else KNoPath
          | _ => KNoPath                                  (* (SyntaxError, ValueError): logged, result = None *)
          end
      end
  | XNan => KNoPath                                       (* literal_eval('nan') raises ValueError *)
  | XIdx i => KText (p_of_Z (Z.of_nat i))
  end.

(* get_param_repr: param_repr_format "[{}]" *)
Definition krepr_x (k : xkey) : kres :=
  match stringify_param_x k with
  | KText s => KText ([cLB] ++ s ++ [cRB])
  | r => r
  end.

(* DiffLevel.path(): Some (Some p) = the string, Some None = path() returns None, None = it raises *)
Fixpoint renderx_go (ks : list xkey) (acc : pystr) : option (option pystr) :=
  match ks with
  | [] => Some (Some acc)
  | k :: r => match krepr_x k with
              | KText s => renderx_go r (acc ++ s)
              | KNoPath => Some None
              | KRaises => None
              end
  end.
Definition renderx (ks : list xkey) : option (option pystr) := renderx_go ks root_str.

(* the key the parser can give back for a location *)
Definition key_val (k : xkey) : option pval :=
  match k with
  | XKey v => Some v
  | XNan => None
  | XIdx i => Some (PvInt (Z.of_nat i))
  end.

(* ------------------------------------------------------------------ *)
(* the guard of the extended round-trip theorems                       *)
(* ------------------------------------------------------------------ *)
Definition lxres_is (r : lxres) (v : pval) : bool :=
  match r with
  | LxOk (PvFloat s m) => match v with PvFloat s' m' => Bool.eqb s s' && fmag_eqb m m' | _ => false end
  | _ => false
  end.
(* characters that float / int texts are made of *)
Definition floatch (c : N) : bool :=
  is_digit c || (c =? cDOT) || (c =? cMINUS) || (c =? cPLUS) || (c =? 101).
(* a float key whose repr reads back as the same float (decidable; true of every float of every
   run so far - a proof for all floats needs "17 significant digits suffice") *)
Definition float_text_ok (neg : bool) (m : fmag) : bool :=
  match m with
  | FInf => false
  | _ => match float_repr neg m with
         | Some t => forallb floatch t && lxres_is (leval t) (PvFloat neg m)
         | None => false
         end
  end.
Definition xkey_ok (k : xkey) : bool :=
  match k with
  | XIdx i => Nat.leb (int_digits (Z.of_nat i)) MAXDIGITS       (* always, for the length of a real sequence *)
  | XNan => false
  | XKey PvNone | XKey (PvBool _) => true
  | XKey (PvInt z) => Nat.leb (int_digits z) MAXDIGITS
  | XKey (PvFloat neg m) => float_text_ok neg m
  | XKey (PvStr s) => str_ok s
  | XKey (PvBytes s) => bytes_ok s
  | XKey _ => false
  end.
Definition xpath_ok (ks : list xkey) : bool := forallb xkey_ok ks.

(* ------------------------------------------------------------------ *)
(* stringify_path over the extended elements                           *)
(* ------------------------------------------------------------------ *)
(* f"{element}" = str(element): repr for the non-str keys; None: it raises (int digit limit) *)
Definition stringify_xel (qs : quote_fmt) (e : xelement) : option pystr :=
  let '(v, act) := e in
  let txt := match v, act with
             | PvStr s, GET => Some (stringify_element s qs)
             | _, _ => repr_pval v
             end in
  match txt with
  | None => None
  | Some t => Some (match act with GET => [cLB] ++ t ++ [cRB] | GETATTR => cDOT :: t end)
  end.
Fixpoint stringify_xels_go (els : list xelement) (acc : pystr) : option pystr :=
  match els with
  | [] => Some acc
  | e :: r => match stringify_xel QS e with
              | Some t => stringify_xels_go r (acc ++ t)
              | None => None
              end
  end.
(* stringify_path(path_with_actions) *)
Definition stringify_xels (els : list xelement) : option pystr := stringify_xels_go els root_str.

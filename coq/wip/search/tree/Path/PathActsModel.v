(** C09 - parse_path / stringify_path with all their arguments.  Definitions only.

    parse_path(path, root_element, include_actions)   (deepdiff/path.py)
    stringify_path(path, root_element, quote_str)     with the `has_actions` sniffing
        try:    if path[0][1] in {GET, GETATTR}: has_actions = True
        except (KeyError, IndexError, TypeError): pass
    A `path` argument is a Python list whose items are keys (atoms) or 2-tuples
    (element, action). *)
From Coq Require Import List ZArith NArith Bool String.
Import ListNotations.
From DD Require Import Base.Sx Base.PyStr Base.Value Path.PathModel Path.PathCacheModel.
Local Open Scope N_scope.

(* ---- parse_path ---- *)
Inductive pp_result :=
| PPKeys (l : list atom)                 (* include_actions=False: [i[0] for i in result] *)
| PPDicts (l : list element).            (* include_actions=True: [{'element': i[0], 'action': i[1]} ...] *)

Definition mk_root_element (r : pystr * action) : element := (AStr (fst r), snd r).

(* _path_to_elements(path, root_element) on a str *)
Definition elements_with_root (p : pystr) (re : rootarg) : option (list element) :=
  match elements p with
  | None => None
  | Some els => Some (match re with Some r => mk_root_element r :: els | None => els end)
  end.

Definition parse_path_full (p : pystr) (re : rootarg) (include_actions : bool) : option pp_result :=
  match elements_with_root p re with
  | None => None
  | Some all =>
      let rest := match re with Some _ => tl all | None => all end in      (* if root_element: next(result) *)
      Some (if include_actions then PPDicts rest else PPKeys (map fst rest))
  end.

(* ---- stringify_path ---- *)
Inductive sp_item :=
| SPKey (a : atom)                       (* a bare key *)
| SPPair (a : atom) (act : action).      (* the tuple (element, action) *)

Definition action_str (a : action) : pystr := match a with GET => s2p "GET" | GETATTR => s2p "GETATTR" end.

(* path[0][1] *)
Inductive idx1 :=
| I1Str (s : pystr)          (* a str *)
| I1Int                      (* an int (indexing bytes) *)
| I1Raise.                   (* IndexError / TypeError: caught *)
Definition index1 (it : sp_item) : idx1 :=
  match it with
  | SPPair _ act => I1Str (action_str act)
  | SPKey (AStr s) => match s with _ :: c :: _ => I1Str [c] | _ => I1Raise end
  | SPKey (ABytes s) => match s with _ :: _ :: _ => I1Int | _ => I1Raise end
  | SPKey _ => I1Raise
  end.
(* ... in {GET, GETATTR} *)
Definition has_actions (path : list sp_item) : bool :=
  match path with
  | [] => false
  | it :: _ => match index1 it with
               | I1Str s => pystr_eqb s (action_str GET) || pystr_eqb s (action_str GETATTR)
               | I1Int | I1Raise => false
               end
  end.

Definition all_pairs (path : list sp_item) : option (list element) :=
  fold_right (fun it acc => match it, acc with
                            | SPPair a act, Some l => Some ((a, act) :: l)
                            | _, _ => None
                            end) (Some []) path.
Definition all_keys (path : list sp_item) : option (list atom) :=
  fold_right (fun it acc => match it, acc with
                            | SPKey a, Some l => Some (a :: l)
                            | _, _ => None
                            end) (Some []) path.

(* None: the call raises, or an item is used in a way the model does not follow
   (a tuple printed as an element, a key unpacked as a pair) *)
Definition stringify_path_gen (path : list sp_item) (re : pystr * action) (qs : quote_fmt) : option pystr :=
  match path with
  | [] => Some (fst re)                                              (* if not path: return root_element[0] *)
  | _ =>
      let els :=
        if has_actions path then all_pairs path
        else match all_keys path with
             | Some (a :: r) => Some ((a, snd re) :: map (fun k => (k, GET)) r)
             | _ => None
             end in
      match els with
      | Some l => Some (fst re ++ flat_map (stringify_el qs) l)
      | None => None
      end
  end.

Definition QS_DOUBLE : quote_fmt := Some ([cDQ], [cDQ]).             (* quote_str='"{}"' *)

(** C09 - the caches of DiffLevel.path and _path_to_elements are transparent:
    in every trace of calls (interleaved with the caller rewriting lists it was
    given) every call returns what the uncached computation returns. *)
From Coq Require Import List ZArith NArith Bool String Lia.
Import ListNotations.
From DD Require Import Base.Sx Base.PyStr Base.Value Base.ValueFacts
  Path.PathModel Path.PathLex Path.PathProofs Path.PathCacheModel.
Local Open Scope N_scope.

(* ================================================================== *)
(* 1. DiffLevel.path                                                   *)
(* ================================================================== *)

(* the format string of the cache key separates the 24 argument combinations *)
Lemma cache_key_inj (a b : pargs) :
  cache_key a = cache_key b ->
  a_force a = a_force b /\ a_parent a = a_parent b /\ a_t2 a = a_t2 b /\ a_fmt a = a_fmt b.
Proof.
  destruct a as [ra fa pa ta ma], b as [rb fb pb tb mb]. unfold cache_key. cbn [a_force a_parent a_t2 a_fmt].
  destruct fa, pa, ta, ma, fb, pb, tb, mb; vm_compute; intros H;
    first [discriminate H | repeat split; reflexivity].
Qed.

Section PathCallFacts.
  Variable K : Type.
  Variable krepr : K -> option pystr.
  Notation link := (link K).
  Notation cached := (cached K).
  Notation pcache := (pcache K).

  (* what a call with arguments a stores *)
  Definition entry_of (ls : list link) (a : pargs) : cached :=
    let '(parent, param, r) := walk_str K krepr ls (a_t2 a) [] None [] in
    if a_parent a then CTriple parent param r else CStr r.

  (* every entry of self._path is the entry of a string-format call with that key *)
  Definition pc_inv (ls : list link) (c : pcache) : Prop :=
    forall key e, pc_get K key c = Some e ->
      exists a, key = cache_key a /\ a_fmt a = FmtStr /\ e = entry_of ls a.

  Lemma pc_inv_nil ls : pc_inv ls [].
  Proof. intros key e H. discriminate H. Qed.

  Lemma pc_get_set_same key v c : pc_get K key (pc_set K key v c) = Some v.
  Proof. unfold pc_set. cbn [pc_get]. now rewrite pystr_eqb_refl. Qed.

  Lemma pc_get_filter key key' c :
    pystr_eqb key' key = false ->
    pc_get K key (filter (fun e => negb (pystr_eqb (fst e) key')) c) = pc_get K key c.
  Proof.
    intros Hne. induction c as [|[k v] r IH]; [reflexivity|]. cbn [filter fst pc_get].
    destruct (pystr_eqb k key') eqn:E1; cbn [negb].
    - apply pystr_eqb_eq in E1. subst k. rewrite Hne. exact IH.
    - cbn [pc_get]. destruct (pystr_eqb k key); [reflexivity|exact IH].
  Qed.

  Lemma pc_get_set_other key key' v c :
    pystr_eqb key' key = false -> pc_get K key (pc_set K key' v c) = pc_get K key c.
  Proof. intros H. unfold pc_set. cbn [pc_get]. rewrite H. now apply pc_get_filter. Qed.

  Lemma pc_inv_set ls c a :
    pc_inv ls c -> a_fmt a = FmtStr -> pc_inv ls (pc_set K (cache_key a) (entry_of ls a) c).
  Proof.
    intros Hinv Hf key e H.
    destruct (pystr_eqb (cache_key a) key) eqn:E.
    - apply pystr_eqb_eq in E. subst key. rewrite pc_get_set_same in H. inversion H. subst e.
      exists a. repeat split; assumption.
    - rewrite pc_get_set_other in H by exact E. now apply Hinv.
  Qed.

  Lemma entry_of_ext ls a b :
    a_parent a = a_parent b -> a_t2 a = a_t2 b -> entry_of ls a = entry_of ls b.
  Proof. intros H1 H2. unfold entry_of. now rewrite H1, H2. Qed.

  (* one call: the cache does not show *)
  Theorem path_call_pure ls c a :
    pc_inv ls c ->
    fst (path_call K krepr ls c a) = path_pure K krepr ls a /\ pc_inv ls (snd (path_call K krepr ls c a)).
  Proof.
    intros Hinv. unfold path_call, path_pure.
    destruct (pc_get K (cache_key a) c) as [e|] eqn:G.
    - destruct (Hinv _ _ G) as (b & Hk & Hfb & He).
      destruct (cache_key_inj a b Hk) as (_ & Hp & Ht & Hm).
      rewrite Hm, Hfb. subst e. rewrite <- (entry_of_ext ls a b Hp Ht). unfold entry_of.
      destruct (walk_str K krepr ls (a_t2 a) [] None []) as [[parent param] r].
      destruct (a_parent a); cbn [fst snd]; split; (reflexivity || exact Hinv).
    - destruct (a_fmt a) eqn:Hf.
      + pose proof (pc_inv_set ls c a Hinv Hf) as Hs. unfold entry_of in Hs.
        destruct (walk_str K krepr ls (a_t2 a) [] None []) as [[parent param] r].
        destruct (a_parent a); cbn [fst snd]; split; (reflexivity || exact Hs).
      + cbn [fst snd]. split; [reflexivity|exact Hinv].
  Qed.

  (* a wrongly shaped entry is never unpacked *)
  Corollary path_call_never_confused ls c a : pc_inv ls c -> fst (path_call K krepr ls c a) <> PConfused.
  Proof.
    intros Hinv. rewrite (proj1 (path_call_pure ls c a Hinv)). unfold path_pure.
    destruct (a_fmt a); [|discriminate].
    destruct (walk_str K krepr ls (a_t2 a) [] None []) as [[parent param] r]. destruct (a_parent a); discriminate.
  Qed.

  (* ---- traces ---- *)
  (* what the trace returns when no level has a cache: call i depends on its own
     arguments only (and a returned list is the next fresh object) *)
  Fixpoint pspec (ls : list link) (n : nat) (ops : list (pop K)) : list (pret K) :=
    match ops with
    | [] => []
    | OCall a :: r =>
        match path_pure K krepr ls a with
        | PList l => RListObj n l :: pspec ls (S n) r
        | x => RVal x :: pspec ls n r
        end
    | OMutate _ _ :: r => RNothing :: pspec ls n r
    end.

  Lemma set_nth_length {A} (n : nat) (x : A) (l : list A) : List.length (set_nth n x l) = List.length l.
  Proof. revert n. induction l as [|y r IH]; intros [|n]; cbn; try reflexivity. now rewrite IH. Qed.

  Theorem prun_pure ls : forall ops w,
    pc_inv ls (pw_cache K w) ->
    fst (prun K krepr ls w ops) = pspec ls (List.length (pw_heap K w)) ops.
  Proof.
    induction ops as [|o r IH]; intros w Hinv; [reflexivity|].
    cbn [prun pspec]. destruct o as [a|id l].
    - cbn [pstep]. destruct (path_call_pure ls (pw_cache K w) a Hinv) as [E Hinv'].
      destruct (path_call K krepr ls (pw_cache K w) a) as [res c'] eqn:PC. cbn [fst snd] in E, Hinv'.
      rewrite <- E.
      destruct res as [s|p1 p2 p3|l|].
      + specialize (IH (mk_pworld c' (pw_heap K w)) Hinv').
        destruct (prun K krepr ls (mk_pworld c' (pw_heap K w)) r) as [xs w'']. cbn [fst] in *. now rewrite IH.
      + specialize (IH (mk_pworld c' (pw_heap K w)) Hinv').
        destruct (prun K krepr ls (mk_pworld c' (pw_heap K w)) r) as [xs w'']. cbn [fst] in *. now rewrite IH.
      + specialize (IH (mk_pworld c' (pw_heap K w ++ [l])) Hinv').
        destruct (prun K krepr ls (mk_pworld c' (pw_heap K w ++ [l])) r) as [xs w'']. cbn [fst pw_heap] in *.
        rewrite IH, app_length. cbn [List.length]. now rewrite Nat.add_1_r.
      + specialize (IH (mk_pworld c' (pw_heap K w)) Hinv').
        destruct (prun K krepr ls (mk_pworld c' (pw_heap K w)) r) as [xs w'']. cbn [fst] in *. now rewrite IH.
    - cbn [pstep].
      specialize (IH (mk_pworld (pw_cache K w) (set_nth id l (pw_heap K w))) Hinv).
      destruct (prun K krepr ls (mk_pworld (pw_cache K w) (set_nth id l (pw_heap K w))) r) as [xs w''].
      cbn [fst pw_heap] in *. now rewrite IH, set_nth_length.
  Qed.

  (* the invariant survives whole traces (for statements about a call after a history) *)
  Lemma prun_inv ls : forall ops w, pc_inv ls (pw_cache K w) -> pc_inv ls (pw_cache K (snd (prun K krepr ls w ops))).
  Proof.
    induction ops as [|o r IH]; intros w Hinv; [exact Hinv|].
    cbn [prun]. destruct o as [a|id l].
    - cbn [pstep]. destruct (path_call_pure ls (pw_cache K w) a Hinv) as [_ Hinv'].
      destruct (path_call K krepr ls (pw_cache K w) a) as [res c']. cbn [snd] in Hinv'.
      destruct res as [s|p1 p2 p3|l|];
        match goal with |- context [prun K krepr ls ?W r] =>
          specialize (IH W Hinv'); destruct (prun K krepr ls W r) as [xs w'']; exact IH end.
    - cbn [pstep].
      specialize (IH (mk_pworld (pw_cache K w) (set_nth id l (pw_heap K w))) Hinv).
      destruct (prun K krepr ls (mk_pworld (pw_cache K w) (set_nth id l (pw_heap K w))) r) as [xs w'']. exact IH.
  Qed.

  (* a list a call returns is a new object: no earlier result is that object *)
  Fixpoint ids_below (n : nat) (rs : list (pret K)) : Prop :=
    match rs with
    | [] => True
    | RListObj id _ :: r => (id < n)%nat /\ ids_below n r
    | _ :: r => ids_below n r
    end.
  Fixpoint fresh_lists (n : nat) (rs : list (pret K)) : Prop :=
    match rs with
    | [] => True
    | RListObj id _ :: r => id = n /\ fresh_lists (S n) r
    | _ :: r => fresh_lists n r
    end.
  Lemma pspec_fresh ls : forall ops n, fresh_lists n (pspec ls n ops).
  Proof.
    induction ops as [|o r IH]; intros n; [exact I|]. destruct o as [a|id l]; cbn [pspec].
    - destruct (path_pure K krepr ls a); cbn [fresh_lists]; try apply IH. split; [reflexivity|apply IH].
    - apply IH.
  Qed.
End PathCallFacts.

(* ---- the property's domain: keys and indexes ---- *)
Lemma walk_str_pkey (ls : list (link pkey)) (t2 : bool) : forall parent param acc,
  snd (walk_str pkey krepr_pkey ls t2 parent param acc)
  = Some (acc ++ flat_map render_key (walk_list pkey ls t2)).
Proof.
  induction ls as [|l r IH]; intros parent param acc; cbn [walk_str walk_list].
  - cbn. now rewrite app_nil_r.
  - destruct (next_rel pkey t2 l) as [k|]; [|cbn; now rewrite app_nil_r].
    unfold krepr_pkey at 1. rewrite IH. cbn [flat_map]. now rewrite app_assoc.
Qed.

Lemma walk_list_links_of (ks : path) (t2 : bool) : walk_list pkey (links_of ks) t2 = ks.
Proof.
  induction ks as [|k r IH]; [reflexivity|]. cbn [links_of map walk_list]. fold (links_of r).
  unfold next_rel. cbn [l_t1 l_t2]. destruct t2; now rewrite IH.
Qed.

Definition str_args (f : force_t) (t2 : bool) : pargs := mk_pargs root_str f false t2 FmtStr.
Definition list_args (f : force_t) (p t2 : bool) : pargs := mk_pargs root_str f p t2 FmtList.

(* for ANY chain of levels (the two sides may name different params, one side may be
   missing): the string form is the rendering of the list form *)
Theorem path_str_is_render_of_list (ls : list (link pkey)) (f : force_t) (t2 : bool) :
  path_pure pkey krepr_pkey ls (str_args f t2)
  = PStr (Some (render (walk_list pkey ls t2))).
Proof.
  unfold path_pure, str_args. cbn [a_fmt a_t2 a_parent a_root].
  pose proof (walk_str_pkey ls t2 [] None []) as H.
  destruct (walk_str pkey krepr_pkey ls t2 [] None []) as [[parent param] r]. cbn [snd] in H. subst r.
  reflexivity.
Qed.

(* after ANY history of calls and list rewrites on the level: the list form is what
   parse_path makes of the string form, and it is the key sequence *)
Theorem list_form_is_parse_of_string_form
  (ls : list (link pkey)) (ops : list (pop pkey)) (f1 f2 : force_t) (p2 t2 : bool) :
  path_ok (walk_list pkey ls t2) = true ->
  let w := snd (prun pkey krepr_pkey ls (mk_pworld [] []) ops) in
  exists p l,
    fst (path_call pkey krepr_pkey ls (pw_cache pkey w) (str_args f1 t2)) = PStr (Some p) /\
    fst (path_call pkey krepr_pkey ls (pw_cache pkey w) (list_args f2 p2 t2)) = PList l /\
    parse p = Some (norm l).
Proof.
  intros Hok w.
  assert (Hinv : pc_inv pkey krepr_pkey ls (pw_cache pkey w)).
  { apply prun_inv. apply pc_inv_nil. }
  exists (render (walk_list pkey ls t2)), (walk_list pkey ls t2).
  rewrite (proj1 (path_call_pure pkey krepr_pkey ls _ (str_args f1 t2) Hinv)).
  rewrite (proj1 (path_call_pure pkey krepr_pkey ls _ (list_args f2 p2 t2) Hinv)).
  rewrite path_str_is_render_of_list. repeat split. now apply parse_render.
Qed.

Corollary list_form_is_key_sequence (ks : path) (ops : list (pop pkey)) (f : force_t) (p t2 : bool) :
  let w := snd (prun pkey krepr_pkey (links_of ks) (mk_pworld [] []) ops) in
  fst (path_call pkey krepr_pkey (links_of ks) (pw_cache pkey w) (list_args f p t2)) = PList ks.
Proof.
  intros w.
  assert (Hinv : pc_inv pkey krepr_pkey (links_of ks) (pw_cache pkey w)).
  { apply prun_inv. apply pc_inv_nil. }
  rewrite (proj1 (path_call_pure pkey krepr_pkey _ _ (list_args f p t2) Hinv)).
  unfold path_pure, list_args. cbn [a_fmt a_t2]. now rewrite walk_list_links_of.
Qed.

(* ================================================================== *)
(* 2. _path_to_elements / lru_cache                                    *)
(* ================================================================== *)
Lemma rootarg_eqb_eq (a b : rootarg) : rootarg_eqb a b = true -> a = b.
Proof.
  destruct a as [[s x]|], b as [[t y]|]; cbn; try discriminate; [|reflexivity].
  intros H. apply andb_true_iff in H. destruct H as [H1 H2]. apply pystr_eqb_eq in H1. subst t.
  destruct x, y; try discriminate; reflexivity.
Qed.

Section LruFacts.
  Variable E : Type.
  Variable mk_root : pystr * action -> E.
  Variable parse_raw : pystr -> option (list E).
  Variable maxsize : nat.
  Notation hobj := (hobj E).
  Notation lworld := (lworld E).
  Notation lkey_eqb := PathCacheModel.lkey_eqb.

  Lemma lkey_eqb_eq (a b : lkey) : lkey_eqb a b = true -> a = b.
  Proof.
    destruct a as [p r], b as [q s]. unfold PathCacheModel.lkey_eqb. cbn. intros H. apply andb_true_iff in H. destruct H as [H1 H2].
    apply pystr_eqb_eq in H1. apply rootarg_eqb_eq in H2. now subst.
  Qed.

  (* a cache entry points to a TUPLE holding what the uncached function computes *)
  Definition entry_ok (heap : list hobj) (e : lkey * nat) : Prop :=
    exists els, pte_pure E mk_root parse_raw (fst (fst e)) (snd (fst e)) = Some els /\
                nth_error heap (snd e) = Some (HTuple els).
  Definition lw_inv (w : lworld) : Prop := Forall (entry_ok (lw_heap E w)) (lw_cache E w).

  Lemma lc_find_In k c id : lc_find k c = Some id -> In (k, id) c.
  Proof.
    induction c as [|[k' i] r IH]; [discriminate|]. cbn.
    destruct (lkey_eqb k' k) eqn:Ek.
    - intros H. inversion H. subst i. apply lkey_eqb_eq in Ek. subst k'. now left.
    - intros H. right. now apply IH.
  Qed.

  Lemma entry_ok_app heap ob e : entry_ok heap e -> entry_ok (heap ++ [ob]) e.
  Proof.
    intros (els & H1 & H2). exists els. split; [exact H1|].
    rewrite nth_error_app1; [exact H2|]. apply nth_error_Some. now rewrite H2.
  Qed.

  Lemma nth_error_set_nth_other {A} (l : list A) : forall i j x, i <> j -> nth_error (set_nth i x l) j = nth_error l j.
  Proof.
    induction l as [|y r IH]; intros [|i] [|j] x Hne; cbn; try reflexivity; try congruence.
    apply IH. congruence.
  Qed.

  Lemma entry_ok_mutate heap id old l e :
    nth_error heap id = Some (HList old) -> entry_ok heap e -> entry_ok (set_nth id (HList l) heap) e.
  Proof.
    intros Hid (els & H1 & H2). exists els. split; [exact H1|].
    rewrite nth_error_set_nth_other; [exact H2|]. intros ->. rewrite Hid in H2. discriminate.
  Qed.

  Lemma Forall_firstn {A} (P : A -> Prop) (n : nat) (l : list A) : Forall P l -> Forall P (firstn n l).
  Proof. revert n. induction l as [|x r IH]; intros [|n] H; cbn; try constructor; inversion H; subst; auto. Qed.
  Lemma Forall_filter {A} (P : A -> Prop) (f : A -> bool) (l : list A) : Forall P l -> Forall P (filter f l).
  Proof. induction 1 as [|x r Hx Hr IH]; cbn; [constructor|]. destruct (f x); [constructor|]; assumption. Qed.

  (* what a call must return *)
  Definition lret_ok (w : lworld) (o : lop E) (r : lret E) : Prop :=
    match o with
    | LCall p re =>
        match pte_pure E mk_root parse_raw p re with
        | Some els => exists id, r = LRet id (HTuple els)      (* an immutable object with the uncached content *)
        | None => r = LRaise
        end
    | LCallObj id _ =>
        match nth_error (lw_heap E w) id with
        | Some ob => r = LRet id ob                              (* the caller's own object, untouched *)
        | None => r = LRaise
        end
    | _ => True
    end.

  Theorem lstep_ok (w : lworld) (o : lop E) :
    lw_inv w ->
    lret_ok w o (fst (lstep E mk_root parse_raw maxsize w o)) /\ lw_inv (snd (lstep E mk_root parse_raw maxsize w o)).
  Proof.
    intros Hinv. unfold lstep, lstep_gen. destruct o as [p re|id re|ob|id l]; cbn [lret_ok].
    - destruct (lc_find (p, re) (lw_cache E w)) as [id|] eqn:F.
      + pose proof (lc_find_In _ _ _ F) as Hin.
        pose proof (proj1 (Forall_forall _ _) Hinv _ Hin) as (els & H1 & H2). cbn [fst snd] in H1, H2.
        rewrite H1, H2. cbn [fst snd]. split; [now exists id|].
        unfold lw_inv. cbn [lw_cache lw_heap]. constructor.
        * exists els. now split.
        * apply Forall_filter. exact Hinv.
      + destruct (pte_pure E mk_root parse_raw p re) as [els|] eqn:P; cbn [fst snd]; [|split; [reflexivity|exact Hinv]].
        split; [now eexists|].
        unfold lw_inv. cbn [lw_cache lw_heap]. apply Forall_firstn. constructor.
        * exists els. cbn [fst snd]. split; [exact P|]. rewrite nth_error_app2 by lia. now rewrite Nat.sub_diag.
        * eapply Forall_impl; [|exact Hinv]. intros e. apply entry_ok_app.
    - destruct (nth_error (lw_heap E w) id); cbn [fst snd]; split; (reflexivity || exact Hinv).
    - cbn [fst snd]. split; [exact I|]. unfold lw_inv. cbn [lw_cache lw_heap].
      eapply Forall_impl; [|exact Hinv]. intros e. apply entry_ok_app.
    - destruct (nth_error (lw_heap E w) id) as [[els|old]|] eqn:N; cbn [fst snd]; split; try exact I; try exact Hinv.
      unfold lw_inv. cbn [lw_cache lw_heap]. eapply Forall_impl; [|exact Hinv]. intros e. now apply entry_ok_mutate with old.
  Qed.

  (* every call of every trace *)
  Fixpoint ltrace_ok (w : lworld) (ops : list (lop E)) : Prop :=
    match ops with
    | [] => True
    | o :: r => lret_ok w o (fst (lstep E mk_root parse_raw maxsize w o))
                /\ ltrace_ok (snd (lstep E mk_root parse_raw maxsize w o)) r
    end.

  Theorem lrun_ok : forall ops w, lw_inv w -> ltrace_ok w ops.
  Proof.
    induction ops as [|o r IH]; intros w Hinv; [exact I|]. cbn [ltrace_ok].
    destruct (lstep_ok w o Hinv) as [H1 H2]. split; [exact H1|now apply IH].
  Qed.

  Lemma lw_inv_init : lw_inv (lw_init E).
  Proof. constructor. Qed.
End LruFacts.

(* ---- the instance: elements of PathModel ---- *)
Definition mk_root_el (r : pystr * action) : element := (AStr (fst r), snd r).
Definition parse_raw_el (p : pystr) : option (list element) := finish (run init_pst (skipn 4 p)).
Lemma parse_raw_el_elements (p : pystr) : parse_raw_el p = elements p.
Proof. reflexivity. Qed.

Definition root1 : pystr := s2p "root[1]".
(* the trace of finding F9: call, the caller empties the returned object, call again *)
Definition f9_trace : list (lop element) := [LCall root1 None; LMutate 0%nat []; LCall root1 None].

(* the variant that cached and returned the LIST serves the caller's rewrite to the next caller *)
Lemma f9_variant_refuted :
  nth 2%nat (fst (lrun_gen element mk_root_el parse_raw_el 8 true (lw_init element) f9_trace)) LNone
  = LRet 0%nat (HList [])
  /\ pte_pure element mk_root_el parse_raw_el root1 None = Some [(AInt 1, GET)].
Proof. split; vm_compute; reflexivity. Qed.
(* the code (tuple) on the same trace *)
Lemma f9_trace_code :
  fst (lrun element mk_root_el parse_raw_el 8 (lw_init element) f9_trace)
  = [LRet 0%nat (HTuple [(AInt 1, GET)]); LRaise; LRet 0%nat (HTuple [(AInt 1, GET)])].
Proof. vm_compute. reflexivity. Qed.

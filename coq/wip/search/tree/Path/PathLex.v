(** C09 - lemmas about the printer's texts and the model of ast.literal_eval:
    decimal printing reads back, repr of every non-string atom evaluates to the
    atom, a quoted string evaluates to its content (or fails, in which case
    _add_to_elements strips the quotes): [add_repr], [add_quoted]. *)
From Coq Require Import List ZArith NArith Bool String Lia ZifyBool.
Import ListNotations.
From DD Require Import Base.Sx Base.PyStr Base.Value Path.PathModel.
Local Open Scope N_scope.

(* ------------------------------------------------------------------ *)
(* generic list facts                                                  *)
(* ------------------------------------------------------------------ *)
Lemma span_all {A} (p : A -> bool) (l : list A) :
  forallb p l = true -> span p l = (l, []).
Proof.
  induction l as [|x r IH]; cbn; intros H; [reflexivity|].
  apply andb_true_iff in H. destruct H as [Hx Hr]. rewrite Hx, (IH Hr). reflexivity.
Qed.

Lemma span_app_stop {A} (p : A -> bool) (l : list A) (x : A) (r : list A) :
  forallb p l = true -> p x = false -> span p (l ++ x :: r) = (l, x :: r).
Proof.
  induction l as [|y l IH]; cbn; intros H Hx.
  - rewrite Hx. reflexivity.
  - apply andb_true_iff in H. destruct H as [Hy Hl]. rewrite Hy, (IH Hl Hx). reflexivity.
Qed.

Lemma span_hd_stop {A} (p : A -> bool) (x : A) (r : list A) :
  p x = false -> span p (x :: r) = ([], x :: r).
Proof. intros H. cbn. rewrite H. reflexivity. Qed.

Lemma rspan_last_stop {A} (p : A -> bool) (l : list A) (x : A) :
  p x = false -> rspan p (l ++ [x]) = (l ++ [x], []).
Proof.
  intros H. unfold rspan. rewrite rev_app_distr. cbn. rewrite H. cbn.
  rewrite rev_involutive. reflexivity.
Qed.

Lemma last_app_single {A} (l : list A) (x d : A) : last (l ++ [x]) d = x.
Proof. apply last_last. Qed.

Lemma forallb_last (p : N -> bool) (l : pystr) (d : N) :
  l <> [] -> forallb p l = true -> p (last l d) = true.
Proof.
  intros Hne H. destruct (exists_last Hne) as [l' [x ->]].
  rewrite last_last. rewrite forallb_app in H. apply andb_true_iff in H.
  destruct H as [_ H]. cbn in H. now rewrite andb_true_r in H.
Qed.

Lemma has_char_false_forall (c : N) (s : pystr) :
  has_char c s = false <-> forallb (fun x => negb (x =? c)) s = true.
Proof.
  unfold has_char. induction s as [|x r IH]; cbn; [tauto|].
  rewrite orb_false_iff, andb_true_iff, IH, negb_true_iff, (N.eqb_sym c x). tauto.
Qed.

Lemma existsb_false_forall {A} (p : A -> bool) (l : list A) :
  existsb p l = false <-> forallb (fun x => negb (p x)) l = true.
Proof.
  induction l as [|x r IH]; cbn; [tauto|].
  rewrite orb_false_iff, andb_true_iff, IH, negb_true_iff. tauto.
Qed.

Lemma forallb_impl {A} (p q : A -> bool) (l : list A) :
  (forall x, p x = true -> q x = true) -> forallb p l = true -> forallb q l = true.
Proof.
  intros Hpq. induction l as [|x r IH]; cbn; [auto|].
  intros H. apply andb_true_iff in H. destruct H as [Hx Hr]. now rewrite (Hpq _ Hx), (IH Hr).
Qed.

Lemma pystr_eqb_refl (s : pystr) : pystr_eqb s s = true.
Proof. induction s as [|c r IH]; cbn; [reflexivity|]. fold (pystr_eqb r r). now rewrite N.eqb_refl, IH. Qed.

(* ------------------------------------------------------------------ *)
(* decimal printing                                                    *)
(* ------------------------------------------------------------------ *)
Definition dval (acc : N) (l : pystr) : N := fold_left (fun a c => a * 10 + (c - 48)) l acc.

Lemma digitpart_go_digits (l : pystr) (acc : N) :
  forallb is_digit l = true -> digitpart_go l false acc = Some (dval acc l).
Proof.
  revert acc. induction l as [|c r IH]; cbn; intros acc H; [reflexivity|].
  apply andb_true_iff in H. destruct H as [Hc Hr]. rewrite Hc. apply IH, Hr.
Qed.

Lemma digitpart_digits (l : pystr) :
  l <> [] -> forallb is_digit l = true -> digitpart l = Some (dval 0 l).
Proof.
  destruct l as [|c r]; [congruence|]. intros _ H. cbn in H |- *.
  apply andb_true_iff in H. destruct H as [Hc Hr]. rewrite Hc.
  now rewrite digitpart_go_digits.
Qed.

Lemma N_digits_all (fuel : nat) : forall n acc,
  forallb is_digit acc = true -> forallb is_digit (N_digits fuel n acc) = true.
Proof.
  induction fuel as [|f IH]; intros n acc H; [exact H|].
  cbn [N_digits].
  assert (Hd : is_digit (48 + n mod 10) = true).
  { unfold is_digit. assert (n mod 10 < 10) by (apply N.mod_upper_bound; lia). remember (n mod 10) as m. lia. }
  destruct (n <? 10).
  - cbn [forallb]. now rewrite Hd, H.
  - apply IH. cbn [forallb]. now rewrite Hd, H.
Qed.

Lemma N_digits_len (fuel : nat) : forall n acc,
  (List.length acc <= List.length (N_digits fuel n acc))%nat.
Proof.
  induction fuel as [|f IH]; intros n acc; [cbn; lia|].
  cbn [N_digits].
  destruct (n <? 10); [cbn [List.length]; lia|].
  specialize (IH (n / 10) ((48 + n mod 10) :: acc)). cbn [List.length] in IH. lia.
Qed.

Lemma N_digits_nonempty (f : nat) (n : N) (acc : pystr) : N_digits (S f) n acc <> [].
Proof.
  cbn [N_digits]. destruct (n <? 10); [congruence|].
  pose proof (N_digits_len f (n / 10) ((48 + n mod 10) :: acc)) as H.
  destruct (N_digits f (n / 10) ((48 + n mod 10) :: acc)); cbn [List.length] in H; [lia|congruence].
Qed.

Lemma N_digits_val (fuel : nat) : forall n acc,
  n < 2 ^ N.of_nat fuel -> dval 0 (N_digits fuel n acc) = dval n acc.
Proof.
  induction fuel as [|f IH]; intros n acc Hn.
  - change (2 ^ N.of_nat 0) with 1 in Hn. assert (n = 0) by lia. subst. reflexivity.
  - cbn [N_digits]. destruct (N.ltb_spec n 10) as [Hlt|Hge].
    + unfold dval. cbn [fold_left]. f_equal. rewrite N.mod_small by lia. lia.
    + rewrite IH.
      * unfold dval. cbn [fold_left]. f_equal.
        pose proof (N.div_mod n 10 ltac:(lia)) as Hdm.
        remember (n / 10) as d. remember (n mod 10) as m. lia.
      * rewrite Nat2N.inj_succ, N.pow_succ_r' in Hn.
        apply N.div_lt_upper_bound; lia.
Qed.

Lemma N_digits_hd (fuel : nat) : forall n acc,
  0 < n -> n < 2 ^ N.of_nat fuel -> (hd 0 (N_digits fuel n acc) =? 48) = false.
Proof.
  induction fuel as [|f IH]; intros n acc Hpos Hn.
  - change (2 ^ N.of_nat 0) with 1 in Hn. lia.
  - cbn [N_digits]. destruct (N.ltb_spec n 10) as [Hlt|Hge].
    + cbn [hd]. rewrite N.mod_small by lia. lia.
    + apply IH.
      * apply N.div_str_pos. lia.
      * rewrite Nat2N.inj_succ, N.pow_succ_r' in Hn. apply N.div_lt_upper_bound; lia.
Qed.

Lemma fuel_ok (n : N) : n < 2 ^ N.of_nat (S (N.to_nat (N.log2 n))).
Proof.
  rewrite Nat2N.inj_succ, N2Nat.id.
  destruct n as [|p]; [cbn; lia|]. apply N.log2_spec. lia.
Qed.

Lemma p_of_N_digits (n : N) : forallb is_digit (p_of_N n) = true.
Proof. apply N_digits_all. reflexivity. Qed.
Lemma p_of_N_nonempty (n : N) : p_of_N n <> [].
Proof. apply N_digits_nonempty. Qed.
Lemma p_of_N_val (n : N) : dval 0 (p_of_N n) = n.
Proof. unfold p_of_N. rewrite N_digits_val by apply fuel_ok. reflexivity. Qed.
Lemma p_of_N_hd (n : N) : 0 < n -> (hd 0 (p_of_N n) =? 48) = false.
Proof. intros H. apply N_digits_hd; [exact H|apply fuel_ok]. Qed.
Lemma p_of_N_0 : p_of_N 0 = [48].
Proof. reflexivity. Qed.

Lemma p_of_Z_of_N (n : N) : p_of_Z (Z.of_N n) = p_of_N n.
Proof. destruct n; reflexivity. Qed.

(* ------------------------------------------------------------------ *)
(* literal_eval on texts without surrounding white space              *)
(* ------------------------------------------------------------------ *)
Lemma literal_eval_core (e : pystr) :
  e <> [] -> is_ws (hd 0 e) = false -> is_ws (last e 0) = false ->
  literal_eval e = core_eval e.
Proof.
  intros Hne Hh Hl. unfold literal_eval.
  destruct e as [|c r]; [congruence|]. cbn in Hh.
  rewrite span_hd_stop by exact Hh.
  destruct (exists_last Hne) as [l' [x Hx]]. rewrite Hx in Hl |- *.
  rewrite last_last in Hl. rewrite rspan_last_stop by exact Hl.
  destruct (l' ++ [x]) eqn:E; [destruct l'; discriminate|]. reflexivity.
Qed.

(* characters of the repr of a number: digits, minus, dot *)
Definition numch (c : N) : bool := is_digit c || (c =? cMINUS) || (c =? cDOT).

Lemma numch_facts (c : N) : numch c = true ->
  is_ws c = false /\ is_quote c = false /\ exotic c = false /\ (c =? cLB) = false /\
  (c =? cRB) = false /\ (c =? cESC) = false /\ (c =? cBS) = false /\ (c =? cUS) = false.
Proof.
  unfold numch, is_digit, is_ws, is_quote, exotic, cMINUS, cDOT, cLB, cRB, cESC, cBS, cUS, cSQ, cDQ, cNL.
  intros H. repeat split; lia.
Qed.

Lemma core_eval_number (e : pystr) :
  is_digit (hd 0 e) || (hd 0 e =? cMINUS) = true ->
  forallb numch e = true -> core_eval e = number_eval e.
Proof.
  intros Hh H. unfold core_eval.
  assert (Hq : existsb is_quote e = false).
  { apply existsb_false_forall. eapply forallb_impl; [|exact H]. intros x Hx.
    apply numch_facts in Hx. now rewrite (proj1 (proj2 Hx)). }
  assert (Hex : existsb exotic e = false).
  { apply existsb_false_forall. eapply forallb_impl; [|exact H]. intros x Hx.
    apply numch_facts in Hx. destruct Hx as (_ & _ & Hx & _). now rewrite Hx. }
  assert (Hb : has_char cLB e = false).
  { apply has_char_false_forall. eapply forallb_impl; [|exact H]. intros x Hx.
    apply numch_facts in Hx. destruct Hx as (_ & _ & _ & Hx & _). now rewrite Hx. }
  rewrite Hq, Hex, Hb. cbn [andb orb].
  destruct e as [|c r]; [discriminate|]. cbn [hd] in Hh.
  assert (Hn : (c =? 78) = false /\ (c =? 84) = false /\ (c =? 70) = false /\ (c =? 46) = false).
  { unfold is_digit, cMINUS in Hh. lia. }
  destruct Hn as (H1 & H2 & H3 & H4).
  cbn. rewrite H1, H2, H3, H4. reflexivity.
Qed.

(* ------------------------------------------------------------------ *)
(* numbers                                                             *)
(* ------------------------------------------------------------------ *)
Definition numbody (c : N) : bool := is_digit c || (c =? cUS) || (c =? cDOT).

Lemma digits_nondot (l : pystr) :
  forallb is_digit l = true -> forallb (fun c => negb (c =? cDOT)) l = true.
Proof. apply forallb_impl. intros x. unfold is_digit, cDOT. lia. Qed.

Lemma number_eval_pos (c : N) (r : pystr) :
  is_digit c = true -> forallb numbody (c :: r) = true ->
  number_eval (c :: r) = lex_number (c :: r).
Proof.
  intros Hc H. unfold number_eval.
  assert (H1 : (c =? cMINUS) = false) by (unfold is_digit, cMINUS in *; lia).
  assert (H2 : (c =? cPLUS) = false) by (unfold is_digit, cPLUS in *; lia).
  rewrite H1, H2. rewrite Hc. cbn [orb]. fold numbody. rewrite H. reflexivity.
Qed.

Lemma number_eval_neg (c : N) (r : pystr) :
  is_digit c = true -> forallb numbody (c :: r) = true ->
  number_eval (cMINUS :: c :: r) = lit_neg (lex_number (c :: r)).
Proof.
  intros Hc H. unfold number_eval. rewrite N.eqb_refl.
  assert (Hb : is_blank c = false) by (unfold is_digit, is_blank in *; lia).
  rewrite span_hd_stop by exact Hb. cbn [snd]. rewrite Hc. cbn [orb]. fold numbody. rewrite H. reflexivity.
Qed.

Lemma lex_number_digits (n : N) : lex_number (p_of_N n) = LOk (AInt (Z.of_N n)).
Proof.
  unfold lex_number.
  rewrite span_all by (apply digits_nondot, p_of_N_digits).
  rewrite digitpart_digits by (apply p_of_N_nonempty || apply p_of_N_digits).
  rewrite p_of_N_val.
  destruct (N.eq_dec n 0) as [->|Hn]; [reflexivity|].
  rewrite p_of_N_hd by lia. reflexivity.
Qed.

Lemma lex_number_half (n : N) (h : bool) :
  n < 4503599627370496 ->
  lex_number (p_of_N n ++ [cDOT; if h then 53 else 48]) = LOk (AHalf (Z.of_N (2 * n + (if h then 1 else 0)))).
Proof.
  intros Hn. unfold lex_number.
  rewrite span_app_stop; [|apply digits_nondot, p_of_N_digits|reflexivity].
  assert (Hd : has_char cDOT [if h then 53 else 48] = false) by (destruct h; reflexivity).
  rewrite Hd.
  pose proof (p_of_N_nonempty n) as Hne.
  pose proof (digitpart_digits (p_of_N n) Hne (p_of_N_digits n)) as Hdp. rewrite p_of_N_val in Hdp.
  destruct (p_of_N n) as [|c r]; [congruence|].
  rewrite Hdp.
  assert (Hf : digitpart [if h then 53 else 48] = Some (if h then 5 else 0)) by (destruct h; reflexivity).
  rewrite Hf. cbn [negb].
  assert (Hc : frac_class [if h then 53 else 48] = Some h) by (destruct h; reflexivity).
  rewrite Hc.
  destruct (N.ltb_spec n 4503599627370496); [reflexivity|lia].
Qed.

Lemma numbody_of_digits (l : pystr) : forallb is_digit l = true -> forallb numbody l = true.
Proof. apply forallb_impl. intros x Hx. unfold numbody. now rewrite Hx. Qed.

Lemma numch_of_numbody_nous (l : pystr) : forallb is_digit l = true -> forallb numch l = true.
Proof. apply forallb_impl. intros x Hx. unfold numch. now rewrite Hx. Qed.

(* text = optional minus, digits, optionally ".d" *)
Lemma literal_eval_numtext (neg : bool) (body : pystr) :
  is_digit (hd 0 body) = true -> is_digit (last body 0) = true ->
  forallb (fun c => is_digit c || (c =? cDOT)) body = true ->
  literal_eval ((if neg then [cMINUS] else []) ++ body)
  = if neg then lit_neg (lex_number body) else lex_number body.
Proof.
  intros Hh Hl Hall.
  destruct body as [|c r]; [discriminate|]. cbn [hd] in Hh.
  assert (Hnb : forallb numbody (c :: r) = true).
  { eapply forallb_impl; [|exact Hall]. intros x. unfold numbody, is_digit, cUS, cDOT. lia. }
  assert (Hnc : forallb numch (c :: r) = true).
  { eapply forallb_impl; [|exact Hall]. intros x. unfold numch, is_digit, cMINUS, cDOT. lia. }
  assert (Hlast : forall pre, is_ws (last (pre ++ c :: r) 0) = false).
  { intros pre. replace (last (pre ++ c :: r) 0) with (last (c :: r) 0).
    - unfold is_digit, is_ws, cNL in *. lia.
    - clear. induction pre as [|x pre IH]; [reflexivity|]. rewrite IH.
      cbn [app last]. destruct (pre ++ c :: r) eqn:E; [destruct pre; discriminate|reflexivity]. }
  destruct neg.
  - cbn [app]. rewrite literal_eval_core.
    + rewrite core_eval_number.
      * apply number_eval_neg; assumption.
      * cbn [hd]. unfold cMINUS. reflexivity.
      * change (forallb numch (cMINUS :: c :: r)) with (numch cMINUS && forallb numch (c :: r)).
        rewrite Hnc. reflexivity.
    + discriminate.
    + reflexivity.
    + apply (Hlast [cMINUS]).
  - cbn [app]. rewrite literal_eval_core.
    + rewrite core_eval_number.
      * apply number_eval_pos; assumption.
      * cbn [hd]. rewrite Hh. reflexivity.
      * exact Hnc.
    + discriminate.
    + cbn [hd]. unfold is_digit, is_ws, cNL in *. lia.
    + apply (Hlast []).
Qed.

Lemma hd_p_of_N_digit (n : N) : is_digit (hd 0 (p_of_N n)) = true.
Proof.
  pose proof (p_of_N_nonempty n) as Hne. pose proof (p_of_N_digits n) as Hd.
  destruct (p_of_N n) as [|c r]; [congruence|]. cbn in Hd |- *.
  apply andb_true_iff in Hd. tauto.
Qed.

Lemma literal_eval_int (z : Z) : literal_eval (p_of_Z z) = LOk (AInt z).
Proof.
  destruct z as [|p|p].
  - reflexivity.
  - change (p_of_Z (Zpos p)) with ((if false then [cMINUS] else []) ++ p_of_N (Npos p)).
    rewrite literal_eval_numtext.
    + apply lex_number_digits.
    + apply hd_p_of_N_digit.
    + apply forallb_last; [apply p_of_N_nonempty|apply p_of_N_digits].
    + eapply forallb_impl; [|apply p_of_N_digits]. intros x Hx. now rewrite Hx.
  - change (p_of_Z (Zneg p)) with ((if true then [cMINUS] else []) ++ p_of_N (Npos p)).
    rewrite literal_eval_numtext.
    + rewrite lex_number_digits. reflexivity.
    + apply hd_p_of_N_digit.
    + apply forallb_last; [apply p_of_N_nonempty|apply p_of_N_digits].
    + eapply forallb_impl; [|apply p_of_N_digits]. intros x Hx. now rewrite Hx.
Qed.

Lemma literal_eval_half (t : Z) :
  (Z.abs t < 9007199254740992)%Z -> literal_eval (repr_half t) = LOk (AHalf t).
Proof.
  intros Hb. unfold repr_half.
  set (a := Z.abs t). set (n := Z.to_N (a / 2)).
  assert (Ha : (0 <= a)%Z) by (subst a; lia).
  assert (Hn : (a / 2 = Z.of_N n)%Z) by (subst n; rewrite Z2N.id; [reflexivity|apply Z.div_pos; lia]).
  rewrite Hn, p_of_Z_of_N.
  set (h := negb (Z.even a)).
  assert (Hd : (if Z.even a then 48 else 53) = (if h then 53 else 48)) by (subst h; destruct (Z.even a); reflexivity).
  rewrite Hd.
  assert (Hval : Z.of_N (2 * n + (if h then 1 else 0)) = a).
  { rewrite N2Z.inj_add, N2Z.inj_mul, <- Hn. subst h.
    pose proof (Z.div_mod a 2 ltac:(lia)) as Hdm.
    pose proof (Z.mod_pos_bound a 2 ltac:(lia)) as Hmb.
    pose proof (Zmod_even a) as Hme.
    destruct (Z.even a); cbn [negb];
      change (Z.of_N 2) with 2%Z; change (Z.of_N 0) with 0%Z; change (Z.of_N 1) with 1%Z;
      remember (a / 2)%Z as q; remember (a mod 2)%Z as m; lia. }
  assert (Hlt : n < 4503599627370496).
  { apply N2Z.inj_lt. rewrite <- Hn. apply Z.div_lt_upper_bound; subst a; lia. }
  rewrite literal_eval_numtext.
  - rewrite lex_number_half by exact Hlt. rewrite Hval.
    destruct (Z.ltb_spec t 0) as [Hneg|Hpos].
    + cbn [lit_neg]. destruct (Z.eqb_spec a 0) as [E|E]; [subst a; lia|]. f_equal. f_equal. subst a. lia.
    + f_equal. f_equal. subst a. lia.
  - pose proof (hd_p_of_N_digit n) as H. pose proof (p_of_N_nonempty n).
    destruct (p_of_N n); [congruence|exact H].
  - replace (p_of_N n ++ [cDOT; if h then 53 else 48]) with ((p_of_N n ++ [cDOT]) ++ [if h then 53 else 48])
      by (rewrite <- app_assoc; reflexivity).
    rewrite last_last. destruct h; reflexivity.
  - rewrite forallb_app. apply andb_true_iff. split.
    + eapply forallb_impl; [|apply p_of_N_digits]. intros x Hx. now rewrite Hx.
    + destruct h; reflexivity.
Qed.

(* ------------------------------------------------------------------ *)
(* quoted strings                                                      *)
(* ------------------------------------------------------------------ *)
Lemma last_cons_snoc (q : N) (s : pystr) (x : N) : last (q :: s ++ [x]) 0 = x.
Proof. rewrite app_comm_cons. apply last_last. Qed.

Lemma is_quote_not_ws (q : N) : is_quote q = true -> is_ws q = false.
Proof. unfold is_quote, is_ws, cSQ, cDQ, cNL. lia. Qed.

Lemma literal_eval_quoted (q : N) (s : pystr) :
  is_quote q = true -> has_char q s = false ->
  literal_eval (q :: s ++ [q]) = LOk (AStr s) \/ literal_eval (q :: s ++ [q]) = LFail.
Proof.
  intros Hq Hs.
  rewrite literal_eval_core; [|discriminate|cbn [hd]; now apply is_quote_not_ws|
                              rewrite last_cons_snoc; now apply is_quote_not_ws].
  unfold core_eval. cbn [existsb]. rewrite Hq. cbn [orb].
  unfold quoted_eval.
  rewrite span_hd_stop by (now rewrite Hq).
  rewrite rev_unit. rewrite N.eqb_refl, rev_involutive, Hs.
  change (prefix_kind_of []) with PStr. cbv beta iota.
  destruct (existsb _ s); [right|left]; reflexivity.
Qed.

Lemma strip_outer_quoted (q : N) (s : pystr) :
  is_quote q = true -> strip_outer (q :: s ++ [q]) = s.
Proof.
  intros Hq. unfold strip_outer. rewrite Hq, last_cons_snoc, N.eqb_refl. cbn [andb].
  apply removelast_last.
Qed.

(* _add_to_elements on the text of a quoted key: the key itself, by GET *)
Lemma add_quoted (els : list element) (q : N) (s : pystr) :
  is_quote q = true -> has_char q s = false ->
  add_to_elements els (q :: s ++ [q]) IBr = Some (els ++ [(AStr s, GET)]).
Proof.
  intros Hq Hs. unfold add_to_elements.
  assert (Hp : is_prefix [cUS; cUS] (q :: s ++ [q]) = false).
  { cbn [is_prefix]. assert (H : (cUS =? q) = false) by (unfold is_quote, cSQ, cDQ, cUS in *; lia). now rewrite H. }
  rewrite Hp, strip_outer_quoted by exact Hq.
  destruct (has_char cESC (q :: s ++ [q]) || has_char cBS (q :: s ++ [q])); [reflexivity|].
  destruct (literal_eval_quoted q s Hq Hs) as [-> | ->]; reflexivity.
Qed.

(* ------------------------------------------------------------------ *)
(* non-string atoms                                                    *)
(* ------------------------------------------------------------------ *)
(* what the automaton and _add_to_elements need to know about a repr text *)
Definition plainch (c : N) : bool :=
  negb (is_quote c || (c =? cRB) || (c =? cESC) || (c =? cBS)).

Lemma numch_plain (c : N) : numch c = true -> plainch c = true.
Proof.
  intros H. apply numch_facts in H. destruct H as (_ & H1 & _ & _ & H2 & H3 & H4 & _).
  unfold plainch. now rewrite H1, H2, H3, H4.
Qed.

Definition nonstr_ok (a : atom) : bool :=
  match a with
  | ANone | ABool _ | AInt _ => true
  | AHalf t => Z.ltb (Z.abs t) 9007199254740992
  | AStr _ | ABytes _ => false
  end.

Lemma p_of_Z_numch (z : Z) : forallb numch (p_of_Z z) = true.
Proof.
  destruct z as [|p|p]; [reflexivity| |].
  - apply numch_of_numbody_nous, p_of_N_digits.
  - cbn [p_of_Z forallb]. rewrite (numch_of_numbody_nous _ (p_of_N_digits (Npos p))). reflexivity.
Qed.

Lemma repr_half_numch (t : Z) : forallb numch (repr_half t) = true.
Proof.
  unfold repr_half. rewrite !forallb_app. rewrite p_of_Z_numch.
  destruct (t <? 0)%Z; destruct (Z.even (Z.abs t)); reflexivity.
Qed.

Lemma p_of_Z_hd (z : Z) : is_digit (hd 0 (p_of_Z z)) || (hd 0 (p_of_Z z) =? cMINUS) = true.
Proof.
  destruct z as [|p|p]; [reflexivity| |reflexivity].
  change (p_of_Z (Zpos p)) with (p_of_N (Npos p)). now rewrite hd_p_of_N_digit.
Qed.

Lemma repr_plain (a : atom) : nonstr_ok a = true -> forallb plainch (repr_atom a) = true.
Proof.
  destruct a as [|[]|z|t|s|s]; intros H; try discriminate; try reflexivity.
  - eapply forallb_impl; [apply numch_plain|apply p_of_Z_numch].
  - eapply forallb_impl; [apply numch_plain|apply repr_half_numch].
Qed.

Lemma literal_eval_repr (a : atom) : nonstr_ok a = true -> literal_eval (repr_atom a) = LOk a.
Proof.
  destruct a as [|[]|z|t|s|s]; intros H; try discriminate; try reflexivity.
  - apply literal_eval_int.
  - apply literal_eval_half. cbn in H. lia.
Qed.

Lemma repr_nonempty_nous (a : atom) : nonstr_ok a = true ->
  exists c r, repr_atom a = c :: r /\ (c =? cUS) = false.
Proof.
  destruct a as [|[]|z|t|s|s]; intros H; try discriminate.
  - eexists _, _. split; reflexivity.
  - eexists _, _. split; reflexivity.
  - eexists _, _. split; reflexivity.
  - pose proof (p_of_Z_hd z) as Hh. cbn [repr_atom]. destruct (p_of_Z z) as [|c r] eqn:E; [discriminate|].
    exists c, r. split; [reflexivity|]. cbn [hd] in Hh. unfold is_digit, cMINUS, cUS in *. lia.
  - cbn [repr_atom]. unfold repr_half.
    destruct (t <? 0)%Z.
    + eexists _, _. split; [reflexivity|reflexivity].
    + pose proof (p_of_Z_hd (Z.abs t / 2)) as Hh. cbn [app].
      destruct (p_of_Z (Z.abs t / 2)) as [|c r] eqn:E; [discriminate|].
      exists c, (r ++ [cDOT; if Z.even (Z.abs t) then 48 else 53]). split; [reflexivity|].
      cbn [hd] in Hh. unfold is_digit, cMINUS, cUS in *. lia.
Qed.

(* _add_to_elements on the repr of a non-string key: the key itself, by GET *)
Lemma add_repr (els : list element) (a : atom) :
  nonstr_ok a = true ->
  add_to_elements els (repr_atom a) IBr = Some (els ++ [(a, GET)]).
Proof.
  intros H. unfold add_to_elements.
  destruct (repr_nonempty_nous a H) as (c & r & E & Hc).
  pose proof (repr_plain a H) as Hp. pose proof (literal_eval_repr a H) as Hl.
  rewrite E in *.
  assert (Hpre : is_prefix [cUS; cUS] (c :: r) = false).
  { cbn [is_prefix]. rewrite (N.eqb_sym cUS c), Hc. reflexivity. }
  rewrite Hpre.
  assert (He : has_char cESC (c :: r) = false).
  { apply has_char_false_forall. eapply forallb_impl; [|exact Hp]. intros x. unfold plainch.
    destruct (x =? cESC); [rewrite !orb_true_r; discriminate|reflexivity]. }
  assert (Hb : has_char cBS (c :: r) = false).
  { apply has_char_false_forall. eapply forallb_impl; [|exact Hp]. intros x. unfold plainch.
    destruct (x =? cBS); [rewrite !orb_true_r; discriminate|reflexivity]. }
  rewrite He, Hb, Hl. reflexivity.
Qed.

(* ------------------------------------------------------------------ *)
(* bytes keys whose repr needs no escape                               *)
(* ------------------------------------------------------------------ *)
Definition simplech (c : N) : bool := (32 <=? c) && (c <=? 126) && negb (c =? cBS).

Lemma flat_map_single {A} (f : A -> list A) (l : list A) :
  forallb (fun c => match f c with [x] => true | _ => false end) l = true ->
  (forall c, In c l -> forall x, f c = [x] -> x = c) -> flat_map f l = l.
Proof.
  induction l as [|c r IH]; cbn [forallb flat_map]; intros H Hx; [reflexivity|].
  apply andb_true_iff in H. destruct H as [Hc Hr].
  destruct (f c) as [|x [|y t]] eqn:E; try discriminate.
  rewrite (Hx c (or_introl eq_refl) x E). cbn [app]. f_equal.
  apply IH; [exact Hr|]. intros c' Hin. apply Hx. now right.
Qed.

Lemma repr_bytes_simple (s : pystr) :
  bytes_ok s = true ->
  exists q, is_quote q = true /\ has_char q s = false /\ repr_bytes s = 98 :: q :: s ++ [q].
Proof.
  unfold bytes_ok. intros H. apply andb_true_iff in H. destruct H as [Hs Hb].
  apply negb_true_iff in Hb. unfold repr_bytes.
  set (q := if has_char cSQ s && negb (has_char cDQ s) then cDQ else cSQ).
  assert (Hq : is_quote q = true) by (subst q; destruct (has_char cSQ s && negb (has_char cDQ s)); reflexivity).
  assert (Hqs : has_char q s = false).
  { subst q. destruct (has_char cSQ s) eqn:H1; destruct (has_char cDQ s) eqn:H2; cbn [andb negb] in *;
      try discriminate; assumption. }
  exists q. repeat split; [exact Hq|exact Hqs|].
  cbn [app]. f_equal. f_equal. f_equal.
  apply has_char_false_forall in Hqs.
  clear Hb. clearbody q. induction s as [|c r IH]; [reflexivity|].
  cbn [forallb] in Hs, Hqs. apply andb_true_iff in Hs. destruct Hs as [Hc Hr].
  apply andb_true_iff in Hqs. destruct Hqs as [Hcq Hrq].
  cbn [flat_map]. rewrite (IH Hr Hrq).
  assert (E1 : (c =? q) || (c =? cBS) = false) by (unfold cBS in *; lia).
  assert (E2 : (c =? 9) = false) by lia. assert (E3 : (c =? 10) = false) by lia.
  assert (E4 : (c =? 13) = false) by lia. assert (E5 : (c <? 32) || (127 <=? c) = false) by lia.
  rewrite E1, E2, E3, E4, E5. reflexivity.
Qed.

Lemma literal_eval_bytes (q : N) (s : pystr) :
  is_quote q = true -> has_char q s = false -> forallb simplech s = true ->
  literal_eval (98 :: q :: s ++ [q]) = LOk (ABytes s).
Proof.
  intros Hq Hs Hsim.
  rewrite literal_eval_core; [|discriminate|reflexivity|].
  2:{ replace (98 :: q :: s ++ [q]) with ((98 :: q :: s) ++ [q]) by reflexivity.
      rewrite last_last. now apply is_quote_not_ws. }
  unfold core_eval. cbn [existsb]. rewrite Hq. rewrite orb_true_r. cbn [orb].
  unfold quoted_eval.
  replace (98 :: q :: s ++ [q]) with ([98] ++ q :: s ++ [q]) by reflexivity.
  rewrite span_app_stop; [|reflexivity|now rewrite Hq].
  rewrite rev_unit, N.eqb_refl, rev_involutive, Hs.
  change (prefix_kind_of [98]) with PBytes. cbv beta iota.
  assert (H1 : existsb (fun c => (c =? cNL) || (c =? 13) || (c =? 0)) s = false).
  { apply existsb_false_forall. eapply forallb_impl; [|exact Hsim]. intros x. unfold simplech, cNL. lia. }
  assert (H2 : forallb (fun c => c <? 128) s = true).
  { eapply forallb_impl; [|exact Hsim]. intros x. unfold simplech. lia. }
  rewrite H1, H2. reflexivity.
Qed.

Lemma add_bytes (els : list element) (q : N) (s : pystr) :
  is_quote q = true -> has_char q s = false -> forallb simplech s = true ->
  add_to_elements els (98 :: q :: s ++ [q]) IBr = Some (els ++ [(ABytes s, GET)]).
Proof.
  intros Hq Hs Hsim. unfold add_to_elements.
  assert (Hp : is_prefix [cUS; cUS] (98 :: q :: s ++ [q]) = false) by reflexivity.
  rewrite Hp.
  assert (Hno : forall x, (x =? 98) = false -> is_quote q = true -> (q =? x) = false ->
            forallb (fun c => negb (c =? x)) s = true -> has_char x (98 :: q :: s ++ [q]) = false).
  { intros x H98 _ Hqx Hall. apply has_char_false_forall. cbn [forallb].
    rewrite forallb_app, Hall. cbn [forallb]. rewrite (N.eqb_sym 98 x), H98, Hqx. reflexivity. }
  assert (He : has_char cESC (98 :: q :: s ++ [q]) = false).
  { apply Hno; [reflexivity|exact Hq|unfold is_quote, cSQ, cDQ, cESC in *; lia|].
    eapply forallb_impl; [|exact Hsim]. intros x. unfold simplech, cESC. lia. }
  assert (Hb : has_char cBS (98 :: q :: s ++ [q]) = false).
  { apply Hno; [reflexivity|exact Hq|unfold is_quote, cSQ, cDQ, cBS in *; lia|].
    eapply forallb_impl; [|exact Hsim]. intros x. unfold simplech, cBS. lia. }
  rewrite He, Hb. cbn [orb]. rewrite literal_eval_bytes by assumption. reflexivity.
Qed.

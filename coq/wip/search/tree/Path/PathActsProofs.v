(** C09 - parse_path / stringify_path with all their arguments: the sniffing never
    mistakes a key list for an element list, include_actions round trip, and what
    the default root_element does to the first key. *)
From Coq Require Import List ZArith NArith Bool String Lia.
Import ListNotations.
From DD Require Import Base.Sx Base.PyStr Base.Value Base.ValueFacts
  Path.PathModel Path.PathLex Path.PathProofs Path.PathCacheModel Path.PathActsModel.
Local Open Scope N_scope.

(* ---- has_actions ---- *)
(* a key list is never taken for a list of (element, action) pairs, whatever the first key is:
   str keys give a ONE-character string at [1], which is neither 'GET' nor 'GETATTR' *)
Lemma has_actions_keys (keys : list atom) : has_actions (map SPKey keys) = false.
Proof.
  destruct keys as [|a r]; [reflexivity|]. cbn [map has_actions].
  destruct a as [|b|z|t|s|s]; cbn [index1]; try reflexivity.
  - destruct s as [|c0 [|c s']]; try reflexivity.
    assert (H : forall act, pystr_eqb [c] (action_str act) = false).
    { intros act. destruct act; cbn; destruct (c =? 71); reflexivity. }
    now rewrite !H.
  - destruct s as [|c0 [|c s']]; reflexivity.
Qed.

Lemma has_actions_pairs (a : atom) (act : action) (r : list sp_item) : has_actions (SPPair a act :: r) = true.
Proof. destruct act; reflexivity. Qed.

Lemma all_pairs_map (els : list element) : all_pairs (map (fun e => SPPair (fst e) (snd e)) els) = Some els.
Proof. induction els as [|[a act] r IH]; [reflexivity|]. cbn [map all_pairs fold_right fst snd] in *. unfold all_pairs in IH. now rewrite IH. Qed.
Lemma all_keys_map (keys : list atom) : all_keys (map SPKey keys) = Some keys.
Proof. induction keys as [|a r IH]; [reflexivity|]. cbn [map all_keys fold_right] in *. unfold all_keys in IH. now rewrite IH. Qed.

Definition pairs_of (els : list element) : list sp_item := map (fun e => SPPair (fst e) (snd e)) els.

(* with actions: the root's action plays no part *)
Theorem stringify_path_pairs (els : list element) (rn : pystr) (ract : action) (qs : quote_fmt) :
  stringify_path_gen (pairs_of els) (rn, ract) qs = Some (rn ++ flat_map (stringify_el qs) els).
Proof.
  destruct els as [|[a act] r]; [cbn; now rewrite app_nil_r|].
  unfold stringify_path_gen, pairs_of. cbn [map fst snd]. rewrite has_actions_pairs.
  change (SPPair a act :: map (fun e => SPPair (fst e) (snd e)) r) with (map (fun e => SPPair (fst e) (snd e)) ((a, act) :: r)).
  now rewrite all_pairs_map.
Qed.

(* without actions: every key GET except the first, which takes the root's action *)
Theorem stringify_path_keys (k : atom) (r : list atom) (rn : pystr) (ract : action) (qs : quote_fmt) :
  stringify_path_gen (map SPKey (k :: r)) (rn, ract) qs
  = Some (rn ++ flat_map (stringify_el qs) ((k, ract) :: map (fun a => (a, GET)) r)).
Proof.
  unfold stringify_path_gen. rewrite has_actions_keys, all_keys_map. reflexivity.
Qed.

(* the two readings of PathModel are instances *)
Corollary stringify_path_gen_els (els : list element) :
  stringify_path_gen (pairs_of els) (root_str, GETATTR) QS = Some (stringify_els els).
Proof. now rewrite stringify_path_pairs. Qed.

Definition atoms_of (ks : path) : list atom := map key_atom ks.

Corollary stringify_path_gen_keys (ks : path) (first : action) :
  stringify_path_gen (map SPKey (atoms_of ks)) (root_str, first) QS = Some (stringify_keys first ks).
Proof.
  destruct ks as [|k r]; [reflexivity|].
  change (atoms_of (k :: r)) with (key_atom k :: atoms_of r). rewrite stringify_path_keys.
  unfold stringify_keys, stringify_els, atoms_of. cbn [map]. now rewrite !map_map.
Qed.

(* ---- parse_path ---- *)
(* the root element is put in front and taken away again: the result does not depend on it *)
Theorem parse_path_full_root (p : pystr) (re : rootarg) (incl : bool) :
  parse_path_full p re incl = parse_path_full p None incl.
Proof. unfold parse_path_full, elements_with_root. destruct (elements p); [|reflexivity]. destruct re; reflexivity. Qed.

Theorem parse_path_full_keys (p : pystr) (re : rootarg) :
  parse_path_full p re false = option_map (fun els => PPKeys (map fst els)) (elements p).
Proof. rewrite parse_path_full_root. unfold parse_path_full, elements_with_root. destruct (elements p); reflexivity. Qed.

(* include_actions=True on a reported path: every key with action GET *)
Theorem parse_path_actions_render (ks : path) (re : rootarg) :
  path_ok ks = true -> parse_path_full (render ks) re true = Some (PPDicts (els_of ks)).
Proof.
  intros Hok. rewrite parse_path_full_root. unfold parse_path_full, elements_with_root.
  now rewrite (elements_render ks Hok).
Qed.

(* ... and stringify_path of those pairs is the reported path, for every root action *)
Theorem stringify_inverts_parse_actions (ks : path) (re : rootarg) (ract : action) :
  path_ok ks = true ->
  match parse_path_full (render ks) re true with
  | Some (PPDicts els) => stringify_path_gen (pairs_of els) (root_str, ract) QS = Some (render ks)
  | _ => False
  end.
Proof.
  intros Hok. rewrite (parse_path_actions_render ks re Hok). rewrite stringify_path_pairs.
  f_equal. fold (stringify_els (els_of ks)). apply stringify_els_of.
Qed.

(* ---- the default root_element ('root', GETATTR) ---- *)
(* stringify_path(parse_path(p)) with both defaults prints the FIRST key as an attribute *)
Theorem stringify_default_root (k : pkey) (r : path) :
  path_ok (k :: r) = true ->
  match parse_path_full (render (k :: r)) DEFAULT_FIRST_ELEMENT false with
  | Some (PPKeys keys) =>
      stringify_path_gen (map SPKey keys) (root_str, GETATTR) QS
      = Some (root_str ++ [cDOT] ++ str_atom (key_atom k) ++ flat_map render_key r)
  | _ => False
  end.
Proof.
  intros Hok. rewrite parse_path_full_keys, (elements_render _ Hok). cbn [option_map].
  assert (E : map fst (els_of (k :: r)) = key_atom k :: atoms_of r).
  { unfold els_of, atoms_of. cbn [map fst]. now rewrite map_map. }
  rewrite E, stringify_path_keys. f_equal. f_equal.
  cbn [flat_map].
  assert (H1 : stringify_el QS (key_atom k, GETATTR) = cDOT :: str_atom (key_atom k)).
  { unfold stringify_el. destruct (key_atom k); reflexivity. }
  rewrite H1. cbn [app]. f_equal. f_equal.
  unfold atoms_of. rewrite map_map. clear. induction r as [|k' r' IH]; [reflexivity|].
  cbn [map flat_map]. now rewrite stringify_el_key, IH.
Qed.

(* so with the defaults stringify_path does NOT invert parse_path on any reported path below the root *)
Theorem stringify_default_root_refuted (k : pkey) (r : path) :
  path_ok (k :: r) = true ->
  forall keys, parse_path_full (render (k :: r)) DEFAULT_FIRST_ELEMENT false = Some (PPKeys keys) ->
    stringify_path_gen (map SPKey keys) (root_str, GETATTR) QS <> Some (render (k :: r)).
Proof.
  intros Hok keys Hp. pose proof (stringify_default_root k r Hok) as H. rewrite Hp in H. rewrite H.
  unfold render, root_str. cbn [flat_map render_key app]. intros E. inversion E.
Qed.

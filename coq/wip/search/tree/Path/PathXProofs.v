(** C09 - the extended parser simulates the parser of PathModel.v wherever that one answers,
    and float / int keys in every notation round-trip. *)
From Coq Require Import List ZArith NArith Bool String Lia ZifyBool.
Import ListNotations.
From DD Require Import Base.Sx Base.PyStr Base.Value Base.ValueFacts
  Path.PathModel Path.PathLex Path.PathProofs Path.PathLit Path.PathXModel.
Local Open Scope N_scope.

(* ------------------------------------------------------------------ *)
(* literal_eval on the texts of the printer                            *)
(* ------------------------------------------------------------------ *)
Lemma huge_core_eq (e : pystr) :
  e <> [] -> is_ws (hd 0 e) = false -> is_ws (last e 0) = false -> huge_dec_literal e = huge_core e.
Proof.
  intros Hne Hh Hl. unfold huge_dec_literal.
  destruct e as [|c r]; [congruence|]. cbn in Hh.
  rewrite span_hd_stop by exact Hh.
  destruct (exists_last Hne) as [l' [x Hx]]. rewrite Hx in Hl |- *.
  rewrite last_last in Hl. rewrite rspan_last_stop by exact Hl. reflexivity.
Qed.

(* a text that starts with a character which is neither white space, a sign, a digit nor an underscore *)
Lemma huge_false_hd (c : N) (r : pystr) :
  is_ws c = false -> is_ws (last (c :: r) 0) = false ->
  (c =? cMINUS) || (c =? cPLUS) = false -> is_digit c || (c =? cUS) = false ->
  huge_dec_literal (c :: r) = false.
Proof.
  intros H1 H2 H3 H4. rewrite huge_core_eq; [|discriminate|exact H1|exact H2].
  unfold huge_core. rewrite H3. cbn [forallb]. now rewrite H4.
Qed.

Lemma leval_old (e : pystr) (a : atom) :
  huge_dec_literal e = false -> literal_eval e = LOk a -> leval e = LxOk (pval_of_atom a).
Proof. intros H1 H2. unfold leval. now rewrite H1, H2. Qed.
Lemma leval_old_fail (e : pystr) :
  huge_dec_literal e = false -> literal_eval e = LFail -> leval e = LxFail.
Proof. intros H1 H2. unfold leval. now rewrite H1, H2. Qed.

Lemma filter_all_digits (l : pystr) : forallb is_digit l = true -> filter is_digit l = l.
Proof.
  induction l as [|c r IH]; [reflexivity|]. cbn. intros H. apply andb_true_iff in H. destruct H as [Hc Hr].
  now rewrite Hc, IH.
Qed.

Lemma huge_digits (n : N) : (List.length (p_of_N n) <= MAXDIGITS)%nat -> huge_core (p_of_N n) = false.
Proof.
  intros H. unfold huge_core.
  destruct (p_of_N n) as [|c r] eqn:E; [reflexivity|].
  pose proof (p_of_N_digits n) as D. rewrite E in D.
  assert (Hc : (c =? cMINUS) || (c =? cPLUS) = false).
  { cbn [forallb] in D. apply andb_true_iff in D. destruct D as [Dc _]. unfold is_digit, cMINUS, cPLUS in *. lia. }
  rewrite Hc. rewrite filter_all_digits by exact D.
  apply andb_false_iff. right. apply Nat.ltb_ge. exact H.
Qed.

Lemma digits_not_ws (l : pystr) : forallb is_digit l = true -> l <> [] ->
  is_ws (hd 0 l) = false /\ is_ws (last l 0) = false.
Proof.
  intros D Hne. split.
  - destruct l as [|c r]; [congruence|]. cbn in D |- *. apply andb_true_iff in D. destruct D as [Dc _].
    unfold is_digit, is_ws, cNL in *. lia.
  - pose proof (forallb_last is_digit l 0 Hne D) as H. unfold is_digit, is_ws, cNL in *. lia.
Qed.

Lemma leval_int (z : Z) : (int_digits z <= MAXDIGITS)%nat -> leval (p_of_Z z) = LxOk (PvInt z).
Proof.
  intros H. apply (leval_old _ (AInt z)); [|apply literal_eval_int].
  unfold int_digits in H.
  destruct z as [|p|p].
  - reflexivity.
  - change (p_of_Z (Z.pos p)) with (p_of_N (Npos p)). change (Z.to_N (Z.abs (Z.pos p))) with (Npos p) in H.
    destruct (digits_not_ws (p_of_N (Npos p)) (p_of_N_digits _) (p_of_N_nonempty _)) as [A B].
    rewrite huge_core_eq; [now apply huge_digits|apply p_of_N_nonempty|exact A|exact B].
  - change (p_of_Z (Z.neg p)) with (cMINUS :: p_of_N (Npos p)). change (Z.to_N (Z.abs (Z.neg p))) with (Npos p) in H.
    destruct (digits_not_ws (p_of_N (Npos p)) (p_of_N_digits _) (p_of_N_nonempty _)) as [A B].
    rewrite huge_core_eq; [|discriminate|reflexivity|].
    + unfold huge_core. cbn [orb N.eqb]. rewrite N.eqb_refl. cbn [orb].
      assert (S : snd (span is_blank (p_of_N (Npos p))) = p_of_N (Npos p)).
      { destruct (p_of_N (Npos p)) as [|c r] eqn:E; [reflexivity|]. cbn [span].
        pose proof (p_of_N_digits (Npos p)) as D. rewrite E in D. cbn [forallb] in D. apply andb_true_iff in D.
        destruct D as [Dc _]. replace (is_blank c) with false; [reflexivity|]. unfold is_blank, is_digit in *. lia. }
      rewrite S. fold (huge_core (p_of_N (Npos p))).
      pose proof (huge_digits (Npos p) H) as HD. unfold huge_core in HD.
      destruct (p_of_N (Npos p)) as [|c r] eqn:E; [reflexivity|].
      pose proof (p_of_N_digits (Npos p)) as D. rewrite E in D. cbn [forallb] in D. apply andb_true_iff in D. destruct D as [Dc _].
      replace ((c =? cMINUS) || (c =? cPLUS)) with false in HD by (unfold is_digit, cMINUS, cPLUS in *; lia). exact HD.
    + destruct (p_of_N (Npos p)) as [|c r] eqn:E; [now destruct (p_of_N_nonempty (Npos p))|].
      change (last (cMINUS :: c :: r) 0) with (last (c :: r) 0). exact B.
Qed.

(* ------------------------------------------------------------------ *)
(* the automaton over one key                                          *)
(* ------------------------------------------------------------------ *)
Definition cleanx (els : list xelement) (prev : option N) : xst := mk_xst els [] INone prev O false None O.

Lemma runx_cons (st : xst) (c : N) (s : pystr) : runx st (c :: s) = runx (stepx st c) s.
Proof. reflexivity. Qed.
Lemma runx_app (st : xst) (a b : pystr) : runx st (a ++ b) = runx (runx st a) b.
Proof. apply fold_left_app. Qed.

Lemma stepx_open (els : list xelement) (prev : option N) :
  opt_is prev cESC = false ->
  stepx (cleanx els prev) cLB = mk_xst els [] IBr (Some cLB) 1 false None O.
Proof. intros H. unfold stepx, cleanx. rewrite H. reflexivity. Qed.

Lemma stepx_plain els elem prev br c :
  plainch c = true ->
  stepx (mk_xst els elem IBr prev br false None O) c = mk_xst els (elem ++ [c]) IBr (Some c) br false None O.
Proof.
  intros Hc. unfold plainch in Hc. apply negb_true_iff in Hc.
  apply orb_false_iff in Hc. destruct Hc as [Hc _].
  apply orb_false_iff in Hc. destruct Hc as [Hc _].
  apply orb_false_iff in Hc. destruct Hc as [Hq Hrb].
  unfold stepx. rewrite Hq, Hrb.
  destruct (opt_is prev cESC); [reflexivity|].
  destruct (c =? cLB); [reflexivity|]. destruct (c =? cDOT); reflexivity.
Qed.

Lemma runx_plain els br (s : pystr) : forall elem prev,
  forallb plainch s = true ->
  runx (mk_xst els elem IBr prev br false None O) s = mk_xst els (elem ++ s) IBr (lastc prev s) br false None O.
Proof.
  induction s as [|c r IH]; intros elem prev H.
  - rewrite app_nil_r. reflexivity.
  - cbn [forallb] in H. apply andb_true_iff in H. destruct H as [Hc Hr].
    rewrite runx_cons, stepx_plain by exact Hc. rewrite (IH _ _ Hr), <- app_assoc. reflexivity.
Qed.

Lemma stepx_close_bracket els elem prev :
  opt_is prev cESC = false ->
  stepx (mk_xst els elem IBr prev 1 false None O) cRB
  = let '(els', flag') := with_add_x els elem IBr O in mk_xst els' [] INone (Some cRB) O false None flag'.
Proof. intros Hp. unfold stepx. rewrite Hp. reflexivity. Qed.

Lemma floatch_plain (c : N) : floatch c = true -> plainch c = true.
Proof. unfold floatch, plainch, is_quote, is_digit, cSQ, cDQ, cRB, cESC, cBS, cDOT, cMINUS, cPLUS. lia. Qed.

Lemma plain_no_esc_bs (t : pystr) :
  forallb plainch t = true -> has_char cESC t = false /\ has_char cBS t = false.
Proof.
  intros Hp. split; apply has_char_false_forall; (eapply forallb_impl; [|exact Hp]); intros x; unfold plainch.
  - destruct (x =? cESC); [rewrite !orb_true_r; discriminate|reflexivity].
  - destruct (x =? cBS); [rewrite !orb_true_r; discriminate|reflexivity].
Qed.

(* the automaton over "[" t "]" for a text of plain characters that literal_eval reads as v *)
Lemma text_key_stepx (els : list xelement) (prev : option N) (t : pystr) (v : pval) :
  opt_is prev cESC = false -> t <> [] -> forallb plainch t = true -> is_prefix [cUS; cUS] t = false ->
  leval t = LxOk v ->
  runx (cleanx els prev) ([cLB] ++ t ++ [cRB]) = cleanx (els ++ [(v, GET)]) (Some cRB).
Proof.
  intros Hp Hne Hpl H1 Hl.
  destruct (plain_no_esc_bs t Hpl) as (H2 & H3).
  cbn [app]. rewrite runx_cons, stepx_open by exact Hp.
  rewrite runx_app, runx_plain by exact Hpl.
  cbn [app]. rewrite runx_cons, stepx_close_bracket.
  - unfold with_add_x, add_to_elements_x. destruct t as [|c r]; [congruence|].
    rewrite H1, H2, H3, Hl. reflexivity.
  - apply lastc_not; [reflexivity|]. eapply forallb_impl; [|exact Hpl]. intros x. unfold plainch.
    destruct (x =? cESC); [rewrite !orb_true_r; discriminate|reflexivity].
Qed.

Lemma floatch_no_us (t : pystr) : forallb floatch t = true -> is_prefix [cUS; cUS] t = false.
Proof.
  intros H. destruct t as [|c r]; [reflexivity|]. cbn [forallb] in H. apply andb_true_iff in H. destruct H as [Hc _].
  cbn [is_prefix]. replace (cUS =? c) with false; [reflexivity|].
  unfold floatch, is_digit, cUS, cDOT, cMINUS, cPLUS in *. lia.
Qed.

(* inside quotes every character other than the delimiter is appended *)
Lemma stepx_in_quotes els elem prev br q c :
  (c =? q) = false ->
  stepx (mk_xst els elem IBr prev br true (Some q) O) c = mk_xst els (elem ++ [c]) IBr (Some c) br true (Some q) O.
Proof.
  intros Hc. unfold stepx.
  destruct (opt_is prev cESC); [reflexivity|].
  destruct (is_quote c); [|reflexivity].
  cbn [opt_is andb]. rewrite (N.eqb_sym q c), Hc. reflexivity.
Qed.
Lemma runx_in_quotes els br q (s : pystr) : forall elem prev,
  has_char q s = false ->
  runx (mk_xst els elem IBr prev br true (Some q) O) s = mk_xst els (elem ++ s) IBr (lastc prev s) br true (Some q) O.
Proof.
  induction s as [|c r IH]; intros elem prev H.
  - rewrite app_nil_r. reflexivity.
  - unfold has_char in H. cbn [existsb] in H. apply orb_false_iff in H. destruct H as [Hc Hr].
    rewrite runx_cons, stepx_in_quotes by (now rewrite N.eqb_sym).
    rewrite (IH _ _ Hr). rewrite <- app_assoc. reflexivity.
Qed.
Lemma stepx_open_quote els elem prev br q :
  opt_is prev cESC = false -> is_quote q = true ->
  stepx (mk_xst els elem IBr prev br false None O) q = mk_xst els (elem ++ [q]) IBr (Some q) br true (Some q) O.
Proof. intros Hp Hq. unfold stepx. rewrite Hp, Hq. reflexivity. Qed.
Lemma stepx_close_quote els elem prev br q :
  opt_is prev cESC = false -> is_quote q = true ->
  stepx (mk_xst els elem IBr prev br true (Some q) O) q
  = let '(els', flag') := with_add_x els (elem ++ [q]) IBr O in mk_xst els' [] IBr (Some q) br false None flag'.
Proof. intros Hp Hq. unfold stepx. rewrite Hp, Hq. cbn [opt_is andb negb]. rewrite N.eqb_refl. reflexivity. Qed.

(* _add_to_elements on the text of a quoted key: the key itself, by GET *)
Lemma add_quoted_x (els : list xelement) (q : N) (s : pystr) :
  is_quote q = true -> has_char q s = false ->
  add_to_elements_x els (q :: s ++ [q]) IBr = XDone (els ++ [(PvStr s, GET)]).
Proof.
  intros Hq Hs. unfold add_to_elements_x.
  assert (Hp : is_prefix [cUS; cUS] (q :: s ++ [q]) = false).
  { cbn [is_prefix]. assert (H : (cUS =? q) = false) by (unfold is_quote, cSQ, cDQ, cUS in *; lia). now rewrite H. }
  rewrite Hp, strip_outer_quoted by exact Hq.
  destruct (has_char cESC (q :: s ++ [q]) || has_char cBS (q :: s ++ [q])); [reflexivity|].
  assert (Hh : huge_dec_literal (q :: s ++ [q]) = false).
  { apply huge_false_hd.
    - now apply is_quote_not_ws.
    - rewrite last_cons_snoc. now apply is_quote_not_ws.
    - unfold is_quote, cSQ, cDQ, cMINUS, cPLUS in *. lia.
    - unfold is_quote, is_digit, cSQ, cDQ, cUS in *. lia. }
  destruct (literal_eval_quoted q s Hq Hs) as [E | E].
  - now rewrite (leval_old _ _ Hh E).
  - now rewrite (leval_old_fail _ Hh E).
Qed.

Lemma str_ok_last_x (s : pystr) (q : N) :
  is_quote q = true -> (last s 0 =? cESC) = false -> opt_is (lastc (Some q) s) cESC = false.
Proof. exact (str_ok_last s q). Qed.

(* the automaton over "[" q s q "]" *)
Lemma quoted_key_stepx (els : list xelement) (prev : option N) (q : N) (s : pystr) :
  opt_is prev cESC = false -> is_quote q = true -> has_char q s = false ->
  (last s 0 =? cESC) = false ->
  runx (cleanx els prev) ([cLB] ++ (q :: s ++ [q]) ++ [cRB]) = cleanx (els ++ [(PvStr s, GET)]) (Some cRB).
Proof.
  intros Hp Hq Hs Hl.
  cbn [app]. rewrite runx_cons, stepx_open by exact Hp.
  rewrite runx_cons, stepx_open_quote by (first [exact Hq | reflexivity]).
  rewrite <- app_assoc, runx_app, runx_in_quotes by exact Hs.
  cbn [app]. rewrite runx_cons, stepx_close_quote by (first [exact Hq | apply str_ok_last; assumption]).
  unfold with_add_x. cbn [app]. rewrite add_quoted_x by assumption.
  rewrite runx_cons, stepx_close_bracket.
  - reflexivity.
  - cbn. unfold is_quote, cSQ, cDQ, cESC in *. lia.
Qed.

Lemma add_bytes_x (els : list xelement) (q : N) (s : pystr) :
  is_quote q = true -> has_char q s = false -> forallb simplech s = true ->
  add_to_elements_x els (98 :: q :: s ++ [q]) IBr = XDone (els ++ [(PvBytes s, GET)]).
Proof.
  intros Hq Hs Hsim. unfold add_to_elements_x.
  assert (Hp : is_prefix [cUS; cUS] (98 :: q :: s ++ [q]) = false) by reflexivity.
  rewrite Hp.
  assert (Hno : forall x, (x =? 98) = false -> is_quote q = true -> (q =? x) = false ->
            forallb (fun c => negb (c =? x)) s = true -> has_char x (98 :: q :: s ++ [q]) = false).
  { intros x H98 _ Hqx Hall. apply has_char_false_forall. cbn [forallb].
    rewrite forallb_app, Hall. cbn [forallb]. rewrite (N.eqb_sym 98 x), H98, Hqx. reflexivity. }
  assert (He : has_char cESC (98 :: q :: s ++ [q]) = false).
  { apply Hno; [reflexivity|exact Hq|unfold is_quote, cSQ, cDQ, cESC in *; lia|].
    eapply forallb_impl; [|exact Hsim]. intros x. unfold simplech, cESC. lia. }
  assert (Hb : has_char cBS (98 :: q :: s ++ [q]) = false).
  { apply Hno; [reflexivity|exact Hq|unfold is_quote, cSQ, cDQ, cBS in *; lia|].
    eapply forallb_impl; [|exact Hsim]. intros x. unfold simplech, cBS. lia. }
  rewrite He, Hb. cbn [orb].
  assert (Hh : huge_dec_literal (98 :: q :: s ++ [q]) = false).
  { apply huge_false_hd; try reflexivity.
    replace (last (98 :: q :: s ++ [q]) 0) with q; [now apply is_quote_not_ws|].
    symmetry. change (98 :: q :: s ++ [q]) with ([98; q] ++ (s ++ [q])). rewrite app_assoc. apply last_last. }
  rewrite (leval_old _ (ABytes s) Hh (literal_eval_bytes q s Hq Hs Hsim)). reflexivity.
Qed.

(* the automaton over "[" b q s q "]" *)
Lemma bytes_key_stepx (els : list xelement) (prev : option N) (q : N) (s : pystr) :
  opt_is prev cESC = false -> is_quote q = true -> has_char q s = false -> forallb simplech s = true ->
  runx (cleanx els prev) ([cLB] ++ (98 :: q :: s ++ [q]) ++ [cRB]) = cleanx (els ++ [(PvBytes s, GET)]) (Some cRB).
Proof.
  intros Hp Hq Hs Hsim.
  cbn [app]. rewrite runx_cons, stepx_open by exact Hp.
  rewrite runx_cons, stepx_plain by reflexivity.
  rewrite runx_cons, stepx_open_quote by (first [exact Hq | reflexivity]).
  cbn [app]. rewrite <- app_assoc, runx_app, runx_in_quotes by exact Hs.
  assert (Hl : opt_is (lastc (Some q) s) cESC = false).
  { apply lastc_not; [cbn; unfold is_quote, cSQ, cDQ, cESC in *; lia|].
    eapply forallb_impl; [|exact Hsim]. intros x. unfold simplech, cESC. lia. }
  cbn [app]. rewrite runx_cons, stepx_close_quote by (first [exact Hq | exact Hl]).
  unfold with_add_x. cbn [app]. rewrite add_bytes_x by assumption.
  rewrite runx_cons, stepx_close_bracket.
  - reflexivity.
  - cbn. unfold is_quote, cSQ, cDQ, cESC in *. lia.
Qed.

(* ------------------------------------------------------------------ *)
(* the printer on the keys of the guard                                *)
(* ------------------------------------------------------------------ *)
Lemma fmag_eqb_eq (a b : fmag) : fmag_eqb a b = true -> a = b.
Proof.
  destruct a as [| |m e], b as [| |m' e']; cbn; try discriminate; try reflexivity.
  intros H. apply andb_true_iff in H. destruct H as [H1 H2].
  apply Pos.eqb_eq in H1. apply Z.eqb_eq in H2. now subst.
Qed.
Lemma fmag_eqb_refl (a : fmag) : fmag_eqb a a = true.
Proof. destruct a as [| |m e]; cbn; try reflexivity. now rewrite Pos.eqb_refl, Z.eqb_refl. Qed.

Lemma lxres_is_eq (r : lxres) (neg : bool) (m : fmag) : lxres_is r (PvFloat neg m) = true -> r = LxOk (PvFloat neg m).
Proof.
  destruct r as [v| | |]; try discriminate. destruct v; try discriminate. cbn.
  intros H. apply andb_true_iff in H. destruct H as [H1 H2].
  apply eqb_prop in H1. apply fmag_eqb_eq in H2. now subst.
Qed.

Lemma leval_nil : leval [] = LxFail.
Proof. reflexivity. Qed.

Lemma int_text_plain (z : Z) : forallb plainch (p_of_Z z) = true /\ is_prefix [cUS; cUS] (p_of_Z z) = false /\ p_of_Z z <> [].
Proof.
  pose proof (repr_plain (AInt z) eq_refl) as P. cbn [repr_atom] in P.
  destruct (repr_nonempty_nous (AInt z) eq_refl) as (c & r & E & Hc). cbn [repr_atom] in E.
  repeat split; [exact P| |rewrite E; discriminate].
  rewrite E. cbn [is_prefix]. now rewrite (N.eqb_sym cUS c), Hc.
Qed.

(* every key of the guard: its text, the value the parser gives back, the automaton over the text *)
Lemma xkey_step (k : xkey) :
  xkey_ok k = true ->
  exists txt v, krepr_x k = KText txt /\ key_val k = Some v /\
    forall pre prev, opt_is prev cESC = false ->
      runx (cleanx pre prev) txt = cleanx (pre ++ [(v, GET)]) (Some cRB).
Proof.
  intros Hok. destruct k as [v| |i]; try discriminate.
  - destruct v as [|b|z|neg m|s|s| |h]; try discriminate.
    + exists ([cLB] ++ s2p "None" ++ [cRB]), PvNone. repeat split.
      intros pre prev Hp. apply text_key_stepx; try assumption; try reflexivity. discriminate.
    + exists ([cLB] ++ (if b then s2p "True" else s2p "False") ++ [cRB]), (PvBool b). repeat split; [destruct b; reflexivity|].
      intros pre prev Hp. destruct b; (apply text_key_stepx; try assumption; try reflexivity; discriminate).
    + cbn [xkey_ok] in Hok. apply Nat.leb_le in Hok.
      destruct (int_text_plain z) as (P1 & P2 & P3).
      exists ([cLB] ++ p_of_Z z ++ [cRB]), (PvInt z). repeat split.
      * unfold krepr_x, stringify_param_x, repr_pval.
        replace (Nat.ltb MAXDIGITS (int_digits z)) with false by (symmetry; now apply Nat.ltb_ge).
        rewrite (leval_int z Hok). cbn [pval_num_eqb]. now rewrite Z.eqb_refl.
      * intros pre prev Hp. apply text_key_stepx; try assumption. now apply leval_int.
    + cbn [xkey_ok] in Hok. unfold float_text_ok in Hok.
      destruct (float_repr neg m) as [t|] eqn:R; [|destruct m; discriminate].
      assert (H' : forallb floatch t && lxres_is (leval t) (PvFloat neg m) = true) by (destruct m; [exact Hok|discriminate|exact Hok]).
      apply andb_true_iff in H'. destruct H' as [Hf Hl]. apply lxres_is_eq in Hl.
      assert (Hne : t <> []) by (intros ->; rewrite leval_nil in Hl; discriminate).
      exists ([cLB] ++ t ++ [cRB]), (PvFloat neg m). repeat split.
      * unfold krepr_x, stringify_param_x, repr_pval. rewrite R, Hl. cbn [pval_num_eqb].
        now rewrite fmag_eqb_refl, eqb_reflx.
      * intros pre prev Hp. apply text_key_stepx; try assumption.
        -- eapply forallb_impl; [apply floatch_plain|exact Hf].
        -- now apply floatch_no_us.
    + cbn [xkey_ok] in Hok. destruct (stringify_element_QS s Hok) as (q & Hq & Hqs & E).
      exists ([cLB] ++ stringify_element s QS ++ [cRB]), (PvStr s). repeat split.
      intros pre prev Hp. rewrite E. apply quoted_key_stepx; try assumption.
      unfold str_ok in Hok. apply andb_true_iff in Hok. destruct Hok as [_ Hs]. now apply negb_true_iff in Hs.
    + cbn [xkey_ok] in Hok. destruct (repr_bytes_simple s Hok) as (q & Hq & Hqs & E).
      exists ([cLB] ++ repr_bytes s ++ [cRB]), (PvBytes s). repeat split.
      intros pre prev Hp. rewrite E. apply bytes_key_stepx; try assumption.
      unfold bytes_ok in Hok. apply andb_true_iff in Hok. exact (proj1 Hok).
  - cbn [xkey_ok] in Hok. apply Nat.leb_le in Hok.
    destruct (int_text_plain (Z.of_nat i)) as (P1 & P2 & P3).
    exists ([cLB] ++ p_of_Z (Z.of_nat i) ++ [cRB]), (PvInt (Z.of_nat i)). repeat split.
    intros pre prev Hp. apply text_key_stepx; try assumption. now apply leval_int.
Qed.

Definition xels_of (ks : list xkey) : list xelement :=
  flat_map (fun k => match key_val k with Some v => [(v, GET)] | None => [] end) ks.

Lemma xkeys_run (ks : list xkey) : forall acc pre prev,
  opt_is prev cESC = false -> xpath_ok ks = true ->
  exists p prev', renderx_go ks acc = Some (Some (acc ++ p)) /\ opt_is prev' cESC = false /\
    runx (cleanx pre prev) p = cleanx (pre ++ xels_of ks) prev'.
Proof.
  induction ks as [|k r IH]; intros acc pre prev Hp Hok.
  - exists [], prev. cbn. rewrite !app_nil_r. repeat split. exact Hp.
  - cbn [xpath_ok forallb] in Hok. apply andb_true_iff in Hok. destruct Hok as [Hk Hr].
    destruct (xkey_step k Hk) as (txt & v & H1 & H2 & H3).
    destruct (IH (acc ++ txt) (pre ++ [(v, GET)]) (Some cRB) eq_refl Hr) as (p & prev' & E1 & E2 & E3).
    exists (txt ++ p), prev'. cbn [renderx_go]. rewrite H1, E1. repeat split.
    + now rewrite app_assoc.
    + exact E2.
    + rewrite runx_app, (H3 pre prev Hp), E3. cbn [xels_of flat_map]. rewrite H2. now rewrite <- app_assoc.
Qed.

(* ------------------------------------------------------------------ *)
(* the round trip over all keys of the guard                           *)
(* ------------------------------------------------------------------ *)
Theorem elementsx_renderx (ks : list xkey) :
  xpath_ok ks = true ->
  exists p, renderx ks = Some (Some p) /\ elementsx p = XDone (xels_of ks).
Proof.
  intros Hok. unfold renderx.
  destruct (xkeys_run ks root_str [] None eq_refl Hok) as (p & prev' & E1 & _ & E3).
  exists (root_str ++ p). split; [exact E1|].
  unfold elementsx. change (skipn 4 (root_str ++ p)) with p.
  change init_xst with (cleanx [] None). rewrite E3. reflexivity.
Qed.

(* ------------------------------------------------------------------ *)
(* stringify_path inverts the extended parser on reported paths        *)
(* ------------------------------------------------------------------ *)
Lemma stringify_xel_key (k : xkey) :
  xkey_ok k = true ->
  exists txt v, krepr_x k = KText txt /\ key_val k = Some v /\ stringify_xel QS (v, GET) = Some txt.
Proof.
  intros Hok. destruct (xkey_step k Hok) as (txt & v & H1 & H2 & _).
  exists txt, v. repeat split; try assumption.
  destruct k as [w| |i]; try discriminate.
  - destruct w as [|b|z|neg m|s|s| |h]; try discriminate; cbn [key_val] in H2; inversion H2; subst v.
    + unfold krepr_x, stringify_param_x in H1. cbn in H1. now inversion H1.
    + destruct b; unfold krepr_x, stringify_param_x in H1; cbn in H1; now inversion H1.
    + cbn [xkey_ok] in Hok. apply Nat.leb_le in Hok.
      unfold krepr_x, stringify_param_x, repr_pval in H1. unfold stringify_xel, repr_pval.
      replace (Nat.ltb MAXDIGITS (int_digits z)) with false in * by (symmetry; now apply Nat.ltb_ge).
      rewrite (leval_int z Hok) in H1. cbn [pval_num_eqb] in H1. rewrite Z.eqb_refl in H1. now inversion H1.
    + unfold krepr_x, stringify_param_x in H1. unfold stringify_xel.
      destruct (repr_pval (PvFloat neg m)) as [c|] eqn:R; [|discriminate].
      destruct (leval c) as [r| | |]; try discriminate. destruct (pval_num_eqb r (PvFloat neg m)); [|discriminate].
      now inversion H1.
    + unfold krepr_x, stringify_param_x in H1. now inversion H1.
    + unfold krepr_x, stringify_param_x in H1. now inversion H1.
  - cbn [key_val] in H2. inversion H2. subst v. cbn [xkey_ok] in Hok. apply Nat.leb_le in Hok.
    unfold krepr_x, stringify_param_x in H1. unfold stringify_xel, repr_pval.
    replace (Nat.ltb MAXDIGITS (int_digits (Z.of_nat i))) with false by (symmetry; now apply Nat.ltb_ge).
    now inversion H1.
Qed.

Lemma stringify_xels_run (ks : list xkey) : forall acc,
  xpath_ok ks = true ->
  exists p, renderx_go ks acc = Some (Some p) /\ stringify_xels_go (xels_of ks) acc = Some p.
Proof.
  induction ks as [|k r IH]; intros acc Hok.
  - exists acc. split; reflexivity.
  - cbn [xpath_ok forallb] in Hok. apply andb_true_iff in Hok. destruct Hok as [Hk Hr].
    destruct (stringify_xel_key k Hk) as (txt & v & H1 & H2 & H3).
    destruct (IH (acc ++ txt) Hr) as (p & E1 & E2).
    exists p. cbn [renderx_go xels_of flat_map]. rewrite H1, H2. cbn [app stringify_xels_go]. rewrite H3.
    split; assumption.
Qed.

(* stringify_path(_path_to_elements(p, root_element=None)) == p for every reported p *)
Theorem stringify_inverts_elementsx (ks : list xkey) :
  xpath_ok ks = true ->
  exists p, renderx ks = Some (Some p) /\ elementsx p = XDone (xels_of ks) /\ stringify_xels (xels_of ks) = Some p.
Proof.
  intros Hok. destruct (elementsx_renderx ks Hok) as (p & E1 & E2).
  destruct (stringify_xels_run ks root_str Hok) as (p' & F1 & F2).
  unfold renderx in E1. rewrite E1 in F1. inversion F1. subst p'.
  exists p. repeat split; assumption.
Qed.

(* distinct locations get distinct path strings (keys as the parser gives them back) *)
Theorem renderx_inj (ks1 ks2 : list xkey) (p : pystr) :
  xpath_ok ks1 = true -> xpath_ok ks2 = true ->
  renderx ks1 = Some (Some p) -> renderx ks2 = Some (Some p) -> xels_of ks1 = xels_of ks2.
Proof.
  intros H1 H2 R1 R2.
  destruct (elementsx_renderx ks1 H1) as (p1 & E1 & F1). destruct (elementsx_renderx ks2 H2) as (p2 & E2 & F2).
  rewrite R1 in E1. rewrite R2 in E2. inversion E1. inversion E2. subst p1 p2. rewrite F1 in F2. now inversion F2.
Qed.

(* ------------------------------------------------------------------ *)
(* outside the guard: keys without a path string                       *)
(* ------------------------------------------------------------------ *)
(* inf, -inf and nan are floats, hashable, legal dict keys: DiffLevel.path() returns None for them
   (literal_eval('inf') raises ValueError inside stringify_param, which answers None) *)
Lemma inf_key_no_path (neg : bool) : renderx [XKey (PvFloat neg FInf)] = Some None.
Proof. destruct neg; vm_compute; reflexivity. Qed.
Lemma nan_key_no_path : renderx [XNan] = Some None.
Proof. reflexivity. Qed.
Lemma no_path_below (k : xkey) (r : list xkey) : krepr_x k = KNoPath -> renderx (k :: r) = Some None.
Proof. intros H. unfold renderx. cbn [renderx_go]. now rewrite H. Qed.

(* the guard is satisfiable by floats in every notation: 1e+16, 1e-05, 0.1, -0.0, 1.7976931348623157e+308,
   5e-324, 1.2345678901234568e+17, 0.30000000000000004, and an int of 30 digits *)
Definition exotic_path : list xkey :=
  [XKey (PvFloat false (FFin 152587890625 16)); XKey (PvFloat false (FFin 5902958103587057 (-69)));
   XKey (PvFloat false (FFin 3602879701896397 (-55))); XKey (PvFloat true FZero);
   XKey (PvFloat false (FFin 9007199254740991 971)); XKey (PvFloat false (FFin 1 (-1074)));
   XKey (PvFloat false (FFin 7716049313271605 4)); XKey (PvFloat false (FFin 1351079888211149 (-52)));
   XKey (PvInt (10 ^ 29)); XKey (PvStr (s2p "a'b][")); XIdx 3].
Example exotic_path_ok : xpath_ok exotic_path = true.
Proof. vm_compute. reflexivity. Qed.
Example exotic_path_text :
  renderx exotic_path = Some (Some (s2p "root[1e+16][1e-05][0.1][-0.0][1.7976931348623157e+308][5e-324][1.2345678901234568e+17][0.30000000000000004][100000000000000000000000000000][""a'b][""][3]")).
Proof. vm_compute. reflexivity. Qed.

(* ------------------------------------------------------------------ *)
(* ints beyond sys.get_int_max_str_digits(): repr raises                *)
(* ------------------------------------------------------------------ *)
Lemma dval_bound (l : pystr) : forall acc,
  forallb is_digit l = true -> dval acc l < (acc + 1) * 10 ^ N.of_nat (List.length l).
Proof.
  induction l as [|c r IH]; intros acc H.
  - cbn. lia.
  - cbn [forallb] in H. apply andb_true_iff in H. destruct H as [Hc Hr].
    unfold dval. cbn [fold_left List.length]. fold (dval (acc * 10 + (c - 48)) r).
    specialize (IH (acc * 10 + (c - 48)) Hr).
    rewrite Nat2N.inj_succ, N.pow_succ_r'.
    assert (Hd : c - 48 <= 9) by (unfold is_digit in Hc; lia).
    eapply N.lt_le_trans; [exact IH|].
    replace ((acc + 1) * (10 * 10 ^ N.of_nat (List.length r))) with (((acc + 1) * 10) * 10 ^ N.of_nat (List.length r)) by lia.
    apply N.mul_le_mono_r. lia.
Qed.

(* a number of at least 10^k has more than k digits *)
Lemma int_digits_big (k : nat) (n : N) : 10 ^ N.of_nat k <= n -> (k < List.length (p_of_N n))%nat.
Proof.
  intros H. destruct (Nat.lt_ge_cases k (List.length (p_of_N n))) as [L|L]; [exact L|exfalso].
  pose proof (dval_bound (p_of_N n) 0 (p_of_N_digits n)) as B. rewrite p_of_N_val in B.
  assert (10 ^ N.of_nat (List.length (p_of_N n)) <= 10 ^ N.of_nat k) by (apply N.pow_le_mono_r; lia).
  lia.
Qed.

(* every int key of more than 4300 digits: DiffLevel.path() raises ValueError (out of repr) *)
Theorem huge_int_key_raises (z : Z) (r : list xkey) :
  (10 ^ 4300 <= Z.abs z)%Z -> renderx (XKey (PvInt z) :: r) = None.
Proof.
  intros H. unfold renderx. cbn [renderx_go]. unfold krepr_x, stringify_param_x, repr_pval.
  replace (Nat.ltb MAXDIGITS (int_digits z)) with true; [reflexivity|].
  symmetry. apply Nat.ltb_lt. unfold int_digits, MAXDIGITS. apply int_digits_big.
  change (N.of_nat 4300) with 4300. apply N2Z.inj_le. rewrite Z2N.id by lia.
  rewrite N2Z.inj_pow. exact H.
Qed.

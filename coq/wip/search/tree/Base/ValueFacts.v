(** Induction principle for the nested [value] type and basic facts about
    [py_eq], [atom_eqb], [assoc]. *)
From Coq Require Import List ZArith NArith Bool Arith Lia.
Import ListNotations.
From DD Require Import Base.PyStr Base.Value.

Section ValueInd.
  Variable P : value -> Prop.
  Hypothesis Hatom : forall a, P (VAtom a).
  Hypothesis Hlist : forall xs, Forall P xs -> P (VList xs).
  Hypothesis Htuple : forall xs, Forall P xs -> P (VTuple xs).
  Hypothesis Hdict : forall kvs, Forall (fun kv => P (snd kv)) kvs -> P (VDict kvs).
  Hypothesis Hset : forall xs, P (VSet xs).
  Hypothesis Hfrozen : forall xs, P (VFrozen xs).

  Fixpoint value_ind' (v : value) : P v :=
    match v with
    | VAtom a => Hatom a
    | VList xs => Hlist xs ((fix go (l : list value) : Forall P l :=
                               match l with
                               | [] => Forall_nil _
                               | x :: r => Forall_cons x (value_ind' x) (go r)
                               end) xs)
    | VTuple xs => Htuple xs ((fix go (l : list value) : Forall P l :=
                               match l with
                               | [] => Forall_nil _
                               | x :: r => Forall_cons x (value_ind' x) (go r)
                               end) xs)
    | VDict kvs => Hdict kvs ((fix go (l : list (atom * value)) : Forall (fun kv => P (snd kv)) l :=
                               match l with
                               | [] => Forall_nil _
                               | kv :: r => Forall_cons kv (value_ind' (snd kv)) (go r)
                               end) kvs)
    | VSet xs => Hset xs
    | VFrozen xs => Hfrozen xs
    end.
End ValueInd.

Lemma pystr_eqb_refl s : pystr_eqb s s = true.
Proof. induction s as [|c s IH]; cbn; [reflexivity|]. rewrite N.eqb_refl. exact IH. Qed.

Lemma pystr_eqb_eq s t : pystr_eqb s t = true <-> s = t.
Proof.
  revert t; induction s as [|c s IH]; intros [|d t]; cbn; split; intros H; try reflexivity; try discriminate.
  - apply andb_true_iff in H as [H1 H2]. apply N.eqb_eq in H1. apply IH in H2. congruence.
  - inversion H; subst. rewrite N.eqb_refl. apply IH. reflexivity.
Qed.

Lemma atom_eqb_eq a b : atom_eqb a b = true <-> a = b.
Proof.
  destruct a, b; cbn; split; intros H; try reflexivity; try discriminate; try congruence.
  - apply Bool.eqb_prop in H; congruence.
  - inversion H; subst. apply Bool.eqb_reflx.
  - apply Z.eqb_eq in H; congruence.
  - inversion H; subst. apply Z.eqb_refl.
  - apply Z.eqb_eq in H; congruence.
  - inversion H; subst. apply Z.eqb_refl.
  - apply pystr_eqb_eq in H; congruence.
  - inversion H; subst. apply pystr_eqb_refl.
  - apply pystr_eqb_eq in H; congruence.
  - inversion H; subst. apply pystr_eqb_refl.
Qed.

Lemma atom_eqb_refl a : atom_eqb a a = true.
Proof. apply atom_eqb_eq; reflexivity. Qed.

Lemma py_eq_refl a : py_eq a a = true.
Proof.
  unfold py_eq. destruct a; cbn; try reflexivity; try apply Z.eqb_refl; try apply pystr_eqb_refl.
Qed.

Lemma py_eq_sym a b : py_eq a b = py_eq b a.
Proof.
  unfold py_eq. destruct (num2 a) eqn:Ha, (num2 b) eqn:Hb; try reflexivity.
  - apply Z.eqb_sym.
  - destruct a, b; try reflexivity; cbn in *; try discriminate.
    + destruct (pystr_eqb s s0) eqn:E.
      * apply pystr_eqb_eq in E; subst. symmetry. apply pystr_eqb_refl.
      * destruct (pystr_eqb s0 s) eqn:E2; [|reflexivity]. apply pystr_eqb_eq in E2; subst.
        rewrite pystr_eqb_refl in E. discriminate.
    + destruct (pystr_eqb s s0) eqn:E.
      * apply pystr_eqb_eq in E; subst. symmetry. apply pystr_eqb_refl.
      * destruct (pystr_eqb s0 s) eqn:E2; [|reflexivity]. apply pystr_eqb_eq in E2; subst.
        rewrite pystr_eqb_refl in E. discriminate.
Qed.

Lemma py_eq_trans a b c : py_eq a b = true -> py_eq b c = true -> py_eq a c = true.
Proof.
  unfold py_eq. destruct (num2 a) eqn:Ha, (num2 b) eqn:Hb, (num2 c) eqn:Hc; try discriminate.
  - intros H1 H2. apply Z.eqb_eq in H1, H2. apply Z.eqb_eq. congruence.
  - destruct a, b, c; cbn in *; try discriminate; try reflexivity; intros H1 H2.
    + apply pystr_eqb_eq in H1, H2. apply pystr_eqb_eq. congruence.
    + apply pystr_eqb_eq in H1, H2. apply pystr_eqb_eq. congruence.
Qed.

Lemma atom_eqb_py_eq a b : atom_eqb a b = true -> py_eq a b = true.
Proof. intros H. apply atom_eqb_eq in H. subst. apply py_eq_refl. Qed.

(* same type and Python-equal = identical *)
Lemma py_eq_same_ty x y : py_eq x y = true -> atom_ty x = atom_ty y -> x = y.
Proof.
  unfold py_eq.
  destruct x as [|bx|zx|tx|sx|sx], y as [|by_|zy|ty_|sy|sy]; cbn -[Z.mul]; try discriminate; intros H T;
    try discriminate; try reflexivity.
  - apply Z.eqb_eq in H. destruct bx, by_; try reflexivity; discriminate.
  - apply Z.eqb_eq in H. f_equal. lia.
  - apply Z.eqb_eq in H. congruence.
  - apply pystr_eqb_eq in H. congruence.
  - apply pystr_eqb_eq in H. congruence.
Qed.

Lemma assoc_In {B} k (l : list (atom * B)) v : assoc k l = Some v -> exists k', In (k', v) l /\ py_eq k' k = true.
Proof.
  induction l as [|[k' v'] l IH]; cbn; [discriminate|].
  destruct (py_eq k' k) eqn:E.
  - intros H; inversion H; subst. exists k'. split; [left; reflexivity|exact E].
  - intros H. destruct (IH H) as [k'' [Hin He]]. exists k''. split; [right; exact Hin|exact He].
Qed.

Lemma assoc_None {B} k (l : list (atom * B)) : assoc k l = None <-> mem_atom k (map fst l) = false.
Proof.
  unfold mem_atom. induction l as [|[k' v'] l IH]; cbn; [tauto|].
  rewrite (py_eq_sym k k'). destruct (py_eq k' k); cbn; [split; discriminate|exact IH].
Qed.

Lemma mem_atom_In a l : mem_atom a l = true <-> exists b, In b l /\ py_eq a b = true.
Proof. unfold mem_atom. apply existsb_exists. Qed.

(* ---- pigeonhole for py_eq-keyed lists ---- *)
Fixpoint remove1 (a : atom) (l : list atom) : list atom :=
  match l with
  | [] => []
  | b :: r => if py_eq a b then r else b :: remove1 a r
  end.

Lemma remove1_length a l : mem_atom a l = true -> S (length (remove1 a l)) = length l.
Proof.
  unfold mem_atom. induction l as [|b r IH]; cbn; [discriminate|].
  destruct (py_eq a b) eqn:E; cbn; [reflexivity|]. intros H. rewrite IH by exact H. reflexivity.
Qed.

Lemma remove1_keeps a x l :
  mem_atom x l = true -> py_eq a x = false -> mem_atom x (remove1 a l) = true.
Proof.
  unfold mem_atom. induction l as [|b r IH]; cbn; [discriminate|].
  intros H N. destruct (py_eq a b) eqn:E.
  - destruct (py_eq x b) eqn:E2; [|exact H].
    exfalso. rewrite (py_eq_trans a b x) in N; [discriminate|exact E|rewrite py_eq_sym; exact E2].
  - cbn. destruct (py_eq x b); [reflexivity|]. apply IH; assumption.
Qed.

Lemma remove1_In b a l : In b l -> py_eq a b = true \/ In b (remove1 a l).
Proof.
  induction l as [|x r IH]; cbn; [tauto|].
  intros [->|H].
  - destruct (py_eq a b) eqn:E; [left; reflexivity|right; left; reflexivity].
  - destruct (py_eq a x) eqn:E; [right; exact H|]. destruct (IH H) as [H'|H']; [left; exact H'|right; right; exact H'].
Qed.

Lemma mem_atom_py_eq a b l : py_eq a b = true -> mem_atom b l = true -> mem_atom a l = true.
Proof.
  intros E H. apply mem_atom_In in H as (x & Hx & Ex). apply mem_atom_In. exists x. split; [exact Hx|].
  eapply py_eq_trans; eassumption.
Qed.

Lemma pigeon l1 : forall l2,
  nodup_atoms l1 = true -> (forall a, In a l1 -> mem_atom a l2 = true) ->
  length l2 <= length l1 -> forall b, In b l2 -> mem_atom b l1 = true.
Proof.
  induction l1 as [|a l1 IH]; intros l2 N Hin Hlen b Hb.
  - destruct l2; [destruct Hb|cbn in Hlen; lia].
  - cbn in N. apply andb_true_iff in N as [Na N].
    assert (Ha : mem_atom a l2 = true) by (apply Hin; left; reflexivity).
    pose proof (remove1_length a l2 Ha) as HL.
    destruct (remove1_In b a l2 Hb) as [E|Hb'].
    + unfold mem_atom. cbn. rewrite py_eq_sym, E. reflexivity.
    + assert (M : mem_atom b l1 = true).
      { apply (IH (remove1 a l2)); try assumption.
        - intros x Hx. apply remove1_keeps; [apply Hin; right; exact Hx|].
          destruct (py_eq a x) eqn:E; [|reflexivity].
          exfalso. apply negb_true_iff in Na. unfold mem_atom in Na.
          assert (existsb (py_eq a) l1 = true) by (apply existsb_exists; exists x; split; assumption).
          congruence.
        - cbn in Hlen. lia. }
      unfold mem_atom in *. cbn. rewrite M. apply orb_true_r.
Qed.

(* ---- unfolding py_eqv on dicts ---- *)
Definition dict_go (ys : list (atom * value)) :=
  fix go (xs : list (atom * value)) : bool :=
    match xs with
    | [] => true
    | (k, v) :: xs' => match assoc k ys with
                       | Some v' => py_eqv v v'
                       | None => false
                       end && go xs'
    end.

Lemma py_eqv_dict xs ys :
  py_eqv (VDict xs) (VDict ys) = Nat.eqb (length xs) (length ys) && dict_go ys xs.
Proof. reflexivity. Qed.

Lemma dict_go_keys ys xs :
  dict_go ys xs = true -> forall k, In k (map fst xs) -> mem_atom k (map fst ys) = true.
Proof.
  induction xs as [|[k v] xs IH]; cbn; intros H k' Hk; [destruct Hk|].
  apply andb_true_iff in H as [H1 H2]. destruct Hk as [<-|Hk]; [|apply IH; assumption].
  destruct (assoc k ys) eqn:E; [|discriminate].
  destruct (mem_atom k (map fst ys)) eqn:M; [reflexivity|].
  apply assoc_None in M. congruence.
Qed.

Lemma py_eqv_dict_same_keys xs ys :
  nodup_atoms (map fst xs) = true ->
  py_eqv (VDict xs) (VDict ys) = true ->
  (forall k, In k (map fst xs) -> mem_atom k (map fst ys) = true) /\
  (forall k, In k (map fst ys) -> mem_atom k (map fst xs) = true).
Proof.
  intros N H. rewrite py_eqv_dict in H. apply andb_true_iff in H as [HL HG].
  apply Nat.eqb_eq in HL. pose proof (dict_go_keys ys xs HG) as K. split; [exact K|].
  apply pigeon; [exact N|exact K|rewrite !map_length; lia].
Qed.

(** Universal S-expression type used by the correspondence check.
    Every model result is converted to [sx]; the harness writes the
    implementation's canonicalised observable as an [sx] literal and Coq
    compares the two with [sx_eqb]; only mismatching cases are printed, by
    [show_sx], one per line.  Nothing in this file is used by any theorem. *)
From Coq Require Import List String Ascii ZArith NArith Bool.
Import ListNotations.
Local Open Scope string_scope.

Inductive sx := SA (s : string) | SZ (z : Z) | SL (l : list sx).

Fixpoint sx_eqb (a b : sx) {struct a} : bool :=
  match a, b with
  | SA s, SA t => String.eqb s t
  | SZ x, SZ y => Z.eqb x y
  | SL xs, SL ys =>
      (fix go (xs ys : list sx) {struct xs} : bool :=
         match xs, ys with
         | [], [] => true
         | x :: xs', y :: ys' => sx_eqb x y && go xs' ys'
         | _, _ => false
         end) xs ys
  | _, _ => false
  end.

(* decimal printing *)
Definition digit_of (n : N) : ascii := ascii_of_N (48 + n).
Fixpoint pos_digits (fuel : nat) (n : N) (acc : string) : string :=
  match fuel with
  | O => acc
  | S f => let acc' := String (digit_of (N.modulo n 10)) acc in
           if N.ltb n 10 then acc' else pos_digits f (N.div n 10) acc'
  end.
Definition show_N (n : N) : string := pos_digits (S (N.to_nat (N.log2 n))) n "".
Definition show_Z (z : Z) : string :=
  match z with
  | Z0 => "0"
  | Zpos p => show_N (Npos p)
  | Zneg p => "-" ++ show_N (Npos p)
  end.
Definition show_nat (n : nat) : string := show_N (N.of_nat n).

Definition nl : string := String (ascii_of_N 10) EmptyString.
Definition tab : string := String (ascii_of_N 9) EmptyString.

Fixpoint esc (s : string) : string :=
  match s with
  | EmptyString => EmptyString
  | String c r => if N.eqb (N_of_ascii c) 10 then String "\" (String "n" (esc r))
                  else String c (esc r)
  end.

Fixpoint show_sx (a : sx) : string :=
  match a with
  | SA s => "<" ++ esc s ++ ">"
  | SZ z => show_Z z
  | SL l => "(" ++ (fix go (l : list sx) : string :=
                     match l with
                     | [] => ""
                     | [x] => show_sx x
                     | x :: r => show_sx x ++ " " ++ go r
                     end) l ++ ")"
  end.

(* cases: (model output, expected output from the implementation) *)
Fixpoint mismatches (i : nat) (cs : list (sx * sx)) : list (nat * sx) :=
  match cs with
  | [] => []
  | (m, e) :: r => if sx_eqb m e then mismatches (S i) r else (i, m) :: mismatches (S i) r
  end.
(* the terminator is produced by the base case so that no [++] ever has a long
   left operand (String.append recurses on it: a long mismatch text overflowed
   the stack) *)
Fixpoint show_bad (l : list (nat * sx)) : string :=
  match l with
  | [] => "END"
  | (i, m) :: r => show_nat i ++ tab ++ show_sx m ++ nl ++ show_bad r
  end.
Definition run_cases (cs : list (sx * sx)) : string :=
  "BEGIN" ++ nl ++ show_bad (mismatches 0 cs).

(* helpers to build sx from common types *)
Definition sx_bool (b : bool) : sx := SA (if b then "T" else "F").
Definition sx_nat (n : nat) : sx := SZ (Z.of_nat n).
Definition sx_N (n : N) : sx := SZ (Z.of_N n).
Definition sx_list {A} (f : A -> sx) (l : list A) : sx := SL (map f l).
Definition sx_opt {A} (f : A -> sx) (o : option A) : sx :=
  match o with None => SA "None" | Some x => SL [SA "Some"; f x] end.
Definition sx_pair {A B} (f : A -> sx) (g : B -> sx) (p : A * B) : sx :=
  SL [f (fst p); g (snd p)].

(* a total order on sx and insertion sort, so that results whose order is not
   an observable (dict / set iteration) are compared as sorted lists; the
   harness sorts with the same order (harness.core.sx_sorted) *)
Definition cmp_then (c d : comparison) : comparison := match c with Eq => d | _ => c end.
Fixpoint sx_compare (a b : sx) {struct a} : comparison :=
  match a, b with
  | SA s, SA t => String.compare s t
  | SA _, _ => Lt
  | SZ _, SA _ => Gt
  | SZ x, SZ y => Z.compare x y
  | SZ _, SL _ => Lt
  | SL xs, SL ys =>
      (fix go (xs ys : list sx) {struct xs} : comparison :=
         match xs, ys with
         | [], [] => Eq
         | [], _ :: _ => Lt
         | _ :: _, [] => Gt
         | x :: xs', y :: ys' => cmp_then (sx_compare x y) (go xs' ys')
         end) xs ys
  | SL _, _ => Gt
  end.
Fixpoint sx_insert (x : sx) (l : list sx) : list sx :=
  match l with
  | [] => [x]
  | y :: r => match sx_compare x y with Gt => y :: sx_insert x r | _ => x :: l end
  end.
Definition sx_sort (l : list sx) : list sx := fold_right sx_insert [] l.
Definition sx_sorted_list {A} (f : A -> sx) (l : list A) : sx := SL (sx_sort (map f l)).

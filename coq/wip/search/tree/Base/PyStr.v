(** Python strings as lists of code points, with the few string operations the
    models need.  Definitions only (lemmas live in PyStrFacts.v). *)
From Coq Require Import List String Ascii ZArith NArith Bool.
Import ListNotations.
From DD Require Import Base.Sx.

Definition pystr := list N.

Fixpoint s2p (s : string) : pystr :=
  match s with
  | EmptyString => []
  | String c r => N_of_ascii c :: s2p r
  end.

Definition pystr_eqb (a b : pystr) : bool :=
  (fix go (a b : pystr) : bool :=
     match a, b with
     | [], [] => true
     | x :: a', y :: b' => N.eqb x y && go a' b'
     | _, _ => false
     end) a b.

(* lexicographic order on code points = Python's str ordering *)
Fixpoint pystr_ltb (a b : pystr) : bool :=
  match a, b with
  | _, [] => false
  | [], _ :: _ => true
  | x :: a', y :: b' => if N.ltb x y then true else if N.ltb y x then false else pystr_ltb a' b'
  end.
Definition pystr_leb (a b : pystr) : bool := negb (pystr_ltb b a).

Fixpoint join (sep : pystr) (l : list pystr) : pystr :=
  match l with
  | [] => []
  | [x] => x
  | x :: r => x ++ sep ++ join sep r
  end.

Fixpoint is_prefix (p s : pystr) : bool :=
  match p, s with
  | [], _ => true
  | x :: p', y :: s' => N.eqb x y && is_prefix p' s'
  | _ :: _, [] => false
  end.
Fixpoint contains_sub (sub s : pystr) : bool :=
  is_prefix sub s || match s with [] => false | _ :: r => contains_sub sub r end.
Definition has_char (c : N) (s : pystr) : bool := existsb (N.eqb c) s.

(* decimal printing *)
Fixpoint N_digits (fuel : nat) (n : N) (acc : pystr) : pystr :=
  match fuel with
  | O => acc
  | S f => let acc' := (48 + N.modulo n 10)%N :: acc in
           if N.ltb n 10 then acc' else N_digits f (N.div n 10) acc'
  end.
Definition p_of_N (n : N) : pystr := N_digits (S (N.to_nat (N.log2 n))) n [].
Definition p_of_Z (z : Z) : pystr :=
  match z with
  | Z0 => [48%N]
  | Zpos p => p_of_N (Npos p)
  | Zneg p => 45%N :: p_of_N (Npos p)
  end.

(* ASCII lower-casing (str.lower() on ASCII input) *)
Definition lower_char (c : N) : N := if (N.leb 65 c && N.leb c 90)%bool then (c + 32)%N else c.
Definition lower (s : pystr) : pystr := map lower_char s.

(* rendering for the correspondence check: printable ASCII except braces
   verbatim, everything else as {codepoint}; mirrors harness.core.sx_escape *)
Definition show_char (c : N) : string :=
  if (N.leb 32 c && N.ltb c 127 && negb (N.eqb c 123) && negb (N.eqb c 125))%bool
  then String (ascii_of_N c) EmptyString
  else ("{" ++ show_N c ++ "}")%string.
Fixpoint show_pystr (s : pystr) : string :=
  match s with
  | [] => EmptyString
  | c :: r => (show_char c ++ show_pystr r)%string
  end.
Definition sx_str (s : pystr) : sx := SA (show_pystr s).

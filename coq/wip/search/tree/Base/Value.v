(** The shared universe of Python values used by the diff / hash / delta /
    search models.  Definitions only.

    Python equality is not structural: 1 == 1.0 == True.  [py_eq] is Python's
    [==] on atoms, [atom_eqb] is identity of type and value.  Floats are the
    half-integers [AHalf z] = z/2 (exact; closed under nothing we need; rich
    enough for aliasing 1.0 == 1 and for non-integers). *)
From Coq Require Import List ZArith NArith Bool String.
Import ListNotations.
From DD Require Import Base.Sx Base.PyStr.

Inductive atom :=
| ANone
| ABool (b : bool)
| AInt (z : Z)
| AHalf (twice : Z)        (* the float twice/2 *)
| AStr (s : pystr)
| ABytes (s : pystr).

Inductive value :=
| VAtom (a : atom)
| VList (xs : list value)
| VTuple (xs : list value)
| VDict (kvs : list (atom * value))    (* insertion order; keys pairwise not py_eq *)
| VSet (xs : list atom)                (* iteration order; members pairwise not py_eq *)
| VFrozen (xs : list atom).

(* numeric value doubled, for atoms that are numbers in Python (bool is) *)
Definition num2 (a : atom) : option Z :=
  match a with
  | ABool b => Some (if b then 2 else 0)%Z
  | AInt z => Some (2 * z)%Z
  | AHalf t => Some t
  | _ => None
  end.

(* Python == on atoms *)
Definition py_eq (a b : atom) : bool :=
  match num2 a, num2 b with
  | Some x, Some y => Z.eqb x y
  | None, None =>
      match a, b with
      | ANone, ANone => true
      | AStr s, AStr t => pystr_eqb s t
      | ABytes s, ABytes t => pystr_eqb s t
      | _, _ => false
      end
  | _, _ => false
  end.

(* same type and same value *)
Definition atom_eqb (a b : atom) : bool :=
  match a, b with
  | ANone, ANone => true
  | ABool x, ABool y => Bool.eqb x y
  | AInt x, AInt y => Z.eqb x y
  | AHalf x, AHalf y => Z.eqb x y
  | AStr s, AStr t => pystr_eqb s t
  | ABytes s, ABytes t => pystr_eqb s t
  | _, _ => false
  end.

Inductive ty := TNone | TBool | TInt | TFloat | TStr | TBytes
              | TList | TTuple | TDict | TSet | TFrozen.
Definition ty_eqb (a b : ty) : bool :=
  match a, b with
  | TNone, TNone | TBool, TBool | TInt, TInt | TFloat, TFloat | TStr, TStr
  | TBytes, TBytes | TList, TList | TTuple, TTuple | TDict, TDict | TSet, TSet
  | TFrozen, TFrozen => true
  | _, _ => false
  end.
Definition atom_ty (a : atom) : ty :=
  match a with
  | ANone => TNone | ABool _ => TBool | AInt _ => TInt | AHalf _ => TFloat
  | AStr _ => TStr | ABytes _ => TBytes
  end.
Definition type_of (v : value) : ty :=
  match v with
  | VAtom a => atom_ty a
  | VList _ => TList | VTuple _ => TTuple | VDict _ => TDict
  | VSet _ => TSet | VFrozen _ => TFrozen
  end.

(* structural equality of values (type and content at every position, same
   insertion / iteration order) *)
Fixpoint value_eqb (a b : value) {struct a} : bool :=
  let list_eqb :=
    fix go (xs ys : list value) {struct xs} : bool :=
      match xs, ys with
      | [], [] => true
      | x :: xs', y :: ys' => value_eqb x y && go xs' ys'
      | _, _ => false
      end in
  let atoms_eqb :=
    fix go (xs ys : list atom) {struct xs} : bool :=
      match xs, ys with
      | [], [] => true
      | x :: xs', y :: ys' => atom_eqb x y && go xs' ys'
      | _, _ => false
      end in
  match a, b with
  | VAtom x, VAtom y => atom_eqb x y
  | VList xs, VList ys => list_eqb xs ys
  | VTuple xs, VTuple ys => list_eqb xs ys
  | VDict xs, VDict ys =>
      (fix go (xs ys : list (atom * value)) {struct xs} : bool :=
         match xs, ys with
         | [], [] => true
         | (k, v) :: xs', (k', v') :: ys' => atom_eqb k k' && value_eqb v v' && go xs' ys'
         | _, _ => false
         end) xs ys
  | VSet xs, VSet ys => atoms_eqb xs ys
  | VFrozen xs, VFrozen ys => atoms_eqb xs ys
  | _, _ => false
  end.

(* association-list lookups keyed by Python equality *)
Fixpoint assoc {B} (k : atom) (l : list (atom * B)) : option B :=
  match l with
  | [] => None
  | (k', v) :: r => if py_eq k' k then Some v else assoc k r
  end.
Definition mem_atom (a : atom) (l : list atom) : bool := existsb (py_eq a) l.

Fixpoint nodup_atoms (l : list atom) : bool :=
  match l with
  | [] => true
  | a :: r => negb (mem_atom a r) && nodup_atoms r
  end.

(* representation invariant of real Python dicts and sets *)
Fixpoint wf (v : value) : bool :=
  match v with
  | VAtom _ => true
  | VList xs | VTuple xs => forallb wf xs
  | VDict kvs => nodup_atoms (map fst kvs) && forallb (fun kv => wf (snd kv)) kvs
  | VSet xs | VFrozen xs => nodup_atoms xs
  end.

(* Python == on values: lists/tuples pointwise, dicts and sets up to order *)
Fixpoint py_eqv (a b : value) {struct a} : bool :=
  match a, b with
  | VAtom x, VAtom y => py_eq x y
  | VList xs, VList ys | VTuple xs, VTuple ys =>
      (fix go (xs ys : list value) {struct xs} : bool :=
         match xs, ys with
         | [], [] => true
         | x :: xs', y :: ys' => py_eqv x y && go xs' ys'
         | _, _ => false
         end) xs ys
  | VDict xs, VDict ys =>
      Nat.eqb (List.length xs) (List.length ys) &&
      (fix go (xs : list (atom * value)) : bool :=
         match xs with
         | [] => true
         | (k, v) :: xs' => match assoc k ys with
                            | Some v' => py_eqv v v'
                            | None => false
                            end && go xs'
         end) xs
  | VSet xs, VSet ys | VSet xs, VFrozen ys | VFrozen xs, VSet ys | VFrozen xs, VFrozen ys =>
      Nat.eqb (List.length xs) (List.length ys) && forallb (fun x => mem_atom x ys) xs
  | _, _ => false
  end.

(* size, for measures *)
Fixpoint vsize (v : value) : nat :=
  match v with
  | VAtom _ => 1
  | VList xs | VTuple xs => S (fold_right (fun x n => vsize x + n) 0 xs)
  | VDict kvs => S (fold_right (fun kv n => S (vsize (snd kv)) + n) 0 kvs)
  | VSet xs | VFrozen xs => S (List.length xs)
  end.

(* path elements: a dict subscript by an atom key, or a sequence index.
   (Python renders the int key 1 and the index 1 identically: root[1].) *)
Inductive pkey := PKey (a : atom) | PIdx (i : nat).
Definition pkey_eqb (a b : pkey) : bool :=
  match a, b with
  | PKey x, PKey y => atom_eqb x y
  | PIdx i, PIdx j => Nat.eqb i j
  | _, _ => false
  end.
Definition path := list pkey.
Fixpoint path_eqb (p q : path) : bool :=
  match p, q with
  | [], [] => true
  | a :: p', b :: q' => pkey_eqb a b && path_eqb p' q'
  | _, _ => false
  end.

(* ---- correspondence rendering (mirrors harness.values.canon) ---- *)
Local Open Scope string_scope.
Definition sx_atom (a : atom) : sx :=
  match a with
  | ANone => SA "None"
  | ABool b => SL [SA "b"; sx_bool b]
  | AInt z => SL [SA "i"; SZ z]
  | AHalf t => SL [SA "f"; SZ t]
  | AStr s => SL [SA "s"; sx_str s]
  | ABytes s => SL [SA "y"; sx_str s]
  end.
Fixpoint sx_value (v : value) : sx :=
  match v with
  | VAtom a => sx_atom a
  | VList xs => SL [SA "L"; SL (map sx_value xs)]
  | VTuple xs => SL [SA "T"; SL (map sx_value xs)]
  | VDict kvs => SL [SA "D"; SL (map (fun kv => SL [sx_atom (fst kv); sx_value (snd kv)]) kvs)]
  (* set iteration order is not an observable: members are rendered sorted *)
  | VSet xs => SL [SA "S"; SL (sx_sort (map sx_atom xs))]
  | VFrozen xs => SL [SA "F"; SL (sx_sort (map sx_atom xs))]
  end.

Definition sx_pkey (k : pkey) : sx :=
  match k with
  | PKey a => SL [SA "k"; sx_atom a]
  | PIdx i => SL [SA "x"; sx_nat i]
  end.
Definition sx_path (p : path) : sx := SL (map sx_pkey p).

(** C16 - class instances, named tuples and the `unprocessed` list: facts specific to the
    extension of the value universe ([xvalue]), witnesses, and the link back to the shared
    universe (on plain values [xeqv] is Python's == of Base/Value.v). *)
From Coq Require Import List ZArith NArith Bool Arith String Lia.
Import ListNotations.
From DD Require Import Base.Sx Base.PyStr Base.Value Search.SearchModel Search.SearchSpec Search.SearchProofs.

(* on plain values the equality used by the shortcut / by __search_obj is py_eqv *)
Lemma xeqv_inj : forall v w, xeqv (inj v) w = py_eqv v w.
Proof.
  fix IH 1. intros v w. destruct v as [a|xs|xs|kvs|xs|xs], w as [b|ys|ys|kws|ys|ys]; cbn [inj xeqv py_eqv]; try reflexivity.
  - revert ys. induction xs as [|x r IHr]; intros [|y ys]; cbn; try reflexivity. rewrite IH, IHr. reflexivity.
  - revert ys. induction xs as [|x r IHr]; intros [|y ys]; cbn; try reflexivity. rewrite IH, IHr. reflexivity.
  - rewrite map_length. f_equal.
    induction kvs as [|[k x] r IHr]; cbn; [reflexivity|]. rewrite IHr.
    destruct (assoc k kws); [rewrite IH|]; reflexivity.
Qed.

Local Open Scope string_scope.

(* ---- a run over instances, a named tuple, a bound method and an unreadable object ----
   class A: a = ['x', 2]; b = 'x1'; meth()        P = namedtuple('P', 'x y')
   DeepSearch([A(), S(unset slot), {'k': P(1, 'x')}], 'x', verbose_level=2) *)
Definition ex_inst :=
  XObj (s2p "A") [(s2p "a", XList [XAtom (AStr (s2p "x")); XAtom (AInt 2)]);
                  (s2p "b", XAtom (AStr (s2p "x1")));
                  (s2p "xmeth", XObj (s2p "method") [])].
Definition ex_named := XNamed (s2p "P") [(s2p "x", XAtom (AInt 1)); (s2p "y", XAtom (AStr (s2p "x")))].
Definition ex_obj := XList [ex_inst; XOpaque (s2p "S"); XDict [(AStr (s2p "k"), ex_named)]].
Definition ex_cfg := mkConfig false false false true [] [].

Example objects_example :
  xwf ex_obj = true /\
  deep_search lower id_repr no_re true no_re [] [] [] ex_cfg (VAtom (AStr (s2p "x"))) ex_obj
  = ROk [EvValue [SIdx 0; SAttr (s2p "a"); SIdx 0] (XAtom (AStr (s2p "x")));
         EvValue [SIdx 0; SAttr (s2p "b")] (XAtom (AStr (s2p "x1")));
         EvPath [SIdx 0; SAttr (s2p "xmeth")] (XObj (s2p "method") []);
         EvUnproc [SIdx 1];
         EvPath [SIdx 2; SKey (AStr (s2p "k")); SAttr (s2p "x")] (XAtom (AInt 1));
         EvValue [SIdx 2; SKey (AStr (s2p "k")); SAttr (s2p "y")] (XAtom (AStr (s2p "x")))]
  /\ render id_repr [SIdx 2; SKey (AStr (s2p "k")); SAttr (s2p "y")] = s2p "root[2]['k'].y".
Proof. repeat split; vm_compute; reflexivity. Qed.

(* a named tuple that equals a tuple item is found as a dictionary value and is searched inside all
   the same (contrast K16h: a tuple / list in that place is not found) ... *)
Definition nt_item := VTuple [VAtom (AInt 1); VAtom (AHalf 4)].
Definition nt_obj := XDict [(AStr (s2p "k"), XNamed (s2p "P") [(s2p "x", XAtom (AHalf 2)); (s2p "y", XAtom (AInt 2))]);
                            (AStr (s2p "t"), XTuple [XAtom (AInt 1); XAtom (AInt 2)])].
Example named_tuple_found_as_dict_value :
  deep_search lower id_repr no_re true no_re (s2p "(1, 2.0)") [] [] ex_cfg nt_item nt_obj
  = ROk [EvValue [SKey (AStr (s2p "k"))] (XNamed (s2p "P") [(s2p "x", XAtom (AHalf 2)); (s2p "y", XAtom (AInt 2))])].
Proof. vm_compute. reflexivity. Qed.

(* ... but as an item of a list it is reported by the equality shortcut and NOT searched inside;
   an instance is never equal to an item *)
Example named_tuple_in_list :
  deep_search lower id_repr no_re true no_re (s2p "(1, 2.0)") [] [] ex_cfg nt_item
              (XList [XNamed (s2p "P") [(s2p "x", XAtom (AInt 1)); (s2p "y", XAtom (AInt 2))];
                      XObj (s2p "A") [(s2p "x", XAtom (AInt 1)); (s2p "y", XAtom (AInt 2))]])
  = ROk [EvValue [SIdx 0] (XNamed (s2p "P") [(s2p "x", XAtom (AInt 1)); (s2p "y", XAtom (AInt 2))])].
Proof. vm_compute. reflexivity. Qed.

(* K16 with classes: an instance of an excluded class is skipped as an item of a list, but entered as
   a dictionary value / attribute value / root; a named tuple is a tuple for exclude_types *)
Definition k16o_cfg := mkConfig false false false true [] [TyObj (s2p "A"); TyB TTuple].
Definition k16o_inst := XObj (s2p "A") [(s2p "a", XAtom (AInt 7))].
Definition k16o_obj := XList [k16o_inst; XDict [(AStr (s2p "k"), k16o_inst)];
                              XNamed (s2p "P") [(s2p "x", XAtom (AInt 7))]].
Example exclusions_classes_refuted :
  exists evs q v par w,
    xwf k16o_obj = true /\
    deep_search lower id_repr no_re true no_re [] [] [] k16o_cfg (VAtom (AInt 7)) k16o_obj = ROk evs /\
    evs = [EvValue q v] /\ q = [SIdx 1; SKey (AStr (s2p "k")); SAttr (s2p "a")] /\
    par = [SIdx 1; SKey (AStr (s2p "k"))] /\ get_at k16o_obj par = Some w /\
    ty_excl k16o_cfg (xtype_of w) = true.
Proof. do 5 eexists. repeat split; vm_compute; reflexivity. Qed.

(* ---- number-like leaves outside the half-integers: == with the number they stand for; in loose
   mode their exact text str(obj) ----
   DeepSearch([1e-07, Decimal('1.5'), 1e+16, datetime.date(2024,1,2)], item, strict_checking=...) *)
Definition num_obj :=
  XList [XNum (TyB TFloat) None (s2p "1e-07");
         XNum (TyObj (s2p "Decimal")) (Some (AHalf 3)) (s2p "1.5");
         XNum (TyB TFloat) (Some (AInt 10000000000000000)) (s2p "1e+16");
         XNum (TyObj (s2p "date")) None (s2p "2024-01-02")].
Definition loose_cfg := mkConfig false false false false [] [].
Example numbers_example :
  (* strict, item 1.5: the Decimal that == 1.5 *)
  deep_search lower id_repr no_re true no_re [] [] [] ex_cfg (VAtom (AHalf 3)) num_obj
  = ROk [EvValue [SIdx 1] (XNum (TyObj (s2p "Decimal")) (Some (AHalf 3)) (s2p "1.5"))]
  (* strict, item 10**16: the float 1e+16; its text plays no role *)
  /\ deep_search lower id_repr no_re true no_re [] [] [] ex_cfg (VAtom (AInt 10000000000000000)) num_obj
     = ROk [EvValue [SIdx 2] (XNum (TyB TFloat) (Some (AInt 10000000000000000)) (s2p "1e+16"))]
  (* loose, item '1e-07': the exact text *)
  /\ deep_search lower id_repr no_re true no_re [] [] [] loose_cfg (VAtom (AStr (s2p "1e-07"))) num_obj
     = ROk [EvValue [SIdx 0] (XNum (TyB TFloat) None (s2p "1e-07"))]
  (* loose, item '1E-07' lower-cased by __init__: found; case sensitive: not (K16e the other way round) *)
  /\ deep_search lower id_repr no_re true no_re [] [] [] loose_cfg (VAtom (AStr (s2p "1E-07"))) num_obj
     = ROk [EvValue [SIdx 0] (XNum (TyB TFloat) None (s2p "1e-07"))]
  /\ deep_search lower id_repr no_re true no_re [] [] [] (mkConfig true false false false [] []) (VAtom (AStr (s2p "1E-07"))) num_obj
     = ROk []
  (* strict, item '2024-01-02': a date is not found by its text *)
  /\ deep_search lower id_repr no_re true no_re [] [] [] ex_cfg (VAtom (AStr (s2p "2024-01-02"))) num_obj = ROk [].
Proof. repeat split; vm_compute; reflexivity. Qed.

(* ---- cyclic objects: a child that IS one of its own ancestors ([XRef]) ----
   The search of the graph is the search of the tree cut at the first repetition on each path:
   entries / attributes holding a back reference are removed, a back reference that is an item of a
   list stays as an inert item (positions are kept).  For atom items. *)
Definition prune_ents {A : Type} (f : xvalue -> xvalue) : list (A * xvalue) -> list (A * xvalue) :=
  fix go (l : list (A * xvalue)) : list (A * xvalue) :=
    match l with
    | [] => []
    | e :: r => if is_ref (snd e) then go r else (fst e, f (snd e)) :: go r
    end.
Fixpoint prune (v : xvalue) : xvalue :=
  match v with
  | XList xs => XList (map prune xs)
  | XTuple xs => XTuple (map prune xs)
  | XDict kvs => XDict (prune_ents prune kvs)
  | XObj c avs => XObj c (prune_ents prune avs)
  | XNamed c avs => XNamed c (prune_ents prune avs)
  | _ => v
  end.

(* the reported values are the pruned sub-objects *)
Definition ev_map (f : xvalue -> xvalue) (ev : event) : event :=
  match ev with
  | EvValue p v => EvValue p (f v)
  | EvPath p v => EvPath p (f v)
  | EvAttr p n => EvAttr p n
  | EvUnproc p => EvUnproc p
  end.
Definition ev_atomic (ev : event) : Prop :=
  match ev with
  | EvValue _ (XAtom _) | EvValue _ (XNum _ _ _) | EvAttr _ _ | EvUnproc _ => True
  | _ => False
  end.

Section Prune.
  Variable slower brepr : pystr -> pystr.
  Variable re_search excl_re : pystr -> bool.
  Variable re_text : pystr.
  Variable sa ba : list pystr.
  Variable c : config.
  Variable cs : bool.
  Variable it : eitem.
  Hypothesis Hai : atom_item it = true.
  Notation search := (search slower brepr re_search excl_re re_text sa ba c cs it).
  Notation pm := (map (ev_map prune)).

  Lemma xtype_prune : forall x, xtype_of (prune x) = xtype_of x.
  Proof. destruct x; reflexivity. Qed.
  Lemma is_ref_prune : forall x, is_ref (prune x) = is_ref x.
  Proof. destruct x; reflexivity. Qed.
  Lemma shortcut_prune : forall x, shortcut slower c cs it (prune x) = shortcut slower c cs it x.
  Proof.
    intro x. unfold shortcut, thing_eq_item. destruct it as [a|b|w]; try discriminate; destruct x; reflexivity.
  Qed.
  Lemma self_eq_atom : forall x, self_eq it x = false.
  Proof. intro x. unfold self_eq. destruct it; try discriminate; reflexivity. Qed.

  Lemma atomic_fixed : forall l, Forall ev_atomic l -> pm l = l.
  Proof.
    induction l as [|ev r IH]; intro H; [reflexivity|]. inversion H as [|? ? H1 H2]; subst.
    cbn [map]. rewrite (IH H2). f_equal. destruct ev as [q v|q v|q n|q]; cbn in H1 |- *; try reflexivity; try contradiction.
    destruct v; try contradiction; reflexivity.
  Qed.

  Lemma leaf_atomic : forall a p, Forall ev_atomic (search_leaf slower brepr re_search re_text sa ba c cs it a p).
  Proof.
    intros a p. apply Forall_forall. intros ev H. apply (search_leaf_iff slower brepr re_search excl_re re_text sa ba c cs it) in H. apply local_ev_atom in H.
    destruct H as [[_ H]|[n [_ [_ H]]]]; subst ev; exact I.
  Qed.

  Lemma search_atom_fixed : forall a p, pm (search (XAtom a) p) = search (XAtom a) p.
  Proof.
    intros a p. rewrite search_atom_eq. unfold search_atom. destruct (skip_item _ _ _ _ _); [reflexivity|].
    apply atomic_fixed, leaf_atomic.
  Qed.

  Lemma path_test_map : forall txt hit,
    pm (path_test brepr re_search re_text c it txt hit) = path_test brepr re_search re_text c it txt (pm hit).
  Proof.
    intros txt hit. unfold path_test. destruct (_ || _); [reflexivity|].
    destruct it as [a|[|]|w]; try reflexivity. destruct (re_search txt); reflexivity.
  Qed.

  Lemma iter_ent_prune : forall (A : Type) (mk : A -> step) p (ents : list (A * xvalue)),
    Forall (fun e => forall p', search (prune (snd e)) p' = pm (search (snd e) p')) ents ->
    iter_ent slower brepr re_search excl_re re_text sa ba c cs it mk p (prune_ents prune ents)
    = pm (iter_ent slower brepr re_search excl_re re_text sa ba c cs it mk p ents).
  Proof.
    intros A mk p ents IH. induction ents as [|e r IHr]; [reflexivity|]. inversion IH as [|? ? Hx Hr]; subst.
    cbn [prune_ents iter_ent]. destruct (is_ref (snd e)) eqn:Er.
    - apply IHr. exact Hr.
    - cbn [iter_ent fst snd]. rewrite is_ref_prune, Er, Hx, !map_app, (IHr Hr). unfold path_event.
      rewrite path_test_map. reflexivity.
  Qed.

  Lemma iter_list_prune : forall p (xs : list xvalue) n,
    Forall (fun x => forall p', search (prune x) p' = pm (search x p')) xs ->
    iter_list slower brepr re_search excl_re re_text sa ba c cs it p (map prune xs) n
    = pm (iter_list slower brepr re_search excl_re re_text sa ba c cs it p xs n).
  Proof.
    intros p xs. induction xs as [|x r IHr]; intros n IH; [reflexivity|].
    inversion IH as [|? ? Hx Hr]; subst. cbn [map iter_list].
    rewrite (IHr (S n) Hr), map_app. f_equal. unfold SearchModel.thing_events.
    rewrite xtype_prune, shortcut_prune, Hx.
    destruct (skip_this _ _ _ _ _); [reflexivity|]. destruct (shortcut _ _ _ _ _); reflexivity.
  Qed.

  Lemma iter_atoms_fixed : forall p (xs : list atom) n,
    pm (iter_atoms slower brepr re_search excl_re re_text sa ba c cs it p xs n)
    = iter_atoms slower brepr re_search excl_re re_text sa ba c cs it p xs n.
  Proof.
    intros p xs. induction xs as [|a r IHr]; intro n; [reflexivity|].
    cbn [iter_atoms]. rewrite map_app, (IHr (S n)). f_equal. unfold SearchModel.thing_events.
    destruct (skip_this _ _ _ _ _); [reflexivity|]. destruct (shortcut _ _ _ _ _); [reflexivity|].
    unfold search_atom. destruct (skip_item _ _ _ _ _); [reflexivity|]. apply atomic_fixed, leaf_atomic.
  Qed.

  (* FINITE UNFOLDING: the search of an object with back references reports what the search of the
     tree cut at the first repetition reports, the reported values being the cut sub-objects *)
  Theorem search_prune : forall obj p, search (prune obj) p = pm (search obj p).
  Proof.
    induction obj as [a|xs IH|xs IH|kvs IH|xs|xs|cl avs IH|cl avs IH|cl| |nt nv ntx] using value_ind'; intro p.
    - cbn [prune]. symmetry. apply search_atom_fixed.
    - cbn [prune]. rewrite !search_list_eq. destruct (skip_item _ _ _ _ _); [reflexivity|]. apply iter_list_prune; auto.
    - cbn [prune]. rewrite !search_tuple_eq. destruct (skip_item _ _ _ _ _); [reflexivity|]. apply iter_list_prune; auto.
    - cbn [prune]. rewrite !search_dict_eq. destruct (skip_item _ _ _ _ _); [reflexivity|]. cbn [app]. apply iter_ent_prune; auto.
    - cbn [prune]. rewrite !search_set_eq. destruct (skip_item _ _ _ _ _); [reflexivity|]. symmetry. apply iter_atoms_fixed.
    - cbn [prune]. rewrite !search_frozen_eq. destruct (skip_item _ _ _ _ _); [reflexivity|]. symmetry. apply iter_atoms_fixed.
    - cbn [prune]. rewrite !search_obj_eq. destruct (skip_item _ _ _ _ _); [reflexivity|]. cbn [app]. apply iter_ent_prune; auto.
    - cbn [prune]. rewrite !search_named_eq. destruct (skip_item _ _ _ _ _); [reflexivity|].
      unfold self_events. rewrite !self_eq_atom. cbn [app]. apply iter_ent_prune; auto.
    - cbn [prune]. rewrite search_opaque_eq. destruct (skip_item _ _ _ _ _); reflexivity.
    - cbn [prune]. rewrite search_ref_nil. reflexivity.
    - cbn [prune]. rewrite search_num_eq. destruct (skip_item _ _ _ _ _); [reflexivity|].
      symmetry. apply atomic_fixed. apply Forall_forall. intros ev H. apply (search_xnum_iff slower brepr re_search excl_re re_text c cs it) in H.
      destruct H as [_ H]. subst ev. exact I.
  Qed.
End Prune.

(* a cycle: d = {'k': 'x', 'self': d, 'l': ['x', d]}: searched once, the back references are silent *)
Definition cyc_obj :=
  XDict [(AStr (s2p "k"), XAtom (AStr (s2p "x"))); (AStr (s2p "self"), XRef);
         (AStr (s2p "l"), XList [XAtom (AStr (s2p "x")); XRef])].
Example cyclic_example :
  deep_search lower id_repr no_re true no_re [] [] [] ex_cfg (VAtom (AStr (s2p "l"))) cyc_obj
  = ROk [EvPath [SKey (AStr (s2p "l"))] (XList [XAtom (AStr (s2p "x")); XRef])]
  /\ deep_search lower id_repr no_re true no_re [] [] [] ex_cfg (VAtom (AStr (s2p "x"))) cyc_obj
     = ROk [EvValue [SKey (AStr (s2p "k"))] (XAtom (AStr (s2p "x")));
            EvValue [SKey (AStr (s2p "l")); SIdx 0] (XAtom (AStr (s2p "x")))].
Proof. split; vm_compute; reflexivity. Qed.

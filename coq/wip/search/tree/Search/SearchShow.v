(** Correspondence-side rendering for C16 (no theorem depends on this file):
    the oracles arrive as association lists computed by the harness with
    Python's `re` / `str`, and the result dictionaries are rendered to [sx]
    in the implementation's own insertion order. *)
From Coq Require Import List ZArith NArith Bool Arith String.
Import ListNotations.
From DD Require Import Base.Sx Base.PyStr Base.Value Search.SearchModel.

Fixpoint tbl_bool (t : list (pystr * bool)) (s : pystr) : bool :=
  match t with
  | [] => false
  | (k, b) :: r => if pystr_eqb k s then b else tbl_bool r s
  end.
Fixpoint tbl_str (t : list (pystr * pystr)) (s : pystr) : pystr :=
  match t with
  | [] => s2p "?"
  | (k, b) :: r => if pystr_eqb k s then b else tbl_str r s
  end.

(* str.lower(): the harness sends Python's result for every str on which it is not the ASCII
   lower-casing (non-ASCII letters: final sigma, dotted capital I, ...); elsewhere ASCII *)
Fixpoint tbl_lower (t : list (pystr * pystr)) (s : pystr) : pystr :=
  match t with
  | [] => lower s
  | (k, b) :: r => if pystr_eqb k s then b else tbl_lower r s
  end.

Local Open Scope string_scope.

Definition sx_reports {V} (f : V -> sx) (verbose2 : bool) (l : list (pystr * V)) : sx :=
  if verbose2 then SL (map (fun kv => SL [sx_str (fst kv); f (snd kv)]) l)
  else SL (map (fun kv => sx_str (fst kv)) l).
(* mirrors c16.xcanon: the canonical form of harness.values.canon + instances ("O"), named tuples ("N"),
   unreadable objects ("U"); a bound method is the instance ("O" "method" []) *)
Fixpoint sx_xvalue (v : xvalue) : sx :=
  match v with
  | XAtom a => sx_atom a
  | XList xs => SL [SA "L"; SL (map sx_xvalue xs)]
  | XTuple xs => SL [SA "T"; SL (map sx_xvalue xs)]
  | XDict kvs => SL [SA "D"; SL (map (fun kv => SL [sx_atom (fst kv); sx_xvalue (snd kv)]) kvs)]
  | XSet xs => SL [SA "S"; SL (sx_sort (map sx_atom xs))]
  | XFrozen xs => SL [SA "F"; SL (sx_sort (map sx_atom xs))]
  | XObj c avs => SL [SA "O"; sx_str c; SL (map (fun av => SL [sx_str (fst av); sx_xvalue (snd av)]) avs)]
  | XNamed c avs => SL [SA "N"; sx_str c; SL (map (fun av => SL [sx_str (fst av); sx_xvalue (snd av)]) avs)]
  | XOpaque c => SL [SA "U"; sx_str c]
  | XRef => SL [SA "R"]                          (* one of the value's own ancestors *)
  | XNum _ _ tx => SL [SA "X"; sx_str tx]       (* a number-like leaf is identified by its text *)
  end.
Definition sx_pval (o : option xvalue) : sx :=
  match o with Some v => sx_xvalue v | None => sx_xvalue (XObj (s2p "method") []) end.

(* one correspondence case *)
Definition run_search (verbose2 : bool) (c : config)
           (re_ok : bool) (re_tbl excl_tbl : list (pystr * bool)) (b_tbl l_tbl : list (pystr * pystr)) (re_text : pystr)
           (str_attrs bytes_attrs : list pystr) (item : value) (obj : xvalue) : sx :=
  let brepr := tbl_str b_tbl in
  match deep_search (tbl_lower l_tbl) brepr (tbl_bool re_tbl) re_ok (tbl_bool excl_tbl) re_text str_attrs bytes_attrs c item obj with
  | RRaise => SA "raise"
  | RReErr => SA "reerror"
  | ROk evs => SL [SA "ok"; sx_reports sx_pval verbose2 (matched_paths brepr evs);
                   sx_reports sx_xvalue verbose2 (matched_values brepr evs);
                   SL (map sx_str (unprocessed brepr evs))]
  end.

Definition sx_ty (t : ty) : sx :=
  SA (match t with
      | TNone => "NoneType" | TBool => "bool" | TInt => "int" | TFloat => "float" | TStr => "str"
      | TBytes => "bytes" | TList => "list" | TTuple => "tuple" | TDict => "dict" | TSet => "set"
      | TFrozen => "frozenset" end).

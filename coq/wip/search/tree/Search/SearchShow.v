(** Correspondence-side rendering for C16 (no theorem depends on this file):
    the oracles arrive as association lists computed by the harness with
    Python's `re` / `str`, and the result dictionaries are rendered to [sx]
    in the implementation's own insertion order. *)
From Coq Require Import List ZArith NArith Bool Arith String.
Import ListNotations.
From DD Require Import Base.Sx Base.PyStr Base.Value Search.SearchModel.

Fixpoint tbl_bool (t : list (pystr * bool)) (s : pystr) : bool :=
  match t with
  | [] => false
  | (k, b) :: r => if pystr_eqb k s then b else tbl_bool r s
  end.
Fixpoint tbl_str (t : list (pystr * pystr)) (s : pystr) : pystr :=
  match t with
  | [] => s2p "?"
  | (k, b) :: r => if pystr_eqb k s then b else tbl_str r s
  end.

Local Open Scope string_scope.

Definition sx_reports {V} (f : V -> sx) (verbose2 : bool) (l : list (pystr * V)) : sx :=
  if verbose2 then SL (map (fun kv => SL [sx_str (fst kv); f (snd kv)]) l)
  else SL (map (fun kv => sx_str (fst kv)) l).
Definition sx_pval (o : option value) : sx :=
  match o with Some v => sx_value v | None => SA "method" end.

(* one correspondence case *)
Definition run_search (verbose2 : bool) (c : config)
           (re_tbl excl_tbl : list (pystr * bool)) (b_tbl : list (pystr * pystr)) (re_text : pystr)
           (str_attrs bytes_attrs : list pystr) (item : value) (obj : value) : sx :=
  let brepr := tbl_str b_tbl in
  match deep_search brepr (tbl_bool re_tbl) (tbl_bool excl_tbl) re_text str_attrs bytes_attrs c item obj with
  | RRaise => SA "raise"
  | ROk evs => SL [SA "ok"; sx_reports sx_pval verbose2 (matched_paths brepr evs);
                   sx_reports sx_value verbose2 (matched_values brepr evs)]
  end.

Definition sx_ty (t : ty) : sx :=
  SA (match t with
      | TNone => "NoneType" | TBool => "bool" | TInt => "int" | TFloat => "float" | TStr => "str"
      | TBytes => "bytes" | TList => "list" | TTuple => "tuple" | TDict => "dict" | TSet => "set"
      | TFrozen => "frozenset" end).

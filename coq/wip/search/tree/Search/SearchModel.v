(** Model of deepdiff/search.py (class DeepSearch) over [xvalue]: the shared value
    universe of Base/Value.v (embedded by [inj]) extended with class instances
    ([XObj]: __dict__ / __slots__ objects, bound methods), named tuples ([XNamed]) and
    objects whose attributes cannot be read ([XOpaque]: the `unprocessed` list), number-like leaves
    outside the atoms ([XNum]) and back references of cyclic objects ([XRef]).
    The searched ITEM stays a [value].  Definitions only.

    The model follows the code, defects included:
    - [prepare]       = the item normalisation of __init__ (case folding of the
                        item, str() of a number item when strict_checking is
                        off, re.compile when use_regexp is on);
    - [search]        = __search with its elif chain;  [skip_item] is the
                        __skip_this(item, parent) call AS WRITTEN at the top of
                        __search (the searched ITEM, not the object, is tested
                        against exclude_types);
    - [path_event]    = the matched_paths test of __search_dict (made before the
                        child is searched, hence before its path is tested for
                        exclusion);
    - [thing_events]  = one round of the loop of __search_iterable:
                        __skip_this(thing, new_parent), the equality shortcut
                        (report and do not descend), else __search;
    - [search_str], [search_numbers], [search_obj_atom] = the leaf comparers;
    - [XObj] / [XNamed] / [XOpaque] = __search_obj: `obj == item` (true only for a
                        named tuple facing an equal tuple item: reported, and searched
                        inside all the same), then __search_dict(print_as_attribute=True)
                        over {name: getattr(obj, name) for name in dir(obj) if not dunder}
                        (a named tuple: obj._asdict()); when reading the attributes raises
                        AttributeError (an unset slot, a property that raises) the path goes
                        to `unprocessed` and nothing below it is searched.
    Since /repo commits 9553299 / 49764d9 a str item (or str pattern) is simply
    not found in a bytes leaf and vice versa, and a bytes pattern never matches
    a path text, and since bcd9dc1 a bytes pattern is not applied to str(number)
    either: the traversal never raises; the only TypeError is the one of
    __init__ (re.compile of a non-string item), [PRaise].

    Paths are key sequences; [render] is the text search.py builds itself with
    "%s[%s]" % (parent, key) / "'%s'" % key.

    Oracles (Section variables): [re_search] (compiled item).search(text),
    [excl_re] any(exclude_regex_paths).search(path text), [brepr] str(bytes),
    [slower] str.lower() (whole strings: Unicode lower-casing is context dependent),
    [re_text] str(compiled item), [str_attrs]/[bytes_attrs] the non-dunder names
    of dir(str)/dir(bytes). *)
From Coq Require Import List ZArith NArith Bool Arith String.
Import ListNotations.
From DD Require Import Base.Sx Base.PyStr Base.Value.

Inductive step := SKey (k : atom) | SIdx (i : nat) | SAttr (n : pystr).
Definition path := list step.

(* types: the builtin ones, classes of instances, named-tuple classes (subclasses of tuple) *)
Inductive xty := TyB (t : ty) | TyObj (cls : pystr) | TyNamed (cls : pystr).

(* the searched objects *)
Inductive xvalue :=
| XAtom (a : atom)
| XList (xs : list xvalue)
| XTuple (xs : list xvalue)
| XDict (kvs : list (atom * xvalue))    (* insertion order; keys pairwise not py_eq *)
| XSet (xs : list atom)                 (* iteration order *)
| XFrozen (xs : list atom)
| XObj (cls : pystr) (attrs : list (pystr * xvalue))
      (* an instance of a class: [(n, getattr(obj, n)) for n in dir(obj) if not dunder] (dir() order:
         sorted names; class attributes and bound methods included).  A bound method / builtin
         function is an instance without such attributes. *)
| XNamed (cls : pystr) (fields : list (pystr * xvalue))   (* a named tuple: obj._asdict() *)
| XOpaque (cls : pystr)                 (* reading the attributes raises AttributeError *)
| XRef                                  (* a child that IS one of its own ancestors (a cycle in the object graph):
                                           the parents_ids guard makes __search_dict / __search_iterable pass over it *)
| XNum (t : xty) (val : option atom) (text : pystr).
      (* a number-like leaf outside the atom universe (isinstance(obj, numbers)): any other float (0.1, 1e-07,
         1e+16, nan, inf), a Decimal, a date / datetime / time / timedelta.  t = its type (for exclude_types),
         val = the number of the universe it is == to, if any (Decimal('1.5') == 1.5, 1e+16 == 10**16),
         text = str(obj) (an input: Python's exact text) *)

Fixpoint inj (v : value) : xvalue :=
  match v with
  | VAtom a => XAtom a
  | VList xs => XList (map inj xs)
  | VTuple xs => XTuple (map inj xs)
  | VDict kvs => XDict (map (fun kv => (fst kv, inj (snd kv))) kvs)
  | VSet xs => XSet xs
  | VFrozen xs => XFrozen xs
  end.

Definition xtype_of (v : xvalue) : xty :=
  match v with
  | XAtom a => TyB (atom_ty a)
  | XList _ => TyB TList | XTuple _ => TyB TTuple | XDict _ => TyB TDict
  | XSet _ => TyB TSet | XFrozen _ => TyB TFrozen
  | XObj c _ | XOpaque c => TyObj c
  | XRef => TyObj []                     (* the ancestor's type; plays no role: nothing is emitted for it either way *)
  | XNamed c _ => TyNamed c
  | XNum t _ _ => t
  end.

Fixpoint nodup_strs (l : list pystr) : bool :=
  match l with
  | [] => true
  | s :: r => negb (existsb (pystr_eqb s) r) && nodup_strs r
  end.

(* representation invariant: dicts / sets as in [wf]; attribute / field names pairwise distinct *)
Fixpoint xwf (v : xvalue) : bool :=
  match v with
  | XAtom _ | XOpaque _ | XNum _ _ _ | XRef => true
  | XList xs | XTuple xs => forallb xwf xs
  | XDict kvs => nodup_atoms (map fst kvs) && forallb (fun kv => xwf (snd kv)) kvs
  | XSet xs | XFrozen xs => nodup_atoms xs
  | XObj _ avs | XNamed _ avs => nodup_strs (map fst avs) && forallb (fun av => xwf (snd av)) avs
  end.

(* Python  x == w  for a searched object x and an item w (classes of instances do not define
   __eq__: identity, never equal to a value; a named tuple compares as the tuple of its fields) *)
Fixpoint xeqv (a : xvalue) (b : value) {struct a} : bool :=
  match a, b with
  | XAtom x, VAtom y => py_eq x y
  | XNum _ (Some x) _, VAtom y => py_eq x y
  | XList xs, VList ys | XTuple xs, VTuple ys =>
      (fix go (xs : list xvalue) (ys : list value) {struct xs} : bool :=
         match xs, ys with
         | [], [] => true
         | x :: xs', y :: ys' => xeqv x y && go xs' ys'
         | _, _ => false
         end) xs ys
  | XNamed _ fs, VTuple ys =>
      (fix go (fs : list (pystr * xvalue)) (ys : list value) {struct fs} : bool :=
         match fs, ys with
         | [], [] => true
         | f :: fs', y :: ys' => xeqv (snd f) y && go fs' ys'
         | _, _ => false
         end) fs ys
  | XDict xs, VDict ys =>
      Nat.eqb (List.length xs) (List.length ys) &&
      (fix go (xs : list (atom * xvalue)) : bool :=
         match xs with
         | [] => true
         | kv :: xs' => match assoc (fst kv) ys with
                        | Some v' => xeqv (snd kv) v'
                        | None => false
                        end && go xs'
         end) xs
  | XSet xs, VSet ys | XSet xs, VFrozen ys | XFrozen xs, VSet ys | XFrozen xs, VFrozen ys =>
      Nat.eqb (List.length xs) (List.length ys) && forallb (fun x => mem_atom x ys) xs
  | _, _ => false
  end.

Record config := mkConfig {
  cs_flag : bool;            (* case_sensitive argument *)
  match_string : bool;
  use_regexp : bool;
  strict : bool;             (* strict_checking *)
  excl_paths : list pystr;   (* exclude_paths, as texts *)
  excl_types : list xty      (* exclude_types *)
}.

(* the item after __init__: an atom (None; a number only in strict mode; a
   str / bytes), a compiled pattern (of a str or of a bytes source), or a
   container passed through unchanged *)
Inductive eitem :=
| EAtom (a : atom)
| ERe (bytes_pat : bool)
| EVal (v : value).       (* a container item (list / tuple / dict / set): only ever compared with == *)
Inductive prep := PRaise | PReErr | PItem (cs : bool) (it : eitem).   (* TypeError / re.error of re.compile / the normalised item *)

Inductive event :=
| EvValue (p : path) (v : xvalue)    (* __report('matched_values', text p, v) *)
| EvPath (p : path) (v : xvalue)     (* __report('matched_paths', text p, v) *)
| EvAttr (p : path) (name : pystr)   (* __report('matched_paths', text p ++ "." ++ name, <bound method>):
                                        a str / bytes searched as a custom object (item None) *)
| EvUnproc (p : path).               (* self['unprocessed'].append(text p) *)

Inductive result := RRaise | RReErr | ROk (evs : list event).

Definition is_ref (v : xvalue) : bool := match v with XRef => true | _ => false end.

Definition is_strlike (a : atom) : bool :=
  match a with AStr _ | ABytes _ => true | _ => false end.
Definition is_number (a : atom) : bool :=
  match a with ABool _ | AInt _ | AHalf _ => true | _ => false end.
(* repr of the float t/2 (|t/2| < 1e16: no exponent form) *)
Definition str_half (t : Z) : pystr :=
  let a := Z.abs t in
  ((if Z.ltb t 0 then [45%N] else []) ++ p_of_Z (Z.div a 2) ++ [46%N]
   ++ (if Z.eqb (Z.modulo a 2) 0 then [48%N] else [53%N]))%list.

(* isinstance(x, e) for t = type(x): bool is a subclass of int, a named-tuple class of tuple *)
Definition isinst (t e : xty) : bool :=
  match t, e with
  | TyB a, TyB b => ty_eqb a b || (ty_eqb a TBool && ty_eqb b TInt)
  | TyObj c, TyObj d | TyNamed c, TyNamed d => pystr_eqb c d
  | TyNamed _, TyB b => ty_eqb b TTuple
  | _, _ => false
  end.

Section Search.
  Variable slower : pystr -> pystr.       (* s.lower() for a str s (Unicode lower-casing: not a per-character
                                             map - final sigma is context dependent, 'İ' gives two code points) *)
  Variable brepr : pystr -> pystr.        (* str(b) for a bytes object b *)
  Variable re_search : pystr -> bool.     (* (compiled item).search(text) is a match *)
  Variable re_ok : bool.                  (* re.compile(item) accepts the (normalised) item: no re.error *)
  Variable excl_re : pystr -> bool.       (* some exclude_regex_paths pattern .search(text) *)
  Variable re_text : pystr.               (* str(item) for a compiled / container item *)
  Variable str_attrs bytes_attrs : list pystr.   (* [n for n in dir(str / bytes) if not dunder] *)
  Variable c : config.

  (* x.lower() for a str / bytes x: bytes.lower() touches the ASCII letters only *)
  Definition lower_atom (a : atom) : atom :=
    match a with AStr s => AStr (slower s) | ABytes s => ABytes (lower s) | _ => a end.

  (* str(x) *)
  Definition str_atom (a : atom) : pystr :=
    match a with
    | ANone => s2p "None"
    | ABool true => s2p "True"
    | ABool false => s2p "False"
    | AInt z => p_of_Z z
    | AHalf t => str_half t
    | AStr s => s
    | ABytes b => brepr b
    end.

  (* "%s[%s]" % (parent, key_str)  with  key_str = "'%s'" % key  for str/bytes keys;
     "{}[{}]".format(parent, i) for positions *)
  Definition render_step (s : step) : pystr :=
    match s with
    | SKey (AStr k) => (s2p "['" ++ k ++ s2p "']")%list
    | SKey (ABytes b) => (s2p "['" ++ brepr b ++ s2p "']")%list
    | SKey k => ([91%N] ++ str_atom k ++ [93%N])%list
    | SIdx i => ([91%N] ++ p_of_N (N.of_nat i) ++ [93%N])%list
    | SAttr n => (46%N :: n)%list                   (* "%s.%s" % (parent, name) *)
    end.
  Definition render (p : path) : pystr := (s2p "root" ++ List.concat (map render_step p))%list.

  (* __init__ *)
  Definition prepare_atom (item : atom) : prep :=
    let cs := if is_strlike item then cs_flag c else true in
    let i1 := if cs then item else lower_atom item in
    let i2 := if negb (strict c) && is_number i1 then AStr (str_atom i1) else i1 in
    if use_regexp c then
      match i2 with
      | AStr _ => if re_ok then PItem cs (ERe false) else PReErr
      | ABytes _ => if re_ok then PItem cs (ERe true) else PReErr
      | _ => PRaise                        (* re.compile(non-string): TypeError *)
      end
    else PItem cs (EAtom i2).
  Definition prepare (item : value) : prep :=
    match item with
    | VAtom a => prepare_atom a
    | _ => if use_regexp c then PRaise          (* re.compile(container): TypeError *)
           else PItem true (EVal item)
    end.

  Definition path_excl (p : path) : bool :=
    let t := render p in existsb (pystr_eqb t) (excl_paths c) || excl_re t.
  Definition ty_excl (t : xty) : bool := existsb (isinst t) (excl_types c).

  Section Item.
    Variable cs : bool.        (* self.case_sensitive *)
    Variable it : eitem.       (* the item as passed to __search *)

    Definition item_excl : bool :=
      match it with EAtom a => ty_excl (TyB (atom_ty a)) | ERe _ => false | EVal v => ty_excl (TyB (type_of v)) end.
    (* __skip_this(item, parent)  -- the call at the top of __search *)
    Definition skip_item (p : path) : bool := path_excl p || item_excl.
    (* __skip_this(thing, new_parent)  -- the call in __search_iterable *)
    Definition skip_this (t : xty) (p : path) : bool := path_excl p || ty_excl t.

    (* x if self.case_sensitive else x.lower();  isb: x is a bytes *)
    Definition fold_s (isb : bool) (s : pystr) : pystr :=
      if cs then s else if isb then lower s else slower s.
    (* str(item) *)
    Definition item_text : pystr :=
      match it with EAtom a => str_atom a | ERe _ | EVal _ => re_text end.
    (* item == x  for an atom x *)
    Definition eq_item (a : atom) : bool :=
      match it with EAtom b => py_eq b a | ERe _ | EVal _ => false end.

    Definition item_is_str_or_re : bool :=
      match it with EAtom (AStr _) | EAtom (ABytes _) | ERe _ => true | _ => false end.
    Definition item_is_number : bool :=
      match it with EAtom a => is_number a | ERe _ | EVal _ => false end.

    (* __search_str; isb: the object is a bytes *)
    Definition search_str (isb : bool) (s : pystr) (p : path) : list event :=
      let txt := fold_s isb s in
      let hit := [EvValue p (XAtom (if isb then ABytes s else AStr s))] in
      (* `if isinstance(wanted, (str, bytes)) and not isinstance(obj, type(wanted)): return` *)
      let plain (ib : bool) (i : pystr) : list event :=
        if Bool.eqb ib isb
        then (if match_string c
              then (if pystr_eqb i txt then hit else [])
              else (if contains_sub i txt then hit else []))
        else []
      in
      match it with
      | ERe b => if Bool.eqb b isb then (if re_search txt then hit else []) else []
      | EAtom (AStr i) => plain false i
      | EAtom (ABytes i) => plain true i
      | EAtom _ | EVal _ => []
      end.

    (* __search_numbers *)
    Definition search_numbers (a : atom) (p : path) : list event :=
      let hit := [EvValue p (XAtom a)] in
      if eq_item a then hit
      else if strict c then []
      else match it with
           | EAtom (AStr i) => if pystr_eqb i (str_atom a) then hit else []
           | EAtom _ | EVal _ => []
           | ERe false => if re_search (str_atom a) then hit else []   (* isinstance(item.pattern, str) and ... *)
           | ERe true => []
           end.

    (* the matched_paths test of __search_dict on the (case folded) text of the new path *)
    Definition path_test (txt : pystr) (hit : list event) : list event :=
      if (match_string c && pystr_eqb item_text txt)
         || (negb (match_string c) && contains_sub item_text txt)
      then hit
      else match it with
           | ERe false => if re_search txt then hit else []   (* isinstance(item.pattern, str) and ... *)
           | ERe true | EAtom _ | EVal _ => []
           end.

    (* __search_obj on None, and on a str / bytes when the item is None or a
       container (the items for which a str reaches the last branch of __search): `obj == item`,
       then __search_dict(print_as_attribute=True) over the non-dunder attributes;
       each attribute is a builtin method / function, whose own search reports nothing *)
    Definition attr_events (names : list pystr) (p : path) : list event :=
      flat_map (fun n => path_test (fold_s false (render p ++ [46%N] ++ n)%list) [EvAttr p n]) names.
    Definition search_obj_atom (a : atom) (p : path) : list event :=
      ((if eq_item a then [EvValue p (XAtom a)] else [])
       ++ match a with
          | AStr _ => attr_events str_attrs p
          | ABytes _ => attr_events bytes_attrs p
          | _ => []
          end)%list.

    (* the elif chain of __search for an atom (after the skip test) *)
    Definition search_leaf (a : atom) (p : path) : list event :=
      if is_strlike a && item_is_str_or_re then
        match a with
        | AStr s => search_str false s p
        | ABytes s => search_str true s p
        | _ => []
        end
      else if is_strlike a && item_is_number then []
      else if is_number a then search_numbers a p
      else search_obj_atom a p.

    Definition search_atom (a : atom) (p : path) : list event :=
      if skip_item p then [] else search_leaf a p.

    (* the matched_paths test of __search_dict for the entry at p' *)
    Definition path_event (p' : path) (child : xvalue) : list event :=
      path_test (fold_s false (render p')) [EvPath p' child].

    (* thing_cased == item *)
    Definition thing_eq_item (x : xvalue) : bool :=
      match it with
      | EVal w => xeqv x w                    (* Python == on containers *)
      | _ => match x with
             | XAtom a => eq_item (if cs then a else lower_atom a)
             | XNum _ (Some a) _ => eq_item a
             | _ => false
             end
      end.
    (* __search_numbers on a number-like leaf: item == obj, or (loose) its text *)
    Definition search_xnum (obj : xvalue) (vl : option atom) (tx : pystr) (p : path) : list event :=
      let hit := [EvValue p obj] in
      if match vl with Some a => eq_item a | None => false end then hit
      else if strict c then []
      else match it with
           | EAtom (AStr i) => if pystr_eqb i tx then hit else []
           | ERe false => if re_search tx then hit else []
           | ERe true | EAtom _ | EVal _ => []
           end.
    (* `obj == item` at the top of __search_obj, for a named tuple / an instance *)
    Definition self_eq (x : xvalue) : bool :=
      match it with EVal w => xeqv x w | _ => false end.
    Definition shortcut (x : xvalue) : bool := negb (use_regexp c) && thing_eq_item x.

    (* one round of the loop of __search_iterable; srch = __search(thing, item, .) *)
    Definition thing_events (srch : path -> list event) (x : xvalue) (p' : path) : list event :=
      if skip_this (xtype_of x) p' then []
      else if shortcut x then [EvValue p' x]
      else srch p'.

    Fixpoint search (obj : xvalue) (p : path) {struct obj} : list event :=
      if skip_item p then [] else
      (* `if parents_ids and item_id in parents_ids: continue` comes first in the loop of __search_dict: an entry whose
         value is an ancestor is passed over before its path is looked at *)
      let attrs_go :=
        fix go (avs : list (pystr * xvalue)) : list event :=
          match avs with
          | [] => []
          | av :: r =>
              let p' := (p ++ [SAttr (fst av)])%list in
              if is_ref (snd av) then go r
              else (path_event p' (snd av) ++ search (snd av) p' ++ go r)%list
          end in
      match obj with
      | XAtom a => search_leaf a p
      | XDict kvs =>
          (fix go (kvs : list (atom * xvalue)) : list event :=
             match kvs with
             | [] => []
             | kv :: r =>
                 let p' := (p ++ [SKey (fst kv)])%list in
                 if is_ref (snd kv) then go r
                 else (path_event p' (snd kv) ++ search (snd kv) p' ++ go r)%list
             end) kvs
      | XList xs | XTuple xs =>
          (fix go (xs : list xvalue) (i : nat) : list event :=
             match xs with
             | [] => []
             | x :: r => (thing_events (search x) x (p ++ [SIdx i]) ++ go r (S i))%list
             end) xs 0
      | XSet xs | XFrozen xs =>
          (fix go (xs : list atom) (i : nat) : list event :=
             match xs with
             | [] => []
             | a :: r => (thing_events (search_atom a) (XAtom a) (p ++ [SIdx i]) ++ go r (S i))%list
             end) xs 0
      (* __search_obj *)
      | XObj _ avs => attrs_go avs
      | XNamed _ avs => ((if self_eq obj then [EvValue p obj] else []) ++ attrs_go avs)%list
      | XOpaque _ => [EvUnproc p]
      | XRef => []      (* as an item of a list / tuple: thing == item is false for an atom item (cyclic objects are modelled
                           for atom items only), then the parents_ids guard `continue`s *)
      | XNum _ vl tx => search_xnum obj vl tx p
      end.
  End Item.

  (* DeepSearch(obj, item, **config) *)
  Definition deep_search (item : value) (obj : xvalue) : result :=
    match prepare item with
    | PRaise => RRaise
    | PReErr => RReErr
    | PItem cs it => ROk (search cs it obj [])
    end.

  (* the result dictionaries: keyed by path TEXT; `d[key] = value` keeps the
     position of an existing key and replaces its value (verbose_level >= 2);
     SetOrdered.add keeps the first occurrence (verbose_level 1) *)
  Fixpoint upsert {V} (k : pystr) (v : V) (l : list (pystr * V)) : list (pystr * V) :=
    match l with
    | [] => [(k, v)]
    | (k', v') :: r => if pystr_eqb k k' then (k', v) :: r else (k', v') :: upsert k v r
    end.
  Definition matched_values (evs : list event) : list (pystr * xvalue) :=
    fold_left (fun d e => match e with EvValue p v => upsert (render p) v d | _ => d end) evs [].
  (* None stands for a bound builtin method (EvAttr) *)
  Definition matched_paths (evs : list event) : list (pystr * option xvalue) :=
    fold_left (fun d e => match e with
                          | EvPath p v => upsert (render p) (Some v) d
                          | EvAttr p n => upsert (render p ++ [46%N] ++ n)%list None d
                          | _ => d end) evs [].
  (* self['unprocessed']: a list, appended to *)
  Definition unprocessed (evs : list event) : list pystr :=
    flat_map (fun e => match e with EvUnproc p => [render p] | _ => [] end) evs.
End Search.

(** Proofs for C16: the model of DeepSearch reports exactly the visible
    matching locations. *)
From Coq Require Import List ZArith NArith Bool Arith String Lia.
Import ListNotations.
From DD Require Import Base.Sx Base.PyStr Base.Value Search.SearchModel Search.SearchSpec.

(* ---------- generalities the Base files do not provide ---------- *)

Lemma pystr_eqb_eq : forall a b, pystr_eqb a b = true -> a = b.
Proof.
  unfold pystr_eqb. induction a as [|x a IH]; destruct b as [|y b]; intro H; try discriminate; auto.
  apply andb_true_iff in H. destruct H as [H1 H2]. apply N.eqb_eq in H1. subst. f_equal. auto.
Qed.

Lemma pystr_eqb_refl : forall a, pystr_eqb a a = true.
Proof. unfold pystr_eqb. induction a as [|x a IH]; auto. rewrite N.eqb_refl. exact IH. Qed.

Lemma atom_eqb_eq : forall a b, atom_eqb a b = true -> a = b.
Proof.
  intros x y. destruct x as [|b1|z1|t1|s1|s1], y as [|b2|z2|t2|s2|s2]; cbn; intro H; try discriminate; auto.
  - apply Bool.eqb_prop in H. subst. auto.
  - apply Z.eqb_eq in H. subst. auto.
  - apply Z.eqb_eq in H. subst. auto.
  - apply pystr_eqb_eq in H. subst. auto.
  - apply pystr_eqb_eq in H. subst. auto.
Qed.

Lemma atom_eqb_refl : forall a, atom_eqb a a = true.
Proof.
  intros x. destruct x as [|b1|z1|t1|s1|s1]; cbn; auto using Z.eqb_refl, pystr_eqb_refl. destruct b1; auto.
Qed.

Lemma py_eq_refl : forall a, py_eq a a = true.
Proof.
  intros x. destruct x as [|b1|z1|t1|s1|s1]; cbn; auto using Z.eqb_refl, pystr_eqb_refl.
Qed.

(* induction over values with the nested lists *)
Section ValueInd.
  Variable P : xvalue -> Prop.
  Hypothesis Hatom : forall a, P (XAtom a).
  Hypothesis Hlist : forall xs, Forall P xs -> P (XList xs).
  Hypothesis Htuple : forall xs, Forall P xs -> P (XTuple xs).
  Hypothesis Hdict : forall kvs, Forall (fun kv => P (snd kv)) kvs -> P (XDict kvs).
  Hypothesis Hset : forall xs, P (XSet xs).
  Hypothesis Hfrozen : forall xs, P (XFrozen xs).
  Hypothesis Hobj : forall c avs, Forall (fun av => P (snd av)) avs -> P (XObj c avs).
  Hypothesis Hnamed : forall c avs, Forall (fun av => P (snd av)) avs -> P (XNamed c avs).
  Hypothesis Hopaque : forall c, P (XOpaque c).
  Hypothesis Href : P XRef.
  Hypothesis Hnum : forall t vl tx, P (XNum t vl tx).
  Fixpoint value_ind' (v : xvalue) : P v :=
    match v with
    | XAtom a => Hatom a
    | XList xs => Hlist xs ((fix go (l : list xvalue) : Forall P l :=
                               match l with [] => Forall_nil _ | x :: r => Forall_cons _ (value_ind' x) (go r) end) xs)
    | XTuple xs => Htuple xs ((fix go (l : list xvalue) : Forall P l :=
                               match l with [] => Forall_nil _ | x :: r => Forall_cons _ (value_ind' x) (go r) end) xs)
    | XDict kvs => Hdict kvs ((fix go (l : list (atom * xvalue)) : Forall (fun kv => P (snd kv)) l :=
                               match l with [] => Forall_nil _ | x :: r => Forall_cons _ (value_ind' (snd x)) (go r) end) kvs)
    | XSet xs => Hset xs
    | XFrozen xs => Hfrozen xs
    | XObj c avs => Hobj c avs ((fix go (l : list (pystr * xvalue)) : Forall (fun av => P (snd av)) l :=
                               match l with [] => Forall_nil _ | x :: r => Forall_cons _ (value_ind' (snd x)) (go r) end) avs)
    | XNamed c avs => Hnamed c avs ((fix go (l : list (pystr * xvalue)) : Forall (fun av => P (snd av)) l :=
                               match l with [] => Forall_nil _ | x :: r => Forall_cons _ (value_ind' (snd x)) (go r) end) avs)
    | XOpaque c => Hopaque c
    | XRef => Href
    | XNum t vl tx => Hnum t vl tx
    end.
End ValueInd.

(* a dictionary with pairwise non-equal keys maps a key to the entry that holds it *)
Lemma mem_atom_in : forall k l, In k l -> mem_atom k l = true.
Proof.
  unfold mem_atom. intros k l H. apply existsb_exists. exists k. split; auto using py_eq_refl.
Qed.

Lemma find_key_in : forall (kvs : list (atom * xvalue)) k v,
  nodup_atoms (map fst kvs) = true -> In (k, v) kvs ->
  find (fun kv => atom_eqb (fst kv) k) kvs = Some (k, v).
Proof.
  induction kvs as [|[k0 v0] r IH]; intros k v Hnd Hin; [destruct Hin|].
  cbn in Hnd. apply andb_true_iff in Hnd. destruct Hnd as [Hnot Hnd].
  cbn [find fst]. destruct Hin as [Heq|Hin].
  - inversion Heq; subst. rewrite atom_eqb_refl. reflexivity.
  - destruct (atom_eqb k0 k) eqn:E.
    + apply atom_eqb_eq in E. subst k0.
      assert (Hm : mem_atom k (map fst r) = true) by (apply mem_atom_in; apply (in_map fst _ _ Hin)).
      rewrite Hm in Hnot. discriminate.
    + apply IH; auto.
Qed.

Lemma find_key_some : forall (kvs : list (atom * xvalue)) k kv,
  find (fun kv => atom_eqb (fst kv) k) kvs = Some kv -> In kv kvs /\ fst kv = k.
Proof.
  intros kvs k kv H. apply find_some in H. destruct H as [H1 H2]. split; auto using atom_eqb_eq.
Qed.

Lemma wf_dict_inv : forall kvs, xwf (XDict kvs) = true ->
  nodup_atoms (map fst kvs) = true /\ forall kv, In kv kvs -> xwf (snd kv) = true.
Proof.
  intros kvs H. cbn in H. apply andb_true_iff in H. destruct H as [H1 H2]. split; auto.
  intros kv Hin. rewrite forallb_forall in H2. auto.
Qed.

Lemma wf_list_inv : forall xs, forallb xwf xs = true -> forall x, In x xs -> xwf x = true.
Proof. intros xs H x Hin. rewrite forallb_forall in H. auto. Qed.

(* an instance with pairwise distinct attribute names maps a name to the attribute that holds it *)
Lemma find_attr_in : forall (avs : list (pystr * xvalue)) n v,
  nodup_strs (map fst avs) = true -> In (n, v) avs ->
  find (fun av => pystr_eqb (fst av) n) avs = Some (n, v).
Proof.
  induction avs as [|[n0 v0] r IH]; intros n v Hnd Hin; [destruct Hin|].
  cbn in Hnd. apply andb_true_iff in Hnd. destruct Hnd as [Hnot Hnd].
  cbn [find fst]. destruct Hin as [Heq|Hin].
  - inversion Heq; subst. rewrite pystr_eqb_refl. reflexivity.
  - destruct (pystr_eqb n0 n) eqn:E.
    + apply pystr_eqb_eq in E. subst n0. apply negb_true_iff in Hnot.
      assert (Hm : existsb (pystr_eqb n) (map fst r) = true).
      { apply existsb_exists. exists n. split; [apply (in_map fst _ _ Hin)|apply pystr_eqb_refl]. }
      congruence.
    + apply IH; auto.
Qed.

Lemma find_attr_some : forall (avs : list (pystr * xvalue)) n av,
  find (fun av => pystr_eqb (fst av) n) avs = Some av -> In av avs /\ fst av = n.
Proof.
  intros avs n av H. apply find_some in H. destruct H as [H1 H2]. split; auto using pystr_eqb_eq.
Qed.

Lemma wf_attrs_inv : forall avs,
  nodup_strs (map fst avs) && forallb (fun av => xwf (snd av)) avs = true ->
  nodup_strs (map fst avs) = true /\ forall av, In av avs -> xwf (snd av) = true.
Proof.
  intros avs H. apply andb_true_iff in H. destruct H as [H1 H2]. split; auto.
  intros av Hin. rewrite forallb_forall in H2. auto.
Qed.

Lemma nth_error_map_atom : forall (xs : list atom) i,
  nth_error (map XAtom xs) i = option_map XAtom (nth_error xs i).
Proof. induction xs as [|a r IH]; destruct i; cbn; auto. Qed.

(* the attributes __search_obj iterates over: an instance's / a named tuple's *)
Definition obj_attrs (w : xvalue) : option (list (pystr * xvalue)) :=
  match w with XObj _ avs | XNamed _ avs => Some avs | _ => None end.

Section Proofs.
  Variable slower : pystr -> pystr.
  Variable brepr : pystr -> pystr.
  Variable re_search : pystr -> bool.
  Variable excl_re : pystr -> bool.
  Variable re_text : pystr.
  Variable str_attrs bytes_attrs : list pystr.
  Variable c : config.
  Variable cs : bool.
  Variable it : eitem.

  Notation render := (render brepr).
  Notation path_excl := (path_excl brepr excl_re c).
  Notation ty_excl := (ty_excl c).
  Notation item_excl := (item_excl c it).
  Notation skip_item := (skip_item brepr excl_re c it).
  Notation skip_this := (skip_this brepr excl_re c).
  Notation fold_s := (fold_s slower cs).
  Notation search := (search slower brepr re_search excl_re re_text str_attrs bytes_attrs c cs it).
  Notation search_leaf := (search_leaf slower brepr re_search re_text str_attrs bytes_attrs c cs it).
  Notation search_atom := (search_atom slower brepr re_search excl_re re_text str_attrs bytes_attrs c cs it).
  Notation search_str := (search_str slower re_search c cs it).
  Notation search_numbers := (search_numbers brepr re_search c it).
  Notation search_obj_atom := (search_obj_atom slower brepr re_search re_text str_attrs bytes_attrs c cs it).
  Notation attr_events := (attr_events slower brepr re_search re_text c cs it).
  Notation thing_events := (thing_events slower brepr excl_re c cs it).
  Notation path_event := (path_event slower brepr re_search re_text c cs it).
  Notation path_test := (path_test brepr re_search re_text c it).
  Notation shortcut := (shortcut slower c cs it).
  Notation vis := (vis slower brepr excl_re c cs it).
  Notation vis_doc := (vis_doc brepr excl_re c).
  Notation leaf_match := (leaf_match slower brepr re_search c cs it).
  Notation atom_match := (atom_match slower brepr re_search c cs it).
  Notation str_match := (str_match slower re_search c cs it).
  Notation num_match := (num_match brepr re_search c it).
  Notation text_match := (text_match brepr re_search re_text c it).
  Notation path_match := (path_match slower brepr re_search re_text c cs it).
  Notation attrs_of := (attrs_of str_attrs bytes_attrs it).
  Notation attr_text := (attr_text slower brepr cs).
  Notation match_at := (match_at slower brepr re_search c cs it).
  Notation item_match := (item_match slower brepr re_search c cs it).
  Notation atom_item := (atom_item it).
  Notation obj_searched := (obj_searched it).
  Notation matches_spec := (matches_spec slower brepr re_search excl_re c cs it).
  Notation matches_spec_doc := (matches_spec_doc slower brepr re_search excl_re c cs it).
  Notation paths_spec := (paths_spec slower brepr re_search excl_re re_text c cs it).
  Notation paths_spec_doc := (paths_spec_doc slower brepr re_search excl_re re_text c cs it).
  Notation unprocessed_spec := (unprocessed_spec slower brepr excl_re c cs it).
  Notation k16_guard := (k16_guard c).
  Notation k16b_guard := (k16b_guard brepr excl_re c).

  (* what the search emits AT one location (p, w), not counting what it emits
     below it *)
  Inductive local_ev (p : path) (w : xvalue) : event -> Prop :=
  | LValue : leaf_match w = true -> local_ev p w (EvValue p w)
  | LAttr : forall n, In n (attrs_of w) -> text_match (attr_text p n) = true ->
                      local_ev p w (EvAttr p n)
  | LPath : forall kvs k ch, w = XDict kvs -> In (k, ch) kvs -> is_ref ch = false ->
                             path_match (p ++ [SKey k]) = true ->
                             local_ev p w (EvPath (p ++ [SKey k]) ch)
  | LAPath : forall avs n ch, obj_attrs w = Some avs -> In (n, ch) avs -> is_ref ch = false ->
                              path_match (p ++ [SAttr n]) = true ->
                              local_ev p w (EvPath (p ++ [SAttr n]) ch)
  | LUnproc : is_opaque w = true -> local_ev p w (EvUnproc p).

  (* ---------- the leaf comparers ---------- *)

  Ltac crush := cbn [In]; intuition (try discriminate; try congruence; auto).
  Ltac noattr := match goal with
                 | H : exists n, In n [] /\ _ |- _ => destruct H as [? [[] _]]
                 | H : exists n, False /\ _ |- _ => destruct H as [? [[] _]]
                 end.

  Lemma path_test_iff : forall txt hit ev,
    In ev (path_test txt hit) <-> text_match txt = true /\ In ev hit.
  Proof.
    intros txt hit ev. unfold SearchModel.path_test, SearchSpec.text_match.
    destruct (match_string c && pystr_eqb _ txt || negb (match_string c) && contains_sub _ txt) eqn:E;
      cbn [negb orb andb]; [crush|].
    destruct it as [a|[|]|w]; try destruct (re_search txt); crush.
  Qed.

  Lemma search_str_iff : forall isb s p ev,
    In ev (search_str isb s p) <->
    str_match isb s = true /\ ev = EvValue p (XAtom (if isb then ABytes s else AStr s)).
  Proof.
    intros isb s p ev. unfold SearchModel.search_str, SearchSpec.str_match.
    destruct it as [[| | | |i|i]|b|w]; try (crush; fail).
    - destruct (match_string c), isb; cbn;
        try destruct (pystr_eqb i _); try destruct (contains_sub i _); crush.
    - destruct (match_string c), isb; cbn;
        try destruct (pystr_eqb i _); try destruct (contains_sub i _); crush.
    - destruct b, isb; cbn; try destruct (re_search _); crush.
  Qed.

  Lemma search_numbers_iff : forall a p ev,
    In ev (search_numbers a p) <->
    num_match a = true /\ ev = EvValue p (XAtom a).
  Proof.
    intros a p ev. unfold SearchModel.search_numbers, SearchSpec.num_match, eq_item.
    destruct it as [b|[|]|w].
    - destruct (py_eq b a); cbn [orb]; [crush|].
      destruct (strict c); cbn [negb andb]; [crush|].
      destruct b; try destruct (pystr_eqb _ _); crush.
    - destruct (strict c); crush.
    - destruct (strict c); cbn [negb andb]; try destruct (re_search _); crush.
    - destruct (strict c); crush.
  Qed.

  Lemma attr_events_iff : forall names p ev,
    In ev (attr_events names p) <->
    exists n, In n names /\ text_match (attr_text p n) = true /\ ev = EvAttr p n.
  Proof.
    intros names p ev. unfold SearchModel.attr_events. rewrite in_flat_map. split.
    - intros [n [Hn H]]. apply path_test_iff in H. exists n. split; auto.
      destruct H as [H1 [H2|[]]]; auto.
    - intros [n [Hn [H1 H2]]]. exists n. split; auto. apply path_test_iff. split; auto. left; auto.
  Qed.

  Lemma local_ev_atom : forall p a ev,
    local_ev p (XAtom a) ev <->
    (atom_match a = true /\ ev = EvValue p (XAtom a))
    \/ (exists n, In n (attrs_of (XAtom a)) /\ text_match (attr_text p n) = true /\ ev = EvAttr p n).
  Proof.
    intros p a ev. split.
    - intro H. inversion H; subst; auto; try discriminate.
      right. eauto.
    - intros [[H1 H2]|[n [H1 [H2 H3]]]]; subst.
      + apply LValue. exact H1.
      + eapply LAttr; eauto.
  Qed.

  Lemma py_eq_none : forall b, py_eq b ANone = true <-> b = ANone.
  Proof. intro b. destruct b; cbn; intuition discriminate. Qed.

  Lemma attrs_of_notstr : forall a, is_strlike a = false -> attrs_of (XAtom a) = [].
  Proof. intros a H. unfold SearchSpec.attrs_of. destruct obj_searched; auto. destruct a; try discriminate; auto. Qed.

  Lemma attrs_of_unsearched : forall v, obj_searched = false -> attrs_of v = [].
  Proof. intros v H. unfold SearchSpec.attrs_of. rewrite H. reflexivity. Qed.

  (* a str / bytes that reaches __search_obj (item None or a container) *)
  Lemma search_obj_str_iff : forall a p ev, is_strlike a = true -> obj_searched = true ->
    (In ev (search_obj_atom a p) <-> local_ev p (XAtom a) ev).
  Proof.
    intros a p ev Ha Hos. rewrite local_ev_atom. unfold SearchModel.search_obj_atom.
    assert (Heq : eq_item it a = false).
    { unfold eq_item. destruct it as [[| | | | |]|b|w]; try discriminate; auto. destruct a; try discriminate; reflexivity. }
    assert (Hm : atom_match a = false).
    { destruct a; try discriminate; cbn; unfold SearchSpec.str_match; destruct it as [[| | | | |]|b|w]; try discriminate; auto. }
    rewrite Heq, Hm. cbn [app].
    assert (Hev : In ev (match a with AStr _ => attr_events str_attrs p | ABytes _ => attr_events bytes_attrs p | _ => [] end)
                  <-> exists n, In n (attrs_of (XAtom a)) /\ text_match (attr_text p n) = true /\ ev = EvAttr p n).
    { unfold SearchSpec.attrs_of. rewrite Hos. destruct a; try discriminate; rewrite attr_events_iff; tauto. }
    rewrite Hev. crush.
  Qed.

  Lemma search_leaf_iff : forall a p ev, In ev (search_leaf a p) <-> local_ev p (XAtom a) ev.
  Proof.
    intros a p ev. unfold SearchModel.search_leaf.
    destruct (is_strlike a) eqn:Hsl.
    - (* str / bytes *)
      cbn [andb]. destruct (item_is_str_or_re it) eqn:H1.
      + rewrite local_ev_atom.
        assert (Hos : obj_searched = false) by (destruct it as [[| | | | |]|b|w]; try discriminate; auto).
        rewrite (attrs_of_unsearched _ Hos).
        destruct a as [| | | |s|s]; try discriminate; rewrite search_str_iff; crush; try noattr.
      + destruct (item_is_number it) eqn:H2.
        * rewrite local_ev_atom.
          assert (Hos : obj_searched = false) by (destruct it as [[| | | | |]|b|w]; try discriminate; auto).
          rewrite (attrs_of_unsearched _ Hos).
          destruct a as [| | | |s|s]; try discriminate; cbn [SearchSpec.atom_match];
            unfold SearchSpec.str_match;
            destruct it as [[| | | | |]|b|w]; try discriminate; crush; try noattr.
        * assert (Hn : is_number a = false) by (destruct a; try discriminate; auto). rewrite Hn.
          apply search_obj_str_iff; auto.
          destruct it as [[| | | | |]|b|w]; try discriminate; auto.
    - cbn [andb]. rewrite local_ev_atom, (attrs_of_notstr a Hsl).
      destruct a as [|b0|z0|t0|s|s]; try discriminate; cbn [is_number].
      + (* None *)
        unfold SearchModel.search_obj_atom, eq_item. rewrite app_nil_r.
        cbn [SearchSpec.atom_match].
        destruct it as [b|b|w].
        * destruct (py_eq b ANone) eqn:E.
          -- apply py_eq_none in E. subst b. crush; try noattr.
          -- assert (b <> ANone) by (intro; subst; cbn in E; discriminate).
             destruct b; crush; try noattr.
        * crush; try noattr.
        * crush; try noattr.
      + rewrite search_numbers_iff. cbn [SearchSpec.atom_match]. crush; try noattr.
      + rewrite search_numbers_iff. cbn [SearchSpec.atom_match]. crush; try noattr.
      + rewrite search_numbers_iff. cbn [SearchSpec.atom_match]. crush; try noattr.
  Qed.

  (* ---------- the equality shortcut of __search_iterable ---------- *)

  Lemma is_prefix_refl : forall s, is_prefix s s = true.
  Proof. induction s as [|x s IH]; cbn; auto. rewrite N.eqb_refl. exact IH. Qed.
  Lemma contains_sub_refl : forall s, contains_sub s s = true.
  Proof. intro s. destruct s; cbn; auto. rewrite N.eqb_refl, is_prefix_refl. reflexivity. Qed.

  Lemma py_eq_str : forall b t, py_eq b (AStr t) = true -> exists i, b = AStr i /\ pystr_eqb i t = true.
  Proof. intros b t. destruct b; cbn; intro H; try discriminate. eauto. Qed.
  Lemma py_eq_bytes : forall b t, py_eq b (ABytes t) = true -> exists i, b = ABytes i /\ pystr_eqb i t = true.
  Proof. intros b t. destruct b; cbn; intro H; try discriminate. eauto. Qed.

  (* with an atom item only a leaf (an atom, a number-like leaf) can equal the item *)
  Lemma shortcut_atom : forall x, atom_item = true -> shortcut x = true ->
    (exists a, x = XAtom a) \/ (exists t a tx, x = XNum t (Some a) tx).
  Proof.
    intros x Hai H. unfold SearchModel.shortcut in H. apply andb_true_iff in H. destruct H as [_ H].
    unfold thing_eq_item in H. destruct it as [b|b|w]; try discriminate;
      destruct x as [a| | | | | | | | | |t [a|] tx]; try discriminate; eauto 6.
  Qed.
  Lemma shortcut_leaf : forall x, atom_item = true -> shortcut x = true -> forall s, child x s = None.
  Proof.
    intros x Hai H s. destruct (shortcut_atom x Hai H) as [[a Hx]|[t [a [tx Hx]]]]; subst x; destruct s; reflexivity.
  Qed.

  Lemma shortcut_facts : forall a, atom_item = true -> shortcut (XAtom a) = true ->
    atom_match a = true /\ attrs_of (XAtom a) = [].
  Proof.
    intros a Hai H. unfold SearchModel.shortcut in H. apply andb_true_iff in H. destruct H as [_ H].
    unfold thing_eq_item, eq_item in H.
    assert (Hat : attrs_of (XAtom a) = []).
    { destruct (is_strlike a) eqn:Hs; [|apply attrs_of_notstr; auto]. apply attrs_of_unsearched.
      unfold SearchSpec.obj_searched. destruct it as [[| | | | |]|b|w]; try discriminate; auto.
      destruct a; try discriminate; destruct cs; discriminate. }
    split; [|exact Hat]; clear Hat;
    destruct it as [b|b|w] eqn:Eit; try discriminate;
    destruct a as [|b0|z0|t0|s|s].
    - assert (b = ANone) by (apply py_eq_none; destruct cs; exact H). subst b. reflexivity.
    - assert (H' : py_eq b (ABool b0) = true) by (destruct cs; exact H).
      cbn [SearchSpec.atom_match]. unfold SearchSpec.num_match. rewrite H'. reflexivity.
    - assert (H' : py_eq b (AInt z0) = true) by (destruct cs; exact H).
      cbn [SearchSpec.atom_match]. unfold SearchSpec.num_match. rewrite H'. reflexivity.
    - assert (H' : py_eq b (AHalf t0) = true) by (destruct cs; exact H).
      cbn [SearchSpec.atom_match]. unfold SearchSpec.num_match. rewrite H'. reflexivity.
    - assert (H' : py_eq b (AStr (fold_s false s)) = true) by (unfold SearchModel.fold_s; destruct cs; exact H).
      apply py_eq_str in H'. destruct H' as [i [Hb Hi]]. subst b.
      cbn [SearchSpec.atom_match]. unfold SearchSpec.str_match. cbn [negb andb].
      destruct (match_string c); [exact Hi|]. apply pystr_eqb_eq in Hi. rewrite Hi. apply contains_sub_refl.
    - assert (H' : py_eq b (ABytes (fold_s true s)) = true) by (unfold SearchModel.fold_s; destruct cs; exact H).
      apply py_eq_bytes in H'. destruct H' as [i [Hb Hi]]. subst b.
      cbn [SearchSpec.atom_match]. unfold SearchSpec.str_match. cbn [negb andb].
      destruct (match_string c); [exact Hi|]. apply pystr_eqb_eq in Hi. rewrite Hi. apply contains_sub_refl.
  Qed.

  (* with an atom item, what equals the item also matches by its comparer *)
  Lemma equals_item_leaf_match : forall v, atom_item = true -> shortcut v = true -> leaf_match v = true.
  Proof.
    intros v Hai H. destruct (shortcut_atom v Hai H) as [[a Ha]|[t [a [tx Ha]]]]; subst v.
    - apply (shortcut_facts a Hai H).
    - unfold SearchModel.shortcut in H. apply andb_true_iff in H. destruct H as [_ H].
      unfold thing_eq_item, eq_item in H. cbn [SearchSpec.leaf_match]. unfold SearchSpec.xnum_match.
      destruct it as [b|b|w]; try discriminate. rewrite H. reflexivity.
  Qed.

  Lemma thing_events_iff : forall srch x p' ev,
    In ev (thing_events srch x p') <->
    skip_this (xtype_of x) p' = false /\
    ((shortcut x = true /\ ev = EvValue p' x) \/ (shortcut x = false /\ In ev (srch p'))).
  Proof.
    intros srch x p' ev. unfold SearchModel.thing_events.
    destruct (skip_this (xtype_of x) p'); [crush|]. destruct (shortcut x); crush.
  Qed.

  (* ---------- the traversal ---------- *)

  Definition spec_ev (obj : xvalue) (pre : path) (ev : event) : Prop :=
    item_excl = false /\
    exists rest w, get_at obj rest = Some w /\
      ((vis true pre obj rest = true /\ local_ev (pre ++ rest) w ev)
       \/ (vis false pre obj rest = true /\ vis true pre obj rest = false
           /\ ev = EvValue (pre ++ rest) w)).

  Lemma vis_head : forall e pre obj rest, vis e pre obj rest = true -> path_excl pre = false.
  Proof.
    intros e pre obj rest H. destruct rest; cbn [SearchSpec.vis] in H; apply andb_true_iff in H; destruct H as [H _];
      apply negb_true_iff in H; exact H.
  Qed.

  Lemma vis_nil : forall e pre obj, vis e pre obj [] = negb (path_excl pre).
  Proof. intros. cbn. apply andb_true_r. Qed.

  Lemma child_atom : forall a s, child (XAtom a) s = None.
  Proof. intros a s. destruct s; reflexivity. Qed.

  Lemma get_at_atom : forall a rest w, get_at (XAtom a) rest = Some w -> rest = [] /\ w = XAtom a.
  Proof.
    intros a rest w H. destruct rest as [|s r]; cbn [get_at] in H.
    - inversion H. auto.
    - rewrite child_atom in H. discriminate.
  Qed.

  Lemma search_atom_iff : forall a pre ev, In ev (search_atom a pre) <-> spec_ev (XAtom a) pre ev.
  Proof.
    intros a pre ev. unfold SearchModel.search_atom, SearchModel.skip_item, spec_ev. split.
    - destruct (path_excl pre) eqn:E1; [intros []|]. destruct item_excl eqn:E2; [intros []|].
      cbn [orb]. intro H. apply search_leaf_iff in H. split; auto.
      exists [], (XAtom a). split; [reflexivity|]. left. rewrite vis_nil, E1, app_nil_r. auto.
    - intros [Hi [rest [w [Hg HH]]]]. apply get_at_atom in Hg. destruct Hg; subst.
      rewrite !vis_nil in HH. destruct HH as [[Hv Hl]|[Hv1 [Hv2 _]]]; [|congruence].
      apply negb_true_iff in Hv. rewrite Hv, Hi. cbn [orb]. apply search_leaf_iff.
      rewrite app_nil_r in Hl. exact Hl.
  Qed.

  Lemma seq_case : forall (obj : xvalue) (ys : list xvalue) (srch : xvalue -> path -> list event)
                          (evs : path -> list event),
    (forall i, child obj (SIdx i) = nth_error ys i) ->
    (forall s, step_is_idx s = false -> child obj s = None) ->
    (forall p ev, ~ local_ev p obj ev) ->
    (forall pre ev, In ev (evs pre) <->
                    exists i x, nth_error ys i = Some x /\ In ev (thing_events (srch x) x (pre ++ [SIdx i]))) ->
    (forall x, In x ys -> forall p' ev, In ev (srch x p') <-> spec_ev x p' ev) ->
    forall pre ev, In ev (if skip_item pre then [] else evs pre) <-> spec_ev obj pre ev.
  Proof.
    intros obj ys srch evs Hidx Hkey Hloc Hevs IH pre ev. unfold SearchModel.skip_item. split.
    - destruct (path_excl pre) eqn:E1; [intros []|]. destruct item_excl eqn:E2; [intros []|].
      cbn [orb]. intro H. apply Hevs in H. destruct H as [i [x [Hn H]]].
      apply thing_events_iff in H. destruct H as [Hsk H]. unfold SearchModel.skip_this in Hsk.
      apply orb_false_iff in Hsk. destruct Hsk as [Hp' Hty].
      split; auto. destruct H as [[Hsc Hev]|[Hsc Hin]].
      + exists [SIdx i], x. split; [cbn [get_at]; rewrite Hidx, Hn; reflexivity|]. right.
        cbn [SearchSpec.vis]. rewrite Hidx, Hn. cbn [step_is_idx is_nil]. rewrite E1, Hp', Hty, Hsc. cbn. auto.
      + apply IH in Hin; [|eapply nth_error_In; eauto].
        destruct Hin as [_ [rest [w [Hg HH]]]].
        exists (SIdx i :: rest), w. split; [cbn [get_at]; rewrite Hidx, Hn; exact Hg|].
        cbn [SearchSpec.vis]. rewrite Hidx, Hn. cbn [step_is_idx]. rewrite E1, Hty, Hsc. cbn [negb andb].
        rewrite <- app_assoc in HH. cbn [app] in HH.
        destruct HH as [[Hv Hl]|[Hv1 [Hv2 Hev]]]; [left|right]; auto.
    - intros [Hi [rest [w [Hg HH]]]]. destruct rest as [|s r].
      + cbn in Hg. inversion Hg; subst w. rewrite !vis_nil in HH.
        destruct HH as [[_ Hl]|[Hv1 [Hv2 _]]]; [|congruence]. exfalso. eapply Hloc; eauto.
      + cbn [get_at SearchSpec.vis] in Hg, HH. destruct s as [k|i|n].
        { rewrite Hkey in Hg by reflexivity. discriminate. }
        2:{ rewrite Hkey in Hg by reflexivity. discriminate. }
        rewrite Hidx in Hg, HH. destruct (nth_error ys i) as [x|] eqn:Hn; [|discriminate].
        cbn [step_is_idx andb] in HH.
        destruct (path_excl pre) eqn:E1; [destruct HH as [[Hv _]|[Hv _]]; discriminate|].
        destruct (ty_excl (xtype_of x)) eqn:Hty; [destruct HH as [[Hv _]|[Hv _]]; discriminate|].
        cbn [negb andb orb] in HH. rewrite Hi. cbn [orb]. apply Hevs. exists i, x. split; auto.
        apply thing_events_iff. destruct (shortcut x) eqn:Hsc.
        * cbn [negb andb orb] in HH. destruct HH as [[Hv _]|[Hv1 [_ Hev]]]; [discriminate|].
          destruct r as [|s' r']; [|discriminate]. cbn in Hg. inversion Hg; subst w.
          cbn [is_nil negb andb] in Hv1. split.
          { unfold SearchModel.skip_this. rewrite (vis_head _ _ _ _ Hv1), Hty. reflexivity. }
          left. auto.
        * cbn [negb andb] in HH. split.
          { unfold SearchModel.skip_this. rewrite Hty.
            destruct HH as [[Hv _]|[Hv _]]; rewrite (vis_head _ _ _ _ Hv); reflexivity. }
          right. split; auto. apply IH; [eapply nth_error_In; eauto|]. split; auto.
          exists r, w. split; auto. rewrite <- app_assoc. cbn [app]. exact HH.
  Qed.

  Definition iter_list (pre : path) :=
    fix go (xs : list xvalue) (i : nat) : list event :=
      match xs with
      | [] => []
      | x :: r => (thing_events (search x) x (pre ++ [SIdx i]) ++ go r (S i))%list
      end.
  Definition iter_atoms (pre : path) :=
    fix go (xs : list atom) (i : nat) : list event :=
      match xs with
      | [] => []
      | a :: r => (thing_events (search_atom a) (XAtom a) (pre ++ [SIdx i]) ++ go r (S i))%list
      end.
  (* the loop of __search_dict over the entries of a dictionary (mk = SKey) / the attributes of
     an instance or named tuple (mk = SAttr) *)
  Definition iter_ent {A : Type} (mk : A -> step) (pre : path) :=
    fix go (ents : list (A * xvalue)) : list event :=
      match ents with
      | [] => []
      | e :: r => let p' := (pre ++ [mk (fst e)])%list in
                  if is_ref (snd e) then go r
                  else (path_event p' (snd e) ++ search (snd e) p' ++ go r)%list
      end.
  Definition self_events (obj : xvalue) (pre : path) : list event :=
    if self_eq it obj then [EvValue pre obj] else [].

  Lemma search_list_eq : forall xs pre,
    search (XList xs) pre = if skip_item pre then [] else iter_list pre xs 0.
  Proof. reflexivity. Qed.
  Lemma search_tuple_eq : forall xs pre,
    search (XTuple xs) pre = if skip_item pre then [] else iter_list pre xs 0.
  Proof. reflexivity. Qed.
  Lemma search_set_eq : forall xs pre,
    search (XSet xs) pre = if skip_item pre then [] else iter_atoms pre xs 0.
  Proof. reflexivity. Qed.
  Lemma search_frozen_eq : forall xs pre,
    search (XFrozen xs) pre = if skip_item pre then [] else iter_atoms pre xs 0.
  Proof. reflexivity. Qed.
  Lemma search_dict_eq : forall kvs pre,
    search (XDict kvs) pre = if skip_item pre then [] else ([] ++ iter_ent SKey pre kvs)%list.
  Proof. reflexivity. Qed.
  Lemma search_obj_eq : forall cl avs pre,
    search (XObj cl avs) pre = if skip_item pre then [] else ([] ++ iter_ent SAttr pre avs)%list.
  Proof. reflexivity. Qed.
  Lemma search_named_eq : forall cl avs pre,
    search (XNamed cl avs) pre
    = if skip_item pre then [] else (self_events (XNamed cl avs) pre ++ iter_ent SAttr pre avs)%list.
  Proof. reflexivity. Qed.
  Lemma search_num_eq : forall t vl tx pre,
    search (XNum t vl tx) pre = if skip_item pre then [] else search_xnum re_search c it (XNum t vl tx) vl tx pre.
  Proof. reflexivity. Qed.
  Lemma search_opaque_eq : forall cl pre,
    search (XOpaque cl) pre = if skip_item pre then [] else [EvUnproc pre].
  Proof. reflexivity. Qed.
  Lemma search_atom_eq : forall a pre, search (XAtom a) pre = search_atom a pre.
  Proof. reflexivity. Qed.

  Lemma iter_list_in : forall pre xs n ev,
    In ev (iter_list pre xs n) <->
    exists i x, nth_error xs i = Some x /\ In ev (thing_events (search x) x (pre ++ [SIdx (n + i)])).
  Proof.
    intros pre xs. induction xs as [|x r IH]; intros n ev.
    - cbn. split; [intros []|]. intros [i [y [H _]]]. destruct i; discriminate.
    - cbn [iter_list]. rewrite in_app_iff. fold (iter_list pre). rewrite IH. split.
      + intros [H|[i [y [Hn H]]]].
        * exists 0, x. rewrite Nat.add_0_r. auto.
        * exists (S i), y. rewrite Nat.add_succ_r. auto.
      + intros [i [y [Hn H]]]. destruct i as [|i].
        * cbn in Hn. inversion Hn; subst y. rewrite Nat.add_0_r in H. auto.
        * right. exists i, y. rewrite Nat.add_succ_r in H. auto.
  Qed.

  Lemma iter_atoms_in : forall pre xs n ev,
    In ev (iter_atoms pre xs n) <->
    exists i x, nth_error (map XAtom xs) i = Some x
                /\ In ev (thing_events (search x) x (pre ++ [SIdx (n + i)])).
  Proof.
    intros pre xs. induction xs as [|a r IH]; intros n ev.
    - cbn. split; [intros []|]. intros [i [y [H _]]]. destruct i; discriminate.
    - cbn [iter_atoms map]. rewrite in_app_iff. fold (iter_atoms pre). rewrite IH. split.
      + intros [H|[i [y [Hn H]]]].
        * exists 0, (XAtom a). rewrite Nat.add_0_r. auto.
        * exists (S i), y. rewrite Nat.add_succ_r. auto.
      + intros [i [y [Hn H]]]. destruct i as [|i].
        * cbn in Hn. inversion Hn; subst y. rewrite Nat.add_0_r in H. auto.
        * right. exists i, y. rewrite Nat.add_succ_r in H. auto.
  Qed.

  Lemma iter_ent_in : forall (A : Type) (mk : A -> step) pre (ents : list (A * xvalue)) ev,
    In ev (iter_ent mk pre ents) <->
    exists e, In e ents /\ is_ref (snd e) = false
              /\ (In ev (path_event (pre ++ [mk (fst e)]) (snd e))
                  \/ In ev (search (snd e) (pre ++ [mk (fst e)]))).
  Proof.
    intros A mk pre ents ev. induction ents as [|e r IH].
    - cbn. split; [intros []|]. intros [e [[] _]].
    - cbn [iter_ent]. fold (iter_ent mk pre). destruct (is_ref (snd e)) eqn:Er.
      + rewrite IH. split.
        * intros [e' [Hin H]]. exists e'. split; [right|]; auto.
        * intros [e' [[Heq|Hin] [Hr H]]]; [subst e'; congruence|]. exists e'. auto.
      + rewrite !in_app_iff, IH. split.
        * intros [H|[H|[e' [Hin H]]]].
          -- exists e. split; [left|]; auto.
          -- exists e. split; [left|]; auto.
          -- exists e'. split; [right|]; auto.
        * intros [e' [[Heq|Hin] [Hr H]]].
          -- subst e'. destruct H; auto.
          -- right. right. exists e'. auto.
  Qed.

  Lemma attrs_of_nonatom : forall w n, In n (attrs_of w) -> exists a, w = XAtom a.
  Proof.
    intros w n H. unfold SearchSpec.attrs_of in H.
    destruct obj_searched; [|destruct H].
    destruct w as [a| | | | | | | | | |]; try destruct H. eauto.
  Qed.

  (* lists, tuples and sets emit nothing at their own location *)
  Lemma local_ev_seq : forall p w ev, local_ev p w ev ->
    match w with XList _ | XTuple _ | XSet _ | XFrozen _ => False | _ => True end.
  Proof.
    intros p w ev H. destruct w; auto; inversion H; subst; try discriminate;
      match goal with Hn : In _ (attrs_of _) |- _ => apply attrs_of_nonatom in Hn; destruct Hn; discriminate end.
  Qed.

  Lemma search_ref_nil : forall pre, search XRef pre = [].
  Proof. intro pre. cbn [SearchModel.search]. destruct (skip_item pre); reflexivity. Qed.
  Lemma is_ref_eq : forall v, is_ref v = true -> v = XRef.
  Proof. intros v H. destruct v; try discriminate. reflexivity. Qed.

  (* the generic "keyed" case: a dictionary, an instance, a named tuple *)
  Lemma ent_case : forall (A : Type) (mk : A -> step) (obj : xvalue) (ents : list (A * xvalue))
                          (self : path -> list event),
    (forall a, step_is_idx (mk a) = false) ->
    (forall s ch, child obj s = Some ch -> exists a, s = mk a /\ In (a, ch) ents) ->
    (forall a ch, In (a, ch) ents -> child obj (mk a) = Some ch) ->
    (forall p ev, local_ev p obj ev <->
                  (leaf_match obj = true /\ ev = EvValue p obj)
                  \/ (exists a ch, In (a, ch) ents /\ is_ref ch = false /\ path_match (p ++ [mk a]) = true
                                   /\ ev = EvPath (p ++ [mk a]) ch)) ->
    (forall p ev, In ev (self p) <-> leaf_match obj = true /\ ev = EvValue p obj) ->
    (forall e, In e ents -> forall p' ev, In ev (search (snd e) p') <-> spec_ev (snd e) p' ev) ->
    forall pre ev, In ev (if skip_item pre then [] else (self pre ++ iter_ent mk pre ents)%list)
                   <-> spec_ev obj pre ev.
  Proof.
    intros A mk obj ents self Hmk Hch1 Hch2 Hloc Hself IH pre ev. unfold SearchModel.skip_item. split.
    - destruct (path_excl pre) eqn:E1; [intros []|]. destruct item_excl eqn:E2; [intros []|].
      cbn [orb]. rewrite in_app_iff. intros [H|H].
      + apply Hself in H. split; auto. exists [], obj. split; [reflexivity|]. left.
        rewrite vis_nil, E1, app_nil_r. split; auto. apply Hloc. left. exact H.
      + apply iter_ent_in in H. destruct H as [[a ch] [Hin [Hnr H]]]. cbn [fst snd] in H, Hnr.
        split; auto. destruct H as [H|H].
        * unfold SearchModel.path_event in H. apply path_test_iff in H.
          exists [], obj. split; [reflexivity|]. left. rewrite vis_nil, E1, app_nil_r.
          split; auto. destruct H as [H1 [H2|[]]]; subst ev. apply Hloc. right. exists a, ch. auto.
        * apply (IH (a, ch) Hin) in H. destruct H as [_ [rest [w [Hg HH]]]].
          cbn [snd] in Hg, HH.
          exists (mk a :: rest), w. cbn [get_at SearchSpec.vis].
          rewrite (Hch2 a ch Hin), (Hmk a). cbn [andb negb].
          rewrite E1. cbn [negb andb]. split; auto.
          rewrite <- app_assoc in HH. cbn [app] in HH. exact HH.
    - intros [Hi [rest [w [Hg HH]]]]. destruct rest as [|s r].
      + cbn in Hg. inversion Hg; subst w. rewrite !vis_nil in HH.
        destruct HH as [[Hv Hl]|[Hv1 [Hv2 _]]]; [|congruence].
        apply negb_true_iff in Hv.
        rewrite Hv, Hi. cbn [orb]. rewrite app_nil_r in Hl. rewrite in_app_iff.
        apply Hloc in Hl. destruct Hl as [Hl|[a [ch [Hin [Hnr [Hpm Hev]]]]]].
        * left. apply Hself. exact Hl.
        * right. apply iter_ent_in. exists (a, ch). split; auto. split; auto. left. cbn [fst snd].
          unfold SearchModel.path_event. apply path_test_iff. split; [exact Hpm|left; auto].
      + cbn [get_at SearchSpec.vis] in Hg, HH.
        destruct (child obj s) as [ch|] eqn:Hc; [|discriminate].
        destruct (Hch1 s ch Hc) as [a [Hs Hin]]. subst s. rewrite (Hmk a) in HH.
        cbn [andb negb] in HH.
        destruct (path_excl pre) eqn:E1; [destruct HH as [[Hv _]|[Hv _]]; discriminate|].
        cbn [negb andb] in HH. rewrite Hi. cbn [orb]. rewrite in_app_iff. right.
        assert (Hs : In ev (search ch (pre ++ [mk a]))).
        { apply (IH (a, ch) Hin). split; auto. exists r, w. split; auto.
          rewrite <- app_assoc. cbn [app]. exact HH. }
        apply iter_ent_in. exists (a, ch). cbn [fst snd]. split; auto. split; [|right; exact Hs].
        destruct (is_ref ch) eqn:Er; auto. apply is_ref_eq in Er. subst ch.
        rewrite search_ref_nil in Hs. destruct Hs.
  Qed.

  Lemma child_dict_some : forall kvs s ch, nodup_atoms (map fst kvs) = true ->
    child (XDict kvs) s = Some ch -> exists k, s = SKey k /\ In (k, ch) kvs.
  Proof.
    intros kvs s ch Hnd H. destruct s as [k|i|n]; cbn [child] in H; try discriminate.
    destruct (find _ kvs) as [kv|] eqn:Hf; [|discriminate]. apply find_key_some in Hf.
    destruct Hf as [Hin Hk]. cbn in H. inversion H; subst. exists (fst kv). split; auto.
    destruct kv; exact Hin.
  Qed.

  Lemma child_attrs_some : forall w avs s ch, obj_attrs w = Some avs ->
    child w s = Some ch -> exists n, s = SAttr n /\ In (n, ch) avs.
  Proof.
    intros w avs s ch Hw H. destruct w; try discriminate; cbn in Hw; inversion Hw; subst;
      destruct s as [k|i|n]; cbn [child] in H; try discriminate;
      (destruct (find _ avs) as [av|] eqn:Hf; [|discriminate]); apply find_attr_some in Hf;
      destruct Hf as [Hin Hk]; cbn in H; inversion H; subst; exists (fst av); (split; auto);
      destruct av; exact Hin.
  Qed.

  Lemma child_attrs_in : forall w avs n ch, obj_attrs w = Some avs -> nodup_strs (map fst avs) = true ->
    In (n, ch) avs -> child w (SAttr n) = Some ch.
  Proof.
    intros w avs n ch Hw Hnd Hin. destruct w; try discriminate; cbn in Hw; inversion Hw; subst;
      cbn [child]; rewrite (find_attr_in avs n ch Hnd Hin); reflexivity.
  Qed.

  Lemma local_ev_dict : forall kvs p ev,
    local_ev p (XDict kvs) ev <->
    (leaf_match (XDict kvs) = true /\ ev = EvValue p (XDict kvs))
    \/ (exists k ch, In (k, ch) kvs /\ is_ref ch = false /\ path_match (p ++ [SKey k]) = true
                     /\ ev = EvPath (p ++ [SKey k]) ch).
  Proof.
    intros kvs p ev. split.
    - intro H. inversion H; subst; try discriminate.
      + apply attrs_of_nonatom in H0. destruct H0; discriminate.
      + inversion H0; subst. right. exists k, ch. auto.
    - intros [[H _]|[k [ch [H1 [H2 [H3 H4]]]]]]; [discriminate|]. subst ev. eapply LPath; eauto.
  Qed.

  Lemma local_ev_attrs : forall w avs p ev, obj_attrs w = Some avs ->
    (local_ev p w ev <->
     (leaf_match w = true /\ ev = EvValue p w)
     \/ (exists n ch, In (n, ch) avs /\ is_ref ch = false /\ path_match (p ++ [SAttr n]) = true
                      /\ ev = EvPath (p ++ [SAttr n]) ch)).
  Proof.
    intros w avs p ev Hw. split.
    - intro H. inversion H; subst.
      + left. auto.
      + apply attrs_of_nonatom in H0. destruct H0; subst; discriminate.
      + discriminate.
      + rewrite Hw in H0. inversion H0; subst. right. exists n, ch. auto.
      + destruct w; discriminate.
    - intros [[H1 H2]|[n [ch [H1 [H2 [H3 H4]]]]]]; subst ev.
      + apply LValue. exact H1.
      + eapply LAPath; eauto.
  Qed.

  Lemma local_ev_opaque : forall cl p ev, local_ev p (XOpaque cl) ev <-> ev = EvUnproc p.
  Proof.
    intros cl p ev. split.
    - intro H. inversion H; subst; try discriminate; auto.
      apply attrs_of_nonatom in H0. destruct H0; discriminate.
    - intro H. subst. apply LUnproc. reflexivity.
  Qed.

  Lemma local_ev_num : forall t vl tx p ev,
    local_ev p (XNum t vl tx) ev <-> leaf_match (XNum t vl tx) = true /\ ev = EvValue p (XNum t vl tx).
  Proof.
    intros t vl tx p ev. split.
    - intro H. inversion H; subst; try discriminate; auto.
      apply attrs_of_nonatom in H0. destruct H0; discriminate.
    - intros [H1 H2]. subst. apply LValue. exact H1.
  Qed.

  Lemma search_xnum_iff : forall t vl tx p ev,
    In ev (search_xnum re_search c it (XNum t vl tx) vl tx p) <->
    leaf_match (XNum t vl tx) = true /\ ev = EvValue p (XNum t vl tx).
  Proof.
    intros t vl tx p ev. unfold SearchModel.search_xnum. cbn [SearchSpec.leaf_match].
    unfold SearchSpec.xnum_match, eq_item.
    destruct it as [b|[|]|w].
    - destruct (match vl with Some a => py_eq b a | None => false end); cbn [orb]; [crush|].
      destruct (strict c); cbn [negb andb]; [crush|].
      destruct b; try destruct (pystr_eqb _ _); crush.
    - destruct vl; destruct (strict c); crush.
    - destruct vl; destruct (strict c); cbn [negb andb]; try destruct (re_search _); crush.
    - destruct vl; destruct (strict c); crush.
  Qed.

  Lemma self_events_iff : forall cl avs p ev,
    In ev (self_events (XNamed cl avs) p) <->
    leaf_match (XNamed cl avs) = true /\ ev = EvValue p (XNamed cl avs).
  Proof.
    intros cl avs p ev. unfold self_events. cbn [SearchSpec.leaf_match].
    destruct (self_eq it (XNamed cl avs)); cbn [In]; intuition (try discriminate; auto).
  Qed.

  Theorem search_iff : forall obj, xwf obj = true ->
    forall pre ev, In ev (search obj pre) <-> spec_ev obj pre ev.
  Proof.
    induction obj as [a|xs IH|xs IH|kvs IH|xs|xs|cl avs IH|cl avs IH|cl| |nt nv ntx] using value_ind'; intros Hwf pre ev.
    - rewrite search_atom_eq. apply search_atom_iff.
    - rewrite search_list_eq.
      apply (seq_case (XList xs) xs (fun x => search x) (fun pre => iter_list pre xs 0)).
      + reflexivity.
      + intros s Hs. destruct s; try discriminate; reflexivity.
      + intros p e H. apply local_ev_seq in H. exact H.
      + intros pre' e. apply (iter_list_in pre' xs 0 e).
      + intros x Hin. rewrite Forall_forall in IH. apply IH; auto. eapply wf_list_inv; eauto.
    - rewrite search_tuple_eq.
      apply (seq_case (XTuple xs) xs (fun x => search x) (fun pre => iter_list pre xs 0)).
      + reflexivity.
      + intros s Hs. destruct s; try discriminate; reflexivity.
      + intros p e H. apply local_ev_seq in H. exact H.
      + intros pre' e. apply (iter_list_in pre' xs 0 e).
      + intros x Hin. rewrite Forall_forall in IH. apply IH; auto. eapply wf_list_inv; eauto.
    - (* dict *)
      rewrite search_dict_eq. destruct (wf_dict_inv kvs Hwf) as [Hnd Hwfc].
      rewrite Forall_forall in IH.
      apply (ent_case atom SKey (XDict kvs) kvs (fun _ => [])).
      + reflexivity.
      + intros s ch. apply child_dict_some; auto.
      + intros k ch Hin. cbn [child]. rewrite (find_key_in kvs k ch Hnd Hin). reflexivity.
      + intros p e. apply local_ev_dict.
      + intros p e. cbn [In SearchSpec.leaf_match]. intuition discriminate.
      + intros e Hin. apply IH; auto.
    - rewrite search_set_eq.
      apply (seq_case (XSet xs) (map XAtom xs) (fun x => search x) (fun pre => iter_atoms pre xs 0)).
      + intro i. cbn [child]. symmetry. apply nth_error_map_atom.
      + intros s Hs. destruct s; try discriminate; reflexivity.
      + intros p e H. apply local_ev_seq in H. exact H.
      + intros pre' e. apply (iter_atoms_in pre' xs 0 e).
      + intros x Hin. apply in_map_iff in Hin. destruct Hin as [a [Ha _]]. subst x.
        intros p' e. rewrite search_atom_eq. apply search_atom_iff.
    - rewrite search_frozen_eq.
      apply (seq_case (XFrozen xs) (map XAtom xs) (fun x => search x) (fun pre => iter_atoms pre xs 0)).
      + intro i. cbn [child]. symmetry. apply nth_error_map_atom.
      + intros s Hs. destruct s; try discriminate; reflexivity.
      + intros p e H. apply local_ev_seq in H. exact H.
      + intros pre' e. apply (iter_atoms_in pre' xs 0 e).
      + intros x Hin. apply in_map_iff in Hin. destruct Hin as [a [Ha _]]. subst x.
        intros p' e. rewrite search_atom_eq. apply search_atom_iff.
    - (* instance *)
      rewrite search_obj_eq. cbn [xwf] in Hwf. destruct (wf_attrs_inv avs Hwf) as [Hnd Hwfc].
      rewrite Forall_forall in IH.
      apply (ent_case pystr SAttr (XObj cl avs) avs (fun _ => [])).
      + reflexivity.
      + intros s ch. apply child_attrs_some. reflexivity.
      + intros n ch Hin. apply (child_attrs_in _ avs); auto.
      + intros p e. apply local_ev_attrs. reflexivity.
      + intros p e. cbn [In SearchSpec.leaf_match]. intuition discriminate.
      + intros e Hin. apply IH; auto.
    - (* named tuple *)
      rewrite search_named_eq. cbn [xwf] in Hwf. destruct (wf_attrs_inv avs Hwf) as [Hnd Hwfc].
      rewrite Forall_forall in IH.
      apply (ent_case pystr SAttr (XNamed cl avs) avs (self_events (XNamed cl avs))).
      + reflexivity.
      + intros s ch. apply child_attrs_some. reflexivity.
      + intros n ch Hin. apply (child_attrs_in _ avs); auto.
      + intros p e. apply local_ev_attrs. reflexivity.
      + intros p e. apply self_events_iff.
      + intros e Hin. apply IH; auto.
    - (* an object whose attributes cannot be read *)
      rewrite search_opaque_eq. unfold SearchModel.skip_item, spec_ev. split.
      + destruct (path_excl pre) eqn:E1; [intros []|]. destruct item_excl eqn:E2; [intros []|].
        cbn [orb]. intros [H|[]]. subst ev. split; auto. exists [], (XOpaque cl).
        split; [reflexivity|]. left. rewrite vis_nil, E1, app_nil_r. split; auto.
        apply local_ev_opaque. reflexivity.
      + intros [Hi [rest [w [Hg HH]]]]. destruct rest as [|s r].
        * cbn in Hg. inversion Hg; subst w. rewrite !vis_nil in HH.
          destruct HH as [[Hv Hl]|[Hv1 [Hv2 _]]]; [|congruence].
          apply negb_true_iff in Hv. rewrite Hv, Hi. cbn [orb].
          rewrite app_nil_r in Hl. apply local_ev_opaque in Hl. left. auto.
        * cbn [get_at] in Hg. destruct s; discriminate.
    - (* a back reference: nothing *)
      rewrite search_ref_nil. split; [intros []|]. intros [Hi [rest [w [Hg HH]]]].
      destruct rest as [|s r]; [|cbn [get_at] in Hg; destruct s; discriminate].
      cbn in Hg. inversion Hg; subst w. rewrite !vis_nil in HH.
      destruct HH as [[_ Hl]|[Hv1 [Hv2 _]]]; [|congruence].
      inversion Hl; subst; try discriminate.
      match goal with Hn : In _ (attrs_of _) |- _ => apply attrs_of_nonatom in Hn; destruct Hn; discriminate end.
    - (* a number-like leaf *)
      rewrite search_num_eq. unfold SearchModel.skip_item, spec_ev. split.
      + destruct (path_excl pre) eqn:E1; [intros []|]. destruct item_excl eqn:E2; [intros []|].
        cbn [orb]. intro H. apply search_xnum_iff in H. split; auto. exists [], (XNum nt nv ntx).
        split; [reflexivity|]. left. rewrite vis_nil, E1, app_nil_r. split; auto.
        apply local_ev_num. exact H.
      + intros [Hi [rest [w [Hg HH]]]]. destruct rest as [|s r].
        * cbn in Hg. inversion Hg; subst w. rewrite !vis_nil in HH.
          destruct HH as [[Hv Hl]|[Hv1 [Hv2 _]]]; [|congruence].
          apply negb_true_iff in Hv. rewrite Hv, Hi. cbn [orb].
          rewrite app_nil_r in Hl. apply local_ev_num in Hl. apply search_xnum_iff. exact Hl.
        * cbn [get_at] in Hg. destruct s; discriminate.
  Qed.

  (* ---------- all locations ---------- *)

  Definition loc_list (pre : path) :=
    fix go (xs : list xvalue) (i : nat) : list (path * xvalue) :=
      match xs with
      | [] => []
      | x :: r => (locations x (pre ++ [SIdx i]) ++ go r (S i))%list
      end.
  Definition loc_ent {A : Type} (mk : A -> step) (pre : path) :=
    fix go (ents : list (A * xvalue)) : list (path * xvalue) :=
      match ents with
      | [] => []
      | e :: r => (locations (snd e) (pre ++ [mk (fst e)]) ++ go r)%list
      end.
  Definition loc_atoms (pre : path) :=
    fix go (xs : list atom) (i : nat) : list (path * xvalue) :=
      match xs with
      | [] => []
      | a :: r => ((pre ++ [SIdx i])%list, XAtom a) :: go r (S i)
      end.

  Lemma loc_list_in : forall pre xs n qv,
    In qv (loc_list pre xs n) <->
    exists i x, nth_error xs i = Some x /\ In qv (locations x (pre ++ [SIdx (n + i)])).
  Proof.
    intros pre xs. induction xs as [|x r IH]; intros n qv.
    - cbn. split; [intros []|]. intros [i [y [H _]]]. destruct i; discriminate.
    - cbn [loc_list]. rewrite in_app_iff. fold (loc_list pre). rewrite IH. split.
      + intros [H|[i [y [Hn H]]]].
        * exists 0, x. rewrite Nat.add_0_r. auto.
        * exists (S i), y. rewrite Nat.add_succ_r. auto.
      + intros [i [y [Hn H]]]. destruct i as [|i].
        * cbn in Hn. inversion Hn; subst y. rewrite Nat.add_0_r in H. auto.
        * right. exists i, y. rewrite Nat.add_succ_r in H. auto.
  Qed.

  Lemma loc_atoms_in : forall pre xs n qv,
    In qv (loc_atoms pre xs n) <->
    exists i a, nth_error xs i = Some a /\ qv = ((pre ++ [SIdx (n + i)])%list, XAtom a).
  Proof.
    intros pre xs. induction xs as [|a r IH]; intros n qv.
    - cbn. split; [intros []|]. intros [i [y [H _]]]. destruct i; discriminate.
    - cbn [loc_atoms In]. fold (loc_atoms pre). rewrite IH. split.
      + intros [H|[i [y [Hn H]]]].
        * exists 0, a. rewrite Nat.add_0_r. auto.
        * exists (S i), y. rewrite Nat.add_succ_r. auto.
      + intros [i [y [Hn H]]]. destruct i as [|i].
        * cbn in Hn. inversion Hn; subst y. rewrite Nat.add_0_r in H. auto.
        * right. exists i, y. rewrite Nat.add_succ_r in H. auto.
  Qed.

  Lemma loc_ent_in : forall (A : Type) (mk : A -> step) pre (ents : list (A * xvalue)) qv,
    In qv (loc_ent mk pre ents) <->
    exists e, In e ents /\ In qv (locations (snd e) (pre ++ [mk (fst e)])).
  Proof.
    intros A mk pre ents qv. induction ents as [|e r IH].
    - cbn. split; [intros []|]. intros [e [[] _]].
    - cbn [loc_ent]. fold (loc_ent mk pre). rewrite in_app_iff, IH. split.
      + intros [H|[e' [Hin H]]].
        * exists e. split; [left|]; auto.
        * exists e'. split; [right|]; auto.
      + intros [e' [[Heq|Hin] H]].
        * subst e'. auto.
        * right. exists e'. auto.
  Qed.

  Lemma loc_ent_case : forall (A : Type) (mk : A -> step) (obj : xvalue) (ents : list (A * xvalue)),
    (forall s ch, child obj s = Some ch -> exists a, s = mk a /\ In (a, ch) ents) ->
    (forall a ch, In (a, ch) ents -> child obj (mk a) = Some ch) ->
    (forall e, In e ents -> forall pre q v,
        In (q, v) (locations (snd e) pre) <-> exists rest, q = (pre ++ rest)%list /\ get_at (snd e) rest = Some v) ->
    forall pre q v, In (q, v) ((pre, obj) :: loc_ent mk pre ents) <->
                    exists rest, q = (pre ++ rest)%list /\ get_at obj rest = Some v.
  Proof.
    intros A mk obj ents Hch1 Hch2 IH pre q v. cbn [In]. rewrite loc_ent_in. split.
    - intros [H|[[a ch] [Hin H]]].
      + inversion H; subst. exists []. rewrite app_nil_r. auto.
      + cbn [fst snd] in H. apply (IH (a, ch) Hin) in H.
        destruct H as [rest [Hq Hg]]. exists (mk a :: rest). cbn [get_at].
        rewrite (Hch2 a ch Hin). cbn [snd] in Hg. rewrite Hq, <- app_assoc. auto.
    - intros [rest [Hq Hg]]. destruct rest as [|s r].
      + cbn in Hg. inversion Hg; subst. rewrite app_nil_r. auto.
      + right. cbn [get_at] in Hg. destruct (child obj s) as [ch|] eqn:Hc; [|discriminate].
        destruct (Hch1 s ch Hc) as [a [Hs Hin]]. subst s.
        exists (a, ch). split; auto. apply (IH (a, ch) Hin).
        exists r. rewrite Hq, <- app_assoc. auto.
  Qed.

  Theorem locations_iff : forall obj, xwf obj = true ->
    forall pre q v, In (q, v) (locations obj pre) <->
                    exists rest, q = (pre ++ rest)%list /\ get_at obj rest = Some v.
  Proof.
    induction obj as [a|xs IH|xs IH|kvs IH|xs|xs|cl avs IH|cl avs IH|cl| |nt nv ntx] using value_ind'; intros Hwf pre q v.
    - cbn [locations In]. split.
      + intros [H|[]]. inversion H; subst. exists []. rewrite app_nil_r. auto.
      + intros [rest [Hq Hg]]. apply get_at_atom in Hg. destruct Hg; subst. rewrite app_nil_r. auto.
    - change (locations (XList xs) pre) with ((pre, XList xs) :: loc_list pre xs 0).
      cbn [In]. rewrite loc_list_in. rewrite Forall_forall in IH. split.
      + intros [H|[i [x [Hn H]]]].
        * inversion H; subst. exists []. rewrite app_nil_r. auto.
        * apply IH in H; [|eapply nth_error_In; eauto|eapply wf_list_inv; eauto using nth_error_In].
          destruct H as [rest [Hq Hg]]. exists (SIdx i :: rest). cbn [get_at child]. rewrite Hn.
          rewrite Hq, <- app_assoc. auto.
      + intros [rest [Hq Hg]]. destruct rest as [|s r].
        * cbn in Hg. inversion Hg; subst. rewrite app_nil_r. auto.
        * right. cbn [get_at] in Hg. destruct s as [k|i|n0]; [discriminate| |discriminate]. cbn [child] in Hg.
          destruct (nth_error xs i) as [x|] eqn:Hn; [|discriminate]. exists i, x. split; auto.
          apply IH; [eapply nth_error_In; eauto|eapply wf_list_inv; eauto using nth_error_In|].
          exists r. rewrite Hq, <- app_assoc. auto.
    - change (locations (XTuple xs) pre) with ((pre, XTuple xs) :: loc_list pre xs 0).
      cbn [In]. rewrite loc_list_in. rewrite Forall_forall in IH. split.
      + intros [H|[i [x [Hn H]]]].
        * inversion H; subst. exists []. rewrite app_nil_r. auto.
        * apply IH in H; [|eapply nth_error_In; eauto|eapply wf_list_inv; eauto using nth_error_In].
          destruct H as [rest [Hq Hg]]. exists (SIdx i :: rest). cbn [get_at child]. rewrite Hn.
          rewrite Hq, <- app_assoc. auto.
      + intros [rest [Hq Hg]]. destruct rest as [|s r].
        * cbn in Hg. inversion Hg; subst. rewrite app_nil_r. auto.
        * right. cbn [get_at] in Hg. destruct s as [k|i|n0]; [discriminate| |discriminate]. cbn [child] in Hg.
          destruct (nth_error xs i) as [x|] eqn:Hn; [|discriminate]. exists i, x. split; auto.
          apply IH; [eapply nth_error_In; eauto|eapply wf_list_inv; eauto using nth_error_In|].
          exists r. rewrite Hq, <- app_assoc. auto.
    - change (locations (XDict kvs) pre) with ((pre, XDict kvs) :: loc_ent SKey pre kvs).
      destruct (wf_dict_inv kvs Hwf) as [Hnd Hwfc]. rewrite Forall_forall in IH.
      apply (loc_ent_case atom SKey (XDict kvs) kvs).
      + intros s ch. apply child_dict_some; auto.
      + intros k ch Hin. cbn [child]. rewrite (find_key_in kvs k ch Hnd Hin). reflexivity.
      + intros e Hin. apply IH; auto.
    - change (locations (XSet xs) pre) with ((pre, XSet xs) :: loc_atoms pre xs 0).
      cbn [In]. rewrite loc_atoms_in. split.
      + intros [H|[i [a [Hn H]]]].
        * inversion H; subst. exists []. rewrite app_nil_r. auto.
        * inversion H; subst. exists [SIdx i]. cbn [get_at child]. rewrite Hn. auto.
      + intros [rest [Hq Hg]]. destruct rest as [|s r].
        * cbn in Hg. inversion Hg; subst. rewrite app_nil_r. auto.
        * right. cbn [get_at] in Hg. destruct s as [k|i|n0]; [discriminate| |discriminate]. cbn [child] in Hg.
          destruct (nth_error xs i) as [a|] eqn:Hn; [|discriminate]. cbn [option_map] in Hg.
          apply get_at_atom in Hg. destruct Hg; subst. exists i, a. auto.
    - change (locations (XFrozen xs) pre) with ((pre, XFrozen xs) :: loc_atoms pre xs 0).
      cbn [In]. rewrite loc_atoms_in. split.
      + intros [H|[i [a [Hn H]]]].
        * inversion H; subst. exists []. rewrite app_nil_r. auto.
        * inversion H; subst. exists [SIdx i]. cbn [get_at child]. rewrite Hn. auto.
      + intros [rest [Hq Hg]]. destruct rest as [|s r].
        * cbn in Hg. inversion Hg; subst. rewrite app_nil_r. auto.
        * right. cbn [get_at] in Hg. destruct s as [k|i|n0]; [discriminate| |discriminate]. cbn [child] in Hg.
          destruct (nth_error xs i) as [a|] eqn:Hn; [|discriminate]. cbn [option_map] in Hg.
          apply get_at_atom in Hg. destruct Hg; subst. exists i, a. auto.
    - change (locations (XObj cl avs) pre) with ((pre, XObj cl avs) :: loc_ent SAttr pre avs).
      cbn [xwf] in Hwf. destruct (wf_attrs_inv avs Hwf) as [Hnd Hwfc]. rewrite Forall_forall in IH.
      apply (loc_ent_case pystr SAttr (XObj cl avs) avs).
      + intros s ch. apply child_attrs_some. reflexivity.
      + intros n ch Hin. apply (child_attrs_in _ avs); auto.
      + intros e Hin. apply IH; auto.
    - change (locations (XNamed cl avs) pre) with ((pre, XNamed cl avs) :: loc_ent SAttr pre avs).
      cbn [xwf] in Hwf. destruct (wf_attrs_inv avs Hwf) as [Hnd Hwfc]. rewrite Forall_forall in IH.
      apply (loc_ent_case pystr SAttr (XNamed cl avs) avs).
      + intros s ch. apply child_attrs_some. reflexivity.
      + intros n ch Hin. apply (child_attrs_in _ avs); auto.
      + intros e Hin. apply IH; auto.
    - cbn [locations In]. split.
      + intros [H|[]]. inversion H; subst. exists []. rewrite app_nil_r. auto.
      + intros [rest [Hq Hg]]. destruct rest as [|s r].
        * cbn in Hg. inversion Hg; subst. rewrite app_nil_r. auto.
        * cbn [get_at] in Hg. destruct s; discriminate.
    - cbn [locations In]. split.
      + intros [H|[]]. inversion H; subst. exists []. rewrite app_nil_r. auto.
      + intros [rest [Hq Hg]]. destruct rest as [|s r].
        * cbn in Hg. inversion Hg; subst. rewrite app_nil_r. auto.
        * cbn [get_at] in Hg. destruct s; discriminate.
    - cbn [locations In]. split.
      + intros [H|[]]. inversion H; subst. exists []. rewrite app_nil_r. auto.
      + intros [rest [Hq Hg]]. destruct rest as [|s r].
        * cbn in Hg. inversion Hg; subst. rewrite app_nil_r. auto.
        * cbn [get_at] in Hg. destruct s; discriminate.
  Qed.

  (* ---------- paths and sub-values ---------- *)

  Lemma get_at_app : forall p1 obj p2,
    get_at obj (p1 ++ p2) = match get_at obj p1 with Some w => get_at w p2 | None => None end.
  Proof.
    induction p1 as [|s r IH]; intros obj p2; cbn [app get_at]; auto.
    destruct (child obj s); auto.
  Qed.

  Lemma child_wf : forall obj s ch, xwf obj = true -> child obj s = Some ch -> xwf ch = true.
  Proof.
    intros obj s ch Hwf H.
    destruct obj as [a|xs|xs|kvs|xs|xs|cl avs|cl avs|cl| |nt nv ntx], s as [k|i|n]; cbn [child] in H; try discriminate.
    - cbn in Hwf. eapply wf_list_inv; eauto using nth_error_In.
    - cbn in Hwf. eapply wf_list_inv; eauto using nth_error_In.
    - destruct (find _ kvs) as [kv|] eqn:Hf; [|discriminate]. apply find_key_some in Hf.
      destruct Hf as [Hin _]. cbn in H. inversion H; subst. apply (proj2 (wf_dict_inv kvs Hwf)); auto.
    - destruct (nth_error xs i); [|discriminate]. cbn in H. inversion H. reflexivity.
    - destruct (nth_error xs i); [|discriminate]. cbn in H. inversion H. reflexivity.
    - destruct (find _ avs) as [av|] eqn:Hf; [|discriminate]. apply find_attr_some in Hf.
      destruct Hf as [Hin _]. cbn in H. inversion H; subst. cbn [xwf] in Hwf.
      apply (proj2 (wf_attrs_inv avs Hwf)); auto.
    - destruct (find _ avs) as [av|] eqn:Hf; [|discriminate]. apply find_attr_some in Hf.
      destruct Hf as [Hin _]. cbn in H. inversion H; subst. cbn [xwf] in Hwf.
      apply (proj2 (wf_attrs_inv avs Hwf)); auto.
  Qed.

  Lemma get_at_wf : forall p obj w, xwf obj = true -> get_at obj p = Some w -> xwf w = true.
  Proof.
    induction p as [|s r IH]; intros obj w Hwf H; cbn [get_at] in H.
    - inversion H; subst; auto.
    - destruct (child obj s) as [ch|] eqn:Hc; [|discriminate]. apply (IH ch w); [eapply child_wf; eauto|exact H].
  Qed.

  (* the entries of a dictionary / the attributes of an instance or named tuple, as children *)
  Lemma entry_child_iff : forall w s v, xwf w = true ->
    (step_is_idx s = false /\ child w s = Some v <->
     (exists kvs k, w = XDict kvs /\ s = SKey k /\ In (k, v) kvs)
     \/ (exists avs n, obj_attrs w = Some avs /\ s = SAttr n /\ In (n, v) avs)).
  Proof.
    intros w s v Hwf. split.
    - intros [Hs H]. destruct w as [a|xs|xs|kvs|xs|xs|cl avs|cl avs|cl| |nt nv ntx], s as [k|i|n]; cbn [child] in H; try discriminate.
      + left. destruct (child_dict_some kvs (SKey k) v (proj1 (wf_dict_inv kvs Hwf)) H) as [k' [Hk Hin]].
        inversion Hk; subst. eauto.
      + right. destruct (child_attrs_some (XObj cl avs) avs (SAttr n) v eq_refl H) as [n' [Hn Hin]].
        inversion Hn; subst. exists avs, n'. auto.
      + right. destruct (child_attrs_some (XNamed cl avs) avs (SAttr n) v eq_refl H) as [n' [Hn Hin]].
        inversion Hn; subst. exists avs, n'. auto.
    - intros [[kvs [k [Hw [Hs Hin]]]]|[avs [n [Hw [Hs Hin]]]]]; subst s; split; try reflexivity.
      + subst w. cbn [child]. rewrite (find_key_in kvs k v (proj1 (wf_dict_inv kvs Hwf)) Hin). reflexivity.
      + apply (child_attrs_in w avs); auto.
        destruct w; try discriminate; cbn in Hw; inversion Hw; subst; cbn [xwf] in Hwf;
          apply (proj1 (wf_attrs_inv _ Hwf)).
  Qed.

  Lemma entry_parent_iff : forall q par,
    entry_parent q = Some par <-> exists s, step_is_idx s = false /\ q = (par ++ [s])%list.
  Proof.
    intros q par. unfold entry_parent. split.
    - intro H. destruct (rev q) as [|[k|i|n] rp] eqn:E; try discriminate; inversion H; subst.
      + exists (SKey k). split; auto. rewrite <- (rev_involutive q), E. reflexivity.
      + exists (SAttr n). split; auto. rewrite <- (rev_involutive q), E. reflexivity.
    - intros [s [Hs Hq]]. subst q. rewrite rev_unit, rev_involutive. destruct s; try discriminate; reflexivity.
  Qed.

  (* ---------- the clauses of C16 on the event list ---------- *)

  Lemma local_ev_value : forall p w q v,
    local_ev p w (EvValue q v) <-> q = p /\ v = w /\ leaf_match w = true.
  Proof.
    intros p w q v. split.
    - intro H. inversion H; subst; auto.
    - intros [H1 [H2 H3]]. subst. apply LValue. exact H3.
  Qed.

  Lemma local_ev_path : forall p w q v, xwf w = true ->
    (local_ev p w (EvPath q v) <->
     exists s, step_is_idx s = false /\ child w s = Some v /\ is_ref v = false
               /\ q = (p ++ [s])%list /\ path_match q = true).
  Proof.
    intros p w q v Hwf. split.
    - intro H. inversion H; subst.
      + exists (SKey k). repeat split; auto. apply (entry_child_iff _ (SKey k) v Hwf). left. eauto.
      + exists (SAttr n). repeat split; auto. apply (entry_child_iff w (SAttr n) v Hwf). right. eauto.
    - intros [s [Hs [Hc [Hr [Hq Hm]]]]]. subst q.
      destruct (proj1 (entry_child_iff w s v Hwf) (conj Hs Hc))
        as [[kvs [k [Hw [Hsk Hin]]]]|[avs [n [Hw [Hsk Hin]]]]]; subst s.
      + eapply LPath; eauto.
      + eapply LAPath; eauto.
  Qed.

  Lemma local_ev_unproc : forall p w q,
    local_ev p w (EvUnproc q) <-> q = p /\ is_opaque w = true.
  Proof.
    intros p w q. split.
    - intro H. inversion H; subst; auto.
    - intros [H1 H2]. subst. apply LUnproc. exact H2.
  Qed.

  Lemma local_ev_attr : forall p w q n,
    local_ev p w (EvAttr q n) <-> q = p /\ In n (attrs_of w) /\ text_match (attr_text p n) = true.
  Proof.
    intros p w q n. split.
    - intro H. inversion H; subst; auto.
    - intros [H1 [H2 H3]]. subst. apply LAttr; auto.
  Qed.

  Lemma vis_true_false : forall rest pre obj, vis true pre obj rest = true -> vis false pre obj rest = true.
  Proof.
    induction rest as [|s r IH]; intros pre obj H; [exact H|].
    cbn [SearchSpec.vis] in *. destruct (path_excl pre); [discriminate|]. cbn [negb andb] in *.
    destruct (child obj s) as [ch|]; [|discriminate].
    apply andb_true_iff in H. destruct H as [H H3]. apply andb_true_iff in H. destruct H as [H1 H2].
    rewrite H1, (IH _ _ H3). cbn [andb orb] in *. rewrite andb_true_r in H2.
    apply negb_true_iff in H2. rewrite H2. reflexivity.
  Qed.

  (* reached but not entered: an item of a list / tuple / set that equals the searched item *)
  Lemma vis_diff : forall rest pre obj w,
    vis false pre obj rest = true -> vis true pre obj rest = false -> get_at obj rest = Some w ->
    last_is_idx rest = true /\ shortcut w = true.
  Proof.
    induction rest as [|s r IH]; intros pre obj w H1 H2 Hg; [rewrite vis_nil in *; congruence|].
    cbn [SearchSpec.vis get_at] in *. destruct (path_excl pre); [discriminate|]. cbn [negb andb] in *.
    destruct (child obj s) as [ch|]; [|discriminate].
    destruct (step_is_idx s && ty_excl (xtype_of ch)); [discriminate|]. cbn [negb andb orb] in *.
    destruct (step_is_idx s && shortcut ch) eqn:B; cbn [negb andb orb] in *.
    - destruct r as [|s' r']; [|discriminate]. cbn in Hg. inversion Hg; subst w.
      apply andb_true_iff in B. destruct B as [B1 B2]. cbn [last_is_idx]. auto.
    - destruct (IH _ _ _ H1 H2 Hg) as [Hl Hs]. split; auto.
      destruct r as [|s' r']; [discriminate|]. exact Hl.
  Qed.

  Lemma vis_true_not_shortcut : forall rest pre obj w,
    vis true pre obj rest = true -> get_at obj rest = Some w -> last_is_idx rest = true -> shortcut w = false.
  Proof.
    induction rest as [|s r IH]; intros pre obj w H Hg Hl; [discriminate|].
    cbn [SearchSpec.vis get_at] in *. destruct (path_excl pre); [discriminate|]. cbn [negb andb] in *.
    destruct (child obj s) as [ch|]; [|discriminate].
    apply andb_true_iff in H. destruct H as [H H3]. apply andb_true_iff in H. destruct H as [H1 H2].
    destruct r as [|s' r'].
    - cbn in Hg. inversion Hg; subst w. cbn [last_is_idx] in Hl. rewrite Hl in H2. cbn [andb orb] in H2.
      rewrite andb_true_r in H2. apply negb_true_iff in H2. exact H2.
    - apply (IH _ _ _ H3 Hg). exact Hl.
  Qed.

  Theorem values_iff : forall obj, xwf obj = true -> forall q v,
    In (EvValue q v) (search obj []) <->
    item_excl = false /\ get_at obj q = Some v /\ vis false [] obj q = true
    /\ match_at (last_is_idx q) v = true.
  Proof.
    intros obj Hwf q v. rewrite search_iff by exact Hwf. unfold spec_ev, SearchSpec.match_at. cbn [app]. split.
    - intros [Hi [rest [w [Hg [[Hv Hl]|[Hv1 [Hv2 Hev]]]]]]].
      + apply local_ev_value in Hl. destruct Hl as [H1 [H2 H3]]. subst.
        rewrite H3. auto using vis_true_false.
      + inversion Hev; subst. destruct (vis_diff _ _ _ _ Hv1 Hv2 Hg) as [H1 H2].
        rewrite H1, H2. cbn. rewrite orb_true_r. auto.
    - intros [Hi [Hg [Hv Hm]]]. split; auto. exists q, v. split; auto.
      destruct (vis true [] obj q) eqn:Hvt.
      + left. split; auto. apply LValue. destruct (leaf_match v); auto. cbn [orb] in Hm.
        apply andb_true_iff in Hm. destruct Hm as [Hl Hs].
        rewrite (vis_true_not_shortcut _ _ _ _ Hvt Hg Hl) in Hs. discriminate.
      + right. auto.
  Qed.

  (* matched_paths: the entries of dictionaries and the attributes of instances / named tuples
     (not those that hold one of their own ancestors) *)
  Theorem paths_iff : forall obj, xwf obj = true -> forall q v,
    In (EvPath q v) (search obj []) <->
    item_excl = false /\
    exists par w s, q = (par ++ [s])%list /\ step_is_idx s = false /\ get_at obj par = Some w
                    /\ child w s = Some v /\ is_ref v = false
                    /\ vis true [] obj par = true /\ path_match q = true.
  Proof.
    intros obj Hwf q v. rewrite search_iff by exact Hwf. unfold spec_ev. cbn [app]. split.
    - intros [Hi [rest [w [Hg [[Hv Hl]|[_ [_ Hev]]]]]]]; [|discriminate].
      apply local_ev_path in Hl; [|eapply get_at_wf; eauto].
      destruct Hl as [s [H1 [H2 [H3 [H4 H5]]]]]. subst. split; auto. exists rest, w, s. repeat split; auto.
    - intros [Hi [par [w [s [H1 [H2 [H3 [H4 [H5 [H6 H7]]]]]]]]]]. split; auto. exists par, w.
      split; auto. left. split; auto. apply local_ev_path; [eapply get_at_wf; eauto|]. exists s. repeat split; auto.
  Qed.

  Theorem unproc_iff : forall obj, xwf obj = true -> forall q,
    In (EvUnproc q) (search obj []) <->
    item_excl = false /\
    exists w, get_at obj q = Some w /\ vis true [] obj q = true /\ is_opaque w = true.
  Proof.
    intros obj Hwf q. rewrite search_iff by exact Hwf. unfold spec_ev. cbn [app]. split.
    - intros [Hi [rest [w [Hg [[Hv Hl]|[_ [_ Hev]]]]]]]; [|discriminate].
      apply local_ev_unproc in Hl. destruct Hl as [H1 H2]. subst. split; auto. exists w. auto.
    - intros [Hi [w [Hg [Hv Ho]]]]. split; auto. exists q, w. split; auto. left. split; auto.
      apply local_ev_unproc. auto.
  Qed.

  Theorem attrs_iff : forall obj, xwf obj = true -> forall q n,
    In (EvAttr q n) (search obj []) <->
    item_excl = false /\
    exists w, get_at obj q = Some w /\ vis true [] obj q = true /\ In n (attrs_of w)
              /\ text_match (attr_text q n) = true.
  Proof.
    intros obj Hwf q n. rewrite search_iff by exact Hwf. unfold spec_ev. cbn [app]. split.
    - intros [Hi [rest [w [Hg [[Hv Hl]|[_ [_ Hev]]]]]]]; [|discriminate].
      apply local_ev_attr in Hl. destruct Hl as [H1 [H2 H3]]. subst.
      split; auto. exists w. auto.
    - intros [Hi [w [Hg [Hv [H1 H2]]]]]. split; auto. exists q, w. split; auto. left. split; auto.
      apply local_ev_attr. auto.
  Qed.

  (* ---------- against the list specifications ---------- *)

  Lemma in_locations_root : forall obj, xwf obj = true -> forall q v,
    In (q, v) (locations obj []) <-> get_at obj q = Some v.
  Proof.
    intros obj Hwf q v. rewrite locations_iff by exact Hwf. cbn [app]. split.
    - intros [rest [H1 H2]]. subst. exact H2.
    - intro H. exists q. auto.
  Qed.

  Theorem values_exact : forall obj, xwf obj = true -> forall q v,
    In (EvValue q v) (search obj []) <-> In (q, v) (matches_spec obj).
  Proof.
    intros obj Hwf q v. rewrite values_iff by exact Hwf. unfold SearchSpec.matches_spec.
    destruct item_excl.
    - cbn. intuition discriminate.
    - rewrite filter_In, in_locations_root by exact Hwf. cbn [fst snd]. rewrite andb_true_iff. tauto.
  Qed.

  Theorem paths_exact : forall obj, xwf obj = true -> forall q v,
    In (EvPath q v) (search obj []) <-> In (q, v) (paths_spec obj).
  Proof.
    intros obj Hwf q v. rewrite paths_iff by exact Hwf. unfold SearchSpec.paths_spec.
    destruct item_excl.
    - cbn. intuition discriminate.
    - rewrite filter_In, in_locations_root by exact Hwf. cbn [fst snd]. split.
      + intros [_ [par [w [s [Hq [Hs [Hg [Hc [Hr [Hv Hm]]]]]]]]]].
        assert (Hep : entry_parent q = Some par) by (apply entry_parent_iff; eauto).
        rewrite Hep, Hv, Hm, Hr. split; auto. subst q. rewrite get_at_app, Hg. cbn [get_at].
        rewrite Hc. reflexivity.
      + intros [Hg H]. split; auto. destruct (entry_parent q) as [par|] eqn:Hep; [|discriminate].
        apply andb_true_iff in H. destruct H as [H Hr]. apply negb_true_iff in Hr.
        apply andb_true_iff in H. destruct H as [Hv Hm].
        apply entry_parent_iff in Hep. destruct Hep as [s [Hs Hq]]. subst q.
        rewrite get_at_app in Hg. destruct (get_at obj par) as [w|] eqn:Hgp; [|discriminate].
        cbn [get_at] in Hg. destruct (child w s) as [ch|] eqn:Hc; [|discriminate].
        inversion Hg; subst ch. exists par, w, s. repeat split; auto.
  Qed.

  (* `unprocessed` is exactly the list of the visible objects whose attributes cannot be read *)
  Theorem unprocessed_exact : forall obj, xwf obj = true -> forall q,
    In (EvUnproc q) (search obj []) <-> In q (unprocessed_spec obj).
  Proof.
    intros obj Hwf q. rewrite unproc_iff by exact Hwf. unfold SearchSpec.unprocessed_spec.
    destruct item_excl.
    - cbn. intuition discriminate.
    - rewrite in_map_iff. split.
      + intros [_ [w [Hg [Hv Ho]]]]. exists (q, w). split; auto. apply filter_In.
        rewrite in_locations_root by exact Hwf. cbn [fst snd]. rewrite Hv, Ho. auto.
      + intros [[q' w] [Hq H]]. cbn [fst] in Hq. subst q'. apply filter_In in H.
        rewrite in_locations_root in H by exact Hwf. cbn [fst snd] in H. destruct H as [Hg H].
        apply andb_true_iff in H. destruct H as [Hv Ho]. split; auto. exists w. auto.
  Qed.

  (* ---------- documented exclusion vs exclusion as implemented ---------- *)

  Lemma vis_doc_head : forall pre obj rest, vis_doc pre obj rest = true ->
    path_excl pre = false /\ ty_excl (xtype_of obj) = false.
  Proof.
    intros pre obj rest H. destruct rest; cbn [SearchSpec.vis_doc] in H;
      apply andb_true_iff in H; destruct H as [H _]; apply andb_true_iff in H; destruct H as [H1 H2];
      apply negb_true_iff in H1; apply negb_true_iff in H2; auto.
  Qed.

  (* with an atom item, what is visible in the documented sense is reached by the search *)
  Lemma vis_doc_implies_vis : forall rest pre obj, atom_item = true ->
    vis_doc pre obj rest = true -> vis false pre obj rest = true.
  Proof.
    induction rest as [|s r IH]; intros pre obj Hai H.
    - destruct (vis_doc_head _ _ _ H) as [H1 _]. rewrite vis_nil, H1. reflexivity.
    - destruct (vis_doc_head _ _ _ H) as [H1 H2]. cbn [SearchSpec.vis_doc SearchSpec.vis] in *.
      rewrite H1, H2 in H. cbn [negb andb] in H. rewrite H1. cbn [negb andb orb].
      destruct (child obj s) as [ch|]; [|discriminate].
      destruct (vis_doc_head _ _ _ H) as [_ H3]. rewrite H3, andb_false_r. cbn [negb andb].
      rewrite (IH _ _ Hai H), andb_true_r.
      destruct (step_is_idx s && shortcut ch) eqn:B; auto. cbn [andb].
      destruct r as [|s' r']; auto. exfalso.
      apply andb_true_iff in B. destruct B as [_ B]. pose proof (shortcut_leaf ch Hai B s') as Hnc.
      cbn [SearchSpec.vis_doc] in H. rewrite Hnc in H. rewrite andb_false_r in H. discriminate.
  Qed.

  (* a container that is reached is entered, when the item is an atom *)
  Lemma vis_enter_container : forall rest pre obj w, atom_item = true ->
    vis false pre obj rest = true -> get_at obj rest = Some w -> (exists s ch, child w s = Some ch) ->
    vis true pre obj rest = true.
  Proof.
    intros rest pre obj w Hai Hv Hg [s [ch Hc]]. destruct (vis true pre obj rest) eqn:E; auto.
    destruct (vis_diff _ _ _ _ Hv E Hg) as [_ Hs]. rewrite (shortcut_leaf w Hai Hs s) in Hc. discriminate.
  Qed.

  Lemma child_dvo_idx : forall f obj i ch, dict_values_ok f obj = true -> child obj (SIdx i) = Some ch ->
    dict_values_ok f ch = true.
  Proof.
    intros f obj i ch H Hc. destruct obj as [a|xs|xs|kvs|xs|xs|cl avs|cl avs|cl| |nt nv ntx]; cbn [child] in Hc; try discriminate.
    - cbn in H. rewrite forallb_forall in H. eauto using nth_error_In.
    - cbn in H. rewrite forallb_forall in H. eauto using nth_error_In.
    - destruct (nth_error xs i); [|discriminate]. inversion Hc. reflexivity.
    - destruct (nth_error xs i); [|discriminate]. inversion Hc. reflexivity.
  Qed.

  (* a dictionary value / an attribute value *)
  Lemma child_dvo_key : forall f obj s ch, step_is_idx s = false ->
    dict_values_ok f obj = true -> child obj s = Some ch ->
    f (xtype_of ch) = false /\ dict_values_ok f ch = true.
  Proof.
    intros f obj s ch Hs H Hc.
    destruct obj as [a|xs|xs|kvs|xs|xs|cl avs|cl avs|cl| |nt nv ntx], s as [k|i|n]; cbn [child] in Hc; try discriminate.
    - destruct (find _ kvs) as [kv|] eqn:Hf; [|discriminate]. apply find_key_some in Hf. destruct Hf as [Hin _].
      cbn in Hc. inversion Hc; subst ch. cbn in H. rewrite forallb_forall in H. apply H in Hin.
      apply andb_true_iff in Hin. destruct Hin as [H1 H2]. apply negb_true_iff in H1. auto.
    - destruct (find _ avs) as [av|] eqn:Hf; [|discriminate]. apply find_attr_some in Hf. destruct Hf as [Hin _].
      cbn in Hc. inversion Hc; subst ch. cbn in H. rewrite forallb_forall in H. apply H in Hin.
      apply andb_true_iff in Hin. destruct Hin as [H1 H2]. apply negb_true_iff in H1. auto.
    - destruct (find _ avs) as [av|] eqn:Hf; [|discriminate]. apply find_attr_some in Hf. destruct Hf as [Hin _].
      cbn in Hc. inversion Hc; subst ch. cbn in H. rewrite forallb_forall in H. apply H in Hin.
      apply andb_true_iff in Hin. destruct Hin as [H1 H2]. apply negb_true_iff in H1. auto.
  Qed.

  (* under the K16 guard, whatever the search reaches is visible in the documented sense *)
  Lemma vis_implies_doc : forall rest e pre obj,
    ty_excl (xtype_of obj) = false -> dict_values_ok ty_excl obj = true ->
    vis e pre obj rest = true -> vis_doc pre obj rest = true.
  Proof.
    induction rest as [|s r IH]; intros e pre obj Ht Hd H; cbn [SearchSpec.vis SearchSpec.vis_doc] in *; rewrite Ht.
    - destruct (path_excl pre); [discriminate|reflexivity].
    - destruct (path_excl pre); [discriminate|]. cbn [negb andb] in *.
      destruct (child obj s) as [ch|] eqn:Hc; [|discriminate].
      apply andb_true_iff in H. destruct H as [H H3]. apply andb_true_iff in H. destruct H as [H1 _].
      destruct (step_is_idx s) eqn:Hs; cbn [andb negb] in H1.
      + destruct s as [k|i|n]; try discriminate.
        apply negb_true_iff in H1. eapply IH; eauto. eapply child_dvo_idx; eauto.
      + destruct (child_dvo_key _ _ _ _ Hs Hd Hc) as [Hk1 Hk2]. eapply IH; eauto.
  Qed.

  Lemma dvo_get : forall f par obj w, dict_values_ok f obj = true -> get_at obj par = Some w ->
    dict_values_ok f w = true.
  Proof.
    induction par as [|s r IH]; intros obj w H Hg; cbn [get_at] in Hg.
    - inversion Hg; subst; auto.
    - destruct (child obj s) as [ch|] eqn:Hc; [|discriminate]. destruct (step_is_idx s) eqn:Hs.
      + destruct s as [k|i|n]; try discriminate. eapply IH; [|exact Hg]. eapply child_dvo_idx; eauto.
      + eapply IH; [|exact Hg]. eapply child_dvo_key; eauto.
  Qed.

  Lemma vis_doc_snoc : forall par pre obj s w ch,
    vis_doc pre obj par = true -> get_at obj par = Some w -> child w s = Some ch ->
    path_excl (pre ++ par ++ [s]) = false -> ty_excl (xtype_of ch) = false ->
    vis_doc pre obj (par ++ [s]) = true.
  Proof.
    induction par as [|s0 r IH]; intros pre obj s w ch Hv Hg Hc Hp Ht.
    - cbn in Hg. inversion Hg; subst w. destruct (vis_doc_head _ _ _ Hv) as [H1 H2].
      cbn [app SearchSpec.vis_doc] in *. rewrite H1, H2, Hc, Hp, Ht. reflexivity.
    - destruct (vis_doc_head _ _ _ Hv) as [H1 H2]. cbn [app SearchSpec.vis_doc get_at] in *.
      rewrite H1, H2 in *. cbn [negb andb] in *. destruct (child obj s0) as [c0|]; [|discriminate].
      apply (IH (pre ++ [s0])%list c0 s w ch); auto. rewrite <- app_assoc. exact Hp.
  Qed.

  Definition dpo_list (f : path -> bool) (pre : path) :=
    fix go (xs : list xvalue) (i : nat) : bool :=
      match xs with
      | [] => true
      | x :: r => dict_paths_ok f x (pre ++ [SIdx i]) && go r (S i)
      end.
  Definition dpo_ent {A : Type} (mk : A -> step) (f : path -> bool) (pre : path) :=
    fix go (ents : list (A * xvalue)) : bool :=
      match ents with
      | [] => true
      | e :: r => negb (f (pre ++ [mk (fst e)])%list)
                  && dict_paths_ok f (snd e) (pre ++ [mk (fst e)]) && go r
      end.

  Lemma dpo_list_nth : forall f pre xs n, dpo_list f pre xs n = true ->
    forall i x, nth_error xs i = Some x -> dict_paths_ok f x (pre ++ [SIdx (n + i)]) = true.
  Proof.
    intros f pre xs. induction xs as [|x r IH]; intros n H i y Hn; [destruct i; discriminate|].
    cbn [dpo_list] in H. fold (dpo_list f pre) in H. apply andb_true_iff in H. destruct H as [H1 H2].
    destruct i as [|i]; cbn in Hn.
    - inversion Hn; subst. rewrite Nat.add_0_r. exact H1.
    - rewrite Nat.add_succ_r. apply (IH (S n) H2 i y Hn).
  Qed.

  Lemma dpo_ent_in : forall (A : Type) (mk : A -> step) f pre (ents : list (A * xvalue)),
    dpo_ent mk f pre ents = true ->
    forall e, In e ents -> f (pre ++ [mk (fst e)])%list = false
                           /\ dict_paths_ok f (snd e) (pre ++ [mk (fst e)]) = true.
  Proof.
    intros A mk f pre ents. induction ents as [|e0 r IH]; intros H e Hin; [destruct Hin|].
    cbn [dpo_ent] in H. fold (dpo_ent mk f pre) in H. apply andb_true_iff in H. destruct H as [H H3].
    apply andb_true_iff in H. destruct H as [H1 H2]. apply negb_true_iff in H1.
    destruct Hin as [Heq|Hin]; [subst; auto|auto].
  Qed.

  (* a child keeps the guard; a dictionary entry / an attribute is not at an excluded path *)
  Lemma child_dpo : forall f obj pre s ch, dict_paths_ok f obj pre = true -> child obj s = Some ch ->
    dict_paths_ok f ch (pre ++ [s]) = true /\ (step_is_idx s = false -> f (pre ++ [s])%list = false).
  Proof.
    intros f obj pre s ch H Hc.
    destruct obj as [a|xs|xs|kvs|xs|xs|cl avs|cl avs|cl| |nt nv ntx], s as [k|i|n]; cbn [child] in Hc; try discriminate.
    - change (dict_paths_ok f (XList xs) pre) with (dpo_list f pre xs 0) in H.
      split; [|discriminate]. apply (dpo_list_nth f pre xs 0 H i ch Hc).
    - change (dict_paths_ok f (XTuple xs) pre) with (dpo_list f pre xs 0) in H.
      split; [|discriminate]. apply (dpo_list_nth f pre xs 0 H i ch Hc).
    - change (dict_paths_ok f (XDict kvs) pre) with (dpo_ent SKey f pre kvs) in H.
      destruct (find _ kvs) as [kv|] eqn:Hf; [|discriminate]. apply find_key_some in Hf.
      destruct Hf as [Hin Hk]. cbn in Hc. inversion Hc; subst.
      destruct (dpo_ent_in atom SKey f pre kvs H kv Hin). auto.
    - destruct (nth_error xs i); [|discriminate]. inversion Hc. split; [reflexivity|discriminate].
    - destruct (nth_error xs i); [|discriminate]. inversion Hc. split; [reflexivity|discriminate].
    - change (dict_paths_ok f (XObj cl avs) pre) with (dpo_ent SAttr f pre avs) in H.
      destruct (find _ avs) as [av|] eqn:Hf; [|discriminate]. apply find_attr_some in Hf.
      destruct Hf as [Hin Hk]. cbn in Hc. inversion Hc; subst.
      destruct (dpo_ent_in pystr SAttr f pre avs H av Hin). auto.
    - change (dict_paths_ok f (XNamed cl avs) pre) with (dpo_ent SAttr f pre avs) in H.
      destruct (find _ avs) as [av|] eqn:Hf; [|discriminate]. apply find_attr_some in Hf.
      destruct Hf as [Hin Hk]. cbn in Hc. inversion Hc; subst.
      destruct (dpo_ent_in pystr SAttr f pre avs H av Hin). auto.
  Qed.

  Lemma dpo_get : forall f par obj pre w s ch,
    dict_paths_ok f obj pre = true -> get_at obj par = Some w -> child w s = Some ch ->
    step_is_idx s = false -> f (pre ++ par ++ [s])%list = false.
  Proof.
    induction par as [|s0 r IH]; intros obj pre w s ch H Hg Hc Hs; cbn [get_at] in Hg.
    - inversion Hg; subst obj. cbn [app]. apply (proj2 (child_dpo f w pre s ch H Hc) Hs).
    - destruct (child obj s0) as [c0|] eqn:Hc0; [|discriminate].
      cbn [app]. replace (pre ++ s0 :: r ++ [s])%list with ((pre ++ [s0]) ++ r ++ [s])%list
        by (rewrite <- app_assoc; reflexivity).
      eapply IH; eauto. apply (proj1 (child_dpo f obj pre s0 c0 H Hc0)).
  Qed.

  Lemma vis_prefix : forall par e pre obj tail, vis e pre obj (par ++ tail) = true -> vis false pre obj par = true.
  Proof.
    induction par as [|s r IH]; intros e pre obj tail Hd.
    - apply vis_head in Hd. rewrite vis_nil, Hd. reflexivity.
    - cbn [app SearchSpec.vis] in *. destruct (path_excl pre); [discriminate|]. cbn [negb andb orb] in *.
      destruct (child obj s) as [ch|]; [|discriminate].
      apply andb_true_iff in Hd. destruct Hd as [Hd Hd3]. apply andb_true_iff in Hd. destruct Hd as [Hd1 Hd2].
      rewrite Hd1, (IH _ _ _ _ Hd3). cbn [andb]. rewrite andb_true_r.
      destruct (step_is_idx s && shortcut ch); auto. cbn [andb] in *.
      destruct r as [|s' r']; auto. cbn [app is_nil] in Hd2. rewrite orb_true_r in Hd2. discriminate.
  Qed.

  Theorem exclusions_values_partial : forall obj, xwf obj = true -> k16_guard obj = true ->
    forall q v, In (EvValue q v) (search obj []) -> vis_doc [] obj q = true.
  Proof.
    intros obj Hwf Hg q v H. apply values_iff in H; auto. destruct H as [_ [_ [Hv _]]].
    unfold SearchSpec.k16_guard in Hg. apply andb_true_iff in Hg. destruct Hg as [H1 H2].
    apply negb_true_iff in H1. apply (vis_implies_doc q false [] obj H1 H2 Hv).
  Qed.

  Theorem exclusions_paths_partial : forall obj, xwf obj = true ->
    k16_guard obj = true -> k16b_guard obj = true ->
    forall q v, In (EvPath q v) (search obj []) -> vis_doc [] obj q = true.
  Proof.
    intros obj Hwf Hg Hgb q v H. apply paths_iff in H; auto.
    destruct H as [_ [par [w [s [Hq [Hs [Hgp [Hc [_ [Hv _]]]]]]]]]]. subst q.
    unfold SearchSpec.k16_guard in Hg. apply andb_true_iff in Hg. destruct Hg as [H1 H2].
    apply negb_true_iff in H1. apply (vis_implies_doc par true [] obj H1 H2) in Hv.
    apply (vis_doc_snoc par [] obj s w v); auto.
    - cbn [app]. apply (dpo_get _ par obj [] w s v Hgb Hgp Hc Hs).
    - pose proof (dvo_get _ _ _ _ H2 Hgp) as Hd.
      apply (proj1 (child_dvo_key _ _ _ _ Hs Hd Hc)).
  Qed.

  Theorem complete_doc : forall obj, xwf obj = true -> item_excl = false -> atom_item = true ->
    forall q v, In (q, v) (matches_spec_doc obj) -> In (EvValue q v) (search obj []).
  Proof.
    intros obj Hwf Hi Hai q v H. unfold SearchSpec.matches_spec_doc in H. apply filter_In in H.
    destruct H as [Hl H]. cbn [fst snd] in H. apply andb_true_iff in H. destruct H as [Hv Hm].
    apply values_iff; auto. apply in_locations_root in Hl; auto.
    repeat split; auto using vis_doc_implies_vis.
    unfold SearchSpec.match_at. unfold SearchSpec.item_match in Hm. apply orb_true_iff in Hm.
    destruct Hm as [Hm|Hm]; [rewrite Hm; reflexivity|].
    rewrite (equals_item_leaf_match v Hai Hm). reflexivity.
  Qed.

  Theorem values_exact_doc : forall obj, xwf obj = true -> item_excl = false -> atom_item = true ->
    k16_guard obj = true ->
    forall q v, In (EvValue q v) (search obj []) <-> In (q, v) (matches_spec_doc obj).
  Proof.
    intros obj Hwf Hi Hai Hg q v. split; [|apply complete_doc; auto].
    intro H. pose proof (exclusions_values_partial obj Hwf Hg q v H) as Hd.
    apply values_iff in H; auto. destruct H as [_ [Hgq [_ Hm]]].
    unfold SearchSpec.matches_spec_doc. apply filter_In. cbn [fst snd]. rewrite Hd.
    split; [apply in_locations_root; auto|]. cbn [andb].
    unfold SearchSpec.match_at in Hm. unfold SearchSpec.item_match.
    destruct (leaf_match v); auto. cbn [orb] in *. apply andb_true_iff in Hm. tauto.
  Qed.

  Theorem paths_exact_doc : forall obj, xwf obj = true -> item_excl = false -> atom_item = true ->
    k16_guard obj = true -> k16b_guard obj = true ->
    forall q v, In (EvPath q v) (search obj []) <-> In (q, v) (paths_spec_doc obj).
  Proof.
    intros obj Hwf Hi Hai Hg Hgb q v. split.
    - intro H. pose proof (exclusions_paths_partial obj Hwf Hg Hgb q v H) as Hd.
      apply paths_exact in H; auto. unfold SearchSpec.paths_spec in H. rewrite Hi in H.
      apply filter_In in H. destruct H as [Hl H]. cbn [fst snd] in H.
      unfold SearchSpec.paths_spec_doc. apply filter_In. split; auto. cbn [fst snd].
      destruct (entry_parent q); [|discriminate]. apply andb_true_iff in H. destruct H as [H Hr].
      apply andb_true_iff in H. destruct H as [_ Hm]. rewrite Hd, Hm, Hr. reflexivity.
    - intro H. unfold SearchSpec.paths_spec_doc in H. apply filter_In in H. destruct H as [Hl H].
      cbn [fst snd] in H. apply paths_exact; auto. unfold SearchSpec.paths_spec. rewrite Hi.
      apply filter_In. split; auto. cbn [fst snd].
      destruct (entry_parent q) as [par|] eqn:Hep; [|discriminate].
      apply andb_true_iff in H. destruct H as [H Hr]. apply andb_true_iff in H. destruct H as [Hd Hm].
      rewrite Hm, Hr, !andb_true_r.
      apply entry_parent_iff in Hep. destruct Hep as [k [Hk Hq]]. subst q.
      apply (vis_doc_implies_vis _ _ _ Hai) in Hd. apply vis_prefix in Hd.
      apply in_locations_root in Hl; auto. rewrite get_at_app in Hl.
      destruct (get_at obj par) as [w|] eqn:Hgp; [|discriminate]. cbn [get_at] in Hl.
      destruct (child w k) as [ch|] eqn:Hc; [|discriminate].
      apply (vis_enter_container par [] obj w Hai Hd Hgp). eauto.
  Qed.

  (* ---------- finding K16f confined ---------- *)

  Theorem no_attr_partial : forall obj, xwf obj = true -> obj_searched = false ->
    forall q n, ~ In (EvAttr q n) (search obj []).
  Proof.
    intros obj Hwf Hit q n H. apply attrs_iff in H; auto.
    destruct H as [_ [w [_ [_ [Hn _]]]]]. rewrite (attrs_of_unsearched w Hit) in Hn. destruct Hn.
  Qed.
End Proofs.

(* ---------- the constructor ---------- *)

Lemma deep_search_ok : forall slower brepr re_search re_ok excl_re re_text sa ba c item obj evs,
  deep_search slower brepr re_search re_ok excl_re re_text sa ba c item obj = ROk evs ->
  exists cs it, prepare slower brepr re_ok c item = PItem cs it
                /\ evs = search slower brepr re_search excl_re re_text sa ba c cs it obj [].
Proof.
  intros slower brepr re_search re_ok excl_re re_text sa ba c item obj evs H. unfold deep_search in H.
  destruct (prepare slower brepr re_ok c item) as [| |cs it]; try discriminate. inversion H; subst evs.
  exists cs, it. auto.
Qed.

(* the traversal never raises: the constructor raises exactly when __init__ does *)
Lemma deep_search_raise : forall slower brepr re_search re_ok excl_re re_text sa ba c item obj,
  deep_search slower brepr re_search re_ok excl_re re_text sa ba c item obj = RRaise <->
  prepare slower brepr re_ok c item = PRaise.
Proof.
  intros slower brepr re_search re_ok excl_re re_text sa ba c item obj. unfold deep_search.
  destruct (prepare slower brepr re_ok c item) as [| |cs it]; split; auto; discriminate.
Qed.
Lemma deep_search_reerr : forall slower brepr re_search re_ok excl_re re_text sa ba c item obj,
  deep_search slower brepr re_search re_ok excl_re re_text sa ba c item obj = RReErr <->
  prepare slower brepr re_ok c item = PReErr.
Proof.
  intros slower brepr re_search re_ok excl_re re_text sa ba c item obj. unfold deep_search.
  destruct (prepare slower brepr re_ok c item) as [| |cs it]; split; auto; discriminate.
Qed.

(* __init__ raises TypeError exactly for use_regexp with an item that is not a str / bytes *)
Definition item_is_text (item : value) : bool :=
  match item with VAtom (AStr _) | VAtom (ABytes _) => true | _ => false end.
Definition loose_number (c : config) (item : value) : bool :=
  negb (strict c) && match item with VAtom a => is_number a | _ => false end.
Lemma prepare_raise : forall slower brepr re_ok c item,
  prepare slower brepr re_ok c item = PRaise <->
  use_regexp c = true /\ item_is_text item = false /\ loose_number c item = false.
Proof.
  intros slower brepr re_ok c item. unfold loose_number. destruct item as [a| | | | |]; cbn [prepare item_is_text].
  - unfold prepare_atom. destruct (use_regexp c), (strict c), (cs_flag c), re_ok, a as [|[|]| | | |]; cbn;
      intuition (try discriminate; auto).
  - destruct (use_regexp c); rewrite andb_false_r; intuition discriminate.
  - destruct (use_regexp c); rewrite andb_false_r; intuition discriminate.
  - destruct (use_regexp c); rewrite andb_false_r; intuition discriminate.
  - destruct (use_regexp c); rewrite andb_false_r; intuition discriminate.
  - destruct (use_regexp c); rewrite andb_false_r; intuition discriminate.
Qed.
(* ... and re.error exactly when the item that reaches re.compile (a str / bytes, or the text of a
   number in loose mode) is not a valid regular expression *)
Lemma prepare_reerr : forall slower brepr re_ok c item,
  prepare slower brepr re_ok c item = PReErr <->
  use_regexp c = true /\ (item_is_text item = true \/ loose_number c item = true) /\ re_ok = false.
Proof.
  intros slower brepr re_ok c item. unfold loose_number. destruct item as [a| | | | |]; cbn [prepare item_is_text].
  - unfold prepare_atom. destruct (use_regexp c), (strict c), (cs_flag c), re_ok, a as [|[|]| | | |]; cbn;
      intuition (try discriminate; auto).
  - destruct (use_regexp c); rewrite andb_false_r; intuition discriminate.
  - destruct (use_regexp c); rewrite andb_false_r; intuition discriminate.
  - destruct (use_regexp c); rewrite andb_false_r; intuition discriminate.
  - destruct (use_regexp c); rewrite andb_false_r; intuition discriminate.
  - destruct (use_regexp c); rewrite andb_false_r; intuition discriminate.
Qed.

(* the normalised item searches str objects as custom objects only for the item None or a container *)
Lemma prepare_unsearched : forall slower brepr re_ok c a cs it, a <> ANone ->
  prepare slower brepr re_ok c (VAtom a) = PItem cs it -> obj_searched it = false.
Proof.
  intros slower brepr re_ok c a cs it Ha H. cbn [prepare] in H. unfold prepare_atom in H.
  destruct a; try (exfalso; apply Ha; reflexivity); cbn in H;
    repeat (match type of H with context [if ?b then _ else _] => destruct b end; cbn in H);
    try discriminate; inversion H; subst; reflexivity.
Qed.

Lemma prepare_atom_item : forall slower brepr re_ok c a cs it,
  prepare slower brepr re_ok c (VAtom a) = PItem cs it -> atom_item it = true.
Proof.
  intros slower brepr re_ok c a cs it H. cbn [prepare] in H. unfold prepare_atom in H.
  destruct a; cbn in H;
    repeat (match type of H with context [if ?b then _ else _] => destruct b end; cbn in H);
    try discriminate; inversion H; subst; reflexivity.
Qed.

(* ---------- refutations of the full-strength exclusion clauses (witnesses) ---------- *)

Local Open Scope string_scope.

Definition id_repr : pystr -> pystr := fun s => s.
Definition no_re : pystr -> bool := fun _ => false.

(* K16: DeepSearch({'a':1.5,'b':'x1.5'}, '1.5', exclude_types=[float], strict_checking=False)
   reports root['a'], a float *)
Definition k16_cfg := mkConfig false false false false [] [TyB TFloat].
Definition k16_obj := XDict [(AStr (s2p "a"), XAtom (AHalf 3)); (AStr (s2p "b"), XAtom (AStr (s2p "x1.5")))].
Definition k16_item := VAtom (AStr (s2p "1.5")).

Theorem exclusions_types_refuted :
  exists evs q v,
    xwf k16_obj = true /\
    deep_search lower id_repr no_re true no_re [] [] [] k16_cfg k16_item k16_obj = ROk evs /\
    In (EvValue q v) evs /\ ty_excl k16_cfg (xtype_of v) = true.
Proof.
  eexists. exists [SKey (AStr (s2p "a"))], (XAtom (AHalf 3)).
  split; [reflexivity|]. split; [vm_compute; reflexivity|]. split; [left; reflexivity|reflexivity].
Qed.

(* K16 (second face): DeepSearch([1], '1', exclude_types=[str], strict_checking=False) reports
   nothing although root[0] matches and is not of an excluded type *)
Definition k16c_cfg := mkConfig false false false false [] [TyB TStr].
Definition k16c_obj := XList [XAtom (AInt 1)].
Definition k16c_item := VAtom (AStr (s2p "1")).

Theorem complete_refuted :
  exists cs it evs q v,
    xwf k16c_obj = true /\
    prepare lower id_repr true k16c_cfg k16c_item = PItem cs it /\
    deep_search lower id_repr no_re true no_re [] [] [] k16c_cfg k16c_item k16c_obj = ROk evs /\
    In (q, v) (matches_spec_doc lower id_repr no_re no_re k16c_cfg cs it k16c_obj) /\
    ~ In (EvValue q v) evs.
Proof.
  exists false, (EAtom (AStr (s2p "1"))). eexists. exists [SIdx 0], (XAtom (AInt 1)).
  split; [reflexivity|]. split; [reflexivity|]. split; [vm_compute; reflexivity|].
  split; [vm_compute; left; reflexivity|]. intros [].
Qed.

(* K16b: DeepSearch({'a': 1}, 'a', exclude_paths=["root['a']"]) reports root['a'] under matched_paths *)
Definition k16b_cfg := mkConfig false false false true [s2p "root['a']"] [].
Definition k16b_obj := XDict [(AStr (s2p "a"), XAtom (AInt 1))].
Definition k16b_item := VAtom (AStr (s2p "a")).

Theorem exclusions_paths_refuted :
  exists evs q v,
    xwf k16b_obj = true /\
    deep_search lower id_repr no_re true no_re [] [] [] k16b_cfg k16b_item k16b_obj = ROk evs /\
    In (EvPath q v) evs /\ path_excl id_repr no_re k16b_cfg q = true.
Proof.
  eexists. exists [SKey (AStr (s2p "a"))], (XAtom (AInt 1)).
  split; [reflexivity|]. split; [vm_compute; reflexivity|]. split; [left; reflexivity|vm_compute; reflexivity].
Qed.

(* K16f: DeepSearch({None: 'a'}, None) reports root[None].capitalize, which is not a location *)
Definition k16f_cfg := mkConfig false false false true [] [].
Definition k16f_obj := XDict [(ANone, XAtom (AStr (s2p "a")))].

Definition k16f_attrs := [s2p "capitalize"].
Theorem paths_only_locations_refuted :
  exists evs q n,
    xwf k16f_obj = true /\
    deep_search lower id_repr no_re true no_re [] k16f_attrs [] k16f_cfg (VAtom ANone) k16f_obj = ROk evs /\
    In (EvAttr q n) evs.
Proof.
  eexists. exists [SKey ANone], (s2p "capitalize").
  split; [reflexivity|]. split; [vm_compute; reflexivity|]. right. left. reflexivity.
Qed.

(* K16d (fixed in /repo by 9553299, 49764d9): DeepSearch([b'abc'], 'a') no longer raises *)
Definition k16d_obj := XList [XAtom (ABytes (s2p "abc")); XAtom (AStr (s2p "abc"))].
Definition k16d_item := VAtom (AStr (s2p "a")).
Example str_in_bytes_not_found :
  deep_search lower id_repr no_re true no_re [] [] [] k16f_cfg k16d_item k16d_obj
  = ROk [EvValue [SIdx 1] (XAtom (AStr (s2p "abc")))].
Proof. vm_compute. reflexivity. Qed.

(* K16i (fixed in /repo by bcd9dc1): a bytes pattern is no longer applied to the text of a number *)
Definition k16i_cfg := mkConfig false false true false [] [].
Definition k16i_obj := XList [XAtom (AInt 1); XAtom (ABytes (s2p "1"))].
Definition k16i_item := VAtom (ABytes (s2p "1")).
Definition k16i_re (s : pystr) : bool := pystr_eqb s (s2p "1").
Example bytes_pattern_on_numbers :
  deep_search lower id_repr k16i_re true no_re [] [] [] k16i_cfg k16i_item k16i_obj
  = ROk [EvValue [SIdx 1] (XAtom (ABytes (s2p "1")))].
Proof. vm_compute. reflexivity. Qed.

(* K16h: a container item is found only as an ITEM of a list / tuple / set:
   DeepSearch({'a': [1, 2]}, [1, 2]) == {}  although root['a'] == [1, 2];
   DeepSearch([[1, 2]], [1, 2]) reports root[0] *)
Definition k16h_item := VList [VAtom (AInt 1); VAtom (AInt 2)].
Definition k16h_obj := XDict [(AStr (s2p "a"), inj k16h_item)].
Definition k16h_text := s2p "[1, 2]".      (* str(item) *)
Definition k16h_obj2 := XList [XList [XAtom (AHalf 2); XAtom (AInt 2)]].
Theorem complete_container_refuted :
  exists cs it evs q v,
    xwf k16h_obj = true /\
    prepare lower id_repr true k16f_cfg k16h_item = PItem cs it /\ item_excl k16f_cfg it = false /\
    deep_search lower id_repr no_re true no_re k16h_text [] [] k16f_cfg k16h_item k16h_obj = ROk evs /\
    In (q, v) (matches_spec_doc lower id_repr no_re no_re k16f_cfg cs it k16h_obj) /\
    ~ In (EvValue q v) evs.
Proof.
  exists true, (EVal k16h_item). eexists. exists [SKey (AStr (s2p "a"))], (inj k16h_item).
  split; [reflexivity|]. split; [reflexivity|]. split; [reflexivity|]. split; [vm_compute; reflexivity|].
  split; [vm_compute; auto|]. intros [].
Qed.
Example container_item_found_in_list :
  deep_search lower id_repr no_re true no_re k16h_text [] [] k16f_cfg k16h_item k16h_obj2
  = ROk [EvValue [SIdx 0] (XList [XAtom (AHalf 2); XAtom (AInt 2)])].
Proof. vm_compute. reflexivity. Qed.

(* the guards are satisfiable by non-trivial inputs: an object with dictionaries, lists and
   excluded-type values placed in lists, an excluded list position *)
Definition guard_cfg := mkConfig false false false false [s2p "root['k'][0]"] [TyB TFloat].
Definition guard_obj :=
  XDict [(AStr (s2p "k"), XList [XAtom (AHalf 3); XAtom (AStr (s2p "x1.5")); XAtom (AHalf 3)]);
         (AStr (s2p "1.5"), XAtom (AStr (s2p "1.5")))].
Definition guard_item := AStr (s2p "1.5").
Definition guard_item_v := VAtom guard_item.
Definition guard_evs :=
  [EvValue [SKey (AStr (s2p "k")); SIdx 1] (XAtom (AStr (s2p "x1.5")));
   EvPath [SKey (AStr (s2p "1.5"))] (XAtom (AStr (s2p "1.5")));
   EvValue [SKey (AStr (s2p "1.5"))] (XAtom (AStr (s2p "1.5")))].
Example guards_satisfiable :
  xwf guard_obj = true /\ k16_guard guard_cfg guard_obj = true /\
  k16b_guard id_repr no_re guard_cfg guard_obj = true /\
  item_excl guard_cfg (EAtom guard_item) = false /\
  deep_search lower id_repr no_re true no_re [] [] [] guard_cfg guard_item_v guard_obj = ROk guard_evs.
Proof. repeat split; vm_compute; reflexivity. Qed.

(* ---------- DeepSearch never raises, apart from the documented TypeError of __init__ ---------- *)

Theorem never_raises : forall slower brepr re_search excl_re re_ok re_text sa ba c item obj,
  deep_search slower brepr re_search re_ok excl_re re_text sa ba c item obj = RRaise <->
  use_regexp c = true /\ item_is_text item = false /\ loose_number c item = false.
Proof.
  intros. rewrite deep_search_raise. apply prepare_raise.
Qed.

(* ... and re.error exactly when re.compile rejects the item *)
Theorem re_error_exact : forall slower brepr re_search excl_re re_ok re_text sa ba c item obj,
  deep_search slower brepr re_search re_ok excl_re re_text sa ba c item obj = RReErr <->
  use_regexp c = true /\ (item_is_text item = true \/ loose_number c item = true) /\ re_ok = false.
Proof.
  intros. rewrite deep_search_reerr. apply prepare_reerr.
Qed.

(* ---------- the result dictionaries (keyed by path text) ---------- *)

Lemma upsert_in : forall V k (v : V) d x, In x (upsert k v d) -> x = (k, v) \/ In x d.
Proof.
  intros V k v d x. induction d as [|[k' v'] r IH]; cbn [upsert].
  - intros [H|[]]; auto.
  - destruct (pystr_eqb k k') eqn:E.
    + apply pystr_eqb_eq in E. subst k'. intros [H|H]; [left; auto|right; right; auto].
    + intros [H|H]; [right; left; auto|]. destruct (IH H); auto. right. right. auto.
Qed.

Lemma upsert_has : forall V k (v : V) d, In (k, v) (upsert k v d).
Proof.
  intros V k v d. induction d as [|[k' v'] r IH]; cbn [upsert]; [left; auto|].
  destruct (pystr_eqb k k') eqn:E.
  - apply pystr_eqb_eq in E. subst k'. left. auto.
  - right. exact IH.
Qed.

Lemma upsert_keeps_key : forall V k (v : V) d k' v', In (k', v') d -> exists v'', In (k', v'') (upsert k v d).
Proof.
  intros V k v d k' v'. induction d as [|[k0 v0] r IH]; intros H; [destruct H|]. cbn [upsert].
  destruct (pystr_eqb k k0) eqn:E.
  - destruct H as [H|H].
    + inversion H; subst. exists v. left. auto.
    + exists v'. right. auto.
  - destruct H as [H|H].
    + inversion H; subst. exists v'. left. auto.
    + destruct (IH H) as [v'' Hv]. exists v''. right. auto.
Qed.

Section Dicts.
  Variable brepr : pystr -> pystr.
  Let vstep := fun (d : list (pystr * xvalue)) (e : event) =>
                 match e with EvValue p v => upsert (render brepr p) v d | _ => d end.

  Lemma mv_sound_gen : forall evs d t v, In (t, v) (fold_left vstep evs d) ->
    In (t, v) d \/ exists q, render brepr q = t /\ In (EvValue q v) evs.
  Proof.
    induction evs as [|e r IH]; intros d t v H; cbn [fold_left] in H; auto.
    apply IH in H. destruct H as [H|[q [H1 H2]]].
    - destruct e as [p w|p w|p n|p]; cbn [vstep] in H; auto.
      apply upsert_in in H. destruct H as [H|H]; auto. inversion H; subst.
      right. exists p. split; auto. left. auto.
    - right. exists q. split; auto. right. auto.
  Qed.

  Lemma mv_keys_gen : forall evs d,
    (forall t v, In (t, v) d -> exists v', In (t, v') (fold_left vstep evs d))
    /\ (forall q v, In (EvValue q v) evs -> exists v', In (render brepr q, v') (fold_left vstep evs d)).
  Proof.
    induction evs as [|e r IH]; intros d; cbn [fold_left].
    - split; [eauto|intros q v []].
    - destruct (IH (vstep d e)) as [IH1 IH2]. split.
      + intros t v H. destruct e as [p w|p w|p n|p]; cbn [vstep] in *; eauto.
        destruct (upsert_keeps_key _ (render brepr p) w d t v H) as [v'' Hv]. eauto.
      + intros q v [H|H]; [|eauto]. subst e. cbn [vstep] in *.
        apply (IH1 (render brepr q) v). apply upsert_has.
  Qed.

  (* matched_values: every entry comes from a reported location with that path text and
     that value; every reported location's path text is a key *)
  Theorem matched_values_spec : forall evs,
    (forall t v, In (t, v) (matched_values brepr evs) ->
                 exists q, render brepr q = t /\ In (EvValue q v) evs)
    /\ (forall q v, In (EvValue q v) evs -> exists v', In (render brepr q, v') (matched_values brepr evs)).
  Proof.
    intro evs. split.
    - intros t v H. apply mv_sound_gen in H. destruct H as [[]|H]. exact H.
    - intros q v H. apply (proj2 (mv_keys_gen evs [])) in H. exact H.
  Qed.

  (* the `unprocessed` list: exactly the texts of the EvUnproc events *)
  Theorem unprocessed_list_spec : forall evs t,
    In t (unprocessed brepr evs) <-> exists q, render brepr q = t /\ In (EvUnproc q) evs.
  Proof.
    intros evs t. unfold unprocessed. rewrite in_flat_map. split.
    - intros [e [He H]]. destruct e as [p w|p w|p n|p]; try destruct H as [H|[]]; try destruct H.
      exists p. split; auto.
    - intros [q [Hq He]]. exists (EvUnproc q). split; auto. left. exact Hq.
  Qed.
End Dicts.

(* ---------- final statements, on the constructor ---------- *)

Section Final.
  Variable slower : pystr -> pystr.
  Variable brepr : pystr -> pystr.
  Variable re_search excl_re : pystr -> bool.
  Variable re_ok : bool.
  Variable re_text : pystr.
  Variable sa ba : list pystr.
  Variable c : config.
  Variable item : value.
  Variable obj : xvalue.
  Variable cs : bool.
  Variable it : eitem.
  Variable evs : list event.
  Hypothesis Hwf : xwf obj = true.
  Hypothesis Hprep : prepare slower brepr re_ok c item = PItem cs it.
  Hypothesis Hrun : deep_search slower brepr re_search re_ok excl_re re_text sa ba c item obj = ROk evs.

  Lemma final_evs : evs = search slower brepr re_search excl_re re_text sa ba c cs it obj [].
  Proof.
    destruct (deep_search_ok _ _ _ _ _ _ _ _ _ _ _ _ Hrun) as [cs' [it' [H1 H2]]].
    rewrite Hprep in H1. inversion H1; subst. reflexivity.
  Qed.

  Lemma final_sound : forall q v, In (EvValue q v) evs ->
    get_at obj q = Some v /\ item_match slower brepr re_search c cs it v = true.
  Proof.
    intros q v H. rewrite final_evs in H. apply values_iff in H; auto.
    destruct H as [_ [Hg [_ Hm]]]. split; auto. unfold match_at in Hm. unfold item_match.
    destruct (leaf_match slower brepr re_search c cs it v); auto. cbn [orb] in *.
    apply andb_true_iff in Hm. tauto.
  Qed.

  Lemma final_values_exact : forall q v,
    In (EvValue q v) evs <-> In (q, v) (matches_spec slower brepr re_search excl_re c cs it obj).
  Proof. intros q v. rewrite final_evs. apply values_exact. exact Hwf. Qed.

  Lemma final_complete_partial : item_excl c it = false -> atom_item it = true -> forall q v,
    In (q, v) (matches_spec_doc slower brepr re_search excl_re c cs it obj) -> In (EvValue q v) evs.
  Proof. intros Hi Hai q v H. rewrite final_evs. apply complete_doc; auto. Qed.

  Lemma final_values_exact_doc_partial :
    item_excl c it = false -> atom_item it = true -> k16_guard c obj = true -> forall q v,
    In (EvValue q v) evs <-> In (q, v) (matches_spec_doc slower brepr re_search excl_re c cs it obj).
  Proof. intros Hi Hai Hg q v. rewrite final_evs. apply values_exact_doc; auto. Qed.

  Lemma final_paths_exact : forall q v,
    In (EvPath q v) evs <-> In (q, v) (paths_spec slower brepr re_search excl_re re_text c cs it obj).
  Proof. intros q v. rewrite final_evs. apply paths_exact. exact Hwf. Qed.

  Lemma final_paths_exact_doc_partial :
    item_excl c it = false -> atom_item it = true ->
    k16_guard c obj = true -> k16b_guard brepr excl_re c obj = true -> forall q v,
    In (EvPath q v) evs <-> In (q, v) (paths_spec_doc slower brepr re_search excl_re re_text c cs it obj).
  Proof. intros Hi Hai Hg Hgb q v. rewrite final_evs. apply paths_exact_doc; auto. Qed.

  Lemma final_only_locations_partial : forall a, item = VAtom a -> a <> ANone ->
    forall q n, ~ In (EvAttr q n) evs.
  Proof.
    intros a Ha Hi q n. rewrite final_evs. apply no_attr_partial; auto.
    subst item. eapply prepare_unsearched; eauto.
  Qed.

  Lemma final_unprocessed_exact : forall q,
    In (EvUnproc q) evs <-> In q (unprocessed_spec slower brepr excl_re c cs it obj).
  Proof. intros q. rewrite final_evs. apply unprocessed_exact. exact Hwf. Qed.

  (* nothing is reported at or below an object whose attributes cannot be read *)
  Lemma final_opaque_silent : forall q cl, get_at obj q = Some (XOpaque cl) ->
    (forall v, ~ In (EvValue q v) evs) /\
    (forall r s v, ~ In (EvValue (q ++ s :: r)%list v) evs) /\ (forall r s v, ~ In (EvPath (q ++ s :: r)%list v) evs).
  Proof.
    intros q cl Hg. rewrite final_evs. split; [|split].
    - intros v H. apply values_iff in H; auto. destruct H as [_ [Hg' [_ Hm]]].
      rewrite Hg in Hg'. inversion Hg'; subst v. unfold match_at in Hm. cbn [leaf_match orb] in Hm.
      apply andb_true_iff in Hm. destruct Hm as [_ Hm]. unfold shortcut, thing_eq_item in Hm.
      apply andb_true_iff in Hm. destruct Hm as [_ Hm]. destruct it as [a|b|w]; discriminate.
    - intros r s v H. apply values_iff in H; auto. destruct H as [_ [Hg' _]].
      rewrite get_at_app, Hg in Hg'. cbn [get_at] in Hg'. destruct s; discriminate.
    - intros r s v H. apply paths_exact in H; auto. unfold paths_spec in H.
      destruct (item_excl c it); [destruct H|]. apply filter_In in H. destruct H as [H _].
      apply in_locations_root in H; auto. cbn [fst snd] in H.
      rewrite get_at_app, Hg in H. cbn [get_at] in H. destruct s; discriminate.
  Qed.

  Lemma final_exclusions_partial : k16_guard c obj = true ->
    (forall q v, In (EvValue q v) evs -> vis_doc brepr excl_re c [] obj q = true)
    /\ (k16b_guard brepr excl_re c obj = true ->
        forall q v, In (EvPath q v) evs -> vis_doc brepr excl_re c [] obj q = true).
  Proof.
    intro Hg. rewrite final_evs. split.
    - intros q v. apply exclusions_values_partial; auto.
    - intros Hgb q v. apply exclusions_paths_partial; auto.
  Qed.
End Final.


(** Specification of DeepSearch, written independently of the control flow of
    the model: the set of ALL locations of the object (every sub-value with
    the key sequence leading to it), filtered by
      - visibility (no excluded path / excluded type on the way), and
      - the matching mode (substring / exact / case folding / regular
        expression / strict or loose number matching).
    Two readings of "excluded" are given: the documented one ([vis_doc]: a
    location is hidden when it or an ancestor has an excluded path or an
    excluded type) and the one the code implements ([vis]: exclude_types is
    only applied to items of lists / tuples / sets, finding K16).
    Definitions only. *)
From Coq Require Import List ZArith NArith Bool Arith String.
Import ListNotations.
From DD Require Import Base.Sx Base.PyStr Base.Value Search.SearchModel.

Definition step_is_idx (s : step) : bool := match s with SIdx _ => true | SKey _ | SAttr _ => false end.

(* obj[s] / getattr(obj, n) *)
Definition child (obj : xvalue) (s : step) : option xvalue :=
  match obj, s with
  | XList xs, SIdx i | XTuple xs, SIdx i => nth_error xs i
  | XSet xs, SIdx i | XFrozen xs, SIdx i => option_map XAtom (nth_error xs i)   (* i-th in iteration order *)
  | XDict kvs, SKey k => option_map snd (find (fun kv => atom_eqb (fst kv) k) kvs)
  | XObj _ avs, SAttr n | XNamed _ avs, SAttr n => option_map snd (find (fun av => pystr_eqb (fst av) n) avs)
  | _, _ => None
  end.

(* obj @ p *)
Fixpoint get_at (obj : xvalue) (p : path) : option xvalue :=
  match p with
  | [] => Some obj
  | s :: r => match child obj s with Some ch => get_at ch r | None => None end
  end.

(* every location below (and including) obj, which itself sits at p *)
Fixpoint locations (obj : xvalue) (p : path) {struct obj} : list (path * xvalue) :=
  (p, obj) ::
  match obj with
  | XAtom _ | XOpaque _ | XNum _ _ _ | XRef => []
  | XList xs | XTuple xs =>
      (fix go (xs : list xvalue) (i : nat) : list (path * xvalue) :=
         match xs with
         | [] => []
         | x :: r => (locations x (p ++ [SIdx i]) ++ go r (S i))%list
         end) xs 0
  | XDict kvs =>
      (fix go (kvs : list (atom * xvalue)) : list (path * xvalue) :=
         match kvs with
         | [] => []
         | kv :: r => (locations (snd kv) (p ++ [SKey (fst kv)]) ++ go r)%list
         end) kvs
  | XSet xs | XFrozen xs =>
      (fix go (xs : list atom) (i : nat) : list (path * xvalue) :=
         match xs with
         | [] => []
         | a :: r => ((p ++ [SIdx i])%list, XAtom a) :: go r (S i)
         end) xs 0
  | XObj _ avs | XNamed _ avs =>
      (fix go (avs : list (pystr * xvalue)) : list (path * xvalue) :=
         match avs with
         | [] => []
         | av :: r => (locations (snd av) (p ++ [SAttr (fst av)]) ++ go r)%list
         end) avs
  end.

(* no dictionary value / attribute value (at any depth) has a type for which f holds *)
Fixpoint dict_values_ok (f : xty -> bool) (obj : xvalue) : bool :=
  match obj with
  | XAtom _ | XSet _ | XFrozen _ | XOpaque _ | XNum _ _ _ | XRef => true
  | XList xs | XTuple xs => forallb (dict_values_ok f) xs
  | XDict kvs => forallb (fun kv => negb (f (xtype_of (snd kv))) && dict_values_ok f (snd kv)) kvs
  | XObj _ avs | XNamed _ avs => forallb (fun av => negb (f (xtype_of (snd av))) && dict_values_ok f (snd av)) avs
  end.

(* no dictionary entry / attribute (at any depth) has a path for which f holds; obj sits at p *)
Fixpoint dict_paths_ok (f : path -> bool) (obj : xvalue) (p : path) {struct obj} : bool :=
  match obj with
  | XAtom _ | XSet _ | XFrozen _ | XOpaque _ | XNum _ _ _ | XRef => true
  | XList xs | XTuple xs =>
      (fix go (xs : list xvalue) (i : nat) : bool :=
         match xs with
         | [] => true
         | x :: r => dict_paths_ok f x (p ++ [SIdx i]) && go r (S i)
         end) xs 0
  | XDict kvs =>
      (fix go (kvs : list (atom * xvalue)) : bool :=
         match kvs with
         | [] => true
         | kv :: r => negb (f (p ++ [SKey (fst kv)])%list)
                      && dict_paths_ok f (snd kv) (p ++ [SKey (fst kv)]) && go r
         end) kvs
  | XObj _ avs | XNamed _ avs =>
      (fix go (avs : list (pystr * xvalue)) : bool :=
         match avs with
         | [] => true
         | av :: r => negb (f (p ++ [SAttr (fst av)])%list)
                      && dict_paths_ok f (snd av) (p ++ [SAttr (fst av)]) && go r
         end) avs
  end.

Definition atom_not_bytes (a : atom) : bool := match a with ABytes _ => false | _ => true end.
Section Spec.
  Variable slower : pystr -> pystr.
  Variable brepr : pystr -> pystr.
  Variable re_search : pystr -> bool.
  Variable excl_re : pystr -> bool.
  Variable re_text : pystr.
  Variable str_attrs bytes_attrs : list pystr.
  Variable c : config.
  Variable cs : bool.
  Variable it : eitem.

  Notation render := (render brepr).
  Notation path_excl := (path_excl brepr excl_re c).
  Notation ty_excl := (ty_excl c).
  Notation item_excl := (item_excl c it).
  Notation fold_s := (fold_s slower cs).
  Notation item_text := (item_text brepr re_text it).
  Notation str_atom := (str_atom brepr).
  (* x == item (after case folding of a str x), the test of __search_iterable *)
  Notation equals_item := (shortcut slower c cs it).

  Definition is_nil {A} (l : list A) : bool := match l with [] => true | _ => false end.
  (* the last step of q is a position in a list / tuple / set *)
  Fixpoint last_is_idx (q : path) : bool :=
    match q with
    | [] => false
    | [s] => step_is_idx s
    | _ :: r => last_is_idx r
    end.

  (* ---- visibility of the location pre ++ rest, where obj sits at pre ---- *)

  (* as implemented: paths are tested at every level, types only for items of
     lists / tuples / sets; an item of a list / tuple / set that EQUALS the searched
     item is reported and not descended into ("the equality shortcut").
     [vis false] = the location is reached by the search (it may be reported);
     [vis true]  = the location is entered by __search (its own comparer runs, its
                   children are visited): not a sequence item equal to the item. *)
  Fixpoint vis (enter : bool) (pre : path) (obj : xvalue) (rest : path) {struct rest} : bool :=
    negb (path_excl pre) &&
    match rest with
    | [] => true
    | s :: r =>
        match child obj s with
        | Some ch => negb (step_is_idx s && ty_excl (xtype_of ch))
                     && negb (step_is_idx s && equals_item ch && (enter || negb (is_nil r)))
                     && vis enter (pre ++ [s]) ch r
        | None => false
        end
    end.

  (* as documented: "excluded paths and types never appear" *)
  Fixpoint vis_doc (pre : path) (obj : xvalue) (rest : path) {struct rest} : bool :=
    negb (path_excl pre) && negb (ty_excl (xtype_of obj)) &&
    match rest with
    | [] => true
    | s :: r =>
        match child obj s with
        | Some ch => vis_doc (pre ++ [s]) ch r
        | None => false
        end
    end.

  (* ---- matching modes ---- *)

  (* a str / bytes leaf *)
  Definition str_match (isb : bool) (s : pystr) : bool :=
    let txt := fold_s isb s in
    match it with
    | ERe b => Bool.eqb b isb && re_search txt
    | EAtom (AStr i) => negb isb && (if match_string c then pystr_eqb i txt else contains_sub i txt)
    | EAtom (ABytes i) => isb && (if match_string c then pystr_eqb i txt else contains_sub i txt)
    | EAtom _ | EVal _ => false
    end.
  (* a number: Python equality; loose: the text of the number *)
  Definition num_match (a : atom) : bool :=
    match it with
    | EAtom b => py_eq b a
                 || (negb (strict c) && match b with AStr i => pystr_eqb i (str_atom a) | _ => false end)
    | ERe b => negb (strict c) && negb b && re_search (str_atom a)
    | EVal _ => false
    end.
  Definition atom_match (a : atom) : bool :=
    match a with
    | ANone => match it with EAtom ANone => true | _ => false end
    | AStr s => str_match false s
    | ABytes s => str_match true s
    | ABool _ | AInt _ | AHalf _ => num_match a
    end.
  (* what matches AT a location by itself: an atom by the comparer of its type; a named tuple
     when it equals the (tuple) item (`obj == item` of __search_obj); no other container / instance *)
  (* a number-like leaf: Python equality with the number it stands for; loose: its text *)
  Definition xnum_match (vl : option atom) (tx : pystr) : bool :=
    match it with
    | EAtom b => match vl with Some a => py_eq b a | None => false end
                 || (negb (strict c) && match b with AStr i => pystr_eqb i tx | _ => false end)
    | ERe b => negb (strict c) && negb b && re_search tx
    | EVal _ => false
    end.
  Definition leaf_match (v : xvalue) : bool :=
    match v with
    | XAtom a => atom_match a
    | XNamed _ _ => self_eq it v
    | XNum _ vl tx => xnum_match vl tx
    | _ => false
    end.
  (* "v matches the item": by its comparer, or - for an item of a list / tuple / set -
     by equality with the item (the only way a container is ever matched: K16h) *)
  Definition match_at (seq_item : bool) (v : xvalue) : bool :=
    leaf_match v || (seq_item && equals_item v).
  (* documented reading: the comparer, or equality with the item, wherever the value sits *)
  Definition item_match (v : xvalue) : bool := leaf_match v || equals_item v.

  (* "the path text contains the item" *)
  Definition text_match (txt : pystr) : bool :=
    (match_string c && pystr_eqb item_text txt)
    || (negb (match_string c) && contains_sub item_text txt)
    || match it with ERe false => re_search txt | _ => false end.
  Definition path_match (q : path) : bool := text_match (fold_s false (render q)).

  (* finding K16f: with the item None (or a container item) a str / bytes is searched as a
     custom object *)
  Definition obj_searched : bool :=
    match it with EAtom ANone | EVal _ => true | _ => false end.
  Definition attrs_of (v : xvalue) : list pystr :=
    if obj_searched then
      match v with
      | XAtom (AStr _) => str_attrs
      | XAtom (ABytes _) => bytes_attrs
      | _ => []
      end
    else [].
  Definition attr_text (p : path) (n : pystr) : pystr := fold_s false (render p ++ [46%N] ++ n)%list.

  (* ---- the specifications as lists ---- *)

  (* matched_values, with exclusion as implemented *)
  Definition matches_spec (obj : xvalue) : list (path * xvalue) :=
    if item_excl then []
    else filter (fun pv => vis false [] obj (fst pv) && match_at (last_is_idx (fst pv)) (snd pv))
                (locations obj []).

  (* matched_values, with exclusion as documented *)
  Definition matches_spec_doc (obj : xvalue) : list (path * xvalue) :=
    filter (fun pv => vis_doc [] obj (fst pv) && item_match (snd pv)) (locations obj []).

  (* parent of a dictionary-entry / attribute location *)
  Definition entry_parent (q : path) : option path :=
    match rev q with SKey _ :: rp | SAttr _ :: rp => Some (rev rp) | _ => None end.

  (* matched_paths as implemented: dictionary entries of visible dictionaries
     that are entered by the search and whose path text matches (the entry's own path
     is not tested for exclusion: finding K16b) *)
  Definition paths_spec (obj : xvalue) : list (path * xvalue) :=
    if item_excl then []
    else filter (fun pv => match entry_parent (fst pv) with
                           | Some par => vis true [] obj par && path_match (fst pv) && negb (is_ref (snd pv))
                           | None => false
                           end) (locations obj []).

  (* matched_paths as documented *)
  Definition paths_spec_doc (obj : xvalue) : list (path * xvalue) :=
    filter (fun pv => match entry_parent (fst pv) with
                      | Some _ => vis_doc [] obj (fst pv) && path_match (fst pv) && negb (is_ref (snd pv))
                      | None => false
                      end) (locations obj []).

  (* guards under which the two readings of exclusion coincide *)
  Definition k16_guard (obj : xvalue) : bool :=
    negb (ty_excl (xtype_of obj)) && dict_values_ok ty_excl obj.
  Definition k16b_guard (obj : xvalue) : bool :=
    dict_paths_ok path_excl obj [].
  (* the item is an atom (None, number, str, bytes) or a compiled pattern: no container item *)
  Definition atom_item : bool := match it with EVal _ => false | _ => true end.

  (* `unprocessed`: the objects whose attributes cannot be read, where the search enters them *)
  Definition is_opaque (v : xvalue) : bool := match v with XOpaque _ => true | _ => false end.
  Definition unprocessed_spec (obj : xvalue) : list path :=
    if item_excl then []
    else map fst (filter (fun pv => vis true [] obj (fst pv) && is_opaque (snd pv)) (locations obj [])).
End Spec.

(** C16 and deepdiff.extract: search.py prints its paths itself ("'%s'" % key, always
    single quotes); for keys without a single quote (and within the guard of the C09
    round trip) that text is the one path.py prints, hence [extract] resolves every
    reported matched_values path to the reported value.  The Path block's universe has no
    objects with attributes: the statements are about plain values ([inj v]). *)
From Coq Require Import List ZArith NArith Bool Arith String Lia.
Import ListNotations.
From DD Require Import Base.Sx Base.PyStr Base.Value.
From DD Require Path.PathModel Path.PathProofs.
From DD Require Import Search.SearchModel Search.SearchSpec Search.SearchProofs.

Definition to_pkey (s : step) : pkey :=
  match s with SKey k => PKey k | SIdx i => PIdx i | SAttr n => PKey (AStr n) end.

(* the search printer and the path.py printer agree on this step, and the C09 round trip
   covers it *)
Definition tame_step (s : step) : bool :=
  match s with
  | SKey (AStr k) => negb (has_char PathModel.cSQ k)
  | SKey (ABytes _) | SAttr _ => false
  | _ => true
  end && PathModel.key_ok (to_pkey s).
Definition tame_path (p : path) : bool := forallb tame_step p.

(* no set / frozenset is subscripted on the way to obj@p (extract cannot index a set) *)
Fixpoint set_free_along (obj : xvalue) (p : path) : bool :=
  match p with
  | [] => true
  | s :: r =>
      match obj with XSet _ | XFrozen _ => false | _ => true end
      && match child obj s with Some ch => set_free_along ch r | None => true end
  end.

Lemma p_of_N_nat : forall i, p_of_N (N.of_nat i) = p_of_Z (Z.of_nat i).
Proof. destruct i; reflexivity. Qed.

Lemma str_half_repr : forall t, str_half t = PathModel.repr_half t.
Proof.
  intro t. unfold str_half, PathModel.repr_half. rewrite Zmod_even.
  destruct (Z.even (Z.abs t)); reflexivity.
Qed.

Lemma render_step_tame : forall brepr s, tame_step s = true ->
  render_step brepr s = PathModel.render_key (to_pkey s).
Proof.
  intros brepr s H. unfold tame_step in H. apply andb_true_iff in H. destruct H as [H _].
  destruct s as [k|i|n]; [| |discriminate].
  - destruct k as [|b|z|t|k|k]; try discriminate; cbn [render_step to_pkey].
    + reflexivity.
    + destruct b; reflexivity.
    + reflexivity.
    + unfold PathModel.render_key, PathModel.stringify_param. cbn [PathModel.key_atom PathModel.repr_atom str_atom].
      rewrite str_half_repr. reflexivity.
    + apply negb_true_iff in H.
      unfold PathModel.render_key, PathModel.stringify_param, PathModel.stringify_element. cbn [PathModel.key_atom].
      rewrite H. cbn [andb].
      destruct (has_char PathModel.cDQ k); cbn; rewrite <- ?app_assoc; reflexivity.
  - cbn [render_step to_pkey]. unfold PathModel.render_key, PathModel.stringify_param.
    cbn [PathModel.key_atom PathModel.repr_atom]. rewrite p_of_N_nat. reflexivity.
Qed.

Theorem render_tame : forall brepr p, tame_path p = true ->
  render brepr p = PathModel.render (map to_pkey p).
Proof.
  intros brepr p H. unfold render, PathModel.render, PathModel.root_str. f_equal.
  rewrite flat_map_concat_map, map_map. f_equal.
  induction p as [|s r IH]; auto. cbn [tame_path forallb] in H. apply andb_true_iff in H. destruct H as [H1 H2].
  cbn [map]. rewrite (render_step_tame brepr s H1). f_equal. apply IH. exact H2.
Qed.

Lemma tame_path_ok : forall p, tame_path p = true -> PathModel.path_ok (map to_pkey p) = true.
Proof.
  induction p as [|s r IH]; intro H; auto. cbn [tame_path forallb] in H. apply andb_true_iff in H.
  destruct H as [H1 H2]. cbn [map PathModel.path_ok forallb]. unfold tame_step in H1.
  apply andb_true_iff in H1. destruct H1 as [_ H1]. rewrite H1. apply IH. exact H2.
Qed.

(* a dictionary with pairwise non-equal keys: Python's lookup finds the entry *)
Lemma assoc_in : forall (kvs : list (atom * value)) k v,
  nodup_atoms (map fst kvs) = true -> In (k, v) kvs -> assoc k kvs = Some v.
Proof.
  induction kvs as [|[k0 v0] r IH]; intros k v Hnd Hin; [destruct Hin|].
  cbn in Hnd. apply andb_true_iff in Hnd. destruct Hnd as [Hnot Hnd]. cbn [assoc].
  destruct Hin as [Heq|Hin].
  - inversion Heq; subst. rewrite py_eq_refl. reflexivity.
  - destruct (py_eq k0 k) eqn:E.
    + exfalso. apply negb_true_iff in Hnot. unfold mem_atom in Hnot.
      assert (Hex : existsb (py_eq k0) (map fst r) = true).
      { apply existsb_exists. exists k. split; auto. apply (in_map fst _ _ Hin). }
      congruence.
    + apply IH; auto.
Qed.

Lemma seq_index_nat : forall (xs : list value) i x, nth_error xs i = Some x ->
  PathModel.seq_index xs (Z.of_nat i) = Some x.
Proof.
  intros xs i x H. unfold PathModel.seq_index.
  assert (Hlt : i < List.length xs) by (apply nth_error_Some; congruence).
  destruct (Z.ltb_spec (Z.of_nat i) 0); [lia|].
  destruct (Z.ltb_spec (Z.of_nat i) 0); [lia|].
  destruct (Z.leb_spec (Z.of_nat (List.length xs)) (Z.of_nat i)); [lia|].
  cbn [orb]. rewrite Nat2Z.id. exact H.
Qed.

Lemma xwf_inj : forall v, xwf (inj v) = wf v.
Proof.
  fix IH 1. intro v. destruct v as [a|xs|xs|kvs|xs|xs]; cbn [inj xwf wf]; try reflexivity.
  - induction xs as [|x r IHr]; cbn; [reflexivity|]. rewrite IH, IHr. reflexivity.
  - induction xs as [|x r IHr]; cbn; [reflexivity|]. rewrite IH, IHr. reflexivity.
  - rewrite map_map. cbn [fst]. f_equal.
    induction kvs as [|kv r IHr]; cbn; [reflexivity|]. rewrite IH, IHr. reflexivity.
Qed.

Lemma nth_error_map_some : forall (A B : Type) (f : A -> B) l i y,
  nth_error (map f l) i = Some y -> exists x, nth_error l i = Some x /\ y = f x.
Proof.
  intros A B f l. induction l as [|x r IH]; intros i y H; destruct i; cbn in H; try discriminate.
  - inversion H. exists x. auto.
  - apply IH in H. exact H.
Qed.

Lemma find_inj_some : forall (kvs : list (atom * value)) k kv,
  find (fun kv => atom_eqb (fst kv) k) (map (fun kv => (fst kv, inj (snd kv))) kvs) = Some kv ->
  exists v, In (fst kv, v) kvs /\ snd kv = inj v /\ fst kv = k.
Proof.
  induction kvs as [|[k0 v0] r IH]; intros k kv H; cbn [map find fst snd] in H; [discriminate|].
  destruct (atom_eqb k0 k) eqn:E.
  - inversion H; subst. cbn [fst snd]. exists v0. repeat split; auto using atom_eqb_eq. left. reflexivity.
  - destruct (IH k kv H) as [v [H1 [H2 H3]]]. exists v. repeat split; auto. right. exact H1.
Qed.

Lemma get_item_child : forall obj s ch, wf obj = true ->
  match inj obj with XSet _ | XFrozen _ => false | _ => true end = true ->
  child (inj obj) s = Some ch ->
  exists ch', ch = inj ch' /\ wf ch' = true
              /\ PathModel.get_item obj (PathModel.key_atom (to_pkey s)) = Some ch'.
Proof.
  intros obj s ch Hwf Hns Hc.
  destruct obj as [a|xs|xs|kvs|xs|xs], s as [k|i|n]; cbn [inj child] in Hc; try discriminate.
  - apply nth_error_map_some in Hc. destruct Hc as [x [Hn Hx]]. exists x. split; auto. split.
    + cbn in Hwf. rewrite forallb_forall in Hwf. eauto using nth_error_In.
    + cbn. apply seq_index_nat. exact Hn.
  - apply nth_error_map_some in Hc. destruct Hc as [x [Hn Hx]]. exists x. split; auto. split.
    + cbn in Hwf. rewrite forallb_forall in Hwf. eauto using nth_error_In.
    + cbn. apply seq_index_nat. exact Hn.
  - destruct (find _ _) as [kv|] eqn:Hf; [|discriminate]. apply find_inj_some in Hf.
    destruct Hf as [v [Hin [Hv Hk]]]. cbn in Hc. inversion Hc; subst. exists v. split; auto.
    cbn in Hwf. apply andb_true_iff in Hwf. destruct Hwf as [Hnd Hwfc]. split.
    + rewrite forallb_forall in Hwfc. apply (Hwfc _ Hin).
    + cbn [to_pkey PathModel.key_atom PathModel.get_item]. apply assoc_in; auto.
Qed.

Theorem resolve_get_at : forall q obj w, wf obj = true -> set_free_along (inj obj) q = true ->
  get_at (inj obj) q = Some w ->
  exists v, w = inj v /\ PathModel.resolve obj (map to_pkey q) = Some v.
Proof.
  induction q as [|s r IH]; intros obj w Hwf Hsf Hg; cbn [get_at] in Hg.
  - inversion Hg. exists obj. auto.
  - cbn [set_free_along] in Hsf. apply andb_true_iff in Hsf. destruct Hsf as [Hns Hsf].
    destruct (child (inj obj) s) as [ch|] eqn:Hc; [|discriminate].
    destruct (get_item_child obj s ch Hwf Hns Hc) as [ch' [Hch [Hwf' Hgi]]]. subst ch.
    cbn [map PathModel.resolve]. rewrite Hgi. apply IH; auto.
Qed.

(* every reported matched_values path of a plain value, when tame and not through a set, is resolved
   by deepdiff.extract to the reported value, which matches the item *)
Theorem sound_extract_partial :
  forall (slower brepr : pystr -> pystr) (re_search excl_re : pystr -> bool) (re_ok : bool) (re_text : pystr)
         (sa ba : list pystr) (c : config) (item : value) (obj : value) (cs : bool)
         (it : eitem) (evs : list event),
    wf obj = true ->
    prepare slower brepr re_ok c item = PItem cs it ->
    deep_search slower brepr re_search re_ok excl_re re_text sa ba c item (inj obj) = ROk evs ->
    forall (q : path) (w : xvalue),
      In (EvValue q w) evs -> tame_path q = true -> set_free_along (inj obj) q = true ->
      exists v : value, w = inj v /\ PathModel.extract obj (render brepr q) = Some v
                        /\ item_match slower brepr re_search c cs it w = true.
Proof.
  intros slower brepr re_search excl_re re_ok re_text sa ba c item obj cs it evs Hwf Hp Hr q w Hin Ht Hs.
  assert (Hxwf : xwf (inj obj) = true) by (rewrite xwf_inj; exact Hwf).
  destruct (final_sound _ _ _ _ _ _ _ _ _ _ _ _ _ _ Hxwf Hp Hr q w Hin) as [Hg Hm].
  destruct (resolve_get_at q obj w Hwf Hs Hg) as [v [Hw Hres]]. exists v. split; auto. split; auto.
  rewrite (render_tame brepr q Ht).
  rewrite (PathProofs.extract_render obj (map to_pkey q) (tame_path_ok q Ht)). exact Hres.
Qed.

(* the same for matched_paths entries *)
Theorem paths_extract_partial :
  forall (slower brepr : pystr -> pystr) (re_search excl_re : pystr -> bool) (re_ok : bool) (re_text : pystr)
         (sa ba : list pystr) (c : config) (item : value) (obj : value) (cs : bool)
         (it : eitem) (evs : list event),
    wf obj = true ->
    prepare slower brepr re_ok c item = PItem cs it ->
    deep_search slower brepr re_search re_ok excl_re re_text sa ba c item (inj obj) = ROk evs ->
    forall (q : path) (w : xvalue),
      In (EvPath q w) evs -> tame_path q = true -> set_free_along (inj obj) q = true ->
      exists v : value, w = inj v /\ PathModel.extract obj (render brepr q) = Some v.
Proof.
  intros slower brepr re_search excl_re re_ok re_text sa ba c item obj cs it evs Hwf Hp Hr q w Hin Ht Hs.
  assert (Hxwf : xwf (inj obj) = true) by (rewrite xwf_inj; exact Hwf).
  apply (final_paths_exact _ _ _ _ _ _ _ _ _ _ _ _ _ _ Hxwf Hp Hr) in Hin.
  unfold paths_spec in Hin. destruct (item_excl c it); [destruct Hin|]. apply filter_In in Hin.
  destruct Hin as [Hl _]. apply in_locations_root in Hl; auto. cbn [fst snd] in Hl.
  destruct (resolve_get_at q obj w Hwf Hs Hl) as [v [Hw Hres]]. exists v. split; auto.
  rewrite (render_tame brepr q Ht).
  rewrite (PathProofs.extract_render obj (map to_pkey q) (tame_path_ok q Ht)). exact Hres.
Qed.

(* K16g: DeepSearch({"a'b": 'x'}, 'x') reports root['a'b'], which extract cannot resolve *)
Local Open Scope string_scope.
Definition k16g_val := VDict [(AStr (s2p "a'b"), VAtom (AStr (s2p "x")))].
Definition k16g_obj := inj k16g_val.
Definition k16g_item := VAtom (AStr (s2p "x")).
Theorem sound_extract_refuted :
  exists evs q v,
    wf k16g_val = true /\
    deep_search lower id_repr no_re true no_re [] [] [] k16f_cfg k16g_item k16g_obj = ROk evs /\
    In (EvValue q v) evs /\ set_free_along k16g_obj q = true /\
    PathModel.extract k16g_val (render id_repr q) = None.
Proof.
  eexists. exists [SKey (AStr (s2p "a'b"))], (XAtom (AStr (s2p "x"))).
  split; [reflexivity|]. split; [vm_compute; reflexivity|]. split; [left; reflexivity|].
  split; vm_compute; reflexivity.
Qed.

(* the guard is met by hostile but single-quote-free keys *)
Example tame_example_ok : tame_path [SKey (AStr (s2p "a""b][c.d e")); SIdx 3; SKey (AHalf (-3)); SKey ANone;
                                      SKey (AStr []); SKey (ABool true); SKey (AInt (-7))] = true.
Proof. vm_compute. reflexivity. Qed.

(* ---------- the result dictionary, exactly ---------- *)

(* two tame key sequences that both lead somewhere in the same object and have the same text
   are the same key sequence (an int key and a position print alike, but a value is not both a
   dictionary and a list) *)
Lemma located_norm_inj : forall q1 q2 (obj : xvalue) w1 w2,
  PathModel.norm (map to_pkey q1) = PathModel.norm (map to_pkey q2) ->
  tame_path q1 = true -> tame_path q2 = true ->
  get_at obj q1 = Some w1 -> get_at obj q2 = Some w2 -> q1 = q2.
Proof.
  induction q1 as [|s1 r1 IH]; intros [|s2 r2] obj w1 w2 Hn Ht1 Ht2 Hg1 Hg2; try discriminate; auto.
  cbn [map PathModel.norm] in Hn. unfold PathModel.norm in Hn. cbn [map] in Hn. inversion Hn as [[Hk Hr]].
  cbn [tame_path forallb] in Ht1, Ht2. apply andb_true_iff in Ht1. apply andb_true_iff in Ht2.
  destruct Ht1 as [Hs1 Ht1], Ht2 as [Hs2 Ht2].
  cbn [get_at] in Hg1, Hg2.
  destruct (child obj s1) as [c1|] eqn:Hc1; [|discriminate].
  destruct (child obj s2) as [c2|] eqn:Hc2; [|discriminate].
  assert (Hs : s1 = s2).
  { destruct s1 as [a1|i1|n1], s2 as [a2|i2|n2]; cbn [to_pkey PathModel.key_atom] in Hk;
      try (unfold tame_step in Hs1; cbn in Hs1; discriminate);
      try (unfold tame_step in Hs2; cbn in Hs2; discriminate).
    - congruence.
    - destruct obj; cbn [child] in Hc1, Hc2; discriminate.
    - destruct obj; cbn [child] in Hc1, Hc2; discriminate.
    - inversion Hk as [Hz]. apply Nat2Z.inj in Hz. congruence. }
  subst s2. rewrite Hc1 in Hc2. inversion Hc2; subst c2. f_equal.
  apply (IH r2 c1 w1 w2); auto.
Qed.

Lemma located_render_inj : forall brepr q1 q2 (obj : xvalue) w1 w2,
  tame_path q1 = true -> tame_path q2 = true ->
  get_at obj q1 = Some w1 -> get_at obj q2 = Some w2 ->
  render brepr q1 = render brepr q2 -> q1 = q2.
Proof.
  intros brepr q1 q2 obj w1 w2 Ht1 Ht2 Hg1 Hg2 E.
  rewrite (render_tame brepr q1 Ht1), (render_tame brepr q2 Ht2) in E.
  apply (located_norm_inj q1 q2 obj w1 w2); auto.
  apply PathProofs.render_inj; auto using tame_path_ok.
Qed.

Lemma upsert_other : forall V k (v : V) d k' v', pystr_eqb k k' = false -> In (k', v') d -> In (k', v') (upsert k v d).
Proof.
  intros V k v d k' v' Hne. induction d as [|[k0 v0] r IH]; intro H; [destruct H|]. cbn [upsert].
  destruct (pystr_eqb k k0) eqn:E.
  - destruct H as [H|H]; [|right; exact H]. inversion H; subst. congruence.
  - destruct H as [H|H]; [left; exact H|right; auto].
Qed.

(* when all the reports that share a text carry the same value, each of them is an entry of the
   text-keyed dictionary *)
Lemma matched_values_complete : forall brepr evs q v,
  (forall q' v', In (EvValue q' v') evs -> render brepr q' = render brepr q -> v' = v) ->
  In (EvValue q v) evs -> In (render brepr q, v) (matched_values brepr evs).
Proof.
  intros brepr evs q v. unfold matched_values.
  induction evs as [|e l IH] using rev_ind; intros Hsame Hin; [destruct Hin|].
  rewrite fold_left_app. cbn [fold_left].
  assert (Hsame' : forall q' v', In (EvValue q' v') l -> render brepr q' = render brepr q -> v' = v).
  { intros q' v' H. apply Hsame. apply in_or_app. left. exact H. }
  apply in_app_or in Hin. destruct e as [p w|p w|p n|p].
  - destruct (pystr_eqb (render brepr p) (render brepr q)) eqn:E.
    + apply pystr_eqb_eq in E. assert (w = v) by (apply (Hsame p w); [apply in_or_app; right; left; reflexivity|exact E]).
      subst w. rewrite E. apply upsert_has.
    + apply upsert_other; [exact E|]. destruct Hin as [Hin|[Hin|[]]]; [apply IH; auto|].
      inversion Hin; subst. rewrite pystr_eqb_refl in E. discriminate.
  - destruct Hin as [Hin|[Hin|[]]]; [apply IH; auto|discriminate].
  - destruct Hin as [Hin|[Hin|[]]]; [apply IH; auto|discriminate].
  - destruct Hin as [Hin|[Hin|[]]]; [apply IH; auto|discriminate].
Qed.

(* THE RESULT DICTIONARY matched_values (keyed by path text, verbose_level 2) is exactly the set of
   (text of q, value) for the reported locations q, provided the reported paths are tame: then no two
   reported locations share a text *)
Theorem result_dict_exact_partial :
  forall (slower brepr : pystr -> pystr) (re_search excl_re : pystr -> bool) (re_ok : bool) (re_text : pystr)
         (sa ba : list pystr) (c : config) (item : value) (obj : xvalue) (cs : bool)
         (it : eitem) (evs : list event),
    xwf obj = true ->
    prepare slower brepr re_ok c item = PItem cs it ->
    deep_search slower brepr re_search re_ok excl_re re_text sa ba c item obj = ROk evs ->
    (forall q v, In (EvValue q v) evs -> tame_path q = true) ->
    forall (t : pystr) (v : xvalue),
      In (t, v) (matched_values brepr evs) <->
      exists q : path, render brepr q = t /\ In (q, v) (matches_spec slower brepr re_search excl_re c cs it obj).
Proof.
  intros slower brepr re_search excl_re re_ok re_text sa ba c item obj cs it evs Hwf Hp Hr Htame t v.
  pose proof (final_values_exact _ _ _ _ _ _ _ _ _ _ _ _ _ _ Hwf Hp Hr) as Hex.
  split.
  - intro H. apply (proj1 (matched_values_spec brepr evs)) in H. destruct H as [q [Hq Hin]].
    exists q. split; auto. apply Hex. exact Hin.
  - intros [q [Hq Hin]]. subst t. apply Hex in Hin. apply matched_values_complete; auto.
    intros q' v' Hin' E.
    destruct (final_sound _ _ _ _ _ _ _ _ _ _ _ _ _ _ Hwf Hp Hr q v Hin) as [Hg _].
    destruct (final_sound _ _ _ _ _ _ _ _ _ _ _ _ _ _ Hwf Hp Hr q' v' Hin') as [Hg' _].
    assert (q' = q) by (apply (located_render_inj brepr q' q obj v' v); eauto).
    subst q'. congruence.
Qed.

(* ... and not in general: two locations with one text (the key "a']['b" beside the key "a" of a
   dictionary with the key "b"): the dictionary keeps ONE of the two reported values *)
Definition amb_val :=
  VDict [(AStr (s2p "a']['b"), VAtom (AStr (s2p "x")));
         (AStr (s2p "a"), VDict [(AStr (s2p "b"), VAtom (AStr (s2p "xy")))])].
Theorem result_dict_refuted :
  exists evs q v,
    wf amb_val = true /\
    deep_search lower id_repr no_re true no_re [] [] [] k16f_cfg k16g_item (inj amb_val) = ROk evs /\
    In (EvValue q v) evs /\ ~ In (render id_repr q, v) (matched_values id_repr evs).
Proof.
  eexists. exists [SKey (AStr (s2p "a']['b"))], (XAtom (AStr (s2p "x"))).
  split; [reflexivity|]. split; [vm_compute; reflexivity|]. split; [left; reflexivity|].
  vm_compute. intros [H|[]]. inversion H.
Qed.

(* the guard of result_dict_exact_partial holds on the run of guards_satisfiable (two value reports) *)
Example result_dict_guard_satisfiable :
  forall q v, In (EvValue q v) guard_evs -> tame_path q = true.
Proof.
  intros q v [H|[H|[H|[]]]]; try discriminate; inversion H; subst; vm_compute; reflexivity.
Qed.

#!/bin/bash
cd /verif/coq/wip/search/tree
for f in "$@"; do
  echo "== $f"; rm -f "$f.vo"
  timeout 900 coqc -Q . DD -w -notation-overridden,-deprecated-hint-without-locality "$f.v" 2>&1 | grep -v conda || true
  [ -f "$f.vo" ] || { echo "FAILED $f"; exit 1; }
done

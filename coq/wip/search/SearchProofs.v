(** Proofs for C16: the model of DeepSearch reports exactly the visible
    matching locations. *)
From Coq Require Import List ZArith NArith Bool Arith String Lia.
Import ListNotations.
From DD Require Import Base.Sx Base.PyStr Base.Value Search.SearchModel Search.SearchSpec.

(* ---------- generalities the Base files do not provide ---------- *)

Lemma pystr_eqb_eq : forall a b, pystr_eqb a b = true -> a = b.
Proof.
  unfold pystr_eqb. induction a as [|x a IH]; destruct b as [|y b]; intro H; try discriminate; auto.
  apply andb_true_iff in H. destruct H as [H1 H2]. apply N.eqb_eq in H1. subst. f_equal. auto.
Qed.

Lemma pystr_eqb_refl : forall a, pystr_eqb a a = true.
Proof. unfold pystr_eqb. induction a as [|x a IH]; auto. rewrite N.eqb_refl. exact IH. Qed.

Lemma atom_eqb_eq : forall a b, atom_eqb a b = true -> a = b.
Proof.
  intros x y. destruct x as [|b1|z1|t1|s1|s1], y as [|b2|z2|t2|s2|s2]; cbn; intro H; try discriminate; auto.
  - apply Bool.eqb_prop in H. subst. auto.
  - apply Z.eqb_eq in H. subst. auto.
  - apply Z.eqb_eq in H. subst. auto.
  - apply pystr_eqb_eq in H. subst. auto.
  - apply pystr_eqb_eq in H. subst. auto.
Qed.

Lemma atom_eqb_refl : forall a, atom_eqb a a = true.
Proof.
  intros x. destruct x as [|b1|z1|t1|s1|s1]; cbn; auto using Z.eqb_refl, pystr_eqb_refl. destruct b1; auto.
Qed.

Lemma py_eq_refl : forall a, py_eq a a = true.
Proof.
  intros x. destruct x as [|b1|z1|t1|s1|s1]; cbn; auto using Z.eqb_refl, pystr_eqb_refl.
Qed.

(* induction over values with the nested lists *)
Section ValueInd.
  Variable P : value -> Prop.
  Hypothesis Hatom : forall a, P (VAtom a).
  Hypothesis Hlist : forall xs, Forall P xs -> P (VList xs).
  Hypothesis Htuple : forall xs, Forall P xs -> P (VTuple xs).
  Hypothesis Hdict : forall kvs, Forall (fun kv => P (snd kv)) kvs -> P (VDict kvs).
  Hypothesis Hset : forall xs, P (VSet xs).
  Hypothesis Hfrozen : forall xs, P (VFrozen xs).
  Fixpoint value_ind' (v : value) : P v :=
    match v with
    | VAtom a => Hatom a
    | VList xs => Hlist xs ((fix go (l : list value) : Forall P l :=
                               match l with [] => Forall_nil _ | x :: r => Forall_cons _ (value_ind' x) (go r) end) xs)
    | VTuple xs => Htuple xs ((fix go (l : list value) : Forall P l :=
                               match l with [] => Forall_nil _ | x :: r => Forall_cons _ (value_ind' x) (go r) end) xs)
    | VDict kvs => Hdict kvs ((fix go (l : list (atom * value)) : Forall (fun kv => P (snd kv)) l :=
                               match l with [] => Forall_nil _ | x :: r => Forall_cons _ (value_ind' (snd x)) (go r) end) kvs)
    | VSet xs => Hset xs
    | VFrozen xs => Hfrozen xs
    end.
End ValueInd.

(* a dictionary with pairwise non-equal keys maps a key to the entry that holds it *)
Lemma mem_atom_in : forall k l, In k l -> mem_atom k l = true.
Proof.
  unfold mem_atom. intros k l H. apply existsb_exists. exists k. split; auto using py_eq_refl.
Qed.

Lemma find_key_in : forall (kvs : list (atom * value)) k v,
  nodup_atoms (map fst kvs) = true -> In (k, v) kvs ->
  find (fun kv => atom_eqb (fst kv) k) kvs = Some (k, v).
Proof.
  induction kvs as [|[k0 v0] r IH]; intros k v Hnd Hin; [destruct Hin|].
  cbn in Hnd. apply andb_true_iff in Hnd. destruct Hnd as [Hnot Hnd].
  cbn [find fst]. destruct Hin as [Heq|Hin].
  - inversion Heq; subst. rewrite atom_eqb_refl. reflexivity.
  - destruct (atom_eqb k0 k) eqn:E.
    + apply atom_eqb_eq in E. subst k0.
      assert (Hm : mem_atom k (map fst r) = true) by (apply mem_atom_in; apply (in_map fst _ _ Hin)).
      rewrite Hm in Hnot. discriminate.
    + apply IH; auto.
Qed.

Lemma find_key_some : forall (kvs : list (atom * value)) k kv,
  find (fun kv => atom_eqb (fst kv) k) kvs = Some kv -> In kv kvs /\ fst kv = k.
Proof.
  intros kvs k kv H. apply find_some in H. destruct H as [H1 H2]. split; auto using atom_eqb_eq.
Qed.

Lemma wf_dict_inv : forall kvs, wf (VDict kvs) = true ->
  nodup_atoms (map fst kvs) = true /\ forall kv, In kv kvs -> wf (snd kv) = true.
Proof.
  intros kvs H. cbn in H. apply andb_true_iff in H. destruct H as [H1 H2]. split; auto.
  intros kv Hin. rewrite forallb_forall in H2. auto.
Qed.

Lemma wf_list_inv : forall xs, forallb wf xs = true -> forall x, In x xs -> wf x = true.
Proof. intros xs H x Hin. rewrite forallb_forall in H. auto. Qed.

Lemma nth_error_map_atom : forall (xs : list atom) i,
  nth_error (map VAtom xs) i = option_map VAtom (nth_error xs i).
Proof. induction xs as [|a r IH]; destruct i; cbn; auto. Qed.

Section Proofs.
  Variable brepr : pystr -> pystr.
  Variable re_search : pystr -> bool.
  Variable excl_re : pystr -> bool.
  Variable re_text : pystr.
  Variable str_attrs bytes_attrs : list pystr.
  Variable c : config.
  Variable cs : bool.
  Variable it : eitem.

  Notation render := (render brepr).
  Notation path_excl := (path_excl brepr excl_re c).
  Notation ty_excl := (ty_excl c).
  Notation item_excl := (item_excl c it).
  Notation skip_item := (skip_item brepr excl_re c it).
  Notation skip_this := (skip_this brepr excl_re c).
  Notation fold_s := (fold_s cs).
  Notation search := (search brepr re_search excl_re re_text str_attrs bytes_attrs c cs it).
  Notation search_leaf := (search_leaf brepr re_search re_text str_attrs bytes_attrs c cs it).
  Notation search_atom := (search_atom brepr re_search excl_re re_text str_attrs bytes_attrs c cs it).
  Notation search_str := (search_str re_search c cs it).
  Notation search_numbers := (search_numbers brepr re_search c it).
  Notation search_obj_atom := (search_obj_atom brepr re_search re_text str_attrs bytes_attrs c cs it).
  Notation attr_events := (attr_events brepr re_search re_text c cs it).
  Notation thing_events := (thing_events brepr excl_re c cs it).
  Notation path_event := (path_event brepr re_search re_text c cs it).
  Notation path_test := (path_test brepr re_search re_text c it).
  Notation shortcut := (shortcut c cs it).
  Notation vis := (vis brepr excl_re c).
  Notation vis_doc := (vis_doc brepr excl_re c).
  Notation leaf_match := (leaf_match brepr re_search c cs it).
  Notation leaf_raises := (leaf_raises c it).
  Notation atom_match := (atom_match brepr re_search c cs it).
  Notation atom_raises := (atom_raises c it).
  Notation str_match := (str_match re_search c cs it).
  Notation str_raises := (str_raises c it).
  Notation num_match := (num_match brepr re_search c it).
  Notation num_raises := (num_raises c it).
  Notation text_match := (text_match brepr re_search re_text c it).
  Notation text_raises := (text_raises brepr re_text c it).
  Notation path_match := (path_match brepr re_search re_text c cs it).
  Notation attrs_of := (attrs_of str_attrs bytes_attrs it).
  Notation attr_text := (attr_text brepr cs).
  Notation matches_spec := (matches_spec brepr re_search excl_re c cs it).
  Notation matches_spec_doc := (matches_spec_doc brepr re_search excl_re c cs it).
  Notation paths_spec := (paths_spec brepr re_search excl_re re_text c cs it).
  Notation paths_spec_doc := (paths_spec_doc brepr re_search excl_re re_text c cs it).
  Notation raises_spec := (raises_spec brepr excl_re re_text c cs it).
  Notation k16_guard := (k16_guard c).
  Notation k16b_guard := (k16b_guard brepr excl_re c).

  (* what the search emits AT one location (p, w), not counting what it emits
     below it *)
  Inductive local_ev (p : path) (w : value) : event -> Prop :=
  | LValue : leaf_match w = true -> local_ev p w (EvValue p w)
  | LRaise : leaf_raises w = true -> local_ev p w EvRaise
  | LAttr : forall n, In n (attrs_of w) -> text_match (attr_text p n) = true ->
                      local_ev p w (EvAttr p n)
  | LPath : forall kvs k ch, w = VDict kvs -> In (k, ch) kvs ->
                             path_match (p ++ [SKey k]) = true ->
                             local_ev p w (EvPath (p ++ [SKey k]) ch)
  | LPathRaise : forall kvs k ch, w = VDict kvs -> In (k, ch) kvs ->
                             text_raises (fold_s (render (p ++ [SKey k]))) = true ->
                             local_ev p w EvRaise.

  (* ---------- the leaf comparers ---------- *)

  Ltac crush := cbn [In]; intuition (try discriminate; try congruence; auto).

  Lemma path_test_iff : forall txt hit ev,
    In ev (path_test txt hit) <->
    (text_match txt = true /\ In ev hit) \/ (text_raises txt = true /\ ev = EvRaise).
  Proof.
    intros txt hit ev. unfold SearchModel.path_test, SearchSpec.text_match, SearchSpec.text_raises.
    destruct (match_string c && pystr_eqb _ txt || negb (match_string c) && contains_sub _ txt) eqn:E;
      cbn [negb orb andb]; [crush|].
    destruct it as [a|[|]]; try destruct (re_search txt); crush.
  Qed.

  Lemma search_str_iff : forall isb s p ev,
    In ev (search_str isb s p) <->
    (str_match isb s = true /\ ev = EvValue p (VAtom (if isb then ABytes s else AStr s)))
    \/ (str_raises isb = true /\ ev = EvRaise).
  Proof.
    intros isb s p ev. unfold SearchModel.search_str, SearchSpec.str_match, SearchSpec.str_raises.
    destruct it as [[| | | |i|i]|b]; try (crush; fail).
    - destruct (match_string c), isb; cbn;
        try destruct (pystr_eqb i _); try destruct (contains_sub i _); crush.
    - destruct (match_string c), isb; cbn;
        try destruct (pystr_eqb i _); try destruct (contains_sub i _); crush.
    - destruct b, isb; cbn; try destruct (re_search _); crush.
  Qed.

  Lemma search_numbers_iff : forall a p ev,
    In ev (search_numbers a p) <->
    (num_match a = true /\ ev = EvValue p (VAtom a)) \/ (num_raises = true /\ ev = EvRaise).
  Proof.
    intros a p ev. unfold SearchModel.search_numbers, SearchSpec.num_match, SearchSpec.num_raises, eq_item.
    destruct it as [b|[|]].
    - destruct (py_eq b a); cbn [orb]; [crush|].
      destruct (strict c); cbn [negb andb]; [crush|].
      destruct b; try destruct (pystr_eqb _ _); crush.
    - destruct (strict c); crush.
    - destruct (strict c); cbn [negb andb]; try destruct (re_search _); crush.
  Qed.

  Lemma attr_events_iff : forall names p ev,
    In ev (attr_events names p) <->
    exists n, In n names /\ ((text_match (attr_text p n) = true /\ ev = EvAttr p n)
                             \/ (text_raises (attr_text p n) = true /\ ev = EvRaise)).
  Proof.
    intros names p ev. unfold SearchModel.attr_events. rewrite in_flat_map. split.
    - intros [n [Hn H]]. apply path_test_iff in H. exists n. split; auto.
      destruct H as [[H1 [H2|[]]]|[H1 H2]]; auto.
    - intros [n [Hn H]]. exists n. split; auto. apply path_test_iff.
      destruct H as [[H1 H2]|[H1 H2]]; [left|right]; split; auto. left; auto.
  Qed.
End Proofs.
